(** C09 on a moving store, arbitrary iterator scripts: proof of [stmt_live_script] of LiveScriptStmts.v.

    Method.  [K := visk sn (store d0)], the (vid, item, bornSn) list of the versions visible to the
    snapshot, is the same list in every store the script passes through (run_visk of LiveProofs.v,
    one LOps segment at a time).  The simulation [sim K sn p li] relates the specification's position
    [p] to the live iterator [li]:
      - [p = Some k]: the iterator is positioned and stands on the node whose vid is that of the k-th
        element of [K]; for [k >= length K] it stands on no node (exhausted);
      - [p = None]: the iterator has not been positioned yet and stands on no node.
    Counter and refresh rate of the iterator are unconstrained.  Every iterator operation preserves
    [sim] on every store that satisfies store_inv and has [visk sn s = K] (step_sim), the observation
    of related states agree (obs_sim), and the LOps segments do not touch the iterator. *)
From Coq Require Import List NArith ZArith Bool Lia.
From NV Require Import Base.Bytes Codec.Frame Mvcc.Store Mvcc.Ops Mvcc.Spec Mvcc.InvDefs Mvcc.Stmts
  Mvcc.OpsProofs Mvcc.IterProofs Mvcc.RefineStmt Mvcc.Refine Mvcc.Live Mvcc.LiveStmts Mvcc.CmpInst
  Mvcc.LiveProofs Mvcc.LiveScriptStmts.
From Coq Require Import ZifyN ZifyNat ZifyBool.
Import ListNotations.
Open Scope N_scope.

Definition is_itop (o : lop) : bool := match o with LOps _ => false | _ => true end.

(** the simulation relation *)
Definition sim (K : list (N * list N * N)) (sn : N) (p : option nat) (li : liter) : Prop :=
  match p with
  | Some k => li_at K sn k li
  | None => li_sn li = sn /\ li_positioned li = false /\ li_vid li = None
  end.

Lemma option_map_kvid_vkey (x : option ver) : option_map kvid (option_map vkey x) = option_map vid x.
Proof. destruct x; reflexivity. Qed.

Section LiveScriptProofs.
Variable kcmp : list N -> list N -> comparison.
Hypothesis laws : cmp_laws kcmp.

(** * unfolding the three runners *)
Lemma live_run_it d li o r : is_itop o = true ->
  fst (live_run kcmp d li (o :: r)) =
  li_obs (store d) (li_step kcmp (store d) li o) :: fst (live_run kcmp d (li_step kcmp (store d) li o) r).
Proof.
  intros Ho. destruct o; try discriminate; cbn [live_run];
    match goal with |- context [live_run kcmp d ?l r] => destruct (live_run kcmp d l r) as [io oo] end;
    reflexivity.
Qed.

Lemma live_run_ops d li ops r :
  fst (live_run kcmp d li (LOps ops :: r)) = fst (live_run kcmp (fst (run kcmp d ops)) li r).
Proof.
  cbn [live_run]. destruct (run kcmp d ops) as [d' outs]. cbn [fst].
  destruct (live_run kcmp d' li r) as [io oo]. reflexivity.
Qed.

Lemma spec_run_it frozen p o r : is_itop o = true ->
  spec_run kcmp frozen p (o :: r) =
  spec_obs frozen (spec_step kcmp frozen p o) :: spec_run kcmp frozen (spec_step kcmp frozen p o) r.
Proof. intros Ho. destruct o; try discriminate; reflexivity. Qed.

Lemma open_script_it d sn o r : is_itop o = true ->
  open_script kcmp d sn (o :: r) = open_script kcmp d sn r.
Proof. intros Ho. destruct o; try discriminate; reflexivity. Qed.

Lemma script_ops_it o r : is_itop o = true -> script_ops (o :: r) = script_ops r.
Proof. intros Ho. destruct o; try discriminate; reflexivity. Qed.

(** * Seek: first_ge on the frozen items is where the store iterator lands *)
Lemma find_first_ge sn bs : forall s,
  option_map vkey (find (fun v => visible sn v && negb (before_key kcmp bs v)) s) =
  nth_error (visk sn s) (first_ge kcmp bs (map kitem (visk sn s))).
Proof.
  induction s as [|v r IH]; [reflexivity|].
  cbn [find]. rewrite visk_cons. destruct (visible sn v) eqn:V; cbn [andb]; [|exact IH].
  cbn [map first_ge]. change (kitem (vkey v)) with (vitem v). unfold before_key.
  destruct (kcmp (vitem v) bs) eqn:E; cbn [negb nth_error option_map]; try reflexivity.
  exact IH.
Qed.

(** * observations of related states *)
Lemma obs_sim cur s sn p li : store_inv kcmp cur s -> sim (visk sn s) sn p li ->
  proj_obs (li_obs s li) = spec_obs (map kitem (visk sn s)) p.
Proof.
  intros Hinv Hsim. destruct p as [k|]; cbn [sim spec_obs] in *.
  - destruct Hsim as (Hsn & Hpos & Hvid). unfold li_obs. rewrite Hpos. unfold to_iter. rewrite Hvid.
    rewrite nth_error_map.
    destruct (nth_error (visk sn s) k) as [x|] eqn:Ek; cbn [option_map].
    + destruct (locate_key kcmp cur s sn x Hinv (nth_error_In _ _ Ek))
        as (v & s1 & s2 & Hk & V & Hs & Hi & _).
      rewrite Hi. unfold it_valid, it_get. cbn [it_pos].
      assert (Hlt : (length s1 <? length s)%nat = true).
      { apply Nat.ltb_lt. rewrite Hs, app_length. cbn [length]. lia. }
      rewrite Hlt. rewrite Hs at 1. rewrite nth_error_mid. unfold proj_obs. cbn [option_map fst snd].
      rewrite <- Hk. reflexivity.
    + unfold it_valid. cbn [it_pos]. rewrite Nat.ltb_irrefl. reflexivity.
  - destruct Hsim as (_ & Hpos & _). unfold li_obs. rewrite Hpos. reflexivity.
Qed.

(** * one iterator operation *)
Lemma li_at_nth K sn k k' li : nth_error K k = nth_error K k' -> li_at K sn k li -> li_at K sn k' li.
Proof. intros E (H1 & H2 & H3). split; [exact H1|]. split; [exact H2|]. rewrite <- E. exact H3. Qed.

Lemma to_iter_sn s li : it_sn (to_iter s li) = li_sn li.
Proof. reflexivity. Qed.

Lemma seek_first_sim s sn li : li_sn li = sn ->
  li_at (visk sn s) sn 0 (li_step kcmp s li LSeekFirst).
Proof.
  intros Hsn. unfold li_step, of_iter, li_at. cbn [li_sn li_positioned li_vid].
  split; [unfold it_seek_first; rewrite it_skip_sn; cbn [it_sn to_iter]; exact Hsn|]. split; [reflexivity|].
  unfold to_iter. rewrite seek_first_exact. rewrite Hsn.
  rewrite find_hd_filter, nth_error_0. unfold visk. rewrite hd_error_map.
  destruct (hd_error (filter (visible sn) s)); reflexivity.
Qed.

Lemma seek_sim cur s sn li bs : store_inv kcmp cur s -> li_sn li = sn ->
  li_at (visk sn s) sn (first_ge kcmp bs (map kitem (visk sn s))) (li_step kcmp s li (LSeek bs)).
Proof.
  intros Hinv Hsn. unfold li_step, of_iter, li_at. cbn [li_sn li_positioned li_vid].
  split; [unfold it_seek; rewrite it_skip_sn; cbn [it_sn to_iter]; exact Hsn|]. split; [reflexivity|].
  unfold to_iter. rewrite (seek_exact kcmp laws cur s _ _ _ _ bs Hinv). rewrite Hsn.
  rewrite <- find_first_ge. rewrite option_map_kvid_vkey. reflexivity.
Qed.

Lemma refresh_sim cur s sn k li : store_inv kcmp cur s -> li_at (visk sn s) sn k li ->
  li_at (visk sn s) sn k (li_step kcmp s li LRefresh).
Proof.
  intros Hinv (Hsn & Hpos & Hvid). unfold li_step. rewrite Hpos.
  unfold of_iter, li_at. cbn [li_sn li_positioned li_vid].
  split; [rewrite it_refresh_sn; exact Hsn|]. split; [reflexivity|].
  destruct (nth_error (visk sn s) k) as [x|] eqn:Ek; cbn [option_map] in *.
  - destruct (locate_key kcmp cur s sn x Hinv (nth_error_In _ _ Ek))
      as (v & s1 & s2 & Hk & V & Hs & Hi & _).
    set (it := to_iter s li).
    assert (Hp : it_pos it = length s1) by (unfold it, to_iter; cbn [it_pos]; rewrite Hvid; exact Hi).
    assert (Hg : it_get s it = Some v).
    { unfold it_get. rewrite Hp. rewrite Hs. apply nth_error_mid. }
    assert (Hitsn : it_sn it = sn) by exact Hsn.
    assert (Hr : it_pos (it_refresh kcmp s it) = it_pos it).
    { apply (refresh_pos kcmp laws cur s it v Hinv Hg). rewrite Hitsn. exact V. }
    unfold it_get in *. rewrite Hr, Hg. cbn [option_map]. rewrite <- Hk. reflexivity.
  - assert (Hg : it_get s (to_iter s li) = None).
    { unfold it_get, to_iter. cbn [it_pos]. rewrite Hvid. apply nth_error_None. lia. }
    unfold it_refresh. rewrite Hg. rewrite Hg. reflexivity.
Qed.

Lemma step_sim cur s sn p li o : store_inv kcmp cur s -> is_itop o = true ->
  sim (visk sn s) sn p li ->
  sim (visk sn s) sn (spec_step kcmp (map kitem (visk sn s)) p o) (li_step kcmp s li o).
Proof.
  intros Hinv Ho Hsim.
  assert (Hsn : li_sn li = sn) by (destruct p; [destruct Hsim as (H & _)|destruct Hsim as (H & _)]; exact H).
  destruct o as [|bs| | |z|ops]; try discriminate; cbn [spec_step sim].
  - apply seek_first_sim. exact Hsn.
  - apply (seek_sim cur). exact Hinv. exact Hsn.
  - destruct p as [k|]; cbn [sim] in *.
    + pose proof (li_next_at kcmp laws cur s sn k li Hinv Hsim) as Hn.
      rewrite map_length. destruct (Nat.ltb_spec k (length (visk sn s))) as [Hlt|Hge]; cbn [sim]; [exact Hn|].
      apply (li_at_nth _ _ (S k) k); [|exact Hn].
      assert (E1 : nth_error (visk sn s) k = None) by (apply nth_error_None; lia).
      assert (E2 : nth_error (visk sn s) (S k) = None) by (apply nth_error_None; lia).
      rewrite E1, E2. reflexivity.
    + destruct Hsim as (_ & Hpos & Hvid). unfold li_step.
      assert (Hval : it_valid s (to_iter s li) = false).
      { unfold it_valid, to_iter. cbn [it_pos]. rewrite Hvid. apply Nat.ltb_irrefl. }
      rewrite Hval. split; [exact Hsn|]. split; assumption.
  - destruct p as [k|]; cbn [sim] in *.
    + apply (refresh_sim cur); assumption.
    + destruct Hsim as (_ & Hpos & Hvid). unfold li_step. rewrite Hpos. split; [exact Hsn|]. split; assumption.
  - unfold li_step. destruct p as [k|]; cbn [sim] in *.
    + destruct Hsim as (H1 & H2 & H3). split; [exact H1|]. split; [exact H2|exact H3].
    + destruct Hsim as (H1 & H2 & H3). split; [exact H1|]. split; [exact H2|exact H3].
Qed.

(** * the whole script *)
Lemma live_run_sim sn K : forall sc nw d sp li p,
  R kcmp nw d sp -> wf_from nw (script_ops sc) -> snap_open d sn = true -> visk sn (store d) = K ->
  open_script kcmp d sn sc = true -> sim K sn p li ->
  map proj_obs (fst (live_run kcmp d li sc)) = spec_run kcmp (map kitem K) p sc.
Proof.
  induction sc as [|o r IH]; intros nw d sp li p HR Hwf Hop HK Hal Hsim; [reflexivity|].
  assert (Hit : is_itop o = true ->
    map proj_obs (fst (live_run kcmp d li (o :: r))) = spec_run kcmp (map kitem K) p (o :: r)).
  { intros Ho. rewrite (live_run_it d li o r Ho), (spec_run_it _ p o r Ho).
    rewrite (open_script_it d sn o r Ho) in Hal. rewrite (script_ops_it o r Ho) in Hwf.
    pose proof (R_inv kcmp _ _ _ HR) as Hinv.
    assert (Hsim' : sim K sn (spec_step kcmp (map kitem K) p o) (li_step kcmp (store d) li o)).
    { rewrite <- HK. apply (step_sim (currSn d)); [exact Hinv|exact Ho|]. rewrite HK. exact Hsim. }
    cbn [map]. f_equal.
    - rewrite <- HK. apply (obs_sim (currSn d)); [exact Hinv|]. rewrite HK. exact Hsim'.
    - apply (IH nw d sp); assumption. }
  destruct o as [|bs| | |z|ops]; try (apply Hit; reflexivity).
  rewrite live_run_ops. cbn [spec_run script_ops open_script] in *.
  apply andb_true_iff in Hal. destruct Hal as [Hop1 Hal].
  destruct (run_visk kcmp laws sn ops (script_ops r) nw d sp HR Hwf (open_lt kcmp _ _ _ _ HR Hop) Hop1)
    as ((nw' & sp' & HR' & Hwf') & Hk & _).
  apply (IH nw' _ sp'); try assumption. rewrite Hk. exact HK.
Qed.

Theorem live_script_exact : stmt_live_script kcmp.
Proof.
  intros pre sn sc Hwf d0 Hop Hal.
  destruct (run_R_split kcmp laws pre (script_ops sc) 0%nat db_init spec_init (R_init kcmp) Hwf)
    as (nw0 & sp0 & HR0 & Hwf0).
  fold d0 in HR0. rewrite visk_view.
  apply (live_run_sim sn (visk sn (store d0)) sc nw0 d0 sp0); try assumption; try reflexivity.
  cbn [sim li_sn li_positioned li_vid]. split; [reflexivity|]. split; reflexivity.
Qed.

End LiveScriptProofs.

Print Assumptions live_script_exact.

(** * the two executable comparators *)
Theorem live_script_exact_bytes : stmt_live_script bytes_cmp.
Proof. exact (live_script_exact bytes_cmp bytes_cmp_laws). Qed.
Theorem live_script_exact_kv : stmt_live_script compare_kv.
Proof. exact (live_script_exact compare_kv compare_kv_laws). Qed.
Print Assumptions live_script_exact_bytes.
Print Assumptions live_script_exact_kv.

(** non-vacuity of [stmt_live_script]: snapshot 3 holds 96 97 98 99 101 (history of
    live_scan_nonvacuous).  The script: Next and Refresh before any positioning (not valid), SetRate 1
    (so that every second Next refreshes), Seek to the present key 98, to the absent keys 100 (lands on
    101), 200 (past the end: exhausted), 95 (before the first: lands on 96), Refresh on an item and when
    exhausted, Nexts past the end, SeekFirst after exhaustion, a negative rate, and a full walk to the
    end.  In between the other goroutines delete 98 and 97 (cross-epoch), re-insert 98, delete that new
    98 in its own epoch (physical unlink) and insert it again, insert 100, create snapshots 4 and 5,
    close snapshots 1, 2 and 4, open and close snapshot 3 once more, run GC passes, Drain and a worker
    step (the version of 102 that died in epoch 2 and the same-epoch 98 are physically removed).  All
    hypotheses hold, the store has moved, and the 25 observations are those of the script on the fixed
    list. *)
Example live_script_nonvacuous :
  let pre := [NewWriter; Put 0 [97]; Put 0 [98]; Put 0 [99]; Put 0 [102]; NewSnapshot;
              Delete 0 [102]; Put 0 [101]; NewSnapshot; Put 0 [96]; NewSnapshot] in
  let sc := [LOps [Delete 0 [98]; Put 0 [100]; NewSnapshot];
             LNext; LRefresh; LSetRate 1; LSeek [98];
             LOps [Put 0 [98]; CloseSnap 1; GC; Drain];
             LRefresh; LNext;
             LOps [Delete 0 [97]; Delete 0 [98]; Put 0 [98]];
             LSeek [100]; LRefresh;
             LOps [CloseSnap 2; GC; Drain];
             LNext; LNext; LRefresh;
             LOps [NewSnapshot; CloseSnap 4; GC; WorkerStep];
             LSeek [200]; LNext; LSeekFirst;
             LOps [OpenSnap 3; CloseSnap 3];
             LNext; LSetRate (-3); LNext; LSeek [95]; LSeek [97];
             LNext; LNext; LNext; LNext; LNext; LNext] in
  let d0 := fst (run bytes_cmp db_init pre) in
  let dn := fst (run bytes_cmp d0 (script_ops sc)) in
  wf_from 0 (pre ++ script_ops sc) /\
  snap_open d0 3 = true /\
  open_script bytes_cmp d0 3 sc = true /\
  view 3 (store d0) = [[96]; [97]; [98]; [99]; [101]] /\
  phys (store d0) = [([96], 3, 0); ([97], 1, 0); ([98], 1, 0); ([99], 1, 0); ([101], 2, 0); ([102], 1, 2)] /\
  phys (store dn) = [([96], 3, 0); ([97], 1, 5); ([98], 1, 4); ([98], 5, 0); ([99], 1, 0); ([100], 4, 0);
                     ([101], 2, 0)] /\
  removed dn = [7; 3] /\
  fst (live_run bytes_cmp d0 (mkLIter 3 None 0 0 false) sc)
  = [(false, None); (false, None); (false, None); (true, Some ([98], 1));
     (true, Some ([98], 1)); (true, Some ([99], 2));
     (true, Some ([101], 4)); (true, Some ([101], 4));
     (false, None); (false, None); (false, None);
     (false, None); (false, None); (true, Some ([96], 5));
     (true, Some ([97], 0)); (true, Some ([97], 0)); (true, Some ([98], 1)); (true, Some ([96], 5));
     (true, Some ([97], 0));
     (true, Some ([98], 1)); (true, Some ([99], 2)); (true, Some ([101], 4)); (false, None);
     (false, None); (false, None)] /\
  spec_run bytes_cmp (view 3 (store d0)) None sc
  = [(false, None); (false, None); (false, None); (true, Some [98]);
     (true, Some [98]); (true, Some [99]);
     (true, Some [101]); (true, Some [101]);
     (false, None); (false, None); (false, None);
     (false, None); (false, None); (true, Some [96]);
     (true, Some [97]); (true, Some [97]); (true, Some [98]); (true, Some [96]);
     (true, Some [97]);
     (true, Some [98]); (true, Some [99]); (true, Some [101]); (false, None);
     (false, None); (false, None)] /\
  map proj_obs (fst (live_run bytes_cmp d0 (mkLIter 3 None 0 0 false) sc))
  = spec_run bytes_cmp (view 3 (store d0)) None sc.
Proof.
  cbv zeta. split; [cbn; repeat split; lia|].
  repeat split; vm_compute; reflexivity.
Qed.
