(** Statements of the headline MVCC theorems (C01, C02, C06). *)
From NV Require Import Base.Bytes Mvcc.Store Mvcc.Ops Mvcc.Spec Mvcc.InvDefs Mvcc.Stmts.
Open Scope N_scope.

(** writer indices used by an operation sequence refer to writers that exist *)
Fixpoint wf_from (nw : nat) (ops : list op) : Prop :=
  match ops with
  | [] => True
  | NewWriter :: r => wf_from (S nw) r
  | Put w _ :: r => (w < nw)%nat /\ wf_from nw r
  | Delete w _ :: r => (w < nw)%nat /\ wf_from nw r
  | DeleteNode w _ :: r => (w < nw)%nat /\ wf_from nw r
  | _ :: r => wf_from nw r
  end.

Section RefineStmt.
Variable kcmp : list N -> list N -> comparison.

(** C02 + C01: every observable of every history equals the specification's: Put/Delete/GetNode/
    DeleteNode results and handles, Count() of each new snapshot, ItemsCount, and the scan of any
    open snapshot at any later point — whatever Puts, Deletes, snapshot creations, Open/Close in any
    order, GC passes and collection-worker steps happen in between.  (Scans go through the real
    iterator loop of the model; the specification returns the list frozen at creation.) *)
Definition stmt_mvcc_refines_spec : Prop :=
  forall ops, wf_from 0 ops ->
    map proj (snd (run kcmp db_init ops)) = map proj (snd (sp_run kcmp spec_init ops)).

(** the store invariant holds in every reachable state *)
Definition stmt_reachable_inv : Prop :=
  forall ops, wf_from 0 ops ->
    let d := fst (run kcmp db_init ops) in store_inv kcmp (currSn d) (store d).

(** C06 precision: a version visible to an open snapshot is physically present, in every reachable
    state: the view of each open snapshot computed on the physical store is the frozen content *)
Definition stmt_gc_precision : Prop :=
  forall ops, wf_from 0 ops ->
    let d := fst (run kcmp db_init ops) in
    let sp := fst (sp_run kcmp spec_init ops) in
    forall x, In x (sp_snaps sp) -> (0 < ss_ref x)%Z -> view (ss_sn x) (store d) = ss_items x.

(** C06 completeness: after a GC pass and draining the workers, a dead version is still present only
    if it died in the current epoch or some open snapshot has a number <= its deadSn *)
Definition stmt_gc_complete : Prop :=
  forall ops, wf_from 0 ops ->
    let d := fst (run kcmp db_init (ops ++ [GC; Drain])) in
    gcchan d = [] /\
    forall v, In v (store d) ->
      vdead v = 0 \/ vdead v = currSn d \/ exists s, In s (snaps d) /\ s_sn s <= vdead v.

(** accounting at quiescence: ItemsCount = number of live items as of the last snapshot, and the
    writers' pending counts make up the difference *)
Definition stmt_counts : Prop :=
  forall ops, wf_from 0 ops ->
    let d := fst (run kcmp db_init ops) in
    (itemsCount d + fold_left (fun a wr => a + w_count wr) (writers d) 0)%Z
    = Z.of_nat (length (filter alive (store d))).

End RefineStmt.
