(** MVCC store model: the level-0 content of the item skiplist as a list of versions sorted by
    the insert comparator (key, then bornSn); path search; the derived comparators of
    nitro.go:99-129; the snapshot visibility filter of iterator.go:26-37. *)
From NV Require Import Base.Bytes.
Open Scope N_scope.

Record ver := mkVer { vitem : list N; vborn : N; vdead : N; vid : N }.

Definition alive (v : ver) : bool := vdead v =? 0.

(** iterator.go:31  [itm.bornSn > sn || (itm.deadSn > 0 && itm.deadSn <= sn)] is "unwanted" *)
Definition visible (sn : N) (v : ver) : bool :=
  negb ((sn <? vborn v) || ((0 <? vdead v) && (vdead v <=? sn))).

Section Store.
Variable kcmp : list N -> list N -> comparison.

(** nitro.go:99-110, in the orientation findPath uses it: insCmp(curr, probe) *)
Definition ins_cmp (v : ver) (a : list N) (aborn : N) : comparison :=
  match kcmp (vitem v) a with
  | Eq => vborn v ?= aborn
  | c => c
  end.

(** [v] sorts strictly before the probe (a, aborn): findPath advances past it *)
Definition before_ins (a : list N) (aborn : N) (v : ver) : bool :=
  match ins_cmp v a aborn with Lt => true | _ => false end.

(** nitro.go:112-118: key only, iterCmp(curr, probe) < 0 *)
Definition before_key (a : list N) (v : ver) : bool :=
  match kcmp (vitem v) a with Lt => true | _ => false end.

(** skiplist.findPath on a quiescent list: the versions strictly before the probe, and the rest *)
Fixpoint span {A} (f : A -> bool) (l : list A) : list A * list A :=
  match l with
  | [] => ([], [])
  | x :: r => if f x then let '(a, b) := span f r in (x :: a, b) else ([], l)
  end.

Definition last_opt {A} (l : list A) : option A :=
  match rev l with [] => None | x :: _ => Some x end.

(** result of findPath with insCmp: predecessor (None = head sentinel), successor (None = tail),
    found = successor compares equal *)
Definition find_ins (a : list N) (aborn : N) (s : list ver) : option ver * option ver * bool :=
  let '(l1, l2) := span (before_ins a aborn) s in
  let succ := hd_error l2 in
  (last_opt l1, succ,
   match succ with Some v => match ins_cmp v a aborn with Eq => true | _ => false end | None => false end).

(** nitro.go:120-129 existCmp(this = probe with deadSn 0, that = pred); sentinel => not equal *)
Definition exist_eq (a : list N) (p : option ver) : bool :=
  match p with
  | None => false
  | Some v => if vdead v =? 0 then match kcmp a (vitem v) with Eq => true | _ => false end else false
  end.

Definition insert_ver (x : ver) (s : list ver) : list ver :=
  let '(l1, l2) := span (before_ins (vitem x) (vborn x)) s in l1 ++ x :: l2.

Definition remove_vid (i : N) (s : list ver) : list ver :=
  filter (fun v => negb (vid v =? i)) s.

Definition find_vid (i : N) (s : list ver) : option ver :=
  find (fun v => vid v =? i) s.

Definition set_dead (i : N) (d : N) (s : list ver) : list ver :=
  map (fun v => if vid v =? i then mkVer (vitem v) (vborn v) d (vid v) else v) s.

(** what a snapshot with number [sn] must present *)
Definition view (sn : N) (s : list ver) : list (list N) :=
  map vitem (filter (visible sn) s).

Definition live_items (s : list ver) : list (list N) :=
  map vitem (filter alive s).

End Store.
