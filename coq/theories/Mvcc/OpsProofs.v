(** Proofs of the statements of Stmts.v about the store operations. *)
From NV Require Import Base.Bytes Mvcc.Store Mvcc.Ops Mvcc.Spec Mvcc.InvDefs Mvcc.Stmts.
From Coq Require Import ZifyN ZifyNat ZifyBool Permutation.
Open Scope N_scope.

(** * generic list facts *)
Lemma span_spec {A} (f : A -> bool) l a b : span f l = (a, b) ->
  l = a ++ b /\ Forall (fun x => f x = true) a /\
  match b with [] => True | x :: _ => f x = false end.
Proof.
  revert a b; induction l as [|x r IH]; intros a b H; cbn in H.
  - inversion H; subst; auto.
  - destruct (f x) eqn:E.
    + destruct (span f r) as [a' b'] eqn:E2. inversion H; subst.
      destruct (IH _ _ eq_refl) as (H1 & H2 & H3). subst r. repeat split; auto.
    + inversion H; subst. cbn. repeat split; auto.
Qed.

Lemma last_opt_nil {A} : @last_opt A [] = None.
Proof. reflexivity. Qed.

Lemma last_opt_snoc {A} (l : list A) x : last_opt (l ++ [x]) = Some x.
Proof. unfold last_opt. rewrite rev_app_distr. reflexivity. Qed.

Lemma snoc_case {A} (l : list A) : l = [] \/ exists l' x, l = l' ++ [x].
Proof. induction l using rev_ind; [left; auto | right; eauto]. Qed.

Lemma existsb_false {A} (f : A -> bool) l : (forall v, In v l -> f v = false) -> existsb f l = false.
Proof.
  intro H. destruct (existsb f l) eqn:E; auto. apply existsb_exists in E.
  destruct E as (x & Hx & Hf). rewrite (H x Hx) in Hf. discriminate.
Qed.

Lemma existsb_false_inv {A} (f : A -> bool) l : existsb f l = false -> forall v, In v l -> f v = false.
Proof.
  intros H v Hv. destruct (f v) eqn:E; auto.
  assert (existsb f l = true) by (apply existsb_exists; eauto). congruence.
Qed.

Lemma find_none_all {A} (f : A -> bool) l : (forall v, In v l -> f v = false) -> find f l = None.
Proof.
  intro H. destruct (find f l) eqn:E; auto. apply find_some in E.
  destruct E as (Hx & Hf). rewrite (H _ Hx) in Hf. discriminate.
Qed.

Lemma find_app' {A} (f : A -> bool) a b :
  find f (a ++ b) = match find f a with Some x => Some x | None => find f b end.
Proof. induction a as [|x a IH]; cbn; auto. destruct (f x); auto. Qed.

Lemma vid_inj (s : list ver) a b : NoDup (map vid s) -> In a s -> In b s -> vid a = vid b -> a = b.
Proof.
  induction s as [|x s IH]; cbn; intros Hnd Ha Hb Hab; [tauto|].
  inversion Hnd as [|? ? Hni Hnd']; subst.
  destruct Ha as [<-|Ha], Hb as [<-|Hb]; auto.
  - exfalso. apply Hni. rewrite Hab. apply in_map; auto.
  - exfalso. apply Hni. rewrite <- Hab. apply in_map; auto.
Qed.

Lemma live_entries_app a b : live_entries (a ++ b) = live_entries a ++ live_entries b.
Proof. unfold live_entries. rewrite filter_app, map_app. reflexivity. Qed.

Lemma in_live_entries e s : In e (live_entries s) <-> exists v, In v s /\ vdead v = 0 /\ e = (vid v, vitem v).
Proof.
  unfold live_entries. rewrite in_map_iff. split.
  - intros (v & <- & Hv). apply filter_In in Hv. destruct Hv as [Hv Ha]. unfold alive in Ha.
    apply N.eqb_eq in Ha. eauto.
  - intros (v & Hv & Hd & ->). exists v. split; auto. apply filter_In. split; auto.
    unfold alive. apply N.eqb_eq; auto.
Qed.

Section OpsProofs.
Variable kcmp : list N -> list N -> comparison.
Hypothesis laws : cmp_laws kcmp.

(** * consequences of the comparator laws *)
Lemma kc_refl a : kcmp a a = Eq.
Proof. pose proof (kc_antisym _ laws a a) as H. destruct (kcmp a a); cbn in H; congruence. Qed.

Lemma kc_sym_eq a b : kcmp a b = Eq -> kcmp b a = Eq.
Proof. intro H. rewrite (kc_antisym _ laws a b), H. reflexivity. Qed.

Lemma kc_eq_r a b c : kcmp a b = Eq -> kcmp c a = kcmp c b.
Proof.
  intro H. rewrite (kc_antisym _ laws a c), (kc_antisym _ laws b c), (kc_eq_l _ laws a b c H).
  reflexivity.
Qed.

Lemma kc_gt_lt a b : kcmp a b = Gt <-> kcmp b a = Lt.
Proof. rewrite (kc_antisym _ laws a b). destruct (kcmp a b); cbn; intuition congruence. Qed.

Lemma kc_trans_gt a b c : kcmp a b = Gt -> kcmp b c = Gt -> kcmp a c = Gt.
Proof. rewrite !kc_gt_lt. intros H1 H2. eapply (kc_trans _ laws); eauto. Qed.

Lemma kc_lt_eq a b c : kcmp a b = Lt -> kcmp b c = Eq -> kcmp a c = Lt.
Proof. intros H1 H2. rewrite <- (kc_eq_r _ _ a H2). exact H1. Qed.

Lemma kc_eq_lt a b c : kcmp a b = Eq -> kcmp b c = Lt -> kcmp a c = Lt.
Proof. intros H1 H2. rewrite (kc_eq_l _ laws _ _ c H1). exact H2. Qed.

(** * the insert comparator *)
Lemma ins_cmp_lt v a n :
  ins_cmp kcmp v a n = Lt <-> kcmp (vitem v) a = Lt \/ (kcmp (vitem v) a = Eq /\ vborn v < n).
Proof.
  unfold ins_cmp. destruct (kcmp (vitem v) a); rewrite ?N.compare_lt_iff; intuition congruence.
Qed.

Lemma ins_cmp_eq v a n :
  ins_cmp kcmp v a n = Eq <-> kcmp (vitem v) a = Eq /\ vborn v = n.
Proof.
  unfold ins_cmp. destruct (kcmp (vitem v) a); rewrite ?N.compare_eq_iff; intuition congruence.
Qed.

Lemma ins_cmp_gt v a n :
  ins_cmp kcmp v a n = Gt <-> kcmp (vitem v) a = Gt \/ (kcmp (vitem v) a = Eq /\ n < vborn v).
Proof.
  unfold ins_cmp. destruct (kcmp (vitem v) a); rewrite ?N.compare_gt_iff; intuition congruence.
Qed.

Lemma ins_lt_trans v w a n : vlt kcmp v w -> ins_cmp kcmp w a n <> Gt -> ins_cmp kcmp v a n = Lt.
Proof.
  intros [H|[H1 H2]] Hn; apply ins_cmp_lt.
  - destruct (kcmp (vitem w) a) eqn:E.
    + left. eapply kc_lt_eq; eauto.
    + left. eapply (kc_trans _ laws); eauto.
    + exfalso. apply Hn. apply ins_cmp_gt. left; auto.
  - rewrite (kc_eq_l _ laws _ _ a H1). destruct (kcmp (vitem w) a) eqn:E.
    + right. split; auto.
      assert (~ n < vborn w) by (intro; apply Hn; apply ins_cmp_gt; right; auto). lia.
    + left; auto.
    + exfalso. apply Hn. apply ins_cmp_gt. left; auto.
Qed.

(** * sortedness *)
Lemma sorted_app a b :
  sorted kcmp (a ++ b) <->
  sorted kcmp a /\ sorted kcmp b /\ (forall v w, In v a -> In w b -> vlt kcmp v w).
Proof.
  induction a as [|x a IH]; cbn.
  - intuition.
  - rewrite Forall_app, IH. rewrite !Forall_forall. split.
    + intros ((H1 & H2) & H3 & H4 & H5). repeat split; auto.
      intros v w [<-|Hv] Hw; auto.
    + intros ((H1 & H2) & H3 & H4). repeat split; auto.
Qed.

Lemma sorted_filter g s : sorted kcmp s -> sorted kcmp (filter g s).
Proof.
  induction s as [|x s IH]; cbn; auto. intros [H1 H2]. destruct (g x); cbn; auto.
  split; auto. rewrite Forall_forall in *. intros w Hw. apply filter_In in Hw. apply H1, Hw.
Qed.

Lemma sorted_map f s : (forall u, vitem (f u) = vitem u) -> (forall u, vborn (f u) = vborn u) ->
  sorted kcmp s -> sorted kcmp (map f s).
Proof.
  intros Fi Fb. induction s as [|x s IH]; cbn; auto. intros [H1 H2]. split; auto.
  rewrite Forall_forall in *. intros w Hw. apply in_map_iff in Hw. destruct Hw as (u & <- & Hu).
  specialize (H1 u Hu). unfold vlt in *. rewrite !Fi, !Fb. exact H1.
Qed.

(** * the live-with-key predicate and the split around a probe *)
Definition livek (bs : list N) (v : ver) : bool := alive v && keq kcmp bs (vitem v).

Lemma livek_true bs v : livek bs v = true <-> vdead v = 0 /\ kcmp bs (vitem v) = Eq.
Proof.
  unfold livek, alive, keq. rewrite andb_true_iff, N.eqb_eq.
  destruct (kcmp bs (vitem v)); intuition congruence.
Qed.

Lemma livek_false bs v : (vdead v = 0 -> kcmp bs (vitem v) = Eq -> False) -> livek bs v = false.
Proof. intro H. destruct (livek bs v) eqn:E; auto. apply livek_true in E. tauto. Qed.

Lemma split_facts cur s bs l1 l2 :
  sorted kcmp s -> span (before_ins kcmp bs cur) s = (l1, l2) ->
  s = l1 ++ l2 /\ (forall v, In v l1 -> ins_cmp kcmp v bs cur = Lt) /\
  (forall w, In w l2 -> ins_cmp kcmp w bs cur <> Lt).
Proof.
  intros Hs E. apply span_spec in E. destruct E as (E1 & E2 & E3). split; [exact E1|]. split.
  - intros v Hv. rewrite Forall_forall in E2. specialize (E2 v Hv). unfold before_ins in E2.
    destruct (ins_cmp kcmp v bs cur); congruence.
  - subst s. apply sorted_app in Hs. destruct Hs as (_ & Hs2 & _).
    destruct l2 as [|h t]; [intros w []|]. cbn in Hs2. destruct Hs2 as [Hh _].
    assert (Hhn : ins_cmp kcmp h bs cur <> Lt).
    { unfold before_ins in E3. destruct (ins_cmp kcmp h bs cur); congruence. }
    intros w [<-|Hw]; auto. intro Hc. apply Hhn. rewrite Forall_forall in Hh.
    apply (ins_lt_trans h w); auto. rewrite Hc; discriminate.
Qed.

Lemma l2_in cur s bs l1 l2 :
  store_inv kcmp cur s -> span (before_ins kcmp bs cur) s = (l1, l2) ->
  forall w, In w l2 -> (livek bs w = true <-> ins_cmp kcmp w bs cur = Eq).
Proof.
  intros Hinv E w Hw. destruct (split_facts _ _ _ _ _ (si_sorted _ _ _ Hinv) E) as (Hs & _ & H2).
  assert (Hin : In w s) by (rewrite Hs; apply in_or_app; auto).
  pose proof (si_born _ _ _ Hinv w Hin) as Hb. pose proof (si_dead _ _ _ Hinv w Hin) as Hd.
  specialize (H2 w Hw). rewrite livek_true, ins_cmp_eq. rewrite ins_cmp_lt in H2. split.
  - intros [Hd0 Hk]. apply kc_sym_eq in Hk. split; auto.
    destruct (N.lt_ge_cases (vborn w) cur); [exfalso; apply H2; right; auto | lia].
  - intros [Hk Hbc]. split; [lia | apply kc_sym_eq; auto].
Qed.

Lemma l2_shape cur s bs l1 l2 :
  store_inv kcmp cur s -> span (before_ins kcmp bs cur) s = (l1, l2) ->
  match l2 with
  | [] => True
  | h :: t => livek bs h = match ins_cmp kcmp h bs cur with Eq => true | _ => false end /\
              (forall w, In w t -> livek bs w = false)
  end.
Proof.
  intros Hinv E. destruct l2 as [|h t]; auto. split.
  - pose proof (l2_in _ _ _ _ _ Hinv E h (or_introl eq_refl)) as H.
    destruct (livek bs h), (ins_cmp kcmp h bs cur); intuition congruence.
  - intros w Hw. pose proof (l2_in _ _ _ _ _ Hinv E w (or_intror Hw)) as H.
    destruct (livek bs w) eqn:EL; auto. exfalso.
    assert (Hc : ins_cmp kcmp w bs cur = Eq) by (apply H; auto).
    destruct (split_facts _ _ _ _ _ (si_sorted _ _ _ Hinv) E) as (Hs & _ & H2).
    apply (H2 h (or_introl eq_refl)).
    pose proof (si_sorted _ _ _ Hinv) as Hso. rewrite Hs in Hso. apply sorted_app in Hso.
    destruct Hso as (_ & Hso & _). cbn in Hso. destruct Hso as [Hh _]. rewrite Forall_forall in Hh.
    apply (ins_lt_trans h w); auto. rewrite Hc; discriminate.
Qed.

Lemma l1_shape cur s bs l1 l2 :
  store_inv kcmp cur s -> span (before_ins kcmp bs cur) s = (l1, l2) ->
  l1 = [] \/ exists l x, l1 = l ++ [x] /\ forall v, In v l -> livek bs v = false.
Proof.
  intros Hinv E. destruct (split_facts _ _ _ _ _ (si_sorted _ _ _ Hinv) E) as (Hs & H1 & _).
  destruct (snoc_case l1) as [->|(l & x & ->)]; [left; auto|right].
  exists l, x. split; auto. intros v Hv. apply livek_false. intros Hd Hk.
  pose proof (si_sorted _ _ _ Hinv) as Hso. rewrite Hs in Hso. apply sorted_app in Hso.
  destruct Hso as (Hso & _ & _). apply sorted_app in Hso. destruct Hso as (_ & _ & Hvx).
  specialize (Hvx v x Hv (or_introl eq_refl)).
  assert (Hx : ins_cmp kcmp x bs cur = Lt) by (apply H1; apply in_or_app; right; left; auto).
  apply ins_cmp_lt in Hx.
  assert (Hvs : In v s) by (rewrite Hs; apply in_or_app; left; apply in_or_app; auto).
  assert (Hxs : In x s) by (rewrite Hs; apply in_or_app; left; apply in_or_app; right; left; auto).
  destruct Hvx as [Hlt|[Heq Hb]].
  - assert (Hbx : kcmp bs (vitem x) = Lt) by (rewrite (kc_eq_l _ laws _ _ (vitem x) Hk); auto).
    apply kc_gt_lt in Hbx. destruct Hx as [Hx|[Hx _]]; congruence.
  - destruct (si_succ _ _ _ Hinv v x Hvs Hxs Heq Hb) as [Hnd _]. auto.
Qed.

Lemma livek_uniq cur a w b bs :
  store_inv kcmp cur (a ++ w :: b) -> livek bs w = true -> forall v, In v a -> livek bs v = false.
Proof.
  intros Hinv Hw v Hv. apply livek_true in Hw. destruct Hw as [Hwd Hwk].
  apply livek_false. intros Hd Hk.
  pose proof (si_sorted _ _ _ Hinv) as Hso. apply sorted_app in Hso. destruct Hso as (_ & _ & Hvw).
  specialize (Hvw v w Hv (or_introl eq_refl)).
  assert (Hvs : In v (a ++ w :: b)) by (apply in_or_app; auto).
  assert (Hws : In w (a ++ w :: b)) by (apply in_or_app; right; left; auto).
  assert (Heq : kcmp (vitem v) (vitem w) = Eq) by (rewrite <- (kc_eq_l _ laws _ _ (vitem w) Hk); auto).
  destruct Hvw as [Hlt|[_ Hb]]; [congruence|].
  destruct (si_succ _ _ _ Hinv v w Hvs Hws Heq Hb) as [Hnd _]. auto.
Qed.

Lemma l1_exist bs l1 :
  (l1 = [] \/ exists l x, l1 = l ++ [x] /\ forall v, In v l -> livek bs v = false) ->
  exist_eq kcmp bs (last_opt l1) = existsb (livek bs) l1 /\
  find (livek bs) l1 = if exist_eq kcmp bs (last_opt l1) then last_opt l1 else None.
Proof.
  intros [->|(l & x & -> & Hl)]; [split; reflexivity|].
  rewrite last_opt_snoc, existsb_app, find_app', (existsb_false _ _ Hl), (find_none_all _ _ Hl).
  cbn. unfold livek, alive, keq. destruct (vdead x =? 0); cbn; [|auto].
  destruct (kcmp bs (vitem x)); auto.
Qed.

(** * Put / GetNode *)
Lemma put_rejects_iff_live : stmt_put_rejects_iff_live kcmp.
Proof.
  intros cur s bs Hinv. unfold find_ins.
  destruct (span (before_ins kcmp bs cur) s) as [l1 l2] eqn:E.
  destruct (split_facts _ _ _ _ _ (si_sorted _ _ _ Hinv) E) as (Hs & _ & _).
  pose proof (l2_shape _ _ _ _ _ Hinv E) as H2.
  destruct (l1_exist bs l1 (l1_shape _ _ _ _ _ Hinv E)) as [H1 _].
  change (has_live kcmp bs s) with (existsb (livek bs) s). rewrite Hs, existsb_app, H1.
  rewrite (orb_comm (existsb (livek bs) l1)). f_equal.
  destruct l2 as [|h t]; [reflexivity|]. destruct H2 as [Hh Ht]. cbn [hd_error existsb].
  rewrite (existsb_false _ _ Ht), orb_false_r. auto.
Qed.

Lemma getnode_spec : stmt_getnode_spec kcmp.
Proof.
  intros cur s bs Hinv. unfold find_ins.
  destruct (span (before_ins kcmp bs cur) s) as [l1 l2] eqn:E.
  destruct (split_facts _ _ _ _ _ (si_sorted _ _ _ Hinv) E) as (Hs & _ & _).
  pose proof (l2_shape _ _ _ _ _ Hinv E) as H2.
  destruct (l1_exist bs l1 (l1_shape _ _ _ _ _ Hinv E)) as [_ H1].
  change (find_live kcmp bs s) with (find (livek bs) s). rewrite Hs, find_app'.
  destruct l2 as [|h t].
  - cbn [hd_error find]. rewrite H1. destruct (exist_eq kcmp bs (last_opt l1)); auto.
    destruct (last_opt l1); auto.
  - destruct H2 as [Hh Ht]. cbn [hd_error find]. rewrite (find_none_all _ _ Ht).
    destruct (livek bs h) eqn:EL.
    + rewrite Hs in Hinv. rewrite (find_none_all _ _ (livek_uniq _ _ _ _ _ Hinv EL)).
      rewrite <- Hh. reflexivity.
    + rewrite <- Hh, H1. destruct (exist_eq kcmp bs (last_opt l1)); auto.
      destruct (last_opt l1); auto.
Qed.

Lemma find_live_entries : stmt_find_live_entries kcmp.
Proof.
  intros s bs. unfold find_live, sp_find, live_entries.
  induction s as [|a s IH]; cbn; auto.
  destruct (alive a) eqn:Ea; cbn.
  - destruct (keq kcmp bs (vitem a)); cbn; auto.
  - exact IH.
Qed.


(** * insertion *)
Lemma sp_insert_mid e A B :
  (forall a, In a A -> kcmp (snd a) (snd e) = Lt) ->
  (match B with [] => True | b :: _ => kcmp (snd b) (snd e) <> Lt end) ->
  sp_insert kcmp e (A ++ B) = A ++ e :: B.
Proof.
  induction A as [|a A IH]; intros HA HB; cbn.
  - destruct B as [|b B]; cbn; auto. destruct (kcmp (snd b) (snd e)); congruence.
  - rewrite (HA a (or_introl eq_refl)). f_equal. apply IH; auto. intros; apply HA; right; auto.
Qed.

Lemma insert_members : stmt_insert_members kcmp.
Proof.
  intros s x v. unfold insert_ver.
  destruct (span (before_ins kcmp (vitem x) (vborn x)) s) as [l1 l2] eqn:E.
  apply span_spec in E. destruct E as (-> & _ & _). rewrite !in_app_iff. cbn. intuition.
Qed.

Lemma insert_view : stmt_insert_view kcmp.
Proof.
  intros s x sn Hlt. unfold insert_ver.
  destruct (span (before_ins kcmp (vitem x) (vborn x)) s) as [l1 l2] eqn:E.
  apply span_spec in E. destruct E as (-> & _ & _). unfold view. rewrite !filter_app. cbn [filter].
  assert (Hv : visible sn x = false).
  { unfold visible. apply N.ltb_lt in Hlt. rewrite Hlt. reflexivity. }
  rewrite Hv. reflexivity.
Qed.

Lemma insert_inv : stmt_insert_inv kcmp.
Proof.
  intros cur s bs i Hinv Hl Hfresh. unfold insert_ver. cbn [vitem vborn].
  destruct (span (before_ins kcmp bs cur) s) as [l1 l2] eqn:E.
  destruct (split_facts _ _ _ _ _ (si_sorted _ _ _ Hinv) E) as (Hs & H1 & H2).
  assert (Hnl : forall v, In v s -> livek bs v = false) by (apply existsb_false_inv; exact Hl).
  set (x := mkVer bs cur 0 i).
  assert (Hmem : forall v, In v (l1 ++ x :: l2) <-> v = x \/ In v s).
  { subst s; intro; rewrite !in_app_iff; cbn; intuition. }
  constructor.
  - pose proof (si_sorted _ _ _ Hinv) as Hso. rewrite Hs in Hso. apply sorted_app in Hso.
    destruct Hso as (Sa & Sb & Sc). apply sorted_app. split; auto. split.
    + cbn. split; auto. rewrite Forall_forall. intros w Hw.
      assert (Hws : In w s) by (rewrite Hs; apply in_or_app; auto).
      specialize (H2 w Hw). rewrite ins_cmp_lt in H2. unfold vlt. cbn [x vitem vborn].
      destruct (kcmp (vitem w) bs) eqn:Ek.
      * exfalso. pose proof (si_born _ _ _ Hinv w Hws) as Hb.
        pose proof (si_dead _ _ _ Hinv w Hws) as Hd.
        assert (Hbc : vborn w = cur).
        { destruct (N.lt_ge_cases (vborn w) cur); [exfalso; apply H2; right; auto | lia]. }
        assert (Hlv : livek bs w = true) by (apply livek_true; split; [lia | apply kc_sym_eq; auto]).
        rewrite (Hnl w Hws) in Hlv. discriminate.
      * exfalso. apply H2. left; auto.
      * left. apply kc_gt_lt; auto.
    + intros v w Hv [<-|Hw]; [|auto]. apply H1 in Hv. apply ins_cmp_lt in Hv. exact Hv.
  - intros v Hv. apply Hmem in Hv. destruct Hv as [->|Hv]; [cbn; lia|]. apply (si_born _ _ _ Hinv); auto.
  - intros v Hv. apply Hmem in Hv. destruct Hv as [->|Hv]; [left; reflexivity|].
    apply (si_dead _ _ _ Hinv); auto.
  - intros v w Hv Hw Hk Hb. apply Hmem in Hv. apply Hmem in Hw.
    destruct Hv as [->|Hv].
    + exfalso. cbn [x vborn] in Hb. destruct Hw as [->|Hw]; [cbn in Hb; lia|].
      pose proof (si_born _ _ _ Hinv w Hw). lia.
    + destruct Hw as [->|Hw]; [|apply (si_succ _ _ _ Hinv); auto].
      cbn [x vitem vborn] in *. pose proof (si_dead _ _ _ Hinv v Hv) as Hd.
      assert (Hnd : vdead v <> 0).
      { intro Hd0. assert (Hlv : livek bs v = true) by (apply livek_true; split; [auto | apply kc_sym_eq; auto]).
        rewrite (Hnl v Hv) in Hlv. discriminate. }
      split; [auto | lia].
  - pose proof (si_vids _ _ _ Hinv) as Hnd. rewrite Hs in Hnd. rewrite map_app in *. cbn [map].
    apply (Permutation_NoDup (Permutation_middle _ _ _)). cbn [x vid]. constructor; auto.
    rewrite <- map_app, <- Hs. intro Hin. apply in_map_iff in Hin. destruct Hin as (u & Hu & Hus).
    apply (Hfresh u Hus Hu).
Qed.

Lemma insert_live : stmt_insert_live kcmp.
Proof.
  intros cur s bs i Hinv Hl. unfold insert_ver. cbn [vitem vborn].
  destruct (span (before_ins kcmp bs cur) s) as [l1 l2] eqn:E.
  destruct (split_facts _ _ _ _ _ (si_sorted _ _ _ Hinv) E) as (Hs & H1 & H2).
  assert (Hnl : forall v, In v s -> livek bs v = false) by (apply existsb_false_inv; exact Hl).
  rewrite Hs. change (mkVer bs cur 0 i :: l2) with ([mkVer bs cur 0 i] ++ l2).
  rewrite !live_entries_app. change (live_entries [mkVer bs cur 0 i]) with [(i, bs)].
  symmetry. apply (sp_insert_mid (i, bs)).
  - intros a Ha. apply in_live_entries in Ha. destruct Ha as (v & Hv & Hd & ->). cbn [snd].
    specialize (H1 v Hv). apply ins_cmp_lt in H1. destruct H1 as [H1|[H1 _]]; auto.
    exfalso. assert (Hvs : In v s) by (rewrite Hs; apply in_or_app; auto).
    assert (Hlv : livek bs v = true) by (apply livek_true; split; [auto | apply kc_sym_eq; auto]).
    rewrite (Hnl v Hvs) in Hlv. discriminate.
  - destruct (live_entries l2) as [|b B] eqn:EB; auto.
    assert (Hb : In b (live_entries l2)) by (rewrite EB; left; auto).
    apply in_live_entries in Hb. destruct Hb as (v & Hv & Hd & ->). cbn [snd].
    intro Hc. apply (H2 v Hv). apply ins_cmp_lt. left; auto.
Qed.

(** * logical deletion *)
Lemma find_vid_in : stmt_find_vid_in.
Proof.
  intros s i v H. unfold find_vid in H. apply find_some in H. destruct H as [H1 H2].
  apply N.eqb_eq in H2. auto.
Qed.

Lemma find_vid_nodup : stmt_find_vid_nodup.
Proof.
  intros s v Hnd Hin. unfold find_vid. destruct (find (fun v0 => vid v0 =? vid v) s) as [u|] eqn:E.
  - apply find_some in E. destruct E as [Hu He]. apply N.eqb_eq in He. f_equal.
    apply (vid_inj s); auto.
  - exfalso. pose proof (find_none _ _ E v Hin) as H. cbn in H. rewrite N.eqb_refl in H. discriminate.
Qed.

Lemma set_dead_inv : stmt_set_dead_inv kcmp.
Proof.
  intros cur s i v Hinv Hf Hd Hb. unfold set_dead.
  set (f := fun v0 : ver => if vid v0 =? i then mkVer (vitem v0) (vborn v0) cur (vid v0) else v0).
  apply find_vid_in in Hf. destruct Hf as [Hin Hid].
  assert (Hu : forall u, In u s -> vid u = i -> u = v).
  { intros u Hus Hui. apply (vid_inj s); auto. apply (si_vids _ _ _ Hinv). congruence. }
  assert (Fi : forall u, vitem (f u) = vitem u) by (intro u; unfold f; destruct (vid u =? i); reflexivity).
  assert (Fb : forall u, vborn (f u) = vborn u) by (intro u; unfold f; destruct (vid u =? i); reflexivity).
  assert (Fv : forall u, vid (f u) = vid u) by (intro u; unfold f; destruct (vid u =? i); reflexivity).
  constructor.
  - apply sorted_map; auto. apply (si_sorted _ _ _ Hinv).
  - intros v' Hv'. apply in_map_iff in Hv'. destruct Hv' as (u & <- & Hus). rewrite Fb.
    apply (si_born _ _ _ Hinv); auto.
  - intros v' Hv'. apply in_map_iff in Hv'. destruct Hv' as (u & <- & Hus). unfold f.
    destruct (N.eqb_spec (vid u) i) as [e|ne].
    + cbn. right. rewrite (Hu u Hus e). lia.
    + apply (si_dead _ _ _ Hinv); auto.
  - intros v' w' Hv' Hw' Hk Hlt. apply in_map_iff in Hv'. destruct Hv' as (u & <- & Hus).
    apply in_map_iff in Hw'. destruct Hw' as (u' & <- & Hus'). rewrite !Fi in Hk. rewrite !Fb in Hlt.
    rewrite Fb. destruct (si_succ _ _ _ Hinv u u' Hus Hus' Hk Hlt) as [S1 S2].
    unfold f. destruct (N.eqb_spec (vid u) i) as [e|ne]; [|auto].
    exfalso. rewrite (Hu u Hus e) in S1. auto.
  - rewrite map_map. erewrite map_ext; [apply (si_vids _ _ _ Hinv)|]. intro; apply Fv.
Qed.

(** without [vborn v < cur] the statement is false at [cur = 0] (
    below); this is the statement with the missing side condition. *)
Lemma set_dead_live_pos cur s i : cur <> 0 ->
  live_entries (set_dead i cur s) = sp_remove i (live_entries s).
Proof.
  intros Hc. unfold live_entries, set_dead, sp_remove.
  induction s as [|a s IH]; cbn [map filter]; auto.
  destruct (N.eqb_spec (vid a) i) as [e|ne].
  - unfold alive at 1. cbn [vdead]. destruct (N.eqb_spec cur 0) as [|_]; [tauto|].
    rewrite IH. destruct (alive a); cbn [map filter fst]; auto.
    destruct (N.eqb_spec (vid a) i); [reflexivity | tauto].
  - destruct (alive a); cbn [map filter fst]; auto.
    destruct (N.eqb_spec (vid a) i); [tauto|]. cbn [negb]. rewrite IH. reflexivity.
Qed.

(** the shape of [stmt_set_dead_live] with the hypothesis [vborn v < cur] of [stmt_set_dead_inv] *)
Lemma set_dead_live_lt cur s i v :
  store_inv kcmp cur s -> find_vid i s = Some v -> vdead v = 0 -> vborn v < cur ->
  live_entries (set_dead i cur s) = sp_remove i (live_entries s).
Proof. intros _ _ _ Hlt. apply set_dead_live_pos. lia. Qed.

Lemma view_map_ext sn f s :
  (forall u, In u s -> visible sn (f u) = visible sn u /\ vitem (f u) = vitem u) ->
  view sn (map f s) = view sn s.
Proof.
  unfold view. induction s as [|a s IH]; intros H; cbn [map filter]; auto.
  destruct (H a (or_introl eq_refl)) as [Hv Hi]. rewrite Hv.
  assert (IH' := IH (fun u Hu => H u (or_intror Hu))).
  destruct (visible sn a); cbn [map]; rewrite ?Hi, IH'; reflexivity.
Qed.

Lemma set_dead_view : stmt_set_dead_view kcmp.
Proof.
  intros cur s i v sn Hinv Hsn Hf Hd. unfold set_dead.
  apply find_vid_in in Hf. destruct Hf as [Hin Hid].
  apply view_map_ext. intros u Hus. destruct (N.eqb_spec (vid u) i) as [e|ne]; [|auto].
  assert (u = v).
  { apply (vid_inj s); auto. apply (si_vids _ _ _ Hinv). congruence. }
  subst u. split; [|reflexivity]. unfold visible. cbn [vborn vdead]. rewrite Hd.
  assert (H1 : (cur <=? sn) = false) by (apply N.leb_gt; auto). rewrite H1, andb_false_r.
  reflexivity.
Qed.

(** * physical removal *)
Lemma nodup_vid_filter g s : NoDup (map vid s) -> NoDup (map vid (filter g s)).
Proof.
  induction s as [|a s IH]; cbn; auto. intro H. inversion H as [|? ? Hni Hnd]; subst.
  destruct (g a); cbn; auto. constructor; auto. intro Hin. apply Hni.
  apply in_map_iff in Hin. destruct Hin as (u & Hu & Hus). apply filter_In in Hus.
  apply in_map_iff. exists u. tauto.
Qed.

Lemma remove_inv : stmt_remove_inv kcmp.
Proof.
  intros cur s i Hinv. unfold remove_vid.
  assert (Hsub : forall v, In v (filter (fun v => negb (vid v =? i)) s) -> In v s).
  { intros v Hv. apply filter_In in Hv. tauto. }
  constructor.
  - apply sorted_filter. apply (si_sorted _ _ _ Hinv).
  - intros v Hv. apply (si_born _ _ _ Hinv); auto.
  - intros v Hv. apply (si_dead _ _ _ Hinv); auto.
  - intros v w Hv Hw. apply (si_succ _ _ _ Hinv); auto.
  - apply nodup_vid_filter. apply (si_vids _ _ _ Hinv).
Qed.

Lemma remove_live : stmt_remove_live.
Proof.
  intros s i. unfold live_entries, remove_vid, sp_remove.
  induction s as [|a s IH]; cbn [map filter]; auto.
  destruct (vid a =? i) eqn:E; cbn [negb].
  - rewrite IH. destruct (alive a); cbn [map filter fst]; auto. rewrite E. reflexivity.
  - cbn [filter]. destruct (alive a); cbn [map filter fst]; auto. rewrite E. cbn [negb].
    rewrite IH. reflexivity.
Qed.

Lemma remove_view : stmt_remove_view.
Proof.
  intros s i sn. unfold view, remove_vid.
  induction s as [|a s IH]; intros H; cbn [map filter]; auto.
  assert (IH' := IH (fun v Hv => H v (or_intror Hv))).
  destruct (N.eqb_spec (vid a) i) as [e|ne]; cbn [negb].
  - rewrite (H a (or_introl eq_refl) e). exact IH'.
  - cbn [filter]. destruct (visible sn a); cbn [map]; rewrite IH'; reflexivity.
Qed.

Lemma inv_mono : stmt_inv_mono kcmp.
Proof.
  intros cur s Hinv. constructor.
  - apply (si_sorted _ _ _ Hinv).
  - intros v Hv. pose proof (si_born _ _ _ Hinv v Hv). lia.
  - intros v Hv. pose proof (si_dead _ _ _ Hinv v Hv). lia.
  - apply (si_succ _ _ _ Hinv).
  - apply (si_vids _ _ _ Hinv).
Qed.

Lemma sp_has_in h s : sp_has h (live_entries s) = true -> In h (map vid s).
Proof.
  unfold sp_has. intro H. apply existsb_exists in H. destruct H as (e & He & Hh).
  apply in_live_entries in He. destruct He as (v & Hv & _ & ->). cbn in Hh. apply N.eqb_eq in Hh.
  subst h. apply in_map; auto.
Qed.

Lemma sp_has_live : stmt_sp_has_live.
Proof.
  intros s h. induction s as [|a s IH]; intros Hnd; [reflexivity|].
  cbn in Hnd. inversion Hnd as [|? ? Hni Hnd']; subst. specialize (IH Hnd').
  unfold find_vid. cbn [find]. unfold live_entries. cbn [filter].
  destruct (N.eqb_spec (vid a) h) as [e|ne].
  - destruct (alive a) eqn:Ea.
    + cbn [map]. unfold sp_has. cbn [existsb fst]. apply N.eqb_eq in e. rewrite e. reflexivity.
    + destruct (sp_has h (live_entries s)) eqn:Es; auto. apply sp_has_in in Es.
      exfalso. apply Hni. rewrite e. exact Es.
  - destruct (alive a) eqn:Ea.
    + cbn [map]. unfold sp_has. cbn [existsb fst]. apply N.eqb_neq in ne. rewrite ne. exact IH.
    + exact IH.
Qed.

Lemma set_dead_live : stmt_set_dead_live kcmp.
Proof. intros cur s i v HI Hf Hd Hlt. eapply set_dead_live_lt; eauto. Qed.

End OpsProofs.

