(** C01 / C09 on a moving store: proofs of the statements of LiveStmts.v.

    Method.  [visk sn s] is the list of (vid, item, bornSn) of the versions of [s] visible to [sn], in
    store order.  Under the simulation relation [R] of Refine.v, no single operation changes [visk sn]
    of a snapshot that is in the snapshot list before the operation (step_visk): Put inserts a version
    born in the current epoch, same-epoch DeleteNode removes one, cross-epoch DeleteNode only sets
    deadSn := current epoch on a live version, and the collection workers remove versions whose deadSn
    is <= lastGCSn < sn.  A snapshot that is open at the end of a run and whose number was already
    handed out at its beginning was open all the time (step_snaps_back).  On a store satisfying
    store_inv the live iterator standing on the k-th element of [visk sn] moves to the (k+1)-th (or to
    the end) by Next, whatever its counter and refresh rate are (li_next_at), because vids are
    distinct, so that [index_of_vid] re-locates the node, and by next_ok_inv / skip_pos_find of
    IterProofs.v. *)
From Coq Require Import List NArith ZArith Bool Lia.
From NV Require Import Base.Bytes Codec.Frame Mvcc.Store Mvcc.Ops Mvcc.Spec Mvcc.InvDefs Mvcc.Stmts
  Mvcc.OpsProofs Mvcc.IterProofs Mvcc.RefineStmt Mvcc.Refine Mvcc.Live Mvcc.LiveStmts Mvcc.CmpInst.
From Coq Require Import ZifyN ZifyNat ZifyBool.
Import ListNotations.
Open Scope N_scope.

(** * identity keys of the visible versions *)
Definition vkey (v : ver) : N * list N * N := (vid v, vitem v, vborn v).
Definition kvid (x : N * list N * N) : N := fst (fst x).
Definition kitem (x : N * list N * N) : list N := snd (fst x).
Definition visk (sn : N) (s : list ver) : list (N * list N * N) := map vkey (filter (visible sn) s).

Lemma visk_view sn s : view sn s = map kitem (visk sn s).
Proof. unfold view, visk. rewrite map_map. reflexivity. Qed.

Lemma visk_vids sn s : map kvid (visk sn s) = map vid (filter (visible sn) s).
Proof. unfold visk. rewrite map_map. reflexivity. Qed.

Lemma visk_app sn a b : visk sn (a ++ b) = visk sn a ++ visk sn b.
Proof. unfold visk. rewrite filter_app, map_app. reflexivity. Qed.

Lemma visk_cons sn x l :
  visk sn (x :: l) = if visible sn x then vkey x :: visk sn l else visk sn l.
Proof. unfold visk. cbn [filter]. destruct (visible sn x); reflexivity. Qed.

Lemma visk_in sn s x : In x (visk sn s) <-> exists v, vkey v = x /\ In v s /\ visible sn v = true.
Proof.
  unfold visk. rewrite in_map_iff. split; intros (v & Hk & Hv).
  - apply filter_In in Hv. exists v. tauto.
  - exists v. split; [exact Hk|]. apply filter_In. exact Hv.
Qed.

Lemma visk_remove i sn s :
  (forall v, In v s -> vid v = i -> visible sn v = false) -> visk sn (remove_vid i s) = visk sn s.
Proof.
  induction s as [|a s IH]; intros H; [reflexivity|].
  unfold remove_vid. cbn [filter]. fold (remove_vid i s).
  assert (IH' : visk sn (remove_vid i s) = visk sn s).
  { apply IH. intros v Hv Hi. apply H; [right; exact Hv|exact Hi]. }
  destruct (N.eqb_spec (vid a) i) as [e|ne]; cbn [negb].
  - rewrite visk_cons, (H a (or_introl eq_refl) e). exact IH'.
  - rewrite !visk_cons, IH'. reflexivity.
Qed.

Lemma visk_set_dead i c sn s : sn < c ->
  (forall v, In v s -> vid v = i -> vdead v = 0) -> visk sn (set_dead i c s) = visk sn s.
Proof.
  intros Hc. induction s as [|a s IH]; intros H; [reflexivity|].
  unfold set_dead. cbn [map]. fold (set_dead i c s).
  assert (IH' : visk sn (set_dead i c s) = visk sn s).
  { apply IH. intros v Hv Hi. apply H; [right; exact Hv|exact Hi]. }
  rewrite !visk_cons, IH'.
  destruct (N.eqb_spec (vid a) i) as [e|ne]; [|reflexivity].
  pose proof (H a (or_introl eq_refl) e) as Hd.
  assert (E : visible sn (mkVer (vitem a) (vborn a) c (vid a)) = visible sn a).
  { unfold visible. cbn [vborn vdead]. rewrite Hd.
    destruct (N.ltb_spec 0 c); destruct (N.leb_spec c sn); destruct (N.ltb_spec 0 0); try lia;
      cbn [andb]; reflexivity. }
  rewrite E. reflexivity.
Qed.

(** * generic list facts *)
Lemma find_hd_filter {A} (p : A -> bool) l : find p l = hd_error (filter p l).
Proof. induction l as [|a l IH]; [reflexivity|]. cbn. destruct (p a); [reflexivity|exact IH]. Qed.

Lemma hd_error_map {A B} (f : A -> B) l : hd_error (map f l) = option_map f (hd_error l).
Proof. destruct l; reflexivity. Qed.

Lemma nth_error_0 {A} (l : list A) : nth_error l 0 = hd_error l.
Proof. destruct l; reflexivity. Qed.

Lemma skipn_S_app {A} (l1 : list A) x l2 : skipn (S (length l1)) (l1 ++ x :: l2) = l2.
Proof. induction l1 as [|a l1 IH]; [reflexivity|]. cbn [length app]. exact IH. Qed.

Lemma nth_error_mid {A} (l1 : list A) x l2 : nth_error (l1 ++ x :: l2) (length l1) = Some x.
Proof. induction l1 as [|a l1 IH]; [reflexivity|]. cbn [length app nth_error]. exact IH. Qed.

(** * the element after the one with a given vid *)
Definition after_vid (i : N) (K : list (N * list N * N)) : list (N * list N * N) :=
  tl (snd (span (fun x => negb (kvid x =? i)) K)).

Lemma after_next K : NoDup (map kvid K) -> forall k x, nth_error K k = Some x ->
  hd_error (after_vid (kvid x) K) = nth_error K (S k).
Proof.
  induction K as [|y K IH]; intros Hnd k x Hk; [destruct k; discriminate|].
  inversion Hnd as [|? ? Hni Hnd']; subst. destruct k as [|k]; cbn [nth_error] in Hk.
  - inversion Hk; subst. unfold after_vid. cbn [span]. rewrite N.eqb_refl. cbn [negb snd tl].
    destruct K; reflexivity.
  - assert (Hne : kvid y <> kvid x).
    { intro e. apply Hni. rewrite e. apply in_map. apply (nth_error_In _ _ Hk). }
    specialize (IH Hnd' k x Hk). unfold after_vid in *. cbn [span].
    destruct (N.eqb_spec (kvid y) (kvid x)) as [e|_]; [contradiction|]. cbn [negb].
    destruct (span (fun x0 => negb (kvid x0 =? kvid x)) K) as [a b]. cbn [snd] in *.
    exact IH.
Qed.

(** * locating a visible version by its vid *)
Lemma locate_vid s v : NoDup (map vid s) -> In v s ->
  exists s1 s2, s = s1 ++ v :: s2 /\ span (fun w => negb (vid w =? vid v)) s = (s1, v :: s2).
Proof.
  intros Hnd Hin. destruct (in_split _ _ Hin) as (s1 & s2 & ->). exists s1, s2.
  split; [reflexivity|]. rewrite span_split.
  - cbn [span]. rewrite N.eqb_refl. cbn [negb fst snd]. rewrite app_nil_r. reflexivity.
  - rewrite map_app in Hnd. cbn [map] in Hnd. apply NoDup_remove_2 in Hnd.
    apply Forall_forall. intros w Hw. apply negb_true_iff. apply N.eqb_neq. intro e.
    apply Hnd. rewrite in_app_iff. left. rewrite <- e. apply in_map. exact Hw.
Qed.

Lemma after_visk sn s i v s1 s2 :
  span (fun w => negb (vid w =? i)) s = (s1, v :: s2) -> visible sn v = true ->
  after_vid i (visk sn s) = visk sn s2.
Proof.
  intros E V. apply span_spec in E. destruct E as (-> & F & Hv).
  unfold after_vid. rewrite visk_app, visk_cons, V. rewrite span_split.
  - cbn [span]. change (kvid (vkey v)) with (vid v). rewrite Hv. cbn [fst snd tl]. reflexivity.
  - apply Forall_forall. intros x Hx. apply visk_in in Hx. destruct Hx as (w & <- & Hw & _).
    rewrite Forall_forall in F. exact (F w Hw).
Qed.

Section LiveProofs.
Variable kcmp : list N -> list N -> comparison.
Hypothesis laws : cmp_laws kcmp.

Ltac dsimpl := cbn [store currSn writers itemsCount snaps gcsnaps lastGCSn gcchan next_vid removed fst snd].

Lemma locate_key cur s sn x : store_inv kcmp cur s -> In x (visk sn s) ->
  exists v s1 s2, vkey v = x /\ visible sn v = true /\ s = s1 ++ v :: s2 /\
    index_of_vid (kvid x) s = length s1 /\ after_vid (kvid x) (visk sn s) = visk sn s2.
Proof.
  intros Hinv Hx. apply visk_in in Hx. destruct Hx as (v & <- & Hv & V).
  destruct (locate_vid s v (si_vids _ _ _ Hinv) Hv) as (s1 & s2 & Hs & Hsp).
  exists v, s1, s2. change (kvid (vkey v)) with (vid v).
  split; [reflexivity|]. split; [exact V|]. split; [exact Hs|]. split.
  - unfold index_of_vid. rewrite Hsp. reflexivity.
  - apply (after_visk sn s (vid v) v s1 s2 Hsp V).
Qed.

(** * the live iterator on one store *)
Definition li_at (K : list (N * list N * N)) (sn : N) (k : nat) (li : liter) : Prop :=
  li_sn li = sn /\ li_positioned li = true /\ li_vid li = option_map kvid (nth_error K k).

Lemma li_item_at cur s sn k li : store_inv kcmp cur s -> li_at (visk sn s) sn k li ->
  li_item s li = option_map kitem (nth_error (visk sn s) k).
Proof.
  intros Hinv (Hsn & Hpos & Hvid). unfold li_item, li_obs. rewrite Hpos. unfold to_iter. rewrite Hvid.
  destruct (nth_error (visk sn s) k) as [x|] eqn:Ek; cbn [option_map].
  - destruct (locate_key cur s sn x Hinv (nth_error_In _ _ Ek)) as (v & s1 & s2 & Hk & V & Hs & Hi & _).
    rewrite Hi. unfold it_valid, it_get. cbn [it_pos].
    assert (Hlt : (length s1 <? length s)%nat = true).
    { apply Nat.ltb_lt. rewrite Hs, app_length. cbn [length]. lia. }
    rewrite Hlt. rewrite Hs at 1. rewrite nth_error_mid. cbn [option_map]. rewrite <- Hk. reflexivity.
  - unfold it_valid. cbn [it_pos]. rewrite Nat.ltb_irrefl. reflexivity.
Qed.

Lemma li_next_at cur s sn k li : store_inv kcmp cur s -> li_at (visk sn s) sn k li ->
  li_at (visk sn s) sn (S k) (li_step kcmp s li LNext).
Proof.
  intros Hinv (Hsn & Hpos & Hvid). unfold li_step.
  destruct (nth_error (visk sn s) k) as [x|] eqn:Ek; cbn [option_map] in Hvid.
  - destruct (locate_key cur s sn x Hinv (nth_error_In _ _ Ek)) as (v & s1 & s2 & Hk & V & Hs & Hi & Haft).
    set (it := to_iter s li).
    assert (Hp : it_pos it = length s1) by (unfold it, to_iter; cbn [it_pos]; rewrite Hvid; exact Hi).
    assert (Hitsn : it_sn it = sn) by (unfold it, to_iter; cbn [it_sn]; exact Hsn).
    assert (Hval : it_valid s it = true).
    { unfold it_valid. rewrite Hp. apply Nat.ltb_lt. rewrite Hs, app_length. cbn [length]. lia. }
    rewrite Hval. unfold of_iter, li_at. cbn [li_sn li_positioned li_vid].
    split; [rewrite it_next_sn; exact Hitsn|]. split; [exact Hpos|].
    unfold it_get.
    rewrite (next_ok_inv kcmp laws cur s sn (it_rate it) Hinv it Hitsn eq_refl).
    rewrite skip_pos_find by lia. rewrite Hp.
    rewrite Hs at 1. rewrite skipn_S_app. rewrite find_hd_filter.
    rewrite <- (after_next (visk sn s)) with (x := x); [|rewrite visk_vids; apply nodup_vid_filter; apply (si_vids _ _ _ Hinv)|exact Ek].
    rewrite Haft. unfold visk. rewrite hd_error_map.
    destruct (hd_error (filter (visible sn) s2)); reflexivity.
  - assert (Hval : it_valid s (to_iter s li) = false).
    { unfold it_valid, to_iter. cbn [it_pos]. rewrite Hvid. apply Nat.ltb_irrefl. }
    rewrite Hval. unfold li_at. split; [exact Hsn|]. split; [exact Hpos|].
    rewrite Hvid. apply nth_error_None in Ek.
    assert (E : nth_error (visk sn s) (S k) = None) by (apply nth_error_None; lia).
    rewrite E. reflexivity.
Qed.

Lemma li_first_at s sn rate :
  li_at (visk sn s) sn 0 (li_step kcmp s (mkLIter sn None 0 rate false) LSeekFirst).
Proof.
  unfold li_step, of_iter, li_at, to_iter. cbn [li_sn li_positioned li_vid li_count li_rate].
  split; [unfold it_seek_first; rewrite it_skip_sn; reflexivity|]. split; [reflexivity|].
  rewrite seek_first_exact. rewrite find_hd_filter, nth_error_0. unfold visk. rewrite hd_error_map.
  destruct (hd_error (filter (visible sn) s)); reflexivity.
Qed.

(** * what one operation does to the store, the epoch and the snapshot list *)
Lemma step_fst d o : fst (step kcmp d o) =
  match o with
  | Put w bs => fst (do_put kcmp d w bs)
  | Delete w bs => fst (do_delete kcmp d w bs)
  | DeleteNode w i => fst (do_deletenode d w i)
  | NewWriter => set_writers d (writers d ++ [mkWriter [] 0])
  | NewSnapshot => fst (do_newsnapshot d)
  | OpenSnap sn => fst (do_open d sn)
  | CloseSnap sn => do_close d sn
  | GC => do_gc d
  | WorkerStep => do_worker d
  | Drain => drain (S (length (gcchan d))) d
  | _ => d
  end.
Proof.
  destruct o; cbn [step]; try reflexivity.
  - destruct (do_put kcmp d w bs) as [d' r]. reflexivity.
  - destruct (do_delete kcmp d w bs) as [d' [n b]]. reflexivity.
  - destruct (do_deletenode d w i) as [d' b]. reflexivity.
  - destruct (do_open d sn) as [d' b]. reflexivity.
Qed.

Definition same_meta (d d' : db) : Prop := snaps d' = snaps d /\ currSn d' = currSn d.

Lemma put_meta d w bs : same_meta d (fst (do_put kcmp d w bs)).
Proof.
  unfold do_put. destruct (find_ins kcmp bs (currSn d) (store d)) as [[p s] f].
  destruct (f || exist_eq kcmp bs p); split; reflexivity.
Qed.

Lemma deletenode_meta d w i : same_meta d (fst (do_deletenode d w i)).
Proof.
  unfold do_deletenode. destruct (find_vid i (store d)) as [v|]; [|split; reflexivity].
  destruct (vborn v =? currSn d); [split; reflexivity|].
  destruct (vdead v =? 0); split; reflexivity.
Qed.

Lemma delete_meta d w bs : same_meta d (fst (do_delete kcmp d w bs)).
Proof.
  unfold do_delete. destruct (do_getnode kcmp d bs) as [i|]; [|split; reflexivity].
  pose proof (deletenode_meta d w i) as H. destruct (do_deletenode d w i) as [d' b]. exact H.
Qed.

Lemma gc_meta d : same_meta d (do_gc d) /\ store (do_gc d) = store d.
Proof.
  unfold do_gc. destruct (collect_dead (gcsnaps d) (lastGCSn d) (gcchan d)) as [[g l] c].
  split; [split|]; reflexivity.
Qed.

Lemma close_meta d n : currSn (do_close d n) = currSn d /\ store (do_close d n) = store d /\
  forall m, In m (map s_sn (snaps (do_close d n))) -> In m (map s_sn (snaps d)).
Proof.
  rewrite do_close_eq. destruct (find_snap n (snaps d)) as [s|]; [|auto].
  destruct (s_ref s - 1 =? 0)%Z.
  - match goal with |- context [do_gc ?x] => destruct (gc_meta x) as [[G1 G2] G3] end.
    rewrite G1, G2, G3. dsimpl. split; [reflexivity|]. split; [reflexivity|].
    intros m Hm. apply in_map_iff in Hm. destruct Hm as (z & <- & Hz). apply filter_In in Hz.
    apply in_map. tauto.
  - dsimpl. split; [reflexivity|]. split; [reflexivity|]. rewrite map_sn_close_m. auto.
Qed.

Lemma open_meta d n : currSn (fst (do_open d n)) = currSn d /\ store (fst (do_open d n)) = store d /\
  map s_sn (snaps (fst (do_open d n))) = map s_sn (snaps d).
Proof.
  rewrite do_open_eq. destruct (find_snap n (snaps d)) as [s|]; [|auto].
  destruct (s_ref s =? 0)%Z; dsimpl; [auto|]. rewrite map_sn_open_m. auto.
Qed.

Lemma step_meta d o :
  currSn d <= currSn (fst (step kcmp d o)) /\
  forall m, m <> currSn d -> In m (map s_sn (snaps (fst (step kcmp d o)))) -> In m (map s_sn (snaps d)).
Proof.
  assert (Hsame : forall d', same_meta d d' ->
    currSn d <= currSn d' /\ forall m, m <> currSn d -> In m (map s_sn (snaps d')) -> In m (map s_sn (snaps d))).
  { intros d' [E1 E2]. rewrite E1, E2. split; [lia|auto]. }
  rewrite step_fst. destruct o; try (apply Hsame; split; reflexivity).
  - apply Hsame, put_meta.
  - apply Hsame, delete_meta.
  - apply Hsame, deletenode_meta.
  - unfold do_newsnapshot. dsimpl. split; [lia|]. intros m Hm Hin. rewrite map_app, in_app_iff in Hin.
    destruct Hin as [Hin|[Hin|[]]]; [exact Hin|]. cbn [s_sn] in Hin. congruence.
  - destruct (open_meta d sn) as (E1 & _ & E3). rewrite E1, E3. split; [lia|auto].
  - destruct (close_meta d sn) as (E1 & _ & E3). rewrite E1. split; [lia|]. intros m _. apply E3.
  - apply Hsame, gc_meta.
  - apply Hsame. destruct (worker_same d) as (W1 & _ & _ & W4). split; assumption.
  - apply Hsame. destruct (drain_same (S (length (gcchan d))) d) as (W1 & _ & _ & W4). split; assumption.
Qed.

(** ** the visible versions of a listed snapshot are untouched by one operation *)
Lemma put_visk d w bs sn : sn < currSn d ->
  visk sn (store (fst (do_put kcmp d w bs))) = visk sn (store d).
Proof.
  intros Hlt. unfold do_put. destruct (find_ins kcmp bs (currSn d) (store d)) as [[p s] f].
  destruct (f || exist_eq kcmp bs p); dsimpl; [reflexivity|].
  unfold insert_ver. cbn [vitem vborn].
  destruct (span (before_ins kcmp bs (currSn d)) (store d)) as [l1 l2] eqn:E.
  apply span_spec in E. destruct E as (E & _ & _). rewrite E, !visk_app, visk_cons.
  rewrite invisible_born by (cbn [vborn]; exact Hlt). reflexivity.
Qed.

Lemma deletenode_visk d w i sn : NoDup (map vid (store d)) -> sn < currSn d ->
  visk sn (store (fst (do_deletenode d w i))) = visk sn (store d).
Proof.
  intros Hnd Hlt. unfold do_deletenode. destruct (find_vid i (store d)) as [v|] eqn:Ef; [|reflexivity].
  destruct (find_vid_in _ _ _ Ef) as [Hv Hvi].
  assert (Huniq : forall v0, In v0 (store d) -> vid v0 = i -> v0 = v).
  { intros v0 Hv0 Hi0. apply (vid_inj (store d)); auto. congruence. }
  destruct (N.eqb_spec (vborn v) (currSn d)) as [Hb|Hb]; dsimpl.
  - apply visk_remove. intros v0 Hv0 Hi0. rewrite (Huniq v0 Hv0 Hi0). apply invisible_born. lia.
  - destruct (N.eqb_spec (vdead v) 0) as [Hd|Hd]; dsimpl; [|reflexivity].
    apply visk_set_dead; [exact Hlt|]. intros v0 Hv0 Hi0. rewrite (Huniq v0 Hv0 Hi0). exact Hd.
Qed.

Lemma delete_visk d w bs sn : NoDup (map vid (store d)) -> sn < currSn d ->
  visk sn (store (fst (do_delete kcmp d w bs))) = visk sn (store d).
Proof.
  intros Hnd Hlt. unfold do_delete. destruct (do_getnode kcmp d bs) as [i|]; [|reflexivity].
  pose proof (deletenode_visk d w i sn Hnd Hlt) as H. destruct (do_deletenode d w i) as [d' b]. exact H.
Qed.

Lemma remove_all_visk cur nv live snl ssn wg gg last cg sn : forall l st,
  Sinv kcmp st cur nv live -> Pinv st snl ssn cur -> Ginv st cur nv wg (map key snl) gg last (l ++ cg) ->
  In sn (map s_sn snl) ->
  visk sn (fold_left (fun s i => remove_vid i s) l st) = visk sn st.
Proof.
  induction l as [|i l IH]; intros st HS HP HG Hn; cbn [fold_left app] in *; [reflexivity|].
  destruct (remove_dead_ok kcmp _ _ _ _ _ _ _ _ _ _ _ HS HP HG) as (HS' & HP' & HG').
  rewrite (IH _ HS' HP' HG' Hn). apply visk_remove. intros v Hv Hvi.
  destruct (gi_c _ _ _ _ _ _ _ _ HG i (or_introl eq_refl)) as [_ Hgp].
  pose proof (find_vid_nodup _ _ (si_vids _ _ _ (sv_inv _ _ _ _ _ HS)) Hv) as Hf. rewrite Hvi in Hf.
  specialize (Hgp v Hf). pose proof (snap_rng _ _ _ _ _ _ _ _ sn HG Hn) as Hr.
  apply invisible_dead; lia.
Qed.

Lemma worker_visk nw d sp sn : R kcmp nw d sp -> In sn (map s_sn (snaps d)) ->
  visk sn (store (do_worker d)) = visk sn (store d).
Proof.
  intros HR Hn. unfold do_worker. destruct (gcchan d) as [|l r] eqn:Ec; [reflexivity|]. dsimpl.
  destruct HR as [HS _ _ _ _ _ HP HG]. rewrite Ec in HG. cbn [concat] in HG.
  apply (remove_all_visk _ _ _ _ _ _ _ _ _ sn l _ HS HP HG Hn).
Qed.

Lemma drain_visk nw sp sn : forall fuel d, R kcmp nw d sp -> In sn (map s_sn (snaps d)) ->
  visk sn (store (drain fuel d)) = visk sn (store d).
Proof.
  induction fuel as [|f IH]; intros d HR Hn; cbn [drain]; [reflexivity|].
  destruct (gcchan d) eqn:Ec; [reflexivity|].
  rewrite IH.
  - apply (worker_visk nw d sp sn HR Hn).
  - apply worker_ok; exact HR.
  - destruct (worker_same d) as (W1 & _). rewrite W1. exact Hn.
Qed.

Lemma step_visk nw d sp o sn : R kcmp nw d sp -> In sn (map s_sn (snaps d)) ->
  visk sn (store (fst (step kcmp d o))) = visk sn (store d).
Proof.
  intros HR Hn.
  assert (Hlt : sn < currSn d) by (apply (snap_rng _ _ _ _ _ _ _ _ sn (r_g _ _ _ _ HR) Hn)).
  assert (Hnd : NoDup (map vid (store d))) by (apply (si_vids _ _ _ (sv_inv _ _ _ _ _ (r_s _ _ _ _ HR)))).
  rewrite step_fst. destruct o; try reflexivity.
  - apply put_visk; exact Hlt.
  - apply delete_visk; assumption.
  - apply deletenode_visk; assumption.
  - destruct (open_meta d sn0) as (_ & E & _). rewrite E. reflexivity.
  - destruct (close_meta d sn0) as (_ & E & _). rewrite E. reflexivity.
  - destruct (gc_meta d) as (_ & E). rewrite E. reflexivity.
  - apply (worker_visk nw d sp sn HR Hn).
  - apply (drain_visk nw sp sn _ d HR Hn).
Qed.

(** ** open = listed *)
Lemma snap_open_in d sn : snap_open d sn = true -> In sn (map s_sn (snaps d)).
Proof.
  unfold snap_open, find_snap. destruct (find (fun s => s_sn s =? sn) (snaps d)) as [s|] eqn:E; [|discriminate].
  intros _. apply find_some in E. destruct E as [Hs Hsn]. apply N.eqb_eq in Hsn. rewrite <- Hsn.
  apply in_map. exact Hs.
Qed.

Lemma in_snap_open nw d sp sn : R kcmp nw d sp -> In sn (map s_sn (snaps d)) -> snap_open d sn = true.
Proof.
  intros HR Hn. unfold snap_open, find_snap.
  destruct (find (fun s => s_sn s =? sn) (snaps d)) as [s|] eqn:E.
  - apply find_some in E. destruct E as [Hs _].
    destruct (sr_in _ _ s (pi_rel _ _ _ _ (r_p _ _ _ _ HR)) Hs) as (x & _ & _ & Hr & Hp).
    apply Z.ltb_lt. lia.
  - exfalso. apply in_map_iff in Hn. destruct Hn as (s & Hsn & Hs).
    pose proof (find_none _ _ E s Hs) as Hf. cbn in Hf. apply N.eqb_neq in Hf. contradiction.
Qed.

(** * whole runs *)
Lemma run_cons_fst d o r : fst (run kcmp d (o :: r)) = fst (run kcmp (fst (step kcmp d o)) r).
Proof. cbn [run]. destruct (step kcmp d o) as [d' x]. cbn [fst]. destruct (run kcmp d' r) as [d'' xs]. reflexivity. Qed.

Lemma run_R_split : forall a b nw d sp, R kcmp nw d sp -> wf_from nw (a ++ b) ->
  exists nw' sp', R kcmp nw' (fst (run kcmp d a)) sp' /\ wf_from nw' b.
Proof.
  induction a as [|o a IH]; intros b nw d sp HR Hwf.
  - exists nw, sp. split; assumption.
  - cbn [app] in Hwf. apply wf_from_cons in Hwf. destruct Hwf as [Hop Hr].
    destruct (step_R kcmp laws nw d sp o HR Hop) as [HR' _]. rewrite run_cons_fst.
    apply (IH b _ _ _ HR' Hr).
Qed.

(** a snapshot whose number was handed out before the run and that is open after it was open before
    it, and its visible versions are the same ones *)
Lemma run_visk sn : forall a b nw d sp, R kcmp nw d sp -> wf_from nw (a ++ b) -> sn < currSn d ->
  snap_open (fst (run kcmp d a)) sn = true ->
  (exists nw' sp', R kcmp nw' (fst (run kcmp d a)) sp' /\ wf_from nw' b) /\
  visk sn (store (fst (run kcmp d a))) = visk sn (store d) /\ snap_open d sn = true.
Proof.
  induction a as [|o a IH]; intros b nw d sp HR Hwf Hlt Hop.
  - cbn [run fst] in *. split; [exists nw, sp; split; assumption|]. split; [reflexivity|exact Hop].
  - cbn [app] in Hwf. apply wf_from_cons in Hwf. destruct Hwf as [Hwo Hr].
    destruct (step_R kcmp laws nw d sp o HR Hwo) as [HR' _]. rewrite run_cons_fst in *.
    destruct (step_meta d o) as [Hmono Hback].
    destruct (IH b _ _ _ HR' Hr) as (Hex & Hk & Hop'); [lia|exact Hop|].
    assert (Hin : In sn (map s_sn (snaps d))).
    { apply Hback; [lia|]. apply snap_open_in. exact Hop'. }
    split; [exact Hex|]. split.
    + rewrite Hk. apply (step_visk nw d sp o sn HR Hin).
    + apply (in_snap_open nw d sp sn HR Hin).
Qed.

Lemma open_lt nw d sp sn : R kcmp nw d sp -> snap_open d sn = true -> sn < currSn d.
Proof.
  intros HR Hop. apply (snap_rng _ _ _ _ _ _ _ _ sn (r_g _ _ _ _ HR)). apply snap_open_in. exact Hop.
Qed.

Lemma R_inv nw d sp : R kcmp nw d sp -> store_inv kcmp (currSn d) (store d).
Proof. intro HR. apply (sv_inv _ _ _ _ _ (r_s _ _ _ _ HR)). Qed.

(** * the scan *)
Lemma live_nexts_at sn K : forall segs nw d sp li k,
  R kcmp nw d sp -> wf_from nw (concat segs) -> snap_open d sn = true -> visk sn (store d) = K ->
  open_along kcmp d sn segs = true -> li_at K sn k li ->
  live_nexts kcmp d li segs = map (fun j => option_map kitem (nth_error K j)) (seq (S k) (length segs)).
Proof.
  induction segs as [|seg r IH]; intros nw d sp li k HR Hwf Hop HK Hal Hat; [reflexivity|].
  cbn [live_nexts concat open_along length seq map] in *.
  apply andb_true_iff in Hal. destruct Hal as [Hop1 Hal].
  destruct (run_visk sn seg (concat r) nw d sp HR Hwf (open_lt _ _ _ _ HR Hop) Hop1)
    as ((nw' & sp' & HR' & Hwf') & Hk & _).
  set (d' := fst (run kcmp d seg)) in *.
  assert (HK' : visk sn (store d') = K) by (rewrite Hk; exact HK).
  pose proof (R_inv _ _ _ HR') as Hinv.
  assert (Hat' : li_at K sn (S k) (li_step kcmp (store d') li LNext)).
  { rewrite <- HK'. apply (li_next_at (currSn d')); [exact Hinv|]. rewrite HK'. exact Hat. }
  f_equal.
  - rewrite <- HK'. apply (li_item_at (currSn d')); [exact Hinv|]. rewrite HK'. exact Hat'.
  - apply (IH nw' d' sp'); assumption.
Qed.

Theorem live_scan_exact : stmt_live_scan kcmp.
Proof.
  intros pre sn rate seg0 segs Hwf d0 Hop Hal.
  destruct (run_R_split pre (seg0 ++ concat segs) 0%nat db_init spec_init (R_init kcmp) Hwf)
    as (nw0 & sp0 & HR0 & Hwf0).
  fold d0 in HR0. cbn [open_along] in Hal. apply andb_true_iff in Hal. destruct Hal as [Hop1 Hal].
  destruct (run_visk sn seg0 (concat segs) nw0 d0 sp0 HR0 Hwf0 (open_lt _ _ _ _ HR0 Hop) Hop1)
    as ((nw1 & sp1 & HR1 & Hwf1) & Hk & _).
  unfold live_scan. set (d1 := fst (run kcmp d0 seg0)) in *.
  set (li0 := li_step kcmp (store d1) (mkLIter sn None 0 rate false) LSeekFirst).
  pose proof (R_inv _ _ _ HR1) as Hinv.
  assert (Hat : li_at (visk sn (store d1)) sn 0 li0) by apply li_first_at.
  cbn [length seq map]. f_equal.
  - rewrite (li_item_at (currSn d1) (store d1) sn 0 li0 Hinv Hat).
    rewrite Hk, visk_view, nth_error_map. reflexivity.
  - rewrite (live_nexts_at sn (visk sn (store d1)) segs nw1 d1 sp1 li0 0 HR1 Hwf1 Hop1 eq_refl Hal Hat).
    apply map_ext. intro j. rewrite Hk, visk_view, nth_error_map. reflexivity.
Qed.

(** * the node stays *)
(** [stmt_live_node_stays] as written in LiveStmts.v only asks the snapshot to be open AFTER the
    segment.  That allows a snapshot that is created inside the segment, and then a version of the
    store before the segment that "would be visible" to that future snapshot number can be deleted
    before the snapshot is created (see [live_node_stays_refuted] below).  The closest true variants:
    the snapshot number has been handed out before the segment starts ([sn < currSn d0]), in
    particular the snapshot is open before the segment as well. *)
Definition stmt_live_node_stays_created : Prop :=
  forall pre sn seg v,
    wf_from 0 (pre ++ seg) ->
    let d0 := fst (run kcmp db_init pre) in
    let d1 := fst (run kcmp d0 seg) in
    sn < currSn d0 ->
    snap_open d1 sn = true ->
    In v (store d0) -> visible sn v = true ->
    exists v', In v' (store d1) /\ vid v' = vid v /\ vitem v' = vitem v /\ vborn v' = vborn v /\ visible sn v' = true.

Definition stmt_live_node_stays_open : Prop :=
  forall pre sn seg v,
    wf_from 0 (pre ++ seg) ->
    let d0 := fst (run kcmp db_init pre) in
    let d1 := fst (run kcmp d0 seg) in
    snap_open d0 sn = true ->
    snap_open d1 sn = true ->
    In v (store d0) -> visible sn v = true ->
    exists v', In v' (store d1) /\ vid v' = vid v /\ vitem v' = vitem v /\ vborn v' = vborn v /\ visible sn v' = true.

(** the stronger fact both follow from: the visible versions are the same ones, in the same order *)
Definition stmt_live_visible_fixed : Prop :=
  forall pre sn seg,
    wf_from 0 (pre ++ seg) ->
    let d0 := fst (run kcmp db_init pre) in
    let d1 := fst (run kcmp d0 seg) in
    sn < currSn d0 ->
    snap_open d1 sn = true ->
    snap_open d0 sn = true /\
    map (fun v => (vid v, vitem v, vborn v)) (filter (visible sn) (store d1)) =
    map (fun v => (vid v, vitem v, vborn v)) (filter (visible sn) (store d0)).

Theorem live_visible_fixed : stmt_live_visible_fixed.
Proof.
  intros pre sn seg Hwf d0 d1 Hlt Hop1.
  destruct (run_R_split pre seg 0%nat db_init spec_init (R_init kcmp) Hwf) as (nw0 & sp0 & HR0 & Hwf0).
  fold d0 in HR0. rewrite <- (app_nil_r seg) in Hwf0.
  destruct (run_visk sn seg [] nw0 d0 sp0 HR0 Hwf0 Hlt Hop1) as (_ & Hk & Hop0).
  split; [exact Hop0|exact Hk].
Qed.

Theorem live_node_stays_created : stmt_live_node_stays_created.
Proof.
  intros pre sn seg v Hwf d0 d1 Hlt Hop1 Hv V.
  destruct (live_visible_fixed pre sn seg Hwf Hlt Hop1) as [_ Hk]. fold d0 d1 in Hk.
  assert (Hin : In (vkey v) (visk sn (store d1))).
  { unfold visk, vkey. rewrite Hk. apply (in_map (fun v => (vid v, vitem v, vborn v))).
    apply filter_In. split; assumption. }
  apply visk_in in Hin. destruct Hin as (v' & Hkey & Hv' & V'). unfold vkey in Hkey.
  inversion Hkey. exists v'. repeat split; assumption.
Qed.

Theorem live_node_stays_open : stmt_live_node_stays_open.
Proof.
  intros pre sn seg v Hwf d0 d1 Hop0 Hop1 Hv V.
  destruct (run_R_split pre seg 0%nat db_init spec_init (R_init kcmp) Hwf) as (nw0 & sp0 & HR0 & _).
  fold d0 in HR0.
  apply (live_node_stays_created pre sn seg v Hwf (open_lt _ _ _ _ HR0 Hop0) Hop1 Hv V).
Qed.

(** the statement as written fails for every lawful comparator: [1] is put and deleted in epoch 1
    (a same-epoch delete unlinks the node at once), and only then snapshot 1 is created; it is open
    after the segment, the version (born 1, alive) of the store before the segment is "visible" to the
    number 1, and it is gone. *)
Theorem live_node_stays_refuted : ~ stmt_live_node_stays kcmp.
Proof.
  intro H.
  specialize (H [NewWriter; Put 0 [1]] 1 [Delete 0 [1]; NewSnapshot] (mkVer [1] 1 0 0)).
  assert (E : kcmp [1] [1] = Eq) by (apply (IterProofs.kc_refl kcmp laws)).
  set (D := mkDb [mkVer [1] 1 0 0] 1 [mkWriter [] 1] 0 [] [] 0 [] 1 []).
  assert (Ed0 : fst (run kcmp db_init [NewWriter; Put 0 [1]]) = D) by reflexivity.
  assert (Edel : do_delete kcmp D 0 [1] = (mkDb [] 1 [mkWriter [] 0] 0 [] [] 0 [] 1 [0], (Some 0, true))).
  { unfold do_delete, do_getnode, find_ins, D. cbn [store currSn span]. unfold before_ins, ins_cmp.
    cbn [vitem vborn]. rewrite E. repeat first [rewrite E | progress cbn]. reflexivity. }
  assert (Ed1 : fst (run kcmp D [Delete 0 [1]; NewSnapshot]) =
                mkDb [] 2 [mkWriter [] 0] 0 [mkSnap 1 1 0 []] [] 0 [] 1 [0]).
  { cbn [run step]. rewrite Edel. reflexivity. }
  cbv zeta in H. rewrite Ed0, Ed1 in H. destruct H as (v' & [] & _).
  - cbn. split; [lia|]. split; [lia|exact I].
  - reflexivity.
  - left. reflexivity.
  - reflexivity.
Qed.

End LiveProofs.

Print Assumptions live_scan_exact.
Print Assumptions live_visible_fixed.
Print Assumptions live_node_stays_created.
Print Assumptions live_node_stays_open.
Print Assumptions live_node_stays_refuted.

(** * the two executable comparators *)
Theorem live_scan_exact_bytes : stmt_live_scan bytes_cmp.
Proof. exact (live_scan_exact bytes_cmp bytes_cmp_laws). Qed.
Theorem live_scan_exact_kv : stmt_live_scan compare_kv.
Proof. exact (live_scan_exact compare_kv compare_kv_laws). Qed.
Theorem live_node_stays_open_bytes : stmt_live_node_stays_open bytes_cmp.
Proof. exact (live_node_stays_open bytes_cmp bytes_cmp_laws). Qed.
Theorem live_node_stays_open_kv : stmt_live_node_stays_open compare_kv.
Proof. exact (live_node_stays_open compare_kv compare_kv_laws). Qed.
Theorem live_node_stays_refuted_bytes : ~ stmt_live_node_stays bytes_cmp.
Proof. exact (live_node_stays_refuted bytes_cmp bytes_cmp_laws). Qed.
Theorem live_node_stays_refuted_kv : ~ stmt_live_node_stays compare_kv.
Proof. exact (live_node_stays_refuted compare_kv compare_kv_laws). Qed.
Print Assumptions live_scan_exact_bytes.
Print Assumptions live_scan_exact_kv.
Print Assumptions live_node_stays_open_bytes.
Print Assumptions live_node_stays_open_kv.
Print Assumptions live_node_stays_refuted_bytes.
Print Assumptions live_node_stays_refuted_kv.

(** the witness against [stmt_live_node_stays] as written, evaluated: every hypothesis holds, the
    store after the segment is empty *)
Example live_node_stays_witness :
  let pre := [NewWriter; Put 0 [1]] in
  let seg := [Delete 0 [1]; NewSnapshot] in
  let v := mkVer [1] 1 0 0 in
  let d0 := fst (run bytes_cmp db_init pre) in
  let d1 := fst (run bytes_cmp d0 seg) in
  wf_from 0 (pre ++ seg) /\ snap_open d0 1 = false /\ currSn d0 = 1 /\
  snap_open d1 1 = true /\ In v (store d0) /\ visible 1 v = true /\ store d1 = [].
Proof.
  cbv zeta. split; [cbn; repeat split; lia|]. split; [vm_compute; reflexivity|].
  split; [vm_compute; reflexivity|]. split; [vm_compute; reflexivity|].
  split; [vm_compute; left; reflexivity|]. split; vm_compute; reflexivity.
Qed.

(** non-vacuity of [stmt_live_scan]: snapshot 3 holds 96 97 98 99 101.  Before SeekFirst and between
    the Next steps (refresh rate 2) the other goroutines delete 98 and 97 (cross-epoch), re-insert 98,
    delete that new 98 in its own epoch (physical unlink) and insert it again, insert 100, create
    snapshots 4 and 5, close snapshots 1, 2 and 4, open and close snapshot 3 once more, and run GC
    passes and the workers, which physically remove the version of 102 that died in epoch 2.  All
    hypotheses hold, the store has moved, and the scan yields each of the five items once, in order,
    then None. *)
Example live_scan_nonvacuous :
  let pre := [NewWriter; Put 0 [97]; Put 0 [98]; Put 0 [99]; Put 0 [102]; NewSnapshot;
              Delete 0 [102]; Put 0 [101]; NewSnapshot; Put 0 [96]; NewSnapshot] in
  let seg0 := [Delete 0 [98]; Put 0 [100]; NewSnapshot] in
  let segs := [[Put 0 [98]; CloseSnap 1; GC; Drain]; [Delete 0 [97]; Delete 0 [98]; Put 0 [98]];
               [CloseSnap 2; GC; Drain]; [NewSnapshot; CloseSnap 4; GC; WorkerStep];
               [OpenSnap 3; CloseSnap 3]; []; []] in
  let d0 := fst (run bytes_cmp db_init pre) in
  let dn := fst (run bytes_cmp d0 (seg0 ++ concat segs)) in
  wf_from 0 (pre ++ seg0 ++ concat segs) /\
  snap_open d0 3 = true /\
  open_along bytes_cmp d0 3 (seg0 :: segs) = true /\
  view 3 (store d0) = [[96]; [97]; [98]; [99]; [101]] /\
  phys (store d0) = [([96], 3, 0); ([97], 1, 0); ([98], 1, 0); ([99], 1, 0); ([101], 2, 0); ([102], 1, 2)] /\
  phys (store dn) = [([96], 3, 0); ([97], 1, 5); ([98], 1, 4); ([98], 5, 0); ([99], 1, 0); ([100], 4, 0);
                     ([101], 2, 0)] /\
  removed dn = [7; 3] /\
  live_scan bytes_cmp d0 3 2 seg0 segs
  = [Some [96]; Some [97]; Some [98]; Some [99]; Some [101]; None; None; None] /\
  live_scan bytes_cmp d0 3 2 seg0 segs
  = map (fun k => nth_error (view 3 (store d0)) k) (seq 0 (S (length segs))).
Proof.
  cbv zeta. split; [cbn; repeat split; lia|].
  repeat split; vm_compute; reflexivity.
Qed.
