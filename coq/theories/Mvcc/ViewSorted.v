(** The view of a snapshot is strictly increasing by key (one visible version per key). *)
From NV Require Import Base.Bytes Mvcc.Store Mvcc.Ops Mvcc.InvDefs.
From Coq Require Import ZifyN ZifyNat ZifyBool Sorting.Sorted.
Open Scope N_scope.

Section ViewSorted.
Variable kcmp : list N -> list N -> comparison.

Definition key_lt (a b : list N) : Prop := kcmp a b = Lt.

Lemma visible_spec sn v : visible sn v = true <-> vborn v <= sn /\ (vdead v = 0 \/ sn < vdead v).
Proof.
  unfold visible.
  destruct (N.ltb_spec sn (vborn v)); destruct (N.ltb_spec 0 (vdead v)); destruct (N.leb_spec (vdead v) sn);
    cbn; split; try discriminate; try lia; intros; reflexivity.
Qed.

Lemma view_strict cur s sn : store_inv kcmp cur s ->
  StronglySorted key_lt (view sn s).
Proof.
  intros HI. pose proof (si_sorted _ _ _ HI) as HS. pose proof (si_succ _ _ _ HI) as HSucc.
  assert (Hsub : forall v, In v s -> In v s) by auto.
  revert HS Hsub. generalize s at 1 2 4 as l.
  induction l as [|v r IH]; intros HS Hsub; unfold view; cbn [filter map]; [constructor|].
  destruct HS as [Hall HS'].
  assert (Hr : StronglySorted key_lt (view sn r)).
  { apply IH; [exact HS'|intros w Hw; apply Hsub; right; exact Hw]. }
  destruct (visible sn v) eqn:Ev; [|exact Hr].
  cbn [map]. constructor; [exact Hr|].
  rewrite Forall_forall. intros x Hx. unfold view in Hx. apply in_map_iff in Hx.
  destruct Hx as (w & <- & Hw). apply filter_In in Hw. destruct Hw as [Hw Ew].
  rewrite Forall_forall in Hall. destruct (Hall w Hw) as [Hlt|[Heq Hb]]; [exact Hlt|]. exfalso.
  assert (Hv_in : In v s) by (apply Hsub; left; reflexivity).
  assert (Hw_in : In w s) by (apply Hsub; right; exact Hw).
  destruct (HSucc v w Hv_in Hw_in Heq Hb) as [Hd Hle].
  apply visible_spec in Ev. apply visible_spec in Ew. lia.
Qed.

End ViewSorted.
