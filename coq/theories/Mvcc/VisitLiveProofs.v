(** Visitor over an OPEN snapshot on a moving store: proof of the statement of VisitLiveStmts.v.

    Method.  A snapshot that is open after a run through [drun] and whose number was handed out before
    it was in the snapshot list before every single operation of the run (step_meta: only NewSnapshot
    adds a number to the list, and it adds the current epoch).  Under the simulation relation [R] every
    vid of a garbage list in the collection channel belongs to a version with 1 <= deadSn <= lastGCSn
    (Ginv.gi_c) and every listed snapshot number is > lastGCSn (snap_rng): such a version is invisible
    to the snapshot, so a collection worker in delta mode writes nothing (worker_delta_nil).  Hence
    the delta of the whole scan is empty (drun_open, dshard_loop_open, dshards_open), and
    [delta_backup_exact] says that the concatenated shards are strictly sorted by key and have the same
    members as the view at the start, which is strictly sorted as well (ViewSorted.view_strict): they
    are equal (DeltaProofs.ss_eq).  The statement holds as written; [0 <= rate] is not needed. *)
From Coq Require Import List NArith ZArith Bool Lia Sorting.Sorted.
From NV Require Import Base.Bytes Codec.Frame Mvcc.Store Mvcc.Ops Mvcc.Spec Mvcc.InvDefs Mvcc.Stmts
  Mvcc.OpsProofs Mvcc.IterProofs Mvcc.RefineStmt Mvcc.Refine Mvcc.ViewSorted Mvcc.Backup Mvcc.BackupProofs
  Mvcc.Live Mvcc.LiveStmts Mvcc.LiveProofs Mvcc.Delta Mvcc.DeltaStmts Mvcc.DeltaProofs Mvcc.VisitLiveStmts
  Mvcc.CmpInst.
From Coq Require Import ZifyN ZifyNat ZifyBool.
Import ListNotations.
Open Scope N_scope.

Section VisitLiveProofs.
Variable kcmp : list N -> list N -> comparison.
Hypothesis laws : cmp_laws kcmp.

(** * [drun] and [run] go through the same states *)
Lemma drun_run sn : forall ops d, fst (fst (drun kcmp sn d ops)) = fst (run kcmp d ops).
Proof.
  induction ops as [|o r IH]; intros d; [reflexivity|].
  cbn [drun run]. destruct (step kcmp d o) as [d1 x]. specialize (IH d1).
  destruct (drun kcmp sn d1 r) as [[d2 xs] dl2]. destruct (run kcmp d1 r) as [d3 ys].
  cbn [fst] in *. exact IH.
Qed.

(** * a collection worker writes nothing to the delta of a listed snapshot *)
Lemma worker_delta_nil nw d sp sn l r : R kcmp nw d sp -> In sn (map s_sn (snaps d)) ->
  gcchan d = l :: r -> visible_items_of sn (store d) l = [].
Proof.
  intros HR Hn Ec.
  destruct (visible_items_of sn (store d) l) as [|y ys] eqn:E; [reflexivity|exfalso].
  assert (Hy : In y (visible_items_of sn (store d) l)) by (rewrite E; left; reflexivity).
  apply visible_items_in in Hy. destruct Hy as (i & v & Hi & Ef & V & _).
  pose proof (r_g _ _ _ _ HR) as HG.
  assert (Hic : In i (concat (gcchan d))).
  { rewrite Ec. cbn [concat]. apply in_app_iff. left. exact Hi. }
  destruct (gi_c _ _ _ _ _ _ _ _ HG i Hic) as [_ Hgp]. specialize (Hgp v Ef).
  pose proof (snap_rng _ _ _ _ _ _ _ _ sn HG Hn) as Hr.
  rewrite invisible_dead in V by lia. discriminate.
Qed.

Lemma drain_delta_nil nw sp sn : forall fuel d, R kcmp nw d sp -> In sn (map s_sn (snaps d)) ->
  drain_delta fuel sn d = [].
Proof.
  induction fuel as [|f IH]; intros d HR Hn; cbn [drain_delta]; [reflexivity|].
  destruct (gcchan d) as [|l r] eqn:Ec; [reflexivity|].
  rewrite (worker_delta_nil nw d sp sn l r HR Hn Ec). cbn [app].
  apply IH; [apply worker_ok; exact HR|].
  destruct (worker_same d) as (W1 & _). rewrite W1. exact Hn.
Qed.

Lemma step_delta_nil nw d sp sn o : R kcmp nw d sp -> In sn (map s_sn (snaps d)) ->
  delta_of_step sn d o = [].
Proof.
  intros HR Hn. destruct o; cbn [delta_of_step]; try reflexivity.
  - destruct (gcchan d) as [|l r] eqn:Ec; [reflexivity|].
    apply (worker_delta_nil nw d sp sn l r HR Hn Ec).
  - apply (drain_delta_nil nw sp sn _ d HR Hn).
Qed.

(** * a segment: open at its end => open at its beginning, no delta *)
Lemma drun_open sn : forall ops b nw d sp d' outs dl,
  R kcmp nw d sp -> wf_from nw (ops ++ b) -> sn < currSn d ->
  drun kcmp sn d ops = (d', outs, dl) -> snap_open d' sn = true ->
  dl = [] /\ snap_open d sn = true.
Proof.
  induction ops as [|o r IH]; intros b nw d sp d' outs dl HR Hwf Hlt E Hop.
  - cbn [drun] in E. inversion E; subst. split; [reflexivity|exact Hop].
  - cbn [app] in Hwf. apply wf_from_cons in Hwf. destruct Hwf as [Hwo Hr].
    destruct (step_R kcmp laws nw d sp o HR Hwo) as [HR' _].
    destruct (step_meta kcmp d o) as [Hmono Hback].
    cbn [drun] in E. destruct (step kcmp d o) as [d1 x]. cbn [fst] in *.
    destruct (drun kcmp sn d1 r) as [[d2 xs] dl2] eqn:Er. inversion E; subst.
    destruct (IH b _ d1 _ d' xs dl2 HR' Hr) as (Hdl & Hop1); [lia|exact Er|exact Hop|].
    assert (Hin : In sn (map s_sn (snaps d))).
    { apply Hback; [lia|]. apply snap_open_in. exact Hop1. }
    split.
    + rewrite Hdl, (step_delta_nil nw d sp sn o HR Hin). reflexivity.
    + apply (in_snap_open kcmp nw d sp sn HR Hin).
Qed.

(** * one shard *)
Lemma dloop_unfold sn d di endp segs acc dl :
  dshard_loop kcmp true sn d di endp segs acc dl =
  if stop_of kcmp di endp then (rev acc, d, segs, dl, true)
  else match segs with
       | [] => (rev acc, d, [], dl, false)
       | seg :: r =>
         let '(d', _, dl') := drun kcmp sn d seg in
         let item := match di_cur di with Some (bs, _, _) => bs | None => [] end in
         dshard_loop kcmp true sn d' (d_next kcmp (store d') di) endp r (item :: acc) (dl ++ dl')
       end.
Proof. destruct segs; reflexivity. Qed.

Lemma dshard_loop_open sn endp : forall segs nw d sp di acc dl items d' segs' dl' fin,
  R kcmp nw d sp -> wf_from nw (concat segs) -> sn < currSn d ->
  dshard_loop kcmp true sn d di endp segs acc dl = (items, d', segs', dl', fin) ->
  (exists nw' sp', R kcmp nw' d' sp' /\ wf_from nw' (concat segs')) /\ sn < currSn d' /\
  (snap_open d' sn = true -> snap_open d sn = true /\ dl' = dl).
Proof.
  induction segs as [|seg r IH]; intros nw d sp di acc dl items d' segs' dl' fin HR Hwf Hlt E;
    rewrite dloop_unfold in E; destruct (stop_of kcmp di endp) eqn:Est.
  - inversion E; subst. split; [exists nw, sp; split; assumption|]. split; [exact Hlt|auto].
  - inversion E; subst. split; [exists nw, sp; split; assumption|]. split; [exact Hlt|auto].
  - inversion E; subst. split; [exists nw, sp; split; assumption|]. split; [exact Hlt|auto].
  - destruct (drun kcmp sn d seg) as [[d1 o1] dl1] eqn:Ed. cbn [concat] in Hwf.
    destruct (drun_ok kcmp laws sn seg (concat r) nw d sp d1 o1 dl1 HR Hwf Hlt Ed)
      as ((nw1 & sp1 & HR1 & Hwf1) & Hlt1 & _).
    destruct (IH nw1 d1 sp1 _ _ _ items d' segs' dl' fin HR1 Hwf1 Hlt1 E) as (Hex & Hlt' & Hback).
    split; [exact Hex|]. split; [exact Hlt'|]. intros Hop.
    destruct (Hback Hop) as [Hop1 Hdl].
    destruct (drun_open sn seg (concat r) nw d sp d1 o1 dl1 HR Hwf Hlt Ed Hop1) as [Hdl1 Hop0].
    split; [exact Hop0|]. rewrite Hdl, Hdl1. apply app_nil_r.
Qed.

Lemma dshard_open sn rate startp endp nw d sp segs dl items d' segs' dl' fin :
  R kcmp nw d sp -> wf_from nw (concat segs) -> sn < currSn d ->
  dshard kcmp true sn rate d startp endp segs dl = (items, d', segs', dl', fin) ->
  (exists nw' sp', R kcmp nw' d' sp' /\ wf_from nw' (concat segs')) /\ sn < currSn d' /\
  (snap_open d' sn = true -> snap_open d sn = true /\ dl' = dl).
Proof.
  intros HR Hwf Hlt E. unfold dshard in E.
  apply (dshard_loop_open sn endp segs nw d sp _ [] dl items d' segs' dl' fin HR Hwf Hlt E).
Qed.

(** * all shards *)
Lemma dshards_open sn rate : forall ps startp nw d sp segs dl shards d' rest dl' fin,
  R kcmp nw d sp -> wf_from nw (concat segs) -> sn < currSn d ->
  dshards kcmp true sn rate d startp ps segs dl = (shards, d', rest, dl', fin) ->
  snap_open d' sn = true -> snap_open d sn = true /\ dl' = dl.
Proof.
  induction ps as [|p r IH]; intros startp nw d sp segs dl shards d' rest dl' fin HR Hwf Hlt E Hop;
    cbn [dshards] in E.
  - destruct (dshard kcmp true sn rate d startp None segs dl) as [[[[items d1] segs1] dl1] fin1] eqn:El.
    inversion E; subst.
    destruct (dshard_open sn rate startp None nw d sp segs dl items d' rest dl' fin HR Hwf Hlt El)
      as (_ & _ & Hback).
    apply Hback. exact Hop.
  - destruct (dshard kcmp true sn rate d startp (Some p) segs dl) as [[[[items d1] segs1] dl1] fin1] eqn:El.
    destruct (dshard_open sn rate startp (Some p) nw d sp segs dl items d1 segs1 dl1 fin1 HR Hwf Hlt El)
      as ((nw1 & sp1 & HR1 & Hwf1) & Hlt1 & Hback).
    destruct fin1.
    + destruct (dshards kcmp true sn rate d1 (Some p) r segs1 dl1) as [[[[rest0 d2] segs2] dl2] fin2] eqn:Er.
      inversion E; subst.
      destruct (IH (Some p) nw1 d1 sp1 segs1 dl1 rest0 d' rest dl' fin HR1 Hwf1 Hlt1 Er Hop) as [Hop1 Hdl].
      destruct (Hback Hop1) as [Hop0 Hdl1]. split; [exact Hop0|congruence].
    + inversion E; subst. apply Hback. exact Hop.
Qed.

(** * the whole scan: open at the end => open all the time, no delta *)
Lemma dbackup_open nw d sp sn rate pivots seg0 segs shards d' rest dl fin :
  R kcmp nw d sp -> wf_from nw (seg0 ++ concat segs) -> sn < currSn d ->
  dbackup kcmp true d sn rate pivots seg0 segs = (shards, d', rest, dl, fin) ->
  snap_open d' sn = true -> dl = [] /\ snap_open (fst (run kcmp d seg0)) sn = true.
Proof.
  intros HR Hwf Hlt E Hop. unfold dbackup in E.
  pose proof (drun_run sn seg0 d) as Hrun.
  destruct (drun kcmp sn d seg0) as [[d1 o1] dl0] eqn:Ed. cbn [fst] in Hrun. rewrite <- Hrun.
  destruct (drun_ok kcmp laws sn seg0 (concat segs) nw d sp d1 o1 dl0 HR Hwf Hlt Ed)
    as ((nw1 & sp1 & HR1 & Hwf1) & Hlt1 & _).
  destruct (dshards_open sn rate _ None nw1 d1 sp1 segs dl0 shards d' rest dl fin HR1 Hwf1 Hlt1 E Hop)
    as [Hop1 Hdl].
  destruct (drun_open sn seg0 (concat segs) nw d sp d1 o1 dl0 HR Hwf Hlt Ed Hop1) as [Hdl0 _].
  split; [congruence|exact Hop1].
Qed.

(** * the theorem *)
Theorem visitor_live_exact : stmt_visitor_live kcmp.
Proof.
  intros pre sn rate pivots seg0 segs Hwf d0 Hop Hrate.
  pose proof (delta_backup_exact kcmp laws pre sn rate pivots seg0 segs Hwf Hop Hrate) as H1. fold d0 in H1.
  destruct (run_R_split kcmp laws pre (seg0 ++ concat segs) 0%nat db_init spec_init (R_init kcmp) Hwf)
    as (nw0 & sp0 & HR0 & Hwf0). fold d0 in HR0.
  pose proof (open_lt kcmp nw0 d0 sp0 sn HR0 Hop) as Hlt0.
  pose proof (view_strict kcmp (currSn d0) (store d0) sn (R_inv kcmp nw0 d0 sp0 HR0)) as HVS.
  destruct (dbackup kcmp true d0 sn rate pivots seg0 segs) as [[[[shards d'] rest] dl] fin] eqn:E.
  intros Hfin Hop'. destruct (H1 Hfin) as [Hiff Hss].
  destruct (dbackup_open nw0 d0 sp0 sn rate pivots seg0 segs shards d' rest dl fin HR0 Hwf0 Hlt0 E Hop')
    as [Hdl _].
  split; [exact Hdl|]. subst dl.
  apply (ss_eq kcmp laws); [exact Hss|exact HVS|].
  intros x. split.
  - intros Hx. apply Hiff. left. exact Hx.
  - intros Hx. destruct (proj1 (Hiff x) Hx) as [Hs|[]]. exact Hs.
Qed.

End VisitLiveProofs.

Print Assumptions visitor_live_exact.

(** * the two executable comparators *)
Theorem visitor_live_exact_bytes : stmt_visitor_live bytes_cmp.
Proof. exact (visitor_live_exact bytes_cmp bytes_cmp_laws). Qed.
Theorem visitor_live_exact_kv : stmt_visitor_live compare_kv.
Proof. exact (visitor_live_exact compare_kv compare_kv_laws). Qed.
Print Assumptions visitor_live_exact_bytes.
Print Assumptions visitor_live_exact_kv.

(** non-vacuity of [stmt_visitor_live].  The history creates snapshots 1 .. 4; snapshots 3 and 4 are the
    two that are held, the OLDER one (3) is visited with two pivots (99 and 101) and refresh rate 2; it
    holds 96 97 98 99 100 101 102.  (The collector hands retired snapshots over strictly in sn order, so
    what the workers may unlink while snapshot 3 is open is what died before it: 95, born in epoch 1
    and deleted in epoch 2, is on the garbage list of snapshot 2.)  Before the scan and between the
    deliveries the other goroutines close snapshot 1, delete 98, delete and re-insert 97, create
    snapshot 5, close snapshot 2 and run GC and Drain — which physically unlinks 95 (vid 0), invisible
    to snapshot 3 —, delete 99, close snapshot 5, run GC and a worker step, re-insert 99, delete that
    new 99 in its own epoch (physical unlink, vid 10) and insert it again, close snapshot 4, create and
    close snapshot 6, run GC and Drain, open and close snapshot 3 once more (it stays open), delete
    102, insert 94 and a new 98.  All hypotheses hold; the scan finishes with two segments left over,
    snapshot 3 is still open, the delta is empty and the three shards 96 97 98 | 99 100 | 101 102
    concatenated are the snapshot. *)
Example visitor_live_nonvacuous :
  let pre := [NewWriter; Put 0 [95]; Put 0 [97]; Put 0 [98]; Put 0 [99]; Put 0 [100]; Put 0 [101]; NewSnapshot;
              Delete 0 [95]; Put 0 [96]; NewSnapshot; Put 0 [102]; NewSnapshot; Put 0 [103]; NewSnapshot] in
  let seg0 := [CloseSnap 1; Delete 0 [98]] in
  let segs := [[Delete 0 [97]; Put 0 [97]; NewSnapshot];
               [CloseSnap 2; GC; Drain];
               [Delete 0 [99]; CloseSnap 5; GC; WorkerStep];
               [Put 0 [99]; Delete 0 [99]; Put 0 [99]];
               [CloseSnap 4; NewSnapshot; CloseSnap 6; GC; Drain];
               [OpenSnap 3; CloseSnap 3; Delete 0 [102]];
               [Put 0 [94]; Put 0 [98]]; [Put 0 [104]]; []] in
  let d0 := fst (run bytes_cmp db_init pre) in
  wf_from 0 (pre ++ seg0 ++ concat segs) /\
  snap_open d0 3 = true /\ snap_open d0 4 = true /\ (0 <= 2)%Z /\
  view 3 (store d0) = [[96]; [97]; [98]; [99]; [100]; [101]; [102]] /\
  phys (store d0) = [([95], 1, 2); ([96], 2, 0); ([97], 1, 0); ([98], 1, 0); ([99], 1, 0); ([100], 1, 0);
                     ([101], 1, 0); ([102], 3, 0); ([103], 4, 0)] /\
  let '(shards, d', rest, dl, fin) := dbackup bytes_cmp true d0 3 2 [([99], 1); ([101], 1)] seg0 segs in
  fin = true /\ snap_open d' 3 = true /\
  shards = [[[96]; [97]; [98]]; [[99]; [100]]; [[101]; [102]]] /\
  rest = [[Put 0 [104]]; []] /\
  phys (store d') = [([94], 7, 0); ([96], 2, 0); ([97], 1, 5); ([97], 5, 0); ([98], 1, 5); ([98], 7, 0);
                     ([99], 1, 6); ([99], 6, 0); ([100], 1, 0); ([101], 1, 0); ([102], 3, 7); ([103], 4, 0)] /\
  removed d' = [0; 10] /\ lastGCSn d' = 2 /\ map s_sn (snaps d') = [3] /\
  dl = [] /\ concat shards = view 3 (store d0).
Proof.
  cbv zeta. split; [cbn; repeat split; lia|].
  split; [vm_compute; reflexivity|]. split; [vm_compute; reflexivity|]. split; [lia|].
  split; [vm_compute; reflexivity|]. split; [vm_compute; reflexivity|].
  match goal with |- context [dbackup ?a ?b ?c ?d ?e ?f ?g ?h] =>
    let t := eval vm_compute in (dbackup a b c d e f g h) in
    change (dbackup a b c d e f g h) with t
  end.
  cbv beta iota.
  repeat split; vm_compute; reflexivity.
Qed.
