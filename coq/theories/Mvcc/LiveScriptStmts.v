(** C09 on a moving store: ANY iterator script (SeekFirst, Seek x, Next, Refresh, SetRefreshRate) of a
    long-lived iterator of an open snapshot, with ANY operations of other goroutines between its
    operations, observes exactly what the same script observes on the fixed sorted list of items the
    snapshot held when the iterator was created. *)
From Coq Require Import List NArith ZArith Bool.
From NV Require Import Base.Bytes Mvcc.Store Mvcc.Ops Mvcc.Spec Mvcc.InvDefs Mvcc.Stmts Mvcc.RefineStmt Mvcc.Live.
Import ListNotations.
Open Scope N_scope.

Section LiveScript.
Variable kcmp : list N -> list N -> comparison.

(** the specification: an index into the frozen list (length = exhausted), None = not yet positioned *)
Fixpoint first_ge (bs : list N) (l : list (list N)) : nat :=
  match l with
  | [] => O
  | x :: r => match kcmp x bs with Lt => S (first_ge bs r) | _ => O end
  end.

Definition spec_step (frozen : list (list N)) (p : option nat) (o : lop) : option nat :=
  match o with
  | LSeekFirst => Some O
  | LSeek bs => Some (first_ge bs frozen)
  | LNext => match p with
             | Some k => if (k <? length frozen)%nat then Some (S k) else p
             | None => p
             end
  | LRefresh | LSetRate _ | LOps _ => p
  end.

Definition spec_obs (frozen : list (list N)) (p : option nat) : bool * option (list N) :=
  match p with
  | Some k => match nth_error frozen k with Some x => (true, Some x) | None => (false, None) end
  | None => (false, None)
  end.

Fixpoint spec_run (frozen : list (list N)) (p : option nat) (sc : list lop) : list (bool * option (list N)) :=
  match sc with
  | [] => []
  | LOps _ :: r => spec_run frozen p r
  | o :: r => let p' := spec_step frozen p o in spec_obs frozen p' :: spec_run frozen p' r
  end.

(** the snapshot is open after every LOps segment of the script *)
Fixpoint open_script (d : db) (sn : N) (sc : list lop) : bool :=
  match sc with
  | [] => true
  | LOps ops :: r => let d' := fst (run kcmp d ops) in snap_open d' sn && open_script d' sn r
  | _ :: r => open_script d sn r
  end.

Fixpoint script_ops (sc : list lop) : list op :=
  match sc with
  | [] => []
  | LOps ops :: r => ops ++ script_ops r
  | _ :: r => script_ops r
  end.

(** what the implementation-side model observes, projected to (Valid, item) *)
Definition proj_obs (o : bool * option (list N * N)) : bool * option (list N) :=
  (fst o, option_map fst (snd o)).

Definition stmt_live_script : Prop :=
  forall pre sn sc,
    wf_from 0 (pre ++ script_ops sc) ->
    let d0 := fst (run kcmp db_init pre) in
    snap_open d0 sn = true -> open_script d0 sn sc = true ->
    map proj_obs (fst (live_run kcmp d0 (mkLIter sn None 0 0 false) sc))
    = spec_run (view sn (store d0)) None sc.

End LiveScript.
