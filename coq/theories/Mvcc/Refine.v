(** The MVCC model refines the specification: simulation relation, one-step lemma, headline theorems. *)
From NV Require Import Base.Bytes Mvcc.Store Mvcc.Ops Mvcc.Spec Mvcc.InvDefs Mvcc.Stmts Mvcc.OpsProofs Mvcc.IterProofs Mvcc.RefineStmt.
From Coq Require Import ZifyN ZifyNat ZifyBool.
Open Scope N_scope.

Section Refine.
Variable kcmp : list N -> list N -> comparison.
Hypothesis laws : cmp_laws kcmp.

(** * generic list facts *)
Lemma existsb_find {A} (p : A -> bool) l :
  existsb p l = match find p l with Some _ => true | None => false end.
Proof. induction l as [|a l IH]; cbn; auto. destruct (p a); auto. Qed.

Lemma nodup_snoc {A} (l : list A) x : NoDup l -> ~ In x l -> NoDup (l ++ [x]).
Proof.
  induction l as [|a l IH]; cbn; intros Hnd Hni.
  - constructor; auto.
  - inversion Hnd as [|? ? Ha Hl]; subst. constructor.
    + rewrite in_app_iff. cbn. intros [H|[H|[]]]; [tauto|]. apply Hni. auto.
    + apply IH; auto.
Qed.

Lemma map_inj_in {A B} (f : A -> B) l a b :
  NoDup (map f l) -> In a l -> In b l -> f a = f b -> a = b.
Proof.
  induction l as [|x l IH]; cbn; intros Hnd Ha Hb Hab; [tauto|].
  inversion Hnd as [|? ? Hni Hnd']; subst.
  destruct Ha as [<-|Ha], Hb as [<-|Hb]; auto.
  - exfalso. apply Hni. rewrite Hab. apply in_map; auto.
  - exfalso. apply Hni. rewrite <- Hab. apply in_map; auto.
Qed.

Lemma nodup_map_filter {A B} (f : A -> B) p l : NoDup (map f l) -> NoDup (map f (filter p l)).
Proof.
  induction l as [|a l IH]; cbn; auto. intro H. inversion H as [|? ? Hni Hnd]; subst.
  destruct (p a); cbn; auto. constructor; auto. intro Hin. apply Hni.
  apply in_map_iff in Hin. destruct Hin as (u & Hu & Hus). apply filter_In in Hus.
  apply in_map_iff. exists u. tauto.
Qed.

(** * writers: pending counts and pending garbage *)
Fixpoint wsum (l : list writer) : Z := match l with [] => 0%Z | wr :: r => (w_count wr + wsum r)%Z end.

Lemma fold_wsum l z : fold_left (fun a wr => (a + w_count wr)%Z) l z = (z + wsum l)%Z.
Proof. revert z; induction l as [|a l IH]; intro z; cbn; [lia|]. rewrite IH. lia. Qed.

Lemma wsum_app a b : wsum (a ++ b) = (wsum a + wsum b)%Z.
Proof. induction a as [|x a IH]; cbn; [reflexivity|]. rewrite IH. lia. Qed.

Lemma wsum_rev l : wsum (rev l) = wsum l.
Proof. induction l as [|x l IH]; cbn; [reflexivity|]. rewrite wsum_app, IH. cbn. lia. Qed.

Lemma wsum_upd w f l k : (w < length l)%nat -> (forall wr, w_count (f wr) = (w_count wr + k)%Z) ->
  wsum (upd_nth w f l) = (wsum l + k)%Z.
Proof.
  intros Hw Hf. revert w Hw; induction l as [|x l IH]; intros w Hw; cbn in Hw; [lia|].
  destruct w as [|w]; cbn.
  - rewrite Hf. lia.
  - rewrite IH by lia. lia.
Qed.

Lemma wsum_zero (l : list writer) : wsum (map (fun _ => mkWriter [] 0) l) = 0%Z.
Proof. induction l as [|x l IH]; cbn; auto. Qed.

Lemma upd_nth_length {A} w (f : A -> A) l : length (upd_nth w f l) = length l.
Proof. revert w; induction l as [|x l IH]; intro w; destruct w; cbn; auto. Qed.

Definition wgs (ws : list writer) : list N := concat (map w_gc ws).

Lemma wgs_upd_same w f ws : (forall wr, w_gc (f wr) = w_gc wr) -> wgs (upd_nth w f ws) = wgs ws.
Proof.
  intro Hf. unfold wgs. f_equal. revert w; induction ws as [|x l IH]; intro w; destruct w; cbn; auto.
  - rewrite Hf; reflexivity.
  - rewrite IH; reflexivity.
Qed.

Lemma wgs_upd_add w i (g : writer -> Z) ws j :
  In j (wgs (upd_nth w (fun wr => mkWriter (w_gc wr ++ [i]) (g wr)) ws)) <->
  In j (wgs ws) \/ ((w < length ws)%nat /\ j = i).
Proof.
  unfold wgs. revert w; induction ws as [|x l IH]; intro w.
  - destruct w; cbn; (split; [tauto|]); intros [[]|[H _]]; lia.
  - destruct w as [|w]; cbn; rewrite !in_app_iff.
    + cbn. split.
      * intros [[H|[H|[]]]|H]; auto. right. split; [lia|auto].
      * intros [[H|H]|[_ H]]; auto.
    + rewrite IH. split.
      * intros [H|[H|[H1 H2]]]; auto. right. split; [lia|auto].
      * intros [[H|H]|[H1 H2]]; auto. right. right. split; [lia|auto].
Qed.

Lemma wgs_reset (ws : list writer) i : ~ In i (wgs (map (fun _ => mkWriter [] 0) ws)).
Proof. unfold wgs. induction ws as [|x l IH]; cbn; auto. Qed.

Lemma wgs_rev ws i : In i (concat (map w_gc (rev ws))) <-> In i (wgs ws).
Proof.
  unfold wgs. rewrite !in_concat. split; intros (l & Hl & Hi); exists l; split; auto.
  - apply in_map_iff in Hl. destruct Hl as (wr & <- & Hw). apply in_rev in Hw. apply in_map; auto.
  - apply in_map_iff in Hl. destruct Hl as (wr & <- & Hw). apply in_map. apply in_rev. rewrite rev_involutive; auto.
Qed.

Lemma wgs_snoc ws i : In i (wgs (ws ++ [mkWriter [] 0])) <-> In i (wgs ws).
Proof. unfold wgs. rewrite map_app, concat_app, in_app_iff. cbn. tauto. Qed.

(** * find_vid through the store updates *)
Lemma find_vid_remove i j s : find_vid i (remove_vid j s) = if i =? j then None else find_vid i s.
Proof.
  unfold find_vid, remove_vid. induction s as [|a s IH]; cbn [filter find].
  - destruct (i =? j); reflexivity.
  - destruct (N.eqb_spec (vid a) j) as [e|ne]; cbn [negb].
    + rewrite IH. destruct (N.eqb_spec i j) as [e2|ne2]; auto.
      destruct (N.eqb_spec (vid a) i); auto. lia.
    + cbn [find]. rewrite IH. destruct (N.eqb_spec (vid a) i) as [e2|ne2]; auto.
      destruct (N.eqb_spec i j); auto. lia.
Qed.

Lemma find_vid_set_dead i j c s :
  find_vid i (set_dead j c s) =
  option_map (fun v => if vid v =? j then mkVer (vitem v) (vborn v) c (vid v) else v) (find_vid i s).
Proof.
  unfold find_vid, set_dead. induction s as [|a s IH]; cbn [map find]; auto.
  assert (E : vid (if vid a =? j then mkVer (vitem a) (vborn a) c (vid a) else a) = vid a)
    by (destruct (vid a =? j); reflexivity).
  rewrite E. destruct (vid a =? i); auto.
Qed.

Lemma find_vid_insert x s i : vid x <> i -> find_vid i (insert_ver kcmp x s) = find_vid i s.
Proof.
  intro Hne. unfold insert_ver.
  destruct (span (before_ins kcmp (vitem x) (vborn x)) s) as [l1 l2] eqn:E.
  apply span_spec in E. destruct E as (-> & _ & _). unfold find_vid. rewrite !find_app'. cbn [find].
  apply N.eqb_neq in Hne. rewrite Hne. reflexivity.
Qed.

Lemma sp_remove_nohas h l : sp_has h l = false -> sp_remove h l = l.
Proof.
  unfold sp_has, sp_remove. induction l as [|e l IH]; cbn; auto. intro H.
  apply orb_false_iff in H. destruct H as [H1 H2]. rewrite H1. cbn. rewrite IH; auto.
Qed.

Lemma sp_remove_len h l : NoDup (map fst l) -> sp_has h l = true ->
  S (length (sp_remove h l)) = length l.
Proof.
  unfold sp_has. induction l as [|e l IH]; cbn; intros Hnd H; [discriminate|].
  inversion Hnd as [|? ? Hni Hnd']; subst.
  destruct (N.eqb_spec (fst e) h) as [e1|ne]; cbn.
  - f_equal. fold (sp_remove h l). rewrite sp_remove_nohas; auto.
    apply existsb_false. intros v Hv. apply N.eqb_neq. intro Hh. apply Hni. rewrite e1, <- Hh.
    apply in_map; auto.
  - f_equal. apply IH; auto.
Qed.

Lemma sp_insert_len e l : length (sp_insert kcmp e l) = S (length l).
Proof. induction l as [|x l IH]; cbn; auto. destruct (kcmp (snd x) (snd e)); cbn; auto. Qed.

Lemma live_fst_nodup s : NoDup (map vid s) -> NoDup (map fst (live_entries s)).
Proof.
  intro H. unfold live_entries. rewrite map_map. cbn [fst].
  change (NoDup (map vid (filter alive s))). apply nodup_vid_filter; auto.
Qed.

(** the view of the current epoch is the live set *)
Lemma view_cur sn s : store_inv kcmp sn s -> view sn s = map snd (live_entries s).
Proof.
  intro Hinv. unfold view, live_entries. rewrite map_map. cbn [snd]. f_equal.
  apply filter_ext_in. intros v Hv.
  pose proof (si_born _ _ _ Hinv v Hv) as Hb. pose proof (si_dead _ _ _ Hinv v Hv) as Hd.
  unfold visible, alive.
  destruct (N.ltb_spec sn (vborn v)); [lia|]. cbn [orb].
  destruct (N.eqb_spec (vdead v) 0) as [e|ne].
  - rewrite e. reflexivity.
  - destruct (N.ltb_spec 0 (vdead v)); [|lia]. destruct (N.leb_spec (vdead v) sn); [reflexivity|lia].
Qed.

Lemma invisible_dead sn v : 0 < vdead v -> vdead v <= sn -> visible sn v = false.
Proof.
  intros H1 H2. unfold visible.
  destruct (N.ltb_spec 0 (vdead v)); [|lia]. destruct (N.leb_spec (vdead v) sn); [|lia].
  cbn. rewrite orb_true_r. reflexivity.
Qed.

Lemma invisible_born sn v : sn < vborn v -> visible sn v = false.
Proof. intro H. unfold visible. apply N.ltb_lt in H. rewrite H. reflexivity. Qed.

(** * snapshot lists: the model keeps the referenced snapshots only *)
Inductive snaps_rel : list snap -> list ssnap -> Prop :=
| sr_nil : snaps_rel [] []
| sr_keep s x l l' : s_sn s = ss_sn x -> s_ref s = ss_ref x -> (0 < ss_ref x)%Z ->
    snaps_rel l l' -> snaps_rel (s :: l) (x :: l')
| sr_skip x l l' : ss_ref x = 0%Z -> snaps_rel l l' -> snaps_rel l (x :: l').

Lemma sr_snoc l l' s x : snaps_rel l l' -> s_sn s = ss_sn x -> s_ref s = ss_ref x -> (0 < ss_ref x)%Z ->
  snaps_rel (l ++ [s]) (l' ++ [x]).
Proof.
  intros H H1 H2 H3. induction H; cbn.
  - apply sr_keep; auto. constructor.
  - apply sr_keep; auto.
  - apply sr_skip; auto.
Qed.

Lemma sr_in l l' s : snaps_rel l l' -> In s l ->
  exists x, In x l' /\ ss_sn x = s_sn s /\ ss_ref x = s_ref s /\ (0 < ss_ref x)%Z.
Proof.
  intros H. induction H; cbn; intros Hin.
  - tauto.
  - destruct Hin as [<-|Hin].
    + exists x. repeat split; auto; lia.
    + destruct (IHsnaps_rel Hin) as (y & Hy & Hr). exists y. split; auto.
  - destruct (IHsnaps_rel Hin) as (y & Hy & Hr). exists y. split; auto.
Qed.

Lemma sr_in' l l' x : snaps_rel l l' -> In x l' ->
  (0 <= ss_ref x)%Z /\ ((0 < ss_ref x)%Z -> exists s, In s l /\ s_sn s = ss_sn x /\ s_ref s = ss_ref x).
Proof.
  intros H. induction H; cbn; intros Hin.
  - tauto.
  - destruct Hin as [<-|Hin].
    + split; [lia|]. intros _. exists s. auto.
    + destruct (IHsnaps_rel Hin) as (H3 & H4). split; auto. intro Hp.
      destruct (H4 Hp) as (s0 & Hs0 & Hr). exists s0. auto.
  - destruct Hin as [<-|Hin].
    + split; [lia|]. intros Hp. lia.
    + apply IHsnaps_rel; auto.
Qed.

Lemma sr_find l l' sn : snaps_rel l l' -> NoDup (map ss_sn l') ->
  match sp_find_snap sn l' with
  | Some x => if (ss_ref x =? 0)%Z then find_snap sn l = None
              else exists s, find_snap sn l = Some s /\ s_ref s = ss_ref x
  | None => find_snap sn l = None
  end.
Proof.
  intros H. unfold sp_find_snap, find_snap. induction H; cbn [find map]; intros Hnd.
  - reflexivity.
  - inversion Hnd as [|? ? Hni Hnd']; subst. rewrite H.
    destruct (ss_sn x =? sn).
    + destruct (Z.eqb_spec (ss_ref x) 0); [lia|]. exists s. auto.
    + apply IHsnaps_rel; auto.
  - inversion Hnd as [|? ? Hni Hnd']; subst.
    destruct (N.eqb_spec (ss_sn x) sn) as [e|ne].
    + rewrite H. cbn. apply OpsProofs.find_none_all. intros s Hs. apply N.eqb_neq. intro Hsn.
      destruct (sr_in _ _ _ H0 Hs) as (y & Hy & Hysn & _). apply Hni. apply in_map_iff.
      exists y. split; auto. lia.
    + apply IHsnaps_rel; auto.
Qed.

Definition open_m (sn : N) (x : snap) : snap :=
  if s_sn x =? sn then mkSnap (s_sn x) (s_ref x + 1) (s_count x) (s_gc x) else x.
Definition open_s (sn : N) (y : ssnap) : ssnap :=
  if ss_sn y =? sn then mkSSnap (ss_sn y) (ss_ref y + 1) (ss_items y) else y.
Definition close_m (sn : N) (x : snap) : snap :=
  if s_sn x =? sn then mkSnap (s_sn x) (s_ref x - 1) (s_count x) (s_gc x) else x.
Definition close_s (sn : N) (y : ssnap) : ssnap :=
  if (ss_sn y =? sn) && (0 <? ss_ref y)%Z then mkSSnap (ss_sn y) (ss_ref y - 1) (ss_items y) else y.

Lemma sr_map_open l l' sn : snaps_rel l l' ->
  (forall y, In y l' -> ss_sn y = sn -> ss_ref y <> 0%Z) ->
  snaps_rel (map (open_m sn) l) (map (open_s sn) l').
Proof.
  intros H. induction H; cbn [map]; intros Hy.
  - constructor.
  - unfold open_m at 1, open_s at 1. rewrite H. destruct (ss_sn x =? sn).
    + apply sr_keep; cbn; auto; try lia. apply IHsnaps_rel. intros; apply Hy; cbn; auto.
    + apply sr_keep; auto. apply IHsnaps_rel. intros; apply Hy; cbn; auto.
  - unfold open_s at 1. destruct (N.eqb_spec (ss_sn x) sn) as [e|ne].
    + exfalso. apply (Hy x); cbn; auto.
    + apply sr_skip; auto. apply IHsnaps_rel. intros; apply Hy; cbn; auto.
Qed.

Lemma sr_map_close l l' sn : snaps_rel l l' ->
  (forall s, In s l -> s_sn s = sn -> (s_ref s - 1 <> 0)%Z) ->
  snaps_rel (map (close_m sn) l) (map (close_s sn) l').
Proof.
  intros H. induction H; cbn [map]; intros Hy.
  - constructor.
  - unfold close_m at 1, close_s at 1. rewrite H.
    destruct (N.eqb_spec (ss_sn x) sn) as [e|ne]; cbn [andb].
    + destruct (Z.ltb_spec 0 (ss_ref x)); [|lia].
      assert (s_ref s - 1 <> 0)%Z by (apply Hy; cbn; auto; lia).
      apply sr_keep; cbn; auto; try lia. apply IHsnaps_rel. intros; apply Hy; cbn; auto.
    + apply sr_keep; auto. apply IHsnaps_rel. intros; apply Hy; cbn; auto.
  - unfold close_s at 1. destruct (Z.ltb_spec 0 (ss_ref x)); [lia|]. rewrite andb_false_r.
    apply sr_skip; auto.
Qed.

Lemma sr_filter_close l l' sn : snaps_rel l l' ->
  (forall s, In s l -> s_sn s = sn -> s_ref s = 1%Z) ->
  snaps_rel (filter (fun x => negb (s_sn x =? sn)) l) (map (close_s sn) l').
Proof.
  intros H. induction H; cbn [map filter]; intros Hy.
  - constructor.
  - unfold close_s at 1. rewrite H.
    destruct (N.eqb_spec (ss_sn x) sn) as [e|ne]; cbn [andb negb].
    + destruct (Z.ltb_spec 0 (ss_ref x)); [|lia].
      assert (s_ref s = 1)%Z by (apply Hy; cbn; auto; lia).
      apply sr_skip; cbn; [lia|]. apply IHsnaps_rel. intros; apply Hy; cbn; auto.
    + apply sr_keep; auto. apply IHsnaps_rel. intros; apply Hy; cbn; auto.
  - unfold close_s at 1. destruct (Z.ltb_spec 0 (ss_ref x)); [lia|]. rewrite andb_false_r.
    apply sr_skip; auto.
Qed.

Lemma sr_none_close l l' sn : snaps_rel l l' -> (forall s, In s l -> s_sn s <> sn) ->
  snaps_rel l (map (close_s sn) l').
Proof.
  intros H. induction H; cbn [map]; intros Hy.
  - constructor.
  - unfold close_s at 1. destruct (N.eqb_spec (ss_sn x) sn) as [e|ne]; cbn [andb].
    + exfalso. apply (Hy s); cbn; auto. lia.
    + apply sr_keep; auto. apply IHsnaps_rel. intros; apply Hy; cbn; auto.
  - unfold close_s at 1. destruct (Z.ltb_spec 0 (ss_ref x)); [lia|]. rewrite andb_false_r.
    apply sr_skip; auto.
Qed.

Lemma map_sn_open sn l : map ss_sn (map (open_s sn) l) = map ss_sn l.
Proof. rewrite map_map. apply map_ext. intro y. unfold open_s. destruct (ss_sn y =? sn); reflexivity. Qed.
Lemma map_sn_close sn l : map ss_sn (map (close_s sn) l) = map ss_sn l.
Proof. rewrite map_map. apply map_ext. intro y. unfold close_s. destruct (_ && _); reflexivity. Qed.

(** * garbage bookkeeping *)
Definition key (s : snap) : N * list N := (s_sn s, s_gc s).

Lemma map_key_open sn l : map key (map (open_m sn) l) = map key l.
Proof. rewrite map_map. apply map_ext. intro y. unfold open_m. destruct (s_sn y =? sn); reflexivity. Qed.
Lemma map_key_close sn l : map key (map (close_m sn) l) = map key l.
Proof. rewrite map_map. apply map_ext. intro y. unfold close_m. destruct (s_sn y =? sn); reflexivity. Qed.
Lemma map_fst_key l : map fst (map key l) = map s_sn l.
Proof. rewrite map_map. reflexivity. Qed.

Fixpoint asc (l : list N) : Prop :=
  match l with [] => True | a :: r => (forall b, In b r -> a < b) /\ asc r end.

Definition gp (st : list ver) (nv i lo hi : N) : Prop :=
  i < nv /\ forall v, find_vid i st = Some v -> lo <= vdead v <= hi.

Definition ingar (wg : list N) (sg : list (N * list N)) (cg : list N) (i : N) : Prop :=
  In i wg \/ (exists p, In p sg /\ In i (snd p)) \/ In i cg.

Record Ginv (st : list ver) (cur nv : N) (wg : list N) (sg gg : list (N * list N)) (last : N)
       (cg : list N) : Prop := {
  gi_last : last < cur;
  gi_rng : forall p, In p (sg ++ gg) -> last < fst p < cur;
  gi_nd : NoDup (map fst sg);
  gi_asc : asc (map fst gg);
  gi_dis : forall a b, In a sg -> In b gg -> fst a <> fst b;
  gi_cover : forall n, last < n < cur -> In n (map fst (sg ++ gg));
  gi_w : forall i, In i wg -> gp st nv i cur cur;
  gi_s : forall p i, In p (sg ++ gg) -> In i (snd p) -> gp st nv i (fst p) (fst p);
  gi_c : forall i, In i cg -> gp st nv i 1 last;
  gi_conv : forall v, In v st -> vdead v <> 0 -> ingar wg (sg ++ gg) cg (vid v) }.

(** what a store update must satisfy for the garbage facts to carry over *)
Definition GT (st : list ver) (nv : N) (st' : list ver) : Prop :=
  forall i v', i < nv -> find_vid i st' = Some v' ->
    exists v, find_vid i st = Some v /\ (vdead v' = vdead v \/ vdead v = 0).

Lemma GT_refl st nv : GT st nv st.
Proof. intros i v' _ H. exists v'. auto. Qed.

Lemma gp_trans st nv st' nv' i lo hi :
  GT st nv st' -> nv <= nv' -> 1 <= lo -> gp st nv i lo hi -> gp st' nv' i lo hi.
Proof.
  intros HT Hnv Hlo [Hi Hv]. split; [lia|]. intros v' Hf.
  destruct (HT i v' Hi Hf) as (v & Hfv & Hd). specialize (Hv v Hfv). lia.
Qed.

Lemma Ginv_store st st' cur nv nv' wg wg' sg gg last cg cg' :
  Ginv st cur nv wg sg gg last cg -> 1 <= cur -> nv <= nv' -> GT st nv st' ->
  (forall i, In i wg' -> In i wg \/ gp st' nv' i cur cur) ->
  (forall i, In i cg' -> In i cg) ->
  (forall v, In v st' -> vdead v <> 0 -> ingar wg' (sg ++ gg) cg' (vid v)) ->
  Ginv st' cur nv' wg' sg gg last cg'.
Proof.
  intros G Hcur Hnv HT Hwg Hcg Hconv. constructor.
  - apply (gi_last _ _ _ _ _ _ _ _ G).
  - apply (gi_rng _ _ _ _ _ _ _ _ G).
  - apply (gi_nd _ _ _ _ _ _ _ _ G).
  - apply (gi_asc _ _ _ _ _ _ _ _ G).
  - apply (gi_dis _ _ _ _ _ _ _ _ G).
  - apply (gi_cover _ _ _ _ _ _ _ _ G).
  - intros i Hi. destruct (Hwg i Hi) as [H|H]; auto.
    apply (gp_trans st nv); auto. apply (gi_w _ _ _ _ _ _ _ _ G); auto.
  - intros p i Hp Hi. apply (gp_trans st nv); auto.
    + pose proof (gi_rng _ _ _ _ _ _ _ _ G p Hp). lia.
    + apply (gi_s _ _ _ _ _ _ _ _ G); auto.
  - intros i Hi. apply (gp_trans st nv); auto; [lia|]. apply (gi_c _ _ _ _ _ _ _ _ G); auto.
  - exact Hconv.
Qed.

(** * the simulation relation *)
Definition view_ok (st : list ver) (ns : list N) (ssn : list ssnap) : Prop :=
  forall x, In x ssn -> In (ss_sn x) ns -> view (ss_sn x) st = ss_items x.

Record Pinv (st : list ver) (sn : list snap) (ssn : list ssnap) (cur : N) : Prop := {
  pi_rel : snaps_rel sn ssn;
  pi_nd : NoDup (map ss_sn ssn);
  pi_lt : forall x, In x ssn -> ss_sn x < cur;
  pi_view : view_ok st (map s_sn sn) ssn }.

Lemma Pinv_store st st' sn ssn cur : Pinv st sn ssn cur ->
  (forall n, In n (map s_sn sn) -> view n st' = view n st) -> Pinv st' sn ssn cur.
Proof.
  intros P Hv. constructor; try apply P. intros x Hx Hn. rewrite (Hv _ Hn).
  apply (pi_view _ _ _ _ P); auto.
Qed.

Record Sinv (st : list ver) (cur nv : N) (live : list (N * list N)) : Prop := {
  sv_inv : store_inv kcmp cur st;
  sv_cur : 1 <= cur;
  sv_vid : forall v, In v st -> vid v < nv;
  sv_live : live_entries st = live }.

Record R (nw : nat) (d : db) (sp : spec) : Prop := {
  r_s : Sinv (store d) (currSn d) (next_vid d) (sp_live sp);
  r_sn : currSn d = sp_sn sp;
  r_nv : next_vid d = sp_next sp;
  r_nw : length (writers d) = nw;
  r_ic : itemsCount d = sp_count sp;
  r_cnt : (itemsCount d + wsum (writers d))%Z = Z.of_nat (length (sp_live sp));
  r_p : Pinv (store d) (snaps d) (sp_snaps sp) (currSn d);
  r_g : Ginv (store d) (currSn d) (next_vid d) (wgs (writers d)) (map key (snaps d))
             (map key (gcsnaps d)) (lastGCSn d) (concat (gcchan d)) }.

Lemma R_init : R 0 db_init spec_init.
Proof.
  constructor; cbn; try reflexivity.
  - constructor; cbn; try tauto; try lia; try reflexivity.
    constructor; cbn; try tauto. constructor.
  - constructor; cbn; try tauto; try (constructor; fail). intros x [].
  - constructor; cbn; try tauto; try lia; try (constructor; fail).
Qed.


Ltac psimpl := cbn [store currSn writers itemsCount snaps gcsnaps lastGCSn gcchan next_vid removed
                    sp_live sp_next sp_sn sp_count sp_snaps].

Lemma snap_rng st cur nv wg sn gg last cg n :
  Ginv st cur nv wg (map key sn) gg last cg -> In n (map s_sn sn) -> last < n < cur.
Proof.
  intros G Hn. apply in_map_iff in Hn. destruct Hn as (s & <- & Hs).
  apply (gi_rng _ _ _ _ _ _ _ _ G (key s)). apply in_app_iff. left. apply in_map; auto.
Qed.

Lemma has_live_find bs st :
  has_live kcmp bs st = match sp_find kcmp bs (live_entries st) with Some _ => true | None => false end.
Proof.
  rewrite <- find_live_entries. unfold has_live, find_live. rewrite existsb_find.
  destruct (find _ st); reflexivity.
Qed.

(** ** Put *)
Lemma put_ok nw d sp w bs : R nw d sp -> (w < nw)%nat ->
  match sp_find kcmp bs (sp_live sp) with
  | Some _ => do_put kcmp d w bs = (d, None)
  | None => exists d', do_put kcmp d w bs = (d', Some (sp_next sp)) /\
      R nw d' (mkSpec (sp_insert kcmp (sp_next sp, bs) (sp_live sp)) (sp_next sp + 1) (sp_sn sp)
                      (sp_count sp) (sp_snaps sp))
  end.
Proof.
  intros HR Hw. destruct HR as [HS Hsn Hnv Hnw Hic Hcnt HP HG].
  destruct HS as [Hinv Hcur Hvid Hlive].
  unfold do_put.
  pose proof (put_rejects_iff_live kcmp laws (currSn d) (store d) bs Hinv) as Hrej.
  destruct (find_ins kcmp bs (currSn d) (store d)) as [[pred succ] found].
  rewrite Hrej, has_live_find, Hlive.
  destruct (sp_find kcmp bs (sp_live sp)) eqn:Ef; [reflexivity|].
  rewrite <- Hnv. eexists; split; [reflexivity|].
  assert (Hhl : has_live kcmp bs (store d) = false) by (rewrite has_live_find, Hlive, Ef; reflexivity).
  assert (Hfresh : forall v, In v (store d) -> vid v <> next_vid d)
    by (intros v Hv; specialize (Hvid v Hv); lia).
  constructor; psimpl; auto.
  - constructor; auto.
    + apply insert_inv; auto.
    + intros v Hv. apply insert_members in Hv. destruct Hv as [->|Hv]; cbn; [lia|].
      specialize (Hvid v Hv). lia.
    + rewrite (insert_live kcmp laws (currSn d)); auto. rewrite Hlive. reflexivity.
  - rewrite upd_nth_length; auto.
  - rewrite (wsum_upd w _ _ 1%Z); [|lia|reflexivity]. rewrite sp_insert_len. lia.
  - apply (Pinv_store (store d)); auto. intros n Hn. apply insert_view. cbn.
    pose proof (snap_rng _ _ _ _ _ _ _ _ n HG Hn). lia.
  - rewrite wgs_upd_same by reflexivity.
    apply (Ginv_store (store d) _ _ (next_vid d) _ (wgs (writers d)) _ _ _ _ (concat (gcchan d))); auto.
    + lia.
    + intros i v' Hi Hf. rewrite find_vid_insert in Hf by (cbn; lia). exists v'. auto.
    + intros v Hv Hd. apply insert_members in Hv. destruct Hv as [->|Hv]; [cbn in Hd; lia|].
      apply (gi_conv _ _ _ _ _ _ _ _ HG); auto.
Qed.

(** ** GetNode *)
Lemma getnode_ok nw d sp bs : R nw d sp ->
  do_getnode kcmp d bs = option_map fst (sp_find kcmp bs (sp_live sp)).
Proof.
  intros HR. destruct HR as [HS _ _ _ _ _ _ _]. destruct HS as [Hinv _ _ Hlive].
  unfold do_getnode. rewrite (getnode_spec kcmp laws (currSn d) (store d) bs Hinv).
  rewrite <- Hlive, <- find_live_entries. destruct (find_live kcmp bs (store d)); reflexivity.
Qed.

(** ** DeleteNode *)
Definition sp_del (sp : spec) (i : N) : spec :=
  mkSpec (sp_remove i (sp_live sp)) (sp_next sp) (sp_sn sp) (sp_count sp) (sp_snaps sp).

Lemma deletenode_ok nw d sp w i : R nw d sp -> (w < nw)%nat ->
  if sp_has i (sp_live sp)
  then exists d', do_deletenode d w i = (d', true) /\ R nw d' (sp_del sp i)
  else do_deletenode d w i = (d, false).
Proof.
  intros HR Hw. destruct HR as [HS Hsn Hnv Hnw Hic Hcnt HP HG].
  destruct HS as [Hinv Hcur Hvid Hlive].
  pose proof (si_vids _ _ _ Hinv) as Hnd.
  destruct (sp_has i (sp_live sp)) eqn:Hhas; rewrite <- Hlive, sp_has_live in Hhas by auto;
    unfold do_deletenode; destruct (find_vid i (store d)) as [v|] eqn:Ef; try discriminate; try reflexivity.
  - (* success *)
    destruct (find_vid_in _ _ _ Ef) as [Hv Hvi]. unfold alive in Hhas. apply N.eqb_eq in Hhas.
    assert (Hhas' : sp_has i (sp_live sp) = true).
    { rewrite <- Hlive, sp_has_live, Ef by auto. unfold alive. rewrite Hhas. reflexivity. }
    assert (Hlen : S (length (sp_remove i (sp_live sp))) = length (sp_live sp)).
    { apply sp_remove_len; auto. rewrite <- Hlive. apply live_fst_nodup; auto. }
    pose proof (si_born _ _ _ Hinv v Hv) as Hborn.
    destruct (N.eqb_spec (vborn v) (currSn d)) as [Hb|Hb].
    + (* physical removal *)
      eexists; split; [reflexivity|]. unfold sp_del. constructor; psimpl; auto.
      * constructor; auto.
        -- apply remove_inv; auto.
        -- intros v0 Hv0. apply filter_In in Hv0. apply Hvid; tauto.
        -- rewrite remove_live, Hlive. reflexivity.
      * rewrite upd_nth_length; auto.
      * rewrite (wsum_upd w _ _ (-1)%Z); [|lia|reflexivity]. lia.
      * apply (Pinv_store (store d)); auto. intros n Hn. apply remove_view.
        intros v0 Hv0 Hi0. assert (v0 = v) by (apply (vid_inj (store d)); auto; lia). subst v0.
        apply invisible_born. pose proof (snap_rng _ _ _ _ _ _ _ _ n HG Hn). lia.
      * rewrite wgs_upd_same by reflexivity.
        apply (Ginv_store (store d) _ _ (next_vid d) _ (wgs (writers d)) _ _ _ _ (concat (gcchan d))); auto.
        -- lia.
        -- intros i0 v' Hi Hf. rewrite find_vid_remove in Hf. destruct (i0 =? i); [discriminate|].
           exists v'. auto.
        -- intros v0 Hv0 Hd. apply filter_In in Hv0. apply (gi_conv _ _ _ _ _ _ _ _ HG); tauto.
    + (* logical deletion *)
      rewrite Hhas. cbn [N.eqb]. eexists; split; [reflexivity|]. unfold sp_del.
      assert (Hlt : vborn v < currSn d) by lia.
      constructor; psimpl; auto.
      * constructor; auto.
        -- apply (set_dead_inv kcmp _ _ _ v); auto.
        -- intros v0 Hv0. unfold set_dead in Hv0. apply in_map_iff in Hv0.
           destruct Hv0 as (u & <- & Hu). specialize (Hvid u Hu). destruct (vid u =? i); cbn; auto.
        -- rewrite (set_dead_live kcmp _ _ _ v), Hlive; auto.
      * rewrite upd_nth_length; auto.
      * rewrite (wsum_upd w _ _ (-1)%Z); [|lia|reflexivity]. lia.
      * apply (Pinv_store (store d)); auto. intros n Hn. apply (set_dead_view kcmp _ _ _ v); auto.
        pose proof (snap_rng _ _ _ _ _ _ _ _ n HG Hn). lia.
      * apply (Ginv_store (store d) _ _ (next_vid d) _ (wgs (writers d)) _ _ _ _ (concat (gcchan d))); auto.
        -- lia.
        -- intros i0 v' Hi Hf. rewrite find_vid_set_dead in Hf.
           destruct (find_vid i0 (store d)) as [v0|] eqn:Ef0; [|discriminate]. cbn in Hf.
           exists v0. split; auto. destruct (N.eqb_spec (vid v0) i) as [e|ne].
           ++ right. destruct (find_vid_in _ _ _ Ef0) as [Hv0 Hvi0].
              assert (v0 = v) by (apply (vid_inj (store d)); auto; lia). subst v0. auto.
           ++ left. inversion Hf; subst; auto.
        -- intros j Hj. apply wgs_upd_add in Hj. destruct Hj as [Hj|[_ ->]]; auto.
           right. split.
           ++ rewrite <- Hvi. apply Hvid; auto.
           ++ intros v' Hf. rewrite find_vid_set_dead, Ef in Hf. cbn in Hf.
              rewrite Hvi, N.eqb_refl in Hf. inversion Hf; subst. cbn. lia.
        -- intros v' Hv' Hd. unfold set_dead in Hv'. apply in_map_iff in Hv'.
           destruct Hv' as (u & <- & Hu). destruct (N.eqb_spec (vid u) i) as [e|ne].
           ++ left. cbn. apply wgs_upd_add. right. split; [lia|auto].
           ++ destruct (gi_conv _ _ _ _ _ _ _ _ HG u Hu Hd) as [H|[H|H]].
              ** left. apply wgs_upd_add. auto.
              ** right; left; auto.
              ** right; right; auto.
  - (* refused *)
    destruct (find_vid_in _ _ _ Ef) as [Hv Hvi]. unfold alive in Hhas. apply N.eqb_neq in Hhas.
    pose proof (si_dead _ _ _ Hinv v Hv) as Hdead.
    destruct (N.eqb_spec (vborn v) (currSn d)) as [Hb|Hb]; [lia|].
    destruct (N.eqb_spec (vdead v) 0); [lia|]. reflexivity.
Qed.

(** ** Delete *)
Lemma delete_ok nw d sp w bs : R nw d sp -> (w < nw)%nat ->
  match sp_find kcmp bs (sp_live sp) with
  | Some e => exists d', do_delete kcmp d w bs = (d', (Some (fst e), true)) /\ R nw d' (sp_del sp (fst e))
  | None => do_delete kcmp d w bs = (d, (None, false))
  end.
Proof.
  intros HR Hw. unfold do_delete. rewrite (getnode_ok nw d sp bs HR).
  destruct (sp_find kcmp bs (sp_live sp)) as [e|] eqn:Ef; cbn [option_map]; [|reflexivity].
  pose proof (deletenode_ok nw d sp w (fst e) HR Hw) as Hdn.
  assert (Hhas : sp_has (fst e) (sp_live sp) = true).
  { unfold sp_find in Ef. apply find_some in Ef. unfold sp_has. apply existsb_exists.
    exists e. split; [tauto|]. apply N.eqb_refl. }
  rewrite Hhas in Hdn. destruct Hdn as (d' & Hd & HR'). rewrite Hd. eauto.
Qed.

(** ** NewWriter *)
Lemma newwriter_ok nw d sp : R nw d sp -> R (S nw) (set_writers d (writers d ++ [mkWriter [] 0])) sp.
Proof.
  intros HR. destruct HR as [HS Hsn Hnv Hnw Hic Hcnt HP HG]. unfold set_writers.
  constructor; psimpl; auto.
  - rewrite app_length. cbn. lia.
  - rewrite wsum_app. cbn. lia.
  - apply (Ginv_store (store d) _ _ (next_vid d) _ (wgs (writers d)) _ _ _ _ (concat (gcchan d))); auto.
    + apply HS.
    + lia.
    + apply GT_refl.
    + intros i Hi. apply (proj1 (wgs_snoc _ _)) in Hi. auto.
    + intros v Hv Hd. destruct (gi_conv _ _ _ _ _ _ _ _ HG v Hv Hd) as [H|[H|H]].
      * left. apply (proj2 (wgs_snoc _ _)); auto.
      * right; left; auto.
      * right; right; auto.
Qed.


(** ** NewSnapshot *)
Lemma newsnapshot_ok nw d sp : R nw d sp ->
  exists d', do_newsnapshot d = (d', (sp_sn sp, Z.of_nat (length (sp_live sp)))) /\
    R nw d' (mkSpec (sp_live sp) (sp_next sp) (sp_sn sp + 1) (Z.of_nat (length (sp_live sp)))
                    (sp_snaps sp ++ [mkSSnap (sp_sn sp) 1 (map snd (sp_live sp))])).
Proof.
  intros HR. destruct HR as [HS Hsn Hnv Hnw Hic Hcnt HP HG].
  destruct HS as [Hinv Hcur Hvid Hlive].
  unfold do_newsnapshot. rewrite fold_wsum, wsum_rev.
  assert (Hc : (itemsCount d + (0 + wsum (writers d)))%Z = Z.of_nat (length (sp_live sp))) by lia.
  rewrite Hc, <- Hsn. eexists; split; [reflexivity|].
  destruct HP as [Prel Pnd Plt Pview].
  constructor; psimpl; auto.
  - constructor; auto.
    + apply inv_mono; auto.
    + lia.
  - rewrite map_length; auto.
  - rewrite wsum_zero. lia.
  - constructor.
    + apply sr_snoc; cbn; auto. lia.
    + rewrite map_app. apply nodup_snoc; auto. cbn. intro Hin. apply in_map_iff in Hin.
      destruct Hin as (y & Hy1 & Hy2). specialize (Plt y Hy2). lia.
    + intros x Hx. apply in_app_iff in Hx. destruct Hx as [Hx|[<-|[]]].
      * specialize (Plt x Hx). lia.
      * cbn. lia.
    + intros x Hx Hn. rewrite map_app, in_app_iff in Hn. apply in_app_iff in Hx.
      destruct Hx as [Hx|[<-|[]]].
      * destruct Hn as [Hn|[Hn|[]]]; [apply Pview; auto|]. cbn in Hn. specialize (Plt x Hx). lia.
      * cbn. rewrite (view_cur _ _ Hinv), Hlive. reflexivity.
  - destruct HG as [Glast Grng Gnd Gasc Gdis Gcover Gw Gs Gc Gconv].
    rewrite map_app. cbn [map]. unfold key at 2. cbn [s_sn s_gc].
    set (gcl := concat (map w_gc (rev (writers d)))).
    constructor.
    + lia.
    + intros p Hp. rewrite <- app_assoc in Hp. apply in_app_iff in Hp. destruct Hp as [Hp|Hp].
      * assert (last_lt : lastGCSn d < fst p < currSn d) by (apply Grng; apply in_app_iff; auto). lia.
      * cbn in Hp. destruct Hp as [<-|Hp]; [cbn; lia|].
        assert (last_lt : lastGCSn d < fst p < currSn d) by (apply Grng; apply in_app_iff; auto). lia.
    + rewrite map_app. apply nodup_snoc; auto. cbn. intro Hin. apply in_map_iff in Hin.
      destruct Hin as (p & Hp1 & Hp2).
      assert (last_lt : lastGCSn d < fst p < currSn d) by (apply Grng; apply in_app_iff; auto). lia.
    + exact Gasc.
    + intros a b Ha Hb. apply in_app_iff in Ha. destruct Ha as [Ha|[<-|[]]]; [apply Gdis; auto|].
      cbn. assert (last_lt : lastGCSn d < fst b < currSn d) by (apply Grng; apply in_app_iff; auto). lia.
    + intros n Hn. rewrite <- app_assoc, map_app, in_app_iff.
      destruct (N.eq_dec n (currSn d)) as [->|ne].
      * right. cbn. auto.
      * assert (Hin : In n (map fst (map key (snaps d) ++ map key (gcsnaps d)))) by (apply Gcover; lia).
        rewrite map_app, in_app_iff in Hin. destruct Hin as [H|H]; auto. right. cbn. auto.
    + intros i Hi. exfalso. exact (wgs_reset _ _ Hi).
    + intros p i Hp Hi. rewrite <- app_assoc in Hp. apply in_app_iff in Hp.
      assert (Hold : In p (map key (snaps d) ++ map key (gcsnaps d)) -> gp (store d) (next_vid d) i (fst p) (fst p))
        by (intro H; apply Gs; auto).
      destruct Hp as [Hp|[<-|Hp]].
      * apply Hold. apply in_app_iff; auto.
      * cbn in Hi |- *. apply Gw. apply wgs_rev. exact Hi.
      * apply Hold. apply in_app_iff; auto.
    + exact Gc.
    + intros v Hv Hd. destruct (Gconv v Hv Hd) as [H|[(p & Hp & Hi)|H]].
      * right; left. exists (currSn d, gcl). split; [|cbn; apply wgs_rev; auto].
        rewrite <- app_assoc. apply in_app_iff. right. cbn. auto.
      * right; left. exists p. split; auto. rewrite <- app_assoc. apply in_app_iff.
        apply in_app_iff in Hp. destruct Hp; auto. right. cbn. auto.
      * right; right; auto.
Qed.

(** ** OpenSnap *)
Lemma view_ok_map st ns ssn g : view_ok st ns ssn ->
  (forall y, ss_sn (g y) = ss_sn y /\ ss_items (g y) = ss_items y) -> view_ok st ns (map g ssn).
Proof.
  intros H Hg x Hx Hn. apply in_map_iff in Hx. destruct Hx as (y & <- & Hy).
  destruct (Hg y) as [E1 E2]. rewrite E1, E2 in *. apply H; auto.
Qed.

Lemma map_sn_open_m sn l : map s_sn (map (open_m sn) l) = map s_sn l.
Proof. rewrite <- !map_fst_key, map_key_open. reflexivity. Qed.
Lemma map_sn_close_m sn l : map s_sn (map (close_m sn) l) = map s_sn l.
Proof. rewrite <- !map_fst_key, map_key_close. reflexivity. Qed.

Lemma do_open_eq d sn : do_open d sn =
  match find_snap sn (snaps d) with
  | Some s => if (s_ref s =? 0)%Z then (d, false)
              else (mkDb (store d) (currSn d) (writers d) (itemsCount d) (map (open_m sn) (snaps d))
                         (gcsnaps d) (lastGCSn d) (gcchan d) (next_vid d) (removed d), true)
  | None => (d, false)
  end.
Proof. reflexivity. Qed.

Lemma open_ok nw d sp sn : R nw d sp ->
  match sp_find_snap sn (sp_snaps sp) with
  | Some x => if (ss_ref x =? 0)%Z then do_open d sn = (d, false)
              else exists d', do_open d sn = (d', true) /\
                R nw d' (mkSpec (sp_live sp) (sp_next sp) (sp_sn sp) (sp_count sp) (map (open_s sn) (sp_snaps sp)))
  | None => do_open d sn = (d, false)
  end.
Proof.
  intros HR. destruct HR as [HS Hsn Hnv Hnw Hic Hcnt HP HG].
  destruct HP as [Prel Pnd Plt Pview].
  pose proof (sr_find _ _ sn Prel Pnd) as Hfind. rewrite do_open_eq.
  destruct (sp_find_snap sn (sp_snaps sp)) as [x|] eqn:Ex; [|rewrite Hfind; reflexivity].
  destruct (ss_ref x =? 0)%Z eqn:Eref; [rewrite Hfind; reflexivity|].
  destruct Hfind as (s & Hs & Hr). rewrite Hs, Hr, Eref. eexists; split; [reflexivity|].
  unfold sp_find_snap in Ex. apply find_some in Ex. destruct Ex as [Hx Hxsn]. apply N.eqb_eq in Hxsn.
  constructor; psimpl; auto.
  - constructor.
    + apply sr_map_open; auto. intros y Hy Hysn.
      assert (y = x) by (apply (map_inj_in ss_sn (sp_snaps sp)); auto; lia). subst y.
      apply Z.eqb_neq; auto.
    + rewrite map_sn_open; auto.
    + intros y Hy. apply in_map_iff in Hy. destruct Hy as (z & <- & Hz). specialize (Plt z Hz).
      unfold open_s. destruct (ss_sn z =? sn); cbn; auto.
    + rewrite map_sn_open_m. apply view_ok_map; auto. intro y. unfold open_s.
      destruct (ss_sn y =? sn); cbn; auto.
  - rewrite map_key_open. exact HG.
Qed.

(** ** GC *)
Lemma gc_move st cur nv wg sg gg last cg n l :
  Ginv st cur nv wg sg ((n, l) :: gg) last cg -> n = last + 1 -> Ginv st cur nv wg sg gg n (cg ++ l).
Proof.
  intros [Glast Grng Gnd Gasc Gdis Gcover Gw Gs Gc Gconv] Hn.
  assert (Hnr : last < n < cur) by (apply (Grng (n, l)); apply in_app_iff; right; cbn; auto).
  cbn [map fst asc] in Gasc. destruct Gasc as [Ga1 Ga2].
  constructor; auto.
  - lia.
  - intros p Hp. apply in_app_iff in Hp. destruct Hp as [Hp|Hp].
    + assert (last < fst p < cur) by (apply Grng; apply in_app_iff; auto).
      assert (fst p <> n) by (apply (Gdis p (n, l)); cbn; auto). lia.
    + assert (last < fst p < cur) by (apply Grng; apply in_app_iff; cbn; auto).
      assert (n < fst p) by (apply Ga1; apply in_map; auto). lia.
  - intros a b Ha Hb. apply Gdis; cbn; auto.
  - intros m Hm. assert (Hin : In m (map fst (sg ++ (n, l) :: gg))) by (apply Gcover; lia).
    rewrite map_app, in_app_iff in *. cbn in Hin. destruct Hin as [H|[H|H]]; auto. lia.
  - intros p i Hp Hi. apply Gs; auto. apply in_app_iff in Hp. apply in_app_iff. cbn. tauto.
  - intros i Hi. apply in_app_iff in Hi. destruct Hi as [Hi|Hi].
    + destruct (Gc i Hi) as [H1 H2]. split; auto. intros v Hv. specialize (H2 v Hv). lia.
    + destruct (Gs (n, l) i) as [H1 H2]; auto. { apply in_app_iff; cbn; auto. }
      split; auto. intros v Hv. specialize (H2 v Hv). cbn in H2. lia.
  - intros v Hv Hd. destruct (Gconv v Hv Hd) as [H|[(p & Hp & Hi)|H]].
    + left; auto.
    + apply in_app_iff in Hp. cbn in Hp. destruct Hp as [Hp|[<-|Hp]].
      * right; left. exists p. split; auto. apply in_app_iff; auto.
      * right; right. apply in_app_iff. auto.
      * right; left. exists p. split; auto. apply in_app_iff; auto.
    + right; right. apply in_app_iff. auto.
Qed.

Lemma collect_ok st cur nv wg sg gcs : forall last chan,
  Ginv st cur nv wg sg (map key gcs) last (concat chan) ->
  let '(g, l, c) := collect_dead gcs last chan in
  Ginv st cur nv wg sg (map key g) l (concat c) /\ (forall s, In s g -> l + 1 < s_sn s).
Proof.
  induction gcs as [|s r IH]; intros last chan G; cbn [collect_dead].
  - split; auto. intros s [].
  - destruct (N.eqb_spec (s_sn s) (last + 1)) as [e|ne].
    + apply IH. rewrite concat_app. cbn [concat]. rewrite app_nil_r.
      cbn [map] in G. unfold key at 1 in G. apply (gc_move _ _ _ _ _ _ last); auto.
    + split; auto. intros s0 Hs0.
      assert (Hr : last < s_sn s < cur).
      { apply (gi_rng _ _ _ _ _ _ _ _ G (key s)). apply in_app_iff. right. cbn. auto. }
      destruct Hs0 as [<-|Hs0]; [lia|].
      pose proof (gi_asc _ _ _ _ _ _ _ _ G) as Ha. cbn [map fst asc key] in Ha. destruct Ha as [Ha _].
      assert (s_sn s < s_sn s0).
      { apply Ha. rewrite map_map. apply (in_map (fun x => fst (key x))) in Hs0. exact Hs0. }
      lia.
Qed.

Lemma gc_ok nw d sp : R nw d sp -> R nw (do_gc d) sp.
Proof.
  intros HR. destruct HR as [HS Hsn Hnv Hnw Hic Hcnt HP HG]. unfold do_gc.
  pose proof (collect_ok _ _ _ _ _ (gcsnaps d) (lastGCSn d) (gcchan d) HG) as Hc.
  destruct (collect_dead (gcsnaps d) (lastGCSn d) (gcchan d)) as [[g l] c].
  constructor; psimpl; auto. apply Hc.
Qed.

Lemma gc_post nw d sp : R nw d sp ->
  forall s, In s (gcsnaps (do_gc d)) -> lastGCSn (do_gc d) + 1 < s_sn s.
Proof.
  intros HR. destruct HR as [HS Hsn Hnv Hnw Hic Hcnt HP HG]. unfold do_gc.
  pose proof (collect_ok _ _ _ _ _ (gcsnaps d) (lastGCSn d) (gcchan d) HG) as Hc.
  destruct (collect_dead (gcsnaps d) (lastGCSn d) (gcchan d)) as [[g l] c].
  psimpl. apply Hc.
Qed.

(** ** CloseSnap *)
Lemma In_insert_snap a l x : In x (insert_snap a l) <-> x = a \/ In x l.
Proof.
  induction l as [|y l IH]; cbn.
  - intuition.
  - destruct (s_sn a <? s_sn y); cbn; [intuition|]. rewrite IH. intuition.
Qed.

Lemma asc_insert a l : asc (map s_sn l) -> ~ In (s_sn a) (map s_sn l) -> asc (map s_sn (insert_snap a l)).
Proof.
  induction l as [|y l IH]; cbn [insert_snap map asc]; intros Ha Hni.
  - split; auto. intros b [].
  - destruct Ha as [Ha1 Ha2]. destruct (N.ltb_spec (s_sn a) (s_sn y)) as [Hlt|Hge]; cbn [map asc].
    + split; [|split; auto]. intros b [<-|Hb]; auto. specialize (Ha1 b Hb). lia.
    + split.
      * intros b Hb. apply in_map_iff in Hb. destruct Hb as (z & <- & Hz).
        apply In_insert_snap in Hz. destruct Hz as [->|Hz].
        -- cbn in Hni. assert (s_sn y <> s_sn a) by tauto. lia.
        -- apply Ha1. apply in_map; auto.
      * apply IH; auto. cbn in Hni. tauto.
Qed.

Lemma do_close_eq d sn : do_close d sn =
  match find_snap sn (snaps d) with
  | Some s =>
    if (s_ref s - 1 =? 0)%Z then
      do_gc (mkDb (store d) (currSn d) (writers d) (itemsCount d)
                  (filter (fun x => negb (s_sn x =? sn)) (snaps d))
                  (insert_snap (mkSnap (s_sn s) 0 (s_count s) (s_gc s)) (gcsnaps d))
                  (lastGCSn d) (gcchan d) (next_vid d) (removed d))
    else mkDb (store d) (currSn d) (writers d) (itemsCount d) (map (close_m sn) (snaps d))
              (gcsnaps d) (lastGCSn d) (gcchan d) (next_vid d) (removed d)
  | None => d
  end.
Proof. reflexivity. Qed.

Definition sp_close (sp : spec) (sn : N) : spec :=
  mkSpec (sp_live sp) (sp_next sp) (sp_sn sp) (sp_count sp) (map (close_s sn) (sp_snaps sp)).

Lemma close_ok nw d sp sn : R nw d sp -> R nw (do_close d sn) (sp_close sp sn).
Proof.
  intros HR. rewrite do_close_eq. unfold sp_close.
  destruct (find_snap sn (snaps d)) as [s|] eqn:Ef.
  - unfold find_snap in Ef. apply find_some in Ef. destruct Ef as [Hs Hssn]. apply N.eqb_eq in Hssn.
    assert (Huniq : forall s0, In s0 (snaps d) -> s_sn s0 = sn -> s0 = s).
    { intros s0 Hs0 Hsn0. apply (map_inj_in s_sn (snaps d)); auto; [|lia].
      rewrite <- map_fst_key. apply (gi_nd _ _ _ _ _ _ _ _ (r_g _ _ _ HR)). }
    assert (Hvm : forall y, ss_sn (close_s sn y) = ss_sn y /\ ss_items (close_s sn y) = ss_items y).
    { intro y. unfold close_s. destruct (_ && _); cbn; auto. }
    assert (Hlt' : forall y, In y (map (close_s sn) (sp_snaps sp)) -> ss_sn y < currSn d).
    { intros y Hy. apply in_map_iff in Hy. destruct Hy as (z & <- & Hz).
      rewrite (proj1 (Hvm z)). apply (pi_lt _ _ _ _ (r_p _ _ _ HR)); auto. }
    destruct (Z.eqb_spec (s_ref s - 1) 0) as [Hr|Hr].
    + apply gc_ok. destruct HR as [HS Hsn Hnv Hnw Hic Hcnt HP HG].
      destruct HP as [Prel Pnd Plt Pview].
      constructor; psimpl; auto.
      * constructor; auto.
        -- apply sr_filter_close; auto. intros s0 Hs0 Hsn0. rewrite (Huniq s0 Hs0 Hsn0). lia.
        -- rewrite map_sn_close; auto.
        -- apply view_ok_map; auto. intros x Hx Hn. apply Pview; auto.
           apply in_map_iff in Hn. destruct Hn as (z & Hz1 & Hz2). apply filter_In in Hz2.
           rewrite <- Hz1. apply in_map. tauto.
      * set (s' := mkSnap (s_sn s) 0 (s_count s) (s_gc s)).
        set (sn' := filter (fun x => negb (s_sn x =? sn)) (snaps d)).
        destruct HG as [Glast Grng Gnd Gasc Gdis Gcover Gw Gs Gc Gconv].
        assert (Hsub : forall p, In p (map key sn' ++ map key (insert_snap s' (gcsnaps d))) ->
                                 In p (map key (snaps d) ++ map key (gcsnaps d))).
        { intros p Hp. apply in_app_iff in Hp. apply in_app_iff. destruct Hp as [Hp|Hp].
          - left. apply in_map_iff in Hp. destruct Hp as (z & <- & Hz). apply filter_In in Hz.
            apply in_map. tauto.
          - apply in_map_iff in Hp. destruct Hp as (z & <- & Hz). apply In_insert_snap in Hz.
            destruct Hz as [->|Hz].
            + left. change (key s') with (key s). apply in_map; auto.
            + right. apply in_map; auto. }
        assert (Hsup : forall p, In p (map key (snaps d) ++ map key (gcsnaps d)) ->
                                 In p (map key sn' ++ map key (insert_snap s' (gcsnaps d)))).
        { intros p Hp. apply in_app_iff in Hp. apply in_app_iff. destruct Hp as [Hp|Hp].
          - apply in_map_iff in Hp. destruct Hp as (z & <- & Hz).
            destruct (N.eqb_spec (s_sn z) sn) as [e|ne].
            + right. rewrite (Huniq z Hz e). change (key s) with (key s'). apply in_map.
              apply In_insert_snap. auto.
            + left. apply in_map. apply filter_In. split; auto. apply negb_true_iff. apply N.eqb_neq; auto.
          - right. apply in_map_iff in Hp. destruct Hp as (z & <- & Hz). apply in_map.
            apply In_insert_snap. auto. }
        constructor; auto.
        -- rewrite map_map. apply nodup_map_filter. rewrite <- (map_map key fst). exact Gnd.
        -- rewrite map_fst_key. apply asc_insert.
           ++ rewrite <- map_fst_key. exact Gasc.
           ++ intro Hin. apply in_map_iff in Hin. destruct Hin as (z & Hz1 & Hz2).
              apply (Gdis (key s) (key z)); [apply in_map; auto|apply in_map; auto|]. cbn. cbn in Hz1. lia.
        -- intros a b Ha Hb. apply in_map_iff in Ha. destruct Ha as (a0 & <- & Ha0).
           apply filter_In in Ha0. destruct Ha0 as [Ha0 Hane]. apply negb_true_iff in Hane.
           apply N.eqb_neq in Hane.
           apply in_map_iff in Hb. destruct Hb as (b0 & <- & Hb0). apply In_insert_snap in Hb0.
           destruct Hb0 as [->|Hb0].
           ++ cbn. lia.
           ++ apply Gdis; apply in_map; auto.
        -- intros n Hn. specialize (Gcover n Hn). apply in_map_iff in Gcover.
           destruct Gcover as (p & <- & Hp). apply in_map. apply Hsup; auto.
        -- intros v Hv Hd. destruct (Gconv v Hv Hd) as [H|[(p & Hp & Hi)|H]].
           ++ left; auto.
           ++ right; left. exists p. split; auto.
           ++ right; right; auto.
    + destruct HR as [HS Hsn Hnv Hnw Hic Hcnt HP HG]. destruct HP as [Prel Pnd Plt Pview].
      constructor; psimpl; auto.
      * constructor; auto.
        -- apply sr_map_close; auto. intros s0 Hs0 Hsn0. rewrite (Huniq s0 Hs0 Hsn0). auto.
        -- rewrite map_sn_close; auto.
        -- rewrite map_sn_close_m. apply view_ok_map; auto.
      * rewrite map_key_close. exact HG.
  - destruct HR as [HS Hsn Hnv Hnw Hic Hcnt HP HG]. destruct HP as [Prel Pnd Plt Pview].
    constructor; psimpl; auto. constructor; auto.
    + apply sr_none_close; auto. intros s Hs Hsn0. unfold find_snap in Ef.
      pose proof (find_none _ _ Ef s Hs) as Hf. cbn in Hf. apply N.eqb_neq in Hf. auto.
    + rewrite map_sn_close; auto.
    + intros y Hy. apply in_map_iff in Hy. destruct Hy as (z & <- & Hz). specialize (Plt z Hz).
      unfold close_s. destruct (_ && _); cbn; auto.
    + apply view_ok_map; auto. intro y. unfold close_s. destruct (_ && _); cbn; auto.
Qed.


(** ** collection worker *)
Lemma remove_dead_ok st cur nv live sn ssn wg gg last i cg :
  Sinv st cur nv live -> Pinv st sn ssn cur -> Ginv st cur nv wg (map key sn) gg last (i :: cg) ->
  Sinv (remove_vid i st) cur nv live /\ Pinv (remove_vid i st) sn ssn cur /\
  Ginv (remove_vid i st) cur nv wg (map key sn) gg last cg.
Proof.
  intros HS HP HG. destruct HS as [Hinv Hcur Hvid Hlive].
  pose proof (si_vids _ _ _ Hinv) as Hnd.
  destruct (gi_c _ _ _ _ _ _ _ _ HG i (or_introl eq_refl)) as [Hi Hgp].
  split; [|split].
  - constructor; auto.
    + apply remove_inv; auto.
    + intros v Hv. apply filter_In in Hv. apply Hvid; tauto.
    + rewrite remove_live, sp_remove_nohas; auto. rewrite sp_has_live by auto.
      destruct (find_vid i st) as [v|] eqn:Ef; auto. specialize (Hgp v eq_refl).
      unfold alive. apply N.eqb_neq. lia.
  - apply (Pinv_store st); auto. intros n Hn. apply remove_view. intros v Hv Hvi.
    pose proof (find_vid_nodup _ _ Hnd Hv) as Hf. rewrite Hvi in Hf. specialize (Hgp v Hf).
    pose proof (snap_rng _ _ _ _ _ _ _ _ n HG Hn). apply invisible_dead; lia.
  - apply (Ginv_store st _ _ nv _ wg _ _ _ _ (i :: cg)); auto.
    + lia.
    + intros i0 v' Hi0 Hf. rewrite find_vid_remove in Hf. destruct (i0 =? i); [discriminate|].
      exists v'. auto.
    + intros j Hj. cbn. auto.
    + intros v Hv Hd. apply filter_In in Hv. destruct Hv as [Hv Hne]. apply negb_true_iff in Hne.
      apply N.eqb_neq in Hne.
      destruct (gi_conv _ _ _ _ _ _ _ _ HG v Hv Hd) as [H|[H|H]].
      * left; auto.
      * right; left; auto.
      * right; right. destruct H as [H|H]; auto. lia.
Qed.

Lemma remove_all_ok cur nv live sn ssn wg gg last cg : forall l st,
  Sinv st cur nv live -> Pinv st sn ssn cur -> Ginv st cur nv wg (map key sn) gg last (l ++ cg) ->
  let st' := fold_left (fun s i => remove_vid i s) l st in
  Sinv st' cur nv live /\ Pinv st' sn ssn cur /\ Ginv st' cur nv wg (map key sn) gg last cg.
Proof.
  induction l as [|i l IH]; intros st HS HP HG; cbn [fold_left app] in *.
  - auto.
  - destruct (remove_dead_ok _ _ _ _ _ _ _ _ _ _ _ HS HP HG) as (HS' & HP' & HG').
    apply IH; auto.
Qed.

Lemma worker_ok nw d sp : R nw d sp -> R nw (do_worker d) sp.
Proof.
  intros HR. unfold do_worker. destruct (gcchan d) as [|l r] eqn:Ec; auto.
  destruct HR as [HS Hsn Hnv Hnw Hic Hcnt HP HG]. rewrite Ec in HG. cbn [concat] in HG.
  destruct (remove_all_ok _ _ _ _ _ _ _ _ _ l _ HS HP HG) as (HS' & HP' & HG').
  constructor; psimpl; auto.
Qed.

Lemma drain_ok nw sp : forall fuel d, R nw d sp -> R nw (drain fuel d) sp.
Proof.
  induction fuel as [|f IH]; intros d HR; cbn [drain]; auto.
  destruct (gcchan d) eqn:Ec; auto. apply IH. apply worker_ok; auto.
Qed.

Lemma drain_empty : forall fuel d, (length (gcchan d) < fuel)%nat -> gcchan (drain fuel d) = [].
Proof.
  induction fuel as [|f IH]; intros d Hl; [lia|]. cbn [drain].
  destruct (gcchan d) as [|l r] eqn:Ec; auto. apply IH. unfold do_worker. rewrite Ec. psimpl.
  cbn in Hl. lia.
Qed.

Lemma worker_same d : snaps (do_worker d) = snaps d /\ gcsnaps (do_worker d) = gcsnaps d /\
  lastGCSn (do_worker d) = lastGCSn d /\ currSn (do_worker d) = currSn d.
Proof. unfold do_worker. destruct (gcchan d); psimpl; auto. Qed.

Lemma drain_same : forall fuel d, snaps (drain fuel d) = snaps d /\ gcsnaps (drain fuel d) = gcsnaps d /\
  lastGCSn (drain fuel d) = lastGCSn d /\ currSn (drain fuel d) = currSn d.
Proof.
  induction fuel as [|f IH]; intros d; cbn [drain]; auto.
  destruct (gcchan d); auto. destruct (IH (do_worker d)) as (H1 & H2 & H3 & H4).
  destruct (worker_same d) as (W1 & W2 & W3 & W4). rewrite H1, H2, H3, H4. auto.
Qed.

(** ** Scan *)
Lemma scan_ok nw d sp sn : R nw d sp ->
  do_scan kcmp d sn = match sp_find_snap sn (sp_snaps sp) with
                      | Some x => if (ss_ref x =? 0)%Z then None else Some (ss_items x)
                      | None => None
                      end.
Proof.
  intros HR. destruct HR as [HS Hsn Hnv Hnw Hic Hcnt HP HG]. destruct HP as [Prel Pnd Plt Pview].
  pose proof (sr_find _ _ sn Prel Pnd) as Hfind. unfold do_scan.
  destruct (sp_find_snap sn (sp_snaps sp)) as [x|] eqn:Ex; [|rewrite Hfind; reflexivity].
  destruct (ss_ref x =? 0)%Z eqn:Eref; [rewrite Hfind; reflexivity|].
  destruct Hfind as (s & Hs & Hr). rewrite Hs, Hr, Eref. f_equal. rewrite scan_is_view.
  unfold sp_find_snap in Ex. apply find_some in Ex. destruct Ex as [Hx Hxsn]. apply N.eqb_eq in Hxsn.
  unfold find_snap in Hs. apply find_some in Hs. destruct Hs as [Hsin Hssn]. apply N.eqb_eq in Hssn.
  rewrite <- Hxsn. apply Pview; auto. rewrite Hxsn, <- Hssn. apply in_map; auto.
Qed.

(** * one step, whole runs *)
Definition wf_op (nw : nat) (o : op) : Prop :=
  match o with Put w _ | Delete w _ | DeleteNode w _ => (w < nw)%nat | _ => True end.
Definition nw_next (nw : nat) (o : op) : nat := match o with NewWriter => S nw | _ => nw end.

Lemma wf_from_cons nw o r : wf_from nw (o :: r) -> wf_op nw o /\ wf_from (nw_next nw o) r.
Proof. destruct o; cbn; tauto. Qed.

Lemma step_R nw d sp o : R nw d sp -> wf_op nw o ->
  R (nw_next nw o) (fst (step kcmp d o)) (fst (sp_step kcmp sp o)) /\
  proj (snd (step kcmp d o)) = proj (snd (sp_step kcmp sp o)).
Proof.
  intros HR Hwf. destruct o; cbn [step sp_step wf_op nw_next] in *.
  - (* Put *)
    pose proof (put_ok nw d sp w bs HR Hwf) as H.
    destruct (sp_find kcmp bs (sp_live sp)).
    + rewrite H. cbn. auto.
    + destruct H as (d' & -> & HR'). cbn. auto.
  - (* Delete *)
    pose proof (delete_ok nw d sp w bs HR Hwf) as H.
    destruct (sp_find kcmp bs (sp_live sp)).
    + destruct H as (d' & -> & HR'). cbn. auto.
    + rewrite H. cbn. auto.
  - (* GetNode *)
    rewrite (getnode_ok nw d sp bs HR). cbn. auto.
  - (* DeleteNode *)
    pose proof (deletenode_ok nw d sp w i HR Hwf) as H.
    destruct (sp_has i (sp_live sp)).
    + destruct H as (d' & -> & HR'). cbn. auto.
    + rewrite H. cbn. auto.
  - (* NewWriter *)
    cbn. split; auto. apply newwriter_ok; auto.
  - (* NewSnapshot *)
    destruct (newsnapshot_ok nw d sp HR) as (d' & -> & HR'). cbn. auto.
  - (* OpenSnap *)
    pose proof (open_ok nw d sp sn HR) as H.
    destruct (sp_find_snap sn (sp_snaps sp)) as [x|].
    + destruct (ss_ref x =? 0)%Z.
      * rewrite H. cbn. auto.
      * destruct H as (d' & -> & HR'). cbn. auto.
    + rewrite H. cbn. auto.
  - (* CloseSnap *)
    cbn. split; auto. apply (close_ok nw d sp sn HR).
  - (* GC *)
    cbn. split; auto. apply gc_ok; auto.
  - (* WorkerStep *)
    cbn. split; auto. apply worker_ok; auto.
  - (* Drain *)
    cbn [fst snd proj]. split; auto. apply drain_ok; auto.
  - (* Scan *)
    rewrite (scan_ok nw d sp sn HR).
    destruct (sp_find_snap sn (sp_snaps sp)) as [x|]; cbn; auto.
  - (* ItemsCount *)
    cbn. split; auto. f_equal. apply (r_ic _ _ _ HR).
Qed.

Lemma run_R : forall ops nw d sp, R nw d sp -> wf_from nw ops ->
  (exists nw', R nw' (fst (run kcmp d ops)) (fst (sp_run kcmp sp ops))) /\
  map proj (snd (run kcmp d ops)) = map proj (snd (sp_run kcmp sp ops)).
Proof.
  induction ops as [|o r IH]; intros nw d sp HR Hwf.
  - cbn. split; eauto.
  - apply wf_from_cons in Hwf. destruct Hwf as [Hop Hr].
    destruct (step_R nw d sp o HR Hop) as [HR' Hout].
    cbn [run sp_run].
    destruct (step kcmp d o) as [d' x]. destruct (sp_step kcmp sp o) as [sp' y].
    cbn [fst snd] in HR', Hout.
    destruct (IH _ _ _ HR' Hr) as [Hex Hmap].
    destruct (run kcmp d' r) as [d'' xs]. destruct (sp_run kcmp sp' r) as [sp'' ys].
    cbn [fst snd map] in *. split; auto. f_equal; auto.
Qed.

Lemma run_app : forall a b d, fst (run kcmp d (a ++ b)) = fst (run kcmp (fst (run kcmp d a)) b).
Proof.
  induction a as [|o a IH]; intros b d; cbn [app run]; auto.
  destruct (step kcmp d o) as [d' x]. specialize (IH b d').
  destruct (run kcmp d' (a ++ b)) as [d1 xs1]. destruct (run kcmp d' a) as [d2 xs2].
  cbn [fst] in *. auto.
Qed.

Theorem reachable_inv : stmt_reachable_inv kcmp.
Proof.
  intros ops Hwf d. destruct (run_R ops 0%nat db_init spec_init R_init Hwf) as [[nw' HR] _].
  apply (sv_inv _ _ _ _ (r_s _ _ _ HR)).
Qed.

Theorem mvcc_refines_spec : stmt_mvcc_refines_spec kcmp.
Proof. intros ops Hwf. apply (run_R ops 0%nat db_init spec_init R_init Hwf). Qed.

Theorem gc_precision : stmt_gc_precision kcmp.
Proof.
  intros ops Hwf d sp x Hx Hpos.
  destruct (run_R ops 0%nat db_init spec_init R_init Hwf) as [[nw' HR] _].
  fold d sp in HR. destruct (r_p _ _ _ HR) as [Prel Pnd Plt Pview].
  apply Pview; auto. destruct (sr_in' _ _ x Prel Hx) as [_ H]. destruct (H Hpos) as (s & Hs & Hsn & _).
  rewrite <- Hsn. apply in_map; auto.
Qed.

Theorem counts : stmt_counts kcmp.
Proof.
  intros ops Hwf d.
  destruct (run_R ops 0%nat db_init spec_init R_init Hwf) as [[nw' HR] _].
  fold d in HR. rewrite fold_wsum. rewrite <- (map_length (fun v => (vid v, vitem v))).
  fold (live_entries (store d)). rewrite (sv_live _ _ _ _ (r_s _ _ _ HR)).
  pose proof (r_cnt _ _ _ HR). lia.
Qed.


Theorem gc_complete : stmt_gc_complete kcmp.
Proof.
  intros ops Hwf d.
  destruct (run_R ops 0%nat db_init spec_init R_init Hwf) as [[nw HR1] _].
  set (d1 := fst (run kcmp db_init ops)) in *. set (sp := fst (sp_run kcmp spec_init ops)) in *.
  set (d2 := do_gc d1).
  assert (Hd : d = drain (S (length (gcchan d2))) d2).
  { unfold d. rewrite run_app. reflexivity. }
  assert (HR2 : R nw d2 sp) by (apply gc_ok; auto).
  pose proof (gc_post nw d1 sp HR1) as Hpost. fold d2 in Hpost.
  assert (HR : R nw d sp) by (rewrite Hd; apply drain_ok; auto).
  assert (Hch : gcchan d = []) by (rewrite Hd; apply drain_empty; lia).
  destruct (drain_same (S (length (gcchan d2))) d2) as (E1 & E2 & E3 & E4). rewrite <- Hd in E1, E2, E3, E4.
  rewrite <- E2, <- E3 in Hpost. clear E1 E2 E3 E4 Hd HR2.
  split; auto. intros v Hv.
  destruct (N.eq_dec (vdead v) 0) as [Hz|Hnz]; [left; auto|right].
  destruct HR as [HS Hsn Hnv Hnw Hic Hcnt HP HG]. destruct HS as [Hinv Hcur Hvid Hlive].
  pose proof (find_vid_nodup _ _ (si_vids _ _ _ Hinv) Hv) as Hf.
  destruct (gi_conv _ _ _ _ _ _ _ _ HG v Hv Hnz) as [H|[(p & Hp & Hi)|H]].
  - left. destruct (gi_w _ _ _ _ _ _ _ _ HG _ H) as [_ H2]. specialize (H2 v Hf). lia.
  - right. destruct (gi_s _ _ _ _ _ _ _ _ HG p _ Hp Hi) as [_ H2]. specialize (H2 v Hf).
    pose proof (gi_rng _ _ _ _ _ _ _ _ HG p Hp) as Hrng.
    apply in_app_iff in Hp. destruct Hp as [Hp|Hp]; apply in_map_iff in Hp; destruct Hp as (s & <- & Hs).
    + exists s. split; auto. cbn in H2. lia.
    + pose proof (Hpost s Hs) as Hps. cbn in H2, Hrng.
      assert (Hc : In (lastGCSn d + 1) (map fst (map key (snaps d) ++ map key (gcsnaps d))))
        by (apply (gi_cover _ _ _ _ _ _ _ _ HG); lia).
      rewrite map_app, !map_fst_key, in_app_iff in Hc. destruct Hc as [Hc|Hc];
        apply in_map_iff in Hc; destruct Hc as (s' & Hs'1 & Hs'2).
      * exists s'. split; auto. lia.
      * specialize (Hpost s' Hs'2). lia.
  - rewrite Hch in H. destruct H.
Qed.

End Refine.

Print Assumptions reachable_inv.
Print Assumptions mvcc_refines_spec.
Print Assumptions gc_precision.
Print Assumptions counts.
Print Assumptions gc_complete.
