(** The two executable comparators satisfy the comparator laws (so the theorems are not vacuous). *)
From NV Require Import Base.Bytes Codec.Frame Codec.FrameProofs Mvcc.Store Mvcc.InvDefs.
Open Scope N_scope.

Lemma bytes_cmp_laws : cmp_laws bytes_cmp.
Proof.
  constructor.
  - intros a b. apply bytes_cmp_antisym.
  - intros a b c. apply bytes_cmp_trans_lt.
  - intros a b c H. apply bytes_cmp_eq in H. subst. reflexivity.
Qed.

(** any comparator obtained by projecting a key first inherits the laws *)
Lemma proj_cmp_laws (f : list N -> list N) (c : list N -> list N -> comparison) :
  cmp_laws c -> cmp_laws (fun a b => c (f a) (f b)).
Proof.
  intros [A T E]. constructor.
  - intros a b. apply A.
  - intros a b d. apply T.
  - intros a b d. apply E.
Qed.

Lemma compare_kv_laws : cmp_laws compare_kv.
Proof. exact (proj_cmp_laws kv_key bytes_cmp bytes_cmp_laws). Qed.
