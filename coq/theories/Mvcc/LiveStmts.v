(** C01 / C09 on a moving store: statements. *)
From Coq Require Import List NArith ZArith Bool.
From NV Require Import Base.Bytes Mvcc.Store Mvcc.Ops Mvcc.Spec Mvcc.InvDefs Mvcc.Stmts Mvcc.RefineStmt Mvcc.Live.
Import ListNotations.
Open Scope N_scope.

Section LiveStmts.
Variable kcmp : list N -> list N -> comparison.

(** After ANY history [pre], for any snapshot that is open then and stays open, ANY operations of
    other goroutines before the SeekFirst and between every two Next steps (Puts and Deletes of the
    same and of other keys, same-epoch and cross-epoch, new snapshots, closing of other snapshots, GC
    passes, collection-worker steps in any order), and any refresh rate: the k-th step of the scan
    stands on the k-th item the snapshot held when [pre] ended, and the scan is exhausted exactly after
    the last one — each item once, in order, with its bytes, nothing else. *)
Definition stmt_live_scan : Prop :=
  forall pre sn rate seg0 segs,
    wf_from 0 (pre ++ seg0 ++ concat segs) ->
    let d0 := fst (run kcmp db_init pre) in
    snap_open d0 sn = true ->
    open_along kcmp d0 sn (seg0 :: segs) = true ->
    live_scan kcmp d0 sn rate seg0 segs
    = map (fun k => nth_error (view sn (store d0)) k) (seq 0 (S (length segs))).

(** the node an open snapshot's iterator stands on is never removed from the store by the interleaved
    operations (so re-locating it by identity is faithful) *)
Definition stmt_live_node_stays : Prop :=
  forall pre sn seg v,
    wf_from 0 (pre ++ seg) ->
    let d0 := fst (run kcmp db_init pre) in
    let d1 := fst (run kcmp d0 seg) in
    snap_open d1 sn = true ->
    In v (store d0) -> visible sn v = true ->
    exists v', In v' (store d1) /\ vid v' = vid v /\ vitem v' = vitem v /\ vborn v' = vborn v /\ visible sn v' = true.

End LiveStmts.
