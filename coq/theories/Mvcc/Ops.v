(** Sequential model of the Nitro operations (nitro.go:200-285, 566-722), iterator (iterator.go)
    and visitor (nitro.go:750-842) over the version store.  Collection-worker progress is an
    explicit operation, so every interleaving of whole operations with worker progress is a
    member of [list op]. *)
From NV Require Import Base.Bytes Mvcc.Store.
Open Scope N_scope.

Record snap := mkSnap { s_sn : N; s_ref : Z; s_count : Z; s_gc : list N }.
Record writer := mkWriter { w_gc : list N; w_count : Z }.

Record db := mkDb {
  store : list ver;
  currSn : N;
  writers : list writer;        (* index = writer id in creation order *)
  itemsCount : Z;
  snaps : list snap;            (* Nitro.snapshots, ascending sn *)
  gcsnaps : list snap;          (* Nitro.gcsnapshots, ascending sn *)
  lastGCSn : N;
  gcchan : list (list N);       (* garbage lists sent to the workers, oldest first *)
  next_vid : N;
  removed : list N              (* ghost: vids physically removed, in order *)
}.

Definition db_init : db :=
  mkDb [] 1 [] 0 [] [] 0 [] 0 [].

Inductive op :=
| Put (w : nat) (bs : list N)
| Delete (w : nat) (bs : list N)
| GetNode (w : nat) (bs : list N)
| DeleteNode (w : nat) (i : N)
| NewWriter
| NewSnapshot
| OpenSnap (sn : N)
| CloseSnap (sn : N)
| GC
| WorkerStep
| Drain                     (* all pending worker steps; observes the physical store *)
| Scan (sn : N)             (* NewIterator; SeekFirst; Next...; Close *)
| ItemsCount.

Inductive out :=
| ONode (o : option N)
| ODel (o : option N) (b : bool)
| OBool (b : bool)
| OSnap (sn : N) (count : Z)
| OItems (o : option (list (list N)))
| OPhys (l : list (list N * N * N))     (* item, bornSn, deadSn of every physically present version *)
| OCount (z : Z)
| OUnit.

Section Ops.
Variable kcmp : list N -> list N -> comparison.

Fixpoint upd_nth {A} (i : nat) (f : A -> A) (l : list A) : list A :=
  match l, i with
  | [], _ => []
  | x :: r, O => f x :: r
  | x :: r, S j => x :: upd_nth j f r
  end.

Definition set_store (d : db) (s : list ver) : db :=
  mkDb s (currSn d) (writers d) (itemsCount d) (snaps d) (gcsnaps d) (lastGCSn d) (gcchan d) (next_vid d) (removed d).
Definition set_writers (d : db) (ws : list writer) : db :=
  mkDb (store d) (currSn d) ws (itemsCount d) (snaps d) (gcsnaps d) (lastGCSn d) (gcchan d) (next_vid d) (removed d).

(** nitro.go:207-220 Put2 *)
Definition do_put (d : db) (w : nat) (bs : list N) : db * option N :=
  let '(pred, succ, found) := find_ins kcmp bs (currSn d) (store d) in
  if found || exist_eq kcmp bs pred then (d, None)
  else
    let x := mkVer bs (currSn d) 0 (next_vid d) in
    (mkDb (insert_ver kcmp x (store d)) (currSn d)
          (upd_nth w (fun wr => mkWriter (w_gc wr) (w_count wr + 1)) (writers d))
          (itemsCount d) (snaps d) (gcsnaps d) (lastGCSn d) (gcchan d) (next_vid d + 1) (removed d),
     Some (next_vid d)).

(** nitro.go:273-285 GetNode *)
Definition do_getnode (d : db) (bs : list N) : option N :=
  let '(pred, succ, found) := find_ins kcmp bs (currSn d) (store d) in
  if found then option_map vid succ
  else if exist_eq kcmp bs pred then option_map vid pred
  else None.

(** nitro.go:240-269 DeleteNode (with the list/flush actions taken on success only) *)
Definition do_deletenode (d : db) (w : nat) (i : N) : db * bool :=
  match find_vid i (store d) with
  | None => (d, false)               (* the node is no longer linked: skiplist delete finds it marked *)
  | Some v =>
    if vborn v =? currSn d then
      (* same epoch: physical removal, handed to the barrier at once *)
      (mkDb (remove_vid i (store d)) (currSn d)
            (upd_nth w (fun wr => mkWriter (w_gc wr) (w_count wr - 1)) (writers d))
            (itemsCount d) (snaps d) (gcsnaps d) (lastGCSn d) (gcchan d) (next_vid d) (removed d ++ [i]), true)
    else if vdead v =? 0 then
      (mkDb (set_dead i (currSn d) (store d)) (currSn d)
            (upd_nth w (fun wr => mkWriter (w_gc wr ++ [i]) (w_count wr - 1)) (writers d))
            (itemsCount d) (snaps d) (gcsnaps d) (lastGCSn d) (gcchan d) (next_vid d) (removed d), true)
    else (d, false)
  end.

(** nitro.go:230-236 Delete2 = GetNode then DeleteNode *)
Definition do_delete (d : db) (w : nat) (bs : list N) : db * (option N * bool) :=
  match do_getnode d bs with
  | Some i => let '(d', b) := do_deletenode d w i in (d', (Some i, b))
  | None => (d, (None, false))
  end.

(** nitro.go:607-641 NewSnapshot.  wlist is newest-writer-first. *)
Definition do_newsnapshot (d : db) : db * (N * Z) :=
  let ws := rev (writers d) in
  let gcl := concat (map w_gc ws) in
  let cnt := (itemsCount d + fold_left (fun a wr => a + w_count wr) ws 0)%Z in
  let s := mkSnap (currSn d) 1 cnt gcl in
  (mkDb (store d) (currSn d + 1) (map (fun _ => mkWriter [] 0) (writers d)) cnt
        (snaps d ++ [s]) (gcsnaps d) (lastGCSn d) (gcchan d) (next_vid d) (removed d),
   (currSn d, cnt)).

(** nitro.go:694-714 collectDead: retired snapshots are handed over strictly in sn order *)
Fixpoint collect_dead (gcs : list snap) (last : N) (chan : list (list N)) : list snap * N * list (list N) :=
  match gcs with
  | [] => ([], last, chan)
  | s :: r => if s_sn s =? last + 1 then collect_dead r (s_sn s) (chan ++ [s_gc s])
              else (gcs, last, chan)
  end.

Definition do_gc (d : db) : db :=
  let '(g, l, c) := collect_dead (gcsnaps d) (lastGCSn d) (gcchan d) in
  mkDb (store d) (currSn d) (writers d) (itemsCount d) (snaps d) g l c (next_vid d) (removed d).

Fixpoint insert_snap (s : snap) (l : list snap) : list snap :=
  match l with
  | [] => [s]
  | x :: r => if s_sn s <? s_sn x then s :: l else x :: insert_snap s r
  end.

Definition find_snap (sn : N) (l : list snap) : option snap := find (fun s => s_sn s =? sn) l.

(** nitro.go:566-572 Open *)
Definition do_open (d : db) (sn : N) : db * bool :=
  match find_snap sn (snaps d) with
  | Some s =>
    if (s_ref s =? 0)%Z then (d, false)
    else (mkDb (store d) (currSn d) (writers d) (itemsCount d)
               (map (fun x => if s_sn x =? sn then mkSnap (s_sn x) (s_ref x + 1) (s_count x) (s_gc x) else x) (snaps d))
               (gcsnaps d) (lastGCSn d) (gcchan d) (next_vid d) (removed d), true)
  | None => (d, false)       (* fully released snapshot: refCount is 0 *)
  end.

(** nitro.go:577-588 Close *)
Definition do_close (d : db) (sn : N) : db :=
  match find_snap sn (snaps d) with
  | Some s =>
    if (s_ref s - 1 =? 0)%Z then
      do_gc (mkDb (store d) (currSn d) (writers d) (itemsCount d)
                  (filter (fun x => negb (s_sn x =? sn)) (snaps d))
                  (insert_snap (mkSnap (s_sn s) 0 (s_count s) (s_gc s)) (gcsnaps d))
                  (lastGCSn d) (gcchan d) (next_vid d) (removed d))
    else mkDb (store d) (currSn d) (writers d) (itemsCount d)
              (map (fun x => if s_sn x =? sn then mkSnap (s_sn x) (s_ref x - 1) (s_count x) (s_gc x) else x) (snaps d))
              (gcsnaps d) (lastGCSn d) (gcchan d) (next_vid d) (removed d)
  | None => d
  end.

(** nitro.go:648-673 collectionWorker: one garbage list *)
Definition do_worker (d : db) : db :=
  match gcchan d with
  | [] => d
  | l :: r =>
    mkDb (fold_left (fun s i => remove_vid i s) l (store d)) (currSn d) (writers d) (itemsCount d)
         (snaps d) (gcsnaps d) (lastGCSn d) r (next_vid d)
         (removed d ++ filter (fun i => match find_vid i (store d) with Some _ => true | None => false end) l)
  end.

Fixpoint drain (fuel : nat) (d : db) : db :=
  match fuel with
  | O => d
  | S f => match gcchan d with [] => d | _ => drain f (do_worker d) end
  end.

(** ** Iterator (iterator.go) over a quiescent store *)
Record iter := mkIter { it_sn : N; it_pos : nat; it_count : Z; it_rate : Z }.

Definition it_valid (s : list ver) (it : iter) : bool := (it_pos it <? length s)%nat.
Definition it_get (s : list ver) (it : iter) : option ver := nth_error s (it_pos it).

(** iterator.go:26-37 skipUnwanted *)
Fixpoint skip_unwanted (fuel : nat) (s : list ver) (sn : N) (pos : nat) (count : Z) : nat * Z :=
  match fuel with
  | O => (pos, count)
  | S f =>
    match nth_error s pos with
    | Some v => if visible sn v then (pos, count) else skip_unwanted f s sn (S pos) (count + 1)%Z
    | None => (pos, count)
    end
  end.

Definition it_skip (s : list ver) (it : iter) : iter :=
  let '(p, c) := skip_unwanted (S (length s)) s (it_sn it) (it_pos it) (it_count it) in
  mkIter (it_sn it) p c (it_rate it).

Definition it_seek_first (s : list ver) (it : iter) : iter :=
  it_skip s (mkIter (it_sn it) 0 (it_count it) (it_rate it)).

(** The store iterator uses the insert comparator (iterator.go NewIterator): skiplist Seek lands on
    the first version that is not before the probe (key, bornSn). *)
Definition ins_pos (s : list ver) (bs : list N) (born : N) : nat :=
  length (fst (span (before_ins kcmp bs born) s)).

(** first version whose key is >= the probe (the oldest physical version of that key) *)
Definition key_pos (s : list ver) (bs : list N) : nat := length (fst (span (before_key kcmp bs) s)).

(** iterator.go:46-50 Seek: the probe item has bornSn 0, so it lands on the first version of the
    first key >= bs, then the visibility filter is applied *)
Definition it_seek (s : list ver) (it : iter) (bs : list N) : iter :=
  it_skip s (mkIter (it_sn it) (ins_pos s bs 0) (it_count it) (it_rate it)).

(** iterator.go:82-93 Refresh: re-seek with a copy of the current item (key AND bornSn), then
    re-apply the visibility filter *)
Definition it_refresh (s : list ver) (it : iter) : iter :=
  match it_get s it with
  | Some v => it_skip s (mkIter (it_sn it) (ins_pos s (vitem v) (vborn v)) (it_count it) (it_rate it))
  | None => it
  end.

(** iterator.go:72-80 Next *)
Definition it_next (s : list ver) (it : iter) : iter :=
  let it1 := it_skip s (mkIter (it_sn it) (S (it_pos it)) (it_count it + 1)%Z (it_rate it)) in
  if ((0 <? it_rate it1) && (it_rate it1 <? it_count it1))%Z
  then let it2 := it_refresh s it1 in mkIter (it_sn it2) (it_pos it2) 0 (it_rate it2)
  else it1.

Fixpoint scan_loop (fuel : nat) (s : list ver) (it : iter) (acc : list (list N)) : list (list N) :=
  match fuel with
  | O => rev acc
  | S f =>
    match it_get s it with
    | Some v => scan_loop f s (it_next s it) (vitem v :: acc)
    | None => rev acc
    end
  end.

Definition scan_with_rate (s : list ver) (sn : N) (rate : Z) : list (list N) :=
  scan_loop (S (length s)) s (it_seek_first s (mkIter sn 0 0 rate)) [].

Definition do_scan (d : db) (sn : N) : option (list (list N)) :=
  match find_snap sn (snaps d) with
  | Some s => if (s_ref s =? 0)%Z then None else Some (scan_with_rate (store d) sn 0)
  | None => None
  end.

Definition phys (s : list ver) : list (list N * N * N) := map (fun v => (vitem v, vborn v, vdead v)) s.

Definition step (d : db) (o : op) : db * out :=
  match o with
  | Put w bs => let '(d', r) := do_put d w bs in (d', ONode r)
  | Delete w bs => let '(d', (n, b)) := do_delete d w bs in (d', ODel n b)
  | GetNode w bs => (d, ONode (do_getnode d bs))
  | DeleteNode w i => let '(d', b) := do_deletenode d w i in (d', OBool b)
  | NewWriter => (set_writers d (writers d ++ [mkWriter [] 0]), OUnit)
  | NewSnapshot => let '(d', (sn, c)) := do_newsnapshot d in (d', OSnap sn c)
  | OpenSnap sn => let '(d', b) := do_open d sn in (d', OBool b)
  | CloseSnap sn => (do_close d sn, OUnit)
  | GC => (do_gc d, OUnit)
  | WorkerStep => (do_worker d, OUnit)
  | Drain => let d' := drain (S (length (gcchan d))) d in (d', OPhys (phys (store d')))
  | Scan sn => (d, OItems (do_scan d sn))
  | ItemsCount => (d, OCount (itemsCount d))
  end.

Fixpoint run (d : db) (ops : list op) : db * list out :=
  match ops with
  | [] => (d, [])
  | o :: r => let '(d', x) := step d o in let '(d'', xs) := run d' r in (d'', x :: xs)
  end.

(** ** Visitor (nitro.go:750-842) on a quiescent store, given the pivots GetRangeSplitItems chose.
    A pivot is a physical version (item, bornSn).  Shards are delivered through the iterator
    with the configured refresh rate. *)
Definition pivot := (list N * N)%type.

(** nitro.go:771-784: keep a pivot if Seek(pivot bytes) is valid and it is bigger than the previous
    kept pivot.  [key_only] selects the comparator used for "bigger" and for the range end. *)
Definition pv_cmp (key_only : bool) (a : pivot) (b : pivot) : comparison :=
  match kcmp (fst a) (fst b) with
  | Eq => if key_only then Eq else snd a ?= snd b
  | c => c
  end.

Fixpoint filter_pivots (key_only : bool) (s : list ver) (sn : N) (prev : option pivot) (ps : list pivot) : list pivot :=
  match ps with
  | [] => []
  | p :: r =>
    let it := it_seek s (mkIter sn 0 0 0) (fst p) in
    if it_valid s it &&
       match prev with None => true | Some q => match pv_cmp key_only p q with Gt => true | _ => false end end
    then p :: filter_pivots key_only s sn (Some p) r
    else filter_pivots key_only s sn prev r
  end.

Fixpoint shard_loop (fuel : nat) (key_only : bool) (s : list ver) (it : iter) (endp : option pivot)
         (acc : list (list N)) : list (list N) :=
  match fuel with
  | O => rev acc
  | S f =>
    match it_get s it with
    | Some v =>
      let past := match endp with
                  | None => false
                  | Some e => match pv_cmp key_only (vitem v, vborn v) e with Lt => false | _ => true end
                  end in
      if past then rev acc else shard_loop f key_only s (it_next s it) endp (vitem v :: acc)
    | None => rev acc
    end
  end.

Definition run_shard (key_only : bool) (s : list ver) (sn : N) (rate : Z) (startp endp : option pivot) : list (list N) :=
  let it0 := mkIter sn 0 0 rate in
  let it := match startp with None => it_seek_first s it0 | Some p => it_seek s it0 (fst p) end in
  shard_loop (S (length s)) key_only s it endp [].

Fixpoint shards_of (key_only : bool) (s : list ver) (sn : N) (rate : Z) (startp : option pivot) (ps : list pivot)
  : list (list (list N)) :=
  match ps with
  | [] => [run_shard key_only s sn rate startp None]
  | p :: r => run_shard key_only s sn rate startp (Some p) :: shards_of key_only s sn rate (Some p) r
  end.

Definition visitor (key_only : bool) (s : list ver) (sn : N) (rate : Z) (pivots : list pivot) : list (list (list N)) :=
  shards_of key_only s sn rate None (filter_pivots key_only s sn None pivots).

End Ops.
