(** Proofs of the backup / restore statements (C05) and of the allocation ledger (C07). *)
From NV Require Import Base.Bytes Codec.Frame Codec.FrameProofs Codec.FileImage Codec.FileImageStmts Codec.FileImageProofs
  Mvcc.Store Mvcc.Ops Mvcc.Spec Mvcc.InvDefs Mvcc.Stmts Mvcc.OpsProofs Mvcc.IterProofs Mvcc.RefineStmt Mvcc.Refine
  Mvcc.ViewSorted Mvcc.Backup.
From Coq Require Import ZifyN ZifyNat ZifyBool Sorting.Sorted Sorting.Permutation.
Open Scope N_scope.

Section BackupLemmas.
Variable kcmp : list N -> list N -> comparison.
Hypothesis laws : cmp_laws kcmp.

(** * the restored instance refines the specification started from the loaded content *)
Definition mk0 (e : N * list N) : ver := mkVer (snd e) 0 0 (fst e).

Lemma number_from_fst {A} (l : list A) : forall i e, In e (number_from i l) -> i <= fst e < i + lenN l.
Proof.
  unfold lenN. induction l as [|x l IH]; cbn [number_from In]; intros i e H; [tauto|].
  destruct H as [<-|H]; cbn [fst length]; [lia|]. specialize (IH _ _ H). lia.
Qed.

Lemma number_from_snd {A} (l : list A) : forall i, map snd (number_from i l) = l.
Proof. induction l as [|x l IH]; intro i; cbn; [reflexivity|]. rewrite IH. reflexivity. Qed.

Lemma number_from_length {A} (l : list A) : forall i, length (number_from i l) = length l.
Proof. induction l as [|x l IH]; intro i; cbn; [reflexivity|]. rewrite IH. reflexivity. Qed.

Lemma number_from_nodup {A} (l : list A) : forall i, NoDup (map fst (number_from i l)).
Proof.
  induction l as [|x l IH]; intro i; cbn; constructor; auto.
  intro H. apply in_map_iff in H. destruct H as (e & He & Hin).
  apply number_from_fst in Hin. lia.
Qed.

Lemma restored_live (l : list (N * list N)) : live_entries (map mk0 l) = l.
Proof.
  unfold live_entries. induction l as [|[i a] l IH]; cbn; [reflexivity|].
  f_equal. exact IH.
Qed.

Lemma restored_sorted (l : list (N * list N)) :
  StronglySorted (key_lt kcmp) (map snd l) -> sorted kcmp (map mk0 l).
Proof.
  induction l as [|e l IH]; cbn [map sorted]; intro H; [exact I|].
  inversion H as [|? ? Hs Hf]; subst. split; [|apply IH; exact Hs].
  apply Forall_forall. intros v Hv. apply in_map_iff in Hv. destruct Hv as (e' & <- & He').
  left. cbn. rewrite Forall_forall in Hf. apply Hf. apply in_map. exact He'.
Qed.

Lemma restored_R items : StronglySorted (key_lt kcmp) items ->
  R kcmp 0 (restored_db items) (restored_spec items).
Proof.
  intro Hss. unfold restored_db, restored_spec. fold mk0.
  assert (Hin : forall v, In v (map mk0 (number_from 0 items)) ->
            vborn v = 0 /\ vdead v = 0 /\ vid v < lenN items).
  { intros v Hv. apply in_map_iff in Hv. destruct Hv as (e & <- & He). cbn.
    apply number_from_fst in He. repeat split; lia. }
  constructor; cbn [store currSn writers itemsCount snaps gcsnaps lastGCSn gcchan next_vid removed
                    sp_live sp_next sp_sn sp_count sp_snaps]; try reflexivity.
  - constructor.
    + constructor.
      * apply restored_sorted. rewrite number_from_snd. exact Hss.
      * intros v Hv. destruct (Hin v Hv) as (Hb & _). lia.
      * intros v Hv. destruct (Hin v Hv) as (_ & Hd & _). auto.
      * intros v w Hv Hw _ Hlt. destruct (Hin v Hv) as (Hb & _). destruct (Hin w Hw) as (Hb' & _). lia.
      * rewrite map_map. cbn [mk0 vid]. apply number_from_nodup.
    + lia.
    + intros v Hv. apply Hin; auto.
    + apply restored_live.
  - cbn. rewrite number_from_length. lia.
  - constructor; cbn.
    + constructor.
    + constructor.
    + intros x [].
    + intros x [].
  - constructor; cbn; try tauto; try lia; try (constructor; fail).
    intros v Hv Hd. destruct (Hin v Hv) as (_ & Hd' & _). tauto.
Qed.

Lemma restored_refines_ : stmt_restored_refines kcmp.
Proof.
  intros items ops Hss Hwf.
  apply (run_R kcmp laws ops 0%nat _ _ (restored_R items Hss) Hwf).
Qed.

(** * the allocation ledger *)
Lemma NoDup_app_iff {A} (a b : list A) :
  NoDup (a ++ b) <-> NoDup a /\ NoDup b /\ (forall x, In x a -> ~ In x b).
Proof.
  induction a as [|x a IH]; cbn.
  - split; [intro H; repeat split; auto; constructor|tauto].
  - split.
    + intro H. inversion H as [|? ? Hni Hnd]; subst. apply IH in Hnd. destruct Hnd as (Ha & Hb & Hd).
      rewrite in_app_iff in Hni. repeat split; auto.
      * constructor; auto.
      * intros y [<-|Hy]; auto.
    + intros (Ha & Hb & Hd). inversion Ha as [|? ? Hni Hnd]; subst. constructor.
      * rewrite in_app_iff. intros [H|H]; [auto|]. apply (Hd x); auto.
      * apply IH. repeat split; auto.
Qed.

Definition LL (rem : list N) (st : list ver) (nv : N) : Prop :=
  NoDup (rem ++ map vid st) /\ (forall i, In i (rem ++ map vid st) <-> i < nv).

Definition L (d : db) : Prop := LL (removed d) (store d) (next_vid d).

Lemma LL_perm rem st nv rem' st' :
  Permutation (rem' ++ map vid st') (rem ++ map vid st) -> LL rem st nv -> LL rem' st' nv.
Proof.
  intros HP [H1 H2]. split.
  - eapply Permutation_NoDup; [symmetry; exact HP|exact H1].
  - intro i. rewrite <- H2. split; apply Permutation_in; [exact HP|symmetry; exact HP].
Qed.

Lemma LL_put rem st nv bs c : LL rem st nv -> LL rem (insert_ver kcmp (mkVer bs c 0 nv) st) (nv + 1).
Proof.
  intros [H1 H2].
  assert (HP : Permutation (nv :: rem ++ map vid st) (rem ++ map vid (insert_ver kcmp (mkVer bs c 0 nv) st))).
  { unfold insert_ver. cbn [vitem vborn]. destruct (span _ st) as [l1 l2] eqn:E.
    apply span_spec in E. destruct E as (-> & _).
    rewrite !map_app. cbn [map vid]. rewrite !app_assoc. apply Permutation_middle. }
  split.
  - eapply Permutation_NoDup; [exact HP|]. constructor; auto. rewrite H2. lia.
  - intro i. split.
    + intro Hi. apply (Permutation_in _ (Permutation_sym HP)) in Hi. destruct Hi as [<-|Hi]; [lia|].
      apply H2 in Hi. lia.
    + intro Hi. apply (Permutation_in _ HP). destruct (N.eq_dec nv i) as [e|ne]; [left; auto|right].
      apply H2. lia.
Qed.

Lemma remove_absent i st : ~ In i (map vid st) -> remove_vid i st = st.
Proof.
  unfold remove_vid. induction st as [|a st IH]; cbn; intro H; [reflexivity|].
  destruct (N.eqb_spec (vid a) i) as [e|ne]; [tauto|]. cbn. rewrite IH; tauto.
Qed.

Lemma remove_perm i st : NoDup (map vid st) -> In i (map vid st) ->
  Permutation (i :: map vid (remove_vid i st)) (map vid st).
Proof.
  induction st as [|a st IH]; cbn [map In]; intros Hnd Hin; [tauto|].
  inversion Hnd as [|? ? Hni Hnd']; subst. unfold remove_vid. cbn [filter].
  fold (remove_vid i st).
  destruct (N.eqb_spec (vid a) i) as [e|ne]; cbn [negb].
  - subst i. rewrite remove_absent by auto. reflexivity.
  - destruct Hin as [Hin|Hin]; [tauto|]. cbn [map].
    eapply perm_trans; [apply perm_swap|]. apply perm_skip. apply IH; auto.
Qed.

Lemma find_vid_some_in i st v : find_vid i st = Some v -> In i (map vid st).
Proof.
  intro H. destruct (find_vid_in st i v H) as [Hv <-]. apply in_map. exact Hv.
Qed.

Lemma find_vid_none_notin i st : find_vid i st = None -> ~ In i (map vid st).
Proof.
  intros H Hin. apply in_map_iff in Hin. destruct Hin as (v & Hv & Hin).
  unfold find_vid in H. pose proof (find_none _ _ H v Hin) as Hf. cbn in Hf.
  rewrite Hv, N.eqb_refl in Hf. discriminate.
Qed.

Lemma LL_nodup_store rem st nv : LL rem st nv -> NoDup (map vid st).
Proof. intros [H _]. apply NoDup_app_iff in H. tauto. Qed.

Lemma LL_move rem st nv i v : LL rem st nv -> find_vid i st = Some v ->
  LL (rem ++ [i]) (remove_vid i st) nv.
Proof.
  intros HL Hf. apply (LL_perm rem st); auto.
  rewrite <- app_assoc. cbn [app]. apply Permutation_app_head. apply remove_perm.
  - apply (LL_nodup_store _ _ _ HL).
  - apply (find_vid_some_in _ _ _ Hf).
Qed.

Lemma map_vid_set_dead i c s : map vid (set_dead i c s) = map vid s.
Proof.
  unfold set_dead. rewrite map_map. apply map_ext. intro v. destruct (vid v =? i); reflexivity.
Qed.

Definition present (st : list ver) (i : N) : bool :=
  match find_vid i st with Some _ => true | None => false end.

Lemma LL_worker nv : forall l rem st, NoDup l -> LL rem st nv ->
  LL (rem ++ filter (present st) l) (fold_left (fun s i => remove_vid i s) l st) nv.
Proof.
  induction l as [|i l IH]; intros rem st Hnd HL; cbn [filter fold_left].
  - rewrite app_nil_r. exact HL.
  - inversion Hnd as [|? ? Hni Hnd']; subst.
    assert (Hext : filter (present st) l = filter (present (remove_vid i st)) l).
    { apply filter_ext_in. intros j Hj. unfold present. rewrite find_vid_remove.
      destruct (N.eqb_spec j i) as [e|ne]; [subst; tauto|reflexivity]. }
    unfold present at 1. destruct (find_vid i st) as [v|] eqn:Ef.
    + rewrite Hext. change (rem ++ i :: ?x) with (rem ++ [i] ++ x). rewrite app_assoc.
      apply IH; auto. apply (LL_move _ _ _ _ v); auto.
    + rewrite Hext. apply IH; auto. rewrite remove_absent; auto.
      apply find_vid_none_notin; auto.
Qed.

(** every garbage list names a version at most once *)
Definition Nd (d : db) : Prop :=
  NoDup (wgs (writers d)) /\ (forall s, In s (snaps d) -> NoDup (s_gc s)) /\
  (forall s, In s (gcsnaps d) -> NoDup (s_gc s)) /\ (forall l, In l (gcchan d) -> NoDup l).

Lemma wgs_cons x l : wgs (x :: l) = w_gc x ++ wgs l.
Proof. reflexivity. Qed.

Lemma wgs_upd_add_nodup i (g : writer -> Z) : forall ws w, NoDup (wgs ws) -> ~ In i (wgs ws) ->
  NoDup (wgs (upd_nth w (fun wr => mkWriter (w_gc wr ++ [i]) (g wr)) ws)).
Proof.
  induction ws as [|x l IH]; intros w Hnd Hni; [destruct w; exact Hnd|].
  rewrite wgs_cons in Hnd, Hni. rewrite in_app_iff in Hni.
  destruct w as [|w]; cbn [upd_nth]; rewrite wgs_cons; cbn [w_gc].
  - eapply Permutation_NoDup; [|constructor; [|exact Hnd]].
    + rewrite <- app_assoc. cbn [app]. apply Permutation_middle.
    + rewrite in_app_iff. exact Hni.
  - apply NoDup_app_iff in Hnd. destruct Hnd as (Ha & Hb & Hd).
    apply NoDup_app_iff. split; [exact Ha|]. split; [apply IH; tauto|].
    intros j Hj Hj'. apply wgs_upd_add in Hj'. destruct Hj' as [Hj'|[_ ->]].
    + apply (Hd j); auto.
    + tauto.
Qed.

Lemma wgs_reset_nil (ws : list writer) : wgs (map (fun _ => mkWriter [] 0) ws) = [].
Proof. induction ws as [|x l IH]; cbn; auto. Qed.

Lemma concat_rev_perm {A} (ls : list (list A)) : Permutation (concat (rev ls)) (concat ls).
Proof.
  induction ls as [|l ls IH]; cbn; [constructor|].
  rewrite concat_app. cbn. rewrite app_nil_r.
  eapply perm_trans; [apply Permutation_app_comm|]. apply Permutation_app_head. exact IH.
Qed.

Lemma Nd_collect : forall gcs last chan,
  (forall s, In s gcs -> NoDup (s_gc s)) -> (forall l, In l chan -> NoDup l) ->
  let '(g, l, c) := collect_dead gcs last chan in
  (forall s, In s g -> NoDup (s_gc s)) /\ (forall l, In l c -> NoDup l).
Proof.
  induction gcs as [|s r IH]; intros last chan Hg Hc; cbn [collect_dead].
  - split; auto.
  - destruct (s_sn s =? last + 1).
    + apply IH.
      * intros s0 Hs0. apply Hg. right; auto.
      * intros l Hl. apply in_app_iff in Hl. destruct Hl as [Hl|[<-|[]]]; auto. apply Hg. left; auto.
    + split; auto.
Qed.

Lemma Nd_gc d : Nd d -> Nd (do_gc d).
Proof.
  intros (Hw & Hs & Hg & Hc). unfold do_gc.
  pose proof (Nd_collect (gcsnaps d) (lastGCSn d) (gcchan d) Hg Hc) as H.
  destruct (collect_dead (gcsnaps d) (lastGCSn d) (gcchan d)) as [[g l] c].
  destruct H as [H1 H2]. repeat split; auto.
Qed.

Lemma L_gc d : L d -> L (do_gc d).
Proof.
  unfold do_gc. destruct (collect_dead (gcsnaps d) (lastGCSn d) (gcchan d)) as [[g l] c]. auto.
Qed.

Lemma LN_worker d : L d -> Nd d -> L (do_worker d) /\ Nd (do_worker d).
Proof.
  intros HL (Hw & Hs & Hg & Hc). unfold do_worker. destruct (gcchan d) as [|l r] eqn:Ec.
  - split; auto. repeat split; auto. rewrite Ec. auto.
  - split.
    + unfold L. cbn [removed store next_vid]. apply (LL_worker (next_vid d) l); auto.
      apply Hc. left; auto.
    + repeat split; auto. cbn [gcchan]. intros l0 Hl0. apply Hc. right; auto.
Qed.

Lemma LN_drain : forall fuel d, L d -> Nd d -> L (drain fuel d) /\ Nd (drain fuel d).
Proof.
  induction fuel as [|f IH]; intros d HL HN; cbn [drain]; auto.
  destruct (gcchan d) eqn:Ec; auto. destruct (LN_worker d HL HN) as [HL' HN']. apply IH; auto.
Qed.

Lemma LN_deletenode nw d sp w i : R kcmp nw d sp -> L d -> Nd d ->
  L (fst (do_deletenode d w i)) /\ Nd (fst (do_deletenode d w i)).
Proof.
  intros HR HL HN. unfold do_deletenode.
  destruct (find_vid i (store d)) as [v|] eqn:Ef; [|auto].
  destruct HN as (Hw & Hs & Hg & Hc).
  destruct (vborn v =? currSn d).
  - cbn [fst]. split.
    + unfold L. cbn [removed store next_vid]. apply (LL_move _ _ _ _ v); auto.
    + repeat split; auto. cbn [writers]. rewrite wgs_upd_same by reflexivity. auto.
  - destruct (N.eqb_spec (vdead v) 0) as [Hd|Hd]; [|cbn [fst]; split; [exact HL|repeat split; auto]].
    cbn [fst]. split.
    + unfold L, LL. cbn [removed store next_vid]. rewrite map_vid_set_dead. exact HL.
    + repeat split; auto. cbn [writers].
      apply (wgs_upd_add_nodup i (fun wr => (w_count wr - 1)%Z)); auto.
      intro Hin. destruct (gi_w _ _ _ _ _ _ _ _ (r_g _ _ _ _ HR) i Hin) as [_ Hgp].
      specialize (Hgp v Ef). pose proof (sv_cur _ _ _ _ _ (r_s _ _ _ _ HR)). lia.
Qed.

Definition RL (nw : nat) (d : db) (sp : spec) : Prop := R kcmp nw d sp /\ L d /\ Nd d.

Lemma step_RL nw d sp o : RL nw d sp -> wf_op nw o ->
  RL (nw_next nw o) (fst (step kcmp d o)) (fst (sp_step kcmp sp o)).
Proof.
  intros (HR & HL & HN) Hwf. split; [apply (step_R kcmp laws nw d sp o HR Hwf)|].
  clear Hwf. destruct o; cbn [step].
  - (* Put *)
    unfold do_put. destruct (find_ins kcmp bs (currSn d) (store d)) as [[pred succ] found].
    destruct (found || exist_eq kcmp bs pred); cbn [fst]; [auto|].
    destruct HN as (Hw & Hs & Hg & Hc). split.
    + unfold L. cbn [removed store next_vid]. apply LL_put. exact HL.
    + repeat split; auto. cbn [writers]. rewrite wgs_upd_same by reflexivity. auto.
  - (* Delete *)
    unfold do_delete. destruct (do_getnode kcmp d bs) as [i|]; [|cbn; auto].
    pose proof (LN_deletenode nw d sp w i HR HL HN) as H.
    destruct (do_deletenode d w i) as [d' b]. cbn [fst] in *. exact H.
  - (* GetNode *) cbn; auto.
  - (* DeleteNode *)
    pose proof (LN_deletenode nw d sp w i HR HL HN) as H.
    destruct (do_deletenode d w i) as [d' b]. cbn [fst] in *. exact H.
  - (* NewWriter *)
    cbn [fst]. split; [exact HL|]. destruct HN as (Hw & Hs & Hg & Hc). repeat split; auto.
    unfold set_writers. cbn [writers]. unfold wgs. rewrite map_app, concat_app. cbn.
    rewrite app_nil_r. exact Hw.
  - (* NewSnapshot *)
    unfold do_newsnapshot. cbn [fst]. split; [exact HL|]. destruct HN as (Hw & Hs & Hg & Hc).
    repeat split; auto; cbn [writers snaps].
    + rewrite wgs_reset_nil. constructor.
    + intros s Hs0. apply in_app_iff in Hs0. destruct Hs0 as [Hs0|[<-|[]]]; auto. cbn [s_gc].
      rewrite map_rev. eapply Permutation_NoDup; [symmetry; apply concat_rev_perm|]. exact Hw.
  - (* OpenSnap *)
    rewrite do_open_eq. destruct (find_snap sn (snaps d)) as [s|]; [|cbn; auto].
    destruct (s_ref s =? 0)%Z; cbn [fst]; [auto|]. split; [exact HL|].
    destruct HN as (Hw & Hs & Hg & Hc). repeat split; auto. cbn [snaps].
    intros s0 Hs0. apply in_map_iff in Hs0. destruct Hs0 as (z & <- & Hz). unfold open_m.
    destruct (s_sn z =? sn); cbn; auto.
  - (* CloseSnap *)
    cbn [fst]. rewrite do_close_eq. destruct (find_snap sn (snaps d)) as [s|] eqn:Ef; [|auto].
    destruct HN as (Hw & Hs & Hg & Hc).
    unfold find_snap in Ef. apply find_some in Ef. destruct Ef as [Hsin _].
    destruct (s_ref s - 1 =? 0)%Z.
    + split; [apply L_gc; exact HL|]. apply Nd_gc. repeat split; auto; cbn [snaps gcsnaps].
      * intros s0 Hs0. apply filter_In in Hs0. apply Hs; tauto.
      * intros s0 Hs0. apply In_insert_snap in Hs0. destruct Hs0 as [->|Hs0]; auto. cbn. auto.
    + split; [exact HL|]. repeat split; auto. cbn [snaps].
      intros s0 Hs0. apply in_map_iff in Hs0. destruct Hs0 as (z & <- & Hz). unfold close_m.
      destruct (s_sn z =? sn); cbn; auto.
  - (* GC *) cbn [fst]. split; [apply L_gc; auto|apply Nd_gc; auto].
  - (* WorkerStep *) cbn [fst]. apply LN_worker; auto.
  - (* Drain *) cbn [fst]. apply LN_drain; auto.
  - (* Scan *) cbn; auto.
  - (* ItemsCount *) cbn; auto.
Qed.

Lemma run_RL : forall ops nw d sp, RL nw d sp -> wf_from nw ops ->
  exists nw', RL nw' (fst (run kcmp d ops)) (fst (sp_run kcmp sp ops)).
Proof.
  induction ops as [|o r IH]; intros nw d sp HR Hwf.
  - cbn. eauto.
  - apply wf_from_cons in Hwf. destruct Hwf as [Hop Hr].
    pose proof (step_RL nw d sp o HR Hop) as HR'.
    cbn [run sp_run].
    destruct (step kcmp d o) as [d' x]. destruct (sp_step kcmp sp o) as [sp' y].
    cbn [fst] in HR'. specialize (IH _ _ _ HR' Hr).
    destruct (run kcmp d' r) as [d'' xs]. destruct (sp_run kcmp sp' r) as [sp'' ys].
    cbn [fst] in *. exact IH.
Qed.

Lemma RL_init : RL 0 db_init spec_init.
Proof.
  split; [apply R_init|]. split.
  - split; cbn; [constructor|]. intro i. split; [tauto|lia].
  - repeat split; cbn; try tauto. constructor.
Qed.

Lemma ledger_ : stmt_ledger kcmp.
Proof.
  intros ops Hwf d.
  destruct (run_RL ops 0%nat db_init spec_init RL_init Hwf) as (nw' & _ & HL & _).
  exact HL.
Qed.

End BackupLemmas.

Section BackupProofs.
Variable kcmp : list N -> list N -> comparison.
Hypothesis laws : cmp_laws kcmp.
Variable crc : list N -> N.

(** * nothing pending after the last Close + GC + drain *)
Theorem all_closed_clean : stmt_all_closed_clean kcmp.
Proof.
  intros ops Hwf d Hs v Hv.
  destruct (gc_complete kcmp laws ops Hwf) as [_ H]. fold d in H.
  destruct (H v Hv) as [H0|[H0|(s & Hin & _)]]; auto.
  rewrite Hs in Hin. destruct Hin.
Qed.

(** * backup then restore *)
Lemma Forall_concat_inv {A} (P : A -> Prop) (ls : list (list A)) :
  Forall P (concat ls) -> Forall (Forall P) ls.
Proof.
  induction ls as [|l ls IH]; cbn; intro H; constructor.
  - apply Forall_forall. intros x Hx. rewrite Forall_forall in H. apply H. apply in_app_iff; auto.
  - apply IH. apply Forall_forall. intros x Hx. rewrite Forall_forall in H. apply H. apply in_app_iff; auto.
Qed.

Theorem backup_restore_exact : stmt_backup_restore_exact kcmp crc.
Proof.
  intros ops Hwf d sp x rate pivots Hx Hpos Hrate Hgood.
  pose proof (reachable_inv kcmp laws ops Hwf) as Hinv. cbv zeta in Hinv. fold d in Hinv.
  pose proof (gc_precision kcmp laws ops Hwf x Hx Hpos) as Hview. fold d in Hview.
  pose proof (visitor_partition kcmp laws (currSn d) (store d) (ss_sn x) rate pivots Hinv Hrate) as Hpart.
  unfold backup_image. rewrite (load_intact crc).
  - rewrite Hpart, Hview. reflexivity.
  - unfold good_shards. apply Forall_concat_inv. rewrite Hpart, Hview. exact Hgood.
Qed.

Theorem restored_refines : stmt_restored_refines kcmp.
Proof. exact (restored_refines_ kcmp laws). Qed.

Theorem ledger : stmt_ledger kcmp.
Proof. exact (ledger_ kcmp laws). Qed.

End BackupProofs.

Print Assumptions all_closed_clean.
Print Assumptions backup_restore_exact.
Print Assumptions restored_refines.
Print Assumptions ledger.
