(** Backup / restore of a snapshot (C05) and the allocation ledger (C07), on the MVCC model. *)
From NV Require Import Base.Bytes Codec.Frame Codec.FileImage Mvcc.Store Mvcc.Ops Mvcc.Spec Mvcc.InvDefs Mvcc.Stmts
  Mvcc.RefineStmt Mvcc.ViewSorted.
From Coq Require Import Sorting.Sorted.
Open Scope N_scope.

Fixpoint number_from {A} (i : N) (l : list A) : list (N * A) :=
  match l with
  | [] => []
  | x :: r => (i, x) :: number_from (i + 1) r
  end.

(** LoadFromDisk (nitro.go): the assembled store holds the loaded items (bornSn = deadSn = 0, node ids
    in load order), itemsCount := node count; the caller then gets NewSnapshot() of it. *)
Definition restored_db (items : list (list N)) : db :=
  mkDb (map (fun e => mkVer (snd e) 0 0 (fst e)) (number_from 0 items)) 1 [] (Z.of_nat (length items))
       [] [] 0 [] (lenN items) [].

Definition restored_spec (items : list (list N)) : spec :=
  mkSpec (number_from 0 items) (lenN items) 1 (Z.of_nat (length items)) [].

Section Backup.
Variable kcmp : list N -> list N -> comparison.
Variable crc : list N -> N.

(** StoreToDisk writes shard k = the k-th shard output of the visitor (any pivots) *)
Definition backup_image (s : list ver) (sn : N) (rate : Z) (pivots : list pivot) : image :=
  stored_image crc (visitor kcmp true s sn rate pivots).

Definition items_good (l : list (list N)) : Prop := Forall (fun bs => 0 < lenN bs < 4294967296) l.

(** C05: whatever snapshot of whatever reachable state is backed up with whatever pivots, loading the
    written directory yields exactly the snapshot's frozen content *)
Definition stmt_backup_restore_exact : Prop :=
  forall ops, wf_from 0 ops ->
    let d := fst (run kcmp db_init ops) in
    let sp := fst (sp_run kcmp spec_init ops) in
    forall x rate pivots, In x (sp_snaps sp) -> (0 < ss_ref x)%Z -> (0 <= rate)%Z ->
      items_good (ss_items x) ->
      load_data crc (backup_image (store d) (ss_sn x) rate pivots) = LOk (ss_items x).

(** ... and the restored instance continues to refine the specification started from that content:
    every later history (beginning with the NewSnapshot that LoadFromDisk itself performs) has the
    specification's observables *)
Definition stmt_restored_refines : Prop :=
  forall items ops, StronglySorted (key_lt kcmp) items -> wf_from 0 ops ->
    map proj (snd (run kcmp (restored_db items) ops)) =
    map proj (snd (sp_run kcmp (restored_spec items) ops)).

(** C07 ledger: every node ever allocated for a successful Put (ids 0 .. next_vid-1) is, in every
    reachable state, either still linked in the store or was handed to reclamation exactly once; never
    both, never twice.  (Close then frees each linked node once; the barrier theorems C16/C17 say every
    handed-over object is destructed exactly once.) *)
Definition stmt_ledger : Prop :=
  forall ops, wf_from 0 ops ->
    let d := fst (run kcmp db_init ops) in
    NoDup (removed d ++ map vid (store d)) /\
    (forall i, In i (removed d ++ map vid (store d)) <-> i < next_vid d).

(** nothing is pending after the last Close + GC + drain when no snapshot is open and the writers'
    current-epoch garbage has been stitched into a (closed) snapshot: only live versions remain *)
Definition stmt_all_closed_clean : Prop :=
  forall ops, wf_from 0 ops ->
    let d := fst (run kcmp db_init (ops ++ [GC; Drain])) in
    snaps d = [] -> (forall v, In v (store d) -> vdead v = 0 \/ vdead v = currSn d).

End Backup.
