(** StoreToDisk with delta interleaving on a MOVING store (C05): the backed-up snapshot is closed at
    the start (nitro.go: snap.Close(); fakeSnap), so garbage collection may remove versions that are
    visible to it while the scan is running.  A collection worker in delta mode writes such a version
    to the delta file before unlinking it (doDeltaWrite: bornSn <= sn < deadSn).  The scan goes through
    an iterator that survives the removal of the node it stands on (skiplist.Iterator.Next re-searches
    and lands on the first node not before it).  LoadFromDisk loads the data files and then Puts the
    delta items (duplicates rejected). *)
From Coq Require Import List NArith ZArith Bool.
From NV Require Import Base.Bytes Mvcc.Store Mvcc.Ops Mvcc.Live.
Import ListNotations.
Open Scope N_scope.

(** the node the moving iterator stands on: item, bornSn, identity *)
Record diter := mkDIter { di_sn : N; di_cur : option (list N * N * N); di_count : Z; di_rate : Z }.

Section Delta.
Variable kcmp : list N -> list N -> comparison.

(** what a collection worker in delta mode writes for garbage list l: the items of the versions that are
    visible to sn, looked up immediately before they are unlinked *)
Definition visible_items_of (sn : N) (s : list ver) (l : list N) : list (list N) :=
  concat (map (fun i => match find_vid i s with
                        | Some v => if visible sn v then [vitem v] else []
                        | None => []
                        end) l).

Fixpoint drain_delta (fuel : nat) (sn : N) (d : db) : list (list N) :=
  match fuel with
  | O => []
  | S f => match gcchan d with
           | [] => []
           | l :: _ => visible_items_of sn (store d) l ++ drain_delta f sn (do_worker d)
           end
  end.

Definition delta_of_step (sn : N) (d : db) (o : op) : list (list N) :=
  match o with
  | WorkerStep => match gcchan d with [] => [] | l :: _ => visible_items_of sn (store d) l end
  | Drain => drain_delta (S (length (gcchan d))) sn d
  | _ => []
  end.

(** run operations while the delta mode is active for snapshot sn: outputs and delta writes *)
Fixpoint drun (sn : N) (d : db) (ops : list op) : db * list out * list (list N) :=
  match ops with
  | [] => (d, [], [])
  | o :: r =>
    let dl := delta_of_step sn d o in
    let '(d', x) := step kcmp d o in
    let '(d'', xs, dl') := drun sn d' r in (d'', x :: xs, dl ++ dl')
  end.

(** locate the iterator's node in the current store: its index if it is still there; otherwise the
    index of the first version that is not before it in the insert order (where findPath lands) *)
Definition d_locate (s : list ver) (c : list N * N * N) : nat * bool :=
  let '(bs, born, i) := c in
  match find_vid i s with
  | Some _ => (index_of_vid i s, true)
  | None => (ins_pos kcmp s bs born, false)
  end.

Definition d_of_iter (s : list ver) (it : iter) : diter :=
  mkDIter (it_sn it) (option_map (fun v => (vitem v, vborn v, vid v)) (it_get s it)) (it_count it) (it_rate it).

(** iterator.go Next after the store iterator has landed on index p: count, visibility filter, refresh *)
Definition it_land (s : list ver) (it : iter) (p : nat) : iter :=
  let it1 := it_skip s (mkIter (it_sn it) p (it_count it + 1)%Z (it_rate it)) in
  if ((0 <? it_rate it1) && (it_rate it1 <? it_count it1))%Z
  then let it2 := it_refresh kcmp s it1 in mkIter (it_sn it2) (it_pos it2) 0 (it_rate it2)
  else it1.

Definition d_next (s : list ver) (di : diter) : diter :=
  match di_cur di with
  | None => di
  | Some c =>
    let '(p, here) := d_locate s c in
    let it := mkIter (di_sn di) p (di_count di) (di_rate di) in
    d_of_iter s (it_land s it (if here then S p else p))
  end.

Definition d_seek_first (s : list ver) (sn : N) (rate : Z) : diter :=
  d_of_iter s (it_seek_first s (mkIter sn 0 0 rate)).
Definition d_seek (s : list ver) (sn : N) (rate : Z) (bs : list N) : diter :=
  d_of_iter s (it_seek kcmp s (mkIter sn 0 0 rate) bs).

(** one shard of the Visitor: after each delivered item the next segment of other goroutines'
    operations runs (in delta mode), then Next on the store as it is then.  Stops when the iterator is
    exhausted or reaches the end pivot (finished = true) or when the segments run out (false). *)
Fixpoint dshard_loop (key_only : bool) (sn : N) (d : db) (di : diter) (endp : option pivot)
         (segs : list (list op)) (acc : list (list N)) (dl : list (list N)) {struct segs}
  : list (list N) * db * list (list op) * list (list N) * bool :=
  let stop := match di_cur di with
              | None => true
              | Some (bs, born, _) =>
                match endp with
                | None => false
                | Some e => match pv_cmp kcmp key_only (bs, born) e with Lt => false | _ => true end
                end
              end in
  if stop then (rev acc, d, segs, dl, true)
  else match segs with
       | [] => (rev acc, d, [], dl, false)
       | seg :: r =>
         let '(d', _, dl') := drun sn d seg in
         let item := match di_cur di with Some (bs, _, _) => bs | None => [] end in
         dshard_loop key_only sn d' (d_next (store d') di) endp r (item :: acc) (dl ++ dl')
       end.

Definition dshard (key_only : bool) (sn : N) (rate : Z) (d : db) (startp endp : option pivot)
           (segs : list (list op)) (dl : list (list N)) :=
  let di := match startp with
            | None => d_seek_first (store d) sn rate
            | Some p => d_seek (store d) sn rate (fst p)
            end in
  dshard_loop key_only sn d di endp segs [] dl.

Fixpoint dshards (key_only : bool) (sn : N) (rate : Z) (d : db) (startp : option pivot) (ps : list pivot)
         (segs : list (list op)) (dl : list (list N))
  : list (list (list N)) * db * list (list op) * list (list N) * bool :=
  match ps with
  | [] =>
    let '(items, d', segs', dl', fin) := dshard key_only sn rate d startp None segs dl in
    ([items], d', segs', dl', fin)
  | p :: r =>
    let '(items, d', segs', dl', fin) := dshard key_only sn rate d startp (Some p) segs dl in
    if fin then
      let '(rest, d'', segs'', dl'', fin') := dshards key_only sn rate d' (Some p) r segs' dl' in
      (items :: rest, d'', segs'', dl'', fin')
    else ([items], d', segs', dl', false)
  end.

(** the backup: [seg0] runs in delta mode before the scan starts (it begins with the Close of the
    handle given to StoreToDisk), the pivots are filtered on the store as it is then, the shards are
    scanned one after the other with the remaining segments between the items.  Result: shard contents,
    final state, unused segments, delta items, finished. *)
Definition dbackup (key_only : bool) (d : db) (sn : N) (rate : Z) (pivots : list pivot)
           (seg0 : list op) (segs : list (list op)) :=
  let '(d1, _, dl0) := drun sn d seg0 in
  dshards key_only sn rate d1 None (filter_pivots kcmp key_only (store d1) sn None pivots) segs dl0.

End Delta.
