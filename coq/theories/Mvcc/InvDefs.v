(** Shared definitions for the MVCC proofs: comparator laws, version order, store invariant. *)
From NV Require Import Base.Bytes Mvcc.Store Mvcc.Ops.
Open Scope N_scope.

(** A key comparator is a total preorder given as a three-way comparison. *)
Record cmp_laws (kcmp : list N -> list N -> comparison) : Prop := {
  kc_antisym : forall a b, kcmp b a = CompOpp (kcmp a b);
  kc_trans : forall a b c, kcmp a b = Lt -> kcmp b c = Lt -> kcmp a c = Lt;
  kc_eq_l : forall a b c, kcmp a b = Eq -> kcmp a c = kcmp b c
}.

Section Defs.
Variable kcmp : list N -> list N -> comparison.

(** [v] sorts strictly before [w] under the insert comparator (key, then bornSn) *)
Definition vlt (v w : ver) : Prop :=
  kcmp (vitem v) (vitem w) = Lt \/ (kcmp (vitem v) (vitem w) = Eq /\ vborn v < vborn w).

Fixpoint sorted (s : list ver) : Prop :=
  match s with
  | [] => True
  | v :: r => Forall (vlt v) r /\ sorted r
  end.

(** the store invariant at snapshot number [cur] *)
Record store_inv (cur : N) (s : list ver) : Prop := {
  si_sorted : sorted s;
  si_born : forall v, In v s -> vborn v <= cur;
  si_dead : forall v, In v s -> vdead v = 0 \/ (vborn v < vdead v /\ vdead v <= cur);
  (* an older version of a key is dead before the next one is born *)
  si_succ : forall v w, In v s -> In w s -> kcmp (vitem v) (vitem w) = Eq -> vborn v < vborn w ->
            vdead v <> 0 /\ vdead v <= vborn w;
  si_vids : NoDup (map vid s)
}.

End Defs.
