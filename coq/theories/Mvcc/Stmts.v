(** Statements of the lemmas about the MVCC model, as Props, so that the files proving them and the
    file assembling them agree on the exact wording.  Nothing is assumed here: every statement
    below is proved in OpsProofs.v / IterProofs.v and only then used. *)
From NV Require Import Base.Bytes Mvcc.Store Mvcc.Ops Mvcc.Spec Mvcc.InvDefs.
Open Scope N_scope.

Definition live_entries (s : list ver) : list (N * list N) :=
  map (fun v => (vid v, vitem v)) (filter alive s).

Section Stmts.
Variable kcmp : list N -> list N -> comparison.

Definition has_live (bs : list N) (s : list ver) : bool :=
  existsb (fun v => alive v && keq kcmp bs (vitem v)) s.
Definition find_live (bs : list N) (s : list ver) : option ver :=
  find (fun v => alive v && keq kcmp bs (vitem v)) s.

(** ** Put / GetNode *)
Definition stmt_put_rejects_iff_live : Prop :=
  forall cur s bs, store_inv kcmp cur s ->
    (let '(pred, succ, found) := find_ins kcmp bs cur s in found || exist_eq kcmp bs pred) = has_live bs s.

Definition stmt_getnode_spec : Prop :=
  forall cur s bs, store_inv kcmp cur s ->
    (let '(pred, succ, found) := find_ins kcmp bs cur s in
     if found then option_map vid succ
     else if exist_eq kcmp bs pred then option_map vid pred else None)
    = option_map vid (find_live bs s).

Definition stmt_find_live_entries : Prop :=
  forall s bs, option_map (fun v => (vid v, vitem v)) (find_live bs s) = sp_find kcmp bs (live_entries s).

(** ** insertion of a new version born in the current epoch *)
Definition stmt_insert_inv : Prop :=
  forall cur s bs i, store_inv kcmp cur s -> has_live bs s = false ->
    (forall v, In v s -> vid v <> i) ->
    store_inv kcmp cur (insert_ver kcmp (mkVer bs cur 0 i) s).

Definition stmt_insert_live : Prop :=
  forall cur s bs i, store_inv kcmp cur s -> has_live bs s = false ->
    live_entries (insert_ver kcmp (mkVer bs cur 0 i) s) = sp_insert kcmp (i, bs) (live_entries s).

Definition stmt_insert_view : Prop :=
  forall s x sn, sn < vborn x -> view sn (insert_ver kcmp x s) = view sn s.

Definition stmt_insert_members : Prop :=
  forall s x v, In v (insert_ver kcmp x s) <-> (v = x \/ In v s).

(** ** logical deletion (deadSn := current epoch) *)
Definition stmt_set_dead_inv : Prop :=
  forall cur s i v, store_inv kcmp cur s -> find_vid i s = Some v -> vdead v = 0 -> vborn v < cur ->
    store_inv kcmp cur (set_dead i cur s).

Definition stmt_set_dead_live : Prop :=
  forall cur s i v, store_inv kcmp cur s -> find_vid i s = Some v -> vdead v = 0 -> vborn v < cur ->
    live_entries (set_dead i cur s) = sp_remove i (live_entries s).

Definition stmt_set_dead_view : Prop :=
  forall cur s i v sn, store_inv kcmp cur s -> sn < cur -> find_vid i s = Some v -> vdead v = 0 ->
    view sn (set_dead i cur s) = view sn s.

(** ** physical removal *)
Definition stmt_remove_inv : Prop :=
  forall cur s i, store_inv kcmp cur s -> store_inv kcmp cur (remove_vid i s).

Definition stmt_remove_live : Prop :=
  forall s i, live_entries (remove_vid i s) = sp_remove i (live_entries s).

Definition stmt_remove_view : Prop :=
  forall s i sn, (forall v, In v s -> vid v = i -> visible sn v = false) ->
    view sn (remove_vid i s) = view sn s.

Definition stmt_inv_mono : Prop :=
  forall cur s, store_inv kcmp cur s -> store_inv kcmp (cur + 1) s.

Definition stmt_find_vid_in : Prop :=
  forall s i v, find_vid i s = Some v -> In v s /\ vid v = i.

Definition stmt_find_vid_nodup : Prop :=
  forall s v, NoDup (map vid s) -> In v s -> find_vid (vid v) s = Some v.

Definition stmt_sp_has_live : Prop :=
  forall s h, NoDup (map vid s) ->
    sp_has h (live_entries s) = match find_vid h s with Some v => alive v | None => false end.

(** ** iterator *)
Definition stmt_scan_is_view : Prop :=
  forall s sn, scan_with_rate kcmp s sn 0 = view sn s.

(** a refresh on a visible position does not move the iterator (any invisible versions of the
    same key physically present before it are skipped again) *)
Definition stmt_refresh_pos : Prop :=
  forall cur s it v, store_inv kcmp cur s -> it_get s it = Some v -> visible (it_sn it) v = true ->
    it_pos (it_refresh kcmp s it) = it_pos it.

Definition stmt_scan_any_rate : Prop :=
  forall cur s sn rate, store_inv kcmp cur s -> (0 <= rate)%Z -> scan_with_rate kcmp s sn rate = view sn s.

(** Seek(bs) stands on the first version, in store order, that is visible and whose key is >= bs;
    Valid is false iff there is none *)
Definition stmt_seek_exact : Prop :=
  forall cur s sn p c r bs, store_inv kcmp cur s ->
    it_get s (it_seek kcmp s (mkIter sn p c r) bs) =
    find (fun v => visible sn v && negb (before_key kcmp bs v)) s.

Definition stmt_seek_first_exact : Prop :=
  forall s sn p c r, it_get s (it_seek_first s (mkIter sn p c r)) = find (visible sn) s.

(** Next (without automatic refresh) moves to the next visible version after the current position *)
Definition stmt_next_exact : Prop :=
  forall s it, it_rate it = 0%Z ->
    it_get s (it_next kcmp s it) = find (visible (it_sn it)) (skipn (S (it_pos it)) s).

(** ** visitor: for ANY list of pivots, with the key-only comparator, the concatenation of the shard
    outputs is exactly the snapshot's view *)
Definition stmt_visitor_partition : Prop :=
  forall cur s sn rate pivots, store_inv kcmp cur s -> (0 <= rate)%Z ->
    concat (visitor kcmp true s sn rate pivots) = view sn s.

End Stmts.
