(** C05 with delta interleaving on a MOVING store: proofs of the statements of DeltaStmts.v.

    Method.  [K0 = visk sn (store d0)] is the list of (vid, item, bornSn) of the versions visible to the
    backed-up snapshot when the backup starts.  [Rel sn dref d dl] relates a reference state, a later
    state and the delta items written in between: every version of the later store is an old one (same
    vid, item, bornSn, same visibility for sn) or a new one (fresh vid, invisible to sn); every version
    visible to sn in the reference store is still visible in the later store or its item is in dl; dl
    holds nothing else.  Every operation run through [drun] establishes it (step_Rel); it is
    transitive.  The scan: [Pos] says that every element of K0 whose key is below the key of the node
    the moving iterator stands on has been delivered or is in the delta, and that everything delivered
    is below that key.  One Next on the store as it is after a segment re-establishes it (land_pos),
    whether the node is still there or not, by the static iterator lemmas of IterProofs.v applied to the
    store of that moment.  Both statements hold as written; the hypothesis [0 <= rate] is not needed
    (a refresh on a visible position does not move the iterator, IterProofs.refresh_pos), and neither
    is any hypothesis on the items.  An item may be in a data shard AND in the delta (its version was
    collected after the scan delivered it); the restore theorem does not depend on that, nor on the
    order of the delta items or on duplicates among them. *)
From Coq Require Import List NArith ZArith Bool Lia Sorting.Sorted.
From NV Require Import Base.Bytes Codec.Frame Mvcc.Store Mvcc.Ops Mvcc.Spec Mvcc.InvDefs Mvcc.Stmts
  Mvcc.OpsProofs Mvcc.IterProofs Mvcc.RefineStmt Mvcc.Refine Mvcc.ViewSorted Mvcc.Backup Mvcc.BackupProofs
  Mvcc.Live Mvcc.LiveStmts Mvcc.LiveProofs Mvcc.Delta Mvcc.DeltaStmts Mvcc.CmpInst.
From Coq Require Import ZifyN ZifyNat ZifyBool.
Import ListNotations.
Open Scope N_scope.

(** * old-or-new versions, kept-or-recorded versions *)
Definition old_or_new (sn : N) (dref d : db) : Prop :=
  forall v', In v' (store d) ->
    (exists v, In v (store dref) /\ vid v = vid v' /\ vitem v = vitem v' /\ vborn v = vborn v' /\
               visible sn v = visible sn v') \/
    (next_vid dref <= vid v' /\ visible sn v' = false).

Record Rel (sn : N) (dref d : db) (dl : list (list N)) : Prop := {
  rl_nv : next_vid dref <= next_vid d;
  rl_old : old_or_new sn dref d;
  rl_keep : forall x, In x (visk sn (store dref)) -> In x (visk sn (store d)) \/ In (kitem x) dl;
  rl_dl : forall y, In y dl -> exists x, In x (visk sn (store dref)) /\ kitem x = y }.

Lemma old_refl sn d : old_or_new sn d d.
Proof. intros v Hv. left. exists v. repeat split; auto. Qed.

Lemma Rel_refl sn d : Rel sn d d [].
Proof.
  constructor; [lia|apply old_refl|auto|intros y []].
Qed.

Lemma Rel_back sn dref d dl x : Rel sn dref d dl -> In x (visk sn (store d)) -> In x (visk sn (store dref)).
Proof.
  intros HR Hx. apply visk_in in Hx. destruct Hx as (v' & <- & Hv' & V').
  destruct (rl_old _ _ _ _ HR v' Hv') as [(v & Hv & E1 & E2 & E3 & E4)|[_ Hf]]; [|congruence].
  apply visk_in. exists v. split; [unfold vkey; congruence|]. split; [exact Hv|congruence].
Qed.

Lemma Rel_trans sn a b c dl1 dl2 : Rel sn a b dl1 -> Rel sn b c dl2 -> Rel sn a c (dl1 ++ dl2).
Proof.
  intros H1 H2. constructor.
  - pose proof (rl_nv _ _ _ _ H1). pose proof (rl_nv _ _ _ _ H2). lia.
  - intros v'' Hv''. destruct (rl_old _ _ _ _ H2 v'' Hv'') as [(v' & Hv' & E1 & E2 & E3 & E4)|[Hn Hf]].
    + destruct (rl_old _ _ _ _ H1 v' Hv') as [(v & Hv & F1 & F2 & F3 & F4)|[Hn Hf]].
      * left. exists v. repeat split; congruence.
      * right. split; [rewrite <- E1; exact Hn|congruence].
    + right. split; [|exact Hf]. pose proof (rl_nv _ _ _ _ H1). lia.
  - intros x Hx. destruct (rl_keep _ _ _ _ H1 x Hx) as [Hb|Hd]; [|right; apply in_app_iff; auto].
    destruct (rl_keep _ _ _ _ H2 x Hb) as [Hc|Hd]; [left; exact Hc|right; apply in_app_iff; auto].
  - intros y Hy. apply in_app_iff in Hy. destruct Hy as [Hy|Hy].
    + apply (rl_dl _ _ _ _ H1 y Hy).
    + destruct (rl_dl _ _ _ _ H2 y Hy) as (x & Hx & E). exists x. split; [|exact E].
      apply (Rel_back sn a b dl1 x H1 Hx).
Qed.

Lemma Rel_visk_eq sn d d' : next_vid d <= next_vid d' -> old_or_new sn d d' ->
  visk sn (store d') = visk sn (store d) -> Rel sn d d' [].
Proof.
  intros Hn Ho Hk. constructor; [exact Hn|exact Ho| |intros y []].
  intros x Hx. left. rewrite Hk. exact Hx.
Qed.

Lemma Rel_same sn d d' : store d' = store d -> next_vid d' = next_vid d -> Rel sn d d' [].
Proof.
  intros Hs Hn. apply Rel_visk_eq; [lia| |rewrite Hs; reflexivity].
  intros v Hv. rewrite Hs in Hv. left. exists v. repeat split; auto.
Qed.

(** * the collection worker in delta mode *)
Lemma fold_remove_in v : forall l s,
  In v (fold_left (fun s i => remove_vid i s) l s) <-> In v s /\ ~ In (vid v) l.
Proof.
  induction l as [|i l IH]; intros s; cbn [fold_left In]; [tauto|].
  rewrite IH. unfold remove_vid. rewrite filter_In, negb_true_iff, N.eqb_neq. intuition congruence.
Qed.

Lemma visible_items_in sn s l y :
  In y (visible_items_of sn s l) <->
  exists i v, In i l /\ find_vid i s = Some v /\ visible sn v = true /\ y = vitem v.
Proof.
  unfold visible_items_of. rewrite in_concat. split.
  - intros (z & Hz & Hy). apply in_map_iff in Hz. destruct Hz as (i & <- & Hi).
    destruct (find_vid i s) as [v|] eqn:Ef; [|destruct Hy].
    destruct (visible sn v) eqn:V; [|destruct Hy]. destruct Hy as [<-|[]].
    exists i, v. auto.
  - intros (i & v & Hi & Ef & V & ->). eexists. split.
    + apply in_map_iff. exists i. split; [reflexivity|exact Hi].
    + rewrite Ef, V. left. reflexivity.
Qed.

Lemma worker_Rel sn d : NoDup (map vid (store d)) ->
  Rel sn d (do_worker d) (match gcchan d with [] => [] | l :: _ => visible_items_of sn (store d) l end).
Proof.
  intros Hnd. unfold do_worker. destruct (gcchan d) as [|l r]; [apply Rel_refl|].
  constructor; cbn [store next_vid].
  - lia.
  - intros v Hv. apply fold_remove_in in Hv. left. exists v. repeat split; tauto.
  - intros x Hx. apply visk_in in Hx. destruct Hx as (v & <- & Hv & V).
    destruct (in_dec N.eq_dec (vid v) l) as [Hin|Hni].
    + right. apply visible_items_in. exists (vid v), v.
      split; [exact Hin|]. split; [apply find_vid_nodup; assumption|]. split; [exact V|reflexivity].
    + left. apply visk_in. exists v. split; [reflexivity|]. split; [|exact V].
      apply fold_remove_in. tauto.
  - intros y Hy. apply visible_items_in in Hy. destruct Hy as (i & v & Hi & Ef & V & ->).
    destruct (find_vid_in _ _ _ Ef) as [Hv _]. exists (vkey v). split; [|reflexivity].
    apply visk_in. exists v. auto.
Qed.

Lemma visible_set_dead sn c u : vdead u = 0 -> sn < c ->
  visible sn (mkVer (vitem u) (vborn u) c (vid u)) = visible sn u.
Proof.
  intros Hd Hc. unfold visible. cbn [vborn vdead]. rewrite Hd.
  destruct (N.ltb_spec 0 c); destruct (N.leb_spec c sn); destruct (N.ltb_spec 0 0); try lia;
    cbn [andb]; reflexivity.
Qed.

Section DeltaProofs.
Variable kcmp : list N -> list N -> comparison.
Hypothesis laws : cmp_laws kcmp.

Ltac dsimpl := cbn [store currSn writers itemsCount snaps gcsnaps lastGCSn gcchan next_vid removed fst snd].

(** * every operation establishes Rel *)
Lemma put_Rel sn d w bs : sn < currSn d -> Rel sn d (fst (do_put kcmp d w bs)) [].
Proof.
  intros Hlt. apply Rel_visk_eq; [| |apply put_visk; exact Hlt]; unfold do_put;
    destruct (find_ins kcmp bs (currSn d) (store d)) as [[p s] f];
    destruct (f || exist_eq kcmp bs p); dsimpl; try lia; try apply old_refl.
  intros v Hv. apply (insert_members kcmp) in Hv. destruct Hv as [->|Hv].
  - right. cbn [vid]. split; [lia|]. apply invisible_born. cbn [vborn]. exact Hlt.
  - left. exists v. repeat split; auto.
Qed.

Lemma deletenode_Rel sn d w i : NoDup (map vid (store d)) -> sn < currSn d ->
  Rel sn d (fst (do_deletenode d w i)) [].
Proof.
  intros Hnd Hlt.
  assert (H : next_vid d <= next_vid (fst (do_deletenode d w i)) /\ old_or_new sn d (fst (do_deletenode d w i))).
  { unfold do_deletenode. destruct (find_vid i (store d)) as [v|] eqn:Ef; [|split; [dsimpl; lia|apply old_refl]].
    destruct (vborn v =? currSn d).
    - dsimpl. split; [lia|].
      intros u Hu. unfold remove_vid in Hu. apply filter_In in Hu. left. exists u. repeat split; tauto.
    - destruct (vdead v =? 0) eqn:Ed; [|split; [dsimpl; lia|apply old_refl]].
      dsimpl. split; [lia|].
      destruct (find_vid_in _ _ _ Ef) as [Hv Hvi]. apply N.eqb_eq in Ed.
      intros u' Hu'. unfold set_dead in Hu'. apply in_map_iff in Hu'. destruct Hu' as (u & <- & Hu).
      left. exists u. split; [exact Hu|].
      destruct (N.eqb_spec (vid u) i) as [e|ne]; [|repeat split; reflexivity].
      assert (u = v) by (apply (vid_inj (store d)); auto; congruence). subst u.
      cbn [vid vitem vborn]. repeat split. symmetry. apply visible_set_dead; assumption. }
  destruct H as [H1 H2]. apply Rel_visk_eq; [exact H1|exact H2|apply deletenode_visk; assumption].
Qed.

Lemma delete_Rel sn d w bs : NoDup (map vid (store d)) -> sn < currSn d ->
  Rel sn d (fst (do_delete kcmp d w bs)) [].
Proof.
  intros Hnd Hlt. unfold do_delete. destruct (do_getnode kcmp d bs) as [i|]; [|apply Rel_refl].
  pose proof (deletenode_Rel sn d w i Hnd Hlt) as H. destruct (do_deletenode d w i) as [d' b]. exact H.
Qed.

Lemma drain_Rel sn nw sp : forall fuel d, R kcmp nw d sp ->
  Rel sn d (drain fuel d) (drain_delta fuel sn d).
Proof.
  induction fuel as [|f IH]; intros d HR; cbn [drain drain_delta]; [apply Rel_refl|].
  pose proof (worker_Rel sn d (si_vids _ _ _ (R_inv kcmp nw d sp HR))) as HW.
  destruct (gcchan d) as [|l r] eqn:Ec; [apply Rel_refl|].
  apply (Rel_trans sn d (do_worker d)); [exact HW|]. apply IH. apply worker_ok. exact HR.
Qed.

Lemma gc_same d : store (do_gc d) = store d /\ next_vid (do_gc d) = next_vid d.
Proof.
  unfold do_gc. destruct (collect_dead (gcsnaps d) (lastGCSn d) (gcchan d)) as [[g l] c].
  split; reflexivity.
Qed.

Lemma step_Rel sn nw d sp o : R kcmp nw d sp -> sn < currSn d ->
  Rel sn d (fst (step kcmp d o)) (delta_of_step sn d o).
Proof.
  intros HR Hlt.
  assert (Hnd : NoDup (map vid (store d))) by (apply (si_vids _ _ _ (R_inv kcmp nw d sp HR))).
  rewrite step_fst. destruct o; cbn [delta_of_step]; try apply Rel_refl.
  - apply put_Rel; exact Hlt.
  - apply delete_Rel; assumption.
  - apply deletenode_Rel; assumption.
  - apply Rel_same; reflexivity.
  - apply Rel_same; reflexivity.
  - rewrite do_open_eq. destruct (find_snap sn0 (snaps d)) as [s|]; [|apply Rel_refl].
    destruct (s_ref s =? 0)%Z; [apply Rel_refl|apply Rel_same; reflexivity].
  - rewrite do_close_eq. destruct (find_snap sn0 (snaps d)) as [s|]; [|apply Rel_refl].
    destruct (s_ref s - 1 =? 0)%Z; [|apply Rel_same; reflexivity].
    match goal with |- context [do_gc ?x] => destruct (gc_same x) as [G1 G2] end.
    apply Rel_same; [rewrite G1|rewrite G2]; reflexivity.
  - destruct (gc_same d) as [G1 G2]. apply Rel_same; assumption.
  - apply worker_Rel; exact Hnd.
  - apply (drain_Rel sn nw sp); exact HR.
Qed.

Lemma drun_ok sn : forall ops b nw d sp d' outs dl,
  R kcmp nw d sp -> wf_from nw (ops ++ b) -> sn < currSn d ->
  drun kcmp sn d ops = (d', outs, dl) ->
  (exists nw' sp', R kcmp nw' d' sp' /\ wf_from nw' b) /\ sn < currSn d' /\ Rel sn d d' dl.
Proof.
  induction ops as [|o r IH]; intros b nw d sp d' outs dl HR Hwf Hlt E.
  - cbn [drun] in E. inversion E; subst. split; [exists nw, sp; split; assumption|].
    split; [exact Hlt|apply Rel_refl].
  - cbn [app] in Hwf. apply wf_from_cons in Hwf. destruct Hwf as [Hwo Hr].
    destruct (step_R kcmp laws nw d sp o HR Hwo) as [HR' _].
    pose proof (step_Rel sn nw d sp o HR Hlt) as HRel.
    destruct (step_meta kcmp d o) as [Hmono _].
    cbn [drun] in E. destruct (step kcmp d o) as [d1 x]. cbn [fst] in *.
    destruct (drun kcmp sn d1 r) as [[d2 xs] dl2] eqn:Er. inversion E; subst.
    destruct (IH b _ d1 _ d' xs dl2 HR' Hr) as (Hex & Hlt' & HRel'); [lia|exact Er|].
    split; [exact Hex|]. split; [exact Hlt'|]. apply (Rel_trans sn d d1); assumption.
Qed.

(** * comparator and list facts *)
Lemma lt_irrefl a : kcmp a a = Lt -> False.
Proof. rewrite (IterProofs.kc_refl kcmp laws). discriminate. Qed.

Lemma lt_nlt_trans a b c : kcmp a b = Lt -> kcmp c b <> Lt -> kcmp a c = Lt.
Proof.
  intros H1 H2. destruct (kcmp c b) eqn:E; [| congruence |].
  - rewrite (IterProofs.kc_eq_r kcmp laws c b a E). exact H1.
  - apply (kc_trans kcmp laws a b c H1). apply (IterProofs.kc_gt_lt kcmp laws). exact E.
Qed.

Lemma vlt_not_lt w u : vlt kcmp w u -> kcmp (vitem u) (vitem w) = Lt -> False.
Proof.
  intros Hv H. rewrite (kc_antisym kcmp laws (vitem w) (vitem u)) in H.
  destruct Hv as [Hl|[He _]]; [rewrite Hl in H|rewrite He in H]; discriminate.
Qed.

Lemma vlt_not_gt w u : vlt kcmp w u -> kcmp (vitem w) (vitem u) <> Gt.
Proof. intros [Hl|[He _]]; congruence. Qed.

Lemma sorted_uniq (K : list (N * list N * N)) : StronglySorted (key_lt kcmp) (map kitem K) ->
  forall x y, In x K -> In y K -> kcmp (kitem x) (kitem y) = Eq -> x = y.
Proof.
  induction K as [|a K IH]; intros HS x y Hx Hy E; [destruct Hx|].
  cbn [map] in HS. inversion HS as [|? ? HS' HF]; subst. rewrite Forall_forall in HF.
  destruct Hx as [<-|Hx], Hy as [<-|Hy]; auto.
  - exfalso. assert (H : key_lt kcmp (kitem a) (kitem y)) by (apply HF; apply in_map; exact Hy).
    unfold key_lt in H. congruence.
  - exfalso. assert (H : key_lt kcmp (kitem a) (kitem x)) by (apply HF; apply in_map; exact Hx).
    unfold key_lt in H. rewrite (kc_antisym kcmp laws (kitem a) (kitem x)), H in E. discriminate.
Qed.

Lemma find_first {A} (f : A -> bool) : forall l w, find f l = Some w ->
  exists a b, l = a ++ w :: b /\ (forall u, In u a -> f u = false) /\ f w = true.
Proof.
  induction l as [|x l IH]; intros w H; [discriminate|]. cbn [find] in H.
  destruct (f x) eqn:E.
  - inversion H; subst. exists [], l. split; [reflexivity|]. split; [intros u []|exact E].
  - destruct (IH w H) as (a & b & -> & Ha & Hw). exists (x :: a), b. split; [reflexivity|].
    split; [|exact Hw]. intros u [<-|Hu]; auto.
Qed.

Lemma ss_snoc {A} (Rl : A -> A -> Prop) : forall l x, StronglySorted Rl l -> (forall y, In y l -> Rl y x) ->
  StronglySorted Rl (l ++ [x]).
Proof.
  induction l as [|a l IH]; intros x HS H; cbn [app].
  - constructor; constructor.
  - inversion HS as [|? ? HS' HF]; subst. constructor.
    + apply IH; [exact HS'|]. intros y Hy. apply H. right. exact Hy.
    + apply Forall_forall. intros y Hy. apply in_app_iff in Hy. destruct Hy as [Hy|[<-|[]]].
      * rewrite Forall_forall in HF. apply HF. exact Hy.
      * apply H. left. reflexivity.
Qed.

(** * the iterator on the store of the moment *)
Lemma it_land_get cur s it q : store_inv kcmp cur s ->
  it_get s (it_land kcmp s it q) = find (visible (it_sn it)) (skipn q s) /\
  it_sn (it_land kcmp s it q) = it_sn it.
Proof.
  intros Hinv. unfold it_land.
  set (it1 := it_skip s (mkIter (it_sn it) q (it_count it + 1)%Z (it_rate it))).
  assert (Hp1 : it_pos it1 = skip_pos (S (length s)) s (it_sn it) q).
  { unfold it1. rewrite it_skip_pos. reflexivity. }
  assert (Hsn1 : it_sn it1 = it_sn it) by (unfold it1; rewrite it_skip_sn; reflexivity).
  assert (Hg1 : it_get s it1 = find (visible (it_sn it)) (skipn q s)).
  { unfold it_get. rewrite Hp1. apply skip_pos_find. lia. }
  match goal with |- context [if ?b then _ else _] => destruct b end; [|split; assumption].
  cbn [it_sn]. rewrite it_refresh_sn. split; [|exact Hsn1].
  unfold it_get at 1. cbn [it_pos].
  assert (Hp2 : it_pos (it_refresh kcmp s it1) = it_pos it1).
  { destruct (it_get s it1) as [v|] eqn:Eg.
    - apply (refresh_pos kcmp laws cur s it1 v Hinv Eg). rewrite Hsn1.
      pose proof Hg1 as Hf. symmetry in Hf. apply find_some in Hf. tauto.
    - unfold it_refresh. rewrite Eg. reflexivity. }
  rewrite Hp2. exact Hg1.
Qed.

Lemma d_next_eq s di bs born i : di_cur di = Some (bs, born, i) ->
  d_next kcmp s di =
  match find_vid i s with
  | Some _ => d_of_iter s (it_land kcmp s (mkIter (di_sn di) (index_of_vid i s) (di_count di) (di_rate di))
                                  (S (index_of_vid i s)))
  | None => d_of_iter s (it_land kcmp s (mkIter (di_sn di) (ins_pos kcmp s bs born) (di_count di) (di_rate di))
                                 (ins_pos kcmp s bs born))
  end.
Proof.
  intros H. unfold d_next, d_locate. rewrite H. destruct (find_vid i s); reflexivity.
Qed.

(** * the scan *)
Section Scan.
Variable sn : N.
Variable d0 : db.
Let K0 := visk sn (store d0).
Hypothesis K0sorted : StronglySorted (key_lt kcmp) (map kitem K0).

Definition accounted (out dl : list (list N)) (x : N * list N * N) : Prop :=
  In (kitem x) out \/ In (kitem x) dl.

Lemma accounted_mono out dl out' dl' x : accounted out dl x -> accounted (out ++ out') (dl ++ dl') x.
Proof. intros [H|H]; [left|right]; apply in_app_iff; auto. Qed.

Definition Pos (d : db) (di : diter) (dl out : list (list N)) : Prop :=
  di_sn di = sn /\
  match di_cur di with
  | Some (bs, born, i) =>
    In (i, bs, born) (visk sn (store d)) /\
    (forall x, In x K0 -> kcmp (kitem x) bs = Lt -> accounted out dl x) /\
    (forall y, In y out -> kcmp y bs = Lt)
  | None => forall x, In x K0 -> accounted out dl x
  end.

Lemma land_pos d dl out A B it (low : N * list N * N -> Prop) :
  store_inv kcmp (currSn d) (store d) -> Rel sn d0 d dl ->
  store d = A ++ B -> it_sn it = sn -> it_get (store d) it = find (visible sn) B ->
  (forall x, In x K0 -> low x -> accounted out dl x) ->
  (forall u, In u A -> visible sn u = true -> low (vkey u)) ->
  (forall u y, In u B -> visible sn u = true -> In y out -> kcmp y (vitem u) = Lt) ->
  Pos d (d_of_iter (store d) it) dl out.
Proof.
  intros Hinv HRel Hs Hsn Hg L1 L2 L3. unfold Pos, d_of_iter. cbn [di_sn di_cur]. split; [exact Hsn|].
  rewrite Hg.
  assert (Hkeep : forall x, In x K0 ->
            accounted out dl x \/ exists u, In u B /\ visible sn u = true /\ vkey u = x).
  { intros x Hx. destruct (rl_keep _ _ _ _ HRel x Hx) as [Hk|Hd]; [|left; right; exact Hd].
    apply visk_in in Hk. destruct Hk as (u & Hu & Hin & V). rewrite Hs in Hin. apply in_app_iff in Hin.
    destruct Hin as [Hin|Hin].
    - left. apply (L1 x Hx). rewrite <- Hu. apply L2; assumption.
    - right. exists u. auto. }
  pose proof (si_sorted _ _ _ Hinv) as Hsorted. rewrite Hs in Hsorted.
  apply sorted_app in Hsorted. destruct Hsorted as (_ & HsB & _).
  destruct (find (visible sn) B) as [w|] eqn:Ef; cbn [option_map].
  - destruct (find_first _ _ _ Ef) as (a & b & HB & Ha & Vw).
    assert (HwB : In w B) by (rewrite HB; apply in_app_iff; right; left; reflexivity).
    split; [|split].
    + apply visk_in. exists w. split; [reflexivity|]. split; [|exact Vw].
      rewrite Hs. apply in_app_iff. right. exact HwB.
    + intros x Hx Hlt. destruct (Hkeep x Hx) as [Hacc|(u & Hu & V & Hk)]; [exact Hacc|]. exfalso.
      assert (Eu : kitem x = vitem u) by (rewrite <- Hk; reflexivity). rewrite Eu in Hlt.
      rewrite HB in Hu, HsB. apply in_app_iff in Hu. destruct Hu as [Hu|[Hu|Hu]].
      * rewrite (Ha u Hu) in V. discriminate.
      * subst u. exact (lt_irrefl _ Hlt).
      * apply sorted_app in HsB. destruct HsB as (_ & Hwb & _). cbn [sorted] in Hwb.
        destruct Hwb as [Hall _]. rewrite Forall_forall in Hall.
        exact (vlt_not_lt w u (Hall u Hu) Hlt).
    + intros y Hy. apply (L3 w y HwB Vw Hy).
  - intros x Hx. destruct (Hkeep x Hx) as [Hacc|(u & Hu & V & Hk)]; [exact Hacc|]. exfalso.
    rewrite (find_none _ _ Ef u Hu) in V. discriminate.
Qed.

Lemma next_pos nw d sp nw' d' sp' di dl dl' out bs born i :
  R kcmp nw d sp -> R kcmp nw' d' sp' -> Rel sn d0 d dl -> Rel sn d d' dl' ->
  di_sn di = sn -> di_cur di = Some (bs, born, i) ->
  In (i, bs, born) (visk sn (store d)) ->
  (forall x, In x K0 -> kcmp (kitem x) bs = Lt -> accounted out dl x) ->
  (forall y, In y out -> kcmp y bs = Lt) ->
  Pos d' (d_next kcmp (store d') di) (dl ++ dl') (out ++ [bs]).
Proof.
  intros HR HR' HRel HRel1 Hsn Hcur Hc Hlow Hout.
  pose proof (Rel_trans sn d0 d d' dl dl' HRel HRel1) as HRel'.
  pose proof (Rel_back sn d0 d dl _ HRel Hc) as Hc0.
  pose proof (R_inv kcmp nw' d' sp' HR') as Hinv'.
  pose proof (si_sorted _ _ _ Hinv') as Hsorted'.
  set (low := fun x : N * list N * N => kcmp (kitem x) bs <> Gt).
  assert (L1 : forall x, In x K0 -> low x -> accounted (out ++ [bs]) (dl ++ dl') x).
  { intros x Hx Hl. unfold low in Hl. destruct (kcmp (kitem x) bs) eqn:E; [| |congruence].
    - assert (x = (i, bs, born)) by (apply (sorted_uniq K0 K0sorted); auto). subst x.
      left. apply in_app_iff. right. left. reflexivity.
    - apply accounted_mono. apply Hlow; assumption. }
  rewrite (d_next_eq (store d') di bs born i Hcur). rewrite Hsn.
  destruct (find_vid i (store d')) as [v'|] eqn:Ef.
  - (* the node is still there *)
    destruct (find_vid_in _ _ _ Ef) as [Hv' Hvi].
    apply visk_in in Hc. destruct Hc as (v0 & Hk0 & Hv0 & V0). unfold vkey in Hk0.
    injection Hk0 as Hi0 Hbs0 Hborn0.
    assert (Hsame : vitem v' = bs /\ vborn v' = born /\ visible sn v' = true).
    { destruct (rl_old _ _ _ _ HRel1 v' Hv') as [(v & Hv & E1 & E2 & E3 & E4)|[Hn _]].
      - assert (v = v0).
        { apply (vid_inj (store d)); auto; [|congruence].
          apply (si_vids _ _ _ (R_inv kcmp nw d sp HR)). }
        subst v. repeat split; congruence.
      - exfalso. pose proof (sv_vid _ _ _ _ _ (r_s _ _ _ _ HR) v0 Hv0). lia. }
    destruct Hsame as (Ei & Eb & V').
    destruct (locate_vid (store d') v' (si_vids _ _ _ Hinv') Hv') as (s1 & s2 & Hs & Hsp).
    assert (Hidx : index_of_vid i (store d') = length s1).
    { unfold index_of_vid. rewrite <- Hvi, Hsp. reflexivity. }
    rewrite Hidx.
    set (it := it_land kcmp (store d') (mkIter sn (length s1) (di_count di) (di_rate di)) (S (length s1))).
    destruct (it_land_get (currSn d') (store d') (mkIter sn (length s1) (di_count di) (di_rate di))
                          (S (length s1)) Hinv') as [Hg Hitsn]. fold it in Hg, Hitsn. cbn [it_sn] in Hg, Hitsn.
    assert (Hs' : store d' = (s1 ++ [v']) ++ s2) by (rewrite <- app_assoc; exact Hs).
    rewrite Hs in Hsorted'. apply sorted_app in Hsorted'. destruct Hsorted' as (_ & Hvs2 & H12).
    cbn [sorted] in Hvs2. destruct Hvs2 as [Hall _]. rewrite Forall_forall in Hall.
    apply (land_pos d' (dl ++ dl') (out ++ [bs]) (s1 ++ [v']) s2 it low Hinv' HRel' Hs' Hitsn).
    + rewrite Hg. rewrite Hs at 1. rewrite skipn_S_app. reflexivity.
    + exact L1.
    + intros u Hu _. unfold low. change (kitem (vkey u)) with (vitem u). rewrite <- Ei.
      apply in_app_iff in Hu. destruct Hu as [Hu|[<-|[]]].
      * apply vlt_not_gt. apply H12; [exact Hu|left; reflexivity].
      * rewrite (IterProofs.kc_refl kcmp laws). discriminate.
    + intros u y Hu V Hy.
      assert (Hbu : kcmp bs (vitem u) = Lt).
      { rewrite <- Ei. destruct (Hall u Hu) as [Hl|[He Hb]]; [exact Hl|]. exfalso.
        assert (Hu' : In u (store d')) by (rewrite Hs; apply in_app_iff; right; right; exact Hu).
        destruct (si_succ _ _ _ Hinv' v' u Hv' Hu' He Hb) as [Hd Hle].
        apply visible_spec in V. apply visible_spec in V'. lia. }
      apply in_app_iff in Hy. destruct Hy as [Hy|[<-|[]]]; [|exact Hbu].
      apply (kc_trans kcmp laws y bs (vitem u)); [apply Hout; exact Hy|exact Hbu].
  - (* the node has been removed: the re-search lands on the first version not before it *)
    destruct (span (before_ins kcmp bs born) (store d')) as [l1 l2] eqn:Esp.
    destruct (split_facts kcmp laws born (store d') bs l1 l2 Hsorted' Esp) as (Hs & H1 & H2).
    assert (Hip : ins_pos kcmp (store d') bs born = length l1) by (unfold ins_pos; rewrite Esp; reflexivity).
    rewrite Hip.
    set (it := it_land kcmp (store d') (mkIter sn (length l1) (di_count di) (di_rate di)) (length l1)).
    destruct (it_land_get (currSn d') (store d') (mkIter sn (length l1) (di_count di) (di_rate di))
                          (length l1) Hinv') as [Hg Hitsn]. fold it in Hg, Hitsn. cbn [it_sn] in Hg, Hitsn.
    apply (land_pos d' (dl ++ dl') (out ++ [bs]) l1 l2 it low Hinv' HRel' Hs Hitsn).
    + rewrite Hg. rewrite Hs at 1. rewrite skipn_length_app. reflexivity.
    + exact L1.
    + intros u Hu _. unfold low. change (kitem (vkey u)) with (vitem u).
      pose proof (H1 u Hu) as Hl. apply ins_cmp_lt in Hl. destruct Hl as [Hl|[Hl _]]; congruence.
    + intros u y Hu V Hy.
      assert (Hbu : kcmp bs (vitem u) = Lt).
      { pose proof (H2 u Hu) as Hn. destruct (kcmp (vitem u) bs) eqn:E.
        - exfalso.
          assert (Hu' : In u (store d')) by (rewrite Hs; apply in_app_iff; right; exact Hu).
          assert (Hk : In (vkey u) K0).
          { apply (Rel_back sn d0 d' _ _ HRel'). apply visk_in. exists u. auto. }
          assert (Heq : vkey u = (i, bs, born)) by (apply (sorted_uniq K0 K0sorted); auto).
          apply (find_vid_none_notin _ _ Ef). inversion Heq. apply in_map. exact Hu'.
        - exfalso. apply Hn. apply ins_cmp_lt. left. exact E.
        - apply (IterProofs.kc_gt_lt kcmp laws). exact E. }
      apply in_app_iff in Hy. destruct Hy as [Hy|[<-|[]]]; [|exact Hbu].
      apply (kc_trans kcmp laws y bs (vitem u)); [apply Hout; exact Hy|exact Hbu].
Qed.

(** ** one shard *)
Definition endlt (endp : option pivot) (y : list N) : Prop :=
  match endp with None => True | Some e => kcmp y (fst e) = Lt end.

Definition Good (out : list (list N)) : Prop :=
  (forall y, In y out -> exists x, In x K0 /\ kitem x = y) /\ StronglySorted (key_lt kcmp) out.

Definition End (endp : option pivot) (dl out : list (list N)) : Prop :=
  forall x, In x K0 -> endlt endp (kitem x) -> accounted out dl x.

Definition stop_of (di : diter) (endp : option pivot) : bool :=
  match di_cur di with
  | None => true
  | Some (bs, born, _) =>
    match endp with
    | None => false
    | Some e => match pv_cmp kcmp true (bs, born) e with Lt => false | _ => true end
    end
  end.

Lemma loop_unfold d di endp segs acc dl :
  dshard_loop kcmp true sn d di endp segs acc dl =
  if stop_of di endp then (rev acc, d, segs, dl, true)
  else match segs with
       | [] => (rev acc, d, [], dl, false)
       | seg :: r =>
         let '(d', _, dl') := drun kcmp sn d seg in
         let item := match di_cur di with Some (bs, _, _) => bs | None => [] end in
         dshard_loop kcmp true sn d' (d_next kcmp (store d') di) endp r (item :: acc) (dl ++ dl')
       end.
Proof. destruct segs; reflexivity. Qed.

Lemma stop_end d di dl out endp : stop_of di endp = true -> Pos d di dl out -> End endp dl out.
Proof.
  unfold stop_of, Pos. intros Hst [_ HP] x Hx He.
  destruct (di_cur di) as [[[bs born] i]|]; [|apply HP; exact Hx].
  destruct endp as [e|]; [|discriminate]. cbn [endlt] in He.
  destruct HP as (_ & Hlow & _). apply (Hlow x Hx).
  unfold pv_cmp in Hst. cbn [fst snd] in Hst.
  apply (lt_nlt_trans _ (fst e)); [exact He|]. intro Hbs. rewrite Hbs in Hst. discriminate.
Qed.

Lemma stop_false di endp : stop_of di endp = false ->
  exists bs born i, di_cur di = Some (bs, born, i) /\ endlt endp bs.
Proof.
  unfold stop_of. intros Hst. destruct (di_cur di) as [[[bs born] i]|]; [|discriminate].
  exists bs, born, i. split; [reflexivity|]. destruct endp as [e|]; [|exact I]. cbn [endlt].
  unfold pv_cmp in Hst. cbn [fst snd] in Hst. destruct (kcmp bs (fst e)); try discriminate. reflexivity.
Qed.

Lemma dshard_loop_ok endp prev : forall segs nw d sp di acc dl items d' segs' dl' fin,
  R kcmp nw d sp -> wf_from nw (concat segs) -> sn < currSn d -> Rel sn d0 d dl ->
  Good (prev ++ rev acc) -> Pos d di dl (prev ++ rev acc) ->
  (forall y, In y (prev ++ rev acc) -> endlt endp y) ->
  dshard_loop kcmp true sn d di endp segs acc dl = (items, d', segs', dl', fin) -> fin = true ->
  (exists nw' sp', R kcmp nw' d' sp' /\ wf_from nw' (concat segs')) /\ sn < currSn d' /\ Rel sn d0 d' dl' /\
  Good (prev ++ items) /\ (forall y, In y (prev ++ items) -> endlt endp y) /\ End endp dl' (prev ++ items).
Proof.
  induction segs as [|seg r IH]; intros nw d sp di acc dl items d' segs' dl' fin HR Hwf Hlt HRel HG HP Hend E Hfin;
    rewrite loop_unfold in E; destruct (stop_of di endp) eqn:Est.
  - inversion E; subst. split; [exists nw, sp; split; assumption|].
    split; [exact Hlt|]. split; [exact HRel|]. split; [exact HG|]. split; [exact Hend|].
    apply (stop_end d' di dl' _ endp Est HP).
  - inversion E; subst. discriminate.
  - inversion E; subst. split; [exists nw, sp; split; assumption|].
    split; [exact Hlt|]. split; [exact HRel|]. split; [exact HG|]. split; [exact Hend|].
    apply (stop_end d' di dl' _ endp Est HP).
  - destruct (stop_false di endp Est) as (bs & born & i & Hcur & Hebs).
    destruct (drun kcmp sn d seg) as [[d1 o1] dl1] eqn:Ed. rewrite Hcur in E.
    cbn [concat] in Hwf.
    destruct (drun_ok sn seg (concat r) nw d sp d1 o1 dl1 HR Hwf Hlt Ed) as ((nw1 & sp1 & HR1 & Hwf1) & Hlt1 & HRel1).
    destruct HP as [Hsn HP]. rewrite Hcur in HP. destruct HP as (Hc & Hlow & Hout).
    assert (Eout : prev ++ rev (bs :: acc) = (prev ++ rev acc) ++ [bs]) by (cbn [rev]; apply app_assoc).
    apply (IH nw1 d1 sp1 (d_next kcmp (store d1) di) (bs :: acc) (dl ++ dl1) items d' segs' dl' fin); auto.
    + apply (Rel_trans sn d0 d d1); assumption.
    + rewrite Eout. destruct HG as [HG1 HG2]. split.
      * intros y Hy. apply in_app_iff in Hy. destruct Hy as [Hy|[<-|[]]]; [apply HG1; exact Hy|].
        exists (i, bs, born). split; [|reflexivity]. apply (Rel_back sn d0 d dl _ HRel Hc).
      * apply ss_snoc; [exact HG2|]. intros y Hy. apply Hout. exact Hy.
    + rewrite Eout. apply (next_pos nw d sp nw1 d1 sp1 di dl dl1 _ bs born i); assumption.
    + rewrite Eout. intros y Hy. apply in_app_iff in Hy. destruct Hy as [Hy|[<-|[]]]; [apply Hend; exact Hy|exact Hebs].
Qed.

Definition Start (startp : option pivot) (dl out : list (list N)) : Prop :=
  match startp with
  | None => out = []
  | Some p => End (Some p) dl out /\ forall y, In y out -> kcmp y (fst p) = Lt
  end.

Lemma start_pos nw d sp dl out startp rate :
  R kcmp nw d sp -> Rel sn d0 d dl -> Start startp dl out ->
  Pos d (match startp with
         | None => d_seek_first (store d) sn rate
         | Some p => d_seek kcmp (store d) sn rate (fst p)
         end) dl out.
Proof.
  intros HR HRel HS. pose proof (R_inv kcmp nw d sp HR) as Hinv.
  destruct startp as [p|]; cbn [Start] in HS.
  - destruct HS as [HE Hout]. unfold d_seek.
    destruct (key_pos_split kcmp laws (store d) (fst p) (si_sorted _ _ _ Hinv)) as (l1 & l2 & Hs & Hk & F1 & F2).
    rewrite Forall_forall in F1, F2.
    apply (land_pos d dl out l1 l2 _ (fun x => kcmp (kitem x) (fst p) = Lt) Hinv HRel Hs).
    + unfold it_seek. rewrite it_skip_sn. reflexivity.
    + unfold it_get. rewrite it_seek_pos. cbn [it_sn]. rewrite skip_pos_find by lia.
      rewrite Hk. rewrite Hs at 1. rewrite skipn_length_app. reflexivity.
    + intros x Hx Hl. apply (HE x Hx). exact Hl.
    + intros u Hu _. change (kitem (vkey u)) with (vitem u). pose proof (F1 u Hu) as Hb.
      unfold before_key in Hb. destruct (kcmp (vitem u) (fst p)); try discriminate. reflexivity.
    + intros u y Hu _ Hy. apply (lt_nlt_trans _ (fst p)); [apply Hout; exact Hy|].
      intro Hl. pose proof (F2 u Hu) as Hb. unfold before_key in Hb. rewrite Hl in Hb. discriminate.
  - subst out. unfold d_seek_first.
    apply (land_pos d dl [] [] (store d) _ (fun _ => False) Hinv HRel eq_refl).
    + unfold it_seek_first. rewrite it_skip_sn. reflexivity.
    + apply seek_first_exact.
    + intros x _ [].
    + intros u [].
    + intros u y _ _ [].
Qed.

Lemma dshard_ok rate endp startp nw d sp segs dl out items d' segs' dl' fin :
  R kcmp nw d sp -> wf_from nw (concat segs) -> sn < currSn d -> Rel sn d0 d dl ->
  Good out -> Start startp dl out -> (forall y, In y out -> endlt endp y) ->
  dshard kcmp true sn rate d startp endp segs dl = (items, d', segs', dl', fin) -> fin = true ->
  (exists nw' sp', R kcmp nw' d' sp' /\ wf_from nw' (concat segs')) /\ sn < currSn d' /\ Rel sn d0 d' dl' /\
  Good (out ++ items) /\ (forall y, In y (out ++ items) -> endlt endp y) /\ End endp dl' (out ++ items).
Proof.
  intros HR Hwf Hlt HRel HG HS Hend E Hfin. unfold dshard in E.
  pose proof (start_pos nw d sp dl out startp rate HR HRel HS) as HP.
  assert (Eo : out ++ rev [] = out) by apply app_nil_r.
  eapply (dshard_loop_ok endp out segs nw d sp _ [] dl items d' segs' dl' fin HR Hwf Hlt HRel);
    [rewrite Eo; exact HG|rewrite Eo; exact HP|rewrite Eo; exact Hend|exact E|exact Hfin].
Qed.

(** ** all shards *)
Definition chain_opt (startp : option pivot) (ps : list pivot) : Prop :=
  match startp with
  | Some a => chain kcmp a ps
  | None => match ps with [] => True | b :: r => chain kcmp b r end
  end.

Lemma dshards_ok rate : forall ps startp nw d sp segs dl out shards d' rest dl' fin,
  R kcmp nw d sp -> wf_from nw (concat segs) -> sn < currSn d -> Rel sn d0 d dl ->
  Good out -> Start startp dl out -> chain_opt startp ps ->
  dshards kcmp true sn rate d startp ps segs dl = (shards, d', rest, dl', fin) -> fin = true ->
  Rel sn d0 d' dl' /\ Good (out ++ concat shards) /\ End None dl' (out ++ concat shards).
Proof.
  induction ps as [|p r IH]; intros startp nw d sp segs dl out shards d' rest dl' fin HR Hwf Hlt HRel HG HS Hch E Hfin;
    cbn [dshards] in E.
  - destruct (dshard kcmp true sn rate d startp None segs dl) as [[[[items d1] segs1] dl1] fin1] eqn:El.
    inversion E; subst.
    destruct (dshard_ok rate None startp nw d sp segs dl out items d' rest dl' true HR Hwf Hlt HRel HG HS
                (fun _ _ => I) El eq_refl) as (_ & _ & HRel' & HG' & _ & HE).
    cbn [concat]. rewrite app_nil_r. auto.
  - destruct (dshard kcmp true sn rate d startp (Some p) segs dl) as [[[[items d1] segs1] dl1] fin1] eqn:El.
    destruct fin1.
    + destruct (dshards kcmp true sn rate d1 (Some p) r segs1 dl1) as [[[[rest0 d2] segs2] dl2] fin2] eqn:Er.
      inversion E; subst.
      assert (Hend : forall y, In y out -> endlt (Some p) y).
      { intros y Hy. cbn [endlt]. destruct startp as [a|]; cbn [Start chain_opt] in HS, Hch.
        - destruct HS as [_ Ho]. cbn [chain] in Hch. destruct Hch as [Hap _].
          apply (kc_trans kcmp laws y (fst a) (fst p)); [apply Ho; exact Hy|exact Hap].
        - subst out. destruct Hy. }
      destruct (dshard_ok rate (Some p) startp nw d sp segs dl out items d1 segs1 dl1 true HR Hwf Hlt HRel HG HS
                  Hend El eq_refl) as ((nw1 & sp1 & HR1 & Hwf1) & Hlt1 & HRel1 & HG1 & Hend1 & HE1).
      assert (Hch1 : chain kcmp p r).
      { destruct startp as [a|]; cbn [chain_opt] in Hch; [cbn [chain] in Hch; tauto|exact Hch]. }
      destruct (IH (Some p) nw1 d1 sp1 segs1 dl1 (out ++ items) rest0 d' rest dl' true HR1 Hwf1 Hlt1 HRel1 HG1
                  (conj HE1 Hend1) Hch1 Er eq_refl) as (HRel' & HG' & HE').
      cbn [concat]. rewrite app_assoc. auto.
    + inversion E; subst. discriminate.
Qed.

End Scan.

(** * the theorems *)
Theorem delta_backup_exact : stmt_delta_backup kcmp.
Proof.
  intros pre sn rate pivots seg0 segs Hwf d0 Hop Hrate.
  destruct (run_R_split kcmp laws pre (seg0 ++ concat segs) 0%nat db_init spec_init (R_init kcmp) Hwf)
    as (nw0 & sp0 & HR0 & Hwf0). fold d0 in HR0.
  pose proof (open_lt kcmp nw0 d0 sp0 sn HR0 Hop) as Hlt0.
  assert (HK : StronglySorted (key_lt kcmp) (map kitem (visk sn (store d0)))).
  { rewrite <- visk_view. apply (view_strict kcmp (currSn d0)). apply (R_inv kcmp nw0 d0 sp0 HR0). }
  destruct (dbackup kcmp true d0 sn rate pivots seg0 segs) as [[[[shards d'] rest] dl] fin] eqn:E.
  intros Hfin. unfold dbackup in E.
  destruct (drun kcmp sn d0 seg0) as [[d1 o1] dl0] eqn:Ed.
  destruct (drun_ok sn seg0 (concat segs) nw0 d0 sp0 d1 o1 dl0 HR0 Hwf0 Hlt0 Ed)
    as ((nw1 & sp1 & HR1 & Hwf1) & Hlt1 & HRel1).
  assert (Hch : chain_opt None (filter_pivots kcmp true (store d1) sn None pivots)).
  { cbn [chain_opt]. destruct (filter_pivots_none kcmp laws (store d1) sn pivots) as [->|(b & r & -> & Hc)];
      [exact I|exact Hc]. }
  assert (HG0 : Good sn d0 []) by (split; [intros y []|constructor]).
  destruct (dshards_ok sn d0 HK rate _ None nw1 d1 sp1 segs dl0 [] shards d' rest dl fin HR1 Hwf1 Hlt1 HRel1
              HG0 eq_refl Hch E Hfin) as (HRel' & [HG1 HG2] & HE).
  cbn [app] in HG1, HG2, HE. split; [|exact HG2].
  intros x. rewrite visk_view. split.
  - intros Hx. apply in_map_iff in Hx. destruct Hx as (k & <- & Hk). apply (HE k Hk I).
  - intros [Hx|Hx].
    + destruct (HG1 x Hx) as (k & Hk & <-). apply in_map. exact Hk.
    + destruct (rl_dl _ _ _ _ HRel' x Hx) as (k & Hk & <-). apply in_map. exact Hk.
Qed.

(** * restore: load the data shards, then Put every delta item *)
Lemma ss_eq : forall l1 l2 : list (list N),
  StronglySorted (key_lt kcmp) l1 -> StronglySorted (key_lt kcmp) l2 ->
  (forall x, In x l1 <-> In x l2) -> l1 = l2.
Proof.
  induction l1 as [|a l1 IH]; intros l2 H1 H2 Hiff.
  - destruct l2 as [|b l2]; [reflexivity|]. exfalso. apply (Hiff b). left. reflexivity.
  - destruct l2 as [|b l2]; [exfalso; apply (Hiff a); left; reflexivity|].
    inversion H1 as [|? ? H1' F1]; subst. inversion H2 as [|? ? H2' F2]; subst.
    rewrite Forall_forall in F1, F2. unfold key_lt in F1, F2.
    assert (Hab : a = b).
    { destruct (proj1 (Hiff a) (or_introl eq_refl)) as [e|Ha]; [auto|].
      destruct (proj2 (Hiff b) (or_introl eq_refl)) as [e|Hb]; [auto|]. exfalso.
      pose proof (F2 a Ha) as Hba. pose proof (F1 b Hb) as Hab.
      rewrite (kc_antisym kcmp laws a b), Hab in Hba. discriminate. }
    subst b. f_equal. apply IH; [exact H1'|exact H2'|].
    intros x. split; intros Hx.
    + destruct (proj1 (Hiff x) (or_intror Hx)) as [e|Hx']; [|exact Hx']. subst x.
      exfalso. exact (lt_irrefl a (F1 a Hx)).
    + destruct (proj2 (Hiff x) (or_intror Hx)) as [e|Hx']; [|exact Hx']. subst x.
      exfalso. exact (lt_irrefl a (F2 a Hx)).
Qed.

Lemma sp_insert_in e : forall l e', In e' (sp_insert kcmp e l) <-> e' = e \/ In e' l.
Proof.
  induction l as [|x l IH]; intros e'; cbn [sp_insert].
  - cbn [In]. intuition congruence.
  - destruct (kcmp (snd x) (snd e)); cbn [In]; rewrite ?IH; intuition congruence.
Qed.

Lemma sp_run_cons_fst sp o r :
  fst (sp_run kcmp sp (o :: r)) = fst (sp_run kcmp (fst (sp_step kcmp sp o)) r).
Proof.
  cbn [sp_run]. destruct (sp_step kcmp sp o) as [s' x]. cbn [fst].
  destruct (sp_run kcmp s' r) as [s'' xs]. reflexivity.
Qed.

Lemma put_live sp x :
  let sp1 := fst (sp_step kcmp sp (Put 0 x)) in
  (forall e, In e (sp_live sp) -> In e (sp_live sp1)) /\
  (forall e, In e (sp_live sp1) -> In e (sp_live sp) \/ snd e = x) /\
  (exists e, In e (sp_live sp1) /\ kcmp x (snd e) = Eq).
Proof.
  cbn [sp_step]. destruct (sp_find kcmp x (sp_live sp)) as [e0|] eqn:Ef; cbn [fst sp_live].
  - split; [auto|]. split; [auto|]. unfold sp_find in Ef. apply find_some in Ef. destruct Ef as [Hin Hk].
    exists e0. split; [exact Hin|]. unfold keq in Hk. destruct (kcmp x (snd e0)); try discriminate. reflexivity.
  - split; [|split].
    + intros e He. apply sp_insert_in. right. exact He.
    + intros e He. apply sp_insert_in in He. destruct He as [->|He]; [right; reflexivity|left; exact He].
    + exists (sp_next sp, x). split; [apply sp_insert_in; left; reflexivity|].
      apply (IterProofs.kc_refl kcmp laws).
Qed.

Lemma puts_live : forall dl sp,
  let sp' := fst (sp_run kcmp sp (map (fun x => Put 0 x) dl)) in
  (forall e, In e (sp_live sp) -> In e (sp_live sp')) /\
  (forall e, In e (sp_live sp') -> In e (sp_live sp) \/ In (snd e) dl) /\
  (forall x, In x dl -> exists e, In e (sp_live sp') /\ kcmp x (snd e) = Eq).
Proof.
  induction dl as [|x dl IH]; intros sp; cbv zeta.
  - cbn [map sp_run fst]. split; [auto|]. split; [auto|]. intros x [].
  - cbn [map]. rewrite sp_run_cons_fst.
    destruct (put_live sp x) as (A1 & A2 & A3). cbv zeta in A1, A2, A3.
    destruct (IH (fst (sp_step kcmp sp (Put 0 x)))) as (B1 & B2 & B3). cbv zeta in B1, B2, B3.
    split; [|split].
    + intros e He. apply B1, A1, He.
    + intros e He. destruct (B2 e He) as [H|H]; [|right; right; exact H].
      destruct (A2 e H) as [H'|H']; [left; exact H'|right; left; symmetry; exact H'].
    + intros y [<-|Hy]; [|apply B3; exact Hy].
      destruct A3 as (e & He & Hk). exists e. split; [apply B1; exact He|exact Hk].
Qed.

Lemma wf_puts : forall dl, wf_from 1 (map (fun x => Put 0 x) dl).
Proof. induction dl as [|x dl IH]; cbn [map wf_from]; [exact I|]. split; [lia|exact IH]. Qed.

Lemma live_items_entries s : live_items s = map snd (live_entries s).
Proof. unfold live_items, live_entries. rewrite map_map. reflexivity. Qed.

Theorem delta_restore_exact : stmt_delta_restore kcmp.
Proof.
  intros pre sn rate pivots seg0 segs Hwf d0 Hop Hrate.
  pose proof (delta_backup_exact pre sn rate pivots seg0 segs Hwf Hop Hrate) as H1. fold d0 in H1.
  destruct (run_R_split kcmp laws pre (seg0 ++ concat segs) 0%nat db_init spec_init (R_init kcmp) Hwf)
    as (nw0 & sp0 & HR0 & _). fold d0 in HR0.
  pose proof (view_strict kcmp (currSn d0) (store d0) sn (R_inv kcmp nw0 d0 sp0 HR0)) as HVS.
  destruct (dbackup kcmp true d0 sn rate pivots seg0 segs) as [[[[shards d'] rest] dl] fin].
  intros Hfin. destruct (H1 Hfin) as [Hiff Hss]. intro r.
  set (items := concat shards) in *.
  pose proof (restored_R kcmp items Hss) as HRr.
  assert (Hwfp : wf_from 0 (delta_puts dl)) by (unfold delta_puts; cbn [wf_from]; apply wf_puts).
  destruct (run_R kcmp laws (delta_puts dl) 0%nat _ _ HRr Hwfp) as [[nwf HRf] _]. fold r in HRf.
  set (spf := fst (sp_run kcmp (restored_spec items) (delta_puts dl))) in *.
  assert (Espf : spf = fst (sp_run kcmp (restored_spec items) (map (fun x => Put 0 x) dl))).
  { unfold spf, delta_puts. rewrite sp_run_cons_fst. reflexivity. }
  destruct (puts_live dl (restored_spec items)) as (P1 & P2 & P3). cbv zeta in P1, P2, P3.
  rewrite <- Espf in P1, P2, P3. cbn [restored_spec sp_live] in P1, P2.
  assert (Elive : live_items (store r) = map snd (sp_live spf)).
  { rewrite live_items_entries. rewrite (sv_live _ _ _ _ _ (r_s _ _ _ _ HRf)). reflexivity. }
  assert (Hsub : forall e, In e (sp_live spf) -> In (snd e) (view sn (store d0))).
  { intros e He. apply Hiff. destruct (P2 e He) as [H|H]; [left|right; exact H].
    rewrite <- (number_from_snd items 0). apply in_map. exact H. }
  apply ss_eq.
  - rewrite live_items_entries, <- (view_cur kcmp (currSn r) (store r) (R_inv kcmp nwf r _ HRf)).
    apply (view_strict kcmp (currSn r)). apply (R_inv kcmp nwf r _ HRf).
  - exact HVS.
  - intros x. rewrite Elive. split.
    + intros Hx. apply in_map_iff in Hx. destruct Hx as (e & <- & He). apply Hsub. exact He.
    + intros Hx. destruct (proj1 (Hiff x) Hx) as [Hd|Hd].
      * rewrite <- (number_from_snd items 0) in Hd. apply in_map_iff in Hd. destruct Hd as (e & <- & He).
        apply in_map. apply P1. exact He.
      * destruct (P3 x Hd) as (e & He & Hk). pose proof (Hsub e He) as Hy.
        rewrite visk_view in Hx, Hy, HVS. apply in_map_iff in Hx. destruct Hx as (kx & Ekx & Hkx).
        apply in_map_iff in Hy. destruct Hy as (ky & Eky & Hky).
        assert (kx = ky).
        { apply (sorted_uniq _ HVS); auto. rewrite Ekx, Eky. exact Hk. }
        subst ky. rewrite <- Ekx, Eky. apply in_map. exact He.
Qed.

End DeltaProofs.

Print Assumptions delta_backup_exact.
Print Assumptions delta_restore_exact.

(** * the two executable comparators *)
Theorem delta_backup_exact_bytes : stmt_delta_backup bytes_cmp.
Proof. exact (delta_backup_exact bytes_cmp bytes_cmp_laws). Qed.
Theorem delta_backup_exact_kv : stmt_delta_backup compare_kv.
Proof. exact (delta_backup_exact compare_kv compare_kv_laws). Qed.
Theorem delta_restore_exact_bytes : stmt_delta_restore bytes_cmp.
Proof. exact (delta_restore_exact bytes_cmp bytes_cmp_laws). Qed.
Theorem delta_restore_exact_kv : stmt_delta_restore compare_kv.
Proof. exact (delta_restore_exact compare_kv compare_kv_laws). Qed.
Print Assumptions delta_backup_exact_bytes.
Print Assumptions delta_backup_exact_kv.
Print Assumptions delta_restore_exact_bytes.
Print Assumptions delta_restore_exact_kv.

(** non-vacuity of [stmt_delta_backup] / [stmt_delta_restore]: snapshot 1 holds 97 98 99 100 101 and is
    RELEASED by seg0 (the Close of StoreToDisk).  Pivot 99, refresh rate 2.  While the iterator stands on
    97 (not yet delivered) the other goroutines delete 99 and 97, create and close snapshot 2 and run GC
    and the workers: 99 (ahead of the scan) and 97 (the very node the iterator stands on) are unlinked
    and written to the delta; the iterator's re-search lands on 98.  While it stands on 98: a new 99 is
    inserted (invisible to snapshot 1), 101 is deleted and collected by one worker step (delta, ahead of
    the scan).  The first shard ends at the pivot, the second one seeks 99 and lands on 100.  While it
    stands on 100: 98, which the scan has already delivered, is deleted and collected (delta, behind the
    scan).  Then the scan is exhausted: fin = true with two segments left over.  All hypotheses hold; the
    data shards are 97 98 | 100, the delta is 99 97 101 98; both conclusions hold. *)
Example delta_backup_nonvacuous :
  let pre := [NewWriter; Put 0 [97]; Put 0 [98]; Put 0 [99]; Put 0 [100]; Put 0 [101]; NewSnapshot] in
  let seg0 := [CloseSnap 1] in
  let segs := [[Delete 0 [99]; Delete 0 [97]; NewSnapshot; CloseSnap 2; GC; Drain];
               [Put 0 [99]; Delete 0 [101]; NewSnapshot; CloseSnap 3; GC; WorkerStep];
               [Delete 0 [98]; NewSnapshot; CloseSnap 4; GC; Drain]; [Put 0 [96]]; []] in
  let d0 := fst (run bytes_cmp db_init pre) in
  let d1 := fst (run bytes_cmp d0 seg0) in
  wf_from 0 (pre ++ seg0 ++ concat segs) /\
  snap_open d0 1 = true /\ (0 <= 2)%Z /\
  snap_open d1 1 = false /\
  view 1 (store d0) = [[97]; [98]; [99]; [100]; [101]] /\
  let '(shards, d', rest, dl, fin) := dbackup bytes_cmp true d0 1 2 [([99], 1)] seg0 segs in
  fin = true /\
  shards = [[[97]; [98]]; [[100]]] /\
  dl = [[99]; [97]; [101]; [98]] /\
  rest = [[Put 0 [96]]; []] /\
  phys (store d') = [([99], 3, 0); ([100], 1, 0)] /\
  removed d' = [2; 0; 4; 1] /\
  (forall x, In x (view 1 (store d0)) <-> (In x (concat shards) \/ In x dl)) /\
  StronglySorted (key_lt bytes_cmp) (concat shards) /\
  live_items (store (fst (run bytes_cmp (restored_db (concat shards)) (delta_puts dl)))) = view 1 (store d0).
Proof.
  cbv zeta. split; [cbn; repeat split; lia|].
  split; [vm_compute; reflexivity|]. split; [lia|].
  split; [vm_compute; reflexivity|]. split; [vm_compute; reflexivity|].
  match goal with |- context [dbackup ?a ?b ?c ?d ?e ?f ?g ?h] =>
    let t := eval vm_compute in (dbackup a b c d e f g h) in
    change (dbackup a b c d e f g h) with t
  end.
  cbv beta iota.
  split; [reflexivity|]. split; [reflexivity|]. split; [reflexivity|]. split; [reflexivity|].
  split; [vm_compute; reflexivity|]. split; [reflexivity|].
  split; [|split].
  - assert (Ev : view 1 (store (fst (run bytes_cmp db_init
              [NewWriter; Put 0 [97]; Put 0 [98]; Put 0 [99]; Put 0 [100]; Put 0 [101]; NewSnapshot])))
            = [[97]; [98]; [99]; [100]; [101]]) by (vm_compute; reflexivity).
    rewrite Ev. intros x. cbn [concat app In]. tauto.
  - cbn [concat app]. repeat (constructor; [|repeat (constructor; [vm_compute; reflexivity|])]); constructor.
  - vm_compute. reflexivity.
Qed.
