(** The specification the MVCC model refines: a set of items keyed by the comparator, kept as a
    list sorted by key; every successful Put hands out a fresh handle; a snapshot is the list of
    items frozen at its creation.  Garbage collection does not exist at this level. *)
From NV Require Import Base.Bytes Mvcc.Store Mvcc.Ops.
Open Scope N_scope.

Record ssnap := mkSSnap { ss_sn : N; ss_ref : Z; ss_items : list (list N) }.

Record spec := mkSpec {
  sp_live : list (N * list N);     (* (handle, item), ascending by key *)
  sp_next : N;                     (* next handle *)
  sp_sn : N;                       (* current snapshot number *)
  sp_count : Z;                    (* ItemsCount: size of the set as of the last snapshot *)
  sp_snaps : list ssnap
}.

Definition spec_init : spec := mkSpec [] 0 1 0 [].

Section Spec.
Variable kcmp : list N -> list N -> comparison.

Definition keq (a b : list N) : bool := match kcmp a b with Eq => true | _ => false end.

Definition sp_find (bs : list N) (l : list (N * list N)) : option (N * list N) :=
  find (fun e => keq bs (snd e)) l.

Fixpoint sp_insert (e : N * list N) (l : list (N * list N)) : list (N * list N) :=
  match l with
  | [] => [e]
  | x :: r => match kcmp (snd x) (snd e) with
              | Lt => x :: sp_insert e r
              | _ => e :: l
              end
  end.

Definition sp_remove (h : N) (l : list (N * list N)) : list (N * list N) :=
  filter (fun e => negb (fst e =? h)) l.

Definition sp_has (h : N) (l : list (N * list N)) : bool := existsb (fun e => fst e =? h) l.

Definition sp_find_snap (sn : N) (l : list ssnap) : option ssnap := find (fun s => ss_sn s =? sn) l.

Definition sp_step (s : spec) (o : op) : spec * out :=
  match o with
  | Put _ bs =>
    match sp_find bs (sp_live s) with
    | Some _ => (s, ONode None)
    | None => (mkSpec (sp_insert (sp_next s, bs) (sp_live s)) (sp_next s + 1) (sp_sn s) (sp_count s) (sp_snaps s),
               ONode (Some (sp_next s)))
    end
  | GetNode _ bs => (s, ONode (option_map fst (sp_find bs (sp_live s))))
  | Delete _ bs =>
    match sp_find bs (sp_live s) with
    | Some e => (mkSpec (sp_remove (fst e) (sp_live s)) (sp_next s) (sp_sn s) (sp_count s) (sp_snaps s),
                 ODel (Some (fst e)) true)
    | None => (s, ODel None false)
    end
  | DeleteNode _ h =>
    if sp_has h (sp_live s)
    then (mkSpec (sp_remove h (sp_live s)) (sp_next s) (sp_sn s) (sp_count s) (sp_snaps s), OBool true)
    else (s, OBool false)
  | NewSnapshot =>
    let c := Z.of_nat (length (sp_live s)) in
    (mkSpec (sp_live s) (sp_next s) (sp_sn s + 1) c
            (sp_snaps s ++ [mkSSnap (sp_sn s) 1 (map snd (sp_live s))]), OSnap (sp_sn s) c)
  | OpenSnap sn =>
    match sp_find_snap sn (sp_snaps s) with
    | Some x => if (ss_ref x =? 0)%Z then (s, OBool false)
                else (mkSpec (sp_live s) (sp_next s) (sp_sn s) (sp_count s)
                        (map (fun y => if ss_sn y =? sn then mkSSnap (ss_sn y) (ss_ref y + 1) (ss_items y) else y) (sp_snaps s)),
                      OBool true)
    | None => (s, OBool false)
    end
  | CloseSnap sn =>
    (mkSpec (sp_live s) (sp_next s) (sp_sn s) (sp_count s)
       (map (fun y => if (ss_sn y =? sn) && (0 <? ss_ref y)%Z then mkSSnap (ss_sn y) (ss_ref y - 1) (ss_items y) else y) (sp_snaps s)),
     OUnit)
  | Scan sn =>
    match sp_find_snap sn (sp_snaps s) with
    | Some x => (s, OItems (if (ss_ref x =? 0)%Z then None else Some (ss_items x)))
    | None => (s, OItems None)
    end
  | ItemsCount => (s, OCount (sp_count s))
  | NewWriter | GC | WorkerStep => (s, OUnit)
  | Drain => (s, OPhys [])
  end.

Fixpoint sp_run (s : spec) (ops : list op) : spec * list out :=
  match ops with
  | [] => (s, [])
  | o :: r => let '(s', x) := sp_step s o in let '(s'', xs) := sp_run s' r in (s'', x :: xs)
  end.

End Spec.

(** the physical level is invisible to the specification *)
Definition proj (o : out) : out := match o with OPhys _ => OPhys [] | x => x end.
