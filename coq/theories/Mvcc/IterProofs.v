(** Proofs about the iterator and the visitor of the MVCC model. *)
From NV Require Import Base.Bytes Mvcc.Store Mvcc.Ops Mvcc.Spec Mvcc.InvDefs Mvcc.Stmts.
From Coq Require Import ZifyN ZifyNat ZifyBool.
Open Scope N_scope.

(** ** generic list facts *)
Lemma skipn_nth_some {A} : forall (s : list A) p v,
  nth_error s p = Some v -> skipn p s = v :: skipn (S p) s.
Proof.
  induction s as [|x s IH]; intros p v H.
  - destruct p; discriminate.
  - destruct p as [|p].
    + cbn in H. inversion H. reflexivity.
    + cbn in H. cbn [skipn]. rewrite (IH p v H). reflexivity.
Qed.

Lemma skipn_nth_none {A} : forall (s : list A) p,
  nth_error s p = None -> skipn p s = [].
Proof.
  intros s p H. apply nth_error_None in H. apply skipn_all2. exact H.
Qed.

Lemma span_app {A} (f : A -> bool) : forall l, fst (span f l) ++ snd (span f l) = l.
Proof.
  induction l as [|x l IH]; [reflexivity|].
  cbn [span]. destruct (f x).
  - destruct (span f l) as [a b]. cbn in *. rewrite IH. reflexivity.
  - reflexivity.
Qed.

Lemma span_fst_all {A} (f : A -> bool) : forall l, Forall (fun x => f x = true) (fst (span f l)).
Proof.
  induction l as [|x l IH]; [constructor|].
  cbn [span]. destruct (f x) eqn:E.
  - destruct (span f l) as [a b]. cbn in *. constructor; assumption.
  - constructor.
Qed.

Lemma span_split {A} (f : A -> bool) : forall l1 l2,
  Forall (fun x => f x = true) l1 ->
  span f (l1 ++ l2) = (l1 ++ fst (span f l2), snd (span f l2)).
Proof.
  induction l1 as [|x l1 IH]; intros l2 H.
  - cbn [app]. destruct (span f l2); reflexivity.
  - inversion H as [|? ? Hx Hl]; subst. cbn [app span]. rewrite Hx.
    rewrite (IH l2 Hl). reflexivity.
Qed.

Lemma span_none {A} (f : A -> bool) : forall l,
  Forall (fun x => f x = false) l -> span f l = ([], l).
Proof.
  intros l H. destruct l as [|x l]; [reflexivity|].
  inversion H as [|? ? Hx Hl]; subst. cbn [span]. rewrite Hx. reflexivity.
Qed.

Lemma span_exact {A} (f : A -> bool) : forall l1 l2,
  Forall (fun x => f x = true) l1 -> Forall (fun x => f x = false) l2 ->
  span f (l1 ++ l2) = (l1, l2).
Proof.
  intros l1 l2 H1 H2. rewrite (span_split f l1 l2 H1), (span_none f l2 H2).
  cbn. rewrite app_nil_r. reflexivity.
Qed.

Lemma span_true {A} : forall (l : list A), span (fun _ => true) l = (l, []).
Proof.
  induction l as [|x l IH]; [reflexivity|]. cbn [span]. rewrite IH. reflexivity.
Qed.

Lemma Forall_filter {A} (P : A -> Prop) (f : A -> bool) : forall l,
  Forall P l -> Forall P (filter f l).
Proof.
  intros l H. apply Forall_forall. intros x Hx. apply filter_In in Hx.
  rewrite Forall_forall in H. apply H. tauto.
Qed.

Lemma find_app {A} (f : A -> bool) : forall l1 l2,
  find f (l1 ++ l2) = match find f l1 with Some x => Some x | None => find f l2 end.
Proof.
  induction l1 as [|x l1 IH]; intros l2; [reflexivity|].
  cbn. destruct (f x); [reflexivity|apply IH].
Qed.

Lemma find_ext_in {A} (f g : A -> bool) : forall l,
  (forall x, In x l -> f x = g x) -> find f l = find g l.
Proof.
  induction l as [|x l IH]; intros H; [reflexivity|].
  cbn. rewrite (H x (or_introl eq_refl)). destruct (g x); [reflexivity|].
  apply IH. intros y Hy. apply H. right. exact Hy.
Qed.

Lemma find_none_all {A} (f : A -> bool) : forall l,
  Forall (fun x => f x = false) l -> find f l = None.
Proof.
  induction l as [|x l IH]; intros H; [reflexivity|].
  inversion H; subst. cbn. rewrite H2. apply IH. assumption.
Qed.

(** ** skip_unwanted: the position is independent of the counter *)
Fixpoint skip_pos (fuel : nat) (s : list ver) (sn : N) (pos : nat) : nat :=
  match fuel with
  | O => pos
  | S f =>
    match nth_error s pos with
    | Some v => if visible sn v then pos else skip_pos f s sn (S pos)
    | None => pos
    end
  end.

Lemma skip_unwanted_pos : forall fuel s sn pos c,
  fst (skip_unwanted fuel s sn pos c) = skip_pos fuel s sn pos.
Proof.
  induction fuel as [|f IH]; intros s sn pos c; [reflexivity|].
  cbn [skip_unwanted skip_pos]. destruct (nth_error s pos) as [v|]; [|reflexivity].
  destruct (visible sn v); [reflexivity|apply IH].
Qed.

Definition stands (s : list ver) (sn : N) (p : nat) : Prop :=
  (length s <= p)%nat \/ exists v, nth_error s p = Some v /\ visible sn v = true.

Lemma skip_pos_spec : forall fuel s sn pos, (length s - pos < fuel)%nat ->
  (pos <= skip_pos fuel s sn pos)%nat /\
  (forall i, (pos <= i < skip_pos fuel s sn pos)%nat ->
     exists w, nth_error s i = Some w /\ visible sn w = false) /\
  stands s sn (skip_pos fuel s sn pos).
Proof.
  induction fuel as [|f IH]; intros s sn pos Hf; [lia|].
  cbn [skip_pos]. destruct (nth_error s pos) as [v|] eqn:E.
  - destruct (visible sn v) eqn:V.
    + split; [lia|]. split; [intros i Hi; lia|]. right. exists v. split; assumption.
    + assert (Hlt : (pos < length s)%nat) by (apply nth_error_Some; rewrite E; discriminate).
      destruct (IH s sn (S pos)) as (H1 & H2 & H3); [lia|].
      split; [lia|]. split; [|exact H3].
      intros i Hi. destruct (Nat.eq_dec i pos) as [->|Hne].
      * exists v. split; assumption.
      * apply H2. lia.
  - split; [lia|]. split; [intros i Hi; lia|]. left. apply nth_error_None. exact E.
Qed.

Lemma skip_pos_unique : forall fuel s sn pos p, (length s - pos < fuel)%nat ->
  (pos <= p)%nat ->
  (forall i, (pos <= i < p)%nat -> exists w, nth_error s i = Some w /\ visible sn w = false) ->
  stands s sn p ->
  skip_pos fuel s sn pos = p.
Proof.
  intros fuel s sn pos p Hf Hle Hinv Hst.
  destruct (skip_pos_spec fuel s sn pos Hf) as (H1 & H2 & H3).
  set (q := skip_pos fuel s sn pos) in *.
  destruct (Nat.lt_trichotomy q p) as [Hlt|[Heq|Hgt]]; [|exact Heq|].
  - exfalso. destruct (Hinv q) as (w & Hw & Vw); [lia|].
    destruct H3 as [H3|(v & Hv & Vv)].
    + apply nth_error_None in H3. congruence.
    + congruence.
  - exfalso. destruct (H2 p) as (w & Hw & Vw); [lia|].
    destruct Hst as [H4|(v & Hv & Vv)].
    + apply nth_error_None in H4. congruence.
    + congruence.
Qed.

Lemma skip_pos_find : forall fuel s sn pos, (length s - pos < fuel)%nat ->
  nth_error s (skip_pos fuel s sn pos) = find (visible sn) (skipn pos s).
Proof.
  induction fuel as [|f IH]; intros s sn pos Hf; [lia|].
  cbn [skip_pos]. destruct (nth_error s pos) as [v|] eqn:E.
  - rewrite (skipn_nth_some s pos v E). cbn [find].
    destruct (visible sn v) eqn:V; [exact E|].
    assert (Hlt : (pos < length s)%nat) by (apply nth_error_Some; rewrite E; discriminate).
    apply IH. lia.
  - rewrite (skipn_nth_none s pos E). exact E.
Qed.

Lemma skip_pos_filter : forall fuel s sn pos, (length s - pos < fuel)%nat ->
  filter (visible sn) (skipn (skip_pos fuel s sn pos) s) = filter (visible sn) (skipn pos s).
Proof.
  induction fuel as [|f IH]; intros s sn pos Hf; [lia|].
  cbn [skip_pos]. destruct (nth_error s pos) as [v|] eqn:E; [|reflexivity].
  destruct (visible sn v) eqn:V; [reflexivity|].
  assert (Hlt : (pos < length s)%nat) by (apply nth_error_Some; rewrite E; discriminate).
  rewrite (skipn_nth_some s pos v E). cbn [filter]. rewrite V. apply IH. lia.
Qed.

(** ** iterator accessors *)
Lemma it_skip_pos : forall s it,
  it_pos (it_skip s it) = skip_pos (S (length s)) s (it_sn it) (it_pos it).
Proof.
  intros s it. unfold it_skip.
  rewrite <- (skip_unwanted_pos (S (length s)) s (it_sn it) (it_pos it) (it_count it)).
  destruct (skip_unwanted (S (length s)) s (it_sn it) (it_pos it) (it_count it)); reflexivity.
Qed.

Lemma it_skip_sn : forall s it, it_sn (it_skip s it) = it_sn it.
Proof.
  intros s it. unfold it_skip.
  destruct (skip_unwanted (S (length s)) s (it_sn it) (it_pos it) (it_count it)); reflexivity.
Qed.

Lemma it_skip_rate : forall s it, it_rate (it_skip s it) = it_rate it.
Proof.
  intros s it. unfold it_skip.
  destruct (skip_unwanted (S (length s)) s (it_sn it) (it_pos it) (it_count it)); reflexivity.
Qed.

Section IterProofs.
Variable kcmp : list N -> list N -> comparison.
Hypothesis laws : cmp_laws kcmp.

Lemma it_refresh_sn : forall s it, it_sn (it_refresh kcmp s it) = it_sn it.
Proof.
  intros s it. unfold it_refresh. destruct (it_get s it); [|reflexivity].
  rewrite it_skip_sn. reflexivity.
Qed.

Lemma it_refresh_rate : forall s it, it_rate (it_refresh kcmp s it) = it_rate it.
Proof.
  intros s it. unfold it_refresh. destruct (it_get s it); [|reflexivity].
  rewrite it_skip_rate. reflexivity.
Qed.

Lemma it_next_sn : forall s it, it_sn (it_next kcmp s it) = it_sn it.
Proof.
  intros s it. unfold it_next.
  match goal with |- context [if ?b then _ else _] => destruct b end.
  - cbn [it_sn]. rewrite it_refresh_sn, it_skip_sn. reflexivity.
  - rewrite it_skip_sn. reflexivity.
Qed.

Lemma it_next_rate : forall s it, it_rate (it_next kcmp s it) = it_rate it.
Proof.
  intros s it. unfold it_next.
  match goal with |- context [if ?b then _ else _] => destruct b end.
  - cbn [it_rate]. rewrite it_refresh_rate, it_skip_rate. reflexivity.
  - rewrite it_skip_rate. reflexivity.
Qed.

Lemma it_next_pos_rate0 : forall s it, it_rate it = 0%Z ->
  it_pos (it_next kcmp s it) = skip_pos (S (length s)) s (it_sn it) (S (it_pos it)).
Proof.
  intros s it Hr. unfold it_next. rewrite it_skip_rate. cbn [it_rate]. rewrite Hr.
  cbn [Z.ltb Z.compare andb]. rewrite it_skip_pos. reflexivity.
Qed.

(** ** the scan loop, given that Next lands where skipping from the next position lands *)
Definition next_ok (s : list ver) (sn : N) (rate : Z) : Prop :=
  forall it, it_sn it = sn -> it_rate it = rate ->
    it_pos (it_next kcmp s it) = skip_pos (S (length s)) s sn (S (it_pos it)).

Lemma scan_loop_gen : forall s sn rate, next_ok s sn rate ->
  forall fuel it acc, it_sn it = sn -> it_rate it = rate ->
    (length s - it_pos it < fuel)%nat -> stands s sn (it_pos it) ->
    scan_loop kcmp fuel s it acc = rev acc ++ map vitem (filter (visible sn) (skipn (it_pos it) s)).
Proof.
  intros s sn rate Hn. induction fuel as [|f IH]; intros it acc Hsn Hr Hf Hst; [lia|].
  cbn [scan_loop]. unfold it_get. destruct (nth_error s (it_pos it)) as [v|] eqn:E.
  - assert (V : visible sn v = true).
    { destruct Hst as [H|(w & Hw & Vw)].
      - apply nth_error_None in H. congruence.
      - congruence. }
    assert (Hlt : (it_pos it < length s)%nat) by (apply nth_error_Some; rewrite E; discriminate).
    destruct (skip_pos_spec (S (length s)) s sn (S (it_pos it))) as (H1 & H2 & H3); [lia|].
    rewrite IH.
    + rewrite (Hn it Hsn Hr). rewrite skip_pos_filter by lia.
      rewrite (skipn_nth_some s (it_pos it) v E). cbn [filter]. rewrite V.
      cbn [rev map]. rewrite <- app_assoc. reflexivity.
    + rewrite it_next_sn. exact Hsn.
    + rewrite it_next_rate. exact Hr.
    + rewrite (Hn it Hsn Hr). lia.
    + rewrite (Hn it Hsn Hr). exact H3.
  - rewrite (skipn_nth_none s (it_pos it) E). cbn. rewrite app_nil_r. reflexivity.
Qed.

Lemma next_ok_rate0 : forall s sn, next_ok s sn 0%Z.
Proof.
  intros s sn it Hsn Hr. rewrite (it_next_pos_rate0 s it Hr). rewrite Hsn. reflexivity.
Qed.

Lemma scan_with_rate_gen : forall s sn rate, next_ok s sn rate ->
  scan_with_rate kcmp s sn rate = view sn s.
Proof.
  intros s sn rate Hn. unfold scan_with_rate, view.
  destruct (skip_pos_spec (S (length s)) s sn 0%nat) as (H1 & H2 & H3); [lia|].
  rewrite (scan_loop_gen s sn rate Hn).
  - unfold it_seek_first. rewrite it_skip_pos. cbn [it_sn it_pos rev app].
    rewrite skip_pos_filter by lia. reflexivity.
  - unfold it_seek_first. rewrite it_skip_sn. reflexivity.
  - unfold it_seek_first. rewrite it_skip_rate. reflexivity.
  - lia.
  - unfold it_seek_first. rewrite it_skip_pos. cbn [it_sn it_pos]. exact H3.
Qed.

Lemma scan_is_view : stmt_scan_is_view kcmp.
Proof.
  intros s sn. apply scan_with_rate_gen. apply next_ok_rate0.
Qed.

Lemma seek_first_exact : stmt_seek_first_exact.
Proof.
  intros s sn p c r. unfold it_get, it_seek_first. rewrite it_skip_pos. cbn [it_sn it_pos].
  rewrite skip_pos_find by lia. reflexivity.
Qed.

Lemma next_exact : stmt_next_exact kcmp.
Proof.
  intros s it Hr. unfold it_get. rewrite (it_next_pos_rate0 s it Hr).
  rewrite skip_pos_find by lia. reflexivity.
Qed.


(** ** comparator laws *)
Lemma kc_refl : forall a, kcmp a a = Eq.
Proof.
  intros a. pose proof (kc_antisym kcmp laws a a) as H.
  destruct (kcmp a a); cbn in H; congruence.
Qed.

Lemma kc_gt_lt : forall a b, kcmp a b = Gt -> kcmp b a = Lt.
Proof. intros a b H. rewrite (kc_antisym kcmp laws a b), H. reflexivity. Qed.

Lemma kc_lt_gt : forall a b, kcmp a b = Lt -> kcmp b a = Gt.
Proof. intros a b H. rewrite (kc_antisym kcmp laws a b), H. reflexivity. Qed.

Lemma kc_eq_sym : forall a b, kcmp a b = Eq -> kcmp b a = Eq.
Proof. intros a b H. rewrite (kc_antisym kcmp laws a b), H. reflexivity. Qed.

Lemma kc_eq_r : forall a b c, kcmp a b = Eq -> kcmp c a = kcmp c b.
Proof.
  intros a b c H. rewrite (kc_antisym kcmp laws a c), (kc_antisym kcmp laws b c).
  rewrite (kc_eq_l kcmp laws a b c H). reflexivity.
Qed.

(** ** sortedness *)
Lemma sorted_app_r : forall l1 l2, sorted kcmp (l1 ++ l2) -> sorted kcmp l2.
Proof.
  induction l1 as [|x l1 IH]; intros l2 H; [exact H|].
  cbn in H. destruct H as [_ H]. apply IH. exact H.
Qed.

Lemma sorted_nth : forall s i j w v, sorted kcmp s -> (i < j)%nat ->
  nth_error s i = Some w -> nth_error s j = Some v -> vlt kcmp w v.
Proof.
  induction s as [|x s IH]; intros i j w v Hs Hij Hi Hj.
  - destruct i; discriminate.
  - cbn in Hs. destruct Hs as [Hx Hs]. destruct j as [|j]; [lia|]. cbn in Hj.
    destruct i as [|i].
    + cbn in Hi. inversion Hi; subst. rewrite Forall_forall in Hx. apply Hx.
      eapply nth_error_In. exact Hj.
    + cbn in Hi. apply (IH i j w v Hs); [lia|exact Hi|exact Hj].
Qed.

Lemma not_before_later : forall bs x y,
  before_key kcmp bs x = false -> vlt kcmp x y -> before_key kcmp bs y = false.
Proof.
  intros bs x y Hx Hxy. unfold before_key in *.
  destruct (kcmp (vitem y) bs) eqn:Ey; try reflexivity.
  exfalso. destruct Hxy as [Hlt|[Heq _]].
  - rewrite (kc_trans kcmp laws _ _ _ Hlt Ey) in Hx. discriminate.
  - rewrite (kc_eq_l kcmp laws _ _ bs Heq), Ey in Hx. discriminate.
Qed.

Lemma span_sorted_snd : forall bs s, sorted kcmp s ->
  Forall (fun v => before_key kcmp bs v = false) (snd (span (before_key kcmp bs) s)).
Proof.
  intros bs. induction s as [|x s IH]; intros Hs; [constructor|].
  cbn in Hs. destruct Hs as [Hx Hs]. cbn [span].
  destruct (before_key kcmp bs x) eqn:E.
  - specialize (IH Hs). destruct (span (before_key kcmp bs) s) as [a b]. exact IH.
  - cbn [snd]. constructor; [exact E|].
    rewrite Forall_forall in *. intros y Hy. eapply not_before_later; [exact E|]. apply Hx. exact Hy.
Qed.

Lemma key_pos_split : forall s bs, sorted kcmp s ->
  exists l1 l2, s = l1 ++ l2 /\ key_pos kcmp s bs = length l1 /\
    Forall (fun v => before_key kcmp bs v = true) l1 /\
    Forall (fun v => before_key kcmp bs v = false) l2.
Proof.
  intros s bs Hs. exists (fst (span (before_key kcmp bs) s)), (snd (span (before_key kcmp bs) s)).
  split; [symmetry; apply span_app|]. split; [reflexivity|].
  split; [apply span_fst_all|apply span_sorted_snd; exact Hs].
Qed.

Lemma skipn_length_app {A} : forall (l1 l2 : list A), skipn (length l1) (l1 ++ l2) = l2.
Proof. induction l1 as [|x l1 IH]; intros l2; [reflexivity|]. cbn. apply IH. Qed.

(** Seek probes with bornSn 0: the insert comparator then advances exactly as the key-only one *)
Lemma span_ext {A} (f g : A -> bool) : (forall x, f x = g x) -> forall l, span f l = span g l.
Proof.
  intros H. induction l as [|x l IH]; [reflexivity|].
  cbn [span]. rewrite (H x), IH. reflexivity.
Qed.

Lemma before_ins_0 : forall bs v, before_ins kcmp bs 0 v = before_key kcmp bs v.
Proof.
  intros bs v. unfold before_ins, before_key, ins_cmp.
  destruct (kcmp (vitem v) bs); try reflexivity.
  destruct (vborn v ?= 0) eqn:E; try reflexivity.
  exfalso. rewrite N.compare_lt_iff in E. exact (N.nlt_0_r _ E).
Qed.

Lemma ins_pos_0 : forall s bs, ins_pos kcmp s bs 0 = key_pos kcmp s bs.
Proof.
  intros s bs. unfold ins_pos, key_pos.
  rewrite (span_ext _ _ (before_ins_0 bs) s). reflexivity.
Qed.

Lemma it_seek_pos : forall s it bs,
  it_pos (it_seek kcmp s it bs) = skip_pos (S (length s)) s (it_sn it) (key_pos kcmp s bs).
Proof.
  intros s it bs. unfold it_seek. rewrite it_skip_pos. cbn [it_sn it_pos].
  rewrite ins_pos_0. reflexivity.
Qed.

Lemma seek_exact : stmt_seek_exact kcmp.
Proof.
  intros cur s sn p c r bs Hinv. unfold it_get. rewrite it_seek_pos. cbn [it_sn].
  rewrite skip_pos_find by lia.
  destruct (key_pos_split s bs (si_sorted _ _ _ Hinv)) as (l1 & l2 & Hs & Hk & H1 & H2).
  rewrite Hk. rewrite Hs. rewrite skipn_length_app. rewrite find_app.
  rewrite (find_none_all _ l1).
  - apply find_ext_in. intros x Hx. rewrite Forall_forall in H2. rewrite (H2 x Hx).
    cbn. rewrite andb_true_r. reflexivity.
  - rewrite Forall_forall in *. intros x Hx. rewrite (H1 x Hx). cbn. apply andb_false_r.
Qed.

(** ** refresh does not move *)
Lemma before_ins_vlt : forall w v, vlt kcmp w v -> before_ins kcmp (vitem v) (vborn v) w = true.
Proof.
  intros w v [Hl|[He Hb]]; unfold before_ins, ins_cmp.
  - rewrite Hl. reflexivity.
  - rewrite He. apply N.compare_lt_iff in Hb. rewrite Hb. reflexivity.
Qed.

Lemma before_ins_self : forall v, before_ins kcmp (vitem v) (vborn v) v = false.
Proof.
  intros v. unfold before_ins, ins_cmp. rewrite kc_refl, N.compare_refl. reflexivity.
Qed.

(** the insert comparator finds a stored version at its own position *)
Lemma ins_pos_self : forall s p v, sorted kcmp s -> nth_error s p = Some v ->
  ins_pos kcmp s (vitem v) (vborn v) = p.
Proof.
  intros s p v Hsorted Hp. unfold ins_pos.
  assert (Hlt : (p < length s)%nat) by (apply nth_error_Some; rewrite Hp; discriminate).
  rewrite <- (firstn_skipn p s) at 1. rewrite (skipn_nth_some s p v Hp).
  rewrite span_split.
  - cbn [span]. rewrite before_ins_self. cbn [fst]. rewrite app_nil_r.
    rewrite firstn_length. lia.
  - apply Forall_forall. intros w Hw. apply before_ins_vlt.
    apply In_nth_error in Hw. destruct Hw as [i Hi].
    assert (Hil : (i < p)%nat).
    { assert (H : (i < length (firstn p s))%nat) by (apply nth_error_Some; rewrite Hi; discriminate).
      rewrite firstn_length in H. lia. }
    apply (sorted_nth s i p w v Hsorted Hil); [|exact Hp].
    rewrite <- (firstn_skipn p s). rewrite nth_error_app1; [exact Hi|].
    rewrite firstn_length. lia.
Qed.

Lemma refresh_pos : stmt_refresh_pos kcmp.
Proof.
  intros cur s it v Hinv Hg V. unfold it_refresh. rewrite Hg. rewrite it_skip_pos. cbn [it_sn it_pos].
  unfold it_get in Hg.
  rewrite (ins_pos_self s (it_pos it) v (si_sorted _ _ _ Hinv) Hg).
  cbn [skip_pos]. rewrite Hg, V. reflexivity.
Qed.

Lemma next_ok_inv : forall cur s sn rate, store_inv kcmp cur s -> next_ok s sn rate.
Proof.
  intros cur s sn rate Hinv it Hsn Hr. unfold it_next.
  set (it1 := it_skip s _).
  assert (Hp1 : it_pos it1 = skip_pos (S (length s)) s sn (S (it_pos it))).
  { unfold it1. rewrite it_skip_pos. cbn [it_sn it_pos]. rewrite Hsn. reflexivity. }
  assert (Hsn1 : it_sn it1 = sn) by (unfold it1; rewrite it_skip_sn; exact Hsn).
  match goal with |- context [if ?b then _ else _] => destruct b end; [|exact Hp1].
  cbn [it_pos]. rewrite <- Hp1.
  destruct (it_get s it1) as [v|] eqn:Eg.
  - apply (refresh_pos cur s it1 v Hinv Eg).
    destruct (skip_pos_spec (S (length s)) s sn (S (it_pos it))) as (_ & _ & H3); [lia|].
    rewrite <- Hp1 in H3. unfold it_get in Eg. rewrite Hsn1.
    destruct H3 as [H3|(w & Hw & Vw)].
    + apply nth_error_None in H3. congruence.
    + congruence.
  - unfold it_refresh. rewrite Eg. reflexivity.
Qed.

Lemma scan_any_rate : stmt_scan_any_rate kcmp.
Proof.
  intros cur s sn rate Hinv _. apply scan_with_rate_gen. apply (next_ok_inv cur). exact Hinv.
Qed.


(** ** visitor *)
Definition lt_end (endp : option pivot) (v : ver) : bool :=
  match endp with None => true | Some e => before_key kcmp (fst e) v end.

Definition drop_start (startp : option pivot) (l : list ver) : list ver :=
  match startp with None => l | Some a => snd (span (before_key kcmp (fst a)) l) end.

Lemma past_lt_end : forall endp v,
  match endp with
  | None => false
  | Some e => match pv_cmp kcmp true (vitem v, vborn v) e with Lt => false | _ => true end
  end = negb (lt_end endp v).
Proof.
  intros [e|] v; [|reflexivity]. unfold lt_end, pv_cmp, before_key. cbn [fst snd].
  destruct (kcmp (vitem v) (fst e)); reflexivity.
Qed.

Lemma shard_loop_gen : forall s sn rate endp, next_ok s sn rate ->
  forall fuel it acc, it_sn it = sn -> it_rate it = rate ->
    (length s - it_pos it < fuel)%nat -> stands s sn (it_pos it) ->
    shard_loop kcmp fuel true s it endp acc =
    rev acc ++ map vitem (fst (span (lt_end endp) (filter (visible sn) (skipn (it_pos it) s)))).
Proof.
  intros s sn rate endp Hn. induction fuel as [|f IH]; intros it acc Hsn Hr Hf Hst; [lia|].
  cbn [shard_loop]. unfold it_get. destruct (nth_error s (it_pos it)) as [v|] eqn:E.
  - assert (V : visible sn v = true).
    { destruct Hst as [H|(w & Hw & Vw)].
      - apply nth_error_None in H. congruence.
      - congruence. }
    assert (Hlt : (it_pos it < length s)%nat) by (apply nth_error_Some; rewrite E; discriminate).
    destruct (skip_pos_spec (S (length s)) s sn (S (it_pos it))) as (H1 & H2 & H3); [lia|].
    rewrite past_lt_end.
    rewrite (skipn_nth_some s (it_pos it) v E). cbn [filter]. rewrite V. cbn [span].
    destruct (lt_end endp v) eqn:L; cbn [negb].
    + rewrite IH.
      * rewrite (Hn it Hsn Hr). rewrite skip_pos_filter by lia.
        destruct (span (lt_end endp) (filter (visible sn) (skipn (S (it_pos it)) s))) as [a b].
        cbn [fst rev map]. rewrite <- app_assoc. reflexivity.
      * rewrite it_next_sn. exact Hsn.
      * rewrite it_next_rate. exact Hr.
      * rewrite (Hn it Hsn Hr). lia.
      * rewrite (Hn it Hsn Hr). exact H3.
    + cbn. rewrite app_nil_r. reflexivity.
  - rewrite (skipn_nth_none s (it_pos it) E). cbn. rewrite app_nil_r. reflexivity.
Qed.

Lemma run_shard_spec : forall s sn rate startp endp, sorted kcmp s -> next_ok s sn rate ->
  run_shard kcmp true s sn rate startp endp =
  map vitem (fst (span (lt_end endp) (drop_start startp (filter (visible sn) s)))).
Proof.
  intros s sn rate startp endp Hsorted Hn. unfold run_shard.
  destruct startp as [a|].
  - destruct (key_pos_split s (fst a) Hsorted) as (l1 & l2 & Hs & Hk & H1 & H2).
    destruct (skip_pos_spec (S (length s)) s sn (key_pos kcmp s (fst a))) as (G1 & G2 & G3); [lia|].
    rewrite (shard_loop_gen s sn rate endp Hn).
    + rewrite it_seek_pos. cbn [it_sn rev app]. rewrite skip_pos_filter by lia.
      unfold drop_start. rewrite Hk. rewrite Hs. rewrite skipn_length_app. rewrite filter_app.
      rewrite (span_exact (before_key kcmp (fst a))) by (apply Forall_filter; assumption).
      reflexivity.
    + unfold it_seek. rewrite it_skip_sn. reflexivity.
    + unfold it_seek. rewrite it_skip_rate. reflexivity.
    + lia.
    + rewrite it_seek_pos. cbn [it_sn]. exact G3.
  - destruct (skip_pos_spec (S (length s)) s sn 0%nat) as (G1 & G2 & G3); [lia|].
    rewrite (shard_loop_gen s sn rate endp Hn).
    + unfold it_seek_first. rewrite it_skip_pos. cbn [it_sn it_pos rev app].
      rewrite skip_pos_filter by lia. reflexivity.
    + unfold it_seek_first. rewrite it_skip_sn. reflexivity.
    + unfold it_seek_first. rewrite it_skip_rate. reflexivity.
    + lia.
    + unfold it_seek_first. rewrite it_skip_pos. cbn [it_sn it_pos]. exact G3.
Qed.

Fixpoint chain (a : pivot) (ps : list pivot) : Prop :=
  match ps with
  | [] => True
  | b :: r => kcmp (fst a) (fst b) = Lt /\ chain b r
  end.

Lemma filter_pivots_chain : forall s sn ps a, chain a (filter_pivots kcmp true s sn (Some a) ps).
Proof.
  intros s sn. induction ps as [|p r IH]; intros a; [exact I|].
  cbn [filter_pivots].
  destruct (it_valid s (it_seek kcmp s (mkIter sn 0 0 0) (fst p))); cbn [andb]; [|apply IH].
  destruct (pv_cmp kcmp true p a) eqn:E; try apply IH.
  cbn [chain]. split; [|apply IH].
  unfold pv_cmp in E. destruct (kcmp (fst p) (fst a)) eqn:K; try discriminate.
  apply kc_gt_lt. exact K.
Qed.

Lemma filter_pivots_none : forall s sn ps,
  filter_pivots kcmp true s sn None ps = [] \/
  exists b r, filter_pivots kcmp true s sn None ps = b :: r /\ chain b r.
Proof.
  intros s sn. induction ps as [|p r IH]; [left; reflexivity|].
  cbn [filter_pivots].
  destruct (it_valid s (it_seek kcmp s (mkIter sn 0 0 0) (fst p))); cbn [andb]; [|exact IH].
  right. exists p, (filter_pivots kcmp true s sn (Some p) r). split; [reflexivity|].
  apply filter_pivots_chain.
Qed.

Lemma before_key_mono : forall a b v, kcmp a b = Lt ->
  before_key kcmp a v = true -> before_key kcmp b v = true.
Proof.
  intros a b v Hab H. unfold before_key in *.
  destruct (kcmp (vitem v) a) eqn:E; try discriminate.
  rewrite (kc_trans kcmp laws _ _ _ E Hab). reflexivity.
Qed.

Lemma shards_chain : forall s sn rate, sorted kcmp s -> next_ok s sn rate ->
  forall ps a, chain a ps ->
  concat (shards_of kcmp true s sn rate (Some a) ps) =
  map vitem (snd (span (before_key kcmp (fst a)) (filter (visible sn) s))).
Proof.
  intros s sn rate Hsorted Hn. set (vis := filter (visible sn) s).
  induction ps as [|b r IH]; intros a Hc.
  - cbn [shards_of concat]. rewrite app_nil_r. rewrite (run_shard_spec s sn rate _ _ Hsorted Hn).
    fold vis. cbn [lt_end drop_start]. rewrite span_true. reflexivity.
  - cbn [chain] in Hc. destruct Hc as [Hab Hc].
    cbn [shards_of concat]. rewrite (IH b Hc). rewrite (run_shard_spec s sn rate _ _ Hsorted Hn).
    fold vis. cbn [lt_end drop_start fst].
    rewrite <- map_app. f_equal.
    set (L := snd (span (before_key kcmp (fst a)) vis)).
    assert (Hv : vis = fst (span (before_key kcmp (fst a)) vis) ++ L)
      by (symmetry; apply span_app).
    change (lt_end (Some b)) with (before_key kcmp (fst b)).
    rewrite Hv at 1.
    rewrite (span_split (before_key kcmp (fst b))).
    + cbn [snd]. apply span_app.
    + pose proof (span_fst_all (before_key kcmp (fst a)) vis) as HF.
      rewrite Forall_forall in *. intros x Hx. apply (before_key_mono (fst a) (fst b) x Hab).
      apply HF. exact Hx.
Qed.

Lemma visitor_partition : stmt_visitor_partition kcmp.
Proof.
  intros cur s sn rate pivots Hinv _. unfold visitor, view.
  pose proof (si_sorted _ _ _ Hinv) as Hsorted.
  pose proof (next_ok_inv cur s sn rate Hinv) as Hn.
  destruct (filter_pivots_none s sn pivots) as [E|(b & r & E & Hc)]; rewrite E.
  - cbn [shards_of concat]. rewrite app_nil_r. rewrite (run_shard_spec s sn rate _ _ Hsorted Hn).
    cbn [lt_end drop_start]. rewrite span_true. reflexivity.
  - cbn [shards_of concat]. rewrite (shards_chain s sn rate Hsorted Hn r b Hc).
    rewrite (run_shard_spec s sn rate _ _ Hsorted Hn). cbn [lt_end drop_start fst].
    rewrite <- map_app. f_equal. apply span_app.
Qed.

End IterProofs.
