(** C10 on a moving store: Visitor over an OPEN snapshot with arbitrary operations of other goroutines
    before the visit and between any two deliveries.  (Same scan as Mvcc/Delta.v; while the snapshot
    stays open nothing it can see is collected, so no delta arises and the shards alone are the
    snapshot.) *)
From Coq Require Import List NArith ZArith Bool Sorting.Sorted.
From NV Require Import Base.Bytes Mvcc.Store Mvcc.Ops Mvcc.Spec Mvcc.InvDefs Mvcc.Stmts Mvcc.RefineStmt Mvcc.ViewSorted
  Mvcc.Live Mvcc.Delta.
Import ListNotations.
Open Scope N_scope.

Section VisitLiveStmts.
Variable kcmp : list N -> list N -> comparison.

Definition stmt_visitor_live : Prop :=
  forall pre sn rate pivots seg0 segs,
    wf_from 0 (pre ++ seg0 ++ concat segs) ->
    let d0 := fst (run kcmp db_init pre) in
    snap_open d0 sn = true -> (0 <= rate)%Z ->
    let '(shards, d', rest, dl, fin) := dbackup kcmp true d0 sn rate pivots seg0 segs in
    fin = true -> snap_open d' sn = true ->
    dl = [] /\ concat shards = view sn (store d0).

End VisitLiveStmts.
