(** Behaviour of the code BEFORE the repairs, kept as regression witnesses: each statement below
    was true of the original code and contradicts a property; the repaired definitions are in
    Ops.v and the corresponding theorems are proved there. *)
From NV Require Import Base.Bytes Codec.Frame Mvcc.Store Mvcc.Ops.
Open Scope N_scope.

(** D1: Iterator.Refresh re-seeked by key without re-applying the visibility filter *)
Definition it_refresh_old (kcmp : list N -> list N -> comparison) (s : list ver) (it : iter) : iter :=
  match it_get s it with
  | Some v => mkIter (it_sn it) (key_pos kcmp s (vitem v)) (it_count it) (it_rate it)
  | None => it
  end.

(** key [2] was deleted in epoch 2 and re-inserted in epoch 3; a snapshot of epoch 3 pins nothing
    older, but the dead version is still physically present.  Refreshing while standing on the
    visible version moves the iterator back onto the dead one. *)
Example refresh_old_refuted :
  let s := [mkVer [1] 1 0 0; mkVer [2] 1 2 1; mkVer [2] 3 0 3; mkVer [3] 1 0 2] in
  let it := it_seek bytes_cmp s (mkIter 3 0 0 0) [2] in
  option_map vid (it_get s it) = Some 3 /\
  option_map vid (it_get s (it_refresh_old bytes_cmp s it)) = Some 1 /\
  option_map vid (it_get s (it_refresh bytes_cmp s it)) = Some 3.
Proof. vm_compute. repeat split. Qed.

(** D2: Visitor de-duplicated pivots and bounded shards with the insert comparator (key, bornSn):
    two pivots that are versions of one key make two shards deliver the visible version twice. *)
Example visitor_old_refuted :
  let s := [mkVer [1] 1 0 0; mkVer [2] 1 2 1; mkVer [2] 2 0 2; mkVer [3] 1 0 3] in
  let pivots := [([2], 1); ([2], 2)] in
  concat (visitor bytes_cmp false s 1 0 pivots) = [[1]; [2]; [2]; [3]] /\
  view 1 s = [[1]; [2]; [3]] /\
  concat (visitor bytes_cmp true s 1 0 pivots) = [[1]; [2]; [3]].
Proof. vm_compute. repeat split. Qed.
