(** C05 with delta interleaving and concurrent mutation: statements. *)
From Coq Require Import List NArith ZArith Bool Sorting.Sorted.
From NV Require Import Base.Bytes Mvcc.Store Mvcc.Ops Mvcc.Spec Mvcc.InvDefs Mvcc.Stmts Mvcc.RefineStmt Mvcc.ViewSorted
  Mvcc.Backup Mvcc.Live Mvcc.Delta.
Import ListNotations.
Open Scope N_scope.

Section DeltaStmts.
Variable kcmp : list N -> list N -> comparison.

(** After ANY history, for a snapshot open then, ANY pivots, ANY refresh rate and ANY operations of
    other goroutines before the scan and between any two delivered items — including the release of the
    snapshot itself, further deletes, new snapshots, GC passes and collection-worker steps that
    physically remove versions the snapshot can see — if the scan ran to its end then:
    (1) every item of the snapshot is in a data shard or in the delta;
    (2) the data shards and the delta contain nothing else;
    (3) the concatenation of the data shards is strictly increasing in key order (each item at most
        once, shard after shard in order: what the bulk loader needs). *)
Definition stmt_delta_backup : Prop :=
  forall pre sn rate pivots seg0 segs,
    wf_from 0 (pre ++ seg0 ++ concat segs) ->
    let d0 := fst (run kcmp db_init pre) in
    snap_open d0 sn = true -> (0 <= rate)%Z ->
    let '(shards, d', rest, dl, fin) := dbackup kcmp true d0 sn rate pivots seg0 segs in
    fin = true ->
    (forall x, In x (view sn (store d0)) <-> (In x (concat shards) \/ In x dl)) /\
    StronglySorted (key_lt kcmp) (concat shards).

(** hence restore = load the data, then Put every delta item (Puts of present keys are rejected): the
    live content is exactly the snapshot, whatever the order of the delta items *)
Definition delta_puts (dl : list (list N)) : list op := NewWriter :: map (fun x => Put 0 x) dl.

Definition stmt_delta_restore : Prop :=
  forall pre sn rate pivots seg0 segs,
    wf_from 0 (pre ++ seg0 ++ concat segs) ->
    let d0 := fst (run kcmp db_init pre) in
    snap_open d0 sn = true -> (0 <= rate)%Z ->
    let '(shards, d', rest, dl, fin) := dbackup kcmp true d0 sn rate pivots seg0 segs in
    fin = true ->
    let r := fst (run kcmp (restored_db (concat shards)) (delta_puts dl)) in
    live_items (store r) = view sn (store d0).

End DeltaStmts.
