(** A long-lived snapshot iterator on a MOVING store (C01/C09 at scan-step granularity): between two
    steps of the iterator arbitrary operations run (Put, Delete, DeleteNode, NewSnapshot, Open/Close of
    snapshots, GC passes, collection-worker steps).  The iterator remembers the NODE it stands on; each
    step re-locates that node in the current physical store and then behaves exactly as iterator.go
    does on that store (Ops.it_next / it_seek / it_refresh, visibility filter included). *)
From Coq Require Import List NArith ZArith Bool.
From NV Require Import Base.Bytes Mvcc.Store Mvcc.Ops.
Import ListNotations.
Open Scope N_scope.

(** li_vid: identity of the node the iterator stands on; None = exhausted or not yet positioned *)
Record liter := mkLIter { li_sn : N; li_vid : option N; li_count : Z; li_rate : Z; li_positioned : bool }.

Definition index_of_vid (i : N) (s : list ver) : nat :=
  length (fst (span (fun v => negb (vid v =? i)) s)).

Inductive lop :=
| LSeekFirst | LSeek (bs : list N) | LNext | LRefresh | LSetRate (r : Z)
| LOps (ops : list op).          (* other goroutines' operations between two iterator steps *)

Section Live.
Variable kcmp : list N -> list N -> comparison.

(** the static iterator of Ops.v at the live iterator's node in store s (the node of an open
    snapshot's iterator is visible to that snapshot and therefore still present: C06) *)
Definition to_iter (s : list ver) (li : liter) : iter :=
  mkIter (li_sn li) (match li_vid li with Some i => index_of_vid i s | None => length s end)
         (li_count li) (li_rate li).
Definition of_iter (s : list ver) (it : iter) (positioned : bool) : liter :=
  mkLIter (it_sn it) (option_map vid (it_get s it)) (it_count it) (it_rate it) positioned.

(** one iterator operation on the current store (LOps is handled by the runner) *)
Definition li_step (s : list ver) (li : liter) (o : lop) : liter :=
  let it := to_iter s li in
  match o with
  | LSeekFirst => of_iter s (it_seek_first s it) true
  | LSeek bs => of_iter s (it_seek kcmp s it bs) true
  | LNext => if it_valid s it then of_iter s (it_next kcmp s it) (li_positioned li) else li
  | LRefresh => if li_positioned li then of_iter s (it_refresh kcmp s it) true else li
  | LSetRate z => mkLIter (li_sn li) (li_vid li) (li_count li) z (li_positioned li)
  | LOps _ => li
  end.

(** what the caller sees after an iterator operation: Valid, and the bytes and node identity *)
Definition li_obs (s : list ver) (li : liter) : bool * option (list N * N) :=
  if li_positioned li then
    let it := to_iter s li in
    if it_valid s it then (true, option_map (fun v => (vitem v, vid v)) (it_get s it)) else (false, None)
  else (false, None).

(** run a script: iterator observations in order, and the outputs of the interleaved operations *)
Fixpoint live_run (d : db) (li : liter) (sc : list lop)
  : list (bool * option (list N * N)) * list (list out) :=
  match sc with
  | [] => ([], [])
  | LOps ops :: r =>
    let '(d', outs) := run kcmp d ops in
    let '(io, oo) := live_run d' li r in (io, outs :: oo)
  | o :: r =>
    let li' := li_step (store d) li o in
    let '(io, oo) := live_run d li' r in (li_obs (store d) li' :: io, oo)
  end.

(** a full scan with other operations between any two steps: SeekFirst after seg0, then one Next after
    each further segment; the item seen after each step (None once exhausted) *)
Definition li_item (s : list ver) (li : liter) : option (list N) :=
  match li_obs s li with (true, Some (bs, _)) => Some bs | _ => None end.

Fixpoint live_nexts (d : db) (li : liter) (segs : list (list op)) : list (option (list N)) :=
  match segs with
  | [] => []
  | seg :: r =>
    let d' := fst (run kcmp d seg) in
    let li' := li_step (store d') li LNext in
    li_item (store d') li' :: live_nexts d' li' r
  end.

Definition live_scan (d : db) (sn : N) (rate : Z) (seg0 : list op) (segs : list (list op)) : list (option (list N)) :=
  let d1 := fst (run kcmp d seg0) in
  let li0 := li_step (store d1) (mkLIter sn None 0 rate false) LSeekFirst in
  li_item (store d1) li0 :: live_nexts d1 li0 segs.

(** the snapshot is open (reference count > 0) after each segment; a released snapshot cannot be
    re-opened, so it is then open all the time *)
Definition snap_open (d : db) (sn : N) : bool :=
  match find_snap sn (snaps d) with Some s => (0 <? s_ref s)%Z | None => false end.
Fixpoint open_along (d : db) (sn : N) (segs : list (list op)) : bool :=
  match segs with
  | [] => true
  | seg :: r => let d' := fst (run kcmp d seg) in snap_open d' sn && open_along d' sn r
  end.

End Live.
