From NV Require Export Base.Bytes Base.TieBase Codec.Crc32 Table.NodeTable Table.NodeList.
Open Scope N_scope.

Definition hash_of (hk k : N) : N :=
  match hk with
  | 0 => 7
  | 1 => k mod 2
  | 2 => k mod 3
  | 3 => crc32 [k]
  | _ => k
  end.

Inductive lop := LAdd (key id : N) | LRemove (key : N) | LKeys.

Inductive case :=
| CTable (hk : N) (ops : list op) (obs : list (bool * option N * Z)) (fastc slowc conflc mem : Z)
| CList (ops : list lop) (obs : list (list N)).

Definition out_eqb (x : out) (y : bool * option N * Z) : bool :=
  let '(b, p, c) := x in let '(b', p', c') := y in
  Bool.eqb b b' && optN_eqb (option_map snd p) p' && Z.eqb c c'.

Fixpoint outs_eqb (xs : list out) (ys : list (bool * option N * Z)) : bool :=
  match xs, ys with
  | [], [] => true
  | x :: xs', y :: ys' => out_eqb x y && outs_eqb xs' ys'
  | _, _ => false
  end.

Fixpoint run_list (l : nl) (ops : list lop) : option (list (list N)) :=
  match ops with
  | [] => Some []
  | LAdd k id :: r => option_map (cons []) (run_list (nl_add l (k, id)) r)
  | LRemove k :: r =>
    match nl_remove l k with
    | Some (l', x) => option_map (cons (match x with Some n => [1; nid n] | None => [0] end)) (run_list l' r)
    | None => None
    end
  | LKeys :: r =>
    match nl_keys l with
    | Some ks => option_map (cons ks) (run_list l r)
    | None => None
    end
  end.

Definition check (c : case) : bool :=
  match c with
  | CTable hk ops obs f s cf mem =>
    let '(t, outs) := nt_run (hash_of hk) nt_empty ops in
    outs_eqb outs obs && Z.eqb (fastC t) f && Z.eqb (slowC t) s && Z.eqb (confl t) cf && Z.eqb (nt_memory t) mem
  | CList ops obs =>
    match run_list nl_empty ops with
    | Some o => list_eqb listN_eqb o obs
    | None => false
    end
  end.
