(** Correspondence cases for C19: the implementation's observed behaviour vs. the model. *)
From NV Require Export Base.Bytes Base.TieBase Codec.Frame Codec.Crc32.
Open Scope N_scope.

Notation rle := (list (N * N)) (only parsing).

Definition rend_code (e : rend) : N :=
  match e with RTerm => 0 | RErr EEOF => 1 | RErr EUnexpected => 2 | RErr ECorrupt => 3 | RFuel => 99 end.

Inductive case :=
| CRoundtrip (items : list rle) (obs_file : rle) (obs_wck : N)
             (obs_items : list rle) (obs_rck : N) (obs_end : N)
| CRead (ver : N) (stream : rle) (obs_items : list rle) (obs_rck : N) (obs_end : N)
| CKV (k v : rle) (obs_bytes : rle) (obs_k obs_v : rle)
| CCmpKV (a b : rle) (obs : Z)
| CCmpBytes (a b : rle) (obs : Z)
| CCrc (bs : rle) (obs : N).

Definition check (c : case) : bool :=
  match c with
  | CRoundtrip items obs_file obs_wck obs_items obs_rck obs_end =>
    let its := map expand items in
    let f := file_of crc32 its in
    let '(ritems, rck, rend) := read_all crc32 1 (expand obs_file) in
    bytes_eqb f (expand obs_file)
    && (w_ck (write_items crc32 its) =? obs_wck)
    && bytes_list_eqb ritems (map expand obs_items)
    && (rck =? obs_rck) && (rend_code rend =? obs_end)
  | CRead ver stream obs_items obs_rck obs_end =>
    let '(ritems, rck, rend) := read_all crc32 ver (expand stream) in
    bytes_list_eqb ritems (map expand obs_items) && (rck =? obs_rck) && (rend_code rend =? obs_end)
  | CKV k v obs_bytes obs_k obs_v =>
    let b := kv_to_bytes (expand k) (expand v) in
    let '(k', v') := kv_from_bytes (expand obs_bytes) in
    bytes_eqb b (expand obs_bytes) && bytes_eqb k' (expand obs_k) && bytes_eqb v' (expand obs_v)
  | CCmpKV a b obs => Z.eqb (comparison_code (compare_kv (expand a) (expand b))) obs
  | CCmpBytes a b obs => Z.eqb (comparison_code (bytes_cmp (expand a) (expand b))) obs
  | CCrc bs obs => crc32 (expand bs) =? obs
  end.
