(** Correspondence cases for LoadFromDisk on (possibly damaged / interrupted) backup directories. *)
From NV Require Export Base.Bytes Base.TieBase Codec.Frame Codec.Crc32 Codec.FileImage.
Open Scope N_scope.

Notation rle := (list (N * N)) (only parsing).

Inductive obs := OLoaded (items : list rle) | OErr | OPanic | OHang.

Definition cmp_of (k : N) : list N -> list N -> comparison :=
  match k with 0 => bytes_cmp | _ => compare_kv end.

(** the delta items are inserted into the assembled data items; an item whose key is present is rejected *)
Fixpoint ins_item (kc : list N -> list N -> comparison) (x : list N) (l : list (list N)) : list (list N) :=
  match l with
  | [] => [x]
  | y :: r => match kc y x with
              | Lt => y :: ins_item kc x r
              | Eq => l
              | Gt => x :: l
              end
  end.

Definition file_fun (fs : list (N * rle)) : N -> option (list N) :=
  fun k => option_map (fun e => expand (snd e)) (find (fun e => fst e =? k) fs).

Inductive case :=
| CLoad (cmpk : N) (ver : pres N)
        (dfiles : pres (list N)) (dcks : pres (list N)) (dshards : list (N * rle))
        (xfiles : pres (list N)) (xcks : pres (list N)) (xshards : list (N * rle))
        (use_delta : bool) (o : obs).

Definition check (c : case) : bool :=
  match c with
  | CLoad k ver df dc ds xf xc xs use_delta o =>
    let img := mkImg ver (mkDir df dc (file_fun ds)) (mkDir xf xc (file_fun xs)) in
    match load_data crc32 img, (if use_delta then load_delta crc32 img else LOk []) with
    | LOk data, LOk delta =>
      match o with
      | OLoaded items => bytes_list_eqb (fold_left (fun acc x => ins_item (cmp_of k) x acc) delta data) (map expand items)
      | _ => false
      end
    | _, _ => match o with OErr => true | _ => false end
    end
  end.
