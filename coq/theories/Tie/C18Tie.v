(** Correspondence cases for C18 (bulk builder, merge iterator). *)
From Coq Require Export List Arith ZArith Bool.
From NV Require Export Base.Bytes Base.Sched Skip.Model Skip.Merger Skip.Builder Base.TieBase.
Import ListNotations.
Open Scope nat_scope.

Definition obs_eqb (a b : option (bool * Z)) : bool :=
  match a, b with
  | Some (v, k), Some (v', k') => Bool.eqb v v' && Z.eqb k k'
  | None, None => true
  | _, _ => false
  end.

Definition result_eqb (a b : result) : bool :=
  match a, b with
  | RBool x, RBool y => Bool.eqb x y
  | RIter v k, RIter v' k' => Bool.eqb v v' && Z.eqb k k'
  | _, _ => false
  end.

Inductive case :=
| CMerge (reset : bool) (ls : list (list Z)) (script : list mop) (obs : list (option (bool * Z)))
| CBuild (segs : list (list (Z * nat))) (chains : list (list Z)) (level : nat) (counts : list Z) (allocs : Z)
         (ops : list op) (results : list result) (chain0_after : list Z).

Definition keys_of (c : list (Z * bool)) : list Z := map fst c.

Definition check (c : case) : bool :=
  match c with
  | CMerge reset ls script obs => list_eqb obs_eqb (m_run reset (m_init ls) script) obs
  | CBuild segs chains level counts allocs ops results after =>
    let sh0 := assemble segs in
    let y := runS (mkSys sh0 [mkThread ops None pers0 []]) (repeat 0 (2000 + 200 * length ops)) in
    Nat.eqb (sl_level sh0) level
    && list_eqb listZ_eqb (map (fun l => keys_of (chain sh0 l)) (seq 0 (S level))) chains
    && forallb (fun l => forallb (fun e => negb (snd e)) (chain sh0 l)) (seq 0 (S level))
    && listZ_eqb (firstn (length counts) (st_nodes (sts sh0))) counts
    && Z.eqb (st_allocs (sts sh0)) allocs
    && match ths y with
       | [t] => list_eqb result_eqb (done t) results && quiescent shared local pers op result y
       | _ => false
       end
    && listZ_eqb (keys_of (chain (sh y) 0)) after
  end.
