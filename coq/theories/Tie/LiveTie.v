(** Correspondence cases for the live iterator (C01/C09 on a moving store). *)
From NV Require Export Base.Bytes Base.TieBase Mvcc.Store Mvcc.Ops Mvcc.Live Tie.MvccTie.
Open Scope N_scope.

Inductive case :=
| CLive (cmpk : N) (pre : list op) (sn : N) (script : list lop)
        (iobs : list (bool * option (list N * N))) (outs : list (list out)).

Definition check (c : case) : bool :=
  match c with
  | CLive k pre sn script io oo =>
    let d := fst (run (cmp_of k) db_init pre) in
    let '(io', oo') := live_run (cmp_of k) d (mkLIter sn None 0 0 false) script in
    list_eqb iobs_eqb io' io && list_eqb (list_eqb out_eqb) oo' oo
  end.
