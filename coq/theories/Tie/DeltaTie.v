(** Correspondence cases for StoreToDisk with delta interleaving on a moving store (C05). *)
From Coq Require Import Sorting.Mergesort Orders.
From NV Require Export Base.Bytes Base.TieBase Mvcc.Store Mvcc.Ops Mvcc.Live Mvcc.Delta Tie.MvccTie.
Open Scope N_scope.

(** canonical order for comparing the delta items as a multiset: insertion sort by bytes_cmp *)
Fixpoint ins_sorted (x : list N) (l : list (list N)) : list (list N) :=
  match l with
  | [] => [x]
  | y :: r => match bytes_cmp x y with Gt => y :: ins_sorted x r | _ => x :: l end
  end.
Definition sort_items (l : list (list N)) : list (list N) := fold_right ins_sorted [] l.

(** outputs of the interleaved segments, as drun produces them while the backup runs *)
Fixpoint seg_outs (kc : list N -> list N -> comparison) (sn : N) (d : db) (segs : list (list op)) : list (list out) :=
  match segs with
  | [] => []
  | seg :: r => let '(d', outs, _) := drun kc sn d seg in outs :: seg_outs kc sn d' r
  end.

Inductive case :=
| CDelta (cmpk : N) (pre : list op) (sn : N) (rate : Z) (pivots : list pivot)
         (seg0 : list op) (segs : list (list op))
         (shards : list (list (list N)))      (* data shard contents as written *)
         (delta : list (list N))              (* all delta files' items, any order *)
         (outs : list (list out)).            (* outputs of the operations of each segment *)

Definition check (c : case) : bool :=
  match c with
  | CDelta k pre sn rate pivots seg0 segs shards delta outs =>
    let kc := cmp_of k in
    let d := fst (run kc db_init pre) in
    let '(sh, d', rest, dl, fin) := dbackup kc true d sn rate pivots seg0 segs in
    fin && (Nat.eqb (length rest) 0)
    && list_eqb bytes_list_eqb (strip_trailing_empty sh) (strip_trailing_empty shards)
    && bytes_list_eqb (sort_items dl) (sort_items delta)
    && (let '(d1, _, _) := drun kc sn d seg0 in list_eqb (list_eqb out_eqb) (seg_outs kc sn d1 segs) outs)
  end.
