(** Correspondence cases for the MVCC family (C01 C02 C05 C06 C07 C09 C10). *)
From NV Require Export Base.Bytes Base.TieBase Codec.Frame Codec.Crc32 Codec.FileImage Mvcc.Store Mvcc.Ops Mvcc.Spec Mvcc.InvDefs Mvcc.Stmts Mvcc.RefineStmt Mvcc.ViewSorted Mvcc.Backup.
Open Scope N_scope.

Definition cmp_of (k : N) : list N -> list N -> comparison :=
  match k with 0 => bytes_cmp | _ => compare_kv end.

Inductive iop := ISeekFirst | ISeek (bs : list N) | INext | IRefresh | ISetRate (r : Z).

(** observation after each iterator op: Valid, and when valid the bytes and node identity *)
Definition iobs := (bool * option (list N * N))%type.

Definition iobs_of (s : list ver) (it : iter) : iobs :=
  if it_valid s it then (true, option_map (fun v => (vitem v, vid v)) (it_get s it)) else (false, None).

(** [positioned]: a Seek/SeekFirst has happened; before that the harness reports (false, None) *)
Fixpoint run_iter_from (positioned : bool) (kc : list N -> list N -> comparison) (s : list ver) (it : iter) (sc : list iop) : list iobs :=
  match sc with
  | [] => []
  | o :: r =>
    let it' := match o with
               | ISeekFirst => it_seek_first s it
               | ISeek bs => it_seek kc s it bs
               | INext => if it_valid s it then it_next kc s it else it
               | IRefresh => if positioned then it_refresh kc s it else it
               | ISetRate z => mkIter (it_sn it) (it_pos it) (it_count it) z
               end in
    let pos' := match o with ISeekFirst | ISeek _ => true | _ => positioned end in
    (if pos' then iobs_of s it' else (false, None)) :: run_iter_from pos' kc s it' r
  end.
Definition run_iter := run_iter_from false.

Inductive case :=
| CMvcc (cmpk : N) (ops : list op) (obs : list out)
| CIter (cmpk : N) (ops : list op) (sn : N) (script : list iop) (obs : list iobs)
| CVisit (cmpk : N) (key_only : bool) (ops : list op) (sn : N) (rate : Z) (pivots : list pivot) (obs : list (list (list N)))
(** StoreToDisk of snapshot sn with the observed pivots: shard files and recorded checksums as written,
    and what LoadFromDisk returned *)
| CBackup (cmpk : N) (ops : list op) (sn : N) (pivots : list pivot) (nshards : nat)
          (files : list (list (N * N))) (cks : list N) (loaded : list (list N))
(** a history on an instance populated by LoadFromDisk with [items] *)
| CRestored (cmpk : N) (items : list (list N)) (ops : list op) (obs : list out)
(** exhaustive small-scope check of the three derived comparators of nitro.go:99-129:
    which = 0 insCmp, 1 iterCmp, 2 existCmp, on items (bytes, bornSn, deadSn); obs = sign *)
| CCmp (cmpk which : N) (a : list N) (aborn adead : N) (b : list N) (bborn bdead : N) (obs : Z).

Definition optb {A} (eqb : A -> A -> bool) (a b : option A) : bool :=
  match a, b with Some x, Some y => eqb x y | None, None => true | _, _ => false end.

Definition phys_eqb (a b : list N * N * N) : bool :=
  let '(x, y, z) := a in let '(x', y', z') := b in listN_eqb x x' && (y =? y') && (z =? z').

Definition out_eqb (a b : out) : bool :=
  match a, b with
  | ONode x, ONode y => optN_eqb x y
  | ODel x b1, ODel y b2 => optN_eqb x y && Bool.eqb b1 b2
  | OBool x, OBool y => Bool.eqb x y
  | OSnap s c, OSnap s' c' => (s =? s') && Z.eqb c c'
  | OItems x, OItems y => optb bytes_list_eqb x y
  | OPhys x, OPhys y => list_eqb phys_eqb x y
  | OCount x, OCount y => Z.eqb x y
  | OUnit, OUnit => true
  | _, _ => false
  end.

Definition iobs_eqb (a b : iobs) : bool :=
  Bool.eqb (fst a) (fst b) &&
  optb (fun x y => listN_eqb (fst x) (fst y) && (snd x =? snd y)) (snd a) (snd b).

(** shards that received nothing after the last non-empty one are invisible to a callback *)
Fixpoint strip_trailing_empty (l : list (list (list N))) : list (list (list N)) :=
  match l with
  | [] => []
  | x :: r => match x, strip_trailing_empty r with
              | [], [] => []
              | _, r' => x :: r'
              end
  end.

Definition check (c : case) : bool :=
  match c with
  | CMvcc k ops obs => list_eqb out_eqb (snd (run (cmp_of k) db_init ops)) obs
  | CIter k ops sn script obs =>
    let d := fst (run (cmp_of k) db_init ops) in
    list_eqb iobs_eqb (run_iter (cmp_of k) (store d) (mkIter sn 0 0 0) script) obs
  | CVisit k ko ops sn rate pivots obs =>
    let d := fst (run (cmp_of k) db_init ops) in
    list_eqb bytes_list_eqb (strip_trailing_empty (visitor (cmp_of k) ko (store d) sn rate pivots)) (strip_trailing_empty obs)
  | CBackup k ops sn pivots nshards files cks loaded =>
    let d := fst (run (cmp_of k) db_init ops) in
    let sh := visitor (cmp_of k) true (store d) sn 10000 pivots in
    let sh := sh ++ repeat [] (nshards - length sh) in
    list_eqb bytes_eqb (map (file_of crc32) sh) (map expand files)
    && listN_eqb (map (fun items => w_ck (write_items crc32 items)) sh) cks
    && bytes_list_eqb (concat sh) loaded
    && match load_data crc32 (stored_image crc32 sh) with LOk l => bytes_list_eqb l loaded | LErr => false end
  | CRestored k items ops obs => list_eqb out_eqb (snd (run (cmp_of k) (restored_db items) ops)) obs
  | CCmp k which a ab ad b bb bd obs =>
    let kc := cmp_of k in
    let r := match which with
             | 0 => comparison_code (ins_cmp kc (mkVer a ab ad 0) b bb)
             | 1 => comparison_code (kc a b)
             | _ => if (ad =? 0) && (bd =? 0) then comparison_code (kc a b) else 1%Z
             end in
    Z.eqb r obs
  end.
