(** Correspondence cases for the snapshot-handle / collector machine (C08, C06): the harness ran
    real goroutines under the deterministic scheduler; the model replays the same thread choices
    and must reach the same yield-point label after every step, the same results and final state. *)
From Coq Require Export List Arith ZArith Bool.
From NV Require Export Base.Bytes Base.Sched Conc.Snap Base.TieBase.
Import ListNotations.
Open Scope nat_scope.

Definition label_of (t : thread local pers op result) : nat :=
  match cur t with
  | Some (LOpen _ _) => 5
  | Some (LCloseDec _) => 6
  | Some (LGC _) => 7
  | Some LGCEnd => 8
  | None => 0
  end.

Fixpoint replay (fixed : bool) (y : sysT) (tr : list (nat * nat)) : option sysT :=
  match tr with
  | [] => Some y
  | (tid, lab) :: r =>
    let y' := stepS fixed y tid in
    match nth_error (ths y') tid with
    | Some t => if Nat.eqb (label_of t) lab then replay fixed y' r else None
    | None => None
    end
  end.

Definition result_eqb (a b : result) : bool :=
  match a, b with
  | ROpen x, ROpen y => Bool.eqb x y
  | RUnit, RUnit => true
  | RMisuse, RMisuse => true
  | _, _ => false
  end.

Inductive case :=
| CSnap (fixed : bool) (n : nat) (owners : list nat) (progs : list (list op)) (trace : list (nat * nat))
        (results : list (list result)) (final_lastgc : nat) (final_open final_ret : list nat).

Definition check (c : case) : bool :=
  match c with
  | CSnap fixed n owners progs trace results flast fopen fret =>
    let owner := fun s => nth (s - 1) owners 0 in
    match replay fixed (init n owner progs) trace with
    | None => false
    | Some y =>
      list_eqb (list_eqb result_eqb) (map (fun t => done t) (ths y)) results
      && Nat.eqb (lastgc (sh y)) flast
      && list_eqb Nat.eqb (filter (in_open (sh y)) (seq 1 n)) fopen
      && list_eqb Nat.eqb (filter (in_ret (sh y)) (seq 1 n)) fret
    end
  end.
