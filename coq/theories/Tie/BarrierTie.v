(** Correspondence cases for the access-barrier machine (C16, C17). *)
From Coq Require Export List Arith ZArith Bool.
From NV Require Export Base.Bytes Base.Sched Conc.Barrier Base.TieBase.
Import ListNotations.
Open Scope nat_scope.

Definition label_of (t : thread local pers op result) : nat :=
  match cur t with
  | Some (LAcq _) => 20
  | Some (LAcqBack _) => 46
  | Some (LRelZero _ _) => 21
  | Some (LRelLatched _ _) => 22
  | Some (LRelQueued _ _) => 23
  | Some (LClean _ _) => 24
  | Some (LCleanEnd _) => 25
  | Some (LCleanReset _) => 26
  | Some (LFlush1 _ _) => 27
  | Some (LFlush2 _) => 28
  | Some (LFlush3 _) => 29
  | None => 0
  end.

(** after each step the harness reports: the label reached, and the destructor calls so far *)
Fixpoint replay (fixed : bool) (y : sysT) (tr : list (nat * nat * nat)) : option sysT :=
  match tr with
  | [] => Some y
  | (tid, lab, ndestr) :: r =>
    let y' := stepS fixed y tid in
    match nth_error (ths y') tid with
    | Some t => if Nat.eqb (label_of t) lab && Nat.eqb (length (destructed (sh y'))) ndestr
                then replay fixed y' r else None
    | None => None
    end
  end.

Definition result_eqb (a b : result) : bool :=
  match a, b with
  | RTok x, RTok y => Nat.eqb x y
  | RUnit, RUnit => true
  | RMisuse, RMisuse => true
  | RPanic, RPanic => true
  | _, _ => false
  end.

Inductive case :=
| CBarrier (fixed : bool) (progs : list (list op)) (trace : list (nat * nat * nat))
           (results : list (list result)) (destr : list (nat * nat)) (queue : list nat)
           (final_free final_active : nat).

Definition pair_eqb (a b : nat * nat) : bool := Nat.eqb (fst a) (fst b) && Nat.eqb (snd a) (snd b).

Definition check (c : case) : bool :=
  match c with
  | CBarrier fixed progs trace results destr queue ffree factive =>
    match replay fixed (init progs) trace with
    | None => false
    | Some y =>
      list_eqb (list_eqb result_eqb) (map (fun t => done t) (ths y)) results
      && list_eqb pair_eqb (destructed (sh y)) destr
      && list_eqb Nat.eqb (map (fun s => seqno (get (sh y) s)) (freeq (sh y))) queue
      && Nat.eqb (freeSeqno (sh y)) ffree && Nat.eqb (activeSeqno (sh y)) factive
    end
  end.
