(** Correspondence cases for the skiplist step machine (C13, C14, C15). *)
From Coq Require Export List Arith ZArith Bool.
From NV Require Export Base.Bytes Base.Sched Skip.Model Base.TieBase.
Import ListNotations.
Open Scope nat_scope.

Definition label_of (t : thread local pers op result) : nat :=
  match cur t with
  | Some (LLevelLoad _ _) => 30
  | Some (LLevelCas _ _ _) => 31
  | Some (LFP0 _ _ _) => 32
  | Some (LFP1 _ _ _ _ _) => 33
  | Some (LFP2 _ _ _ _ _ _) => 34
  | Some (LFPH _ _ _ _ _ _ _) => 35
  | Some (LInsPub _ _ _ _) => 36
  | Some (LInsSucc _ _ _ _ _) => 45
  | Some (LInsOwn _ _ _ _ _) => 37
  | Some (LInsLink _ _ _ _ _) => 39
  | Some (LInsCheck _ _ _ _ _) => 38
  | Some (LSdLoad _ _ _ _) => 40
  | Some (LSdCas _ _ _ _ _) => 41
  | Some LItFirst => 42
  | Some (LItNext _) => 43
  | Some (LItHelp _ _) => 44
  | None => 0
  end.

Definition kb_eqb (a b : Z * bool) : bool := Z.eqb (fst a) (fst b) && Bool.eqb (snd a) (snd b).

(** after each step: the label reached and the level-0 chain (key, marked) read from the real list *)
Fixpoint replay (y : sysT) (tr : list (nat * nat * list (Z * bool))) : option sysT :=
  match tr with
  | [] => Some y
  | (tid, lab, ch) :: r =>
    let y' := stepS y tid in
    match nth_error (ths y') tid with
    | Some t => if Nat.eqb (label_of t) lab && list_eqb kb_eqb (chain (sh y') 0) ch then replay y' r else None
    | None => None
    end
  end.

Definition result_eqb (a b : result) : bool :=
  match a, b with
  | RBool x, RBool y => Bool.eqb x y
  | RIter v k, RIter v' k' => Bool.eqb v v' && Z.eqb k k'
  | _, _ => false
  end.

Inductive case :=
| CSkip (progs : list (list op)) (trace : list (nat * nat * list (Z * bool)))
        (results : list (list result)) (chains : list (list (Z * bool))) (level : nat)
        (node_counts : list Z) (soft allocs : Z).

Definition check (c : case) : bool :=
  match c with
  | CSkip progs trace results chains level counts soft allocs =>
    match replay (init progs) trace with
    | None => false
    | Some y =>
      list_eqb (list_eqb result_eqb) (map (fun t => done t) (ths y)) results
      && Nat.eqb (sl_level (sh y)) level
      && list_eqb (list_eqb kb_eqb) (map (chain (sh y)) (seq 0 (S level))) chains
      && list_eqb Z.eqb (firstn (length counts) (st_nodes (sts (sh y)))) counts
      && Z.eqb (st_soft (sts (sh y))) soft && Z.eqb (st_allocs (sts (sh y))) allocs
    end
  end.
