(** Correspondence cases for concurrent writers (C03). *)
From Coq Require Export List Arith ZArith Bool.
From NV Require Export Base.Bytes Base.TieBase Codec.Frame Base.Sched Mvcc.Store Conc.NitroConc.
Import ListNotations.
Open Scope N_scope.

Definition cmp_of (k : N) : list N -> list N -> comparison :=
  match k with 0 => bytes_cmp | _ => compare_kv end.

Definition label_of (t : thread local pers op result) : nat :=
  match cur t with
  | Some (LPub _ _ _) => 36
  | Some (LDel _ _) => 11
  | None => 0
  end.

Fixpoint replay (kc : list N -> list N -> comparison) (y : sysT) (tr : list (nat * nat)) : option sysT :=
  match tr with
  | [] => Some y
  | (tid, lab) :: r =>
    let y' := stepS kc y tid in
    match nth_error (ths y') tid with
    | Some t => if Nat.eqb (label_of t) lab then replay kc y' r else None
    | None => None
    end
  end.

Definition result_eqb (a b : result) : bool :=
  match a, b with
  | RNode x, RNode y => optN_eqb x y
  | RDel x b1, RDel y b2 => optN_eqb x y && Bool.eqb b1 b2
  | _, _ => false
  end.

Definition phys_eqb (a b : list N * N * N) : bool :=
  let '(x, y, z) := a in let '(x', y', z') := b in listN_eqb x x' && (y =? y') && (z =? z').

(** initial store: versions (item, born, dead) in order, vids 0..; epoch; programs; trace; results;
    final physical store; per-writer counts *)
Inductive case :=
| CNitro (cmpk : N) (s0 : list (list N * N * N)) (c : N) (progs : list (list op)) (trace : list (nat * nat))
         (results : list (list result)) (final : list (list N * N * N)) (counts : list Z).

Fixpoint mk_store (i : N) (l : list (list N * N * N)) : list ver :=
  match l with
  | [] => []
  | (it, b, d) :: r => mkVer it b d i :: mk_store (i + 1) r
  end.

Definition check (cs : case) : bool :=
  match cs with
  | CNitro k s0 c progs trace results final counts =>
    let st := mk_store 0 s0 in
    match replay (cmp_of k) (init st c (N.of_nat (length s0)) progs) trace with
    | None => false
    | Some y =>
      list_eqb (list_eqb result_eqb) (map (fun t => done t) (ths y)) results
      && list_eqb phys_eqb (map (fun v => (vitem v, vborn v, vdead v)) (store (sh y))) final
      && listZ_eqb (map (fun t => w_count (pers_of t)) (ths y)) counts
    end
  end.
