(** Correspondence cases for the backup file writer under a byte budget (C12, C05): the results of the
    real WriteItem / Close calls and the bytes left in the file vs. Codec/BufWriter.v. *)
From NV Require Export Base.Bytes Base.TieBase Codec.Frame Codec.BufWriter.
From Coq Require Import List Arith NArith Bool.
Import ListNotations.
Open Scope N_scope.

Notation rle := (list (N * N)) (only parsing).

Inductive case :=
| CBudget (B budget : N) (items : list rle) (obs_oks : list bool) (obs_close : bool) (obs_file : rle).

Fixpoint bools_eqb (a b : list bool) : bool :=
  match a, b with
  | [], [] => true
  | x :: a', y :: b' => Bool.eqb x y && bools_eqb a' b'
  | _, _ => false
  end.

Definition check (c : case) : bool :=
  match c with
  | CBudget B budget items obs_oks obs_close obs_file =>
    let '(oks, cl, file) := store_file (N.to_nat B) (N.to_nat budget) (map expand items) in
    bools_eqb oks obs_oks && Bool.eqb cl obs_close && bytes_eqb file (expand obs_file)
  end.
