(** C04: when is a node handed to the barrier unlinked for good?  The unconditional obligation is false
    (Skip/LateLink.v, known finding D17).  What IS true of the step machine: once BOTH the Delete that
    removed a node AND the Insert that had put it there have returned, the node is on no level chain,
    and never again.  (The code hands the node over when the Delete returns; the gap between the two
    statements is exactly the late upper-level link of an Insert that is still in flight.) *)
From Coq Require Import List Arith ZArith Lia Bool.
From NV Require Import Base.Sched Skip.Model Skip.Stmts Skip.IterStmts Skip.LinStmts.
Import ListNotations.
Open Scope Z_scope.

(** thread i is idle at step b and the insert it completed last created node n for key k *)
Definition inserted_node (progs : list (list op)) (sched : list nat) (b i : nat) (k : Z) (n : nat) : Prop :=
  exists t, thread_at (at_ progs sched b) i = Some t /\ cur t = None /\ In (k, n) (p_nodes (pers_of t)).

(** step j0 is the level-0 mark CAS of thread i on node n (key k), and it removes k from the set *)
Definition marks_node (progs : list (list op)) (sched : list nat) (j0 i : nat) (k : Z) (n : nat) : Prop :=
  step_by sched j0 i /\
  (exists t m nx, thread_at (at_ progs sched j0) i = Some t /\ cur t = Some (LSdCas k n 0 m nx)) /\
  mem k (at_ progs sched j0) = true /\ mem k (at_ progs sched (S j0)) = false.

Definition stmt_retired_unlinked_when_both_returned : Prop :=
  forall progs sched ai bi ii w ad bd id o k n j0 j l c,
    op_span progs sched ai bi ii (OInsert k w) (RBool true) -> inserted_node progs sched bi ii k n ->
    (o = ODelete k \/ o = ODeleteNode k) -> op_span progs sched ad bd id o (RBool true) ->
    (ad <= j0 < bd)%nat -> marks_node progs sched j0 id k n ->
    (bi <= j)%nat -> (bd <= j)%nat -> (j <= length sched)%nat ->
    chain_ids (sh (at_ progs sched j)) l = Some c -> ~ In n c.
