(** C04: proof of Skip/RetireStmts.v — once both the Delete that removed a node and the Insert that
    created it have returned, the node is on no level chain, and never again.

    The coverage invariant of Skip/Proofs.v ([Inv3]) is per KEY (any thread sweeping the key of a marked,
    still linked node covers it); here it is sharpened to the NODE along the run: from the level-0 mark
    on, every level where the node is linked is covered either by the marking thread itself (until it
    returns) or by the thread that is inserting this very node ([wk]).  When the marking thread is idle
    only the inserter is left, and when the inserter has returned too (its node is in its [p_nodes], so
    no thread works on it any more) the node is linked nowhere.  All three facts are stable under
    every step. *)
From Coq Require Import List Arith ZArith Lia Bool Sorting.Sorted.
From NV Require Import Base.Sched Skip.Model Skip.Stmts Skip.IterStmts Skip.Proofs Skip.IterProofs
  Skip.LinStmts Skip.LinProofs Skip.LateLink Skip.RetireStmts.
Import ListNotations.
Open Scope Z_scope.



(** * The node a thread is inserting (from its allocation to the return of the Insert) *)

Definition wk_fk (c : fk) : option nat :=
  match c with KInsert x _ | KInsertFix x _ _ | KInsertDone x _ => Some x | _ => None end.
Definition wk (l : local) : option nat :=
  match l with
  | LFP0 _ c _ | LFP1 _ c _ _ _ | LFP2 _ c _ _ _ _ | LFPH _ c _ _ _ _ _ => wk_fk c
  | LInsPub _ x _ _ | LInsSucc _ x _ _ _ | LInsOwn _ x _ _ _ | LInsLink _ x _ _ _ | LInsCheck _ x _ _ _ => Some x
  | _ => None
  end.

Ltac brk E :=
  repeat match type of E with
  | context [match ?x with _ => _ end] => destruct x eqn:?
  end.

Ltac unf E := unfold fp_done, next_done, insert_finish, softdelete_start in E.

(** forward: the node stays the same until the operation returns *)
Lemma wk_fwd tid l p sh sh' p' l' x :
  step tid l p sh = (sh', p', inl l') -> wk l = Some x -> wk l' = Some x.
Proof.
  intros E W.
  destruct l; cbn [step wk] in *; try discriminate; unf E; brk E;
    try discriminate; inversion E; subst; cbn [wk wk_fk] in *; try discriminate; auto.
Qed.

(** backward: a thread works on a node it worked on before, or on a freshly allocated one *)
Lemma wk_bwd tid l p sh sh' p' l' x :
  step tid l p sh = (sh', p', inl l') -> wk l' = Some x -> wk l = Some x \/ x = N sh.
Proof.
  intros E W.
  destruct l; cbn [step wk] in *; unf E; brk E;
    try discriminate; inversion E; subst; cbn [wk wk_fk heap] in *; try discriminate; auto;
    try (right; congruence).
  match goal with H : (if ?c then _ else _) = _ |- _ => destruct c; inversion H; subst; cbn [heap] in * end;
    right; congruence.
Qed.

(** the list of inserted nodes grows only when an Insert returns, by the node it worked on *)
Lemma pn_step tid l p sh sh' p' r :
  step tid l p sh = (sh', p', r) ->
  p_nodes p' = p_nodes p \/
  exists k x res, wk l = Some x /\ p_nodes p' = (k, x) :: p_nodes p /\ r = inr res.
Proof.
  intros E.
  destruct l; cbn [step wk] in *; unf E; brk E;
    try discriminate; inversion E; subst; cbn [wk wk_fk p_nodes set_it] in *; auto;
    right; do 3 eexists; repeat split; reflexivity.
Qed.

Lemma begin_wk tid o p sh sh' p' r :
  begin tid o p sh = (sh', p', r) ->
  p_nodes p' = p_nodes p /\ match r with inl l' => wk l' = None | inr _ => True end.
Proof.
  intros E. destruct o; cbn [begin] in E; unf E; brk E; inversion E; subst; cbn; auto.
Qed.

Lemma wk_lt sh p l x : linv sh p l -> wk l = Some x -> (x < N sh)%nat.
Proof.
  intros Hl W.
  destruct l; cbn [linv wk] in *; try discriminate;
    try (destruct c; cbn [wk_fk cont_ok] in *; try discriminate);
    inversion W; subst; unfold pubx, pubk, pub, priv in Hl; intuition lia.
Qed.

Lemma pers_finish (t : thr) rest p' (r : local + result) :
  pers_of (finish_seg local pers op result t rest p' r) = p'.
Proof. destruct r; reflexivity. Qed.

(** * Invariant: one worker per node, and a node whose Insert has returned has no worker *)

Record Inv4 (y : sysT) : Prop := {
  w_u : forall i j ti tj li lj x, nth_error (ths y) i = Some ti -> nth_error (ths y) j = Some tj ->
        cur ti = Some li -> cur tj = Some lj -> wk li = Some x -> wk lj = Some x -> i = j;
  w_p : forall i j ti tj lj k x, nth_error (ths y) i = Some ti -> nth_error (ths y) j = Some tj ->
        In (k, x) (p_nodes (pers_of ti)) -> cur tj = Some lj -> wk lj <> Some x
}.

Lemma Inv4_upd (y : sysT) i t t' s' :
  Inv4 y -> nth_error (ths y) i = Some t ->
  (forall j tj lj x, nth_error (ths y) j = Some tj -> cur tj = Some lj -> wk lj = Some x -> (x < N (sh y))%nat) ->
  (forall j tj k x, nth_error (ths y) j = Some tj -> In (k, x) (p_nodes (pers_of tj)) -> (x < N (sh y))%nat) ->
  (forall l' x, cur t' = Some l' -> wk l' = Some x ->
     (exists l, cur t = Some l /\ wk l = Some x) \/ x = N (sh y)) ->
  (p_nodes (pers_of t') = p_nodes (pers_of t) \/
   exists k x l, cur t = Some l /\ wk l = Some x /\ p_nodes (pers_of t') = (k, x) :: p_nodes (pers_of t) /\
                 cur t' = None) ->
  Inv4 (mkSys s' (upd_th i t' (ths y))).
Proof.
  intros HW Ht Hbw Hbp Hwk Hpn.
  pose proof (nth_lt _ _ _ Ht) as Hi.
  assert (Hnew : nth_error (upd_th i t' (ths y)) i = Some t') by (now apply nth_upd_same).
  assert (Hoth : forall j, j <> i -> nth_error (upd_th i t' (ths y)) j = nth_error (ths y) j).
  { intros j Hj. apply nth_upd_other. congruence. }
  (* the stepping thread's new node against another thread *)
  assert (Hcl : forall l' x j tj lj, cur t' = Some l' -> wk l' = Some x -> j <> i ->
                nth_error (ths y) j = Some tj -> cur tj = Some lj -> wk lj = Some x -> False).
  { intros l' x j tj lj Hc' Hw' Hj Hn Hcj Hwj.
    destruct (Hwk l' x Hc' Hw') as [(l0 & Hc0 & Hw0)|Ex].
    - apply Hj. symmetry. apply (w_u _ HW i j t tj l0 lj x Ht Hn Hc0 Hcj Hw0 Hwj).
    - pose proof (Hbw j tj lj x Hn Hcj Hwj). lia. }
  constructor; cbn [ths].
  - intros j1 j2 t1 t2 l1 l2 x Hn1 Hn2 Hc1 Hc2 Hw1 Hw2.
    destruct (Nat.eq_dec j1 i) as [->|Hj1], (Nat.eq_dec j2 i) as [->|Hj2]; try reflexivity.
    + rewrite Hnew in Hn1. inversion Hn1; subst t1. rewrite Hoth in Hn2 by exact Hj2.
      exfalso. eapply (Hcl l1 x j2 t2 l2); eauto.
    + rewrite Hnew in Hn2. inversion Hn2; subst t2. rewrite Hoth in Hn1 by exact Hj1.
      exfalso. eapply (Hcl l2 x j1 t1 l1); eauto.
    + rewrite Hoth in Hn1, Hn2 by assumption. eapply (w_u _ HW); eauto.
  - intros j1 j2 t1 t2 l2 k x Hn1 Hn2 Hin Hc2 Hw2.
    destruct (Nat.eq_dec j1 i) as [->|Hj1], (Nat.eq_dec j2 i) as [->|Hj2].
    + rewrite Hnew in Hn1, Hn2. inversion Hn1; subst t1. inversion Hn2; subst t2.
      destruct Hpn as [Epn|(k0 & x0 & l0 & _ & _ & _ & Ec)]; [|congruence].
      rewrite Epn in Hin.
      destruct (Hwk l2 x Hc2 Hw2) as [(l0 & Hc0 & Hw0)|Ex].
      * apply (w_p _ HW i i t t l0 k x Ht Ht Hin Hc0 Hw0).
      * pose proof (Hbp i t k x Ht Hin). lia.
    + rewrite Hnew in Hn1. inversion Hn1; subst t1. rewrite Hoth in Hn2 by exact Hj2.
      destruct Hpn as [Epn|(k0 & x0 & l0 & Hc0 & Hw0 & Epn & _)]; rewrite Epn in Hin.
      * apply (w_p _ HW i j2 t t2 l2 k x Ht Hn2 Hin Hc2 Hw2).
      * destruct Hin as [Eq|Hin].
        -- inversion Eq; subst. apply Hj2. symmetry. apply (w_u _ HW i j2 t t2 l0 l2 x Ht Hn2 Hc0 Hc2 Hw0 Hw2).
        -- apply (w_p _ HW i j2 t t2 l2 k x Ht Hn2 Hin Hc2 Hw2).
    + rewrite Hnew in Hn2. inversion Hn2; subst t2. rewrite Hoth in Hn1 by exact Hj1.
      destruct (Hwk l2 x Hc2 Hw2) as [(l0 & Hc0 & Hw0)|Ex].
      * apply (w_p _ HW j1 i t1 t l0 k x Hn1 Ht Hin Hc0 Hw0).
      * pose proof (Hbp j1 t1 k x Hn1 Hin). lia.
    + rewrite Hoth in Hn1, Hn2 by assumption. apply (w_p _ HW j1 j2 t1 t2 l2 k x Hn1 Hn2 Hin Hc2 Hw2).
Qed.

Lemma Inv4_step progs (y : sysT) i : Inv progs y -> Inv4 y -> Inv4 (stepS y i).
Proof.
  intros HI HW. destruct (nth_error (ths y) i) as [t|] eqn:Ht.
  2:{ unfold stepS, step_at. now rewrite Ht. }
  assert (Hbw : forall j tj lj x, nth_error (ths y) j = Some tj -> cur tj = Some lj -> wk lj = Some x ->
                (x < N (sh y))%nat).
  { intros j tj lj x Hn Hcj Hwj. destruct (i_th _ _ HI j tj Hn) as (_ & _ & Hlj). rewrite Hcj in Hlj.
    eapply wk_lt; eauto. }
  assert (Hbp : forall j tj k x, nth_error (ths y) j = Some tj -> In (k, x) (p_nodes (pers_of tj)) ->
                (x < N (sh y))%nat).
  { intros j tj k x Hn Hin. destruct (i_th _ _ HI j tj Hn) as ((_ & Hpn) & _).
    destruct (Hpn k x Hin) as [[R _] _]. lia. }
  destruct (stepS_self y i t Ht) as [(E & _)|[(l & s' & p' & r & Hc & Es & E)|(o & rest & s' & p' & r & Hc & Htd & Eb & E)]];
    rewrite E; [exact HW| |].
  - apply (Inv4_upd y i t _ s' HW Ht Hbw Hbp).
    + intros l' x Hc' Hw'. rewrite cur_finish in Hc'. destruct r as [l1|]; [|discriminate]. inversion Hc'; subst l1.
      destruct (wk_bwd _ _ _ _ _ _ _ _ Es Hw') as [Q|Q]; [left; eauto|now right].
    + rewrite pers_finish, cur_finish.
      destruct (pn_step _ _ _ _ _ _ _ Es) as [Q|(k & x & res & Q1 & Q2 & ->)]; [now left|right].
      exists k, x, l. auto.
  - apply (Inv4_upd y i t _ s' HW Ht Hbw Hbp).
    + intros l' x Hc' Hw'. rewrite cur_finish in Hc'. destruct r as [l1|]; [|discriminate]. inversion Hc'; subst l1.
      destruct (begin_wk _ _ _ _ _ _ _ Eb) as [_ Q]. cbn in Q. congruence.
    + left. rewrite pers_finish. apply (begin_wk _ _ _ _ _ _ _ Eb).
Qed.

Lemma Inv4_init progs : Inv4 (init progs).
Proof.
  assert (Hno : forall i t l, nth_error (ths (init progs)) i = Some t -> cur t = Some l -> False).
  { intros i t l Hn Hc. unfold init in Hn. cbn [ths] in Hn. rewrite nth_error_map in Hn.
    destruct (nth_error progs i); [|discriminate]. inversion Hn; subst. discriminate. }
  constructor.
  - intros i j ti tj li lj x Hn _ Hc. destruct (Hno i ti li Hn Hc).
  - intros i j ti tj lj k x _ Hn _ Hc. destruct (Hno j tj lj Hn Hc).
Qed.

Lemma Inv4_reach progs sched : Inv4 (runS (init progs) sched).
Proof.
  assert (Q : Inv progs (runS (init progs) sched) /\ Inv4 (runS (init progs) sched)); [|apply Q].
  unfold runS.
  apply (Inv_run shared local pers op result begin step blocked blocked_begin (fun y => Inv progs y /\ Inv4 y)).
  - intros y i [A B]. split; [now apply Inv_step|now apply (Inv4_step progs)].
  - split; [apply Inv_init|apply Inv4_init].
Qed.

(** * Node-specific coverage *)

Section Node.
Variable n : nat.

(** the inserter of [n] sweeps level [l] (re-check after the link, or the KInsertDone search) *)
Definition IS (y : sysT) (l : nat) : Prop :=
  exists i t loc, nth_error (ths y) i = Some t /\ cur t = Some loc /\ sweepl (sh y) l n loc /\ wk loc = Some n.
(** thread [d] sweeps level [l] *)
Definition DS (y : sysT) (d l : nat) : Prop :=
  exists t loc, nth_error (ths y) d = Some t /\ cur t = Some loc /\ sweepl (sh y) l n loc.
(** thread [d] is responsible for unlinking [n] from level 0 *)
Definition D0 (y : sysT) (d : nat) : Prop :=
  exists t, nth_error (ths y) d = Some t /\ resp_t (sh y) n t.

(** [n] is marked at level 0; wherever it is still linked, thread [d] (the one that set the mark) or the
    inserter of [n] is sweeping *)
Record G (d : nat) (y : sysT) : Prop := {
  g_m : marked (sh y) n 0 = true;
  g_up : forall l, (1 <= l)%nat -> onl (sh y) l n -> DS y d l \/ IS y l;
  g_0 : onchain (sh y) n -> D0 y d
}.

Lemma G_step progs (y : sysT) d i : Inv progs y -> Inv2 y -> G d y -> G d (stepS y i).
Proof.
  intros HI HJ HG. unfold stepS, step_at.
  destruct (nth_error (ths y) i) as [t|] eqn:Ht; [|exact HG].
  destruct (i_th _ _ HI i t Ht) as (Hp & _ & Hl).
  pose proof (nth_lt _ _ _ Ht) as Hi.
  pose proof (i_h _ _ HI) as H. pose proof (j_l _ HJ) as L.
  destruct HG as [Gm Gup G0].
  destruct (cur t) as [loc|] eqn:Hc.
  - cbn [blocked].
    destruct (step i loc (pers_of t) (sh y)) as [[s' p'] r] eqn:Es.
    destruct (step_ok i loc (pers_of t) (sh y) s' p' r H Hp Hl Es)
      as [S1 (ex & mk & X & Sex & Smk) _ S4 _ _ _ _ S9].
    pose proof (j_th _ HJ i t loc Ht Hc) as Hl2.
    destruct (step2 i loc (pers_of t) (sh y) s' p' r H L Hp Hl Hl2 Es)
      as [L' (lk & ow & mkl & XL & Hlk & _ & _ & Hlk2) _ _ _ _ _].
    set (t' := finish_seg local pers op result t (todo t) p' r).
    assert (Hnew : nth_error (upd_th i t' (ths y)) i = Some t') by (now apply nth_upd_same).
    assert (Hoth : forall j, j <> i -> nth_error (upd_th i t' (ths y)) j = nth_error (ths y) j).
    { intros j Hj. apply nth_upd_other. congruence. }
    assert (Hct : cur t' = match r with inl l' => Some l' | inr _ => None end) by apply cur_finish.
    assert (Hm' : marked s' n 0 = true) by (eapply mark_ext; eauto).
    constructor; cbn [sh ths].
    + exact Hm'.
    + intros l Hl1 Ho'.
      assert (Hlin : forall loc', r = inl loc' -> linv s' p' loc').
      { intros loc' Er. rewrite Er in S4. apply S4. }
      destruct (x_non _ _ _ _ _ XL l n Ho') as [Ho|Elk].
      2:{ (* linked at level l by this step: the inserter re-checks *)
        destruct (Hlk2 n l Elk Hl1) as (k & xl & b & Er). right. exists i, t', (LInsCheck k n xl b l).
        cbn [sh ths]. rewrite Hct, Er. split; [exact Hnew|]. split; [reflexivity|]. split; [|reflexivity].
        pose proof (Hlin _ Er) as Q. cbn [linv] in Q. destruct Q as (_ & ((_ & Qk) & _)).
        cbn [sweepl]. split; [now symmetry|]. split; [|lia].
        apply (h_top _ S1 n Hm' l). now apply (onl_tow s' l n S1). }
      pose proof (h_top _ H n Gm l (onl_tow _ l n H Ho)) as HAm.
      destruct (Gup l Hl1 Ho) as [(t0 & loc0 & Hn0 & Hc0 & Hs0)|(i0 & t0 & loc0 & Hn0 & Hc0 & Hs0 & Hw0)].
      * left. destruct (Nat.eq_dec d i) as [->|Hd].
        -- rewrite Ht in Hn0. inversion Hn0; subst t0. rewrite Hc in Hc0. inversion Hc0; subst loc0.
           pose proof (step3 i loc (pers_of t) (sh y) s' p' r ex mk lk ow mkl l n H L Hl Hl2 Es X XL Hl1 Ho Gm Hs0) as Q.
           destruct r as [loc'|]; [|contradiction]. exists t', loc'. cbn [sh ths]. rewrite Hct. auto.
        -- destruct (i_th _ _ HI d t0 Hn0) as (_ & _ & Hl0). rewrite Hc0 in Hl0.
           pose proof (j_th _ HJ d t0 loc0 Hn0 Hc0) as Hl20.
           pose proof (sweepl_ext _ s' ex mk lk ow mkl _ loc0 l n H L X XL Hl0 Hl20 Ho HAm Hs0) as Q.
           exists t0, loc0. cbn [sh ths]. rewrite Hoth by exact Hd. auto.
      * right. destruct (Nat.eq_dec i0 i) as [->|Hi0].
        -- rewrite Ht in Hn0. inversion Hn0; subst t0. rewrite Hc in Hc0. inversion Hc0; subst loc0.
           pose proof (step3 i loc (pers_of t) (sh y) s' p' r ex mk lk ow mkl l n H L Hl Hl2 Es X XL Hl1 Ho Gm Hs0) as Q.
           destruct r as [loc'|]; [|contradiction]. exists i, t', loc'. cbn [sh ths]. rewrite Hct.
           pose proof (wk_fwd _ _ _ _ _ _ _ _ Es Hw0). auto.
        -- destruct (i_th _ _ HI i0 t0 Hn0) as (_ & _ & Hl0). rewrite Hc0 in Hl0.
           pose proof (j_th _ HJ i0 t0 loc0 Hn0 Hc0) as Hl20.
           pose proof (sweepl_ext _ s' ex mk lk ow mkl _ loc0 l n H L X XL Hl0 Hl20 Ho HAm Hs0) as Q.
           exists i0, t0, loc0. cbn [sh ths]. rewrite Hoth by exact Hi0. auto.
    + intros Hc'.
      assert (Hc0 : onchain (sh y) n).
      { destruct (e_chain _ _ _ _ X n Hc') as [Q|Q]; [exact Q|]. exfalso.
        destruct Sex as [Sex|Sex]; rewrite Sex in Q; [discriminate|].
        rewrite (own_unmarked _ _ _ _ Hl Q) in Gm. discriminate. }
      destruct (G0 Hc0) as (t0 & Hn0 & Hr0).
      destruct (Nat.eq_dec d i) as [->|Hd].
      * rewrite Ht in Hn0. inversion Hn0; subst t0. unfold resp_t in Hr0. rewrite Hc in Hr0.
        specialize (S9 n Hc' Gm Hr0). exists t'. split; [exact Hnew|]. unfold resp_t. rewrite Hct.
        destruct r; exact S9.
      * exists t0. split; [rewrite Hoth by exact Hd; exact Hn0|]. unfold resp_t in *.
        destruct (i_th _ _ HI d t0 Hn0) as (_ & _ & Hl0). destruct (cur t0) as [l0|]; [|exact Hr0].
        eapply (respl_ext (sh y) s' ex mk); eauto.
  - destruct (todo t) as [|o rest] eqn:Htd; [constructor; assumption|]. cbn [blocked_begin].
    destruct (begin i o (pers_of t) (sh y)) as [[s' p'] r] eqn:Eb.
    destruct (begin_ok i o (pers_of t) (sh y) s' p' r H Hp Eb) as (-> & _ & _).
    set (t' := finish_seg local pers op result t rest p' r).
    assert (Hoth : forall j tj, nth_error (ths y) j = Some tj -> cur tj <> None ->
                   nth_error (upd_th i t' (ths y)) j = Some tj).
    { intros j tj Hn Hcj. assert (j <> i) by (intros ->; rewrite Ht in Hn; inversion Hn; subst; congruence).
      rewrite nth_upd_other by congruence. exact Hn. }
    constructor; cbn [sh ths].
    + exact Gm.
    + intros l Hl1 Ho.
      destruct (Gup l Hl1 Ho) as [(t0 & loc0 & Hn0 & Hc0 & Hs0)|(i0 & t0 & loc0 & Hn0 & Hc0 & Hs0 & Hw0)].
      * left. exists t0, loc0. split; [apply Hoth; congruence|auto].
      * right. exists i0, t0, loc0. split; [apply Hoth; congruence|auto].
    + intros Hc'. destruct (G0 Hc') as (t0 & Hn0 & Hr0). exists t0. split; [|exact Hr0].
      apply Hoth; [exact Hn0|]. unfold resp_t in Hr0. destruct (cur t0); [discriminate|contradiction].
Qed.

(** when thread [d] is between operations (or does not exist) the rest does not depend on [d] *)
Lemma G_idle d d' (y : sysT) :
  G d y -> (forall t, nth_error (ths y) d = Some t -> cur t = None) -> G d' y.
Proof.
  intros [Gm Gup G0] Hd. constructor.
  - exact Gm.
  - intros l Hl1 Ho. destruct (Gup l Hl1 Ho) as [(t0 & loc0 & Hn0 & Hc0 & _)|Q]; [|now right].
    rewrite (Hd t0 Hn0) in Hc0. discriminate.
  - intros Hc. destruct (G0 Hc) as (t0 & Hn0 & Hr0). unfold resp_t in Hr0. rewrite (Hd t0 Hn0) in Hr0. destruct Hr0.
Qed.

(** the level-0 mark CAS that removes the key establishes the coverage *)
Lemma mark_G progs (y : sysT) d t0 k m nx :
  Inv progs y -> nth_error (ths y) d = Some t0 -> cur t0 = Some (LSdCas k n 0 m nx) ->
  mem k y = true -> mem k (stepS y d) = false -> G d (stepS y d).
Proof.
  intros HI Ht Hc Hm1 Hm2.
  pose proof (Inv_step progs y d HI) as HI'.
  destruct (stepS_self y d t0 Ht) as [(E & _)|[(l & s' & p' & r & Hc' & Es & E)|(o & rest & s' & p' & r & Hc' & _)]];
    [rewrite E in Hm2; congruence| |congruence].
  rewrite Hc in Hc'. inversion Hc'; subst l. cbn [step] in Es.
  destruct (dcas (sh y) n 0 nx nx true) as [sh1 ok] eqn:Ed.
  destruct (dcas_spec _ _ _ _ _ _ _ _ Ed) as [(-> & Wn & ->)|(-> & ->)]; cbn [andb Nat.eqb] in Es; inv_step Es.
  2:{ rewrite E in Hm2. unfold mem in *. cbn [sh] in Hm2. congruence. }
  rewrite E in *. clear E.
  set (t' := finish_seg local pers op result t0 (todo t0) (pers_of t0) (inl (LSdLoad k n 0 true))) in *.
  assert (Hnew : nth_error (upd_th d t' (ths y)) d = Some t') by (now apply (nth_upd_self _ d t0)).
  destruct (i_th _ _ HI' d t' Hnew) as (_ & _ & Hl'). cbn [cur t' finish_seg sh] in Hl'. cbn [linv] in Hl'.
  destruct Hl' as ((_ & Hk) & Hmk & _). destruct (Hmk eq_refl) as [Hm0 _].
  constructor; cbn [sh ths].
  - exact Hm0.
  - intros l _ _. left. exists t', (LSdLoad k n 0 true). split; [exact Hnew|]. split; [reflexivity|].
    cbn [sweepl]. auto.
  - intros _. exists t'. split; [exact Hnew|]. unfold resp_t. cbn [cur t' finish_seg respl]. auto.
Qed.

(** no thread works on [n] any more (and [n] is allocated) *)
Definition NoIns (y : sysT) : Prop :=
  (n < N (sh y))%nat /\
  forall i t loc, nth_error (ths y) i = Some t -> cur t = Some loc -> wk loc <> Some n.

Lemma NoIns_step progs (y : sysT) i : Inv progs y -> NoIns y -> NoIns (stepS y i).
Proof.
  intros HI [Hn Hno]. destruct (nth_error (ths y) i) as [t|] eqn:Ht.
  2:{ unfold stepS, step_at. rewrite Ht. now split. }
  destruct (i_th _ _ HI i t Ht) as (Hp & _ & Hl).
  destruct (stepS_self y i t Ht) as [(E & _)|[(l & s' & p' & r & Hc & Es & E)|(o & rest & s' & p' & r & Hc & Htd & Eb & E)]];
    rewrite E; [now split| |].
  - rewrite Hc in Hl.
    destruct (step_ok i l (pers_of t) (sh y) s' p' r (i_h _ _ HI) Hp Hl Es) as [_ (ex & mk & X & _) _ _ _ _ _ _ _].
    split; cbn [sh ths]; [pose proof (e_N _ _ _ _ X); lia|].
    intros j tj lj Hnj Hcj Hwj. destruct (Nat.eq_dec j i) as [->|Hj].
    + rewrite (nth_upd_self _ i t _ Ht) in Hnj. inversion Hnj; subst tj. rewrite cur_finish in Hcj.
      destruct r as [l1|]; [|discriminate]. inversion Hcj; subst l1.
      destruct (wk_bwd _ _ _ _ _ _ _ _ Es Hwj) as [Q|Q]; [exact (Hno i t l Ht Hc Q)|lia].
    + rewrite nth_upd_other in Hnj by congruence. exact (Hno j tj lj Hnj Hcj Hwj).
  - destruct (begin_ok i o (pers_of t) (sh y) s' p' r (i_h _ _ HI) Hp Eb) as (-> & _ & _).
    split; cbn [sh ths]; [exact Hn|].
    intros j tj lj Hnj Hcj Hwj. destruct (Nat.eq_dec j i) as [->|Hj].
    + rewrite (nth_upd_self _ i t _ Ht) in Hnj. inversion Hnj; subst tj. rewrite cur_finish in Hcj.
      destruct r as [l1|]; [|discriminate]. inversion Hcj; subst l1.
      destruct (begin_wk _ _ _ _ _ _ _ Eb) as [_ Q]. cbn in Q. congruence.
    + rewrite nth_upd_other in Hnj by congruence. exact (Hno j tj lj Hnj Hcj Hwj).
Qed.

(** covered by nobody: linked nowhere *)
Lemma unlinked progs (y : sysT) d : Inv progs y -> Inv2 y -> G d y -> nth_error (ths y) d = None -> NoIns y ->
  forall l c, chain_ids (sh y) l = Some c -> ~ In n c.
Proof.
  intros HI HJ [Gm Gup G0] Hd [_ Hno] l c Hch Hin.
  pose proof (i_h _ _ HI) as H. pose proof (j_l _ HJ) as L.
  destruct (l_chain _ L l) as (c' & Hc' & Hnd).
  rewrite (chain_some_l _ l c' H Hc' Hnd) in Hch. inversion Hch; subst c'.
  assert (Ho : onl (sh y) l n) by (exists c; auto).
  destruct l as [|l'].
  - destruct (G0 Ho) as (t0 & Hn0 & _). congruence.
  - destruct (Gup (S l') ltac:(lia) Ho) as [(t0 & loc0 & Hn0 & _)|(i0 & t0 & loc0 & Hn0 & Hc0 & _ & Hw0)]; [congruence|].
    exact (Hno i0 t0 loc0 Hn0 Hc0 Hw0).
Qed.

End Node.

(** * Along the run *)

Lemma at_ind (P : sysT -> Prop) progs sched a :
  (forall j i, (a <= j)%nat -> nth_error sched j = Some i -> P (at_ progs sched j) -> P (at_ progs sched (S j))) ->
  P (at_ progs sched a) -> forall j, (a <= j <= length sched)%nat -> P (at_ progs sched j).
Proof.
  intros Hs Ha j. induction j as [|j IH]; intros [Haj Hj].
  - assert (a = 0)%nat by lia. subst. exact Ha.
  - destruct (Nat.eq_dec a (S j)) as [->|Hne]; [exact Ha|].
    destruct (nth_error_lt sched j ltac:(lia)) as (i & Hi).
    apply (Hs j i); [lia|exact Hi|]. apply IH. lia.
Qed.

Lemma G_run n d progs sched a j : (a <= j <= length sched)%nat ->
  G n d (at_ progs sched a) -> G n d (at_ progs sched j).
Proof.
  intros Hj Ha. apply (at_ind (G n d) progs sched a); [|exact Ha|exact Hj].
  intros j' i' _ Hi' HG. rewrite (at_S _ _ _ _ Hi'). destruct (reach_at progs sched j') as [HI HJ].
  now apply (G_step n progs).
Qed.

Lemma NoIns_run n progs sched a j : (a <= j <= length sched)%nat ->
  NoIns n (at_ progs sched a) -> NoIns n (at_ progs sched j).
Proof.
  intros Hj Ha. apply (at_ind (NoIns n) progs sched a); [|exact Ha|exact Hj].
  intros j' i' _ Hi' HG. rewrite (at_S _ _ _ _ Hi'). destruct (reach_at progs sched j') as [HI HJ].
  now apply (NoIns_step n progs).
Qed.

Theorem retired_unlinked_when_both_returned : stmt_retired_unlinked_when_both_returned.
Proof.
  intros progs sched ai bi ii w ad bd id o k n j0 j l c Hsi Hin Ho Hsd Hj0 Hmk Hbi Hbd Hj Hch.
  destruct Hmk as (Hby & (t0 & m & nx & Ht0 & Hc0) & Hm1 & Hm2).
  destruct (op_span_unpack _ _ _ _ _ _ _ Hsd) as (_ & Hbdl & _ & tb & _ & Htb & _ & Hcb & _).
  destruct (op_span_unpack _ _ _ _ _ _ _ Hsi) as (_ & Hbil & _).
  unfold thread_at in Ht0.
  (* the mark step establishes the coverage by thread [id] ... *)
  assert (G1 : G n id (at_ progs sched (S j0))).
  { rewrite (at_S _ _ _ _ Hby) in *. destruct (reach_at progs sched j0) as [HI _].
    eapply mark_G; eauto. }
  (* ... which lasts until its operation has returned; from then on only the inserter covers *)
  assert (G2 : G n (length progs) (at_ progs sched bd)).
  { apply (G_idle n id).
    - apply (G_run n id progs sched (S j0)); [lia|exact G1].
    - intros t Ht. rewrite Htb in Ht. inversion Ht; subst t. exact Hcb. }
  assert (G3 : G n (length progs) (at_ progs sched j)) by (apply (G_run n _ progs sched bd); [lia|exact G2]).
  (* the Insert of [n] has returned: nobody works on [n] *)
  assert (N1 : NoIns n (at_ progs sched bi)).
  { destruct Hin as (t & Ht & Hc & Hi). unfold thread_at in Ht.
    destruct (reach_at progs sched bi) as [HI _].
    split.
    - destruct (i_th _ _ HI ii t Ht) as ((_ & Hpn) & _). destruct (Hpn k n Hi) as [[R _] _]. lia.
    - intros i1 t1 loc Hn1 Hc1. apply (w_p _ (Inv4_reach progs (firstn bi sched)) ii i1 t t1 loc k n Ht Hn1 Hi Hc1). }
  assert (N2 : NoIns n (at_ progs sched j)) by (apply (NoIns_run n progs sched bi); [lia|exact N1]).
  destruct (reach_at progs sched j) as [HI HJ].
  assert (Hnone : nth_error (ths (at_ progs sched j)) (length progs) = None).
  { apply nth_error_None. rewrite (i_len _ _ HI). lia. }
  exact (unlinked n progs (at_ progs sched j) (length progs) HI HJ G3 Hnone N2 l c Hch).
Qed.
Print Assumptions retired_unlinked_when_both_returned.

(** * Non-vacuity: the late-link run of Skip/LateLink.v, continued until the Insert has returned too

    Thread 0 inserts key 10 (node 2, level 1) and is parked before its level-1 link CAS (11 steps);
    thread 1 deletes key 10: it begins at step 11, sets the level-0 mark of node 2 at step 21 and has
    returned true at step 31; thread 0 then links node 2 at level 1 (step 51: node 2 is on the level-1
    chain from state 52 on, AFTER its Delete has returned: the hypothesis on the Insert cannot be dropped),
    sees the mark at its re-check, sweeps (node 2 is unlinked from state 57 on) and has returned at 61. *)
Definition retire_progs : list (list op) := d17_progs.
Definition retire_sched : list nat := d17_sched ++ repeat 0%nat 9.

Example retire_nonvacuous :
  let progs := retire_progs in let sched := retire_sched in
  (* the hypotheses of the theorem *)
  op_span progs sched 0 61 0 (OInsert 10 1) (RBool true) /\ inserted_node progs sched 61 0 10 2 /\
  op_span progs sched 11 31 1 (ODelete 10) (RBool true) /\ (11 <= 21 < 31)%nat /\
  marks_node progs sched 21 1 10 2 /\
  (* the Delete has returned and node 2 is on the level-1 chain: one hypothesis alone is not enough *)
  chain_ids (sh (at_ progs sched 52)) 1 = Some [2%nat] /\
  (* both have returned: node 2 is on no chain *)
  chain_ids (sh (at_ progs sched 61)) 0 = Some [] /\ chain_ids (sh (at_ progs sched 61)) 1 = Some [].
Proof.
  cbv zeta.
  split; [span_tac|].
  split; [eexists; split; [vm_compute; reflexivity|]; split; [reflexivity|]; left; reflexivity|].
  split; [span_tac|]. split; [lia|].
  split.
  { split; [vm_compute; reflexivity|].
    split; [do 3 eexists; split; [vm_compute; reflexivity|reflexivity]|].
    split; vm_compute; reflexivity. }
  split; [vm_compute; reflexivity|]. split; vm_compute; reflexivity.
Qed.
Print Assumptions retire_nonvacuous.

(** the conclusion of the theorem on this run, at every level and in every later state *)
Example retire_instance : forall j l c, (61 <= j <= length retire_sched)%nat ->
  chain_ids (sh (at_ retire_progs retire_sched j)) l = Some c -> ~ In 2%nat c.
Proof.
  intros j l c Hj Hc.
  destruct retire_nonvacuous as (H1 & H2 & H3 & H4 & H5 & _).
  apply (retired_unlinked_when_both_returned retire_progs retire_sched _ _ _ _ _ _ _ _ _ _ _ j l c
           H1 H2 (or_introl eq_refl) H3 H4 H5); try lia; exact Hc.
Qed.

(** * Summary *)
Check (retired_unlinked_when_both_returned : stmt_retired_unlinked_when_both_returned).
Print Assumptions retired_unlinked_when_both_returned.
