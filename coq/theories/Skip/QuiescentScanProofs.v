(** C13: after quiescence a fresh iterator (SeekFirst, then Nexts) yields exactly the abstract set, in
    order, and then reports exhaustion.  Proof of [stmt_quiescent_scan] (Skip/QuiescentScanStmts.v). *)
From Coq Require Import List Arith ZArith Lia Bool.
From NV Require Import Base.Sched Skip.Model Skip.Stmts Skip.Proofs Skip.QuiescentScanStmts.
Import ListNotations.
Open Scope Z_scope.

(** * The runner: steps at other indices, finished threads *)

Lemma runS_cons (y : sysT) i r : runS y (i :: r) = runS (stepS y i) r.
Proof. reflexivity. Qed.

Lemma stepS_other (y : sysT) i j : i <> j -> nth_error (ths (stepS y i)) j = nth_error (ths y) j.
Proof.
  intros Hij. unfold stepS, step_at.
  destruct (nth_error (ths y) i) as [t|] eqn:Ht; [|reflexivity].
  destruct (cur t) as [l|].
  - unfold blocked. destruct (step i l (pers_of t) (sh y)) as [[s' p] r]. cbn [ths].
    apply nth_upd_other. exact Hij.
  - destruct (todo t) as [|o rest]; [reflexivity|]. unfold blocked_begin.
    destruct (begin i o (pers_of t) (sh y)) as [[s' p] r]. cbn [ths].
    apply nth_upd_other. exact Hij.
Qed.

Lemma runS_other j sched : Forall (fun i => i <> j) sched ->
  forall y : sysT, nth_error (ths (runS y sched)) j = nth_error (ths y) j.
Proof.
  induction sched as [|i r IH]; intros HF y; [reflexivity|].
  inversion HF as [|? ? Hi Hr]; subst. rewrite runS_cons, (IH Hr). apply stepS_other. exact Hi.
Qed.

Lemma stepS_finished (y : sysT) s t : nth_error (ths y) s = Some t -> cur t = None -> todo t = [] ->
  stepS y s = y.
Proof. unfold stepS, step_at. intros -> -> ->. reflexivity. Qed.

Lemma runS_finished (y : sysT) s t k : nth_error (ths y) s = Some t -> cur t = None -> todo t = [] ->
  runS y (repeat s k) = y.
Proof.
  intros Ht Hc Htd. induction k as [|k IH]; [reflexivity|].
  cbn [repeat]. rewrite runS_cons, (stepS_finished y s t Ht Hc Htd). exact IH.
Qed.

Lemma init_last progs p :
  nth_error (ths (init (progs ++ [p]))) (length progs) = Some (mkThread p None pers0 []).
Proof.
  unfold init. cbn [ths]. rewrite map_app, nth_error_app2; rewrite map_length; [|lia].
  rewrite Nat.sub_diag. reflexivity.
Qed.

Lemma filter_all {A} (f : A -> bool) c : (forall x, In x c -> f x = true) -> filter f c = c.
Proof.
  induction c as [|a r IH]; intros Hf; cbn [filter]; [reflexivity|].
  rewrite (Hf a (or_introl eq_refl)), IH; [reflexivity|]. intros x Hx. apply Hf. now right.
Qed.

(** * The iterator operations of a thread that runs alone on a clean chain *)

Definition F0 : result := RIter false 0.

Definition fin (y : sysT) (s : nat) (res : list result) : Prop :=
  exists t, nth_error (ths y) s = Some t /\ cur t = None /\ todo t = [] /\ done t = res.

(** SeekFirst: begin + one step *)
Lemma seekfirst_steps (y : sysT) s rest p dn :
  nth_error (ths y) s = Some (mkThread (OSeekFirst :: rest) None p dn) ->
  let it := mkIt hd_id (fst (getnext (sh y) hd_id 0)) true in
  let y2 := stepS (stepS y s) s in
  sh y2 = sh y /\
  nth_error (ths y2) s = Some (mkThread rest None (set_it p it) (dn ++ [it_result (sh y) it])).
Proof.
  intros Ht it y2.
  assert (Hlen : (s < length (ths y))%nat) by (apply nth_error_Some; rewrite Ht; discriminate).
  pose (t1 := mkThread rest (Some LItFirst) p dn : thr).
  assert (E1 : stepS y s = mkSys (sh y) (upd_th s t1 (ths y))).
  { rewrite (stepS_begin y s _ OSeekFirst rest Ht eq_refl eq_refl). reflexivity. }
  assert (Ht1 : nth_error (ths (stepS y s)) s = Some t1).
  { rewrite E1. cbn [ths]. apply nth_upd_same. exact Hlen. }
  subst y2. rewrite (stepS_cur (stepS y s) s t1 LItFirst Ht1 eq_refl).
  rewrite E1. cbn [sh ths step t1 pers_of todo finish_seg done]. split; [reflexivity|].
  apply nth_upd_same. rewrite length_upd. exact Hlen.
Qed.

(** Next on an exhausted iterator: completes in [begin] *)
Lemma next_exhausted_step (y : sysT) s rest p dn :
  nth_error (ths y) s = Some (mkThread (ONext :: rest) None p dn) ->
  it_valid (p_it p) && negb (Nat.eqb (it_curr (p_it p)) tl_id) = false ->
  sh (stepS y s) = sh y /\
  nth_error (ths (stepS y s)) s = Some (mkThread rest None p (dn ++ [F0])).
Proof.
  intros Ht Hv.
  assert (Hlen : (s < length (ths y))%nat) by (apply nth_error_Some; rewrite Ht; discriminate).
  rewrite (stepS_begin y s _ ONext rest Ht eq_refl eq_refl). cbn [pers_of begin]. rewrite Hv.
  cbn [sh ths finish_seg done]. split; [reflexivity|]. apply nth_upd_same. exact Hlen.
Qed.

(** Next on a valid position whose node is unmarked, no refresh interval: begin + one step *)
Lemma next_valid_steps (y : sysT) s rest p dn a n :
  nth_error (ths y) s = Some (mkThread (ONext :: rest) None p dn) ->
  p_it p = mkIt a n true -> n <> tl_id -> p_ivl p = 0%nat ->
  marked (sh y) n 0 = false ->
  let it := mkIt n (fst (getnext (sh y) n 0)) true in
  let y2 := stepS (stepS y s) s in
  sh y2 = sh y /\
  nth_error (ths y2) s =
    Some (mkThread rest None (mkPers it (p_nodes p) (S (p_cnt p)) 0) (dn ++ [it_result (sh y) it])).
Proof.
  intros Ht Hit Hn Hivl Hm it y2.
  assert (Hlen : (s < length (ths y))%nat) by (apply nth_error_Some; rewrite Ht; discriminate).
  pose (t1 := mkThread rest (Some (LItNext (mkIt a n true))) p dn : thr).
  assert (E1 : stepS y s = mkSys (sh y) (upd_th s t1 (ths y))).
  { rewrite (stepS_begin y s _ ONext rest Ht eq_refl eq_refl). cbn [pers_of begin]. rewrite Hit.
    cbn [it_valid it_curr andb]. destruct (Nat.eqb_spec n tl_id) as [E|_]; [contradiction|]. cbn [negb]. reflexivity. }
  assert (Ht1 : nth_error (ths (stepS y s)) s = Some t1).
  { rewrite E1. cbn [ths]. apply nth_upd_same. exact Hlen. }
  subst y2. rewrite (stepS_cur (stepS y s) s t1 (LItNext (mkIt a n true)) Ht1 eq_refl).
  rewrite E1. cbn [sh ths t1 pers_of todo step it_curr].
  unfold marked in Hm. subst it. destruct (getnext (sh y) n 0) as [nx d] eqn:G. cbn [fst snd] in *. subst d.
  unfold next_done. rewrite Hivl. cbn [Nat.eqb negb andb finish_seg done sh ths].
  split; [reflexivity|]. apply nth_upd_same. rewrite length_upd. exact Hlen.
Qed.

(** j Nexts on an exhausted iterator *)
Lemma scan_exhausted s : forall (j k : nat) (y : sysT) p dn, (j <= k)%nat ->
  nth_error (ths y) s = Some (mkThread (repeat ONext j) None p dn) ->
  it_valid (p_it p) && negb (Nat.eqb (it_curr (p_it p)) tl_id) = false ->
  fin (runS y (repeat s k)) s (dn ++ repeat F0 j).
Proof.
  induction j as [|j IH]; intros k y p dn Hk Ht Hv.
  - rewrite (runS_finished y s _ k Ht eq_refl eq_refl). eexists. split; [exact Ht|].
    cbn [cur todo done repeat]. rewrite app_nil_r. auto.
  - destruct k as [|k]; [lia|]. cbn [repeat] in Ht |- *. rewrite runS_cons.
    destruct (next_exhausted_step y s _ p dn Ht Hv) as [_ Ht'].
    assert (Hk' : (j <= k)%nat) by lia.
    destruct (IH k (stepS y s) p (dn ++ [F0]) Hk' Ht' Hv) as (t & Hn & Hc & Htd & Hd).
    exists t. rewrite <- app_assoc in Hd. auto.
Qed.

(** j Nexts from a valid position [n] with the rest [r] of the chain behind it, all unmarked *)
Lemma scan_valid s shx : forall (j : nat) (r : list nat) (n a k : nat) (y : sysT) p dn,
  (2 * j <= k)%nat ->
  sh y = shx ->
  nth_error (ths y) s = Some (mkThread (repeat ONext j) None p dn) ->
  p_it p = mkIt a n true -> n <> tl_id -> p_ivl p = 0%nat ->
  path shx 0 n r ->
  (forall x, In x (n :: r) -> marked shx x 0 = false) ->
  fin (runS y (repeat s k)) s
      (dn ++ map (fun k => RIter true k) (firstn j (map (fun x => key (node shx x)) r))
          ++ repeat F0 (j - length r)).
Proof.
  induction j as [|j IH]; intros r n a k y p dn Hk Hsh Ht Hit Hn Hivl Hp Hm.
  - rewrite (runS_finished y s _ k Ht eq_refl eq_refl). eexists. split; [exact Ht|].
    cbn [cur todo done firstn map repeat Nat.sub app]. rewrite app_nil_r. auto.
  - destruct k as [|[|k]]; [lia|lia|]. cbn [repeat] in Ht |- *. rewrite !runS_cons.
    assert (Hmn : marked (sh y) n 0 = false) by (rewrite Hsh; apply Hm; now left).
    destruct (next_valid_steps y s _ p dn a n Ht Hit Hn Hivl Hmn) as [Hsh2 Ht2].
    rewrite Hsh in Ht2. rewrite Hsh in Hsh2.
    set (y2 := stepS (stepS y s) s) in *.
    destruct r as [|x r].
    + cbn [path] in Hp. rewrite Hp in Ht2. cbn [it_result it_valid it_curr Nat.eqb tl_id andb negb] in Ht2.
      assert (Hk' : (j <= k)%nat) by lia.
      destruct (scan_exhausted s j k y2 _ _ Hk' Ht2 eq_refl) as (t & Hn' & Hc & Htd & Hd).
      exists t. rewrite <- app_assoc in Hd. cbn [map firstn length app]. rewrite Nat.sub_0_r. auto.
    + cbn [path] in Hp. destruct Hp as (E & Hx & Hp). rewrite E in Ht2.
      assert (Hres : it_result shx (mkIt n x true) = RIter true (key (node shx x))).
      { unfold it_result. cbn [it_valid it_curr andb].
        destruct (Nat.eqb_spec x tl_id) as [Ex|_]; [contradiction|]. reflexivity. }
      rewrite Hres in Ht2.
      assert (Hk' : (2 * j <= k)%nat) by lia.
      assert (Hm' : forall z, In z (x :: r) -> marked shx z 0 = false) by (intros z Hz; apply Hm; now right).
      destruct (IH r x n k y2 _ _ Hk' Hsh2 Ht2 eq_refl Hx eq_refl Hp Hm') as (t & Hn' & Hc & Htd & Hd).
      exists t. rewrite <- app_assoc in Hd. cbn [map firstn length app Nat.sub]. auto.
Qed.

(** * The theorem *)

Theorem quiescent_scan : stmt_quiescent_scan.
Proof.
  intros progs sched m Hs s y Hof y'.
  pose proof (Inv_reach (progs ++ [scan_prog m]) sched) as HI. fold y in HI.
  pose proof (i_h _ _ HI) as H.
  (* the scanner has not moved *)
  assert (Hscan : nth_error (ths y) s = Some (mkThread (scan_prog m) None pers0 [])).
  { unfold y. rewrite runS_other; [apply init_last|].
    eapply Forall_impl; [|exact Hs]. cbn. intros i Hi. fold s in Hi. lia. }
  (* nobody is inside an operation *)
  assert (Hnone : forall i t, nth_error (ths y) i = Some t -> cur t = None).
  { intros i t Ht. assert (Hi : (i < length (ths y))%nat) by (apply nth_error_Some; rewrite Ht; discriminate).
    rewrite (i_len _ _ HI), app_length in Hi. cbn [length] in Hi. fold s in Hi.
    destruct (Nat.eq_dec i s) as [E|E].
    - subst i. rewrite Hscan in Ht. inversion Ht; subst t. reflexivity.
    - assert (Hlt : (i < s)%nat) by lia. exact (proj1 (Hof i t Hlt Ht)). }
  (* hence the level-0 chain is clean *)
  destruct (h_chain _ H) as [c Hc].
  assert (Hm : forall n, In n c -> marked (sh y) n 0 = false).
  { intros n Hn. destruct (marked (sh y) n 0) eqn:M; [|reflexivity]. exfalso.
    destruct (i_resp _ _ HI n) as (i & t & Ht & Hr); [now apply (onchain_in (sh y) c n Hc)|exact M|].
    unfold resp_t in Hr. rewrite (Hnone i t Ht) in Hr. exact Hr. }
  assert (Hkeys : abs_keys (sh y) = map (fun n => key (node (sh y) n)) c).
  { rewrite (abs_keys_eq _ c H Hc). unfold abs_of. rewrite filter_all; [reflexivity|].
    intros x Hx. now rewrite (Hm x Hx). }
  rewrite Hkeys. unfold scan_results.
  (* SeekFirst *)
  unfold y'. replace (2 * S m)%nat with (S (S (2 * m))) by lia. cbn [repeat]. rewrite !runS_cons.
  unfold scan_prog in Hscan.
  destruct (seekfirst_steps y s _ _ _ Hscan) as [Hsh2 Ht2].
  set (y2 := stepS (stepS y s) s) in *. cbn [app] in Ht2.
  destruct c as [|x r].
  - cbn [path] in Hc. rewrite Hc in Ht2. cbn [it_result it_valid it_curr Nat.eqb tl_id andb negb] in Ht2.
    assert (Hk : (m <= 2 * m)%nat) by lia.
    destruct (scan_exhausted s m (2 * m) y2 _ _ Hk Ht2 eq_refl) as (t & Hn' & Hcu & Htd & Hd).
    exists t. cbn [map firstn length app]. rewrite Nat.sub_0_r. cbn [repeat]. auto.
  - cbn [path] in Hc. destruct Hc as (E & Hx & Hp). rewrite E in Ht2.
    assert (Hres : it_result (sh y) (mkIt hd_id x true) = RIter true (key (node (sh y) x))).
    { unfold it_result. cbn [it_valid it_curr andb].
      destruct (Nat.eqb_spec x tl_id) as [Ex|_]; [contradiction|]. reflexivity. }
    rewrite Hres in Ht2.
    assert (Hk : (2 * m <= 2 * m)%nat) by lia.
    destruct (scan_valid s (sh y) m r x hd_id (2 * m) y2 _ _ Hk Hsh2 Ht2 eq_refl Hx eq_refl Hp Hm)
      as (t & Hn' & Hcu & Htd & Hd).
    exists t. cbn [map firstn length app Nat.sub]. rewrite map_length. auto.
Qed.
Print Assumptions quiescent_scan.
