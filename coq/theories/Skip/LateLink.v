(** C04, known finding D17: the obligation the reclamation-protocol theorem (Conc/Ebr.v: [ebr_safe])
    places on the skiplist — "a node handed to the barrier by its deleter is unlinked at every level and
    stays so" — is FALSE for the step machine (and for the code: corpus/C04/d17-late-link-uaf.json).
    The deleter's Delete has returned true (it then calls FlushSession with the node), and afterwards
    the node is linked at level 1, where a goroutine that enters the access barrier only now finds it.
    The inserter unlinks it again before it leaves (levels_clean), but the barrier waits only for the
    goroutines that were inside when the node was handed over. *)
From Coq Require Import List Arith ZArith.
From NV Require Import Base.Sched Skip.Model Skip.Stmts.
Import ListNotations.
Open Scope Z_scope.

(** thread i's whole program is one Delete of key k, and it has returned true *)
Definition deleted_by (progs : list (list op)) (y : sysT) (i : nat) (k : Z) : Prop :=
  nth_error progs i = Some [ODelete k] /\
  exists t, nth_error (ths y) i = Some t /\ cur t = None /\ todo t = [] /\ done t = [RBool true].

(** once the Delete of a node has returned true, that node is on no level chain *)
Definition stmt_retired_stays_unlinked : Prop :=
  forall progs sched i n l c,
    let y := runS (init progs) sched in
    deleted_by progs y i (key (node (sh y) n)) -> marked (sh y) n 0 = true ->
    chain_ids (sh y) l = Some c -> ~ In n c.

Definition d17_progs : list (list op) := [[OInsert 10 1]; [ODelete 10]].
(** the Insert runs up to its level-1 link CAS, the Delete runs to completion, the Insert links *)
Definition d17_sched : list nat := repeat 0%nat 11 ++ repeat 1%nat 40 ++ [0%nat].

Theorem retired_stays_unlinked_refuted : ~ stmt_retired_stays_unlinked.
Proof.
  intro H.
  apply (H d17_progs d17_sched 1%nat 2%nat 1%nat [2%nat]).
  - split; [reflexivity|]. vm_compute. eexists; repeat split.
  - vm_compute; reflexivity.
  - vm_compute; reflexivity.
  - left; reflexivity.
Qed.
Print Assumptions retired_stays_unlinked_refuted.
