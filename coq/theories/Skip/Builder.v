(** Model of skiplist/builder.go on the heap of Skip/Model.v: segments filled with ascending items,
    assembled bottom-up into one skiplist. *)
From Coq Require Import List Arith ZArith Lia Bool.
From NV Require Import Base.Sched Skip.Model.
Import ListNotations.
Open Scope Z_scope.

Record seg := mkSeg { s_head : list (option nat); s_tail : list (option nat) }.
Definition seg0 : seg := mkSeg (repeat None (S maxLevel)) (repeat None (S maxLevel)).

Definition oget (l : list (option nat)) (i : nat) : option nat := nth i l None.

(** plain store of a successor pointer (setNext), unmarked *)
Definition store_next (sh : shared) (n l p : nat) : shared := set_next sh n l (p, false).

(** builder.go:35-54 Segment.Add: a new node of level [lv] with key [k] *)
Fixpoint add_levels (sh : shared) (sg : seg) (x : nat) (l : nat) (cnt : nat) : shared * seg :=
  match cnt with
  | O => (sh, sg)
  | S c =>
    let sh1 := match oget (s_tail sg) l with
               | Some t => store_next sh t l x
               | None => sh
               end in
    let sg1 := mkSeg (match oget (s_tail sg) l with
                      | Some _ => s_head sg
                      | None => Model.set_nth l (Some x) (s_head sg)
                      end)
                     (Model.set_nth l (Some x) (s_tail sg)) in
    add_levels sh1 sg1 x (S l) c
  end.

Definition seg_add (sh : shared) (sg : seg) (k : Z) (lv : nat) : shared * seg :=
  let x := length (heap sh) in
  let sh1 := mkSh (heap sh ++ [mkNd k lv (repeat (tl_id, false) (S lv))]) (Nat.max (sl_level sh) lv)
                  (with_sts sh (st_add_nodes (st_add_alloc (sts sh)) lv 1)).(sts) in
  add_levels sh1 sg x 0 (S lv).

Fixpoint seg_fill (sh : shared) (sg : seg) (items : list (Z * nat)) : shared * seg :=
  match items with
  | [] => (sh, sg)
  | (k, lv) :: r => let '(sh1, sg1) := seg_add sh sg k lv in seg_fill sh1 sg1 r
  end.

Fixpoint fill_all (sh : shared) (segs : list (list (Z * nat))) : shared * list seg :=
  match segs with
  | [] => (sh, [])
  | s :: r => let '(sh1, sg) := seg_fill sh seg0 s in
              let '(sh2, sgs) := fill_all sh1 r in (sh2, sg :: sgs)
  end.

(** builder.go:78-111 Assemble *)
Fixpoint asm_level (sh : shared) (head tail : option nat) (sgs : list seg) (l : nat) : shared * option nat * option nat :=
  match sgs with
  | [] => (sh, head, tail)
  | sg :: r =>
    let sh1 := match tail, oget (s_head sg) l with
               | Some t, Some h => store_next sh t l h
               | _, _ => sh
               end in
    let head1 := match tail, head, oget (s_head sg) l with
                 | Some _, _, Some _ => head
                 | _, None, Some h => Some h
                 | _, _, _ => head
                 end in
    let tail1 := match oget (s_tail sg) l with Some t => Some t | None => tail end in
    asm_level sh1 head1 tail1 r l
  end.

Fixpoint asm_levels (sh : shared) (sgs : list seg) (l : nat) (cnt : nat) : shared :=
  match cnt with
  | O => sh
  | S c =>
    let '(sh1, head, tail) := asm_level sh None None sgs l in
    let sh2 := match head with Some h => store_next sh1 hd_id l h | None => sh1 end in
    let sh3 := match tail with Some t => store_next sh2 t l tl_id | None => sh2 end in
    asm_levels sh3 sgs (S l) c
  end.

Definition assemble (segs : list (list (Z * nat))) : shared :=
  let '(sh, sgs) := fill_all init_sh segs in
  asm_levels sh sgs 0 (S maxLevel).
