(** Proofs of Skip/HeightStmts.v: the shared height s.level of the skiplist step machine.

    One step changes the list of tower levels [map lvl heap] and [sl_level] in one of three ways
    ([evo]): nothing changes; a node of level <= sl_level is appended; sl_level goes up by one and a
    node of exactly that level is appended.  Everything else follows by induction over the schedule
    (together with the invariant [Inv] of Skip/Proofs.v, which supplies the per-thread facts
    want <= maxLevel, lv < want at the CAS, and lvl (node x) = xl for the private node of an insert). *)
From Coq Require Import List Arith ZArith Lia Bool.
From NV Require Import Base.Sched Skip.Model Skip.Stmts Skip.Proofs Skip.HeightStmts.
Import ListNotations.
Open Scope nat_scope.

(** * Lists *)

Lemma map_set_nth {A B} (f : A -> B) (d : A) (v : A) : forall (l : list A) (i : nat),
  (i < length l -> f v = f (nth i l d)) -> map f (set_nth i v l) = map f l.
Proof.
  induction l as [|x r IH]; intros [|i] H; cbn [set_nth map]; try reflexivity.
  - cbn [length nth] in H. rewrite H by lia. reflexivity.
  - f_equal. apply IH. intros Hi. apply (H ltac:(cbn [length]; lia)).
Qed.

Lemma fold_max_snoc (l : list nat) (x : nat) :
  fold_right Nat.max 0 (l ++ [x]) = Nat.max (fold_right Nat.max 0 l) x.
Proof.
  induction l as [|a r IH]; cbn [app fold_right]; [lia|]. rewrite IH. lia.
Qed.

Lemma fold_max_le (l : list nat) (b : nat) :
  (forall x, In x l -> x <= b) -> fold_right Nat.max 0 l <= b.
Proof.
  induction l as [|a r IH]; intros H; cbn [fold_right]; [lia|].
  assert (Ha : a <= b) by (apply H; left; reflexivity).
  assert (Hr : fold_right Nat.max 0 r <= b) by (apply IH; intros x Hx; apply H; right; exact Hx).
  lia.
Qed.

(** * What one step does to the tower levels and to the height *)

Definition lvls (s : shared) : list nat := map lvl (heap s).
Definition hmax (s : shared) : nat := fold_right Nat.max 0 (skipn 2 (lvls s)).

Lemma hmax_eq (s : shared) : hmax s = fold_right Nat.max 0 (map lvl (skipn 2 (heap s))).
Proof. unfold hmax, lvls. now rewrite skipn_map. Qed.

Definition same (s s' : shared) : Prop := lvls s' = lvls s /\ sl_level s' = sl_level s.

Definition evo (s s' : shared) : Prop :=
  same s s' \/
  exists xl, lvls s' = lvls s ++ [xl] /\
    ((sl_level s' = sl_level s /\ xl <= sl_level s) \/
     (sl_level s' = S (sl_level s) /\ xl = S (sl_level s) /\ sl_level s < maxLevel)).

(** a thread parked before the CAS of s.level read a value that is still a lower bound *)
Definition okl (s : shared) (l : local) : Prop :=
  match l with LLevelCas _ _ lv => lv <= sl_level s | _ => True end.
Definition okr (s : shared) (r : local + result) : Prop :=
  match r with inl l => okl s l | inr _ => True end.
Definition okc (s : shared) (o : option local) : Prop :=
  match o with Some l => okl s l | None => True end.

Definition good (s : shared) (x : R) : Prop := evo s (fst (fst x)) /\ okr (fst (fst x)) (snd x).

Lemma same_refl s : same s s.
Proof. split; reflexivity. Qed.

Lemma same_with_sts s s1 st : same s s1 -> same s (with_sts s1 st).
Proof. intros [A B]. split; [exact A|exact B]. Qed.

Lemma same_set_next s n l v : same s (set_next s n l v).
Proof.
  split; [|reflexivity]. unfold lvls, set_next. cbn [heap].
  apply (map_set_nth lvl (mkNd 0 0 [])). intros _. reflexivity.
Qed.

Lemma same_dcas s n l e np nm : same s (fst (dcas s n l e np nm)).
Proof.
  unfold dcas. destruct (getnext s n l) as [p m].
  destruct (Nat.eqb p e && negb m); cbn [fst]; [apply same_set_next|apply same_refl].
Qed.

Lemma same_init_node s x k xl nx :
  (x < N s -> lvl (node s x) = xl) -> same s (mkSh (set_nth x (mkNd k xl nx) (heap s)) (sl_level s) (sts s)).
Proof.
  intros H. split; [|reflexivity]. unfold lvls. cbn [heap].
  apply (map_set_nth lvl (mkNd 0 0 [])). intros Hx. cbn [lvl]. symmetry. apply H. exact Hx.
Qed.

(** case splitter: every [match]/[if]/[let '(..)] of the goal, with the frame fact of each dcas *)
Ltac brk :=
  repeat match goal with
  | |- context [match dcas ?s ?n ?l ?e ?np ?nm with _ => _ end] =>
      let S := fresh "S" in
      pose proof (same_dcas s n l e np nm) as S;
      destruct (dcas s n l e np nm) as [? ?]; cbn [fst] in S
  | |- context [match ?x with _ => _ end] => is_var x; destruct x
  | |- context [match ?x with _ => _ end] => destruct x eqn:?
  end.

Ltac same_tac :=
  first [ apply same_refl | assumption
        | apply same_with_sts; first [apply same_refl | assumption] ].

Ltac leaf := split; [left; cbn [fst snd]; same_tac | cbn [fst snd okr okl]; exact I].

Lemma begin_good i o p s : good s (begin i o p s).
Proof.
  unfold good. destruct o; cbn [begin]; unfold softdelete_start; brk; leaf.
Qed.

Lemma step_good i l p s : linv s p l -> okl s l -> good s (step i l p s).
Proof.
  intros Hl Ho. unfold good. destruct l; cbn [step].
  - (* LLevelLoad *)
    cbn [linv] in Hl. destruct (Nat.ltb_spec (sl_level s) want) as [Hlt|Hge]; cbn [fst snd].
    + split; [left; apply same_refl|]. cbn [okr okl]. lia.
    + split; [|exact I]. right. exists want. split.
      * unfold lvls. cbn [heap]. rewrite map_app. reflexivity.
      * left. cbn [sl_level]. split; [reflexivity|exact Hge].
  - (* LLevelCas *)
    cbn [linv] in Hl. destruct Hl as [Hw Hlv]. cbn [okl] in Ho.
    destruct (Nat.eqb_spec (sl_level s) lv) as [E|E]; cbn [fst snd heap sl_level sts].
    + split; [|exact I]. right. exists (S lv). split.
      * unfold lvls. cbn [heap]. rewrite map_app. reflexivity.
      * right. cbn [sl_level]. rewrite E. repeat split. lia.
    + split; [|exact I]. right. exists lv. split.
      * unfold lvls. cbn [heap]. rewrite map_app. reflexivity.
      * left. cbn [sl_level]. split; [reflexivity|exact Ho].
  - (* LFP0 *) leaf.
  - (* LFP1 *) leaf.
  - (* LFP2 *)
    cbn [linv] in Hl. destruct Hl as (_ & Hc & _).
    unfold fp_done, next_done, insert_finish, softdelete_start. brk; try leaf.
    (* KInsert, not found: the private node gets its pointer words *)
    split; [|exact I]. left. cbn [fst snd]. apply same_init_node. intros _.
    cbn [cont_ok] in Hc. destruct Hc as (_ & _ & Hlvl & _). exact Hlvl.
  - (* LFPH *) brk; leaf.
  - (* LInsPub *) unfold insert_finish. brk; leaf.
  - (* LInsSucc *) brk; leaf.
  - (* LInsOwn *) unfold insert_finish. brk; leaf.
  - (* LInsLink *) brk; leaf.
  - (* LInsCheck *) unfold insert_finish. brk; leaf.
  - (* LSdLoad *) brk; leaf.
  - (* LSdCas *) brk; leaf.
  - (* LItFirst *) leaf.
  - (* LItNext *) unfold next_done. brk; leaf.
  - (* LItHelp *) unfold next_done. brk; leaf.
Qed.

(** * The invariant over schedules *)

Record HI (y : sysT) : Prop := {
  hi_max : sl_level (sh y) <= maxLevel;
  hi_ex : sl_level (sh y) = hmax (sh y);
  hi_cas : forall i t, nth_error (ths y) i = Some t -> okc (sh y) (cur t)
}.

Lemma okl_mono s s' l : sl_level s <= sl_level s' -> okl s l -> okl s' l.
Proof. destruct l; cbn [okl]; auto. intros A B. lia. Qed.

Lemma evo_level s s' : evo s s' -> sl_level s <= sl_level s' <= S (sl_level s).
Proof.
  intros [[_ E]|(xl & _ & [[E _]|[E _]])]; rewrite E; lia.
Qed.

Lemma evo_hmax s s' : 2 <= N s -> evo s s' -> sl_level s <= maxLevel -> sl_level s = hmax s ->
  sl_level s' <= maxLevel /\ sl_level s' = hmax s'.
Proof.
  intros HN [[EL ES]|(xl & EL & Hc)] Hm Hx.
  - unfold hmax. rewrite EL, ES. split; [exact Hm|exact Hx].
  - assert (Eh : hmax s' = Nat.max (hmax s) xl).
    { unfold hmax. rewrite EL, skipn_app.
      assert (Ez : 2 - length (lvls s) = 0) by (unfold lvls; rewrite map_length; lia).
      rewrite Ez. cbn [skipn]. apply fold_max_snoc. }
    rewrite Eh. destruct Hc as [[ES Hxl]|[ES [Hxl Hlt]]]; rewrite ES; lia.
Qed.

Lemma HI_upd (y : sysT) (i : nat) (t t' : thr) (s' : shared) :
  HI y -> 2 <= N (sh y) -> nth_error (ths y) i = Some t -> evo (sh y) s' -> okc s' (cur t') ->
  HI (mkSys s' (upd_th i t' (ths y))) /\ sl_level (sh y) <= sl_level s' <= S (sl_level (sh y)).
Proof.
  intros [Hm Hx Hc] HN Ht He Ho. pose proof (evo_level _ _ He) as Hlv.
  destruct (evo_hmax _ _ HN He Hm Hx) as [Hm' Hx'].
  split; [|exact Hlv]. constructor; cbn [sh ths].
  - exact Hm'.
  - exact Hx'.
  - intros j tj Hj. destruct (Nat.eq_dec i j) as [<-|Hne].
    + rewrite nth_upd_same in Hj by (apply nth_error_Some; rewrite Ht; discriminate).
      inversion Hj; subst tj. exact Ho.
    + rewrite nth_upd_other in Hj by exact Hne. specialize (Hc j tj Hj).
      destruct (cur tj) as [lj|]; cbn [okc] in *; [|exact I].
      eapply okl_mono; [|exact Hc]. lia.
Qed.

Lemma okc_finish (s' : shared) (t : thr) rest p (r : local + result) :
  okr s' r -> okc s' (cur (finish_seg local pers op result t rest p r)).
Proof. destruct r as [l|res]; cbn [finish_seg cur okc okr]; auto. Qed.

Lemma HI_step progs y i : Inv progs y -> HI y ->
  HI (stepS y i) /\ sl_level (sh y) <= sl_level (sh (stepS y i)) <= S (sl_level (sh y)).
Proof.
  intros HInv0 HH.
  assert (Hstay : HI y /\ sl_level (sh y) <= sl_level (sh y) <= S (sl_level (sh y))) by (split; [exact HH|lia]).
  pose proof (h_len _ (i_h _ _ HInv0)) as HN.
  unfold stepS, step_at.
  destruct (nth_error (ths y) i) as [t|] eqn:Ht; [|exact Hstay].
  destruct (i_th _ _ HInv0 i t Ht) as (_ & _ & Hl).
  pose proof (hi_cas _ HH i t Ht) as Hok.
  destruct (cur t) as [l|] eqn:Hc.
  - cbn [blocked]. cbn [okc] in Hok.
    pose proof (step_good i l (pers_of t) (sh y) Hl Hok) as [G1 G2].
    destruct (step i l (pers_of t) (sh y)) as [[s' p'] r]. cbn [fst snd] in G1, G2.
    cbn [sh]. apply (HI_upd y i t _ s' HH HN Ht G1). apply okc_finish. exact G2.
  - destruct (todo t) as [|o rest]; [exact Hstay|]. cbn [blocked_begin].
    pose proof (begin_good i o (pers_of t) (sh y)) as [G1 G2].
    destruct (begin i o (pers_of t) (sh y)) as [[s' p'] r]. cbn [fst snd] in G1, G2.
    cbn [sh]. apply (HI_upd y i t _ s' HH HN Ht G1). apply okc_finish. exact G2.
Qed.

Lemma HI_init progs : HI (init progs).
Proof.
  constructor; unfold init; cbn [sh ths].
  - cbn [init_sh sl_level]. lia.
  - reflexivity.
  - intros i t Hn. rewrite nth_error_map in Hn. destruct (nth_error progs i) as [p|]; [|discriminate].
    cbn [option_map] in Hn. inversion Hn; subst t. exact I.
Qed.

Lemma HI_reach progs sched : Inv progs (runS (init progs) sched) /\ HI (runS (init progs) sched).
Proof.
  unfold runS.
  apply (Inv_run shared local pers op result begin step blocked blocked_begin (fun y => Inv progs y /\ HI y)).
  - intros y i [A B]. split; [now apply Inv_step|]. exact (proj1 (HI_step progs y i A B)).
  - split; [apply Inv_init|apply HI_init].
Qed.

(** * The theorems *)

Theorem height_covers : stmt_height_covers.
Proof.
  intros progs sched y.
  destruct (Inv12_reach progs sched) as [_ HJ]. destruct (HI_reach progs sched) as [_ HH].
  fold y in HJ, HH. split.
  - exact (hi_max _ HH).
  - intros n Hn. apply (l_lv _ (j_l _ HJ)). lia.
Qed.
Print Assumptions height_covers.

Theorem height_monotone : stmt_height_monotone.
Proof.
  intros progs sched i y.
  destruct (HI_reach progs sched) as [HI0 HH]. fold y in HI0, HH.
  exact (proj2 (HI_step progs y i HI0 HH)).
Qed.
Print Assumptions height_monotone.

Theorem height_exact : stmt_height_exact.
Proof.
  intros progs sched y.
  destruct (HI_reach progs sched) as [_ HH]. fold y in HH.
  rewrite <- hmax_eq. exact (hi_ex _ HH).
Qed.
Print Assumptions height_exact.

(** * Non-vacuity: six inserts by two threads asking for levels 3, 5 and 1, a delete and a lookup.
    Both threads load s.level = 0 before either CASes: one CAS wins (level 1), the loser's node gets
    the level it loaded (0); the height then climbs one level per winning insert. *)

Definition ex_progs : list (list op) :=
  [[OInsert 10 3; OInsert 30 3; ODelete 20; OInsert 50 3];
   [OInsert 20 5; OInsert 40 5; OLookup 10; OInsert 60 1]].
Definition ex_sched : list nat :=
  [0; 1; 0; 1] ++ repeat 0 4 ++ repeat 1 3 ++ concat (repeat [0; 1; 1] 200).
Definition ex_final : sysT := runS (init ex_progs) ex_sched.

Example ex_height :
  (sl_level (sh ex_final), map lvl (skipn 2 (heap (sh ex_final))), quiescentS ex_final)
  = (3, [1; 0; 2; 1; 3; 3], true).
Proof. vm_compute. reflexivity. Qed.

(** the distinct heights seen along the schedule (every prefix): one level at a time *)
Fixpoint dedup (l : list nat) : list nat :=
  match l with
  | a :: (b :: _) as r => if Nat.eqb a b then dedup r else a :: dedup r
  | _ => l
  end.

Example ex_trace :
  dedup (map (fun n => sl_level (sh (runS (init ex_progs) (firstn n ex_sched))))
             (seq 0 (S (length ex_sched))))
  = [0; 1; 2; 3].
Proof. vm_compute. reflexivity. Qed.

Theorem marks_upper_segment : stmt_marks_upper_segment.
Proof.
  intros progs sched y n i j Hm Hij.
  destruct (Inv12_reach progs sched) as [_ HJ]. fold y in HJ.
  exact (l_seg _ (j_l _ HJ) n i j Hm Hij).
Qed.
Print Assumptions marks_upper_segment.
