(** Model of skiplist/merger.go: a merge iterator over k iterators of quiescent lists.
    An input list is its ascending key sequence; an iterator is the suffix it has not passed yet
    (its head is the node it stands on).  The binary heap of container/heap is modelled as a bag of
    (iterator index, key) entries from which Pop removes a minimal one: ties between equal keys are
    not observable through Get (keys only). *)
From Coq Require Import List Arith ZArith Lia Bool.
Import ListNotations.
Open Scope Z_scope.

Record mstate := mkM {
  lists : list (list Z);     (* the full content of each input list *)
  rem : list (list Z);       (* per iterator: remaining suffix; [] = invalid (reached the tail) *)
  hp : list (nat * Z);       (* heap entries *)
  mcur : option Z            (* MergeIterator.curr *)
}.

Definition m_init (ls : list (list Z)) : mstate := mkM ls (map (fun _ => []) ls) [] None.

(** entries for every valid iterator: (index, key it stands on) *)
Fixpoint heads_from (i : nat) (r : list (list Z)) : list (nat * Z) :=
  match r with
  | [] => []
  | [] :: t => heads_from (S i) t
  | (x :: _) :: t => (i, x) :: heads_from (S i) t
  end.

(** position of a minimal entry (first minimal in list order) *)
Fixpoint min_entry (h : list (nat * Z)) : option (nat * Z) :=
  match h with
  | [] => None
  | e :: r => match min_entry r with
              | Some m => if snd m <? snd e then Some m else Some e
              | None => Some e
              end
  end.

Fixpoint remove_entry (e : nat * Z) (h : list (nat * Z)) : list (nat * Z) :=
  match h with
  | [] => []
  | x :: r => if Nat.eqb (fst x) (fst e) && (snd x =? snd e) then r else x :: remove_entry e r
  end.

Fixpoint set_nth {A} (i : nat) (v : A) (l : list A) : list A :=
  match l, i with
  | [], _ => []
  | _ :: r, O => v :: r
  | x :: r, S j => x :: set_nth j v r
  end.

(** merger.go:69-84 Next; None = the Go code dereferences a nil node (a stale heap entry drove an
    iterator past its tail) *)
Definition m_next (m : mstate) : option mstate :=
  match min_entry (hp m) with
  | None => Some (mkM (lists m) (rem m) (hp m) None)
  | Some (i, k) =>
    let h1 := remove_entry (i, k) (hp m) in
    match nth i (rem m) [] with
    | [] => None                                   (* hi.iter.Next() on an exhausted iterator *)
    | _ :: r' =>
      let rem' := set_nth i r' (rem m) in
      Some (mkM (lists m) rem' (match r' with [] => h1 | x :: _ => h1 ++ [(i, x)] end) (Some k))
    end
  end.

Section Variant.
(** [reset = true]: SeekFirst/Seek start from an empty heap (repaired code); [false]: they append *)
Variable reset : bool.

Definition m_seek_first (m : mstate) : option mstate :=
  let rem' := lists m in
  m_next (mkM (lists m) rem' ((if reset then [] else hp m) ++ heads_from 0 rem') (mcur m)).

Fixpoint drop_lt (x : Z) (l : list Z) : list Z :=
  match l with
  | [] => []
  | y :: r => if y <? x then drop_lt x r else l
  end.

(** returns the new state and the found flag (some input contains x) *)
Definition m_seek (m : mstate) (x : Z) : option (mstate * bool) :=
  let rem' := map (drop_lt x) (lists m) in
  let found := existsb (fun r => match r with y :: _ => y =? x | [] => false end) rem' in
  match m_next (mkM (lists m) rem' ((if reset then [] else hp m) ++ heads_from 0 rem') (mcur m)) with
  | Some m' => Some (m', found)
  | None => None
  end.

Inductive mop := MSeekFirst | MSeek (x : Z) | MNext.

(** observation after each op: Valid and the key; a nil dereference ends the script with [None] *)
Fixpoint m_run (m : mstate) (ops : list mop) : list (option (bool * Z)) :=
  match ops with
  | [] => []
  | o :: r =>
    let res := match o with
               | MSeekFirst => m_seek_first m
               | MSeek x => option_map fst (m_seek m x)
               | MNext => m_next m
               end in
    match res with
    | Some m' => Some (match mcur m' with Some k => (true, k) | None => (false, 0) end) :: m_run m' r
    | None => [None]
    end
  end.

(** scan: Next until invalid (fuel = total number of entries + 1) *)
Fixpoint m_drain (fuel : nat) (m : mstate) (acc : list Z) : option (list Z) :=
  match fuel with
  | O => Some (rev acc)
  | S f =>
    match mcur m with
    | None => Some (rev acc)
    | Some k => match m_next m with Some m' => m_drain f m' (k :: acc) | None => None end
    end
  end.

End Variant.

(** specification: the sorted multiset union *)
Fixpoint insert_sorted (x : Z) (l : list Z) : list Z :=
  match l with
  | [] => [x]
  | y :: r => if x <=? y then x :: l else y :: insert_sorted x r
  end.
Definition sort_z (l : list Z) : list Z := fold_right insert_sorted [] l.
Definition merged (ls : list (list Z)) : list Z := sort_z (concat ls).
