(** C15: soundness and completeness of a concurrent scan, stated over run prefixes of the skiplist step
    machine (all programs, all schedules). *)
From Coq Require Import List Arith ZArith Lia Bool.
From NV Require Import Base.Sched Skip.Model Skip.Stmts.
Import ListNotations.
Open Scope Z_scope.

(** the state after the first j scheduling choices *)
Definition at_ (progs : list (list op)) (sched : list nat) (j : nat) : sysT := runS (init progs) (firstn j sched).

Definition on_l0 (s : shared) (n : nat) : Prop := exists c, chain_ids s 0 = Some c /\ In n c.
(** present: linked at level 0 and not marked deleted *)
Definition present (s : shared) (n : nat) : Prop := on_l0 s n /\ marked s n 0 = false.

Definition thread_at (y : sysT) (i : nat) := nth_error (ths y) i.
Definition idle (y : sysT) (i : nat) : Prop := exists t, thread_at y i = Some t /\ cur t = None.
Definition it_pos (y : sysT) (i : nat) : option itst := option_map (fun t => p_it (pers_of t)) (thread_at y i).

(** between the states ya and yb thread i has begun exactly the operations [ops] *)
Definition consumed (ya yb : sysT) (i : nat) (ops : list op) : Prop :=
  exists ta tb, thread_at ya i = Some ta /\ thread_at yb i = Some tb /\ todo ta = ops ++ todo tb.

(** COMPLETENESS (no skip).  Thread i is between operations at steps a and b and has only executed Next
    operations in between (with or without refreshes: the refresh interval is part of its persistent
    state).  Node n is present — linked at level 0 and unmarked — in EVERY state from a to b.  If the
    iterator stood on a valid position with a key smaller than n's at a, and stands behind n (or is
    exhausted) at b, then at some moment in between it stood on n with an operation completed, i.e. n's
    item was returned by the scan.  A scan cannot jump over an item that is there all the time. *)
Definition stmt_iter_no_skip : Prop :=
  forall progs sched a b i n ops ita itb,
    (a <= b)%nat -> (b <= length sched)%nat ->
    let ya := at_ progs sched a in let yb := at_ progs sched b in
    idle ya i -> idle yb i -> consumed ya yb i ops -> Forall (fun o => o = ONext) ops ->
    (forall j, (a <= j <= b)%nat -> present (sh (at_ progs sched j)) n) ->
    it_pos ya i = Some ita -> it_valid ita = true -> it_curr ita <> tl_id ->
    key (node (sh ya) (it_curr ita)) < key (node (sh ya) n) ->
    it_pos yb i = Some itb ->
    (it_curr itb = tl_id \/ key (node (sh yb) n) < key (node (sh yb) (it_curr itb))) ->
    exists j itj, (a <= j <= b)%nat /\ idle (at_ progs sched j) i /\
                  it_pos (at_ progs sched j) i = Some itj /\ it_curr itj = n.

(** the same for the start of a scan: SeekFirst / Seek x followed by Nexts return every node that is
    present all the time (and, for Seek x, has a key >= x) *)
Definition stmt_scan_complete : Prop :=
  forall progs sched a b i n o ops itb,
    (a <= b)%nat -> (b <= length sched)%nat ->
    let ya := at_ progs sched a in let yb := at_ progs sched b in
    idle ya i -> idle yb i -> consumed ya yb i (o :: ops) -> Forall (fun o => o = ONext) ops ->
    (o = OSeekFirst \/ exists x, o = OSeek x /\ x <= key (node (sh ya) n)) ->
    (forall j, (a <= j <= b)%nat -> present (sh (at_ progs sched j)) n) ->
    it_pos yb i = Some itb ->
    (it_curr itb = tl_id \/ key (node (sh yb) n) < key (node (sh yb) (it_curr itb))) ->
    exists j itj, (a < j <= b)%nat /\ idle (at_ progs sched j) i /\
                  it_pos (at_ progs sched j) i = Some itj /\ it_curr itj = n.

(** SOUNDNESS.  Whenever an iterator operation (SeekFirst, Seek, Next) of thread i that began at step a
    is complete at step b and stands on a node c (not the tail), then at some moment from a to b that
    node was linked at level 0: the scan returns only items that were in the list at some moment of the
    operation that returned them.  (A linked node may carry a delete mark whose deleter has not yet
    returned: that delete is concurrent with the scan.) *)
Definition stmt_iter_sound : Prop :=
  forall progs sched a b i o itb,
    (a < b)%nat -> (b <= length sched)%nat ->
    let ya := at_ progs sched a in let yb := at_ progs sched b in
    idle ya i -> idle yb i -> consumed ya yb i [o] ->
    (o = OSeekFirst \/ (exists x, o = OSeek x) \/ o = ONext) ->
    it_pos yb i = Some itb -> it_valid itb = true -> it_curr itb <> tl_id ->
    (* Next on an exhausted or unpositioned iterator is a no-op and excluded *)
    (o = ONext -> exists ita, it_pos ya i = Some ita /\ it_valid ita = true /\ it_curr ita <> tl_id) ->
    exists j, (a <= j <= b)%nat /\ on_l0 (sh (at_ progs sched j)) (it_curr itb).
