(** C13: "After quiescence an iterator yields exactly the resulting set in order." *)
From Coq Require Import List Arith ZArith Lia Bool.
From NV Require Import Base.Sched Skip.Model Skip.Stmts.
Import ListNotations.
Open Scope Z_scope.

(** the programs [progs] run under any schedule until all of them have finished; one more thread, which
    has not taken a step so far, then runs SeekFirst followed by m Nexts, alone *)
Definition scan_prog (m : nat) : list op := OSeekFirst :: repeat ONext m.

Definition others_finished (y : sysT) (n : nat) : Prop :=
  forall i t, (i < n)%nat -> nth_error (ths y) i = Some t -> cur t = None /\ todo t = [].

Definition scan_results (keys : list Z) (m : nat) : list result :=
  map (fun k => RIter true k) (firstn (S m) keys) ++ repeat (RIter false 0) (S m - length keys).

Definition stmt_quiescent_scan : Prop :=
  forall progs sched m,
    Forall (fun i => (i < length progs)%nat) sched ->
    let s := length progs in
    let y := runS (init (progs ++ [scan_prog m])) sched in
    others_finished y s ->
    let y' := runS y (repeat s (2 * S m)) in
    exists t, nth_error (ths y') s = Some t /\ cur t = None /\ todo t = [] /\
              done t = scan_results (abs_keys (sh y)) m.
