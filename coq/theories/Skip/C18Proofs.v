From Coq Require Import List Arith ZArith Lia Bool Sorting.Sorted Sorting.Permutation.
From NV Require Import Base.Sched Skip.Model Skip.Merger Skip.Builder Skip.Stmts Skip.C18Stmts.
Import ListNotations.
Open Scope Z_scope.

(* ================= merger ================= *)

(** * C18, merger part: the merge iterator yields the sorted multiset union *)

(** ** insertion sort facts *)

Lemma mg_insert_perm : forall x l, Permutation (insert_sorted x l) (x :: l).
Proof.
  intros x l. induction l as [|y r IH]; cbn [insert_sorted].
  - apply Permutation_refl.
  - destruct (x <=? y).
    + apply Permutation_refl.
    + eapply perm_trans; [apply perm_skip, IH | apply perm_swap].
Qed.

Lemma mg_insert_sorted : forall x l,
  StronglySorted Z.le l -> StronglySorted Z.le (insert_sorted x l).
Proof.
  intros x l Hs. induction Hs as [|y r Hs IH Hf]; cbn [insert_sorted].
  - constructor; constructor.
  - destruct (Z.leb_spec x y) as [Hle|Hgt].
    + constructor.
      * constructor; assumption.
      * constructor; [exact Hle|].
        rewrite Forall_forall in Hf. apply Forall_forall. intros z Hz.
        specialize (Hf z Hz). lia.
    + constructor; [exact IH|].
      apply Forall_forall. intros z Hz.
      apply (Permutation_in _ (mg_insert_perm x r)) in Hz.
      destruct Hz as [Hz|Hz]; [subst z; lia|].
      rewrite Forall_forall in Hf. apply Hf, Hz.
Qed.

Lemma mg_sort_cons : forall a l, sort_z (a :: l) = insert_sorted a (sort_z l).
Proof. reflexivity. Qed.

Lemma mg_sort_perm : forall l, Permutation (sort_z l) l.
Proof.
  induction l as [|a l IH].
  - apply Permutation_refl.
  - rewrite mg_sort_cons. eapply perm_trans; [apply mg_insert_perm | apply perm_skip, IH].
Qed.

Lemma mg_sort_sorted : forall l, StronglySorted Z.le (sort_z l).
Proof.
  induction l as [|a l IH].
  - constructor.
  - rewrite mg_sort_cons. apply mg_insert_sorted, IH.
Qed.

(** two sorted lists with the same multiset of elements are equal *)
Lemma mg_sorted_perm_eq : forall l1 l2,
  StronglySorted Z.le l1 -> StronglySorted Z.le l2 -> Permutation l1 l2 -> l1 = l2.
Proof.
  induction l1 as [|a l1 IH]; intros l2 H1 H2 HP.
  - apply Permutation_nil in HP. subst l2. reflexivity.
  - destruct l2 as [|b l2].
    { apply Permutation_sym, Permutation_nil in HP. discriminate HP. }
    inversion H1 as [|? ? H1s H1f]; subst.
    inversion H2 as [|? ? H2s H2f]; subst.
    assert (Hab : a = b).
    { assert (Ha : In a (b :: l2)) by (apply (Permutation_in _ HP); left; reflexivity).
      assert (Hb : In b (a :: l1))
        by (apply (Permutation_in _ (Permutation_sym HP)); left; reflexivity).
      rewrite Forall_forall in H1f, H2f.
      destruct Ha as [Ha|Ha]; [symmetry; exact Ha|].
      destruct Hb as [Hb|Hb]; [exact Hb|].
      specialize (H1f _ Hb). specialize (H2f _ Ha). lia. }
    subst b. f_equal. apply IH; try assumption.
    eapply Permutation_cons_inv; exact HP.
Qed.

Lemma mg_lt_le_sorted : forall l, StronglySorted Z.lt l -> StronglySorted Z.le l.
Proof.
  intros l Hs. induction Hs as [|y r Hs IH Hf]; constructor; [exact IH|].
  rewrite Forall_forall in Hf. apply Forall_forall. intros z Hz.
  specialize (Hf z Hz). lia.
Qed.

Lemma mg_lt_le_sorted_all : forall ls,
  Forall (StronglySorted Z.lt) ls -> Forall (StronglySorted Z.le) ls.
Proof.
  intros ls H. eapply Forall_impl; [|exact H]. intros l Hl. apply mg_lt_le_sorted, Hl.
Qed.

(** k :: sort (rest) = sort (all) when k is a minimum of all *)
Lemma mg_cons_sort : forall k c c',
  Permutation c (k :: c') -> Forall (Z.le k) c -> k :: sort_z c' = sort_z c.
Proof.
  intros k c c' HP Hmin. apply mg_sorted_perm_eq.
  - constructor; [apply mg_sort_sorted|].
    apply Forall_forall. intros y Hy.
    apply (Permutation_in _ (mg_sort_perm c')) in Hy.
    assert (Hyc : In y c)
      by (apply (Permutation_in _ (Permutation_sym HP)); right; exact Hy).
    rewrite Forall_forall in Hmin. apply Hmin, Hyc.
  - apply mg_sort_sorted.
  - eapply perm_trans; [apply perm_skip, mg_sort_perm|].
    eapply perm_trans; [apply Permutation_sym, HP|].
    apply Permutation_sym, mg_sort_perm.
Qed.

Theorem merged_sorted : stmt_merged_sorted.
Proof.
  intros ls _. unfold merged. split; [apply mg_sort_sorted | apply mg_sort_perm].
Qed.
Print Assumptions merged_sorted.

(** ** heap facts *)

Lemma mg_min_entry_none : forall h, min_entry h = None -> h = [].
Proof.
  intros h. destruct h as [|e r]; cbn [min_entry]; [reflexivity|].
  destruct (min_entry r) as [m|]; [destruct (snd m <? snd e)|]; discriminate.
Qed.

Lemma mg_min_entry_spec : forall h e, min_entry h = Some e ->
  In e h /\ forall e', In e' h -> snd e <= snd e'.
Proof.
  induction h as [|a r IH]; intros e He; cbn [min_entry] in He; [discriminate|].
  destruct (min_entry r) as [m|] eqn:Hm.
  - destruct (IH m eq_refl) as [Hin Hmin].
    destruct (Z.ltb_spec (snd m) (snd a)) as [Hlt|Hge]; inversion He; subst e.
    + split; [right; exact Hin|].
      intros e' [Heq|H']; [subst e'; lia | apply Hmin, H'].
    + split; [left; reflexivity|].
      intros e' [Heq|H']; [subst e'; lia | specialize (Hmin _ H'); lia].
  - inversion He; subst e. apply mg_min_entry_none in Hm. subst r.
    split; [left; reflexivity|].
    intros e' [Heq|[]]. subst e'. lia.
Qed.

Lemma mg_remove_perm : forall e h, In e h -> Permutation h (e :: remove_entry e h).
Proof.
  intros e h. induction h as [|x r IH]; intros Hin; [destruct Hin|].
  cbn [remove_entry].
  destruct (Nat.eqb (fst x) (fst e) && (snd x =? snd e)) eqn:Hb.
  - apply andb_true_iff in Hb. destruct Hb as [Hb1 Hb2].
    apply Nat.eqb_eq in Hb1. apply Z.eqb_eq in Hb2.
    destruct x as [x1 x2], e as [e1 e2]; cbn [fst snd] in Hb1, Hb2; subst.
    apply Permutation_refl.
  - destruct Hin as [Heq|Hin].
    { subst x. rewrite Nat.eqb_refl, Z.eqb_refl in Hb. discriminate Hb. }
    eapply perm_trans; [apply perm_skip, IH, Hin | apply perm_swap].
Qed.

(** ** heads_from facts *)

Lemma mg_heads_in : forall r s i k, In (i, k) (heads_from s r) ->
  exists j t, i = (s + j)%nat /\ nth j r [] = k :: t.
Proof.
  induction r as [|l r IH]; intros s i k Hin; cbn [heads_from] in Hin; [destruct Hin|].
  destruct l as [|x t].
  - destruct (IH _ _ _ Hin) as (j & t' & Hi & Hn).
    exists (S j), t'. split; [lia | exact Hn].
  - destruct Hin as [Heq|Hin].
    + inversion Heq; subst. exists 0%nat, t. split; [lia | reflexivity].
    + destruct (IH _ _ _ Hin) as (j & t' & Hi & Hn).
      exists (S j), t'. split; [lia | exact Hn].
Qed.

Lemma mg_heads_of_nth : forall r s j k t, nth j r [] = k :: t ->
  In ((s + j)%nat, k) (heads_from s r).
Proof.
  induction r as [|l r IH]; intros s j k t Hn; [destruct j; discriminate Hn|].
  destruct j as [|j]; cbn [nth] in Hn.
  - subst l. cbn [heads_from]. left. f_equal. lia.
  - specialize (IH (S s) j k t Hn).
    replace (S s + j)%nat with (s + S j)%nat in IH by lia.
    cbn [heads_from]. destruct l as [|x t0]; [exact IH | right; exact IH].
Qed.

Definition mg_new (i : nat) (r' : list Z) : list (nat * Z) :=
  match r' with [] => [] | x :: _ => [(i, x)] end.

Lemma mg_heads_cons : forall s l r,
  heads_from s (l :: r) = mg_new s l ++ heads_from (S s) r.
Proof. intros s l r. destruct l; reflexivity. Qed.

Lemma mg_heads_step : forall r s j k r', nth j r [] = k :: r' ->
  exists H', Permutation (heads_from s r) (((s + j)%nat, k) :: H') /\
             Permutation (heads_from s (Merger.set_nth j r' r)) (H' ++ mg_new (s + j)%nat r').
Proof.
  induction r as [|l r IH]; intros s j k r' Hn; [destruct j; discriminate Hn|].
  destruct j as [|j]; cbn [nth] in Hn.
  - subst l. exists (heads_from (S s) r). rewrite Nat.add_0_r. split.
    + cbn [heads_from]. apply Permutation_refl.
    + cbn [Merger.set_nth]. rewrite mg_heads_cons. apply Permutation_app_comm.
  - destruct (IH (S s) j k r' Hn) as (H' & HP1 & HP2).
    replace (S s + j)%nat with (s + S j)%nat in HP1, HP2 by lia.
    cbn [Merger.set_nth]. rewrite !mg_heads_cons.
    exists (mg_new s l ++ H'). split.
    + eapply perm_trans; [apply Permutation_app_head, HP1|].
      apply Permutation_sym, Permutation_middle.
    + rewrite <- app_assoc. apply Permutation_app_head, HP2.
Qed.

Lemma mg_concat_step : forall (r : list (list Z)) j k r', nth j r [] = k :: r' ->
  Permutation (concat r) (k :: concat (Merger.set_nth j r' r)).
Proof.
  induction r as [|l r IH]; intros j k r' Hn; [destruct j; discriminate Hn|].
  destruct j as [|j]; cbn [nth] in Hn.
  - subst l. cbn [Merger.set_nth concat app]. apply Permutation_refl.
  - cbn [Merger.set_nth concat].
    eapply perm_trans; [apply Permutation_app_head, (IH _ _ _ Hn)|].
    apply Permutation_sym, Permutation_middle.
Qed.

Lemma mg_nth_in : forall (r : list (list Z)) j k t, nth j r [] = k :: t -> In (k :: t) r.
Proof.
  induction r as [|l r IH]; intros j k t Hn; [destruct j; discriminate Hn|].
  destruct j as [|j]; cbn [nth] in Hn.
  - left; exact Hn.
  - right; eapply IH; exact Hn.
Qed.

Lemma mg_set_nth_Forall : forall (P : list Z -> Prop) r j v,
  Forall P r -> P v -> Forall P (Merger.set_nth j v r).
Proof.
  intros P r. induction r as [|l r IH]; intros j v HF Hv.
  { destruct j; cbn [Merger.set_nth]; apply Forall_nil. }
  inversion HF as [|? ? Hl Hr]; subst.
  destruct j as [|j]; cbn [Merger.set_nth]; constructor; auto.
Qed.

(** every remaining element is bounded below by the head of its iterator *)
Lemma mg_concat_head : forall r y, Forall (StronglySorted Z.le) r -> In y (concat r) ->
  exists j h t, nth j r [] = h :: t /\ h <= y.
Proof.
  induction r as [|l r IH]; intros y HF Hin; [destruct Hin|].
  inversion HF as [|? ? Hl Hr]; subst.
  cbn [concat] in Hin. apply in_app_or in Hin. destruct Hin as [Hin|Hin].
  - destruct l as [|h t]; [destruct Hin|].
    exists 0%nat, h, t. split; [reflexivity|].
    inversion Hl as [|? ? _ Hf]; subst.
    destruct Hin as [Heq|Hin]; [lia|].
    rewrite Forall_forall in Hf. apply Hf, Hin.
  - destruct (IH y Hr Hin) as (j & h & t & Hn & Hle).
    exists (S j), h, t. split; assumption.
Qed.

Lemma mg_heads_nil : forall r s, concat r = [] -> heads_from s r = [].
Proof.
  induction r as [|l r IH]; intros s Hc; [reflexivity|].
  cbn [concat] in Hc. apply app_eq_nil in Hc. destruct Hc as [Hl Hc]. subst l.
  cbn [heads_from]. apply IH, Hc.
Qed.

(** ** the invariant and the Next step *)

Definition mg_Good (m : mstate) : Prop :=
  Forall (StronglySorted Z.le) (rem m) /\ Permutation (hp m) (heads_from 0 (rem m)).

Lemma mg_next_empty : forall m, mg_Good m -> concat (rem m) = [] ->
  m_next m = Some (mkM (lists m) (rem m) (hp m) None).
Proof.
  intros m [_ HP] Hc. rewrite (mg_heads_nil _ 0%nat Hc) in HP.
  apply Permutation_sym, Permutation_nil in HP.
  unfold m_next. rewrite HP. reflexivity.
Qed.

Lemma mg_next_nonempty : forall m, mg_Good m -> concat (rem m) <> [] ->
  exists k m', m_next m = Some m' /\ mcur m' = Some k /\ mg_Good m' /\
               Permutation (concat (rem m)) (k :: concat (rem m')) /\
               Forall (Z.le k) (concat (rem m)).
Proof.
  intros m [HS HP] Hne.
  destruct (min_entry (hp m)) as [[i k]|] eqn:Hmin.
  2:{ exfalso. apply mg_min_entry_none in Hmin.
      destruct (concat (rem m)) as [|y c] eqn:Hc; [apply Hne; reflexivity|].
      destruct (mg_concat_head (rem m) y HS) as (j & h & t & Hn & _).
      { rewrite Hc. left; reflexivity. }
      pose proof (mg_heads_of_nth _ 0%nat _ _ _ Hn) as Hin.
      apply (Permutation_in _ (Permutation_sym HP)) in Hin.
      rewrite Hmin in Hin. destruct Hin. }
  destruct (mg_min_entry_spec _ _ Hmin) as [Hin Hle]. cbn [snd] in Hle.
  pose proof (Permutation_in _ HP Hin) as Hin'.
  destruct (mg_heads_in _ _ _ _ Hin') as (j & t & Hi & Hn).
  cbn [Nat.add] in Hi. subst j.
  exists k.
  exists (mkM (lists m) (Merger.set_nth i t (rem m))
              (remove_entry (i, k) (hp m) ++ mg_new i t) (Some k)).
  split; [|split; [|split; [|split]]].
  - unfold m_next. rewrite Hmin. cbv zeta. rewrite Hn.
    destruct t as [|x t']; cbn [mg_new]; [rewrite app_nil_r|]; reflexivity.
  - reflexivity.
  - split; cbn [rem hp].
    + apply mg_set_nth_Forall; [exact HS|].
      rewrite Forall_forall in HS. specialize (HS _ (mg_nth_in _ _ _ _ Hn)).
      inversion HS; assumption.
    + destruct (mg_heads_step _ 0%nat _ _ _ Hn) as (H' & HP1 & HP2).
      cbn [Nat.add] in HP1, HP2.
      eapply perm_trans; [|apply Permutation_sym, HP2].
      apply Permutation_app_tail.
      eapply Permutation_cons_inv with (a := (i, k)).
      eapply perm_trans; [apply Permutation_sym, mg_remove_perm, Hin|].
      eapply perm_trans; [exact HP | exact HP1].
  - cbn [rem]. apply mg_concat_step, Hn.
  - apply Forall_forall. intros y Hy.
    destruct (mg_concat_head _ y HS Hy) as (j & h & t' & Hn' & Hhy).
    pose proof (mg_heads_of_nth _ 0%nat _ _ _ Hn') as Hin2.
    apply (Permutation_in _ (Permutation_sym HP)) in Hin2.
    specialize (Hle _ Hin2). cbn [snd] in Hle. lia.
Qed.

(** ** the scan *)

Lemma mg_drain_spec : forall fuel m acc k, mg_Good m -> mcur m = Some k ->
  (length (concat (rem m)) < fuel)%nat ->
  m_drain fuel m acc = Some (rev acc ++ k :: sort_z (concat (rem m))).
Proof.
  induction fuel as [|fuel IH]; intros m acc k HG Hcur Hfuel; [lia|].
  cbn [m_drain]. rewrite Hcur.
  assert (Hdec : concat (rem m) = [] \/ concat (rem m) <> []).
  { destruct (concat (rem m)); [left; reflexivity | right; discriminate]. }
  destruct Hdec as [Hc|Hc].
  - rewrite (mg_next_empty _ HG Hc). rewrite Hc.
    destruct fuel; cbn [m_drain mcur]; reflexivity.
  - destruct (mg_next_nonempty _ HG Hc) as (k' & m' & Hnext & Hcur' & HG' & HP & Hmin).
    rewrite Hnext.
    assert (Hlen : (length (concat (rem m')) < fuel)%nat).
    { apply Permutation_length in HP. cbn [length] in HP. lia. }
    rewrite (IH m' (k :: acc) k' HG' Hcur' Hlen).
    cbn [rev]. rewrite <- app_assoc. cbn [app].
    rewrite (mg_cons_sort _ _ _ HP Hmin). reflexivity.
Qed.

Lemma mg_next_drain : forall m0, mg_Good m0 ->
  exists m1, m_next m0 = Some m1 /\
    forall fuel, (length (concat (rem m0)) < fuel)%nat ->
      m_drain fuel m1 [] = Some (sort_z (concat (rem m0))).
Proof.
  intros m0 HG.
  assert (Hdec : concat (rem m0) = [] \/ concat (rem m0) <> []).
  { destruct (concat (rem m0)); [left; reflexivity | right; discriminate]. }
  destruct Hdec as [Hc|Hc].
  - eexists. split; [apply (mg_next_empty _ HG Hc)|].
    intros fuel _. rewrite Hc. destruct fuel; reflexivity.
  - destruct (mg_next_nonempty _ HG Hc) as (k & m' & Hnext & Hcur & HG' & HP & Hmin).
    exists m'. split; [exact Hnext|].
    intros fuel Hfuel.
    rewrite (mg_drain_spec fuel m' [] k HG' Hcur).
    + cbn [rev app]. rewrite (mg_cons_sort _ _ _ HP Hmin). reflexivity.
    + apply Permutation_length in HP. cbn [length] in HP. lia.
Qed.

Lemma mg_heads_good : forall ls r c, Forall (StronglySorted Z.le) r ->
  mg_Good (mkM ls r (heads_from 0 r) c).
Proof. intros ls r c HS. split; cbn [rem hp]; [exact HS | apply Permutation_refl]. Qed.

Theorem merge_seek_first : stmt_merge_seek_first.
Proof.
  intros ls rm h c HS.
  change (m_seek_first true (mkM ls rm h c)) with (m_next (mkM ls ls (heads_from 0 ls) c)).
  destruct (mg_next_drain (mkM ls ls (heads_from 0 ls) c)) as (m1 & Hnext & Hdrain).
  { apply (mg_heads_good ls ls c), mg_lt_le_sorted_all, HS. }
  exists m1. split; [exact Hnext|].
  cbn [rem] in Hdrain. unfold merged, total_len. apply Hdrain. lia.
Qed.
Print Assumptions merge_seek_first.

(** ** Seek *)

Lemma mg_filter_all : forall x l, Forall (Z.le x) l -> filter (fun y => x <=? y) l = l.
Proof.
  intros x l HF. induction HF as [|y r Hy _ IH]; [reflexivity|].
  cbn [filter]. destruct (Z.leb_spec x y) as [_|Hlt]; [|lia]. rewrite IH. reflexivity.
Qed.

Lemma mg_drop_lt_filter : forall x l, StronglySorted Z.le l ->
  drop_lt x l = filter (fun y => x <=? y) l.
Proof.
  intros x l Hs. induction Hs as [|y r Hs IH Hf]; [reflexivity|].
  cbn [drop_lt filter].
  destruct (Z.ltb_spec y x) as [Hlt|Hge]; destruct (Z.leb_spec x y) as [Hle|Hgt]; try lia.
  - exact IH.
  - f_equal. symmetry. apply mg_filter_all.
    rewrite Forall_forall in Hf. apply Forall_forall. intros z Hz.
    specialize (Hf z Hz). lia.
Qed.

Lemma mg_filter_sorted : forall (f : Z -> bool) l,
  StronglySorted Z.le l -> StronglySorted Z.le (filter f l).
Proof.
  intros f l Hs. induction Hs as [|y r Hs IH Hf]; [constructor|].
  cbn [filter]. destruct (f y); [|exact IH].
  constructor; [exact IH|].
  rewrite Forall_forall in Hf. apply Forall_forall. intros z Hz.
  apply filter_In in Hz. apply Hf, Hz.
Qed.

Lemma mg_filter_perm : forall (f : Z -> bool) l1 l2,
  Permutation l1 l2 -> Permutation (filter f l1) (filter f l2).
Proof.
  intros f l1 l2 HP. induction HP as [|a l1 l2 HP IH|a b l|l1 l2 l3 HP1 IH1 HP2 IH2].
  - apply Permutation_refl.
  - cbn [filter]. destruct (f a); [apply perm_skip|]; exact IH.
  - cbn [filter]. destruct (f a), (f b); try apply Permutation_refl. apply perm_swap.
  - eapply perm_trans; eassumption.
Qed.

Lemma mg_concat_filter : forall (f : Z -> bool) ls,
  concat (map (filter f) ls) = filter f (concat ls).
Proof.
  intros f ls. induction ls as [|l ls IH]; [reflexivity|].
  cbn [map concat]. rewrite filter_app, IH. reflexivity.
Qed.

Lemma mg_sort_filter : forall (f : Z -> bool) l, sort_z (filter f l) = filter f (sort_z l).
Proof.
  intros f l. apply mg_sorted_perm_eq.
  - apply mg_sort_sorted.
  - apply mg_filter_sorted, mg_sort_sorted.
  - eapply perm_trans; [apply mg_sort_perm|].
    apply mg_filter_perm, Permutation_sym, mg_sort_perm.
Qed.

Lemma mg_map_drop_lt : forall x ls, Forall (StronglySorted Z.le) ls ->
  map (drop_lt x) ls = map (filter (fun y => x <=? y)) ls.
Proof.
  intros x ls HS. induction HS as [|l ls Hl _ IH]; [reflexivity|].
  cbn [map]. rewrite IH, (mg_drop_lt_filter x l Hl). reflexivity.
Qed.

Lemma mg_existsb_above : forall x l, Forall (Z.lt x) l -> existsb (Z.eqb x) l = false.
Proof.
  intros x l HF. induction HF as [|y r Hy _ IH]; [reflexivity|].
  cbn [existsb]. rewrite IH. destruct (Z.eqb_spec x y); [lia | reflexivity].
Qed.

Lemma mg_found_one : forall x l, StronglySorted Z.le l ->
  match drop_lt x l with y :: _ => y =? x | [] => false end = existsb (Z.eqb x) l.
Proof.
  intros x l Hs. induction Hs as [|y r Hs IH Hf]; [reflexivity|].
  cbn [drop_lt existsb].
  destruct (Z.ltb_spec y x) as [Hlt|Hge].
  - rewrite IH. destruct (Z.eqb_spec x y); [lia | reflexivity].
  - destruct (Z.eqb_spec y x) as [Heq|Hneq].
    + subst y. rewrite Z.eqb_refl. reflexivity.
    + destruct (Z.eqb_spec x y) as [Heq|_]; [congruence|].
      cbn [orb]. symmetry. apply mg_existsb_above.
      rewrite Forall_forall in Hf. apply Forall_forall. intros z Hz.
      specialize (Hf z Hz). lia.
Qed.

Lemma mg_found : forall x ls, Forall (StronglySorted Z.le) ls ->
  existsb (fun r => match r with y :: _ => y =? x | [] => false end) (map (drop_lt x) ls) =
  existsb (fun l => existsb (Z.eqb x) l) ls.
Proof.
  intros x ls HS. induction HS as [|l ls Hl _ IH]; [reflexivity|].
  cbn [map existsb]. rewrite IH, (mg_found_one x l Hl). reflexivity.
Qed.

Lemma mg_filter_length : forall (f : Z -> bool) l, (length (filter f l) <= length l)%nat.
Proof.
  intros f l. induction l as [|a l IH]; [apply Nat.le_refl|].
  cbn [filter]. destruct (f a); cbn [length]; lia.
Qed.

Theorem merge_seek : stmt_merge_seek.
Proof.
  intros ls rm h c x HS.
  pose proof (mg_lt_le_sorted_all _ HS) as HS'.
  set (rem' := map (drop_lt x) ls).
  assert (HSr : Forall (StronglySorted Z.le) rem').
  { unfold rem'. rewrite (mg_map_drop_lt x ls HS').
    apply Forall_forall. intros l Hl. apply in_map_iff in Hl.
    destruct Hl as (l0 & <- & Hl0). apply mg_filter_sorted.
    rewrite Forall_forall in HS'. apply HS', Hl0. }
  destruct (mg_next_drain (mkM ls rem' (heads_from 0 rem') c)) as (m1 & Hnext & Hdrain).
  { apply (mg_heads_good ls rem' c), HSr. }
  exists m1. split.
  - unfold m_seek. cbn [lists hp mcur app]. fold rem'. rewrite Hnext.
    unfold rem'. rewrite (mg_found x ls HS'). reflexivity.
  - cbn [rem] in Hdrain. unfold merged.
    assert (Hrem : concat rem' = filter (fun y => x <=? y) (concat ls)).
    { unfold rem'. rewrite (mg_map_drop_lt x ls HS'). apply mg_concat_filter. }
    rewrite <- mg_sort_filter, <- Hrem. apply Hdrain.
    rewrite Hrem. unfold total_len.
    pose proof (mg_filter_length (fun y => x <=? y) (concat ls)). lia.
Qed.
Print Assumptions merge_seek.

(* ================= builder ================= *)
Open Scope nat_scope.

Lemma bd_set_nth_length : forall A (l : list A) i v, length (Model.set_nth i v l) = length l.
Proof. induction l as [|a l IH]; intros [|i] v; cbn; auto. Qed.

Lemma bd_nth_set_nth : forall A (l : list A) i j v d,
  nth j (Model.set_nth i v l) d = if (j =? i) && (i <? length l) then v else nth j l d.
Proof.
  induction l as [|a l IH]; intros i j v d.
  - destruct i; cbn; rewrite andb_false_r; reflexivity.
  - destruct i as [|i]; destruct j as [|j]; cbn [Model.set_nth nth]; try reflexivity.
    rewrite IH. reflexivity.
Qed.

Lemma bd_node_set_next : forall sh n l v n',
  node (set_next sh n l v) n' =
  if (n' =? n) && (n <? length (heap sh))
  then mkNd (key (node sh n)) (lvl (node sh n)) (Model.set_nth l v (nxt (node sh n)))
  else node sh n'.
Proof. intros. unfold set_next, node. cbn [heap]. rewrite bd_nth_set_nth. reflexivity. Qed.

Definition bd_inr (sh : shared) (l n : nat) : Prop :=
  n < length (heap sh) /\ l < length (nxt (node sh n)).

Lemma bd_getnext_store_same : forall sh n l p,
  bd_inr sh l n -> getnext (store_next sh n l p) n l = (p, false).
Proof.
  intros sh n l p [H1 H2]. unfold getnext, store_next. rewrite bd_node_set_next.
  rewrite Nat.eqb_refl. destruct (Nat.ltb_spec n (length (heap sh))) as [_|H]; [|lia].
  cbn [andb nxt]. rewrite bd_nth_set_nth, Nat.eqb_refl.
  destruct (Nat.ltb_spec l (length (nxt (node sh n)))) as [_|H]; [|lia]. reflexivity.
Qed.

Lemma bd_getnext_store_other : forall sh n l p n' l',
  n' <> n \/ l' <> l -> getnext (store_next sh n l p) n' l' = getnext sh n' l'.
Proof.
  intros sh n l p n' l' H. unfold getnext, store_next. rewrite bd_node_set_next.
  destruct (Nat.eqb_spec n' n) as [->|Hn]; [|reflexivity].
  destruct (Nat.ltb_spec n (length (heap sh))) as [Hlt|Hge]; [|reflexivity].
  cbn [andb nxt]. rewrite bd_nth_set_nth.
  destruct (Nat.eqb_spec l' l) as [->|Hl]; [|reflexivity].
  destruct H; congruence.
Qed.

Definition bd_unm (sh : shared) : Prop := forall n l, snd (getnext sh n l) = false.

Definition bd_shp (sh sh' : shared) : Prop :=
  length (heap sh') = length (heap sh) /\
  (forall n, key (node sh' n) = key (node sh n) /\ lvl (node sh' n) = lvl (node sh n) /\
             length (nxt (node sh' n)) = length (nxt (node sh n))) /\
  sl_level sh' = sl_level sh /\ sts sh' = sts sh /\
  (bd_unm sh -> bd_unm sh').

Lemma bd_shp_refl : forall sh, bd_shp sh sh.
Proof. intros sh. repeat split; auto. Qed.

Lemma bd_shp_trans : forall a b c, bd_shp a b -> bd_shp b c -> bd_shp a c.
Proof.
  intros a b c (A1 & A2 & A3 & A4 & A5) (B1 & B2 & B3 & B4 & B5).
  split; [congruence|]. split.
  - intros n. destruct (A2 n) as (? & ? & ?), (B2 n) as (? & ? & ?). repeat split; congruence.
  - repeat split; try congruence. auto.
Qed.

Lemma bd_shp_store : forall sh n l p, bd_shp sh (store_next sh n l p).
Proof.
  intros sh n l p. split; [|split; [|split; [|split]]].
  - unfold store_next, set_next. cbn [heap]. apply bd_set_nth_length.
  - intros n'. unfold store_next. rewrite bd_node_set_next.
    destruct (Nat.eqb_spec n' n) as [->|Hn]; [|auto].
    destruct (n <? length (heap sh)); cbn [andb key lvl nxt]; auto.
    rewrite bd_set_nth_length. auto.
  - reflexivity.
  - reflexivity.
  - intros Hu n' l'.
    destruct (Nat.eq_dec n' n) as [->|Hn]; [|rewrite bd_getnext_store_other; auto].
    destruct (Nat.eq_dec l' l) as [->|Hl]; [|rewrite bd_getnext_store_other; auto].
    unfold getnext, store_next. rewrite bd_node_set_next, Nat.eqb_refl.
    destruct (n <? length (heap sh)); cbn [andb nxt]; [|apply Hu].
    rewrite bd_nth_set_nth, Nat.eqb_refl.
    destruct (l <? length (nxt (node sh n))); cbn [andb snd]; [reflexivity|apply Hu].
Qed.

Lemma bd_inr_shp : forall sh sh' l n, bd_shp sh sh' -> bd_inr sh l n -> bd_inr sh' l n.
Proof.
  intros sh sh' l n (A1 & A2 & _) [H1 H2]. destruct (A2 n) as (_ & _ & A). unfold bd_inr.
  rewrite A1, A. auto.
Qed.

(* ---------- paths ---------- *)
Definition bd_nx (sh : shared) (l n : nat) : nat := fst (getnext sh n l).

Fixpoint bd_path (sh : shared) (l a : nat) (c : list nat) : Prop :=
  match c with
  | [] => True
  | x :: r => bd_nx sh l a = x /\ bd_path sh l x r
  end.

Fixpoint bd_incr (a : nat) (c : list nat) : Prop :=
  match c with
  | [] => True
  | x :: r => a < x /\ bd_incr x r
  end.

Lemma bd_last_cons : forall (r : list nat) h d, last (h :: r) d = last r h.
Proof.
  induction r as [|x r IH]; intros h d; [reflexivity|].
  change (last (h :: x :: r) d) with (last (x :: r) d). rewrite !IH. reflexivity.
Qed.

Lemma bd_last_app : forall (c1 c2 : list nat) a, last (c1 ++ c2) a = last c2 (last c1 a).
Proof.
  induction c1 as [|x c1 IH]; intros c2 a; [reflexivity|].
  cbn [app]. rewrite !bd_last_cons. apply IH.
Qed.

Lemma bd_path_app : forall sh l c1 c2 a,
  bd_path sh l a (c1 ++ c2) <-> bd_path sh l a c1 /\ bd_path sh l (last c1 a) c2.
Proof.
  induction c1 as [|x c1 IH]; intros c2 a.
  - cbn. tauto.
  - cbn [app bd_path]. rewrite bd_last_cons, IH. tauto.
Qed.

Lemma bd_incr_app : forall c1 c2 a,
  bd_incr a (c1 ++ c2) <-> bd_incr a c1 /\ bd_incr (last c1 a) c2.
Proof.
  induction c1 as [|x c1 IH]; intros c2 a.
  - cbn. tauto.
  - cbn [app bd_incr]. rewrite bd_last_cons, IH. tauto.
Qed.

Lemma bd_path_frame : forall sh sh' l c a,
  (forall n, In n (removelast (a :: c)) -> getnext sh' n l = getnext sh n l) ->
  bd_path sh l a c -> bd_path sh' l a c.
Proof.
  induction c as [|x r IH]; intros a Hf Hp; [exact I|].
  destruct Hp as [H1 H2]. split.
  - unfold bd_nx. rewrite Hf; [exact H1|]. left; reflexivity.
  - apply IH; [|exact H2]. intros n Hn. apply Hf. 
    change (removelast (a :: x :: r)) with (a :: removelast (x :: r)). right; exact Hn.
Qed.

Lemma bd_incr_last : forall c a, bd_incr a c -> a <= last c a.
Proof.
  induction c as [|x r IH]; intros a Hi; [cbn; lia|].
  destruct Hi as [H1 H2]. rewrite bd_last_cons. pose proof (IH x H2). lia.
Qed.

Lemma bd_incr_bounds : forall c a n, bd_incr a c -> In n c -> a < n <= last c a.
Proof.
  induction c as [|x r IH]; intros a n Hi Hn; [destruct Hn|].
  destruct Hi as [H1 H2]. rewrite bd_last_cons.
  destruct Hn as [->|Hn].
  - pose proof (bd_incr_last r n H2). lia.
  - pose proof (IH x n H2 Hn). lia.
Qed.

Lemma bd_incr_removelast : forall c a n, bd_incr a c -> In n (removelast (a :: c)) -> n < last c a.
Proof.
  induction c as [|x r IH]; intros a n Hi Hn; [destruct Hn|].
  destruct Hi as [H1 H2]. rewrite bd_last_cons.
  change (removelast (a :: x :: r)) with (a :: removelast (x :: r)) in Hn.
  destruct Hn as [<-|Hn].
  - pose proof (bd_incr_last r x H2). lia.
  - apply IH; assumption.
Qed.

(* ---------- node ids of a run of items ---------- *)
Fixpoint bd_ids (l b : nat) (its : list (Z * nat)) : list nat :=
  match its with
  | [] => []
  | e :: r => if l <=? snd e then b :: bd_ids l (S b) r else bd_ids l (S b) r
  end.

Lemma bd_ids_app : forall l its1 its2 b,
  bd_ids l b (its1 ++ its2) = bd_ids l b its1 ++ bd_ids l (b + length its1) its2.
Proof.
  induction its1 as [|e r IH]; intros its2 b.
  - cbn. rewrite Nat.add_0_r. reflexivity.
  - cbn [app bd_ids length]. rewrite IH. replace (S b + length r) with (b + S (length r)) by lia.
    destruct (l <=? snd e); reflexivity.
Qed.

Lemma bd_ids_in : forall l its b n, In n (bd_ids l b its) ->
  exists i e, n = b + i /\ nth_error its i = Some e /\ l <= snd e.
Proof.
  induction its as [|e r IH]; intros b n Hn; [destruct Hn|].
  cbn [bd_ids] in Hn. destruct (Nat.leb_spec l (snd e)) as [Hle|Hgt].
  - destruct Hn as [<-|Hn].
    + exists 0, e. split; [lia|]. split; [reflexivity|exact Hle].
    + destruct (IH _ _ Hn) as (i & e' & -> & H1 & H2). exists (S i), e'. split; [lia|]. split; assumption.
  - destruct (IH _ _ Hn) as (i & e' & -> & H1 & H2). exists (S i), e'. split; [lia|]. split; assumption.
Qed.

Lemma bd_ids_range : forall l its b n, In n (bd_ids l b its) -> b <= n < b + length its.
Proof.
  intros l its b n Hn. destruct (bd_ids_in _ _ _ _ Hn) as (i & e & -> & H1 & _).
  assert (i < length its) by (apply nth_error_Some; congruence). lia.
Qed.

Lemma bd_ids_incr : forall l its b a, a < b -> bd_incr a (bd_ids l b its).
Proof.
  induction its as [|e r IH]; intros b a Hab; [exact I|].
  cbn [bd_ids]. destruct (l <=? snd e).
  - split; [exact Hab|]. apply IH. lia.
  - apply IH. lia.
Qed.

Lemma bd_ids_length : forall l its b, length (bd_ids l b its) <= length its.
Proof.
  induction its as [|e r IH]; intros b; [cbn; lia|].
  cbn [bd_ids length]. destruct (l <=? snd e); cbn [length]; specialize (IH (S b)); lia.
Qed.

Fixpoint bd_bases (b : nat) (segs : list (list (Z * nat))) : list (nat * list (Z * nat)) :=
  match segs with
  | [] => []
  | s :: r => (b, s) :: bd_bases (b + length s) r
  end.

(* ---------- chain with head / tail registers ---------- *)
Definition bd_chainl (sh : shared) (l : nat) (c : list nat) (oh ot : option nat) : Prop :=
  match c with
  | [] => oh = None /\ ot = None
  | h :: r => oh = Some h /\ ot = Some (last r h) /\ bd_path sh l h r
  end.

Lemma bd_chainl_frame : forall sh sh' l c oh ot,
  (forall n, In n c -> getnext sh' n l = getnext sh n l) ->
  bd_chainl sh l c oh ot -> bd_chainl sh' l c oh ot.
Proof.
  intros sh sh' l [|h r] oh ot Hf Hc; [exact Hc|].
  destruct Hc as (H1 & H2 & H3). split; [exact H1|]. split; [exact H2|].
  eapply bd_path_frame; [|exact H3]. intros n Hn. apply Hf.
  clear -Hn. revert h Hn. induction r as [|x r IH]; intros h Hn; [destruct Hn|].
  change (removelast (h :: x :: r)) with (h :: removelast (x :: r)) in Hn.
  destruct Hn as [<-|Hn]; [left; reflexivity|]. right. apply IH. exact Hn.
Qed.

(* ---------- heap well-formedness w.r.t. the items added so far ---------- *)
Record bd_hw (sh : shared) (its : list (Z * nat)) : Prop := {
  hw_len : length (heap sh) = 2 + length its;
  hw_node : forall i e, nth_error its i = Some e ->
            key (node sh (2 + i)) = fst e /\ lvl (node sh (2 + i)) = snd e /\
            length (nxt (node sh (2 + i))) = S (snd e);
  hw_hd : length (nxt (node sh hd_id)) = S maxLevel;
  hw_unm : bd_unm sh
}.

Lemma bd_hw_shp : forall sh sh' its, bd_shp sh sh' -> bd_hw sh its -> bd_hw sh' its.
Proof.
  intros sh sh' its (A1 & A2 & A3 & A4 & A5) [H1 H2 H3 H4]. constructor.
  - congruence.
  - intros i e Hi. destruct (A2 (2 + i)) as (-> & -> & ->). apply H2. exact Hi.
  - destruct (A2 hd_id) as (_ & _ & ->). exact H3.
  - auto.
Qed.

Lemma bd_hw_inr : forall sh its l b pre seg n,
  bd_hw sh its -> its = pre ++ seg -> b = 2 + length pre ->
  In n (bd_ids l b seg) -> bd_inr sh l n /\ l <= lvl (node sh n) /\ 2 <= n.
Proof.
  intros sh its l b pre seg n [H1 H2 H3 H4] -> -> Hn.
  destruct (bd_ids_in _ _ _ _ Hn) as (i & e & -> & Hi & Hl).
  assert (Hlt : i < length seg) by (apply nth_error_Some; congruence).
  assert (Hi' : nth_error (pre ++ seg) (length pre + i) = Some e).
  { rewrite nth_error_app2 by lia. replace (length pre + i - length pre) with i by lia. exact Hi. }
  destruct (H2 _ _ Hi') as (_ & Hb & Hc).
  replace (2 + length pre + i) with (2 + (length pre + i)) by lia.
  unfold bd_inr. rewrite H1, Hb, Hc, app_length. lia.
Qed.

(* ---------- appending a node ---------- *)
Lemma bd_node_app_old : forall sh nd lv' st n, n < length (heap sh) ->
  node (mkSh (heap sh ++ [nd]) lv' st) n = node sh n.
Proof. intros. unfold node. cbn [heap]. apply app_nth1. assumption. Qed.

Lemma bd_node_app_new : forall sh nd lv' st,
  node (mkSh (heap sh ++ [nd]) lv' st) (length (heap sh)) = nd.
Proof. intros. unfold node. cbn [heap]. rewrite app_nth2 by lia. rewrite Nat.sub_diag. reflexivity. Qed.

Lemma bd_getnext_app_old : forall sh nd lv' st n l, n < length (heap sh) ->
  getnext (mkSh (heap sh ++ [nd]) lv' st) n l = getnext sh n l.
Proof. intros. unfold getnext. rewrite bd_node_app_old by assumption. reflexivity. Qed.

Lemma bd_oget_set_nth : forall (v : list (option nat)) i j x,
  oget (Model.set_nth i x v) j = if (j =? i) && (i <? length v) then x else oget v j.
Proof. intros. unfold oget. apply bd_nth_set_nth. Qed.

(* ---------- add_levels: effect per level ---------- *)
Lemma bd_add_levels_spec : forall cnt sh sg x l sh' sg',
  l + cnt <= length (s_head sg) -> l + cnt <= length (s_tail sg) ->
  (forall l' t, l <= l' < l + cnt -> oget (s_tail sg) l' = Some t -> bd_inr sh l' t) ->
  add_levels sh sg x l cnt = (sh', sg') ->
  bd_shp sh sh' /\ length (s_head sg') = length (s_head sg) /\ length (s_tail sg') = length (s_tail sg) /\
  forall l',
    (l <= l' < l + cnt ->
       oget (s_tail sg') l' = Some x /\
       match oget (s_tail sg) l' with
       | Some t => oget (s_head sg') l' = oget (s_head sg) l' /\
                   forall n, getnext sh' n l' = if n =? t then (x, false) else getnext sh n l'
       | None => oget (s_head sg') l' = Some x /\ forall n, getnext sh' n l' = getnext sh n l'
       end) /\
    (~ (l <= l' < l + cnt) ->
       oget (s_head sg') l' = oget (s_head sg) l' /\ oget (s_tail sg') l' = oget (s_tail sg) l' /\
       forall n, getnext sh' n l' = getnext sh n l').
Proof.
  induction cnt as [|c IH]; intros sh sg x l sh' sg' Hh Ht Hr Hadd.
  - cbn in Hadd. injection Hadd as <- <-. split; [apply bd_shp_refl|]. split; [reflexivity|]. split; [reflexivity|].
    intros l'. split; [lia|]. intros _. auto.
  - cbn [add_levels] in Hadd.
    set (sh1 := match oget (s_tail sg) l with Some t => store_next sh t l x | None => sh end) in Hadd.
    set (sg1 := mkSeg (match oget (s_tail sg) l with Some _ => s_head sg
                                                | None => Model.set_nth l (Some x) (s_head sg) end)
                      (Model.set_nth l (Some x) (s_tail sg))) in Hadd.
    assert (Hs1 : bd_shp sh sh1).
    { subst sh1. destruct (oget (s_tail sg) l); [apply bd_shp_store|apply bd_shp_refl]. }
    assert (Hh1 : length (s_head sg1) = length (s_head sg)).
    { subst sg1. cbn [s_head]. destruct (oget (s_tail sg) l); [reflexivity|apply bd_set_nth_length]. }
    assert (Ht1 : length (s_tail sg1) = length (s_tail sg)).
    { subst sg1. cbn [s_tail]. apply bd_set_nth_length. }
    assert (Ho1 : forall l', l' <> l -> oget (s_head sg1) l' = oget (s_head sg) l' /\
                                        oget (s_tail sg1) l' = oget (s_tail sg) l' /\
                                        forall n, getnext sh1 n l' = getnext sh n l').
    { intros l' Hne. subst sg1 sh1. cbn [s_head s_tail]. split; [|split].
      - destruct (oget (s_tail sg) l); [reflexivity|]. rewrite bd_oget_set_nth.
        destruct (Nat.eqb_spec l' l); [contradiction|reflexivity].
      - rewrite bd_oget_set_nth. destruct (Nat.eqb_spec l' l); [contradiction|reflexivity].
      - intros n. destruct (oget (s_tail sg) l); [|reflexivity].
        apply bd_getnext_store_other. right; exact Hne. }
    destruct (IH sh1 sg1 x (S l) sh' sg') as (Gs & Gh & Gt & G); try lia; try exact Hadd.
    { intros l' t Hl' Hq. destruct (Ho1 l') as (_ & Hq' & _); [lia|].
      rewrite Hq' in Hq. eapply bd_inr_shp; [exact Hs1|]. apply Hr; [lia|exact Hq]. }
    split; [eapply bd_shp_trans; eassumption|]. split; [congruence|]. split; [congruence|].
    intros l'. split.
    + intros Hl'. destruct (Nat.eq_dec l' l) as [->|Hne].
      * destruct (G l) as (_ & G2). destruct G2 as (G2a & G2b & G2c); [lia|].
        rewrite G2a, G2b. subst sg1 sh1. cbn [s_head s_tail]. rewrite bd_oget_set_nth, Nat.eqb_refl.
        destruct (Nat.ltb_spec l (length (s_tail sg))) as [_|Hbad]; [|lia]. cbn [andb].
        split; [reflexivity|].
        destruct (oget (s_tail sg) l) as [t|] eqn:Et.
        -- split; [reflexivity|]. intros n. rewrite G2c.
           destruct (Nat.eqb_spec n t) as [->|Hnt].
           ++ apply bd_getnext_store_same. apply Hr; [lia|exact Et].
           ++ apply bd_getnext_store_other. left; exact Hnt.
        -- rewrite bd_oget_set_nth, Nat.eqb_refl.
           destruct (Nat.ltb_spec l (length (s_head sg))) as [_|Hbad]; [|lia]. cbn [andb].
           split; [reflexivity|]. intros n. apply G2c.
      * destruct (G l') as (G1 & _). destruct G1 as (G1a & G1b); [lia|].
        destruct (Ho1 l' Hne) as (Oa & Ob & Oc). split; [exact G1a|].
        rewrite Ob in G1b. destruct (oget (s_tail sg) l') as [t|].
        -- destruct G1b as (E1 & E2). split; [congruence|]. intros n. rewrite E2, Oc. reflexivity.
        -- destruct G1b as (E1 & E2). split; [exact E1|]. intros n. rewrite E2, Oc. reflexivity.
    + intros Hl'. destruct (G l') as (_ & G2). destruct G2 as (G2a & G2b & G2c); [lia|].
      destruct (Ho1 l') as (Oa & Ob & Oc); [lia|].
      split; [congruence|]. split; [congruence|]. intros n. rewrite G2c, Oc. reflexivity.
Qed.

Lemma bd_last_in : forall (r : list nat) h, In (last r h) (h :: r).
Proof.
  induction r as [|x r IH]; intros h; [left; reflexivity|].
  rewrite <- (bd_last_cons (x :: r) h h), bd_last_cons, bd_last_cons. right. apply IH.
Qed.

Lemma bd_chainl_tail_in : forall sh l c oh t, bd_chainl sh l c oh (Some t) -> In t c.
Proof.
  intros sh l [|h r] oh t Hc.
  - destruct Hc as [_ Hc]. discriminate.
  - destruct Hc as (_ & Hc & _). injection Hc as ->. apply bd_last_in.
Qed.

Definition bd_seg_ok (sh : shared) (b : nat) (its : list (Z * nat)) (sg : seg) : Prop :=
  length (s_head sg) = S maxLevel /\ length (s_tail sg) = S maxLevel /\
  forall l, l <= maxLevel -> bd_chainl sh l (bd_ids l b its) (oget (s_head sg) l) (oget (s_tail sg) l).

Lemma bd_seg_ok_frame : forall sh sh' b its sg,
  (forall n l, n < b + length its -> getnext sh' n l = getnext sh n l) ->
  bd_seg_ok sh b its sg -> bd_seg_ok sh' b its sg.
Proof.
  intros sh sh' b its sg Hf (H1 & H2 & H3). split; [exact H1|]. split; [exact H2|].
  intros l Hl. eapply bd_chainl_frame; [|apply H3; exact Hl].
  intros n Hn. apply Hf. apply bd_ids_range in Hn. lia.
Qed.

Lemma bd_seg_add_spec : forall sh sg k lv pre its sh' sg',
  bd_hw sh (pre ++ its) -> bd_seg_ok sh (2 + length pre) its sg -> lv <= maxLevel ->
  seg_add sh sg k lv = (sh', sg') ->
  bd_hw sh' (pre ++ its ++ [(k, lv)]) /\ bd_seg_ok sh' (2 + length pre) (its ++ [(k, lv)]) sg' /\
  (forall n l, n < 2 + length pre -> getnext sh' n l = getnext sh n l) /\
  sl_level sh' = Nat.max (sl_level sh) lv /\ sts sh' = st_add_nodes (st_add_alloc (sts sh)) lv 1.
Proof.
  intros sh sg k lv pre its sh' sg' Hw (Sh & St & Sc) Hlv Hadd.
  unfold seg_add in Hadd. cbn [with_sts sts] in Hadd.
  set (x := length (heap sh)) in *.
  set (nd := mkNd k lv (repeat (tl_id, false) (S lv))) in *.
  set (sh1 := mkSh (heap sh ++ [nd]) (Nat.max (sl_level sh) lv) (st_add_nodes (st_add_alloc (sts sh)) lv 1)) in *.
  assert (Hx : x = 2 + length pre + length its).
  { subst x. rewrite (hw_len _ _ Hw), app_length. lia. }
  assert (Hold : forall n l, n < x -> getnext sh1 n l = getnext sh n l).
  { intros n l Hn. apply bd_getnext_app_old. exact Hn. }
  assert (Hw1 : bd_hw sh1 (pre ++ its ++ [(k, lv)])).
  { rewrite app_assoc. constructor.
    - subst sh1. cbn [heap]. rewrite !app_length. cbn [length]. fold x. lia.
    - intros i e Hi. destruct (Nat.lt_ge_cases i (length (pre ++ its))) as [Hlt|Hge].
      + rewrite nth_error_app1 in Hi by exact Hlt. subst sh1. rewrite bd_node_app_old.
        * apply (hw_node _ _ Hw). exact Hi.
        * rewrite (hw_len _ _ Hw). lia.
      + rewrite nth_error_app2 in Hi by exact Hge.
        destruct (i - length (pre ++ its)) as [|j] eqn:Ej.
        * cbn in Hi. injection Hi as <-.
          replace (2 + i) with (length (heap sh)).
          -- subst sh1. rewrite bd_node_app_new. subst nd. cbn [key lvl nxt fst snd].
             rewrite repeat_length. auto.
          -- rewrite (hw_len _ _ Hw). lia.
        * cbn in Hi. destruct j; discriminate.
    - subst sh1. rewrite bd_node_app_old; [apply (hw_hd _ _ Hw)|]. rewrite (hw_len _ _ Hw). unfold hd_id. lia.
    - intros n l. destruct (Nat.lt_trichotomy n x) as [Hn|[Hn|Hn]].
      + rewrite Hold by exact Hn. apply (hw_unm _ _ Hw).
      + subst n. unfold getnext. subst sh1 x. rewrite bd_node_app_new. subst nd. cbn [nxt].
        rewrite nth_repeat. reflexivity.
      + unfold getnext, node. subst sh1. cbn [heap]. rewrite (nth_overflow (heap sh ++ [nd])).
        * cbn [nxt]. destruct l; reflexivity.
        * rewrite app_length. cbn [length]. fold x. lia. }
  assert (Hin1 : forall l n, n < x -> bd_inr sh l n -> bd_inr sh1 l n).
  { intros l n Hn [H1 H2]. split.
    - subst sh1. cbn [heap]. rewrite app_length. lia.
    - subst sh1. rewrite bd_node_app_old by exact H1. exact H2. }
  destruct (bd_add_levels_spec (S lv) sh1 sg x 0 sh' sg') as (Gs & Gh & Gt & G); try lia; try exact Hadd.
  { intros l' t Hl' Ht. assert (Hc := Sc l' ltac:(lia)). rewrite Ht in Hc.
    apply bd_chainl_tail_in in Hc.
    destruct (bd_hw_inr sh _ l' _ pre its t Hw eq_refl eq_refl Hc) as (Hi & _).
    apply Hin1; [|exact Hi]. apply bd_ids_range in Hc. lia. }
  split; [eapply bd_hw_shp; eassumption|].
  split; [|split].
  - split; [congruence|]. split; [congruence|]. intros l Hl.
    rewrite bd_ids_app. cbn [bd_ids snd].
    replace (2 + length pre + length its) with x by lia.
    specialize (Sc l Hl). destruct (G l) as (G1 & G2).
    destruct (Nat.leb_spec l lv) as [Hle|Hgt].
    + destruct G1 as (G1a & G1b); [lia|]. rewrite G1a.
      destruct (bd_ids l (2 + length pre) its) as [|h r] eqn:Eids.
      * destruct Sc as (Sc1 & Sc2). rewrite Sc2 in G1b. destruct G1b as (G1b & _).
        cbn [app bd_chainl last bd_path]. auto.
      * destruct Sc as (Sc1 & Sc2 & Sc3). rewrite Sc2 in G1b. destruct G1b as (G1b & G1c).
        cbn [app bd_chainl]. split; [congruence|]. split.
        -- rewrite bd_last_app. reflexivity.
        -- apply bd_path_app. split.
           ++ eapply bd_path_frame; [|exact Sc3]. intros n Hn. rewrite G1c.
              assert (Hincr : bd_incr h r).
              { pose proof (bd_ids_incr l its (2 + length pre) 0 ltac:(lia)) as Hi. rewrite Eids in Hi. apply Hi. }
              pose proof (bd_incr_removelast _ _ _ Hincr Hn) as Hlt.
              destruct (Nat.eqb_spec n (last r h)) as [Heq|_]; [lia|].
              apply Hold.
              assert (Hlast : In (last r h) (bd_ids l (2 + length pre) its)) by (rewrite Eids; apply bd_last_in).
              apply bd_ids_range in Hlast. lia.
           ++ cbn [bd_path]. split; [|exact I]. unfold bd_nx. rewrite G1c, Nat.eqb_refl. reflexivity.
    + destruct G2 as (G2a & G2b & G2c); [lia|]. rewrite app_nil_r, G2a, G2b.
      eapply bd_chainl_frame; [|exact Sc]. intros n Hn. rewrite G2c. apply Hold.
      apply bd_ids_range in Hn. lia.
  - intros n l Hn. rewrite <- (Hold n l) by lia.
    destruct (G l) as (G1 & G2).
    destruct (Nat.lt_ge_cases l (S lv)) as [Hl|Hl].
    + destruct G1 as (_ & G1b); [lia|].
      destruct (oget (s_tail sg) l) as [t|] eqn:Et.
      * destruct G1b as (_ & G1c). rewrite G1c.
        destruct (Nat.eqb_spec n t) as [->|_]; [|reflexivity].
        assert (Hc := Sc l ltac:(lia)). rewrite Et in Hc. apply bd_chainl_tail_in, bd_ids_range in Hc. lia.
      * destruct G1b as (_ & G1c). apply G1c.
    + destruct G2 as (_ & _ & G2c); [lia|]. apply G2c.
  - destruct Gs as (_ & _ & G3 & G4 & _). rewrite G3, G4. subst sh1. cbn [sl_level sts]. auto.
Qed.

Definition bd_stf (s : stats) (e : Z * nat) : stats := st_add_nodes (st_add_alloc s) (snd e) 1.
Definition bd_lvf (a : nat) (e : Z * nat) : nat := Nat.max a (snd e).
Definition bd_lvok (e : Z * nat) : Prop := snd e <= maxLevel.

Lemma bd_seg_fill_spec : forall new sh sg pre its sh' sg',
  bd_hw sh (pre ++ its) -> bd_seg_ok sh (2 + length pre) its sg -> Forall bd_lvok new ->
  seg_fill sh sg new = (sh', sg') ->
  bd_hw sh' (pre ++ its ++ new) /\ bd_seg_ok sh' (2 + length pre) (its ++ new) sg' /\
  (forall n l, n < 2 + length pre -> getnext sh' n l = getnext sh n l) /\
  sl_level sh' = fold_left bd_lvf new (sl_level sh) /\ sts sh' = fold_left bd_stf new (sts sh).
Proof.
  induction new as [|[k lv] r IH]; intros sh sg pre its sh' sg' Hw Hs Hok Hf.
  - cbn in Hf. injection Hf as <- <-. rewrite app_nil_r. cbn [fold_left]. auto.
  - cbn [seg_fill] in Hf. destruct (seg_add sh sg k lv) as [sh1 sg1] eqn:Eadd.
    inversion Hok as [|? ? Hk Hr]; subst. unfold bd_lvok in Hk. cbn [snd] in Hk.
    destruct (bd_seg_add_spec _ _ _ _ _ _ _ _ Hw Hs Hk Eadd) as (A1 & A2 & A3 & A4 & A5).
    destruct (IH sh1 sg1 pre (its ++ [(k, lv)]) sh' sg') as (B1 & B2 & B3 & B4 & B5); try assumption.
    rewrite <- !app_assoc in B1. rewrite <- app_assoc in B2. cbn [app] in B1, B2.
    split; [exact B1|]. split; [exact B2|]. split.
    + intros n l Hn. rewrite B3, A3 by exact Hn. reflexivity.
    + cbn [fold_left]. unfold bd_lvf at 2. unfold bd_stf at 2. cbn [snd]. rewrite <- A4, <- A5. auto.
Qed.

Lemma bd_seg0_ok : forall sh b, bd_seg_ok sh b [] seg0.
Proof.
  intros sh b. unfold seg0. split; [apply repeat_length|]. split; [apply repeat_length|].
  intros l _. cbn [bd_ids bd_chainl s_head s_tail]. unfold oget. rewrite nth_repeat. auto.
Qed.

Lemma bd_fill_all_spec : forall segs pre sh sh' sgs,
  bd_hw sh pre -> Forall bd_lvok (concat segs) -> fill_all sh segs = (sh', sgs) ->
  bd_hw sh' (pre ++ concat segs) /\
  Forall2 (fun sg bi => bd_seg_ok sh' (fst bi) (snd bi) sg) sgs (bd_bases (2 + length pre) segs) /\
  (forall n l, n < 2 + length pre -> getnext sh' n l = getnext sh n l) /\
  sl_level sh' = fold_left bd_lvf (concat segs) (sl_level sh) /\
  sts sh' = fold_left bd_stf (concat segs) (sts sh).
Proof.
  induction segs as [|s r IH]; intros pre sh sh' sgs Hw Hok Hf.
  - cbn in Hf. injection Hf as <- <-. cbn [concat bd_bases fold_left]. rewrite app_nil_r.
    split; [exact Hw|]. split; [constructor|]. auto.
  - cbn [fill_all] in Hf. destruct (seg_fill sh seg0 s) as [sh1 sg] eqn:Es.
    destruct (fill_all sh1 r) as [sh2 sgs'] eqn:Er. injection Hf as <- <-.
    cbn [concat] in Hok. apply Forall_app in Hok. destruct Hok as [Hoks Hokr].
    assert (Hw0 : bd_hw sh (pre ++ [])) by (rewrite app_nil_r; exact Hw).
    destruct (bd_seg_fill_spec _ _ _ _ _ _ _ Hw0 (bd_seg0_ok _ _) Hoks Es) as (A1 & A2 & A3 & A4 & A5).
    cbn [app] in A1, A2.
    destruct (IH (pre ++ s) sh1 sh2 sgs' A1 Hokr Er) as (B1 & B2 & B3 & B4 & B5).
    rewrite app_length in B2, B3. cbn [concat bd_bases].
    split; [rewrite app_assoc; exact B1|]. split; [|split; [|split]].
    + constructor.
      * cbn [fst snd]. eapply bd_seg_ok_frame; [|exact A2]. intros n l Hn. apply B3. lia.
      * rewrite Nat.add_assoc in B2. exact B2.
    + intros n l Hn. rewrite B3, A3 by lia. reflexivity.
    + rewrite fold_left_app, <- A4. exact B4.
    + rewrite fold_left_app, <- A5. exact B5.
Qed.

(* ---------- assemble: one level ---------- *)
Definition bd_sorted_chain (c : list nat) : Prop :=
  match c with [] => True | h :: r => bd_incr h r end.

Lemma bd_sorted_chain_app : forall c0 l b s,
  bd_sorted_chain c0 -> (forall n, In n c0 -> n < b) -> 0 < b ->
  bd_sorted_chain (c0 ++ bd_ids l b s).
Proof.
  intros [|h0 r0] l b s Hs Hb Hpos.
  - cbn [app]. pose proof (bd_ids_incr l s b 0 Hpos) as Hi.
    destruct (bd_ids l b s) as [|h r]; [exact I|]. apply Hi.
  - cbn [app bd_sorted_chain] in *. apply bd_incr_app. split; [exact Hs|].
    apply bd_ids_incr. apply Hb. apply bd_last_in.
Qed.

Definition bd_lpre (sh : shared) (l : nat) (sg : seg) (bi : nat * list (Z * nat)) : Prop :=
  bd_chainl sh l (bd_ids l (fst bi) (snd bi)) (oget (s_head sg) l) (oget (s_tail sg) l).

Lemma bd_lpre_frame : forall l sh sh' segs b sgs,
  (forall n, b <= n -> getnext sh' n l = getnext sh n l) ->
  Forall2 (bd_lpre sh l) sgs (bd_bases b segs) -> Forall2 (bd_lpre sh' l) sgs (bd_bases b segs).
Proof.
  induction segs as [|s r IH]; intros b sgs Hf HF; cbn [bd_bases] in *.
  - inversion HF; subst. constructor.
  - inversion HF as [|sg bi sgs' bis H1 H2]; subst. constructor.
    + unfold bd_lpre in *. cbn [fst snd] in *. eapply bd_chainl_frame; [|exact H1].
      intros n Hn. apply Hf. apply bd_ids_range in Hn. lia.
    + apply IH; [|exact H2]. intros n Hn. apply Hf. lia.
Qed.

Lemma bd_asm_level_spec : forall l segs sgs b sh c0 oh ot sh' oh' ot',
  2 <= b ->
  Forall2 (bd_lpre sh l) sgs (bd_bases b segs) ->
  bd_chainl sh l c0 oh ot ->
  bd_sorted_chain c0 ->
  (forall n, In n c0 -> 2 <= n < b) ->
  (forall n, In n c0 -> bd_inr sh l n) ->
  (forall n, In n (bd_ids l b (concat segs)) -> bd_inr sh l n) ->
  asm_level sh oh ot sgs l = (sh', oh', ot') ->
  bd_chainl sh' l (c0 ++ bd_ids l b (concat segs)) oh' ot' /\ bd_shp sh sh' /\
  (forall n l', l' <> l \/ n < 2 -> getnext sh' n l' = getnext sh n l').
Proof.
  induction segs as [|s r IH]; intros sgs b sh c0 oh ot sh' oh' ot' Hb HF Hc0 Hs0 Hr0 Hi0 Hi1 Hasm;
    cbn [bd_bases] in HF.
  - inversion HF; subst. cbn in Hasm. injection Hasm as <- <- <-. cbn [concat bd_ids]. rewrite app_nil_r.
    split; [exact Hc0|]. split; [apply bd_shp_refl|]. auto.
  - inversion HF as [|sg bi sgs' bis Hsg HF']; subst. cbn [asm_level] in Hasm.
    cbn [concat] in *. rewrite bd_ids_app in Hi1. rewrite bd_ids_app, app_assoc.
    unfold bd_lpre in Hsg. cbn [fst snd] in Hsg.
    set (sh1 := match ot, oget (s_head sg) l with Some t, Some h => store_next sh t l h | _, _ => sh end) in Hasm.
    set (hd1 := match ot, oh, oget (s_head sg) l with
                | Some _, _, Some _ => oh | _, None, Some h => Some h | _, _, _ => oh end) in Hasm.
    set (tl1 := match oget (s_tail sg) l with Some t => Some t | None => ot end) in Hasm.
    assert (Hshp : bd_shp sh sh1).
    { subst sh1. destruct ot; [|apply bd_shp_refl]. destruct (oget (s_head sg) l); [apply bd_shp_store|apply bd_shp_refl]. }
    assert (Hfr : forall n l', l' <> l \/ ~ In n c0 -> getnext sh1 n l' = getnext sh n l').
    { intros n l' Hn. subst sh1. destruct ot as [t|]; [|reflexivity].
      destruct (oget (s_head sg) l); [|reflexivity].
      apply bd_getnext_store_other. destruct Hn as [Hn|Hn]; [right; exact Hn|left].
      intros ->. apply Hn. eapply bd_chainl_tail_in. exact Hc0. }
    assert (Hsg1 : bd_chainl sh1 l (bd_ids l b s) (oget (s_head sg) l) (oget (s_tail sg) l)).
    { eapply bd_chainl_frame; [|exact Hsg]. intros n Hn. apply Hfr. right. intros Hin.
      apply Hr0 in Hin. apply bd_ids_range in Hn. lia. }
    assert (Hc1 : bd_chainl sh1 l (c0 ++ bd_ids l b s) hd1 tl1).
    { destruct (bd_ids l b s) as [|h rc] eqn:Ec.
      - destruct Hsg as [E1 E2]. subst sh1 hd1 tl1. rewrite E1, E2. rewrite app_nil_r.
        destruct ot, oh; exact Hc0.
      - destruct Hsg1 as (E1 & E2 & E3). destruct c0 as [|h0 r0].
        + destruct Hc0 as [-> ->]. subst hd1 tl1. rewrite E1, E2. cbn [app bd_chainl]. auto.
        + destruct Hc0 as (-> & -> & P0). subst hd1 tl1. rewrite E1, E2.
          cbn [app bd_chainl]. split; [reflexivity|]. split.
          * rewrite bd_last_app, bd_last_cons. reflexivity.
          * apply bd_path_app. split.
            -- eapply bd_path_frame; [|exact P0]. intros n Hn. subst sh1. rewrite E1.
               apply bd_getnext_store_other. left.
               pose proof (bd_incr_removelast _ _ _ Hs0 Hn). lia.
            -- cbn [bd_path]. split; [|exact E3]. subst sh1. rewrite E1. unfold bd_nx.
               rewrite bd_getnext_store_same; [reflexivity|]. apply Hi0. apply bd_last_in. }
    destruct (IH sgs' (b + length s) sh1 (c0 ++ bd_ids l b s) hd1 tl1 sh' oh' ot') as (A1 & A2 & A3);
      try exact Hasm; try exact Hc1; try lia.
    + apply bd_lpre_frame with (sh := sh); [|exact HF']. intros n Hn. apply Hfr. right.
      intros Hin. apply Hr0 in Hin. lia.
    + apply bd_sorted_chain_app; [exact Hs0| |lia]. intros n Hn. apply Hr0 in Hn. lia.
    + intros n Hn. apply in_app_or in Hn. destruct Hn as [Hn|Hn].
      * apply Hr0 in Hn. lia.
      * apply bd_ids_range in Hn. lia.
    + intros n Hn. eapply bd_inr_shp; [exact Hshp|]. apply in_app_or in Hn. destruct Hn as [Hn|Hn].
      * apply Hi0. exact Hn.
      * apply Hi1. apply in_or_app. left. exact Hn.
    + intros n Hn. eapply bd_inr_shp; [exact Hshp|]. apply Hi1. apply in_or_app. right. exact Hn.
    + split; [exact A1|]. split; [eapply bd_shp_trans; eassumption|].
      intros n l' Hn. rewrite A3 by exact Hn. apply Hfr. destruct Hn as [Hn|Hn]; [left; exact Hn|right].
      intros Hin. apply Hr0 in Hin. lia.
Qed.

Lemma bd_in_removelast : forall (c : list nat) n, In n (removelast c) -> In n c.
Proof.
  induction c as [|x r IH]; intros n Hn; [destruct Hn|].
  destruct r as [|y r]; [destruct Hn|].
  change (removelast (x :: y :: r)) with (x :: removelast (y :: r)) in Hn.
  destruct Hn as [<-|Hn]; [left; reflexivity|right; apply IH; exact Hn].
Qed.

Definition bd_pre (sh : shared) (segs : list (list (Z * nat))) (sgs : list seg) (l : nat) : Prop :=
  Forall2 (bd_lpre sh l) sgs (bd_bases 2 segs) /\ bd_nx sh l hd_id = tl_id.

Definition bd_post (sh : shared) (items : list (Z * nat)) (l : nat) : Prop :=
  bd_path sh l hd_id (bd_ids l 2 items) /\ bd_nx sh l (last (bd_ids l 2 items) hd_id) = tl_id.

Lemma bd_pre_frame : forall sh sh' segs sgs l,
  (forall n, getnext sh' n l = getnext sh n l) -> bd_pre sh segs sgs l -> bd_pre sh' segs sgs l.
Proof.
  intros sh sh' segs sgs l Hf [H1 H2]. split.
  - eapply bd_lpre_frame; [|exact H1]. intros n _. apply Hf.
  - unfold bd_nx. rewrite Hf. exact H2.
Qed.

Lemma bd_post_frame : forall sh sh' items l,
  (forall n, getnext sh' n l = getnext sh n l) -> bd_post sh items l -> bd_post sh' items l.
Proof.
  intros sh sh' items l Hf [H1 H2]. split.
  - eapply bd_path_frame; [|exact H1]. intros n _. apply Hf.
  - unfold bd_nx. rewrite Hf. exact H2.
Qed.

Definition bd_body (sh : shared) (sgs : list seg) (l : nat) : shared :=
  let '(sh1, head, tail) := asm_level sh None None sgs l in
  let sh2 := match head with Some h => store_next sh1 hd_id l h | None => sh1 end in
  match tail with Some t => store_next sh2 t l tl_id | None => sh2 end.

Lemma bd_asm_levels_S : forall sh sgs l c,
  asm_levels sh sgs l (S c) = asm_levels (bd_body sh sgs l) sgs (S l) c.
Proof.
  intros. unfold bd_body. cbn [asm_levels]. destruct (asm_level sh None None sgs l) as [[sh1 hd] tl].
  reflexivity.
Qed.

Lemma bd_body_spec : forall sh segs sgs l,
  bd_hw sh (concat segs) -> l <= maxLevel -> bd_pre sh segs sgs l ->
  bd_shp sh (bd_body sh sgs l) /\ bd_post (bd_body sh sgs l) (concat segs) l /\
  (forall n l', l' <> l -> getnext (bd_body sh sgs l) n l' = getnext sh n l').
Proof.
  intros sh segs sgs l Hw Hl [HF Hhd]. unfold bd_body.
  destruct (asm_level sh None None sgs l) as [[sh1 oh] ot] eqn:Easm.
  assert (Hinr : forall n, In n (bd_ids l 2 (concat segs)) -> bd_inr sh l n /\ 2 <= n).
  { intros n Hn. destruct (bd_hw_inr sh _ l 2 [] (concat segs) n Hw eq_refl eq_refl Hn) as (A & _ & B). auto. }
  destruct (bd_asm_level_spec l segs sgs 2 sh [] None None sh1 oh ot) as (A1 & A2 & A3);
    try exact Easm; try exact HF; try lia.
  { cbn. auto. } { exact I. } { intros n []. } { intros n []. } { intros n Hn. apply Hinr. exact Hn. }
  cbn [app] in A1.
  assert (Hhd1 : bd_inr sh1 l hd_id).
  { eapply bd_inr_shp; [exact A2|]. split.
    - rewrite (hw_len _ _ Hw). unfold hd_id. lia.
    - rewrite (hw_hd _ _ Hw). lia. }
  unfold bd_post. destruct (bd_ids l 2 (concat segs)) as [|h r] eqn:Ec.
  - destruct A1 as [-> ->]. split; [exact A2|]. split.
    + split; [exact I|]. cbn [last]. unfold bd_nx. rewrite A3; [exact Hhd|]. right. unfold hd_id. lia.
    + intros n l' Hne. apply A3. left. exact Hne.
  - destruct A1 as (-> & -> & P1).
    set (t := last r h) in *.
    assert (Ht : In t (h :: r)) by apply bd_last_in.
    assert (Ht2 : 2 <= t) by (apply Hinr; exact Ht).
    set (sh2 := store_next sh1 hd_id l h).
    assert (Hs2 : bd_shp sh1 sh2) by apply bd_shp_store.
    assert (Ht1 : bd_inr sh2 l t).
    { eapply bd_inr_shp; [exact Hs2|]. eapply bd_inr_shp; [exact A2|]. apply Hinr. exact Ht. }
    split; [|split].
    + eapply bd_shp_trans; [exact A2|]. eapply bd_shp_trans; [exact Hs2|]. apply bd_shp_store.
    + rewrite bd_last_cons. fold t. split.
      * cbn [bd_path]. split.
        -- unfold bd_nx. rewrite bd_getnext_store_other by (left; unfold hd_id; lia).
           subst sh2. rewrite bd_getnext_store_same by exact Hhd1. reflexivity.
        -- eapply bd_path_frame; [|exact P1]. intros n Hn.
           assert (Hincr : bd_incr h r).
           { pose proof (bd_ids_incr l (concat segs) 2 0 ltac:(lia)) as Hi. rewrite Ec in Hi. apply Hi. }
           pose proof (bd_incr_removelast _ _ _ Hincr Hn) as Hlt. fold t in Hlt.
           apply bd_in_removelast in Hn. apply Hinr in Hn.
           rewrite bd_getnext_store_other by (left; lia). subst sh2.
           apply bd_getnext_store_other. left. unfold hd_id. lia.
      * unfold bd_nx. rewrite bd_getnext_store_same by exact Ht1. reflexivity.
    + intros n l' Hne. rewrite bd_getnext_store_other by (right; exact Hne). subst sh2.
      rewrite bd_getnext_store_other by (right; exact Hne). apply A3. left. exact Hne.
Qed.

Lemma bd_asm_levels_spec : forall segs sgs cnt l sh,
  l + cnt = S maxLevel -> bd_hw sh (concat segs) ->
  (forall l', l <= l' <= maxLevel -> bd_pre sh segs sgs l') ->
  (forall l', l' < l -> bd_post sh (concat segs) l') ->
  bd_shp sh (asm_levels sh sgs l cnt) /\
  forall l', l' <= maxLevel -> bd_post (asm_levels sh sgs l cnt) (concat segs) l'.
Proof.
  induction cnt as [|c IH]; intros l sh Hlc Hw Hpre Hpost.
  - cbn [asm_levels]. split; [apply bd_shp_refl|]. intros l' Hl'. apply Hpost. lia.
  - rewrite bd_asm_levels_S.
    destruct (bd_body_spec sh segs sgs l Hw ltac:(lia) (Hpre l ltac:(lia))) as (B1 & B2 & B3).
    destruct (IH (S l) (bd_body sh sgs l)) as (C1 & C2); try lia.
    + eapply bd_hw_shp; eassumption.
    + intros l' Hl'. eapply bd_pre_frame; [|apply Hpre; lia]. intros n. apply B3. lia.
    + intros l' Hl'. destruct (Nat.eq_dec l' l) as [->|Hne]; [exact B2|].
      eapply bd_post_frame; [|apply Hpost; lia]. intros n. apply B3. exact Hne.
    + split; [eapply bd_shp_trans; eassumption|exact C2].
Qed.

(* ---------- walk ---------- *)
Lemma bd_walk_path : forall c sh l a fuel,
  a <> tl_id -> bd_path sh l a c -> bd_nx sh l (last c a) = tl_id ->
  (forall n, In n c -> n <> tl_id /\ n <> hd_id) -> length c + 2 <= fuel ->
  walk_ids fuel sh l a = Some ((if a =? hd_id then [] else [a]) ++ c).
Proof.
  induction c as [|x r IH]; intros sh l a fuel Ha Hp He Hc Hfuel.
  - destruct fuel as [|[|f]]; cbn [length] in Hfuel; try lia.
    cbn [walk_ids]. destruct (Nat.eqb_spec a tl_id) as [|_]; [contradiction|].
    cbn [last] in He. unfold bd_nx in He. rewrite He. rewrite Nat.eqb_refl.
    destruct (a =? hd_id); reflexivity.
  - destruct fuel as [|f]; cbn [length] in Hfuel; try lia.
    cbn [walk_ids]. destruct (Nat.eqb_spec a tl_id) as [|_]; [contradiction|].
    destruct Hp as [Hx Hp]. unfold bd_nx in Hx. rewrite Hx.
    destruct (Hc x (or_introl eq_refl)) as [Hx1 Hx2].
    rewrite bd_last_cons in He.
    rewrite (IH sh l x f Hx1 Hp He) by (try lia; intros n Hn; apply Hc; right; exact Hn).
    destruct (Nat.eqb_spec x hd_id) as [|_]; [contradiction|].
    destruct (a =? hd_id); reflexivity.
Qed.

Lemma bd_ids_keys : forall l its b sh,
  (forall i e, nth_error its i = Some e -> key (node sh (b + i)) = fst e) ->
  map (fun n => key (node sh n)) (bd_ids l b its) = map fst (filter (fun e => l <=? snd e) its).
Proof.
  induction its as [|e r IH]; intros b sh H; [reflexivity|].
  assert (Hr : map (fun n => key (node sh n)) (bd_ids l (S b) r) = map fst (filter (fun e => l <=? snd e) r)).
  { apply IH. intros i e' Hi. replace (S b + i) with (b + S i) by lia. apply H. exact Hi. }
  cbn [bd_ids filter]. destruct (l <=? snd e); [|exact Hr].
  cbn [map]. rewrite Hr. f_equal. rewrite <- (H 0 e eq_refl). rewrite Nat.add_0_r. reflexivity.
Qed.

Lemma bd_hw_init : bd_hw init_sh [].
Proof.
  constructor.
  - reflexivity.
  - intros [|i] e Hi; discriminate.
  - reflexivity.
  - intros n l. unfold getnext, node, init_sh. cbn [heap].
    destruct n as [|[|n]]; cbn [nth nxt].
    + rewrite nth_repeat. reflexivity.
    + rewrite nth_repeat. reflexivity.
    + destruct n; cbn; destruct l; reflexivity.
Qed.

Lemma bd_Forall2_impl : forall A B (P Q : A -> B -> Prop) l1 l2,
  (forall a b, P a b -> Q a b) -> Forall2 P l1 l2 -> Forall2 Q l1 l2.
Proof. intros A B P Q l1 l2 H HF. induction HF; constructor; auto. Qed.

Lemma bd_assemble_inv : forall segs, Forall bd_lvok (concat segs) ->
  let sh := assemble segs in
  bd_hw sh (concat segs) /\ (forall l, l <= maxLevel -> bd_post sh (concat segs) l) /\
  sl_level sh = fold_left bd_lvf (concat segs) 0 /\
  sts sh = fold_left bd_stf (concat segs) (sts init_sh).
Proof.
  intros segs Hok sh. subst sh. unfold assemble.
  destruct (fill_all init_sh segs) as [sh1 sgs] eqn:Ef.
  destruct (bd_fill_all_spec segs [] init_sh sh1 sgs bd_hw_init Hok Ef) as (A1 & A2 & A3 & A4 & A5).
  cbn [app length] in A1, A2, A3.
  destruct (bd_asm_levels_spec segs sgs (S maxLevel) 0 sh1 ltac:(lia) A1) as (B1 & B2).
  - intros l Hl. split.
    + eapply bd_Forall2_impl; [|exact A2]. intros sg bi (_ & _ & H). apply H. lia.
    + unfold bd_nx, hd_id. rewrite A3 by lia. unfold getnext, node, init_sh. cbn [heap nth nxt].
      rewrite nth_repeat. reflexivity.
  - intros l' Hl'. lia.
  - split; [eapply bd_hw_shp; eassumption|]. split; [exact B2|].
    destruct B1 as (_ & _ & -> & -> & _). auto.
Qed.

Lemma bd_items_lvok : forall segs, items_ok segs -> Forall bd_lvok (concat segs).
Proof. intros segs [_ H]. exact H. Qed.

Theorem assemble_concat : stmt_assemble_concat.
Proof.
  intros segs Hok sh l Hl.
  destruct (bd_assemble_inv segs (bd_items_lvok _ Hok)) as (Hw & Hpost & _). fold sh in Hw, Hpost.
  destruct (Hpost l Hl) as [Hp He].
  exists (bd_ids l 2 (concat segs)). split; [|split].
  - unfold chain_ids. rewrite (bd_walk_path (bd_ids l 2 (concat segs)) sh l hd_id); [reflexivity | | | | |].
    + discriminate.
    + exact Hp.
    + exact He.
    + intros n Hn. apply bd_ids_range in Hn. unfold tl_id, hd_id. lia.
    + rewrite (hw_len _ _ Hw). pose proof (bd_ids_length l (concat segs) 2). lia.
  - apply bd_ids_keys. intros i e Hi. apply (hw_node _ _ Hw). exact Hi.
  - intros n Hn. split.
    + unfold marked. apply (hw_unm _ _ Hw).
    + destruct (bd_hw_inr sh _ l 2 [] (concat segs) n Hw eq_refl eq_refl Hn) as (_ & H & _). exact H.
Qed.
Print Assumptions assemble_concat.

(* ---------- statistics ---------- *)
Lemma bd_lvf_fold : forall items a,
  fold_left bd_lvf items a = Nat.max a (fold_right Nat.max 0 (map snd items)).
Proof.
  induction items as [|e r IH]; intros a; cbn [fold_left map fold_right].
  - lia.
  - rewrite IH. unfold bd_lvf. lia.
Qed.

Lemma bd_stf_fold : forall items s, Forall bd_lvok items -> length (st_nodes s) = S maxLevel ->
  let s' := fold_left bd_stf items s in
  st_soft s' = st_soft s /\ st_allocs s' = (st_allocs s + Z.of_nat (length items))%Z /\
  forall l, nth l (st_nodes s') 0%Z =
            (nth l (st_nodes s) 0 + Z.of_nat (length (filter (fun e => Nat.eqb (snd e) l) items)))%Z.
Proof.
  induction items as [|e r IH]; intros s Hok Hlen; cbn [fold_left].
  - cbn [length filter]. split; [reflexivity|]. split; [lia|]. intros l. lia.
  - inversion Hok as [|? ? He Hr]; subst. unfold bd_lvok in He.
    destruct (IH (bd_stf s e) Hr) as (A1 & A2 & A3).
    { unfold bd_stf, st_add_nodes, upd_list. cbn [st_nodes]. rewrite bd_set_nth_length. exact Hlen. }
    split; [rewrite A1; reflexivity|]. split.
    + rewrite A2. unfold bd_stf. cbn [st_allocs st_add_nodes st_add_alloc length]. lia.
    + intros l. rewrite A3. unfold bd_stf, st_add_nodes, st_add_alloc, upd_list. cbn [st_nodes filter].
      rewrite bd_nth_set_nth, Hlen.
      destruct (Nat.ltb_spec (snd e) (S maxLevel)) as [_|Hbad]; [|lia].
      rewrite andb_true_r, (Nat.eqb_sym l (snd e)).
      destruct (Nat.eqb_spec (snd e) l) as [->|Hne]; cbn [length]; lia.
Qed.

Theorem assemble_stats : stmt_assemble_stats.
Proof.
  intros segs Hok sh.
  pose proof (bd_items_lvok _ Hok) as Hlv.
  destruct (bd_assemble_inv segs Hlv) as (_ & _ & Hl & Hs). fold sh in Hl, Hs.
  destruct (bd_stf_fold (concat segs) (sts init_sh) Hlv) as (A1 & A2 & A3).
  { reflexivity. }
  rewrite <- Hs in A1, A2, A3.
  split; [rewrite Hl, bd_lvf_fold; reflexivity|].
  split; [rewrite A1; reflexivity|].
  split; [rewrite A2; reflexivity|].
  intros l Hl'. rewrite A3. unfold init_sh. cbn [sts st_nodes]. rewrite nth_repeat. reflexivity.
Qed.
Print Assumptions assemble_stats.


Open Scope Z_scope.
(** ** the unrepaired merger (heap not reset by SeekFirst) is observably different:
    a second SeekFirst leaves stale entries, the scan then dereferences nil *)
Example merge_no_reset_refuted :
  m_run false (m_init [[1; 2; 3]]) [MSeekFirst; MNext; MSeekFirst; MNext; MNext; MNext] <>
  m_run true  (m_init [[1; 2; 3]]) [MSeekFirst; MNext; MSeekFirst; MNext; MNext; MNext].
Proof. vm_compute. discriminate. Qed.
Print Assumptions merge_no_reset_refuted.
