(** Statements about the skiplist step machine (Skip/Model.v), for ALL programs and ALL schedules. *)
From Coq Require Import List Arith ZArith Lia Bool Sorting.Sorted.
From NV Require Import Base.Sched Skip.Model.
Import ListNotations.
Open Scope Z_scope.

(** node ids of the level-l chain from the head (head and tail excluded); None = the walk did not
    reach the tail within the fuel (a cycle or a dangling pointer) *)
Fixpoint walk_ids (fuel : nat) (sh : shared) (l : nat) (n : nat) : option (list nat) :=
  match fuel with
  | O => None
  | S f =>
    if Nat.eqb n tl_id then Some []
    else match walk_ids f sh l (fst (getnext sh n l)) with
         | Some r => Some (if Nat.eqb n hd_id then r else n :: r)
         | None => None
         end
  end.
Definition chain_ids (sh : shared) (l : nat) : option (list nat) := walk_ids (S (length (heap sh))) sh l hd_id.

Definition marked (sh : shared) (n l : nat) : bool := snd (getnext sh n l).

(** the abstract set: keys of the unmarked nodes of the level-0 chain *)
Definition abs_keys (sh : shared) : list Z :=
  match chain_ids sh 0 with
  | Some c => map (fun n => key (node sh n)) (filter (fun n => negb (marked sh n 0)) c)
  | None => []
  end.

(** successful operations of a finished thread: program and results are aligned *)
Definition is_ins (k : Z) (o : op) : bool := match o with OInsert k' _ => k' =? k | _ => false end.
Definition is_del (k : Z) (o : op) : bool :=
  match o with ODelete k' => k' =? k | ODeleteNode k' => k' =? k | _ => false end.
Definition count_ok (f : op -> bool) (prog : list op) (res : list result) : Z :=
  Z.of_nat (length (filter (fun pr => f (fst pr) && match snd pr with RBool true => true | _ => false end)
                           (combine prog res))).
Fixpoint sum_ok (f : op -> bool) (progs : list (list op)) (ress : list (list result)) : Z :=
  match progs, ress with
  | p :: ps, r :: rs => count_ok f p r + sum_ok f ps rs
  | _, _ => 0
  end.

Definition quiescentS (y : sysT) : bool := quiescent shared local pers op result y.

(** C13/C14 structure, every reachable state: the level-0 chain from the head reaches the tail, and its
    keys (marked nodes included) are strictly increasing — hence acyclic and duplicate-free *)
Definition stmt_l0_sorted : Prop :=
  forall progs sched, let y := runS (init progs) sched in
    exists c, chain_ids (sh y) 0 = Some c /\
              StronglySorted Z.lt (map (fun n => key (node (sh y) n)) c).

(** every pointer of every node at every level leads to a strictly larger key (or the tail), always —
    so no search or iterator that follows pointers can go backwards *)
Definition stmt_edges_increasing : Prop :=
  forall progs sched, let y := runS (init progs) sched in
    forall n l, (2 <= n < length (heap (sh y)))%nat -> (l < length (nxt (node (sh y) n)))%nat ->
      let p := fst (getnext (sh y) n l) in
      p = tl_id \/ ((2 <= p < length (heap (sh y)))%nat /\ key (node (sh y) n) < key (node (sh y) p)).

(** C13 accounting at quiescence: for every key, successful inserts minus successful deletes is 1 if the
    key is in the set and 0 otherwise — i.e. of the operations that changed the key's state exactly the
    right number succeeded, and a node is deleted successfully by exactly one caller *)
Definition stmt_accounting : Prop :=
  forall progs sched, let y := runS (init progs) sched in
    quiescentS y = true ->
    forall k,
      sum_ok (is_ins k) progs (map (fun t => done t) (ths y))
      - sum_ok (is_del k) progs (map (fun t => done t) (ths y))
      = if existsb (Z.eqb k) (abs_keys (sh y)) then 1 else 0.

(** C14 at quiescence: no marked node is linked at level 0, and the statistics equal the walk *)
Definition stmt_quiescent_clean : Prop :=
  forall progs sched, let y := runS (init progs) sched in
    quiescentS y = true ->
    exists c, chain_ids (sh y) 0 = Some c /\
      (forall n, In n c -> marked (sh y) n 0 = false) /\
      st_soft (sts (sh y)) = 0 /\
      (forall l, nth l (st_nodes (sts (sh y))) 0 =
                 Z.of_nat (length (filter (fun n => Nat.eqb (lvl (node (sh y) n)) l) c))).

(** C14 upper levels at quiescence: the unmarked nodes of each level chain are exactly the level-0
    nodes of at least that height, in the same order *)
Definition stmt_levels : Prop :=
  forall progs sched, let y := runS (init progs) sched in
    quiescentS y = true ->
    forall l, (l <= sl_level (sh y))%nat ->
      exists c0 cl, chain_ids (sh y) 0 = Some c0 /\ chain_ids (sh y) l = Some cl /\
        filter (fun n => negb (marked (sh y) n l)) cl = filter (fun n => (l <=? lvl (node (sh y) n))%nat) c0.

(** C15: consecutive positions of an iterator never go backwards: whenever a thread's Next completes
    with a valid position, the key is >= the key it stood on before, and a different node if equal.
    Stated on one step: if thread i is inside Next (LItNext/LItHelp/re-search, or the Refresh search at
    the end of every k-th Next, when the position already is the new one) having started from node c0, the position it finally reports has key >= key c0. *)
Definition stmt_iter_monotone : Prop :=
  forall progs sched i, let y := runS (init progs) sched in
    let y' := stepS y i in
    forall t t', nth_error (ths y) i = Some t -> nth_error (ths y') i = Some t' ->
      (match todo t with ONext :: _ => cur t = None | _ => False end \/
       match cur t with Some (LItNext _) | Some (LItHelp _ _) | Some (LFP0 _ (KIterNext _) _)
                      | Some (LFP1 _ (KIterNext _) _ _ _) | Some (LFP2 _ (KIterNext _) _ _ _ _)
                      | Some (LFPH _ (KIterNext _) _ _ _ _ _)
                    | Some (LFP0 _ KRefresh _) | Some (LFP1 _ KRefresh _ _ _) | Some (LFP2 _ KRefresh _ _ _ _)
                    | Some (LFPH _ KRefresh _ _ _ _ _) => True | _ => False end) ->
      cur t' = None ->
      it_valid (p_it (pers_of t)) = true -> it_curr (p_it (pers_of t)) <> tl_id ->
      it_curr (p_it (pers_of t')) = tl_id \/
      key (node (sh y) (it_curr (p_it (pers_of t)))) <= key (node (sh y') (it_curr (p_it (pers_of t')))).

(** With the repaired Insert4 (re-check after every upper-level link): at quiescence no marked node is
    linked at ANY level — a deleted node is off every level when the structure goes idle, so it can be
    freed.  (False for the original Insert4: a node could be linked at an upper level after its
    deleter's unlink pass.) *)
Definition stmt_levels_clean : Prop :=
  forall progs sched, let y := runS (init progs) sched in
    quiescentS y = true ->
    forall l, (l <= sl_level (sh y))%nat ->
      exists cl, chain_ids (sh y) l = Some cl /\ forall n, In n cl -> marked (sh y) n l = false.
