(** C15: proofs of the statements of Skip/IterStmts.v (soundness and completeness of a concurrent scan). *)
From Coq Require Import List Arith ZArith Lia Bool Sorting.Sorted.
From NV Require Import Base.Sched Skip.Model Skip.Stmts Skip.IterStmts Skip.Proofs.
Import ListNotations.
Open Scope Z_scope.

(** * Runs and prefixes *)

Lemma runS_app (y : sysT) l1 l2 : runS y (l1 ++ l2) = runS (runS y l1) l2.
Proof. unfold runS, run. apply fold_left_app. Qed.

Lemma runS_cons (y : sysT) i s : runS y (i :: s) = runS (stepS y i) s.
Proof. reflexivity. Qed.

Lemma firstn_add {A} a j (l : list A) : firstn (a + j) l = firstn a l ++ firstn j (skipn a l).
Proof.
  revert l. induction a as [|a IH]; intros [|x l]; cbn [Nat.add firstn skipn app]; rewrite ?firstn_nil; auto.
  f_equal. apply IH.
Qed.

Lemma at_add progs sched a j : at_ progs sched (a + j) = runS (at_ progs sched a) (firstn j (skipn a sched)).
Proof. unfold at_. now rewrite firstn_add, runS_app. Qed.

(** the schedule segment between the steps a and b *)
Definition seg (sched : list nat) (a b : nat) : list nat := firstn (b - a) (skipn a sched).

Lemma seg_length sched a b : (a <= b)%nat -> (b <= length sched)%nat -> length (seg sched a b) = (b - a)%nat.
Proof. intros Hab Hb. unfold seg. rewrite firstn_length, skipn_length. lia. Qed.

Lemma at_seg progs sched a b j : (a <= b)%nat -> (j <= b - a)%nat ->
  runS (at_ progs sched a) (firstn j (seg sched a b)) = at_ progs sched (a + j).
Proof.
  intros Hab Hj. unfold seg. rewrite firstn_firstn, at_add. now replace (Nat.min j (b - a)) with j by lia.
Qed.

Lemma at_seg_end progs sched a b : (a <= b)%nat ->
  runS (at_ progs sched a) (seg sched a b) = at_ progs sched b.
Proof. intros Hab. unfold seg. rewrite <- at_add. f_equal. lia. Qed.

Lemma reach_at progs sched j : Inv progs (at_ progs sched j) /\ Inv2 (at_ progs sched j).
Proof. apply Inv12_reach. Qed.

(** * One scheduling step, seen from a thread *)

Lemma stepS_other (y : sysT) i0 j : j <> i0 -> nth_error (ths (stepS y i0)) j = nth_error (ths y) j.
Proof.
  intros Hj. unfold stepS, step_at. destruct (nth_error (ths y) i0) as [t|] eqn:Ht; [|reflexivity].
  destruct (cur t) as [l|].
  - cbn [blocked]. destruct (step i0 l (pers_of t) (sh y)) as [[s' p'] r]. cbn [ths].
    apply nth_upd_other. congruence.
  - destruct (todo t) as [|o rest]; [reflexivity|]. cbn [blocked_begin].
    destruct (begin i0 o (pers_of t) (sh y)) as [[s' p'] r]. cbn [ths]. apply nth_upd_other. congruence.
Qed.

Lemma stepS_self (y : sysT) i t : nth_error (ths y) i = Some t ->
  (stepS y i = y /\ cur t = None /\ todo t = []) \/
  (exists l s' p' r, cur t = Some l /\ step i l (pers_of t) (sh y) = (s', p', r) /\
     stepS y i = mkSys s' (upd_th i (finish_seg local pers op result t (todo t) p' r) (ths y))) \/
  (exists o rest s' p' r, cur t = None /\ todo t = o :: rest /\ begin i o (pers_of t) (sh y) = (s', p', r) /\
     stepS y i = mkSys s' (upd_th i (finish_seg local pers op result t rest p' r) (ths y))).
Proof.
  intros Ht. unfold stepS, step_at. rewrite Ht.
  destruct (cur t) as [l|] eqn:Hc.
  - right; left. cbn [blocked]. destruct (step i l (pers_of t) (sh y)) as [[s' p'] r] eqn:Es.
    exists l, s', p', r. auto.
  - destruct (todo t) as [|o rest] eqn:Htd; [left; auto|]. right; right. cbn [blocked_begin].
    destruct (begin i o (pers_of t) (sh y)) as [[s' p'] r] eqn:Eb. exists o, rest, s', p', r. auto.
Qed.

Lemma nth_upd_self (l : list (thread local pers op result)) i t t' :
  nth_error l i = Some t -> nth_error (upd_th i t' l) i = Some t'.
Proof. intros Ht. apply nth_upd_same. now apply (nth_lt _ _ _ Ht). Qed.

(** a step changes the heap in the ways described by [ext] and [lext] *)
Lemma step_exts progs (y : sysT) i0 : Inv progs y -> Inv2 y ->
  exists ex mk lk ow mkl, ext (sh y) (sh (stepS y i0)) ex mk /\ lext (sh y) (sh (stepS y i0)) lk ow mkl.
Proof.
  intros HI HJ.
  assert (Hsame : exists ex mk lk ow mkl, ext (sh y) (sh y) ex mk /\ lext (sh y) (sh y) lk ow mkl).
  { exists None, None, None, None, None. split; [now apply same_ext|].
    apply (leff_same (sh y) (sh y) eq_refl eq_refl (j_l _ HJ)). }
  unfold stepS, step_at.
  destruct (nth_error (ths y) i0) as [t|] eqn:Ht; [|exact Hsame].
  destruct (i_th _ _ HI i0 t Ht) as (Hp & _ & Hl).
  destruct (cur t) as [l|] eqn:Hc.
  - cbn [blocked]. destruct (step i0 l (pers_of t) (sh y)) as [[s' p'] r] eqn:Es.
    destruct (step_ok i0 l (pers_of t) (sh y) s' p' r (i_h _ _ HI) Hp Hl Es)
      as [S1 (ex & mk & X & _) _ _ _ _ _ _ _].
    destruct (step2 i0 l (pers_of t) (sh y) s' p' r (i_h _ _ HI) (j_l _ HJ) Hp Hl (j_th _ HJ i0 t l Ht Hc) Es)
      as [L' (lk & ow & mkl & XL & _) _ _ _ _ _].
    cbn [sh]. exists ex, mk, lk, ow, mkl. auto.
  - destruct (todo t) as [|o rest]; [exact Hsame|]. cbn [blocked_begin].
    destruct (begin i0 o (pers_of t) (sh y)) as [[s' p'] r] eqn:Eb.
    destruct (begin_ok i0 o (pers_of t) (sh y) s' p' r (i_h _ _ HI) Hp Eb) as (-> & _ & _).
    cbn [sh]. exact Hsame.
Qed.

(** the operations a thread still has to begin only shrink, from the front *)
Lemma todo_step (y : sysT) i0 i t : nth_error (ths y) i = Some t ->
  exists t', nth_error (ths (stepS y i0)) i = Some t' /\ (todo t = todo t' \/ exists o, todo t = o :: todo t').
Proof.
  intros Ht. destruct (Nat.eq_dec i i0) as [<-|Hne].
  - destruct (stepS_self y i t Ht) as [(E & _)|[(l & s' & p' & r & Hc & Es & E)|(o & rest & s' & p' & r & Hc & Htd & Eb & E)]];
      rewrite E.
    + exists t. auto.
    + cbn [ths]. eexists. split; [now apply (nth_upd_self _ i t)|]. left. destruct r; reflexivity.
    + cbn [ths]. eexists. split; [now apply (nth_upd_self _ i t)|]. right. exists o. rewrite Htd. destruct r; reflexivity.
  - exists t. rewrite stepS_other by exact Hne. auto.
Qed.

Lemma todo_run s : forall (y : sysT) i t, nth_error (ths y) i = Some t ->
  exists t' pre, nth_error (ths (runS y s)) i = Some t' /\ todo t = pre ++ todo t'.
Proof.
  induction s as [|i0 s IH]; intros y i t Ht.
  - exists t, []. auto.
  - rewrite runS_cons. destruct (todo_step y i0 i t Ht) as (t1 & Ht1 & Htd).
    destruct (IH (stepS y i0) i t1 Ht1) as (t' & pre & Ht' & E). exists t'.
    destruct Htd as [Htd|(o & Htd)]; rewrite Htd, E; [exists pre|exists (o :: pre)]; auto.
Qed.

(** an idle thread that begins nothing does not change *)
Lemma idle_stays s : forall (y : sysT) i t te, nth_error (ths y) i = Some t -> cur t = None ->
  nth_error (ths (runS y s)) i = Some te -> todo te = todo t -> te = t.
Proof.
  induction s as [|i0 s IH]; intros y i t te Ht Hc Hte Htd.
  - cbn in Hte. congruence.
  - rewrite runS_cons in Hte. destruct (Nat.eq_dec i i0) as [<-|Hne].
    + destruct (stepS_self y i t Ht) as [(E & _)|[(l & s' & p' & r & Hc' & _)|(o & rest & s' & p' & r & _ & Htd' & Eb & E)]].
      * rewrite E in Hte. eapply IH; eauto.
      * congruence.
      * exfalso. rewrite E in Hte.
        assert (Ht1 : nth_error (ths (mkSys s' (upd_th i (finish_seg local pers op result t rest p' r) (ths y)))) i
                      = Some (finish_seg local pers op result t rest p' r)) by (cbn [ths]; now apply (nth_upd_self _ i t)).
        destruct (todo_run s _ i _ Ht1) as (t' & pre & Ht' & E'). rewrite Hte in Ht'. inversion Ht'; subst t'.
        assert (Er : todo (finish_seg local pers op result t rest p' r) = rest) by (destruct r; reflexivity).
        rewrite Er, Htd, Htd' in E'. apply (f_equal (@length op)) in E'. rewrite app_length in E'. cbn [length] in E'. lia.
    + rewrite <- (stepS_other y i0 i Hne) in Ht. eapply IH; eauto.
Qed.

(** * Level-0 chain facts *)

Lemma on_l0_onchain sh n : HInv sh -> (on_l0 sh n <-> onchain sh n).
Proof.
  intros H. destruct (h_chain _ H) as [c Hc]. pose proof (chain_some sh c H Hc) as E. split.
  - intros (c' & E' & Hin). rewrite E in E'. inversion E'; subst c'. exists c. auto.
  - intros Ho. apply (onchain_in sh c n Hc) in Ho. exists c. auto.
Qed.

(** the level-0 successor of a chain node is the tail or a chain node *)
Lemma succ_onchain sh m : HInv sh -> (m = hd_id \/ onchain sh m) ->
  fst (getnext sh m 0) = tl_id \/ onchain sh (fst (getnext sh m 0)).
Proof.
  intros H Hm. destruct (h_chain _ H) as [c Hc].
  assert (G : forall c a, path sh 0 a c -> forall m, (a = m \/ In m c) ->
              fst (getnext sh m 0) = tl_id \/ In (fst (getnext sh m 0)) c).
  { clear. induction c as [|x r IH]; intros a Hp m Hm; cbn [path] in Hp.
    - destruct Hm as [<-|[]]. now left.
    - destruct Hp as (E & Hx & Hp). destruct Hm as [<-|[<-|Hm]].
      + right. rewrite E. now left.
      + destruct (IH x Hp x (or_introl eq_refl)) as [G|G]; [now left|right; now right].
      + destruct (IH x Hp m (or_intror Hm)) as [G|G]; [now left|right; now right]. }
  assert (Hm' : hd_id = m \/ In m c).
  { destruct Hm as [->|Hm]; [now left|right; now apply (onchain_in sh c m Hc)]. }
  destruct (G c hd_id Hc m Hm') as [E|E]; [now left|right]. exists c. auto.
Qed.

Lemma pub_unmarked_onchain sh m : pub sh m -> marked sh m 0 = false -> onchain sh m.
Proof. intros [_ [G|G]] M; [exact G|congruence]. Qed.

(** * Iterator operations *)

Definition srch (c : fk) : Prop := match c with KSeek | KIterNext _ | KRefresh => True | _ => False end.
(** the states of SeekFirst / Seek / Next (with the re-search and the Refresh search) *)
Definition isit (l : local) : Prop :=
  match l with
  | LItFirst | LItNext _ | LItHelp _ _ => True
  | LFP0 _ c _ | LFP1 _ c _ _ _ | LFP2 _ c _ _ _ _ | LFPH _ c _ _ _ _ _ => srch c
  | _ => False
  end.

Lemma isit_step tid l p sh sh' p' l' : isit l -> step tid l p sh = (sh', p', inl l') -> isit l'.
Proof.
  intros Hi E.
  destruct l as [k want|k want lv|k c b|k c b i prev|k c b i prev curr|k c b i prev curr next
                |k x xl b|k x xl b i|k x xl b i|k x xl b i|k x xl b i|k n i m|k n i m next| |it|it next];
    cbn [isit] in Hi; try contradiction; cbn [step] in E.
  - inversion E; subst. exact Hi.
  - inversion E; subst. exact Hi.
  - destruct (getnext sh curr i) as [next deleted]. destruct deleted; [inversion E; subst; exact Hi|].
    destruct (node_lt sh curr k); [inversion E; subst; exact Hi|].
    destruct i as [|j]; [|inversion E; subst; exact Hi].
    destruct c; cbn [srch] in Hi; try contradiction; cbn [fp_done] in E.
    + discriminate.
    + destruct (node_eq sh curr k && Nat.eqb last (succ_at (set_buf b 0 prev curr) 0)); [inversion E; subst; exact I|].
      destruct (next_done_spec _ _ _ _ _ _ E) as (_ & _ & [(Er & _)|Er]); inversion Er; subst. exact I.
    + discriminate.
  - destruct (dcas sh prev i curr next false) as [sh1 ok]. destruct ok; inversion E; subst; exact Hi.
  - discriminate.
  - destruct (getnext sh (it_curr it) 0) as [next deleted]. destruct deleted; [inversion E; subst; exact I|].
    destruct (next_done_spec _ _ _ _ _ _ E) as (_ & _ & [(Er & _)|Er]); inversion Er; subst. exact I.
  - destruct (dcas sh (it_prev it) 0 (it_curr it) next false) as [sh1 ok]. destruct ok; [|inversion E; subst; exact I].
    destruct (next_done_spec _ _ _ _ _ _ E) as (_ & _ & [(Er & _)|Er]); inversion Er; subst. exact I.
Qed.

(** * Soundness *)

(** the position an iterator operation completes with was on the level-0 chain in the state its last step read *)
Lemma sound_step tid l p sh sh' p' res :
  HInv sh -> linv sh p l -> isit l -> step tid l p sh = (sh', p', inr res) ->
  it_curr (p_it p') = tl_id \/ onchain sh (it_curr (p_it p')).
Proof.
  intros H Hl Hi E.
  destruct l as [k want|k want lv|k c b|k c b i prev|k c b i prev curr|k c b i prev curr next
                |k x xl b|k x xl b i|k x xl b i|k x xl b i|k x xl b i|k n i m|k n i m next| |it|it next];
    cbn [isit] in Hi; try contradiction; cbn [step linv] in *.
  - discriminate.
  - discriminate.
  - (* LFP2 *)
    destruct Hl as (A & B & C & D & F & G & I0 & T).
    destruct (getnext sh curr i) as [next deleted] eqn:W. destruct deleted; [discriminate|].
    destruct (node_lt sh curr k) eqn:Lt; [discriminate|].
    destruct i as [|j]; [|discriminate].
    assert (Hcurr : curr = tl_id \/ onchain sh curr).
    { destruct (Nat.eq_dec curr tl_id) as [Q|Q]; [now left|right].
      destruct (gok_pub_or_hd _ _ F Q) as [Q2|Q2]; [contradiction|].
      apply pub_unmarked_onchain; [exact Q2|]. unfold marked. now rewrite W. }
    destruct (buf_set0 sh k b prev curr A) as [Ep Es0].
    destruct c; cbn [srch] in Hi; try contradiction; cbn [fp_done] in E; rewrite ?Ep, ?Es0 in E.
    + injection E as _ <- _. cbn [set_it p_it it_curr]. exact Hcurr.
    + destruct (node_eq sh curr k && Nat.eqb last curr); [discriminate|].
      destruct (next_done_spec _ _ _ _ _ _ E) as (_ & -> & _). cbn [p_it it_curr]. exact Hcurr.
    + injection E as _ <- _. cbn [set_it p_it it_curr]. exact Hcurr.
  - (* LFPH *) destruct (dcas sh prev i curr next false) as [sh1 ok]. destruct ok; discriminate.
  - (* LItFirst *)
    injection E as _ <- _. cbn [set_it p_it it_curr]. apply succ_onchain; auto.
  - (* LItNext *)
    destruct Hl as ((A1 & A2 & A3 & A4 & A5) & B & C).
    destruct (getnext sh (it_curr it) 0) as [next deleted] eqn:W. destruct deleted; [discriminate|].
    destruct (next_done_spec _ _ _ _ _ _ E) as (_ & -> & _). cbn [p_it it_curr].
    assert (Hc : onchain sh (it_curr it)).
    { destruct (gok_pub_or_hd _ _ A2 C) as [Q2|Q2]; [contradiction|].
      apply pub_unmarked_onchain; [exact Q2|]. unfold marked. now rewrite W. }
    pose proof (succ_onchain sh (it_curr it) H (or_intror Hc)) as G. now rewrite W in G.
  - (* LItHelp *)
    destruct Hl as ((A1 & A2 & A3 & A4 & A5) & B & W).
    destruct (dcas sh (it_prev it) 0 (it_curr it) next false) as [sh1 ok] eqn:Ed.
    destruct (dcas_spec _ _ _ _ _ _ _ _ Ed) as [(-> & Wp & ->)|(-> & ->)]; [|discriminate].
    destruct (next_done_spec _ _ _ _ _ _ E) as (_ & -> & _). cbn [p_it it_curr].
    assert (Hpc : it_prev it = hd_id \/ onchain sh (it_prev it)).
    { destruct (gok_pub_or_hd _ _ A1 A3) as [Q|Q]; [now left|right].
      apply pub_unmarked_onchain; [exact Q|]. unfold marked. now rewrite Wp. }
    pose proof (succ_onchain sh (it_prev it) H Hpc) as G. rewrite Wp in G. cbn [fst] in G.
    destruct G as [G|G]; [exfalso; rewrite G, (h_tl _ H) in W; discriminate|].
    pose proof (succ_onchain sh (it_curr it) H (or_intror G)) as G2. now rewrite W in G2.
Qed.

Definition begins_it (o : op) : Prop := o = OSeekFirst \/ (exists x, o = OSeek x) \/ o = ONext.

(** phase of thread i relative to the one operation [o] it executes between a and b *)
Definition ph (t : thread local pers op result) (ops : list op) : Prop :=
  match cur t with
  | None => exists o, ops = [o] /\ begins_it o /\
                      (o = ONext -> it_valid (p_it (pers_of t)) = true /\ it_curr (p_it (pers_of t)) <> tl_id)
  | Some l => ops = [] /\ isit l
  end.

Lemma sound_trace progs i : forall s (y : sysT) t ops te,
  Inv progs y -> nth_error (ths y) i = Some t -> nth_error (ths (runS y s)) i = Some te ->
  todo t = ops ++ todo te -> cur te = None -> ph t ops ->
  it_curr (p_it (pers_of te)) <> tl_id ->
  exists j, (j <= length s)%nat /\ onchain (sh (runS y (firstn j s))) (it_curr (p_it (pers_of te))).
Proof.
  induction s as [|i0 s IH]; intros y t ops te HI Ht Hte Htd Hce Hph Hnt.
  - exfalso. cbn in Hte. assert (te = t) by congruence. subst te. unfold ph in Hph. rewrite Hce in Hph.
    destruct Hph as (o & -> & _). apply (f_equal (@length op)) in Htd. cbn in Htd. lia.
  - rewrite runS_cons in Hte.
    assert (HI1 : Inv progs (stepS y i0)) by now apply Inv_step.
    assert (Hshift : forall t1 ops1, nth_error (ths (stepS y i0)) i = Some t1 -> todo t1 = ops1 ++ todo te -> ph t1 ops1 ->
              exists j, (j <= length (i0 :: s))%nat /\
                        onchain (sh (runS y (firstn j (i0 :: s)))) (it_curr (p_it (pers_of te)))).
    { intros t1 ops1 Ht1 Htd1 Hph1.
      destruct (IH (stepS y i0) t1 ops1 te HI1 Ht1 Hte Htd1 Hce Hph1 Hnt) as (j & Hj & Hon).
      exists (S j). split; [cbn [length]; lia|]. cbn [firstn]. now rewrite runS_cons. }
    destruct (Nat.eq_dec i i0) as [<-|Hne].
    2:{ apply (Hshift t ops); auto. now rewrite stepS_other. }
    destruct (stepS_self y i t Ht) as [(E & _)|[(l & s' & p' & r & Hc & Es & E)|(o & rest & s' & p' & r & Hc & Htd' & Eb & E)]].
    + apply (Hshift t ops); auto. now rewrite E.
    + (* a step inside the operation *)
      unfold ph in Hph. rewrite Hc in Hph. destruct Hph as (-> & Hit).
      set (t1 := finish_seg local pers op result t (todo t) p' r) in *.
      assert (Ht1 : nth_error (ths (stepS y i)) i = Some t1) by (rewrite E; cbn [ths]; now apply (nth_upd_self _ i t)).
      assert (Htd1 : todo t1 = todo t) by (unfold t1; destruct r; reflexivity).
      destruct r as [l'|res].
      * apply (Hshift t1 []); [exact Ht1|now rewrite Htd1|]. unfold ph, t1. cbn [finish_seg cur].
        split; [reflexivity|]. eapply isit_step; eauto.
      * (* the operation completes: the thread does not move any more *)
        destruct (i_th _ _ HI i t Ht) as (Hp & _ & Hl). rewrite Hc in Hl.
        assert (Ete : te = t1).
        { apply (idle_stays s (stepS y i) i t1 te Ht1); [reflexivity|exact Hte|]. rewrite Htd1. exact (eq_sym Htd). }
        subst te. unfold t1 in Hnt |- *. cbn [finish_seg pers_of] in Hnt |- *.
        destruct (sound_step i l (pers_of t) (sh y) s' p' res (i_h _ _ HI) Hl Hit Es) as [G|G]; [contradiction|].
        exists 0%nat. split; [lia|]. cbn [firstn]. exact G.
    + (* the operation begins *)
      unfold ph in Hph. rewrite Hc in Hph. destruct Hph as (o' & -> & Hb & Hnx).
      rewrite Htd' in Htd. cbn [app] in Htd. inversion Htd; subst o' rest.
      set (t1 := finish_seg local pers op result t (todo te) p' r) in *.
      assert (Ht1 : nth_error (ths (stepS y i)) i = Some t1) by (rewrite E; cbn [ths]; now apply (nth_upd_self _ i t)).
      assert (Hr : exists l', r = inl l' /\ isit l').
      { destruct Hb as [->|[(x & ->)| ->]]; cbn [begin] in Eb.
        - inversion Eb; subst. eexists. split; [reflexivity|exact I].
        - inversion Eb; subst. eexists. split; [reflexivity|exact I].
        - destruct (Hnx eq_refl) as [Hv Hn]. rewrite Hv in Eb. apply Nat.eqb_neq in Hn. rewrite Hn in Eb.
          cbn [andb negb] in Eb. inversion Eb; subst. eexists. split; [reflexivity|exact I]. }
      destruct Hr as (l' & -> & Hit).
      apply (Hshift t1 []); [exact Ht1|reflexivity|]. unfold ph, t1. cbn [finish_seg cur]. auto.
Qed.

Theorem iter_sound : stmt_iter_sound.
Proof.
  intros progs sched a b i o itb Hab Hb ya yb Hia Hib Hcons Ho Hpos Hv Hnt Hnext.
  subst ya yb. unfold idle, consumed, it_pos, thread_at in *.
  destruct Hcons as (ta & tb & Hta & Htb & Htd).
  destruct Hia as (ta' & Hta' & Hca). assert (ta' = ta) by congruence. subst ta'.
  destruct Hib as (tb' & Htb' & Hcb). assert (tb' = tb) by congruence. subst tb'.
  rewrite Htb in Hpos. cbn [option_map] in Hpos. inversion Hpos; subst itb.
  assert (Hab' : (a <= b)%nat) by lia.
  rewrite <- (at_seg_end progs sched a b Hab') in Htb.
  destruct (sound_trace progs i (seg sched a b) (at_ progs sched a) ta [o] tb
              (proj1 (reach_at progs sched a)) Hta Htb Htd Hcb) as (j & Hj & Hon); [|exact Hnt|].
  - unfold ph. rewrite Hca. exists o. split; [reflexivity|]. split; [exact Ho|].
    intros Eo. destruct (Hnext Eo) as (ita & Hita & Hva & Hna).
    rewrite Hta in Hita. cbn [option_map] in Hita. inversion Hita; subst ita. auto.
  - rewrite (seg_length sched a b Hab' Hb) in Hj. rewrite (at_seg progs sched a b j Hab' Hj) in Hon.
    exists (a + j)%nat. split; [lia|].
    apply on_l0_onchain; [apply (proj1 (reach_at progs sched (a + j)))|exact Hon].
Qed.
Print Assumptions iter_sound.

(** * Completeness *)

(** [c] is a published node with a key below [n]'s *)
Definition bef sh (n c : nat) : Prop := pub sh c /\ key (node sh c) < key (node sh n).
Definition upto sh (n c : nat) : Prop := c = n \/ bef sh n c.
(** the level-0 pointer of [m] does not lead past [n] *)
Definition good sh (n m : nat) : Prop := upto sh n (fst (getnext sh m 0)).
Definition pgood sh (n prev : nat) : Prop := prev = hd_id \/ (bef sh n prev /\ good sh n prev).
(** the search key does not exceed [n]'s key (a Next re-search looks for a key below it) *)
Definition sk sh (n : nat) (k : Z) (c : fk) : Prop :=
  match c with
  | KSeek | KRefresh => k <= key (node sh n)
  | KIterNext _ => k < key (node sh n)
  | _ => False
  end.

Lemma sk_le sh n k c : sk sh n k c -> k <= key (node sh n).
Proof. destruct c; cbn [sk]; intros; try contradiction; lia. Qed.

(** everything thread i holds while inside an iterator operation is at or before [n] *)
Definition J sh (n : nat) (l : local) : Prop :=
  match l with
  | LItFirst => True
  | LItNext it => bef sh n (it_curr it)
  | LItHelp it next => bef sh n (it_curr it)
  | LFP0 k c b => sk sh n k c
  | LFP1 k c b i prev => sk sh n k c /\ pgood sh n prev
  | LFP2 k c b i prev curr => sk sh n k c /\ pgood sh n prev /\ (i = 0%nat -> upto sh n curr)
  | LFPH k c b i prev curr next => sk sh n k c /\ pgood sh n prev /\ (i = 0%nat -> upto sh n curr)
  | _ => False
  end.

(** on a sorted chain that contains [n], the successor of a chain node below [n] is at or before [n] *)
Lemma good_here sh n m : HInv sh -> onchain sh n ->
  (m = hd_id \/ (onchain sh m /\ key (node sh m) < key (node sh n))) -> good sh n m.
Proof.
  intros H Hn Hm. destruct (h_chain _ H) as [c Hc].
  pose proof (proj1 (onchain_in sh c n Hc) Hn) as Hnc.
  assert (Hm1 : hd_id = m \/ In m c).
  { destruct Hm as [->|[Hm _]]; [now left|right; now apply (onchain_in sh c m Hc)]. }
  assert (Hm2 : m = hd_id \/ key (node sh m) < key (node sh n)) by (destruct Hm as [->|[_ Hm]]; auto).
  unfold good, upto, bef.
  destruct (chain_succ sh n H c hd_id Hc m Hm1 Hnc Hm2) as [G|(G1 & G2 & G3)]; [now left|right].
  split; [|exact G3]. destruct (h_pp _ H m 0%nat) as [Q|Q]; [contradiction|exact Q].
Qed.

Section Ext.
Variables (sh sh' : shared) (ex mk : option nat) (lk : option (nat * nat)) (ow : option nat) (mkl : option (nat * nat)).
Variable n : nat.
Hypothesis H : HInv sh.
Hypothesis H' : HInv sh'.
Hypothesis X : ext sh sh' ex mk.
Hypothesis XL : lext sh sh' lk ow mkl.
Hypothesis Hn : pub sh n.
Hypothesis Hn' : onchain sh' n.

Lemma keyn_ext : key (node sh' n) = key (node sh n).
Proof. now apply (pub_key_ext sh sh' ex mk). Qed.

Lemma bef_ext c : bef sh n c -> bef sh' n c.
Proof.
  intros [A B]. split; [now apply (e_pub _ _ _ _ X)|].
  rewrite keyn_ext, (pub_key_ext sh sh' ex mk c X A). exact B.
Qed.

Lemma upto_ext c : upto sh n c -> upto sh' n c.
Proof. intros [E|E]; [now left|right; now apply bef_ext]. Qed.

Lemma good_ext m : bef sh n m -> good sh n m -> good sh' n m.
Proof.
  intros Hb Hg. pose proof (bef_ext m Hb) as [Hp' Hk'].
  destruct (marked sh' m 0) eqn:M'.
  - assert (Ef : fst (getnext sh' m 0) = fst (getnext sh m 0)).
    { destruct (marked sh m 0) eqn:M.
      - now rewrite (e_mark _ _ _ _ X m 0%nat M).
      - destruct (x_mk _ _ _ _ _ XL m 0%nat M') as [Q|Q]; [congruence|]. now apply (x_mkw _ _ _ _ _ XL). }
    unfold good. rewrite Ef. now apply upto_ext.
  - apply good_here; [exact H'|exact Hn'|]. right. split; [|exact Hk']. now apply pub_unmarked_onchain.
Qed.

Lemma pgood_ext m : pgood sh n m -> pgood sh' n m.
Proof. intros [E|[A B]]; [now left|right]. split; [now apply bef_ext|now apply good_ext]. Qed.

Lemma sk_ext k c : sk sh n k c -> sk sh' n k c.
Proof. destruct c; cbn [sk]; rewrite ?keyn_ext; auto. Qed.

Lemma J_ext l : J sh n l -> J sh' n l.
Proof.
  destruct l; cbn [J]; auto.
  - apply sk_ext.
  - intros (A & B). split; [now apply sk_ext|now apply pgood_ext].
  - intros (A & B & C). split; [now apply sk_ext|]. split; [now apply pgood_ext|]. intros E. apply upto_ext; auto.
  - intros (A & B & C). split; [now apply sk_ext|]. split; [now apply pgood_ext|]. intros E. apply upto_ext; auto.
  - apply bef_ext.
  - apply bef_ext.
Qed.
End Ext.

Lemma upto_le sh n c : upto sh n c -> key (node sh c) <= key (node sh n).
Proof. intros [->|[_ E]]; lia. Qed.

(** the end of Next with a position at or before [n] *)
Lemma J_next_done sh n p it sh' p' r :
  upto sh n (it_curr it) -> it_valid it = true -> next_done sh p it = (sh', p', r) ->
  match r with
  | inl l' => J sh n l'
  | inr _ => it_valid (p_it p') = true /\ upto sh n (it_curr (p_it p'))
  end.
Proof.
  intros Hu Hv E. destruct (next_done_spec _ _ _ _ _ _ E) as (_ & -> & [(-> & _)| -> ]).
  - cbn [J sk]. now apply upto_le.
  - cbn [p_it]. auto.
Qed.

(** thread i's own step, judged in the state the step read *)
Lemma J_step tid l p sh n sh' p' r :
  HInv sh -> linv sh p l -> onchain sh n -> J sh n l -> step tid l p sh = (sh', p', r) ->
  match r with
  | inl l' => J sh n l'
  | inr _ => it_valid (p_it p') = true /\ upto sh n (it_curr (p_it p'))
  end.
Proof.
  intros H Hl Hn HJ E.
  destruct l as [k want|k want lv|k c b|k c b i prev|k c b i prev curr|k c b i prev curr next
                |k x xl b|k x xl b i|k x xl b i|k x xl b i|k x xl b i|k m i mm|k m i mm next| |it|it next];
    cbn [J] in HJ; try contradiction; cbn [step linv] in *.
  - (* LFP0 *) inv_step E. cbn [J]. split; [exact HJ|now left].
  - (* LFP1 *) destruct HJ as (S1 & S2). inv_step E. cbn [J]. split; [exact S1|]. split; [exact S2|].
    intros ->. destruct S2 as [->|[_ S2]]; [|exact S2]. apply good_here; auto.
  - (* LFP2 *)
    destruct Hl as (A & B & C & D & F & G & I0 & T). destruct HJ as (S1 & S2 & S3).
    destruct (getnext sh curr i) as [next deleted] eqn:W. destruct deleted.
    + inv_step E. cbn [J]. auto.
    + destruct (node_lt sh curr k) eqn:Lt.
      * inv_step E. destruct (node_lt_cases _ _ _ Lt) as [Ct Ck].
        assert (Pc : pub sh curr) by (destruct (gok_pub_or_hd _ _ F Ct); [contradiction|assumption]).
        assert (Kc : key (node sh curr) < key (node sh n)).
        { destruct Ck as [Ck|Ck]; [contradiction|]. pose proof (sk_le _ _ _ _ S1). lia. }
        assert (M0 : marked sh curr 0 = false).
        { destruct (marked sh curr 0) eqn:Q; [|reflexivity]. exfalso.
          destruct T as [T|T]; [contradiction|].
          pose proof (h_top _ H curr Q i T) as Q2. unfold marked in Q2. rewrite W in Q2. discriminate. }
        assert (Gc : good sh n curr).
        { apply good_here; auto. right. split; [now apply pub_unmarked_onchain|exact Kc]. }
        cbn [J]. split; [exact S1|]. split; [right; split; [split; assumption|exact Gc]|].
        intros ->. unfold good in Gc. now rewrite W in Gc.
      * destruct i as [|j].
        -- specialize (S3 eq_refl). destruct (buf_set0 sh k b prev curr A) as [Ep Es0].
           destruct c; cbn [sk] in S1; try contradiction; cbn [fp_done] in E; rewrite ?Ep, ?Es0 in E.
           ++ inv_step E. cbn [set_it p_it it_valid it_curr]. auto.
           ++ destruct (node_eq sh curr k && Nat.eqb last curr) eqn:Ec.
              ** inv_step E. apply andb_true_iff in Ec. destruct Ec as [Ec _].
                 destruct (node_eq_true _ _ _ Ec) as (Q1 & Q2 & Q3). cbn [J it_curr]. split; [|lia].
                 destruct (gok_pub_or_hd _ _ F Q2); [contradiction|assumption].
              ** apply (J_next_done sh n p (mkIt prev curr true) sh' p' r); [exact S3|reflexivity|exact E].
           ++ inv_step E. cbn [set_it p_it it_valid it_curr]. auto.
        -- inv_step E. cbn [J]. auto.
  - (* LFPH *)
    destruct HJ as (S1 & S2 & S3).
    destruct (dcas sh prev i curr next false) as [sh1 ok]. destruct ok.
    + assert (Er : r = inl (LFP1 k c b i prev)) by (destruct i; inv_step E; reflexivity). subst r. cbn [J]. auto.
    + inv_step E. cbn [J]. exact S1.
  - (* LItFirst *)
    inv_step E. cbn [set_it p_it it_valid it_curr]. split; [reflexivity|]. apply good_here; auto.
  - (* LItNext *)
    destruct Hl as ((A1 & A2 & A3 & A4 & A5) & B & C). destruct HJ as [Pc Kc].
    destruct (getnext sh (it_curr it) 0) as [next deleted] eqn:W. destruct deleted.
    + inv_step E. cbn [J it_curr]. split; assumption.
    + apply (J_next_done sh n p (mkIt (it_curr it) next true) sh' p' r); [|reflexivity|exact E]. cbn [it_curr].
      assert (Gc : good sh n (it_curr it)).
      { apply good_here; auto. right. split; [|exact Kc]. apply pub_unmarked_onchain; [exact Pc|].
        unfold marked. now rewrite W. }
      unfold good in Gc. now rewrite W in Gc.
  - (* LItHelp *)
    destruct Hl as ((A1 & A2 & A3 & A4 & A5) & B & W). destruct HJ as [Pc Kc].
    destruct (dcas sh (it_prev it) 0 (it_curr it) next false) as [sh1 ok] eqn:Ed.
    destruct (dcas_spec _ _ _ _ _ _ _ _ Ed) as [(-> & Wp & ->)|(-> & ->)].
    + assert (Hpc : it_prev it = hd_id \/ onchain sh (it_prev it)).
      { destruct (gok_pub_or_hd _ _ A1 A3) as [Q|Q]; [now left|right].
        apply pub_unmarked_onchain; [exact Q|]. unfold marked. now rewrite Wp. }
      pose proof (succ_onchain sh (it_prev it) H Hpc) as G. rewrite Wp in G. cbn [fst] in G.
      destruct G as [G|G]; [destruct (pub_ne _ _ Pc); contradiction|].
      assert (Gc : good sh n (it_curr it)) by (apply good_here; auto).
      unfold good in Gc. rewrite W in Gc. cbn [fst] in Gc.
      destruct (next_done_spec _ _ _ _ _ _ E) as (_ & -> & [(-> & _)| -> ]).
      * cbn [J sk it_curr]. rewrite node_with_sts, key_set_next. now apply upto_le.
      * cbn [p_it it_valid it_curr]. auto.
    + inv_step E. cbn [J sk]. exact Kc.
Qed.

(** ** the trace invariant *)

Definition okop (kn : Z) (o : op) : Prop := o = ONext \/ o = OSeekFirst \/ exists x, o = OSeek x /\ x <= kn.
Definition posOK sh (n : nat) (p : pers) : Prop := it_valid (p_it p) = true /\ bef sh n (it_curr (p_it p)).

Definition Qs sh (n : nat) (t : thread local pers op result) (ops : list op) : Prop :=
  match cur t with
  | Some l => J sh n l
  | None => posOK sh n (pers_of t) \/ exists o r, ops = o :: r /\ o <> ONext
  end.

Definition hit (y : sysT) (i n : nat) : Prop :=
  exists t, nth_error (ths y) i = Some t /\ cur t = None /\ it_curr (p_it (pers_of t)) = n.

Lemma onchain_pub sh n : HInv sh -> onchain sh n -> pub sh n.
Proof. intros H (c & Hc & Hi). apply (path_in_pub sh H c _ Hc _ Hi). Qed.

Lemma qs_step progs (y : sysT) i0 i n kn t ops rest :
  Inv progs y -> Inv2 y -> onchain (sh y) n -> onchain (sh (stepS y i0)) n ->
  key (node (sh y) n) = kn ->
  nth_error (ths y) i = Some t -> todo t = ops ++ rest -> Forall (okop kn) ops -> Qs (sh y) n t ops ->
  (forall t', nth_error (ths (stepS y i0)) i = Some t' -> (length rest <= length (todo t'))%nat) ->
  exists t' ops', nth_error (ths (stepS y i0)) i = Some t' /\ todo t' = ops' ++ rest /\ Forall (okop kn) ops' /\
    (Qs (sh (stepS y i0)) n t' ops' \/ (cur t' = None /\ it_curr (p_it (pers_of t')) = n)).
Proof.
  intros HI HJ Hn Hn' Hkn Ht Htd Hok HQ Hlen.
  pose proof (i_h _ _ HI) as H.
  pose proof (i_h _ _ (Inv_step progs y i0 HI)) as H'.
  pose proof (onchain_pub _ _ H Hn) as Pn.
  destruct (step_exts progs y i0 HI HJ) as (ex & mk & lk & ow & mkl & X & XL).
  destruct (Nat.eq_dec i i0) as [<-|Hne].
  2:{ exists t, ops. rewrite stepS_other by exact Hne. split; [exact Ht|]. split; [exact Htd|]. split; [exact Hok|]. left.
      unfold Qs in *. destruct (cur t) as [l|].
      - eapply J_ext; eauto.
      - destruct HQ as [[Hv Hb]|HQ]; [left|now right]. split; [exact Hv|]. eapply bef_ext; eauto. }
  destruct (stepS_self y i t Ht) as [(E & _)|[(l & s' & p' & r & Hc & Es & E)|(o & rest0 & s' & p' & r & Hc & Htd' & Eb & E)]].
  - exists t, ops. rewrite E. auto.
  - (* a step of the operation in progress *)
    rewrite E in *. cbn [sh ths] in *.
    unfold Qs in HQ. rewrite Hc in HQ.
    destruct (i_th _ _ HI i t Ht) as (Hp & _ & Hl). rewrite Hc in Hl.
    pose proof (J_step i l (pers_of t) (sh y) n s' p' r H Hl Hn HQ Es) as G.
    exists (finish_seg local pers op result t (todo t) p' r), ops.
    split; [now apply (nth_upd_self _ i t)|]. split; [destruct r; exact Htd|]. split; [exact Hok|].
    destruct r as [l'|res]; cbn [finish_seg].
    + left. unfold Qs. cbn [cur]. eapply J_ext; eauto.
    + destruct G as [Gv Gu]. apply (upto_ext (sh y) s' ex mk n X Pn) in Gu.
      destruct Gu as [Gu|Gu]; [right; cbn [cur pers_of]; auto|left].
      unfold Qs. cbn [cur pers_of]. left. split; assumption.
  - (* an operation begins *)
    rewrite E in *. cbn [sh ths] in *.
    destruct (i_th _ _ HI i t Ht) as (Hp & _ & _).
    destruct (begin_ok i o (pers_of t) (sh y) s' p' r H Hp Eb) as (-> & _ & _).
    destruct ops as [|o1 ops1].
    { exfalso.
      assert (Ht1 : nth_error (upd_th i (finish_seg local pers op result t rest0 p' r) (ths y)) i
                    = Some (finish_seg local pers op result t rest0 p' r)) by now apply (nth_upd_self _ i t).
      specialize (Hlen _ Ht1).
      assert (Etd1 : todo (finish_seg local pers op result t rest0 p' r) = rest0) by (destruct r; reflexivity).
      rewrite Etd1 in Hlen. cbn [app] in Htd. rewrite Htd' in Htd.
      rewrite <- Htd in Hlen. cbn [length] in Hlen. lia. }
    rewrite Htd' in Htd. cbn [app] in Htd. inversion Htd; subst o1 rest0.
    inversion Hok as [|? ? Ho Hok1]; subst.
    unfold Qs in HQ. rewrite Hc in HQ.
    assert (Hr : exists l', r = inl l' /\ J (sh y) n l').
    { destruct Ho as [->|[->|(x & -> & Hx)]]; cbn [begin] in Eb.
      - destruct HQ as [[Hv [Pc Kc]]|(o' & r' & Eo & Ho')]; [|inversion Eo; subst; contradiction].
        rewrite Hv in Eb. destruct (pub_ne _ _ Pc) as [_ Q]. apply Nat.eqb_neq in Q. rewrite Q in Eb.
        cbn [andb negb] in Eb. inversion Eb; subst. eexists. split; [reflexivity|]. cbn [J]. split; assumption.
      - inversion Eb; subst. eexists. split; [reflexivity|exact I].
      - inversion Eb; subst. eexists. split; [reflexivity|]. cbn [J sk]. exact Hx. }
    destruct Hr as (l' & -> & Hl').
    exists (finish_seg local pers op result t (ops1 ++ rest) p' (inl l')), ops1.
    split; [now apply (nth_upd_self _ i t)|]. split; [reflexivity|]. split; [exact Hok1|]. left.
    unfold Qs. cbn [finish_seg cur]. exact Hl'.
Qed.

Lemma noskip_trace progs i n kn : forall s (y : sysT) t ops te,
  Inv progs y -> Inv2 y ->
  (forall j, (j <= length s)%nat -> onchain (sh (runS y (firstn j s))) n) ->
  key (node (sh y) n) = kn ->
  nth_error (ths y) i = Some t -> nth_error (ths (runS y s)) i = Some te -> todo t = ops ++ todo te ->
  Forall (okop kn) ops -> Qs (sh y) n t ops ->
  (exists j, (1 <= j <= length s)%nat /\ hit (runS y (firstn j s)) i n) \/ Qs (sh (runS y s)) n te [].
Proof.
  induction s as [|i0 s IH]; intros y t ops te HI HJ Hpres Hkn Ht Hte Htd Hok HQ.
  - right. cbn in Hte |- *. assert (te = t) by congruence. subst te.
    assert (ops = []).
    { apply (f_equal (@length op)) in Htd. rewrite app_length in Htd. destruct ops; [reflexivity|cbn in Htd; lia]. }
    subst ops. exact HQ.
  - rewrite runS_cons in Hte |- *.
    pose proof (Hpres 0%nat (Nat.le_0_l _)) as Hn0. cbn [firstn] in Hn0. cbn in Hn0.
    assert (Hn1 : onchain (sh (stepS y i0)) n).
    { pose proof (Hpres 1%nat) as Q. cbn [firstn length] in Q. apply Q. lia. }
    destruct (qs_step progs y i0 i n kn t ops (todo te) HI HJ Hn0 Hn1 Hkn Ht Htd Hok HQ)
      as (t1 & ops1 & Ht1 & Htd1 & Hok1 & [HQ1|(Hc1 & Hp1)]).
    { intros t' Ht'. destruct (todo_run s (stepS y i0) i t' Ht') as (te' & pre & Hte' & Ep).
      rewrite Hte in Hte'. inversion Hte'; subst te'. rewrite Ep, app_length. lia. }
    + destruct (step_exts progs y i0 HI HJ) as (ex & mk & lk & ow & mkl & X & XL).
      assert (Hkn1 : key (node (sh (stepS y i0)) n) = kn).
      { rewrite <- Hkn. apply (pub_key_ext _ _ ex mk n X). apply onchain_pub; [apply HI|exact Hn0]. }
      destruct (IH (stepS y i0) t1 ops1 te (Inv_step progs y i0 HI) (Inv2_step progs y i0 HI HJ)) as [(j & Hj & Hh)|G]; auto.
      * intros j Hj. pose proof (Hpres (S j)) as Q. cbn [firstn length] in Q. rewrite runS_cons in Q. apply Q. lia.
      * left. exists (S j). split; [cbn [length]; lia|]. cbn [firstn]. now rewrite runS_cons.
    + left. exists 1%nat. split; [cbn [length]; lia|]. cbn [firstn]. rewrite runS_cons. cbn.
      exists t1. auto.
Qed.

Lemma present_onchain progs sched j n : present (sh (at_ progs sched j)) n -> onchain (sh (at_ progs sched j)) n.
Proof. intros [Ho _]. apply on_l0_onchain; [apply (proj1 (reach_at progs sched j))|exact Ho]. Qed.

Theorem iter_no_skip : stmt_iter_no_skip.
Proof.
  intros progs sched a b i n ops ita itb Hab Hb ya yb Hia Hib Hcons Hops Hpres Hpa Hva Hna Hka Hpb Hend.
  subst ya yb. unfold idle, consumed, it_pos, thread_at in *.
  destruct Hcons as (ta & tb & Hta & Htb & Htd).
  destruct Hia as (ta' & Hta' & Hca). assert (ta' = ta) by congruence. subst ta'.
  destruct Hib as (tb' & Htb' & Hcb). assert (tb' = tb) by congruence. subst tb'.
  rewrite Hta in Hpa. cbn [option_map] in Hpa. inversion Hpa; subst ita.
  rewrite Htb in Hpb. cbn [option_map] in Hpb. inversion Hpb; subst itb.
  destruct (reach_at progs sched a) as [HIa HJa].
  pose proof Htb as Htb0. rewrite <- (at_seg_end progs sched a b Hab) in Htb.
  destruct (noskip_trace progs i n (key (node (sh (at_ progs sched a)) n)) (seg sched a b) (at_ progs sched a) ta ops tb
              HIa HJa) as [(j & Hj & Hh)|G]; auto.
  - intros j Hj. rewrite (seg_length sched a b Hab Hb) in Hj. rewrite (at_seg progs sched a b j Hab Hj).
    apply present_onchain. apply Hpres. lia.
  - eapply Forall_impl; [|exact Hops]. intros o ->. now left.
  - unfold Qs. rewrite Hca. left. split; [exact Hva|]. split; [|exact Hka].
    destruct (i_th _ _ HIa i ta Hta) as ((Hio & _) & _). destruct Hio as (_ & G2 & _ & G4 & _).
    destruct (gok_pub_or_hd _ _ G2 Hna); [contradiction|assumption].
  - rewrite (seg_length sched a b Hab Hb) in Hj. rewrite (at_seg progs sched a b j Hab (proj2 Hj)) in Hh.
    destruct Hh as (tj & Htj & Hcj & Hpj).
    exists (a + j)%nat, (p_it (pers_of tj)). split; [lia|]. split; [exists tj; auto|]. rewrite Htj. auto.
  - exfalso. rewrite (at_seg_end progs sched a b Hab) in G. unfold Qs in G. rewrite Hcb in G.
    destruct G as [[_ [Pc Kc]]|(o & r & Q & _)]; [|discriminate].
    destruct Hend as [Q|Q]; [destruct (pub_ne _ _ Pc); contradiction|lia].
Qed.
Print Assumptions iter_no_skip.

Theorem scan_complete : stmt_scan_complete.
Proof.
  intros progs sched a b i n o ops itb Hab Hb ya yb Hia Hib Hcons Hops Ho Hpres Hpb Hend.
  subst ya yb. unfold idle, consumed, it_pos, thread_at in *.
  destruct Hcons as (ta & tb & Hta & Htb & Htd).
  destruct Hia as (ta' & Hta' & Hca). assert (ta' = ta) by congruence. subst ta'.
  destruct Hib as (tb' & Htb' & Hcb). assert (tb' = tb) by congruence. subst tb'.
  rewrite Htb in Hpb. cbn [option_map] in Hpb. inversion Hpb; subst itb.
  destruct (reach_at progs sched a) as [HIa HJa].
  pose proof Htb as Htb0. rewrite <- (at_seg_end progs sched a b Hab) in Htb.
  destruct (noskip_trace progs i n (key (node (sh (at_ progs sched a)) n)) (seg sched a b) (at_ progs sched a) ta (o :: ops) tb
              HIa HJa) as [(j & Hj & Hh)|G]; auto.
  - intros j Hj. rewrite (seg_length sched a b Hab Hb) in Hj. rewrite (at_seg progs sched a b j Hab Hj).
    apply present_onchain. apply Hpres. lia.
  - constructor.
    + destruct Ho as [->|(x & -> & Hx)]; [right; now left|right; right; eauto].
    + eapply Forall_impl; [|exact Hops]. intros o' ->. now left.
  - unfold Qs. rewrite Hca. right. exists o, ops. split; [reflexivity|].
    destruct Ho as [->|(x & -> & _)]; discriminate.
  - rewrite (seg_length sched a b Hab Hb) in Hj. rewrite (at_seg progs sched a b j Hab (proj2 Hj)) in Hh.
    destruct Hh as (tj & Htj & Hcj & Hpj).
    exists (a + j)%nat, (p_it (pers_of tj)). split; [lia|]. split; [exists tj; auto|]. rewrite Htj. auto.
  - exfalso. rewrite (at_seg_end progs sched a b Hab) in G. unfold Qs in G. rewrite Hcb in G.
    destruct G as [[_ [Pc Kc]]|(o' & r & Q & _)]; [|discriminate].
    destruct Hend as [Q|Q]; [destruct (pub_ne _ _ Pc); contradiction|lia].
Qed.
Print Assumptions scan_complete.

(** * Non-vacuity of [stmt_iter_no_skip]

    Thread 0 inserts 10, 20, 30 (nodes 2, 3, 4).  Thread 1 scans: SeekFirst stands on 10 at step a = 23;
    its first Next moves to 20; its second Next has begun (it is about to read node 3) when thread 2
    deletes 20 completely (mark and unlink); the Next then finds node 3 marked, fails to help (node 3 is
    already unlinked), searches again and lands on 30 (node 4 = n); the last Next reaches the tail.
    Node 4 is present in all 32 states from a to b, the scan starts before it and ends behind it. *)
Definition nv_progs : list (list op) :=
  [[OInsert 10 0; OInsert 20 0; OInsert 30 0]; [OSeekFirst; ONext; ONext; ONext]; [ODelete 20]].
Definition nv_sched : list nat :=
  repeat 0%nat 21 ++ repeat 1%nat 2 ++ repeat 1%nat 3 ++ repeat 2%nat 17 ++ repeat 1%nat 11.

Definition presentb (s : shared) (n : nat) : bool :=
  match chain_ids s 0 with Some c => existsb (Nat.eqb n) c | None => false end && negb (marked s n 0).

Lemma presentb_ok s n : presentb s n = true -> present s n.
Proof.
  unfold presentb, present, on_l0. intros E. apply andb_true_iff in E. destruct E as [E1 E2].
  destruct (chain_ids s 0) as [c|]; [|discriminate]. split.
  - exists c. split; [reflexivity|]. apply existsb_exists in E1. destruct E1 as (x & Hx & Ex).
    apply Nat.eqb_eq in Ex. now subst.
  - now apply negb_true_iff in E2.
Qed.

Example iter_no_skip_nonvacuous :
  let progs := nv_progs in let sched := nv_sched in
  let a := 23%nat in let b := 54%nat in let i := 1%nat in let n := 4%nat in
  let ya := at_ progs sched a in let yb := at_ progs sched b in
  exists ops ita itb,
    (* all the hypotheses of [stmt_iter_no_skip] *)
    (a <= b)%nat /\ (b <= length sched)%nat /\
    idle ya i /\ idle yb i /\ consumed ya yb i ops /\ Forall (fun o => o = ONext) ops /\
    (forall j, (a <= j <= b)%nat -> present (sh (at_ progs sched j)) n) /\
    it_pos ya i = Some ita /\ it_valid ita = true /\ it_curr ita <> tl_id /\
    key (node (sh ya) (it_curr ita)) < key (node (sh ya) n) /\
    it_pos yb i = Some itb /\
    (it_curr itb = tl_id \/ key (node (sh yb) n) < key (node (sh yb) (it_curr itb))) /\
    (* meanwhile thread 2 deletes another node (key 20) successfully *)
    consumed ya yb 2 [ODelete 20] /\
    (exists t2, thread_at yb 2 = Some t2 /\ done t2 = [RBool true]) /\
    abs_keys (sh ya) = [10; 20; 30] /\ abs_keys (sh yb) = [10; 30] /\
    (* and the scan returned 10, 20, 30 *)
    (exists t1, thread_at yb i = Some t1 /\ done t1 = [RIter true 10; RIter true 20; RIter true 30; RIter false 0]).
Proof.
  cbv zeta.
  exists [ONext; ONext; ONext], (mkIt 0 2 true), (mkIt 4 1 true).
  split; [lia|]. split; [vm_compute; lia|].
  split; [eexists; split; [vm_compute; reflexivity|reflexivity]|].
  split; [eexists; split; [vm_compute; reflexivity|reflexivity]|].
  split; [eexists; eexists; split; [vm_compute; reflexivity|]; split; [vm_compute; reflexivity|reflexivity]|].
  split; [repeat constructor|].
  split.
  { intros j Hj. apply presentb_ok.
    assert (Hall : forallb (fun j => presentb (sh (at_ nv_progs nv_sched j)) 4) (seq 23 32) = true) by (vm_compute; reflexivity).
    rewrite forallb_forall in Hall. apply Hall. apply in_seq. lia. }
  split; [vm_compute; reflexivity|]. split; [reflexivity|]. split; [vm_compute; discriminate|].
  split; [vm_compute; reflexivity|]. split; [vm_compute; reflexivity|]. split; [left; reflexivity|].
  split; [eexists; eexists; split; [vm_compute; reflexivity|]; split; [vm_compute; reflexivity|reflexivity]|].
  split; [eexists; split; [vm_compute; reflexivity|reflexivity]|].
  split; [vm_compute; reflexivity|]. split; [vm_compute; reflexivity|].
  eexists; split; [vm_compute; reflexivity|reflexivity].
Qed.
Print Assumptions iter_no_skip_nonvacuous.

(** the conclusion of the theorem on this run: the scan stood on node 4 with an operation completed *)
Example iter_no_skip_instance :
  exists j itj, (23 <= j <= 54)%nat /\ idle (at_ nv_progs nv_sched j) 1 /\
                it_pos (at_ nv_progs nv_sched j) 1 = Some itj /\ it_curr itj = 4%nat.
Proof.
  destruct iter_no_skip_nonvacuous as (ops & ita & itb & H1 & H2 & H3 & H4 & H5 & H6 & H7 & H8 & H9 & H10 & H11 & H12 & H13 & _).
  exact (iter_no_skip nv_progs nv_sched 23%nat 54%nat 1%nat 4%nat ops ita itb H1 H2 H3 H4 H5 H6 H7 H8 H9 H10 H11 H12 H13).
Qed.

(** * Summary *)
Check (iter_sound : stmt_iter_sound).
Check (iter_no_skip : stmt_iter_no_skip).
Check (scan_complete : stmt_scan_complete).
Print Assumptions iter_sound.
Print Assumptions iter_no_skip.
Print Assumptions scan_complete.
