(** The shared height s.level (NewLevel: load, then CAS to level+1) — statements for ALL programs and
    ALL schedules of the skiplist step machine.  Searches and unlink passes start at s.level, so a tower
    above it would never be found, unlinked or repaired (C14, C18: the builder's Add goes through the
    same NewLevel). *)
From Coq Require Import List Arith ZArith Lia Bool.
From NV Require Import Base.Sched Skip.Model Skip.Stmts.
Import ListNotations.

(** in every reachable state the height covers every tower and stays within the maximum *)
Definition stmt_height_covers : Prop :=
  forall progs sched, let y := runS (init progs) sched in
    (sl_level (sh y) <= maxLevel)%nat /\
    forall n, (2 <= n < length (heap (sh y)))%nat -> (lvl (node (sh y) n) <= sl_level (sh y))%nat.

(** the height never goes down, whichever thread moves *)
Definition stmt_height_monotone : Prop :=
  forall progs sched i, let y := runS (init progs) sched in
    (sl_level (sh y) <= sl_level (sh (stepS y i)) <= S (sl_level (sh y)))%nat.

(** in every reachable state the height is exactly the tallest tower ever allocated (0 for an empty
    history): NewLevel raises it one level at a time and only for a node that gets that level *)
Definition stmt_height_exact : Prop :=
  forall progs sched, let y := runS (init progs) sched in
    sl_level (sh y) = fold_right Nat.max 0%nat (map lvl (skipn 2 (heap (sh y)))).

(** marks are set top-down (softDelete) and never removed: in every reachable state the marked levels
    of a node form an upper segment of its tower — a node that is dead at level 0 is dead on every
    index level, so a search that steps over a node unmarked on an index level may descend inside it *)
Definition stmt_marks_upper_segment : Prop :=
  forall progs sched, let y := runS (init progs) sched in
    forall n i j, marked (sh y) n i = true -> (i <= j < length (nxt (node (sh y) n)))%nat ->
      marked (sh y) n j = true.
