(** Faithful multi-level step machine of skiplist/skiplist.go + iterator.go.
    One step = one atomic access of the Go code (a getNext load, a dcasNext, the s.level load / CAS)
    together with the thread-local computation up to the next atomic access; the verif yield points
    sit immediately before each atomic access.  Keys are integers (CompareInt); head is node 0
    (MinItem), tail is node 1 (MaxItem).  Successor pointer and deleted mark of a level are one value
    (node_amd64.go: they are loaded and CASed as one word). *)
From Coq Require Import List Arith ZArith Lia Bool.
From NV Require Import Base.Sched.
Import ListNotations.
Open Scope Z_scope.

Definition maxLevel : nat := 32.

Record nd := mkNd { key : Z; lvl : nat; nxt : list (nat * bool) }.

Record stats := mkStats {
  st_nodes : list Z;        (* levelNodesCount *)
  st_soft : Z;              (* softDeletes *)
  st_allocs : Z;            (* nodeAllocs *)
  st_readc : Z; st_insc : Z (* read / insert conflicts *)
}.

Record shared := mkSh { heap : list nd; sl_level : nat; sts : stats }.

Definition hd_id : nat := 0.
Definition tl_id : nat := 1.

Definition node (sh : shared) (n : nat) : nd := nth n (heap sh) (mkNd 0 0 []).
Definition getnext (sh : shared) (n : nat) (l : nat) : nat * bool := nth l (nxt (node sh n)) (tl_id, false).

Fixpoint set_nth {A} (i : nat) (v : A) (l : list A) : list A :=
  match l, i with
  | [], _ => []
  | _ :: r, O => v :: r
  | x :: r, S j => x :: set_nth j v r
  end.

Definition set_next (sh : shared) (n l : nat) (v : nat * bool) : shared :=
  let x := node sh n in
  mkSh (set_nth n (mkNd (key x) (lvl x) (set_nth l v (nxt x))) (heap sh)) (sl_level sh) (sts sh).

(** dcasNext(level, prevPtr, newPtr, false, newMark): succeeds iff the word is (prevPtr, unmarked) *)
Definition dcas (sh : shared) (n l : nat) (expect : nat) (newp : nat) (newm : bool) : shared * bool :=
  let '(p, m) := getnext sh n l in
  if Nat.eqb p expect && negb m then (set_next sh n l (newp, newm), true) else (sh, false).

(** compare(cmp, node.Item(), itm) < 0 with the sentinel rules of item.go *)
Definition node_lt (sh : shared) (n : nat) (k : Z) : bool :=
  if Nat.eqb n hd_id then true else if Nat.eqb n tl_id then false else key (node sh n) <? k.
Definition node_eq (sh : shared) (n : nat) (k : Z) : bool :=
  if Nat.eqb n hd_id then false else if Nat.eqb n tl_id then false else key (node sh n) =? k.

Definition upd_list (l : list Z) (i : nat) (d : Z) : list Z := set_nth i (nth i l 0 + d) l.

Definition st_add_nodes (s : stats) (l : nat) (d : Z) : stats :=
  mkStats (upd_list (st_nodes s) l d) (st_soft s) (st_allocs s) (st_readc s) (st_insc s).
Definition st_add_soft (s : stats) (d : Z) : stats :=
  mkStats (st_nodes s) (st_soft s + d) (st_allocs s) (st_readc s) (st_insc s).
Definition st_add_alloc (s : stats) : stats :=
  mkStats (st_nodes s) (st_soft s) (st_allocs s + 1) (st_readc s) (st_insc s).
Definition st_add_readc (s : stats) : stats :=
  mkStats (st_nodes s) (st_soft s) (st_allocs s) (st_readc s + 1) (st_insc s).
Definition st_add_insc (s : stats) : stats :=
  mkStats (st_nodes s) (st_soft s) (st_allocs s) (st_readc s) (st_insc s + 1).
Definition with_sts (sh : shared) (s : stats) : shared := mkSh (heap sh) (sl_level sh) s.

(** who called findPath, and what to do with the result *)
Inductive fk :=
| KLookup
| KInsert (x : nat) (xl : nat)              (* Insert4: node x of level xl *)
| KInsertFix (x : nat) (xl : nat) (i : nat) (* re-search after a failed upper-level link at level i *)
| KInsertDone (x : nat) (xl : nat)          (* clean-up search: x was deleted while being linked; then finish *)
| KDelete                                   (* Delete: locate the node *)
| KUnlink                                   (* deleteNode: trailing findPath after a successful mark *)
| KSeek                                     (* Iterator.Seek *)
| KIterNext (last : nat)                    (* Iterator.Next: re-search after a failed helpDelete *)
| KRefresh.                                 (* Iterator.Refresh at the end of every k-th Next: Seek to the current item *)

(** path buffer: preds/succs per level (index = level) *)
Record buf := mkBuf { preds : list nat; succs : list nat }.
Definition buf0 : buf := mkBuf (repeat hd_id (S maxLevel)) (repeat tl_id (S maxLevel)).
Definition pred_at (b : buf) (i : nat) := nth i (preds b) hd_id.
Definition succ_at (b : buf) (i : nat) := nth i (succs b) tl_id.

(** iterator state kept across operations (per thread) *)
Record itst := mkIt { it_prev : nat; it_curr : nat; it_valid : bool }.

Inductive local :=
(* NewLevel *)
| LLevelLoad (k : Z) (want : nat)                       (* before load of s.level *)
| LLevelCas (k : Z) (want : nat) (lv : nat)             (* before CAS of s.level *)
(* findPath *)
| LFP0 (k : Z) (c : fk) (b : buf)                            (* before load of s.level *)
| LFP1 (k : Z) (c : fk) (b : buf) (i : nat) (prev : nat)     (* before curr := prev.getNext(i) *)
| LFP2 (k : Z) (c : fk) (b : buf) (i : nat) (prev curr : nat)  (* before (next,deleted) := curr.getNext(i) *)
| LFPH (k : Z) (c : fk) (b : buf) (i : nat) (prev curr next : nat) (* before helpDelete CAS *)
(* Insert4 *)
| LInsPub (k : Z) (x xl : nat) (b : buf)                     (* before the level-0 publish CAS *)
| LInsSucc (k : Z) (x xl : nat) (b : buf) (i : nat)          (* before succs[i].getNext(i): a marked successor
                                                                 is unlinked by a new search first *)
| LInsOwn (k : Z) (x xl : nat) (b : buf) (i : nat)           (* before x.getNext(i) and, if needed, the
                                                                 CAS of the node's own pointer (one segment:
                                                                 no yield point fits inside the Go condition) *)
| LInsLink (k : Z) (x xl : nat) (b : buf) (i : nat)          (* before preds[i].dcasNext(i, succs[i] -> x) *)
| LInsCheck (k : Z) (x xl : nat) (b : buf) (i : nat)         (* linked at level i: before the re-check x.getNext(i) *)
(* softDelete *)
| LSdLoad (k : Z) (n : nat) (i : nat) (marked : bool)        (* before n.getNext(i) *)
| LSdCas (k : Z) (n : nat) (i : nat) (marked : bool) (next : nat) (* before the mark CAS *)
(* iterator *)
| LItFirst                                                   (* before head.getNext(0) *)
| LItNext (it : itst)                                        (* before curr.getNext(0) *)
| LItHelp (it : itst) (next : nat).                          (* before helpDelete CAS *)

Inductive op :=
| OInsert (k : Z) (want : nat)       (* Insert2 with a random level request [want] *)
| ODelete (k : Z)
| ODeleteNode (k : Z)                (* DeleteNode on the node most recently inserted with key k by this thread *)
| OLookup (k : Z)
| OSeekFirst | OSeek (k : Z) | ONext
| OSetRefresh (k : nat).              (* Iterator.SetRefreshInterval(k), k >= 1 *)

Inductive result :=
| RBool (b : bool)
| RIter (valid : bool) (k : Z).      (* iterator position after the op: Valid and the key it stands on *)

(** per-thread persistent state: the iterator, and the nodes this thread inserted (key -> node) *)
(** ... and the iterator's step counter and refresh interval (0 = never: the default ^uint(0)) *)
Record pers := mkPers { p_it : itst; p_nodes : list (Z * nat); p_cnt : nat; p_ivl : nat }.
Definition pers0 : pers := mkPers (mkIt hd_id tl_id false) [] 0 0.
Definition set_it (p : pers) (it : itst) : pers := mkPers it (p_nodes p) (p_cnt p) (p_ivl p).

Definition find_node (p : pers) (k : Z) : option nat :=
  option_map snd (find (fun e => fst e =? k) (p_nodes p)).

Definition it_result (sh : shared) (it : itst) : result :=
  (* Iterator.Valid(): valid && curr != tail *)
  if it_valid it && negb (Nat.eqb (it_curr it) tl_id) then RIter true (key (node sh (it_curr it))) else RIter false 0.

Definition R := (shared * pers * (local + result))%type.

(** after findPath completed with buffer b and found flag *)
Definition softdelete_start (sh : shared) (p : pers) (k : Z) (n : nat) : R :=
  (sh, p, inl (LSdLoad k n (lvl (node sh n)) false)).

Definition insert_finish (sh : shared) (p : pers) (k : Z) (x xl : nat) : R :=
  let s := st_add_nodes (st_add_alloc (sts sh)) xl 1 in
  (with_sts sh s, mkPers (p_it p) ((k, x) :: p_nodes p) (p_cnt p) (p_ivl p), inr (RBool true)).

(** end of Iterator.Next with the new position [it]: count the step; every p_ivl-th step of a valid
    iterator refreshes (new session, Seek to the item it stands on) *)
Definition next_done (sh : shared) (p : pers) (it : itst) : R :=
  let c := S (p_cnt p) in
  let p' := mkPers it (p_nodes p) c (p_ivl p) in
  if negb (Nat.eqb (p_ivl p) 0) && Nat.eqb (c mod p_ivl p) 0 && it_valid it && negb (Nat.eqb (it_curr it) tl_id)
  then (sh, p', inl (LFP0 (key (node sh (it_curr it))) KRefresh buf0))
  else (sh, p', inr (it_result sh it)).

Definition fp_done (sh : shared) (p : pers) (k : Z) (c : fk) (b : buf) (found : bool) : R :=
  match c with
  | KLookup => (sh, p, inr (RBool found))
  | KInsert x xl =>
    if found then (sh, p, inr (RBool false))
    else
      (* set all next links of the private node, then go and publish it *)
      let x_nd := mkNd k xl (map (fun i => (succ_at b i, false)) (seq 0 (S xl))) in
      (mkSh (set_nth x x_nd (heap sh)) (sl_level sh) (sts sh), p, inl (LInsPub k x xl b))
  | KInsertFix x xl i => (sh, p, inl (LInsSucc k x xl b i))
  | KInsertDone x xl => insert_finish sh p k x xl
  | KDelete => if found then softdelete_start sh p k (succ_at b 0) else (sh, p, inr (RBool false))
  | KUnlink => (sh, p, inr (RBool true))
  | KSeek | KRefresh =>
    let it := mkIt (pred_at b 0) (succ_at b 0) true in
    (sh, set_it p it, inr (it_result sh it))
  | KIterNext last =>
    let it := mkIt (pred_at b 0) (succ_at b 0) true in
    if found && Nat.eqb last (succ_at b 0) then (sh, p, inl (LItNext it))   (* goto retry *)
    else next_done sh p it
  end.

Definition begin (tid : nat) (o : op) (p : pers) (sh : shared) : R :=
  match o with
  | OInsert k want => (sh, p, inl (LLevelLoad k (Nat.min want maxLevel)))
  | ODelete k => (sh, p, inl (LFP0 k KDelete buf0))
  | ODeleteNode k =>
    match find_node p k with
    | Some n => softdelete_start sh p k n
    | None => (sh, p, inr (RBool false))
    end
  | OLookup k => (sh, p, inl (LFP0 k KLookup buf0))
  | OSeekFirst => (sh, p, inl LItFirst)
  | OSeek k => (sh, p, inl (LFP0 k KSeek buf0))
  | OSetRefresh k => (sh, mkPers (p_it p) (p_nodes p) (p_cnt p) k, inr (RBool true))
  | ONext =>
    (* callers test Valid() first; Next on an exhausted iterator is not issued *)
    if it_valid (p_it p) && negb (Nat.eqb (it_curr (p_it p)) tl_id) then (sh, p, inl (LItNext (p_it p)))
    else (sh, p, inr (RIter false 0))
  end.

Definition set_buf (b : buf) (i : nat) (pr su : nat) : buf :=
  mkBuf (set_nth i pr (preds b)) (set_nth i su (succs b)).

Definition step (tid : nat) (l : local) (p : pers) (sh : shared) : R :=
  match l with
  | LLevelLoad k want =>
    let lv := sl_level sh in
    if (lv <? want)%nat then (sh, p, inl (LLevelCas k want lv))
    else
      (* allocate the node (Insert3) and start the path search *)
      let x := length (heap sh) in
      (mkSh (heap sh ++ [mkNd k want []]) (sl_level sh) (sts sh), p, inl (LFP0 k (KInsert x want) buf0))
  | LLevelCas k want lv =>
    let '(sh1, xl) := if Nat.eqb (sl_level sh) lv then (mkSh (heap sh) (S lv) (sts sh), S lv) else (sh, lv) in
    let x := length (heap sh1) in
    (mkSh (heap sh1 ++ [mkNd k xl []]) (sl_level sh1) (sts sh1), p, inl (LFP0 k (KInsert x xl) buf0))
  | LFP0 k c b => (sh, p, inl (LFP1 k c b (sl_level sh) hd_id))
  | LFP1 k c b i prev => (sh, p, inl (LFP2 k c b i prev (fst (getnext sh prev i))))
  | LFP2 k c b i prev curr =>
    let '(next, deleted) := getnext sh curr i in
    if deleted then (sh, p, inl (LFPH k c b i prev curr next))
    else if node_lt sh curr k then (sh, p, inl (LFP2 k c b i curr next))
    else
      let b' := set_buf b i prev curr in
      match i with
      | O => fp_done sh p k c b' (node_eq sh curr k)
      | S j => (sh, p, inl (LFP1 k c b' j prev))
      end
  | LFPH k c b i prev curr next =>
    let '(sh1, ok) := dcas sh prev i curr next false in
    if ok then
      let sh2 := match i with
                 | O => with_sts sh1 (st_add_nodes (st_add_soft (sts sh1) (-1)) (lvl (node sh1 curr)) (-1))
                 | _ => sh1
                 end in
      (sh2, p, inl (LFP1 k c b i prev))
    else (with_sts sh1 (st_add_readc (sts sh1)), p, inl (LFP0 k c b))
  | LInsPub k x xl b =>
    let '(sh1, ok) := dcas sh (pred_at b 0) 0 (succ_at b 0) x false in
    if ok then
      match xl with
      | O => insert_finish sh1 p k x xl
      | S _ => (sh1, p, inl (LInsSucc k x xl b 1))
      end
    else (with_sts sh1 (st_add_insc (sts sh1)), p, inl (LFP0 k (KInsert x xl) b))
  | LInsSucc k x xl b i =>
    (* repaired Insert4: never link x in front of a marked successor (an equal item deleted meanwhile) *)
    if snd (getnext sh (succ_at b i) i) then (sh, p, inl (LFP0 k (KInsertFix x xl i) b))
    else (sh, p, inl (LInsOwn k x xl b i))
  | LInsOwn k x xl b i =>
    let '(nn, deleted) := getnext sh x i in
    if deleted then insert_finish sh p k x xl
    else if Nat.eqb nn (succ_at b i) then (sh, p, inl (LInsLink k x xl b i))
    else
      let '(sh1, ok) := dcas sh x i nn (succ_at b i) false in
      if ok then (sh1, p, inl (LInsLink k x xl b i)) else insert_finish sh1 p k x xl
  | LInsLink k x xl b i =>
    let '(sh1, ok) := dcas sh (pred_at b i) i (succ_at b i) x false in
    if ok then (sh1, p, inl (LInsCheck k x xl b i))
    else (sh1, p, inl (LFP0 k (KInsertFix x xl i) b))
  | LInsCheck k x xl b i =>
    (* repaired Insert4: a delete may have marked x and finished its unlink pass before the link *)
    if snd (getnext sh x i) then (sh, p, inl (LFP0 k (KInsertDone x xl) b))
    else if (i <? xl)%nat then (sh, p, inl (LInsSucc k x xl b (S i))) else insert_finish sh p k x xl
  | LSdLoad k n i marked =>
    let '(next, deleted) := getnext sh n i in
    if deleted then
      match i with
      | O => if marked then (sh, p, inl (LFP0 k KUnlink buf0)) else (sh, p, inr (RBool false))
      | S j => (sh, p, inl (LSdLoad k n j marked))
      end
    else (sh, p, inl (LSdCas k n i marked next))
  | LSdCas k n i marked next =>
    let '(sh1, ok) := dcas sh n i next next true in
    if ok && Nat.eqb i 0 then (with_sts sh1 (st_add_soft (sts sh1) 1), p, inl (LSdLoad k n i true))
    else (sh1, p, inl (LSdLoad k n i marked))
  | LItFirst =>
    let it := mkIt hd_id (fst (getnext sh hd_id 0)) true in
    (sh, set_it p it, inr (it_result sh it))
  | LItNext it =>
    let '(next, deleted) := getnext sh (it_curr it) 0 in
    if deleted then (sh, p, inl (LItHelp (mkIt (it_prev it) (it_curr it) true) next))
    else
      let it' := mkIt (it_curr it) next true in
      next_done sh p it'
  | LItHelp it next =>
    let '(sh1, ok) := dcas sh (it_prev it) 0 (it_curr it) next false in
    if ok then
      let sh2 := with_sts sh1 (st_add_nodes (st_add_soft (sts sh1) (-1)) (lvl (node sh1 (it_curr it))) (-1)) in
      let it' := mkIt (it_prev it) next true in
      next_done sh2 p it'
    else
      (with_sts sh1 (st_add_readc (sts sh1)), p,
       inl (LFP0 (key (node sh1 (it_curr it))) (KIterNext (it_curr it)) buf0))
  end.

Definition blocked (l : local) (sh : shared) : bool := false.
Definition blocked_begin (o : op) (sh : shared) : bool := false.

Definition sysT := sys shared local pers op result.
Definition stepS : sysT -> nat -> sysT := step_at shared local pers op result begin step blocked blocked_begin.
Definition runS : sysT -> list nat -> sysT := run shared local pers op result begin step blocked blocked_begin.

Definition init_sh : shared :=
  mkSh [mkNd 0 maxLevel (repeat (tl_id, false) (S maxLevel)); mkNd 0 maxLevel (repeat (tl_id, false) (S maxLevel))]
       0 (mkStats (repeat 0 (S maxLevel)) 0 0 0 0).
Definition init (progs : list (list op)) : sysT :=
  mkSys init_sh (map (fun p => mkThread p None pers0 []) progs).

(** walk of level l from the head: (key, marked) of every node reached, with fuel *)
Fixpoint walk (fuel : nat) (sh : shared) (l : nat) (n : nat) : list (Z * bool) :=
  match fuel with
  | O => []
  | S f =>
    let '(nx, m) := getnext sh n l in
    if Nat.eqb n tl_id then []
    else (if Nat.eqb n hd_id then [] else [(key (node sh n), m)]) ++ walk f sh l nx
  end.
Definition chain (sh : shared) (l : nat) : list (Z * bool) := walk (S (length (heap sh))) sh l hd_id.
