(** Statements for C18 (bulk builder, merge iterator). *)
From Coq Require Import List Arith ZArith Lia Bool Sorting.Sorted Sorting.Permutation.
From NV Require Import Base.Sched Skip.Model Skip.Merger Skip.Builder Skip.Stmts.
Import ListNotations.
Open Scope Z_scope.

Definition total_len (ls : list (list Z)) : nat := length (concat ls).

(** SeekFirst called in ANY state of a merge iterator over ascending lists (before, during or after a
    scan: rem, heap and curr are arbitrary) repositions it so that the scan yields exactly the sorted
    multiset union of all inputs; no step dereferences nil. *)
Definition stmt_merge_seek_first : Prop :=
  forall ls rm h c, Forall (StronglySorted Z.lt) ls ->
    exists m1, m_seek_first true (mkM ls rm h c) = Some m1 /\
               m_drain (S (total_len ls)) m1 [] = Some (merged ls).

(** Seek x called in any state: the scan yields exactly the elements >= x of the sorted union, and the
    returned flag says whether x itself occurs *)
Definition stmt_merge_seek : Prop :=
  forall ls rm h c x, Forall (StronglySorted Z.lt) ls ->
    exists m1, m_seek true (mkM ls rm h c) x = Some (m1, existsb (fun l => existsb (Z.eqb x) l) ls) /\
               m_drain (S (total_len ls)) m1 [] = Some (filter (fun y => x <=? y) (merged ls)).

(** [merged] really is the sorted union *)
Definition stmt_merged_sorted : Prop :=
  forall ls, Forall (StronglySorted Z.lt) ls ->
    StronglySorted Z.le (merged ls) /\ Permutation (merged ls) (concat ls).

(** Assemble: for segments whose items are ascending overall, with arbitrary levels <= maxLevel, every
    level chain of the assembled list is the concatenation of the segments restricted to nodes of at
    least that height, without marks; level 0 is the plain concatenation; statistics agree. *)
Definition items_ok (segs : list (list (Z * nat))) : Prop :=
  StronglySorted Z.lt (map fst (concat segs)) /\ Forall (fun e => (snd e <= maxLevel)%nat) (concat segs).

Definition stmt_assemble_concat : Prop :=
  forall segs, items_ok segs ->
    let sh := assemble segs in
    forall l, (l <= maxLevel)%nat ->
      exists c, chain_ids sh l = Some c /\
        map (fun n => key (node sh n)) c = map fst (filter (fun e => (l <=? snd e)%nat) (concat segs)) /\
        (forall n, In n c -> marked sh n l = false /\ (l <= lvl (node sh n))%nat).

Definition stmt_assemble_stats : Prop :=
  forall segs, items_ok segs ->
    let sh := assemble segs in
    sl_level sh = fold_right Nat.max 0%nat (map snd (concat segs)) /\
    st_soft (sts sh) = 0 /\ st_allocs (sts sh) = Z.of_nat (length (concat segs)) /\
    forall l, (l <= maxLevel)%nat ->
      nth l (st_nodes (sts sh)) 0 = Z.of_nat (length (filter (fun e => Nat.eqb (snd e) l) (concat segs))).
