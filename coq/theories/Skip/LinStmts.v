(** C13: linearizability of the skiplist step machine with explicit linearization points, stated over
    run prefixes (all programs, all schedules).  The abstract state is [abs_keys]: the keys of the
    unmarked nodes of the level-0 chain. *)
From Coq Require Import List Arith ZArith Lia Bool.
From NV Require Import Base.Sched Skip.Model Skip.Stmts Skip.IterStmts.
Import ListNotations.
Open Scope Z_scope.

Definition mem (k : Z) (y : sysT) : bool := existsb (Z.eqb k) (abs_keys (sh y)).

(** thread i executes exactly the operation o between the states at a and b (idle at both ends) and
    its result is r *)
Definition op_span (progs : list (list op)) (sched : list nat) (a b i : nat) (o : op) (r : result) : Prop :=
  (a < b)%nat /\ (b <= length sched)%nat /\
  exists ta tb, thread_at (at_ progs sched a) i = Some ta /\ thread_at (at_ progs sched b) i = Some tb /\
                cur ta = None /\ cur tb = None /\ todo ta = o :: todo tb /\ done tb = done ta ++ [r].

(** the step from j to j+1 is taken by thread i *)
Definition step_by (sched : list nat) (j i : nat) : Prop := nth_error sched j = Some i.

(** 1. The abstract set changes only at linearization points: whenever a step changes membership of
    some key, it changes the membership of exactly that one key, the acting thread is inside an
    Insert of that key (the key was absent and becomes present: the level-0 publish CAS) or inside a
    Delete/DeleteNode of that key (present to absent: the level-0 mark CAS), and that operation will
    return true. *)
Definition acting_op (y : sysT) (i : nat) (k : Z) (ins : bool) : Prop :=
  exists t l, thread_at y i = Some t /\ cur t = Some l /\
    match l with
    | LInsPub k' _ _ _ => ins = true /\ k' = k
    | LSdCas k' _ 0 _ _ => ins = false /\ k' = k
    | _ => False
    end.

Definition stmt_lin_points : Prop :=
  forall progs sched j i, (j < length sched)%nat -> step_by sched j i ->
    let y := at_ progs sched j in let y' := at_ progs sched (S j) in
    (forall k, mem k y' = mem k y) \/
    exists k ins, acting_op y i k ins /\ mem k y = negb ins /\ mem k y' = ins /\
                  (forall k', k' <> k -> mem k' y' = mem k' y).

(** 2. A successful Insert contains exactly one such step of its own thread, adding its key; a
    successful Delete exactly one, removing its key. *)
Definition own_changes (progs : list (list op)) (sched : list nat) (a b i : nat) (k : Z) : list nat :=
  filter (fun j => match nth_error sched j with
                   | Some i' => Nat.eqb i' i && negb (Bool.eqb (mem k (at_ progs sched (S j))) (mem k (at_ progs sched j)))
                   | None => false
                   end) (seq a (b - a)).

Definition stmt_lin_insert_true : Prop :=
  forall progs sched a b i k w, op_span progs sched a b i (OInsert k w) (RBool true) ->
    exists j, own_changes progs sched a b i k = [j] /\
              mem k (at_ progs sched j) = false /\ mem k (at_ progs sched (S j)) = true.

Definition stmt_lin_delete_true : Prop :=
  forall progs sched a b i o k, (o = ODelete k \/ o = ODeleteNode k) ->
    op_span progs sched a b i o (RBool true) ->
    exists j, own_changes progs sched a b i k = [j] /\
              mem k (at_ progs sched j) = true /\ mem k (at_ progs sched (S j)) = false.

(** 3. Operations that do not change the set observe it at some moment of their own interval: a
    failed Insert saw its key present, a failed Delete and a Lookup returning false saw it absent, a
    Lookup returning true saw it present; and they make no change of their own. *)
Definition stmt_lin_insert_false : Prop :=
  forall progs sched a b i k w, op_span progs sched a b i (OInsert k w) (RBool false) ->
    (exists j, (a <= j <= b)%nat /\ mem k (at_ progs sched j) = true) /\
    forall k', own_changes progs sched a b i k' = [].

Definition stmt_lin_delete_false : Prop :=
  forall progs sched a b i k, op_span progs sched a b i (ODelete k) (RBool false) ->
    (exists j, (a <= j <= b)%nat /\ mem k (at_ progs sched j) = false) /\
    forall k', own_changes progs sched a b i k' = [].

Definition stmt_lin_lookup : Prop :=
  forall progs sched a b i k r, op_span progs sched a b i (OLookup k) (RBool r) ->
    (exists j, (a <= j <= b)%nat /\ mem k (at_ progs sched j) = r) /\
    forall k', own_changes progs sched a b i k' = [].
