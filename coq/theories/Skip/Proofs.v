(** Proofs about the skiplist step machine (Skip/Model.v): statements of Skip/Stmts.v. *)
From Coq Require Import List Arith ZArith Lia Bool Sorting.Sorted.
From NV Require Import Base.Sched Skip.Model Skip.Stmts.
Import ListNotations.
Open Scope Z_scope.

Notation thr := (thread local pers op result).
Notation N sh := (length (heap sh)).

(** * Lists *)

Lemma set_nth_length {A} i (v : A) l : length (set_nth i v l) = length l.
Proof. revert i. induction l as [|x r IH]; intros [|i]; cbn; auto. Qed.

Lemma nth_set_nth {A} i j (v d : A) l :
  nth j (set_nth i v l) d = if Nat.eqb j i && (i <? length l)%nat then v else nth j l d.
Proof.
  revert i j. induction l as [|x r IH]; intros i j.
  - destruct i, j; cbn; try reflexivity; rewrite ?andb_false_r; reflexivity.
  - destruct i as [|i], j as [|j]; cbn [set_nth nth length]; try reflexivity.
    rewrite IH. cbn [Nat.eqb]. replace (S i <? S (length r))%nat with (i <? length r)%nat; [reflexivity|].
    destruct (Nat.ltb_spec i (length r)), (Nat.ltb_spec (S i) (S (length r))); try reflexivity; lia.
Qed.

Lemma set_nth_same {A} i (d : A) l : set_nth i (nth i l d) l = l.
Proof.
  revert i. induction l as [|x r IH]; intros [|i]; cbn; auto. now rewrite IH.
Qed.

Lemma nth_repeat_any {A} (a : A) n i : nth i (repeat a n) a = a.
Proof. revert i. induction n; intros [|i]; cbn; auto. Qed.

(** * Heap basics *)

Lemma nd_eta x : mkNd (key x) (lvl x) (nxt x) = x.
Proof. destruct x; reflexivity. Qed.

Lemma node_set_next sh n l v m :
  node (set_next sh n l v) m =
  if Nat.eqb m n && (n <? N sh)%nat
  then mkNd (key (node sh n)) (lvl (node sh n)) (set_nth l v (nxt (node sh n))) else node sh m.
Proof. unfold node, set_next. cbn [heap]. now rewrite nth_set_nth. Qed.

Lemma key_set_next sh n l v m : key (node (set_next sh n l v) m) = key (node sh m).
Proof.
  rewrite node_set_next. destruct (Nat.eqb_spec m n); cbn [andb]; [subst|reflexivity].
  destruct (n <? N sh)%nat; reflexivity.
Qed.

Lemma lvl_set_next sh n l v m : lvl (node (set_next sh n l v) m) = lvl (node sh m).
Proof.
  rewrite node_set_next. destruct (Nat.eqb_spec m n); cbn [andb]; [subst|reflexivity].
  destruct (n <? N sh)%nat; reflexivity.
Qed.

Lemma lnxt_set_next sh n l v m : length (nxt (node (set_next sh n l v) m)) = length (nxt (node sh m)).
Proof.
  rewrite node_set_next. destruct (Nat.eqb_spec m n); cbn [andb]; [subst|reflexivity].
  destruct (n <? N sh)%nat; cbn [nxt]; [apply set_nth_length|reflexivity].
Qed.

Lemma N_set_next sh n l v : N (set_next sh n l v) = N sh.
Proof. unfold set_next. cbn [heap]. apply set_nth_length. Qed.

Lemma getnext_set_next sh n l v m j :
  getnext (set_next sh n l v) m j =
  if Nat.eqb m n && Nat.eqb j l && (n <? N sh)%nat && (l <? length (nxt (node sh n)))%nat
  then v else getnext sh m j.
Proof.
  unfold getnext. rewrite node_set_next.
  destruct (Nat.eqb_spec m n); cbn [andb]; [subst m|reflexivity].
  destruct (n <? N sh)%nat; cbn [andb nxt]; [|now rewrite andb_false_r].
  rewrite nth_set_nth. now rewrite andb_true_r.
Qed.

Lemma getnext_other sh n l v m j : (m <> n \/ j <> l) -> getnext (set_next sh n l v) m j = getnext sh m j.
Proof.
  intros H. rewrite getnext_set_next.
  destruct (Nat.eqb_spec m n), (Nat.eqb_spec j l); cbn [andb]; try reflexivity. exfalso; tauto.
Qed.

Lemma node_oob sh n : (N sh <= n)%nat -> node sh n = mkNd 0 0 [].
Proof. intros H. unfold node. now apply nth_overflow. Qed.

Lemma getnext_oob sh n l : (N sh <= n)%nat -> getnext sh n l = (tl_id, false).
Proof. intros H. unfold getnext. rewrite node_oob by exact H. cbn. now destruct l. Qed.

Lemma getnext_short sh n l : (length (nxt (node sh n)) <= l)%nat -> getnext sh n l = (tl_id, false).
Proof. intros H. unfold getnext. now apply nth_overflow. Qed.

Lemma marked_lt sh n l : marked sh n l = true -> (n < N sh)%nat /\ (l < length (nxt (node sh n)))%nat.
Proof.
  unfold marked. intros H. split.
  - destruct (Nat.lt_ge_cases n (N sh)) as [|G]; [assumption|]. rewrite getnext_oob in H by exact G. discriminate.
  - destruct (Nat.lt_ge_cases l (length (nxt (node sh n)))) as [|G]; [assumption|].
    rewrite getnext_short in H by exact G. discriminate.
Qed.

Lemma dcas_spec sh n l e np nm sh' ok : dcas sh n l e np nm = (sh', ok) ->
  (ok = true /\ getnext sh n l = (e, false) /\ sh' = set_next sh n l (np, nm)) \/ (ok = false /\ sh' = sh).
Proof.
  unfold dcas. destruct (getnext sh n l) as [p m] eqn:G.
  destruct (Nat.eqb_spec p e); cbn [andb].
  - destruct m; cbn [negb]; intros H; inversion H; subst; auto.
  - intros H; inversion H; subst; auto.
Qed.

(** * Level chains as lists *)

Fixpoint path (sh : shared) (l : nat) (a : nat) (c : list nat) : Prop :=
  match c with
  | [] => fst (getnext sh a l) = tl_id
  | m :: r => fst (getnext sh a l) = m /\ m <> tl_id /\ path sh l m r
  end.

Lemma path_det sh l c : forall a c', path sh l a c -> path sh l a c' -> c = c'.
Proof.
  induction c as [|m r IH]; intros a [|m' r'] H H'; cbn in *; try reflexivity.
  - destruct H' as (E & Hn & _). congruence.
  - destruct H as (E & Hn & _). congruence.
  - destruct H as (E & Hn & Hp), H' as (E' & Hn' & Hp'). assert (X : m = m') by congruence. clear E'. subst m'.
    f_equal. eapply IH; eassumption.
Qed.

Lemma walk_path sh l c : forall a fuel, path sh l a c -> (forall m, In m c -> m <> hd_id) -> a <> tl_id ->
  (length c + 2 <= fuel)%nat -> walk_ids fuel sh l a = Some (if Nat.eqb a hd_id then c else a :: c).
Proof.
  induction c as [|m r IH]; intros a fuel Hp Hh Ha Hf.
  - destruct fuel as [|[|f]]; cbn [length] in Hf; try lia. cbn [path] in Hp.
    cbn [walk_ids]. destruct (Nat.eqb_spec a tl_id); [contradiction|]. rewrite Hp. cbn. reflexivity.
  - destruct fuel as [|f]; cbn [length] in Hf; try lia. cbn [path] in Hp. destruct Hp as (E & Hm & Hp).
    cbn [walk_ids]. destruct (Nat.eqb_spec a tl_id); [contradiction|]. rewrite E.
    rewrite (IH m f Hp); [| intros; apply Hh; now right | exact Hm | lia].
    assert (Hmh : m <> hd_id) by (apply Hh; now left).
    destruct (Nat.eqb_spec m hd_id); [contradiction|]. reflexivity.
Qed.

Lemma path_same sh sh' l : (forall m, fst (getnext sh' m l) = fst (getnext sh m l)) ->
  forall c a, path sh l a c -> path sh' l a c.
Proof.
  intros H. induction c as [|m r IH]; intros a Hp; cbn [path] in *.
  - now rewrite H.
  - destruct Hp as (E & Hm & Hp). rewrite H. auto.
Qed.

(** the path does not visit [n]: changing [n]'s word does not change it *)
Lemma path_avoid sh sh' l n : (forall m, m <> n -> fst (getnext sh' m l) = fst (getnext sh m l)) ->
  forall c a, path sh l a c -> a <> n -> ~ In n c -> path sh' l a c.
Proof.
  intros H. induction c as [|m r IH]; intros a Hp Ha Hn; cbn [path] in *.
  - now rewrite H.
  - destruct Hp as (E & Hm & Hp). rewrite H by exact Ha. split; [exact E|]. split; [exact Hm|].
    apply IH; [exact Hp| |]; intros ?; apply Hn; cbn; auto.
Qed.

(** * The heap invariant *)

Definition klt (l : nat) (a b : Z) : Prop := if Nat.eqb l 0 then a < b else a <= b.
Definition nle sh l a b := a = hd_id \/ b = tl_id \/ klt l (key (node sh a)) (key (node sh b)).
Definition onchain sh n := exists c, path sh 0 hd_id c /\ In n c.
(** published: on the level-0 chain, or marked at level 0 (a published node never leaves this set) *)
Definition pub sh n := (2 <= n < N sh)%nat /\ (onchain sh n \/ marked sh n 0 = true).
Definition gok sh p := p = hd_id \/ p = tl_id \/ pub sh p.
Definition pt sh p := p = tl_id \/ pub sh p.
(** the tower of [p] reaches level [l] *)
Definition tow sh (l p : nat) := p = tl_id \/ (l < length (nxt (node sh p)))%nat.

Record HInv sh : Prop := {
  h_len : (2 <= N sh)%nat;
  h_tl : forall l, getnext sh tl_id l = (tl_id, false);
  h_hdm : forall l, marked sh hd_id l = false;
  h_edge : forall n l, nle sh l n (fst (getnext sh n l));
  h_chain : exists c, path sh 0 hd_id c;
  h_pp : forall n l, pt sh (fst (getnext sh n l));
  h_nl : forall n, n = hd_id \/ pub sh n -> length (nxt (node sh n)) = S (lvl (node sh n));
  h_tow : forall n l, tow sh l (fst (getnext sh n l));
  (* marks are set top-down: a node marked at level 0 is marked at every level *)
  h_top : forall n, marked sh n 0 = true -> forall l, (l < length (nxt (node sh n)))%nat -> marked sh n l = true;
  h_lvl : forall n, (lvl (node sh n) <= maxLevel)%nat
}.

Lemma h_ne sh (H : HInv sh) n : n = hd_id \/ pub sh n -> (1 <= length (nxt (node sh n)))%nat.
Proof. intros Hn. rewrite (h_nl _ H n Hn). lia. Qed.

Lemma klt_le l a b : klt l a b -> a <= b.
Proof. unfold klt. destruct (Nat.eqb l 0); lia. Qed.
Lemma klt_trans l a b c : klt l a b -> klt l b c -> klt l a c.
Proof. unfold klt. destruct (Nat.eqb l 0); lia. Qed.
Lemma klt_lt_le l a b c : a < b -> b <= c -> klt l a c.
Proof. unfold klt. destruct (Nat.eqb l 0); lia. Qed.

Lemma pt_range sh p : pt sh p -> p = tl_id \/ (2 <= p < N sh)%nat.
Proof. intros [H|[H _]]; auto. Qed.
Lemma pt_ne_hd sh p : pt sh p -> p <> hd_id.
Proof. intros H. apply pt_range in H. unfold hd_id, tl_id in *. lia. Qed.
Lemma pt_gok sh p : pt sh p -> gok sh p.
Proof. unfold pt, gok. tauto. Qed.
Lemma gok_lt sh p : HInv sh -> gok sh p -> (p < N sh)%nat.
Proof. intros H [E|[E|[E _]]]; pose proof (h_len _ H); unfold hd_id, tl_id in *; lia. Qed.
Lemma pub_ne sh p : pub sh p -> p <> hd_id /\ p <> tl_id.
Proof. intros [H _]. unfold hd_id, tl_id. lia. Qed.

Lemma path_in_pub sh : HInv sh -> forall c a, path sh 0 a c -> forall m, In m c -> pub sh m.
Proof.
  intros H. induction c as [|x r IH]; intros a Hp m Hin; [destruct Hin|].
  cbn [path] in Hp. destruct Hp as (E & Hx & Hp). destruct Hin as [<-|Hin].
  - pose proof (h_pp _ H a 0%nat) as G. rewrite E in G. destruct G as [G|G]; [contradiction|exact G].
  - eapply IH; eassumption.
Qed.

Lemma path_lb sh : HInv sh -> forall c a, path sh 0 a c -> a <> hd_id ->
  Forall (fun m => key (node sh a) < key (node sh m)) c.
Proof.
  intros H. induction c as [|x r IH]; intros a Hp Ha; [constructor|].
  cbn [path] in Hp. destruct Hp as (E & Hx & Hp).
  assert (Hax : key (node sh a) < key (node sh x)).
  { pose proof (h_edge _ H a 0%nat) as G. rewrite E in G. destruct G as [G|[G|G]]; try contradiction. exact G. }
  assert (Hxh : x <> hd_id).
  { apply (pt_ne_hd sh). rewrite <- E. apply h_pp; exact H. }
  constructor; [exact Hax|].
  pose proof (IH x Hp Hxh) as F. eapply Forall_impl; [|exact F]. cbn. intros; lia.
Qed.

Lemma path_sorted sh : HInv sh -> forall c a, path sh 0 a c ->
  StronglySorted Z.lt (map (fun n => key (node sh n)) c).
Proof.
  intros H. induction c as [|x r IH]; intros a Hp; cbn [map]; [constructor|].
  cbn [path] in Hp. destruct Hp as (E & Hx & Hp). constructor; [eapply IH; exact Hp|].
  assert (Hxh : x <> hd_id).
  { apply (pt_ne_hd sh). rewrite <- E. apply h_pp; exact H. }
  pose proof (path_lb sh H r x Hp Hxh) as F. rewrite Forall_map. exact F.
Qed.

Lemma path_notin sh : HInv sh -> forall c a, path sh 0 a c -> ~ In a c.
Proof.
  intros H c a Hp Hin. destruct (Nat.eq_dec a hd_id) as [E|E].
  - subst a. destruct (pub_ne _ _ (path_in_pub sh H c _ Hp _ Hin)). congruence.
  - pose proof (path_lb sh H c a Hp E) as F. rewrite Forall_forall in F. specialize (F _ Hin). lia.
Qed.

Lemma sorted_nodup {A} (f : A -> Z) c : StronglySorted Z.lt (map f c) -> NoDup c.
Proof.
  induction c as [|a r IH]; cbn [map]; intros H; [constructor|].
  inversion H as [|? ? Hs Hf]; subst. constructor; [|apply IH; exact Hs].
  intros Hin. rewrite Forall_map, Forall_forall in Hf. specialize (Hf _ Hin). lia.
Qed.

Lemma chain_some sh c : HInv sh -> path sh 0 hd_id c -> chain_ids sh 0 = Some c.
Proof.
  intros H Hp. unfold chain_ids.
  assert (Hpub : forall m, In m c -> pub sh m) by (eapply path_in_pub; eassumption).
  rewrite (walk_path sh 0 c hd_id); [reflexivity|exact Hp| | |].
  - intros m Hm. apply (pub_ne sh), Hpub, Hm.
  - discriminate.
  - assert (Hnd : NoDup c) by (eapply sorted_nodup, path_sorted; eassumption).
    assert (Hinc : incl c (seq 2 (N sh - 2))).
    { intros m Hm. apply in_seq. destruct (Hpub m Hm) as [R _]. lia. }
    pose proof (NoDup_incl_length Hnd Hinc) as L. rewrite seq_length in L. pose proof (h_len _ H). lia.
Qed.

Definition abs_of sh (c : list nat) : list Z :=
  map (fun n => key (node sh n)) (filter (fun n => negb (marked sh n 0)) c).

Lemma abs_keys_eq sh c : HInv sh -> path sh 0 hd_id c -> abs_keys sh = abs_of sh c.
Proof. intros H Hp. unfold abs_keys. now rewrite (chain_some sh c H Hp). Qed.

Definition ak sh (k : Z) : Z := if existsb (Z.eqb k) (abs_keys sh) then 1 else 0.

(** chain statistics *)
Definition chain_of sh : list nat := match chain_ids sh 0 with Some c => c | None => [] end.
Definition cntc (f : nat -> bool) (c : list nat) : Z := Z.of_nat (length (filter f c)).
Definition nsoft sh : Z := cntc (fun n => marked sh n 0) (chain_of sh).
Definition nlev sh (l : nat) : Z := cntc (fun n => Nat.eqb (lvl (node sh n)) l) (chain_of sh).

Lemma chain_of_eq sh c : HInv sh -> path sh 0 hd_id c -> chain_of sh = c.
Proof. intros H Hc. unfold chain_of. now rewrite (chain_some sh c H Hc). Qed.

Lemma cntc_ext_in f g c : (forall a, In a c -> f a = g a) -> cntc f c = cntc g c.
Proof.
  unfold cntc. induction c as [|x r IH]; intros Hf; cbn [filter]; [reflexivity|].
  rewrite (Hf x (or_introl eq_refl)).
  assert (IH' : Z.of_nat (length (filter f r)) = Z.of_nat (length (filter g r))) by (apply IH; intros; apply Hf; now right).
  destruct (g x); cbn [length]; lia.
Qed.

Lemma cntc_app f c1 c2 : cntc f (c1 ++ c2) = cntc f c1 + cntc f c2.
Proof. unfold cntc. rewrite filter_app, app_length. lia. Qed.

Lemma cntc_cons f x c : cntc f (x :: c) = (if f x then 1 else 0) + cntc f c.
Proof. unfold cntc. cbn [filter]. destruct (f x); cbn [length]; lia. Qed.

(** the finder standing on [prev] cannot miss a marked node of key [k] that is still linked *)
Definition Resp sh (k : Z) (prev : nat) : Prop :=
  marked sh prev 0 = false \/
  marked sh (fst (getnext sh prev 0)) 0 = true \/ node_lt sh (fst (getnext sh prev 0)) k = true.

(** * Heap evolution: what every step guarantees to the other threads *)

Record ext (sh sh' : shared) (ex mk : option nat) : Prop := {
  e_N : (N sh <= N sh')%nat;
  e_key : forall n, (n < N sh)%nat ->
          key (node sh' n) = key (node sh n) /\ lvl (node sh' n) = lvl (node sh n);
  e_mark : forall n l, marked sh n l = true -> getnext sh' n l = getnext sh n l;
  e_pub : forall n, pub sh n -> pub sh' n;
  e_priv : forall n, (2 <= n < N sh)%nat -> ~ pub sh n -> ex <> Some n ->
           node sh' n = node sh n /\ ~ pub sh' n;
  e_len : forall n, gok sh n -> length (nxt (node sh' n)) = length (nxt (node sh n));
  (* [mk]: the node newly marked at level 0, [ex]: the private node touched / published *)
  e_m0 : forall n, marked sh' n 0 = true -> marked sh n 0 = true \/ mk = Some n;
  e_chain : forall n, onchain sh' n -> onchain sh n \/ ex = Some n;
  e_resp : forall k prev, (exists A, key (node sh A) = k /\ onchain sh A /\ marked sh A 0 = true) ->
           node_lt sh prev k = true -> gok sh prev -> Resp sh k prev -> Resp sh' k prev
}.

Lemma nle_keys sh sh' l a b :
  key (node sh' a) = key (node sh a) -> key (node sh' b) = key (node sh b) ->
  nle sh l a b -> nle sh' l a b.
Proof. unfold nle. intros -> ->. tauto. Qed.

Lemma node_lt_keys sh sh' a k : key (node sh' a) = key (node sh a) -> node_lt sh' a k = node_lt sh a k.
Proof. unfold node_lt. now intros ->. Qed.
Lemma node_lt_cases_aux sh a k : node_lt sh a k = true -> a = hd_id \/ key (node sh a) < k.
Proof.
  unfold node_lt. destruct (Nat.eqb_spec a hd_id) as [->|]; [now left|].
  destruct (Nat.eqb_spec a tl_id); [discriminate|]. intros E. apply Z.ltb_lt in E. auto.
Qed.
Lemma node_eq_keys sh sh' a k : key (node sh' a) = key (node sh a) -> node_eq sh' a k = node_eq sh a k.
Proof. unfold node_eq. now intros ->. Qed.

Lemma path_frame sh sh' l : forall c a, path sh l a c ->
  (forall m, m = a \/ In m c -> fst (getnext sh' m l) = fst (getnext sh m l)) -> path sh' l a c.
Proof.
  induction c as [|x r IH]; intros a Hp Hf; cbn [path] in *.
  - rewrite Hf; auto.
  - destruct Hp as (E & Hx & Hp). rewrite Hf by auto. split; [exact E|]. split; [exact Hx|].
    apply IH; [exact Hp|]. intros m Hm. apply Hf. right. destruct Hm; [left; congruence|now right].
Qed.

Lemma abs_of_frame sh sh' c :
  (forall m, In m c -> key (node sh' m) = key (node sh m) /\ marked sh' m 0 = marked sh m 0) ->
  abs_of sh' c = abs_of sh c.
Proof.
  unfold abs_of. induction c as [|x r IH]; intros Hf; cbn [filter map]; [reflexivity|].
  destruct (Hf x (or_introl eq_refl)) as [Hk Hm]. rewrite Hm.
  assert (IH' := IH (fun m Hin => Hf m (or_intror Hin))).
  destruct (negb (marked sh x 0)); cbn [map]; [rewrite Hk|]; now rewrite IH'.
Qed.

(** same heap (only statistics / the level hint changed) *)
Section SameHeap.
Variables sh sh' : shared.
Hypothesis Hh : heap sh' = heap sh.

Lemma same_node n : node sh' n = node sh n.
Proof. unfold node. now rewrite Hh. Qed.
Lemma same_getnext n l : getnext sh' n l = getnext sh n l.
Proof. unfold getnext. now rewrite same_node. Qed.
Lemma same_marked n l : marked sh' n l = marked sh n l.
Proof. unfold marked. now rewrite same_getnext. Qed.
Lemma same_path l c a : path sh' l a c <-> path sh l a c.
Proof. split; apply path_same; intros; now rewrite same_getnext. Qed.
Lemma same_onchain n : onchain sh' n <-> onchain sh n.
Proof. unfold onchain. split; intros (c & Hp & Hin); exists c; split; auto; now apply same_path. Qed.
Lemma same_pub n : pub sh' n <-> pub sh n.
Proof. unfold pub. rewrite Hh, same_onchain, same_marked. tauto. Qed.
Lemma same_pt n : pt sh' n <-> pt sh n.
Proof. unfold pt. now rewrite same_pub. Qed.
Lemma same_gok n : gok sh' n <-> gok sh n.
Proof. unfold gok. now rewrite same_pub. Qed.
Lemma same_nle l a b : nle sh' l a b <-> nle sh l a b.
Proof. unfold nle. now rewrite !same_node. Qed.
Lemma same_node_lt a k : node_lt sh' a k = node_lt sh a k.
Proof. unfold node_lt. now rewrite same_node. Qed.
Lemma same_node_eq a k : node_eq sh' a k = node_eq sh a k.
Proof. unfold node_eq. now rewrite same_node. Qed.

Lemma same_HInv : HInv sh -> HInv sh'.
Proof.
  intros H. constructor.
  - rewrite Hh. apply H.
  - intros l. rewrite same_getnext. apply H.
  - intros l. rewrite same_marked. apply H.
  - intros n l. rewrite same_getnext. apply same_nle. apply H.
  - destruct (h_chain _ H) as [c Hc]. exists c. now apply same_path.
  - intros n l. rewrite same_getnext. apply same_pt. apply H.
  - intros n Hn. rewrite same_node. apply H. now rewrite <- same_pub.
  - intros n l. rewrite same_getnext. unfold tow. rewrite same_node. apply H.
  - intros n Hm l Hl. rewrite same_marked in *. rewrite same_node in Hl. now apply (h_top _ H).
  - intros n. rewrite same_node. apply H.
Qed.

Lemma same_chain_of : chain_of sh' = chain_of sh.
Proof.
  unfold chain_of, chain_ids. rewrite Hh.
  assert (W : forall f a, walk_ids f sh' 0 a = walk_ids f sh 0 a).
  { induction f as [|f IH]; intros a; cbn [walk_ids]; [reflexivity|]. now rewrite same_getnext, IH. }
  now rewrite W.
Qed.
Lemma same_nsoft : nsoft sh' = nsoft sh.
Proof. unfold nsoft. rewrite same_chain_of. apply cntc_ext_in. intros; apply same_marked. Qed.
Lemma same_nlev l : nlev sh' l = nlev sh l.
Proof. unfold nlev. rewrite same_chain_of. apply cntc_ext_in. intros; now rewrite same_node. Qed.
Lemma same_Resp k a : Resp sh' k a <-> Resp sh k a.
Proof. unfold Resp. now rewrite !same_getnext, !same_marked, same_node_lt. Qed.

Lemma same_abs_keys : abs_keys sh' = abs_keys sh.
Proof.
  unfold abs_keys, chain_ids. rewrite Hh.
  assert (W : forall f a, walk_ids f sh' 0 a = walk_ids f sh 0 a).
  { induction f as [|f IH]; intros a; cbn [walk_ids]; [reflexivity|]. now rewrite same_getnext, IH. }
  rewrite W. destruct (walk_ids _ sh 0 hd_id) as [c|]; [|reflexivity].
  apply abs_of_frame. intros m _. now rewrite same_node, same_marked.
Qed.

Lemma same_ak k : ak sh' k = ak sh k.
Proof. unfold ak. now rewrite same_abs_keys. Qed.

Lemma same_ext : ext sh sh' None None.
Proof.
  constructor.
  - rewrite Hh. lia.
  - intros n _. now rewrite same_node.
  - intros n l _. apply same_getnext.
  - intros n. apply same_pub.
  - intros n _ Hn _. rewrite same_node, same_pub. auto.
  - intros n _. now rewrite same_node.
  - intros n. rewrite same_marked. auto.
  - intros n. rewrite same_onchain. auto.
  - intros k prev _ _ _. apply same_Resp.
Qed.
End SameHeap.

(** a finder's claim about [prev] survives every step that sets no new level-0 mark *)
Lemma resp_keep sh sh' k prev :
  HInv sh -> (forall n l, marked sh n l = true -> getnext sh' n l = getnext sh n l) ->
  (marked sh' prev 0 = true -> marked sh prev 0 = true) ->
  (forall n, pt sh n -> key (node sh' n) = key (node sh n)) ->
  Resp sh k prev -> Resp sh' k prev.
Proof.
  intros H Hm Hn Hk R. unfold Resp in *.
  destruct (marked sh' prev 0) eqn:M; [|now left]. right.
  pose proof (Hn eq_refl) as M0. destruct R as [R|R]; [congruence|].
  rewrite (Hm prev 0%nat M0).
  set (X := fst (getnext sh prev 0)) in *.
  destruct R as [R|R].
  - left. unfold marked in *. now rewrite (Hm X 0%nat R).
  - right. rewrite (node_lt_keys sh sh'); [exact R|]. apply Hk. apply H.
Qed.

(** * Effects of one successful CAS *)

Lemma nle_set_next sh n l v j a b : nle sh j a b -> nle (set_next sh n l v) j a b.
Proof. apply nle_keys; apply key_set_next. Qed.

(** a CAS above level 0 *)
Lemma eff_upper sh n l new m :
  HInv sh -> (1 <= l)%nat -> (n = hd_id \/ pub sh n) -> (n = hd_id -> m = false) ->
  marked sh n l = false -> pt sh new -> tow sh l new -> nle sh l n new ->
  let sh' := set_next sh n l (new, m) in
  HInv sh' /\ ext sh sh' None None /\ abs_keys sh' = abs_keys sh /\ (forall x, pub sh' x <-> pub sh x) /\
  nsoft sh' = nsoft sh /\ (forall j, nlev sh' j = nlev sh j).
Proof.
  intros H Hl Hn Hm Hmk Hnew Htw Hle sh'.
  assert (G0 : forall a, getnext sh' a 0 = getnext sh a 0).
  { intros a. apply getnext_other. right. lia. }
  assert (HN : N sh' = N sh) by apply N_set_next.
  assert (Hlen : forall a, length (nxt (node sh' a)) = length (nxt (node sh a))) by (intros; apply lnxt_set_next).
  assert (Hkey : forall a, key (node sh' a) = key (node sh a)) by (intros; apply key_set_next).
  assert (Hlv : forall a, lvl (node sh' a) = lvl (node sh a)) by (intros; apply lvl_set_next).
  assert (Hpath : forall c a, path sh' 0 a c <-> path sh 0 a c).
  { intros c a. split; apply path_same; intros; now rewrite G0. }
  assert (Hoc : forall x, onchain sh' x <-> onchain sh x).
  { intros x. unfold onchain. split; intros (c & Hp & Hin); exists c; split; auto; now apply Hpath. }
  assert (Hpub : forall x, pub sh' x <-> pub sh x).
  { intros x. unfold pub, marked. now rewrite HN, G0, Hoc. }
  assert (Hntl : n <> tl_id).
  { destruct Hn as [->|Hn]; [discriminate|]. apply (pub_ne _ _ Hn). }
  assert (Emark : forall a j, marked sh a j = true -> getnext sh' a j = getnext sh a j).
  { intros a j Hk. unfold sh'. apply getnext_other.
    destruct (Nat.eq_dec a n) as [->|]; [|now left]. right. intros ->. unfold marked in *. congruence. }
  assert (HI : HInv sh').
  { constructor.
    - rewrite HN. apply H.
    - intros j. unfold sh'. rewrite getnext_other; [apply H|left; congruence].
    - intros j. unfold marked, sh'. rewrite getnext_set_next.
      destruct (Nat.eqb_spec hd_id n) as [E|E]; cbn [andb]; [|apply (h_hdm _ H)].
      destruct (Nat.eqb j l && (n <? N sh)%nat && (l <? length (nxt (node sh n)))%nat); [|apply (h_hdm _ H)].
      cbn [snd]. apply Hm. congruence.
    - intros a j. unfold sh'. rewrite getnext_set_next.
      destruct (Nat.eqb_spec a n) as [E|E]; cbn [andb]; [|apply nle_set_next, H].
      destruct (Nat.eqb_spec j l) as [E2|E2]; cbn [andb]; [|apply nle_set_next, H].
      destruct ((n <? N sh)%nat && (l <? length (nxt (node sh n)))%nat); [|apply nle_set_next, H].
      subst. cbn [fst]. apply nle_set_next. exact Hle.
    - destruct (h_chain _ H) as [c Hc]. exists c. now apply Hpath.
    - intros a j. unfold pt. rewrite Hpub. fold (pt sh (fst (getnext sh' a j))). unfold sh'. rewrite getnext_set_next.
      destruct (Nat.eqb a n && Nat.eqb j l && (n <? N sh)%nat && (l <? length (nxt (node sh n)))%nat);
        [exact Hnew|apply H].
    - intros a Ha. rewrite Hlen, Hlv. apply H. now rewrite <- Hpub.
    - intros a j. unfold tow. rewrite Hlen. fold (tow sh j (fst (getnext sh' a j))). unfold sh'. rewrite getnext_set_next.
      destruct (Nat.eqb_spec a n) as [E|E]; cbn [andb]; [|apply H].
      destruct (Nat.eqb_spec j l) as [E2|E2]; cbn [andb]; [|apply H].
      destruct ((n <? N sh)%nat && (l <? length (nxt (node sh n)))%nat); [|apply H].
      subst. exact Htw.
    - intros a Ha j Hj. unfold marked in Ha. rewrite G0 in Ha. rewrite Hlen in Hj.
      pose proof (h_top _ H a Ha j Hj) as T. unfold marked. now rewrite (Emark a j T).
    - intros a. rewrite Hlv. apply H. }
  destruct (h_chain _ H) as [c Hc].
  assert (Hc' : path sh' 0 hd_id c) by now apply Hpath.
  split; [exact HI|]. split; [|split; [|split; [exact Hpub|split]]].
  - constructor.
    + rewrite HN. lia.
    + intros a _. now rewrite Hkey, Hlv.
    + exact Emark.
    + intros a. apply Hpub.
    + intros a Ha Hp _. rewrite Hpub. split; [|exact Hp]. unfold sh'. rewrite node_set_next.
      destruct (Nat.eqb_spec a n) as [->|]; [|reflexivity]. exfalso.
      destruct Hn as [->|Hn]; [unfold hd_id in *; lia|contradiction].
    + intros a _. apply Hlen.
    + intros a Ha. left. unfold marked in *. now rewrite G0 in Ha.
    + intros a Ha. left. now apply Hoc.
    + intros k prev _ _ _. apply (resp_keep sh sh'); auto. intros Ha. unfold marked in *. now rewrite G0 in Ha.
  - rewrite (abs_keys_eq sh' c HI Hc'), (abs_keys_eq sh c H Hc).
    apply abs_of_frame. intros a _. unfold marked. now rewrite (G0 a), Hkey.
  - unfold nsoft. rewrite (chain_of_eq sh' c HI Hc'), (chain_of_eq sh c H Hc).
    apply cntc_ext_in. intros a _. unfold marked. now rewrite G0.
  - intros j. unfold nlev. rewrite (chain_of_eq sh' c HI Hc'), (chain_of_eq sh c H Hc).
    apply cntc_ext_in. intros a _. now rewrite Hlv.
Qed.

Lemma onchain_in sh c n : path sh 0 hd_id c -> (onchain sh n <-> In n c).
Proof.
  intros Hc. split; [|intros Hin; exists c; auto].
  intros (c' & Hc' & Hin). now rewrite (path_det _ _ _ _ _ Hc Hc').
Qed.

Lemma sorted_inj {A} (f : A -> Z) c : StronglySorted Z.lt (map f c) ->
  forall a b, In a c -> In b c -> f a = f b -> a = b.
Proof.
  induction c as [|x r IH]; cbn [map]; intros H a b Ha Hb E; [destruct Ha|].
  inversion H as [|? ? Hs Hf]; subst. rewrite Forall_map, Forall_forall in Hf.
  destruct Ha as [<-|Ha], Hb as [<-|Hb]; auto.
  - specialize (Hf _ Hb). lia.
  - specialize (Hf _ Ha). lia.
Qed.

Definition akc sh c k := existsb (fun a => (key (node sh a) =? k) && negb (marked sh a 0)) c.

Lemma ak_akc sh c k : HInv sh -> path sh 0 hd_id c -> ak sh k = if akc sh c k then 1 else 0.
Proof.
  intros H Hc. unfold ak. rewrite (abs_keys_eq sh c H Hc). unfold abs_of, akc.
  replace (existsb (Z.eqb k) (map (fun n => key (node sh n)) (filter (fun n => negb (marked sh n 0)) c)))
    with (existsb (fun a => (key (node sh a) =? k) && negb (marked sh a 0)) c); [reflexivity|].
  clear. induction c as [|x r IH]; cbn [existsb filter map]; [reflexivity|].
  destruct (negb (marked sh x 0)); cbn [existsb map]; rewrite IH, ?andb_true_r, ?andb_false_r; cbn [orb];
    [now rewrite (Z.eqb_sym k)|reflexivity].
Qed.

Lemma existsb_ext_in {A} (f g : A -> bool) c : (forall a, In a c -> f a = g a) -> existsb f c = existsb g c.
Proof.
  induction c as [|x r IH]; intros H; cbn [existsb]; [reflexivity|].
  rewrite (H x (or_introl eq_refl)), IH; [reflexivity|]. intros; apply H; now right.
Qed.

Lemma existsb_false {A} (f : A -> bool) c : (forall a, In a c -> f a = false) -> existsb f c = false.
Proof.
  induction c as [|x r IH]; intros H; cbn [existsb]; [reflexivity|].
  rewrite (H x (or_introl eq_refl)), IH; [reflexivity|]. intros; apply H; now right.
Qed.

Lemma cntc_flip f g c n : NoDup c -> In n c -> f n = false -> g n = true ->
  (forall a, a <> n -> In a c -> g a = f a) -> cntc g c = cntc f c + 1.
Proof.
  induction c as [|x r IH]; intros Hnd Hin Hf Hg Ho; [destruct Hin|].
  inversion Hnd as [|? ? Hx Hr]; subst. rewrite !cntc_cons. destruct Hin as [->|Hin].
  - rewrite Hf, Hg. rewrite (cntc_ext_in g f r); [lia|].
    intros a Ha. apply Ho; [|now right]. intros ->. contradiction.
  - assert (x <> n) by (intros ->; contradiction).
    rewrite (Ho x) by (auto; now left). rewrite IH; auto; [lia|]. intros a Ha Hi. apply Ho; auto. now right.
Qed.

(** in a sorted chain the successor of [n] is at or before any later node [A] *)
Lemma chain_succ sh A : HInv sh -> forall c a, path sh 0 a c ->
  forall n, (a = n \/ In n c) -> In A c -> (n = hd_id \/ key (node sh n) < key (node sh A)) ->
  fst (getnext sh n 0) = A \/
  (fst (getnext sh n 0) <> tl_id /\ fst (getnext sh n 0) <> hd_id /\
   key (node sh (fst (getnext sh n 0))) < key (node sh A)).
Proof.
  intros H. induction c as [|m r IH]; intros a Hp n Hn HA Hk; [destruct HA|].
  pose proof (path_in_pub sh H _ _ Hp) as Hpub.
  cbn [path] in Hp. destruct Hp as (E & Hm & Hp).
  assert (Hmh : m <> hd_id) by (apply (pub_ne sh), Hpub; now left).
  pose proof (path_lb sh H r m Hp Hmh) as Lb. rewrite Forall_forall in Lb.
  destruct (Nat.eq_dec a n) as [->|Han].
  - rewrite E. destruct HA as [->|HA]; [now left|]. right. specialize (Lb _ HA). auto.
  - destruct Hn as [Hn|Hn]; [contradiction|].
    assert (Hnh : n <> hd_id) by (apply (pub_ne sh), Hpub, Hn).
    destruct Hk as [Hk|Hk]; [contradiction|].
    destruct HA as [<-|HA].
    + exfalso. destruct Hn as [->|Hn]; [lia|]. specialize (Lb _ Hn). lia.
    + apply (IH m Hp n); auto.
Qed.

(** marking a published node at level 0 *)
Lemma eff_mark0 sh n old :
  HInv sh -> pub sh n -> getnext sh n 0 = (old, false) ->
  (forall l, (0 < l < length (nxt (node sh n)))%nat -> marked sh n l = true) ->
  let sh' := set_next sh n 0 (old, true) in
  HInv sh' /\ ext sh sh' None (Some n) /\ (forall x, pub sh' x <-> pub sh x) /\ marked sh' n 0 = true /\
  (forall k, ak sh' k = ak sh k - (if key (node sh n) =? k then 1 else 0)) /\
  nsoft sh' = nsoft sh + 1 /\ (forall j, nlev sh' j = nlev sh j).
Proof.
  intros H Hn Hw Hup sh'.
  assert (HN : N sh' = N sh) by apply N_set_next.
  assert (Hlen : forall a, length (nxt (node sh' a)) = length (nxt (node sh a))) by (intros; apply lnxt_set_next).
  assert (Hkey : forall a, key (node sh' a) = key (node sh a)) by (intros; apply key_set_next).
  assert (Hlv : forall a, lvl (node sh' a) = lvl (node sh a)) by (intros; apply lvl_set_next).
  assert (Hin : (n <? N sh)%nat && (0 <? length (nxt (node sh n)))%nat = true).
  { destruct Hn as [R Hn]. pose proof (h_ne _ H n (or_intror (conj R Hn))).
    apply andb_true_iff. split; apply Nat.ltb_lt; lia. }
  assert (Gn : getnext sh' n 0 = (old, true)).
  { unfold sh'. rewrite getnext_set_next, !Nat.eqb_refl. cbn [andb]. now rewrite Hin. }
  assert (Go : forall a j, (a <> n \/ j <> 0%nat) -> getnext sh' a j = getnext sh a j).
  { intros. now apply getnext_other. }
  assert (F : forall a j, fst (getnext sh' a j) = fst (getnext sh a j)).
  { intros a j. destruct (Nat.eq_dec a n) as [->|]; [destruct (Nat.eq_dec j 0) as [->|]|].
    - now rewrite Gn, Hw.
    - now rewrite Go by auto.
    - now rewrite Go by auto. }
  assert (Hpath : forall c a, path sh' 0 a c <-> path sh 0 a c).
  { intros c a. split; apply path_same; intros; now rewrite F. }
  destruct (h_chain _ H) as [c Hc].
  assert (Hc' : path sh' 0 hd_id c) by now apply Hpath.
  assert (Hnm : marked sh n 0 = false) by (unfold marked; now rewrite Hw).
  assert (Hnc : In n c).
  { destruct Hn as [_ [Hn|Hn]]; [|congruence]. now apply (onchain_in sh c). }
  assert (Emark : forall a j, marked sh a j = true -> getnext sh' a j = getnext sh a j).
  { intros a j Hk. apply Go. destruct (Nat.eq_dec a n) as [->|]; [|now left]. right. intros ->. congruence. }
  assert (Hmk : forall a j, marked sh a j = true -> marked sh' a j = true).
  { intros a j Hk. unfold marked. rewrite Emark; exact Hk. }
  assert (Hpub : forall x, pub sh' x <-> pub sh x).
  { intros x. unfold pub. rewrite HN, (onchain_in sh' c x Hc'), (onchain_in sh c x Hc).
    split; intros [R [G|G]]; split; auto.
    destruct (Nat.eq_dec x n) as [->|]; [now left|]. right. unfold marked in *. rewrite Go in G by auto. exact G. }
  destruct (pub_ne _ _ Hn) as [Hnh Hnt].
  assert (HI : HInv sh').
  { constructor.
    - rewrite HN. apply H.
    - intros j. rewrite Go by (left; congruence). apply H.
    - intros j. unfold marked. rewrite Go by (left; congruence). apply (h_hdm _ H).
    - intros a j. rewrite F. apply nle_set_next, H.
    - exists c. exact Hc'.
    - intros a j. rewrite F. unfold pt. rewrite Hpub. apply H.
    - intros a Ha. rewrite Hlen, Hlv. apply H. now rewrite <- Hpub.
    - intros a j. rewrite F. unfold tow. rewrite Hlen. apply H.
    - intros a Ha j Hj. rewrite Hlen in Hj. destruct (Nat.eq_dec a n) as [->|Hne].
      + destruct (Nat.eq_dec j 0) as [->|]; [exact Ha|]. apply Hmk, Hup. lia.
      + unfold marked in Ha. rewrite Go in Ha by auto. apply Hmk. now apply (h_top _ H).
    - intros a. rewrite Hlv. apply H. }
  split; [exact HI|]. split; [|split; [exact Hpub|split; [|split; [|split]]]].
  - constructor.
    + rewrite HN. lia.
    + intros a _. now rewrite Hkey, Hlv.
    + exact Emark.
    + intros a. apply Hpub.
    + intros a Ha Hp _. rewrite Hpub. split; [|exact Hp]. unfold sh'. rewrite node_set_next.
      destruct (Nat.eqb_spec a n) as [->|]; [contradiction|reflexivity].
    + intros a _. apply Hlen.
    + intros a Ha. destruct (Nat.eq_dec a n) as [->|]; [now right|left].
      unfold marked in *. now rewrite Go in Ha by auto.
    + intros a Ha. left. apply (onchain_in sh c a Hc). now apply (onchain_in sh' c a Hc').
    + intros k prev (A & HAk & HAc & HAm) Hlt Hg R.
      destruct (Nat.eq_dec prev n) as [->|Hne].
      * unfold Resp. right. rewrite F.
        destruct (node_lt_cases_aux sh n k Hlt) as [E|E]; [contradiction|].
        apply (onchain_in sh c A Hc) in HAc.
        destruct (chain_succ sh A H c hd_id Hc n (or_intror Hnc) HAc) as [G|(G1 & G2 & G3)].
        { right. lia. }
        { left. rewrite G. now apply Hmk. }
        { right. unfold node_lt. rewrite Hkey.
          destruct (Nat.eqb_spec (fst (getnext sh n 0)) hd_id); [contradiction|].
          destruct (Nat.eqb_spec (fst (getnext sh n 0)) tl_id); [contradiction|]. apply Z.ltb_lt. lia. }
      * apply (resp_keep sh sh'); auto. intros Ha. unfold marked in *. now rewrite Go in Ha by auto.
  - unfold marked. now rewrite Gn.
  - intros k. rewrite (ak_akc sh' c k HI Hc'), (ak_akc sh c k H Hc).
    assert (Hinj := sorted_inj _ c (path_sorted sh H c _ Hc)).
    destruct (Z.eqb_spec (key (node sh n)) k) as [E|E].
    + assert (A1 : akc sh c k = true).
      { apply existsb_exists. exists n. split; [exact Hnc|]. rewrite Hnm. cbn [negb]. rewrite andb_true_r. now apply Z.eqb_eq. }
      assert (A2 : akc sh' c k = false).
      { apply existsb_false. intros a Ha. rewrite Hkey. destruct (Z.eqb_spec (key (node sh a)) k) as [E2|]; [|reflexivity].
        assert (a = n) by (apply Hinj; auto; congruence). subst a. unfold marked. now rewrite Gn. }
      rewrite A1, A2. lia.
    + assert (A : akc sh' c k = akc sh c k).
      { apply existsb_ext_in. intros a Ha. rewrite Hkey. destruct (Nat.eq_dec a n) as [->|Hne].
        - destruct (Z.eqb_spec (key (node sh n)) k); [contradiction|reflexivity].
        - unfold marked. rewrite Go by auto. reflexivity. }
      rewrite A. lia.
  - unfold nsoft. rewrite (chain_of_eq sh' c HI Hc'), (chain_of_eq sh c H Hc).
    apply (cntc_flip _ _ c n); auto.
    + eapply sorted_nodup, path_sorted; eassumption.
    + unfold marked. now rewrite Gn.
    + intros a Ha _. unfold marked. now rewrite Go by auto.
  - intros j. unfold nlev. rewrite (chain_of_eq sh' c HI Hc'), (chain_of_eq sh c H Hc).
    apply cntc_ext_in. intros a _. now rewrite Hlv.
Qed.

Lemma path_skip sh sh' n curr next :
  HInv sh -> fst (getnext sh n 0) = curr -> fst (getnext sh curr 0) = next -> curr <> tl_id ->
  (forall a, a <> n -> fst (getnext sh' a 0) = fst (getnext sh a 0)) -> fst (getnext sh' n 0) = next ->
  forall c a, path sh 0 a c -> (a = n \/ In n c) ->
  exists c1 c2, c = c1 ++ curr :: c2 /\ path sh' 0 a (c1 ++ c2).
Proof.
  intros H Hn Hc Hct Ho Hn'. induction c as [|m r IH]; intros a Hp Hin.
  - destruct Hin as [->|[]]. cbn [path] in Hp. congruence.
  - destruct (Nat.eq_dec a n) as [->|Ha].
    + pose proof (path_notin sh H _ _ Hp) as Hni.
      cbn [path] in Hp. destruct Hp as (E & Hm & Hp). rewrite Hn in E. subst m.
      exists [], r. split; [reflexivity|]. cbn [app].
      destruct r as [|m2 r2]; cbn [path] in *.
      * congruence.
      * destruct Hp as (E2 & Hm2 & Hp2). split; [congruence|]. split; [exact Hm2|].
        apply (path_avoid sh sh' 0 n Ho); [exact Hp2| |]; intros ?; apply Hni; cbn; auto.
    + destruct Hin as [Hin|Hin]; [congruence|].
      cbn [path] in Hp. destruct Hp as (E & Hm & Hp).
      destruct (IH m Hp) as (c1 & c2 & Ec & Hp').
      { destruct Hin; [left; congruence|now right]. }
      exists (m :: c1), c2. split; [cbn; now rewrite Ec|].
      cbn [path app]. rewrite Ho by exact Ha. auto.
Qed.

Lemma path_ins sh sh' n x old :
  HInv sh -> fst (getnext sh n 0) = old -> fst (getnext sh x 0) = old -> x <> tl_id -> x <> n ->
  (forall a, a <> n -> fst (getnext sh' a 0) = fst (getnext sh a 0)) -> fst (getnext sh' n 0) = x ->
  forall c a, path sh 0 a c -> (a = n \/ In n c) ->
  exists c1 c2, c = c1 ++ c2 /\ path sh' 0 a (c1 ++ x :: c2).
Proof.
  intros H Hn Hx Hxt Hxn Ho Hn'. induction c as [|m r IH]; intros a Hp Hin.
  - destruct Hin as [->|[]]. exists [], []. split; [reflexivity|]. cbn [path app] in *.
    split; [exact Hn'|]. split; [exact Hxt|]. rewrite Ho by exact Hxn. congruence.
  - destruct (Nat.eq_dec a n) as [->|Ha].
    + exists [], (m :: r). split; [reflexivity|].
      pose proof (path_notin sh H _ _ Hp) as Hni.
      cbn [path app] in *. destruct Hp as (E & Hm & Hp).
      split; [exact Hn'|]. split; [exact Hxt|]. split; [rewrite Ho by exact Hxn; congruence|].
      split; [exact Hm|].
      apply (path_avoid sh sh' 0 n Ho); [exact Hp|intros ->; apply Hni; now left|intros ?; apply Hni; now right].
    + destruct Hin as [Hin|Hin]; [congruence|].
      cbn [path] in Hp. destruct Hp as (E & Hm & Hp).
      destruct (IH m Hp) as (c1 & c2 & Ec & Hp').
      { destruct Hin; [left; congruence|now right]. }
      exists (m :: c1), c2. split; [cbn; now rewrite Ec|].
      cbn [path app]. rewrite Ho by exact Ha. auto.
Qed.

(** helpDelete at level 0: unlink a marked node *)
Lemma eff_unlink0 sh n curr next :
  HInv sh -> (n = hd_id \/ pub sh n) -> getnext sh n 0 = (curr, false) -> getnext sh curr 0 = (next, true) ->
  let sh' := set_next sh n 0 (next, false) in
  HInv sh' /\ ext sh sh' None None /\ (forall x, pub sh' x <-> pub sh x) /\ abs_keys sh' = abs_keys sh /\
  nsoft sh' = nsoft sh - 1 /\
  (forall j, nlev sh' j = nlev sh j - (if Nat.eqb (lvl (node sh curr)) j then 1 else 0)).
Proof.
  intros H Hn Hw Hcw sh'.
  assert (HN : N sh' = N sh) by apply N_set_next.
  assert (Hlen : forall a, length (nxt (node sh' a)) = length (nxt (node sh a))) by (intros; apply lnxt_set_next).
  assert (Hkey : forall a, key (node sh' a) = key (node sh a)) by (intros; apply key_set_next).
  assert (Hlv : forall a, lvl (node sh' a) = lvl (node sh a)) by (intros; apply lvl_set_next).
  assert (Hin : (n <? N sh)%nat && (0 <? length (nxt (node sh n)))%nat = true).
  { pose proof (h_ne _ H n Hn). pose proof (h_len _ H).
    apply andb_true_iff. split; apply Nat.ltb_lt; [|lia]. destruct Hn as [->|[R _]]; unfold hd_id; lia. }
  assert (Gn : getnext sh' n 0 = (next, false)).
  { unfold sh'. rewrite getnext_set_next, !Nat.eqb_refl. cbn [andb]. now rewrite Hin. }
  assert (Go : forall a j, (a <> n \/ j <> 0%nat) -> getnext sh' a j = getnext sh a j).
  { intros. now apply getnext_other. }
  assert (M : forall a j, marked sh' a j = marked sh a j).
  { intros a j. unfold marked. destruct (Nat.eq_dec a n) as [->|]; [destruct (Nat.eq_dec j 0) as [->|]|].
    - now rewrite Gn, Hw.
    - now rewrite Go by auto.
    - now rewrite Go by auto. }
  assert (Emark : forall a j, marked sh a j = true -> getnext sh' a j = getnext sh a j).
  { intros a j Hk. apply Go. destruct (Nat.eq_dec a n) as [->|]; [|now left]. right. intros ->.
    unfold marked in Hk. rewrite Hw in Hk. discriminate. }
  assert (Hcn : curr <> n) by (intros ->; congruence).
  assert (Hct : curr <> tl_id) by (intros ->; rewrite (h_tl _ H) in Hcw; congruence).
  assert (Hcp : pub sh curr).
  { pose proof (h_pp _ H n 0%nat) as G. rewrite Hw in G. destruct G as [G|G]; [contradiction|exact G]. }
  assert (Hnx : pt sh next).
  { pose proof (h_pp _ H curr 0%nat) as G. now rewrite Hcw in G. }
  assert (Hnt : tow sh 0 next).
  { pose proof (h_tow _ H curr 0%nat) as G. now rewrite Hcw in G. }
  assert (Hle : nle sh 0 n next).
  { pose proof (h_edge _ H n 0%nat) as G1. pose proof (h_edge _ H curr 0%nat) as G2.
    rewrite Hw in G1. rewrite Hcw in G2. cbn [fst] in *. unfold nle in *.
    destruct (pub_ne _ _ Hcp). unfold klt in *. cbn [Nat.eqb] in *.
    destruct G1 as [G1|[G1|G1]]; auto; try contradiction.
    destruct G2 as [G2|[G2|G2]]; auto; try contradiction. right; right; lia. }
  destruct (h_chain _ H) as [c Hc].
  assert (Hnm : marked sh n 0 = false) by (unfold marked; now rewrite Hw).
  assert (Hnc : hd_id = n \/ In n c).
  { destruct Hn as [->|[_ [Hn|Hn]]]; [now left| |congruence]. right. now apply (onchain_in sh c). }
  destruct (path_skip sh sh' n curr next H) with (c := c) (a := hd_id) as (c1 & c2 & Ec & Hc');
    try solve [now rewrite ?Hw, ?Hcw, ?Gn | assumption].
  { intros a Ha. now rewrite Go by auto. }
  assert (Hcm : marked sh curr 0 = true) by (unfold marked; now rewrite Hcw).
  assert (Hpub : forall x, pub sh' x <-> pub sh x).
  { intros x. unfold pub. rewrite HN, (onchain_in sh' _ x Hc'), (onchain_in sh c x Hc), M. subst c.
    rewrite !in_app_iff. cbn [In]. split; intros [R G]; split; auto; [tauto|].
    destruct (Nat.eq_dec x curr) as [->|]; [now right|]. intuition congruence. }
  assert (HI : HInv sh').
  { constructor.
    - rewrite HN. apply H.
    - intros j. rewrite Go; [apply H|]. left. destruct Hn as [->|Hn]; [discriminate|]. intros E; symmetry in E. now apply (pub_ne _ _ Hn).
    - intros j. rewrite M. apply H.
    - intros a j. destruct (Nat.eq_dec a n) as [->|]; [destruct (Nat.eq_dec j 0) as [->|]|].
      + rewrite Gn. apply nle_set_next. exact Hle.
      + rewrite Go by auto. apply nle_set_next, H.
      + rewrite Go by auto. apply nle_set_next, H.
    - eexists. exact Hc'.
    - intros a j. unfold pt. rewrite Hpub. fold (pt sh (fst (getnext sh' a j))).
      destruct (Nat.eq_dec a n) as [->|]; [destruct (Nat.eq_dec j 0) as [->|]|].
      + rewrite Gn. exact Hnx.
      + rewrite Go by auto. apply H.
      + rewrite Go by auto. apply H.
    - intros a Ha. rewrite Hlen, Hlv. apply H. now rewrite <- Hpub.
    - intros a j. unfold tow. rewrite Hlen. fold (tow sh j (fst (getnext sh' a j))).
      destruct (Nat.eq_dec a n) as [->|]; [destruct (Nat.eq_dec j 0) as [->|]|].
      + rewrite Gn. exact Hnt.
      + rewrite Go by auto. apply H.
      + rewrite Go by auto. apply H.
    - intros a Ha j Hj. rewrite M in *. rewrite Hlen in Hj. now apply (h_top _ H).
    - intros a. rewrite Hlv. apply H. }
  split; [exact HI|]. split; [|split; [exact Hpub|split; [|split]]].
  - constructor.
    + rewrite HN. lia.
    + intros a _. now rewrite Hkey, Hlv.
    + exact Emark.
    + intros a. apply Hpub.
    + intros a Ha Hp _. rewrite Hpub. split; [|exact Hp]. unfold sh'. rewrite node_set_next.
      destruct (Nat.eqb_spec a n) as [->|]; [|reflexivity]. exfalso.
      destruct Hn as [->|Hn]; [unfold hd_id in *; lia|contradiction].
    + intros a _. apply Hlen.
    + intros a Ha. left. now rewrite M in Ha.
    + intros a Ha. left. apply (onchain_in sh c a Hc). apply (onchain_in sh' _ a Hc') in Ha. subst c.
      rewrite in_app_iff in *. cbn [In]. tauto.
    + intros k prev _ _ _. apply (resp_keep sh sh'); auto. now rewrite M.
  - rewrite (abs_keys_eq sh' _ HI Hc'), (abs_keys_eq sh c H Hc).
    rewrite (abs_of_frame sh sh' (c1 ++ c2)) by (intros a _; now rewrite Hkey, M).
    subst c. unfold abs_of. rewrite !filter_app. cbn [filter]. now rewrite Hcm.
  - unfold nsoft. rewrite (chain_of_eq sh' _ HI Hc'), (chain_of_eq sh c H Hc). subst c.
    rewrite (cntc_ext_in _ (fun a => marked sh a 0) (c1 ++ c2)) by (intros; apply M).
    rewrite !cntc_app, cntc_cons, Hcm. lia.
  - intros j. unfold nlev. rewrite (chain_of_eq sh' _ HI Hc'), (chain_of_eq sh c H Hc). subst c.
    rewrite (cntc_ext_in _ (fun a => Nat.eqb (lvl (node sh a)) j) (c1 ++ c2)) by (intros; now rewrite Hlv).
    rewrite !cntc_app, cntc_cons. lia.
Qed.

(** the level-0 publish CAS of Insert4 *)
Lemma eff_pub0 sh n old x :
  HInv sh -> (n = hd_id \/ pub sh n) -> getnext sh n 0 = (old, false) ->
  (2 <= x < N sh)%nat -> ~ pub sh x -> getnext sh x 0 = (old, false) ->
  length (nxt (node sh x)) = S (lvl (node sh x)) -> nle sh 0 n x ->
  let sh' := set_next sh n 0 (x, false) in
  HInv sh' /\ ext sh sh' (Some x) None /\ (forall y, pub sh' y <-> pub sh y \/ y = x) /\
  (forall k, ak sh' k = ak sh k + (if key (node sh x) =? k then 1 else 0)) /\
  nsoft sh' = nsoft sh /\
  (forall j, nlev sh' j = nlev sh j + (if Nat.eqb (lvl (node sh x)) j then 1 else 0)).
Proof.
  intros H Hn Hw Hxr Hxp Hxw Hxl Hle sh'.
  assert (HN : N sh' = N sh) by apply N_set_next.
  assert (Hlen : forall a, length (nxt (node sh' a)) = length (nxt (node sh a))) by (intros; apply lnxt_set_next).
  assert (Hkey : forall a, key (node sh' a) = key (node sh a)) by (intros; apply key_set_next).
  assert (Hlv : forall a, lvl (node sh' a) = lvl (node sh a)) by (intros; apply lvl_set_next).
  assert (Hin : (n <? N sh)%nat && (0 <? length (nxt (node sh n)))%nat = true).
  { pose proof (h_ne _ H n Hn). pose proof (h_len _ H).
    apply andb_true_iff. split; apply Nat.ltb_lt; [|lia]. destruct Hn as [->|[R _]]; unfold hd_id; lia. }
  assert (Gn : getnext sh' n 0 = (x, false)).
  { unfold sh'. rewrite getnext_set_next, !Nat.eqb_refl. cbn [andb]. now rewrite Hin. }
  assert (Go : forall a j, (a <> n \/ j <> 0%nat) -> getnext sh' a j = getnext sh a j).
  { intros. now apply getnext_other. }
  assert (M : forall a j, marked sh' a j = marked sh a j).
  { intros a j. unfold marked. destruct (Nat.eq_dec a n) as [->|]; [destruct (Nat.eq_dec j 0) as [->|]|].
    - now rewrite Gn, Hw.
    - now rewrite Go by auto.
    - now rewrite Go by auto. }
  assert (Emark : forall a j, marked sh a j = true -> getnext sh' a j = getnext sh a j).
  { intros a j Hk. apply Go. destruct (Nat.eq_dec a n) as [->|]; [|now left]. right. intros ->.
    unfold marked in Hk. rewrite Hw in Hk. discriminate. }
  assert (Hxn : x <> n).
  { intros ->. destruct Hn as [->|Hn]; [unfold hd_id in *; lia|contradiction]. }
  assert (Hxt : x <> tl_id) by (unfold tl_id; lia).
  destruct (h_chain _ H) as [c Hc].
  assert (Hnm : marked sh n 0 = false) by (unfold marked; now rewrite Hw).
  assert (Hnc : hd_id = n \/ In n c).
  { destruct Hn as [->|[_ [Hn|Hn]]]; [now left| |congruence]. right. now apply (onchain_in sh c). }
  destruct (path_ins sh sh' n x old H) with (c := c) (a := hd_id) as (c1 & c2 & Ec & Hc');
    try solve [now rewrite ?Hw, ?Hxw, ?Gn | assumption].
  { intros a Ha. now rewrite Go by auto. }
  assert (Hxc : ~ In x c) by (intros Hi; apply Hxp; eapply path_in_pub; eassumption).
  assert (Hpub : forall y, pub sh' y <-> pub sh y \/ y = x).
  { intros y. unfold pub. rewrite HN, (onchain_in sh' _ y Hc'), (onchain_in sh c y Hc), M. subst c.
    rewrite !in_app_iff. cbn [In]. split.
    - intros [R [[G|[G|G]]|G]]; auto.
    - intros [[R G]| ->]; [split; [exact R|tauto]|]. split; [exact Hxr|]. left. right. now left. }
  assert (Hxm : marked sh x 0 = false) by (unfold marked; now rewrite Hxw).
  assert (HI : HInv sh').
  { constructor.
    - rewrite HN. apply H.
    - intros j. rewrite Go; [apply H|]. left. destruct Hn as [->|Hn]; [discriminate|]. intros E; symmetry in E. now apply (pub_ne _ _ Hn).
    - intros j. rewrite M. apply H.
    - intros a j. destruct (Nat.eq_dec a n) as [->|]; [destruct (Nat.eq_dec j 0) as [->|]|].
      + rewrite Gn. apply nle_set_next. exact Hle.
      + rewrite Go by auto. apply nle_set_next, H.
      + rewrite Go by auto. apply nle_set_next, H.
    - eexists. exact Hc'.
    - intros a j. unfold pt. rewrite Hpub.
      destruct (Nat.eq_dec a n) as [->|]; [destruct (Nat.eq_dec j 0) as [->|]|].
      + rewrite Gn. cbn [fst]. auto.
      + rewrite Go by auto. destruct (h_pp _ H n j); auto.
      + rewrite Go by auto. destruct (h_pp _ H a j); auto.
    - intros a Ha. rewrite Hlen, Hlv. rewrite Hpub in Ha.
      destruct Ha as [Ha|[Ha| ->]]; [apply H; auto|apply H; auto|exact Hxl].
    - intros a j. unfold tow. rewrite Hlen. fold (tow sh j (fst (getnext sh' a j))).
      destruct (Nat.eq_dec a n) as [->|]; [destruct (Nat.eq_dec j 0) as [->|]|].
      + rewrite Gn. right. cbn [fst]. lia.
      + rewrite Go by auto. apply H.
      + rewrite Go by auto. apply H.
    - intros a Ha j Hj. rewrite M in *. rewrite Hlen in Hj. now apply (h_top _ H).
    - intros a. rewrite Hlv. apply H. }
  split; [exact HI|]. split; [|split; [exact Hpub|split; [|split]]].
  - constructor.
    + rewrite HN. lia.
    + intros a _. now rewrite Hkey, Hlv.
    + exact Emark.
    + intros a Ha. apply Hpub. now left.
    + intros a Ha Hp Hne. rewrite Hpub. split.
      * unfold sh'. rewrite node_set_next.
        destruct (Nat.eqb_spec a n) as [->|]; [|reflexivity]. exfalso.
        destruct Hn as [->|Hn]; [unfold hd_id in *; lia|contradiction].
      * intros [G| ->]; [contradiction|]. now apply Hne.
    + intros a _. apply Hlen.
    + intros a Ha. left. now rewrite M in Ha.
    + intros a Ha. apply (onchain_in sh' _ a Hc') in Ha. rewrite (onchain_in sh c a Hc). subst c.
      rewrite in_app_iff in *. cbn [In] in Ha. destruct Ha as [Ha|[Ha|Ha]]; [left; now left|right; now subst|left; now right].
    + intros k prev _ _ _. apply (resp_keep sh sh'); auto. now rewrite M.
  - intros k. rewrite (ak_akc sh' _ k HI Hc'), (ak_akc sh c k H Hc).
    assert (Hinj := sorted_inj _ _ (path_sorted sh' HI _ _ Hc')).
    assert (Hpt : forall a, (key (node sh' a) =? k) && negb (marked sh' a 0) = (key (node sh a) =? k) && negb (marked sh a 0)).
    { intros a. now rewrite Hkey, M. }
    unfold akc. rewrite (existsb_ext_in _ _ _ (fun a _ => Hpt a)). subst c.
    rewrite !existsb_app. cbn [existsb]. rewrite Hxm. cbn [negb]. rewrite andb_true_r.
    destruct (Z.eqb_spec (key (node sh x)) k) as [E|E]; cbn [orb]; [|lia].
    rewrite orb_true_r.
    assert (A : forall c0, incl c0 (c1 ++ c2) -> existsb (fun a => (key (node sh a) =? k) && negb (marked sh a 0)) c0 = false).
    { intros c0 Hi. apply existsb_false. intros a Ha.
      destruct (Z.eqb_spec (key (node sh a)) k) as [E2|]; [|reflexivity]. exfalso.
      assert (Hac : In a (c1 ++ c2)) by (apply Hi, Ha).
      assert (a = x).
      { apply Hinj; [| |cbv beta; rewrite !Hkey; congruence]; rewrite in_app_iff in *; cbn [In]; tauto. }
      subst a. contradiction. }
    rewrite (A c1), (A c2); [cbn; lia| |]; intros a Ha; apply in_app_iff; auto.
  - unfold nsoft. rewrite (chain_of_eq sh' _ HI Hc'), (chain_of_eq sh c H Hc). subst c.
    rewrite (cntc_ext_in _ (fun a => marked sh a 0) (c1 ++ x :: c2)) by (intros; apply M).
    rewrite !cntc_app, cntc_cons, Hxm. lia.
  - intros j. unfold nlev. rewrite (chain_of_eq sh' _ HI Hc'), (chain_of_eq sh c H Hc). subst c.
    rewrite (cntc_ext_in _ (fun a => Nat.eqb (lvl (node sh a)) j) (c1 ++ x :: c2)) by (intros; now rewrite Hlv).
    rewrite !cntc_app, cntc_cons. lia.
Qed.

Lemma node_app_old sh nd lv st n : (n < N sh)%nat -> node (mkSh (heap sh ++ [nd]) lv st) n = node sh n.
Proof. intros Hn. unfold node. cbn [heap]. now apply app_nth1. Qed.

Lemma node_app_new sh nd lv st : node (mkSh (heap sh ++ [nd]) lv st) (N sh) = nd.
Proof. unfold node. cbn [heap]. rewrite app_nth2 by lia. now rewrite Nat.sub_diag. Qed.

(** allocation of a private node with no words yet *)
Lemma eff_alloc sh k xl lv st :
  HInv sh -> (xl <= maxLevel)%nat ->
  let sh' := mkSh (heap sh ++ [mkNd k xl []]) lv st in
  HInv sh' /\ ext sh sh' None None /\ abs_keys sh' = abs_keys sh /\ (forall y, pub sh' y <-> pub sh y) /\
  node sh' (N sh) = mkNd k xl [] /\ N sh' = S (N sh) /\
  nsoft sh' = nsoft sh /\ (forall j, nlev sh' j = nlev sh j).
Proof.
  intros H Hxl sh'.
  assert (HN : N sh' = S (N sh)) by (unfold sh'; cbn [heap]; rewrite app_length; cbn; lia).
  assert (G : forall a j, getnext sh' a j = getnext sh a j).
  { intros a j. unfold getnext. destruct (Nat.lt_ge_cases a (N sh)) as [L|L].
    - unfold sh'. now rewrite node_app_old.
    - rewrite (node_oob sh a L). destruct (Nat.eq_dec a (N sh)) as [->|].
      + unfold sh'. rewrite node_app_new. reflexivity.
      + rewrite node_oob by lia. reflexivity. }
  assert (K : forall a, (a < N sh)%nat -> node sh' a = node sh a) by (intros; now apply node_app_old).
  assert (Hpath : forall c a, path sh' 0 a c <-> path sh 0 a c).
  { intros c a. split; apply path_same; intros; now rewrite G. }
  assert (Hpub : forall y, pub sh' y <-> pub sh y).
  { intros y. unfold pub, onchain, marked. rewrite HN, G. split.
    - intros [R [(c & Hp & Hi)|Hk]].
      + apply Hpath in Hp. pose proof (path_in_pub sh H c _ Hp _ Hi) as [R' _].
        split; [exact R'|]. left; exists c; auto.
      + split; [|now right]. split; [lia|]. apply (marked_lt sh y 0). exact Hk.
    - intros [R [(c & Hp & Hi)|Hk]]; (split; [lia|]); [left|now right]. exists c. split; auto. now apply Hpath. }
  assert (Kg : forall a, gok sh a -> node sh' a = node sh a).
  { intros a Ha. apply K. now apply gok_lt. }
  assert (Kk : forall a, pt sh a -> key (node sh' a) = key (node sh a)).
  { intros a Ha. rewrite Kg; [reflexivity|now apply pt_gok]. }
  assert (M : forall a j, marked sh' a j = marked sh a j) by (intros; unfold marked; now rewrite G).
  assert (HI : HInv sh').
  { constructor.
    - rewrite HN. pose proof (h_len _ H). lia.
    - intros j. rewrite G. apply H.
    - intros j. unfold marked. rewrite G. apply (h_hdm _ H).
    - intros a j. rewrite G. destruct (Nat.lt_ge_cases a (N sh)) as [L|L].
      + apply (nle_keys sh); [now rewrite K| |apply H]. apply Kk, H.
      + rewrite getnext_oob by exact L. right; now left.
    - destruct (h_chain _ H) as [c Hc]. exists c. now apply Hpath.
    - intros a j. rewrite G. unfold pt. rewrite Hpub. apply H.
    - intros a Ha.
      assert (Ha' : a = hd_id \/ pub sh a) by (destruct Ha; [now left|right; now apply Hpub]).
      rewrite Kg; [apply H; exact Ha'|]. destruct Ha'; [now left|now right; right].
    - intros a j. rewrite G. pose proof (h_tow _ H a j) as T. pose proof (h_pp _ H a j) as P.
      unfold tow in *. rewrite Kg by now apply pt_gok. exact T.
    - intros a Ha j Hj. rewrite M in *. destruct (marked_lt sh a 0 Ha) as [L _]. rewrite K in Hj by exact L.
      now apply (h_top _ H).
    - intros a. destruct (Nat.lt_ge_cases a (N sh)) as [L|L]; [rewrite K by exact L; apply H|].
      destruct (Nat.eq_dec a (N sh)) as [->|]; [unfold sh'; rewrite node_app_new; exact Hxl|].
      rewrite node_oob by lia. cbn. lia. }
  destruct (h_chain _ H) as [c Hc].
  assert (Hc' : path sh' 0 hd_id c) by now apply Hpath.
  assert (Kc : forall a, In a c -> node sh' a = node sh a).
  { intros a Ha. apply Kg. right; right. eapply path_in_pub; eassumption. }
  split; [exact HI|]. split; [|split; [|split; [exact Hpub|split; [apply node_app_new|split; [exact HN|split]]]]].
  - constructor.
    + lia.
    + intros a Ha. now rewrite K.
    + intros a j _. apply G.
    + intros a. apply Hpub.
    + intros a Ha Hp _. rewrite Hpub. split; [|exact Hp]. apply K. lia.
    + intros a Ha. now rewrite Kg.
    + intros a Ha. left. now rewrite M in Ha.
    + intros a (c0 & Hp & Hi). left. exists c0. split; [now apply Hpath|exact Hi].
    + intros k0 prev _ _ _. apply (resp_keep sh sh'); auto. now rewrite M.
  - rewrite (abs_keys_eq sh' c HI Hc'), (abs_keys_eq sh c H Hc).
    apply abs_of_frame. intros a Ha. now rewrite M, Kc.
  - unfold nsoft. rewrite (chain_of_eq sh' c HI Hc'), (chain_of_eq sh c H Hc).
    apply cntc_ext_in. intros a _. apply M.
  - intros j. unfold nlev. rewrite (chain_of_eq sh' c HI Hc'), (chain_of_eq sh c H Hc).
    apply cntc_ext_in. intros a Ha. now rewrite Kc.
Qed.

Lemma nth_map_seq {A} (f : nat -> A) n i d : nth i (map f (seq 0 n)) d = if (i <? n)%nat then f i else d.
Proof.
  destruct (Nat.ltb_spec i n) as [L|L].
  - rewrite (nth_indep _ d (f 0%nat)) by (now rewrite map_length, seq_length).
    rewrite (map_nth f (seq 0 n) 0%nat i). now rewrite seq_nth.
  - apply nth_overflow. now rewrite map_length, seq_length.
Qed.

(** initialisation of the words of a private node (end of findPath in Insert4) *)
Lemma eff_init sh k x xl (s : nat -> nat) lv st :
  HInv sh -> (2 <= x < N sh)%nat -> key (node sh x) = k -> lvl (node sh x) = xl -> ~ pub sh x ->
  (forall l, marked sh x l = false) -> (forall i, pt sh (s i)) -> (forall i, tow sh i (s i)) ->
  (forall i, s i = tl_id \/ klt i k (key (node sh (s i)))) ->
  let ws := map (fun i => (s i, false)) (seq 0 (S xl)) in
  let sh' := mkSh (set_nth x (mkNd k xl ws) (heap sh)) lv st in
  HInv sh' /\ ext sh sh' (Some x) None /\ abs_keys sh' = abs_keys sh /\ (forall y, pub sh' y <-> pub sh y) /\
  node sh' x = mkNd k xl ws /\ N sh' = N sh /\ nsoft sh' = nsoft sh /\ (forall j, nlev sh' j = nlev sh j).
Proof.
  intros H Hxr Hk Hl Hxp Hxm Hs Hst Hsk ws sh'.
  assert (HN : N sh' = N sh) by (unfold sh'; cbn [heap]; apply set_nth_length).
  assert (K : forall a, node sh' a = if Nat.eqb a x then mkNd k xl ws else node sh a).
  { intros a. unfold node, sh'. cbn [heap]. rewrite nth_set_nth.
    replace (x <? N sh)%nat with true by (symmetry; apply Nat.ltb_lt; lia). now rewrite andb_true_r. }
  assert (Ko : forall a, a <> x -> node sh' a = node sh a).
  { intros a Ha. rewrite K. destruct (Nat.eqb_spec a x); [contradiction|reflexivity]. }
  assert (Kx : node sh' x = mkNd k xl ws) by (now rewrite K, Nat.eqb_refl).
  assert (Kk : forall a, key (node sh' a) = key (node sh a) /\ lvl (node sh' a) = lvl (node sh a)).
  { intros a. rewrite K. destruct (Nat.eqb_spec a x) as [->|]; cbn [key lvl]; auto. }
  assert (Go : forall a j, a <> x -> getnext sh' a j = getnext sh a j).
  { intros a j Ha. unfold getnext. now rewrite Ko. }
  assert (Gx : forall j, getnext sh' x j = (s j, false) \/ getnext sh' x j = (tl_id, false)).
  { intros j. unfold getnext. rewrite Kx. cbn [nxt]. unfold ws. rewrite nth_map_seq.
    destruct (j <? S xl)%nat; auto. }
  assert (Hgx : forall a, gok sh a -> a <> x).
  { intros a [->|[->|Ha]]; try (unfold hd_id, tl_id; lia). intros ->. contradiction. }
  destruct (h_chain _ H) as [c Hc].
  assert (Hxc : ~ In x c) by (intros Hi; apply Hxp; eapply path_in_pub; eassumption).
  assert (Hxh : hd_id <> x) by (unfold hd_id; lia).
  assert (Hc' : path sh' 0 hd_id c).
  { apply (path_avoid sh sh' 0 x); auto. intros m Hm. now rewrite Go. }
  assert (M0 : forall y, marked sh' y 0 = marked sh y 0).
  { intros y. unfold marked. destruct (Nat.eq_dec y x) as [->|]; [|now rewrite Go].
    fold (marked sh x 0). rewrite Hxm. destruct (Gx 0%nat) as [-> | ->]; reflexivity. }
  assert (Emark : forall a j, marked sh a j = true -> getnext sh' a j = getnext sh a j).
  { intros a j Hm. apply Go. intros ->. rewrite Hxm in Hm. discriminate. }
  assert (Hpub : forall y, pub sh' y <-> pub sh y).
  { intros y. unfold pub. rewrite HN, (onchain_in sh' c y Hc'), (onchain_in sh c y Hc), M0. tauto. }
  assert (HI : HInv sh').
  { constructor.
    - rewrite HN. apply H.
    - intros j. rewrite Go by (unfold tl_id; lia). apply H.
    - intros j. unfold marked. rewrite Go by (unfold hd_id; lia). apply (h_hdm _ H).
    - intros a j. destruct (Nat.eq_dec a x) as [->|Ha].
      + destruct (Gx j) as [-> | ->]; cbn [fst]; [|right; now left].
        destruct (Hsk j) as [E|E]; [right; now left|]. right; right.
        destruct (Kk x) as [-> _]. destruct (Kk (s j)) as [-> _]. now rewrite Hk.
      + rewrite Go by exact Ha. apply (nle_keys sh); [apply Kk|apply Kk|apply H].
    - exists c. exact Hc'.
    - intros a j. unfold pt. rewrite Hpub. destruct (Nat.eq_dec a x) as [->|Ha].
      + destruct (Gx j) as [-> | ->]; cbn [fst]; [apply Hs|now left].
      + rewrite Go by exact Ha. apply H.
    - intros a Ha.
      assert (Ha' : a = hd_id \/ pub sh a) by (destruct Ha; [now left|right; now apply Hpub]).
      rewrite Ko; [apply H; exact Ha'|]. intros ->. destruct Ha' as [E|E]; [lia|contradiction].
    - intros a j.
      assert (T : forall q, pt sh q -> tow sh j q -> tow sh' j q).
      { intros q Hq Tq. unfold tow in *. rewrite Ko; [exact Tq|]. apply Hgx. now apply pt_gok. }
      destruct (Nat.eq_dec a x) as [->|Ha].
      + destruct (Gx j) as [-> | ->]; cbn [fst]; [apply T; auto|now left].
      + rewrite Go by exact Ha. apply T; apply H.
    - intros a Ha j Hj. rewrite M0 in Ha. destruct (Nat.eq_dec a x) as [->|Hne]; [rewrite Hxm in Ha; discriminate|].
      rewrite Ko in Hj by exact Hne. unfold marked. rewrite Go by exact Hne. now apply (h_top _ H).
    - intros a. destruct (Kk a) as [_ ->]. apply H. }
  assert (Kc : forall a, In a c -> node sh' a = node sh a).
  { intros a Ha. apply Ko. intros ->. contradiction. }
  split; [exact HI|]. split; [|split; [|split; [exact Hpub|split; [exact Kx|split; [exact HN|split]]]]].
  - constructor.
    + lia.
    + intros a _. apply Kk.
    + exact Emark.
    + intros a. apply Hpub.
    + intros a Ha Hp Hne. rewrite Hpub. split; [|exact Hp]. apply Ko. congruence.
    + intros a Ha. rewrite Ko; [reflexivity|now apply Hgx].
    + intros a Ha. left. now rewrite M0 in Ha.
    + intros a Ha. left. apply (onchain_in sh c a Hc). now apply (onchain_in sh' c a Hc').
    + intros k0 prev _ _ _. apply (resp_keep sh sh'); auto; [now rewrite M0|intros a _; apply Kk].
  - rewrite (abs_keys_eq sh' c HI Hc'), (abs_keys_eq sh c H Hc).
    apply abs_of_frame. intros a Ha. split; [apply Kk|apply M0].
  - unfold nsoft. rewrite (chain_of_eq sh' c HI Hc'), (chain_of_eq sh c H Hc).
    apply cntc_ext_in. intros a _. apply M0.
  - intros j. unfold nlev. rewrite (chain_of_eq sh' c HI Hc'), (chain_of_eq sh c H Hc).
    apply cntc_ext_in. intros a Ha. now rewrite Kc.
Qed.

(** * Per-thread invariants *)

Definition buf_ok sh k b : Prop :=
  length (preds b) = S maxLevel /\ length (succs b) = S maxLevel /\
  forall i, node_lt sh (pred_at b i) k = true /\ node_lt sh (succ_at b i) k = false /\
            gok sh (pred_at b i) /\ gok sh (succ_at b i) /\ tow sh i (succ_at b i).

(** a node still private to its inserting thread *)
Definition priv sh k x xl : Prop :=
  (2 <= x < N sh)%nat /\ key (node sh x) = k /\ lvl (node sh x) = xl /\ ~ pub sh x /\
  (forall l, marked sh x l = false).
Definition pubk sh k x : Prop := pub sh x /\ key (node sh x) = k.
(** a published node whose upper levels are still being linked by its inserter *)
Definition pubx sh k x xl i : Prop := pubk sh k x /\ lvl (node sh x) = xl /\ (1 <= i <= xl)%nat.
(** softDelete has marked every level above [i] *)
Definition above sh n i : Prop :=
  forall l, (i < l)%nat -> (l < length (nxt (node sh n)))%nat -> marked sh n l = true.

Definition cont_ok sh (p : pers) k c : Prop :=
  match c with
  | KInsert x xl => priv sh k x xl
  | KInsertFix x xl i => pubx sh k x xl i
  | KInsertDone x xl => pubk sh k x /\ lvl (node sh x) = xl
  | KIterNext last => k = key (node sh last) /\ last = it_curr (p_it p) /\ (last < N sh)%nat
  | KRefresh => k = key (node sh (it_curr (p_it p))) /\ (it_curr (p_it p) < N sh)%nat
  | _ => True
  end.

Definition it_ok sh it : Prop :=
  gok sh (it_prev it) /\ gok sh (it_curr it) /\ it_prev it <> tl_id /\ it_curr it <> hd_id /\
  nle sh 0 (it_prev it) (it_curr it).

Definition linv sh (p : pers) (l : local) : Prop :=
  match l with
  | LLevelLoad _ want => (want <= maxLevel)%nat
  | LLevelCas _ want lv => (want <= maxLevel)%nat /\ (lv < want)%nat
  | LItFirst => True
  | LFP0 k c b => buf_ok sh k b /\ cont_ok sh p k c
  | LFP1 k c b i prev => buf_ok sh k b /\ cont_ok sh p k c /\ node_lt sh prev k = true /\ gok sh prev
  | LFP2 k c b i prev curr =>
    buf_ok sh k b /\ cont_ok sh p k c /\ node_lt sh prev k = true /\ gok sh prev /\
    gok sh curr /\ curr <> hd_id /\ nle sh i prev curr /\ tow sh i curr
  | LFPH k c b i prev curr next =>
    buf_ok sh k b /\ cont_ok sh p k c /\ node_lt sh prev k = true /\ gok sh prev /\
    gok sh curr /\ curr <> hd_id /\ nle sh i prev curr /\ getnext sh curr i = (next, true)
  | LInsPub k x xl b =>
    buf_ok sh k b /\ priv sh k x xl /\ node_eq sh (succ_at b 0) k = false /\
    nxt (node sh x) = map (fun i => (succ_at b i, false)) (seq 0 (S xl))
  | LInsSucc k x xl b i | LInsOwn k x xl b i | LInsLink k x xl b i | LInsCheck k x xl b i => buf_ok sh k b /\ pubx sh k x xl i
  | LSdLoad k n i m => pubk sh k n /\ (m = true -> marked sh n 0 = true /\ i = 0%nat) /\ above sh n i
  | LSdCas k n i m next => pubk sh k n /\ m = false /\ above sh n i
  | LItNext it => it_ok sh it /\ it_curr it = it_curr (p_it p) /\ it_curr it <> tl_id
  | LItHelp it next => it_ok sh it /\ it_curr it = it_curr (p_it p) /\ getnext sh (it_curr it) 0 = (next, true)
  end.

Definition pinv sh (p : pers) : Prop :=
  it_ok sh (p_it p) /\ forall k x, In (k, x) (p_nodes p) -> pubk sh k x.

Definition own_fk (c : fk) : option nat := match c with KInsert x _ => Some x | _ => None end.
Definition own_l (l : local) : option nat :=
  match l with
  | LFP0 _ c _ | LFP1 _ c _ _ _ | LFP2 _ c _ _ _ _ | LFPH _ c _ _ _ _ _ => own_fk c
  | LInsPub _ x _ _ => Some x
  | _ => None
  end.
Definition own (o : option local) : option nat := match o with Some l => own_l l | None => None end.

(** stability under the steps of other threads *)
Section Stable.
Variables (sh sh' : shared) (ex mk : option nat).
Hypothesis H : HInv sh.
Hypothesis X : ext sh sh' ex mk.

Lemma gok_ext a : gok sh a -> gok sh' a.
Proof. unfold gok. intros [E|[E|E]]; auto. right; right. now apply (e_pub _ _ _ _ X). Qed.

Lemma key_ext a : gok sh a -> key (node sh' a) = key (node sh a).
Proof. intros Ha. apply (e_key _ _ _ _ X). now apply gok_lt. Qed.

Lemma lvl_ext a : gok sh a -> lvl (node sh' a) = lvl (node sh a).
Proof. intros Ha. apply (e_key _ _ _ _ X). now apply gok_lt. Qed.

Lemma node_lt_ext a k : gok sh a -> node_lt sh' a k = node_lt sh a k.
Proof. intros Ha. apply node_lt_keys. now apply key_ext. Qed.

Lemma node_eq_ext a k : gok sh a -> node_eq sh' a k = node_eq sh a k.
Proof. intros Ha. apply node_eq_keys. now apply key_ext. Qed.

Lemma nle_ext l a b : gok sh a -> gok sh b -> nle sh l a b -> nle sh' l a b.
Proof. intros Ha Hb. apply nle_keys; now apply key_ext. Qed.

Lemma tow_ext l a : gok sh a -> tow sh l a -> tow sh' l a.
Proof. intros Ha. unfold tow. now rewrite (e_len _ _ _ _ X a Ha). Qed.

Lemma buf_ok_ext k b : buf_ok sh k b -> buf_ok sh' k b.
Proof.
  intros (L1 & L2 & F). split; [exact L1|]. split; [exact L2|]. intros i.
  destruct (F i) as (A & B & C & D & E). rewrite !node_lt_ext by assumption. auto 6 using gok_ext, tow_ext.
Qed.

Lemma pubk_ext k x : pubk sh k x -> pubk sh' k x.
Proof.
  intros [A B]. split; [now apply (e_pub _ _ _ _ X)|]. rewrite <- B. apply key_ext. right; right; exact A.
Qed.

Lemma pubx_ext k x xl i : pubx sh k x xl i -> pubx sh' k x xl i.
Proof.
  intros (A & B & C). split; [now apply pubk_ext|]. split; [|exact C].
  rewrite <- B. apply lvl_ext. right; right. apply A.
Qed.

Lemma above_ext n i : pub sh n -> above sh n i -> above sh' n i.
Proof.
  intros Hn A l Hl Hl2. rewrite (e_len _ _ _ _ X n) in Hl2 by (right; now right).
  specialize (A l Hl Hl2). unfold marked in *. now rewrite (e_mark _ _ _ _ X n l A).
Qed.

Lemma priv_ext k x xl : ex <> Some x -> priv sh k x xl -> priv sh' k x xl.
Proof.
  intros Hne (R & K & L & P & M).
  destruct (e_priv _ _ _ _ X x R P Hne) as [E P'].
  split; [pose proof (e_N _ _ _ _ X); lia|]. rewrite E. split; [exact K|]. split; [exact L|]. split; [exact P'|].
  intros l. unfold marked, getnext. rewrite E. apply M.
Qed.

Lemma it_ok_ext it : it_ok sh it -> it_ok sh' it.
Proof.
  intros (A & B & C & D & E). unfold it_ok. auto 10 using gok_ext, nle_ext.
Qed.

Lemma pinv_ext p : pinv sh p -> pinv sh' p.
Proof. intros [A B]. split; [now apply it_ok_ext|]. intros k x Hi. apply pubk_ext, B, Hi. Qed.

Lemma cont_ok_ext p k c : (forall x, own_fk c = Some x -> ex <> Some x) -> cont_ok sh p k c -> cont_ok sh' p k c.
Proof.
  destruct c; cbn [cont_ok own_fk]; intros Ho Hc; auto.
  - apply priv_ext; auto.
  - now apply pubx_ext.
  - destruct Hc as [A B]. split; [now apply pubk_ext|]. rewrite <- B. apply lvl_ext. right; right. apply A.
  - destruct Hc as (A & B & C). split; [|split; [exact B|pose proof (e_N _ _ _ _ X); lia]].
    rewrite A. symmetry. now apply (e_key _ _ _ _ X).
  - destruct Hc as (A & C). split; [|pose proof (e_N _ _ _ _ X); lia].
    rewrite A. symmetry. now apply (e_key _ _ _ _ X).
Qed.

Lemma marked_word_ext a l nx : getnext sh a l = (nx, true) -> getnext sh' a l = (nx, true).
Proof. intros G. rewrite <- G. apply (e_mark _ _ _ _ X). unfold marked. now rewrite G. Qed.

Lemma linv_ext p l : (forall x, own_l l = Some x -> ex <> Some x) -> linv sh p l -> linv sh' p l.
Proof.
  destruct l; cbn [linv own_l]; intros Ho Hl; auto.
  - destruct Hl as (A & B). split; [now apply buf_ok_ext|now apply cont_ok_ext].
  - destruct Hl as (A & B & C & D). rewrite node_lt_ext by assumption.
    auto 10 using buf_ok_ext, cont_ok_ext, gok_ext.
  - destruct Hl as (A & B & C & D & E & F & G & T). rewrite node_lt_ext by assumption.
    auto 14 using buf_ok_ext, cont_ok_ext, gok_ext, nle_ext, tow_ext.
  - destruct Hl as (A & B & C & D & E & F & G & I). rewrite node_lt_ext by assumption.
    auto 14 using buf_ok_ext, cont_ok_ext, gok_ext, nle_ext, marked_word_ext.
  - destruct Hl as (A & B & C & D).
    assert (Hx : ex <> Some x) by (apply Ho; reflexivity).
    destruct (A) as (_ & _ & F). destruct (F 0%nat) as (_ & _ & _ & G0 & _).
    rewrite node_eq_ext by exact G0.
    split; [now apply buf_ok_ext|]. split; [now apply priv_ext|]. split; [exact C|].
    destruct B as (R & _ & _ & P & _). destruct (e_priv _ _ _ _ X x R P Hx) as [E _]. now rewrite E.
  - destruct Hl as (A & B). auto using buf_ok_ext, pubx_ext.
  - destruct Hl as (A & B). auto using buf_ok_ext, pubx_ext.
  - destruct Hl as (A & B). auto using buf_ok_ext, pubx_ext.
  - destruct Hl as (A & B). auto using buf_ok_ext, pubx_ext.
  - destruct Hl as (A & B & C). split; [now apply pubk_ext|]. split; [|apply above_ext; [apply A|exact C]].
    intros Hm. destruct (B Hm) as [B1 B2]. split; [|exact B2].
    unfold Stmts.marked in *. now rewrite (e_mark _ _ _ _ X n 0%nat B1).
  - destruct Hl as (A & B & C). split; [now apply pubk_ext|]. split; [exact B|apply above_ext; [apply A|exact C]].
  - destruct Hl as (A & B & C). auto using it_ok_ext.
  - destruct Hl as (A & B & C). auto using it_ok_ext, marked_word_ext.
Qed.
End Stable.

(** * Classification of local states (for the accounting) *)

Inductive cls := CIns (k : Z) | CDel (k : Z) | COther.
Definition cls_fk (k : Z) (c : fk) : cls :=
  match c with
  | KInsert _ _ | KInsertFix _ _ _ | KInsertDone _ _ => CIns k
  | KDelete | KUnlink => CDel k
  | _ => COther
  end.
Definition cls_l (l : local) : cls :=
  match l with
  | LLevelLoad k _ | LLevelCas k _ _ => CIns k
  | LFP0 k c _ | LFP1 k c _ _ _ | LFP2 k c _ _ _ _ | LFPH k c _ _ _ _ _ => cls_fk k c
  | LInsPub k _ _ _ | LInsSucc k _ _ _ _ | LInsOwn k _ _ _ _ | LInsLink k _ _ _ _ | LInsCheck k _ _ _ _ => CIns k
  | LSdLoad k _ _ _ | LSdCas k _ _ _ _ => CDel k
  | _ => COther
  end.
Definition clsw (k : Z) (c : cls) : Z :=
  match c with
  | CIns k' => if k' =? k then 1 else 0
  | CDel k' => if k' =? k then -1 else 0
  | COther => 0
  end.
(** the operation has taken effect (publish CAS / own level-0 mark CAS succeeded) but not yet returned *)
Definition live_fk (c : fk) : bool := match c with KInsertFix _ _ _ | KInsertDone _ _ | KUnlink => true | _ => false end.
Definition live (l : local) : bool :=
  match l with
  | LFP0 _ c _ | LFP1 _ c _ _ _ | LFP2 _ c _ _ _ _ | LFPH _ c _ _ _ _ _ => live_fk c
  | LInsSucc _ _ _ _ _ | LInsOwn _ _ _ _ _ | LInsLink _ _ _ _ _ | LInsCheck _ _ _ _ _ => true
  | LSdLoad _ _ _ m | LSdCas _ _ _ m _ => m
  | _ => false
  end.
Definition b2z (b : bool) : Z := if b then 1 else 0.
Definition lv_r (r : local + result) : Z :=
  match r with inl l => b2z (live l) | inr (RBool true) => 1 | inr _ => 0 end.

(** a published node of level [j] not yet counted in levelNodesCount (insert still linking) *)
Definition liw_fk (c : fk) (j : nat) : Z := match c with KInsertFix _ xl _ | KInsertDone _ xl => b2z (Nat.eqb xl j) | _ => 0 end.
Definition liw (j : nat) (l : local) : Z :=
  match l with
  | LFP0 _ c _ | LFP1 _ c _ _ _ | LFP2 _ c _ _ _ _ | LFPH _ c _ _ _ _ _ => liw_fk c j
  | LInsSucc _ _ xl _ _ | LInsOwn _ _ xl _ _ | LInsLink _ _ xl _ _ | LInsCheck _ _ xl _ _ => b2z (Nat.eqb xl j)
  | _ => 0
  end.
Definition liw_r (j : nat) (r : local + result) : Z := match r with inl l => liw j l | inr _ => 0 end.

(** the thread in state [l] is responsible for unlinking the marked, still linked node [A] *)
Definition isU (c : fk) : Prop := match c with KUnlink => True | _ => False end.
Definition respl sh (A : nat) (l : local) : Prop :=
  match l with
  | LSdLoad k n i m => m = true /\ n = A
  | LFP0 k c b => isU c /\ key (node sh A) = k
  | LFP1 k c b i prev => isU c /\ key (node sh A) = k /\ Resp sh k prev
  | LFP2 k c b i prev curr =>
    isU c /\ key (node sh A) = k /\ Resp sh k prev /\
    (i = 0%nat -> marked sh curr 0 = true \/ node_lt sh curr k = true)
  | LFPH k c b i prev curr next => isU c /\ key (node sh A) = k /\ Resp sh k prev
  | _ => False
  end.

Record StepOK sh (p : pers) (cl : cls) (ow : option nat) (lvb : bool) (lw : nat -> Z) (rs : nat -> Prop)
       sh' (p' : pers) (r : local + result) : Prop := {
  s_h : HInv sh';
  s_ext : exists ex mk, ext sh sh' ex mk /\ (ex = None \/ ex = ow) /\
          (forall A, mk = Some A -> exists k, r = inl (LSdLoad k A 0 true));
  s_p : pinv sh' p';
  s_l : match r with
        | inl l' => p_nodes p' = p_nodes p /\ linv sh' p' l' /\ cls_l l' = cl /\
                    (forall x, own_l l' = Some x -> ow = Some x \/ (N sh <= x)%nat)
        | inr _ => True
        end;
  s_ak : forall k, ak sh' k - ak sh k = (lv_r r - b2z lvb) * clsw k cl;
  s_soft : st_soft (sts sh') - st_soft (sts sh) = nsoft sh' - nsoft sh;
  s_slen : length (st_nodes (sts sh')) = length (st_nodes (sts sh));
  s_nodes : length (st_nodes (sts sh)) = S maxLevel -> forall j,
            (nth j (st_nodes (sts sh')) 0 + liw_r j r) - (nth j (st_nodes (sts sh)) 0 + lw j)
            = nlev sh' j - nlev sh j;
  s_resp : forall A, onchain sh' A -> marked sh A 0 = true -> rs A ->
           match r with inl l' => respl sh' A l' | inr _ => False end
}.

(** buffers *)
Lemma pred_at_set b i pr su j :
  pred_at (set_buf b i pr su) j = pr \/ pred_at (set_buf b i pr su) j = pred_at b j.
Proof.
  unfold pred_at, set_buf. cbn [preds]. rewrite nth_set_nth.
  destruct (Nat.eqb j i && (i <? length (preds b))%nat); auto.
Qed.
Lemma succ_at_set b i pr su j :
  (succ_at (set_buf b i pr su) j = su /\ j = i) \/ succ_at (set_buf b i pr su) j = succ_at b j.
Proof.
  unfold succ_at, set_buf. cbn [succs]. rewrite nth_set_nth.
  destruct (Nat.eqb_spec j i); cbn [andb]; auto.
  destruct (i <? length (succs b))%nat; auto.
Qed.

Lemma buf_ok_set sh k b i pr su :
  buf_ok sh k b -> node_lt sh pr k = true -> node_lt sh su k = false -> gok sh pr -> gok sh su ->
  tow sh i su -> buf_ok sh k (set_buf b i pr su).
Proof.
  intros (L1 & L2 & F) A B C D T. split; [|split].
  - unfold set_buf. cbn [preds]. now rewrite set_nth_length.
  - unfold set_buf. cbn [succs]. now rewrite set_nth_length.
  - intros j. destruct (F j) as (F1 & F2 & F3 & F4 & F5).
    destruct (pred_at_set b i pr su j) as [-> | ->], (succ_at_set b i pr su j) as [[-> ->] | ->]; auto 6.
Qed.

Lemma buf_set0 sh k b pr su : buf_ok sh k b ->
  pred_at (set_buf b 0 pr su) 0 = pr /\ succ_at (set_buf b 0 pr su) 0 = su.
Proof.
  intros (L1 & L2 & _). unfold pred_at, succ_at, set_buf. cbn [preds succs].
  rewrite !nth_set_nth, L1, L2. cbn. auto.
Qed.

Lemma buf_ok0 sh k : buf_ok sh k buf0.
Proof.
  split; [|split]; try (unfold buf0; cbn [preds succs]; now rewrite repeat_length).
  intros i. unfold pred_at, succ_at, buf0. cbn [preds succs]. rewrite !nth_repeat_any.
  unfold node_lt, gok, tow. cbn. auto 8.
Qed.

Lemma node_lt_cases sh a k : node_lt sh a k = true -> a <> tl_id /\ (a = hd_id \/ key (node sh a) < k).
Proof.
  unfold node_lt. destruct (Nat.eqb_spec a hd_id) as [->|]; [intros _; split; [discriminate|now left]|].
  destruct (Nat.eqb_spec a tl_id); [discriminate|]. intros E. apply Z.ltb_lt in E. auto.
Qed.
Lemma node_nlt_cases sh a k : node_lt sh a k = false -> a <> hd_id /\ (a = tl_id \/ k <= key (node sh a)).
Proof.
  unfold node_lt. destruct (Nat.eqb_spec a hd_id) as [->|]; [discriminate|].
  destruct (Nat.eqb_spec a tl_id); [auto|]. intros E. apply Z.ltb_ge in E. auto.
Qed.
Lemma node_eq_true sh a k : node_eq sh a k = true -> a <> hd_id /\ a <> tl_id /\ key (node sh a) = k.
Proof.
  unfold node_eq. destruct (Nat.eqb_spec a hd_id); [discriminate|].
  destruct (Nat.eqb_spec a tl_id); [discriminate|]. intros E. apply Z.eqb_eq in E. auto.
Qed.
Lemma node_eq_false sh a k : node_eq sh a k = false -> a = hd_id \/ a = tl_id \/ key (node sh a) <> k.
Proof.
  unfold node_eq. destruct (Nat.eqb_spec a hd_id); [auto|].
  destruct (Nat.eqb_spec a tl_id); [auto|]. intros E. apply Z.eqb_neq in E. auto.
Qed.

Lemma gok_hd sh : gok sh hd_id. Proof. now left. Qed.
Lemma gok_pub_or_hd sh a : gok sh a -> a <> tl_id -> a = hd_id \/ pub sh a.
Proof. intros [E|[E|E]] Hn; auto. contradiction. Qed.
Lemma gok_pt sh a : gok sh a -> a <> hd_id -> pt sh a.
Proof. intros [E|[E|E]] Hn; [contradiction|now left|now right]. Qed.

Lemma word_pt sh a l : HInv sh -> pt sh (fst (getnext sh a l)).
Proof. intros H. apply H. Qed.

Lemma nle_through sh l a b c : HInv sh -> nle sh l a b -> getnext sh b l = (c, true) -> nle sh l a c.
Proof.
  intros H Hab Hw.
  assert (Hbt : b <> tl_id) by (intros ->; rewrite (h_tl _ H) in Hw; congruence).
  assert (Hbh : b <> hd_id).
  { intros ->. pose proof (h_hdm _ H l) as G. unfold marked in G. rewrite Hw in G. discriminate. }
  pose proof (h_edge _ H b l) as G. rewrite Hw in G. cbn [fst] in G. unfold nle in *.
  destruct Hab as [E|[E|E]]; auto; try contradiction.
  destruct G as [G|[G|G]]; auto; try contradiction.
  right; right. eapply klt_trans; eassumption.
Qed.

Lemma it_result_lv sh it : lv_r (inr (it_result sh it)) = 0.
Proof. unfold it_result. destruct (it_valid it && negb (Nat.eqb (it_curr it) tl_id)); reflexivity. Qed.

Lemma ext_same_r sh sh1 sh' ex mk : ext sh sh1 ex mk -> heap sh' = heap sh1 -> ext sh sh' ex mk.
Proof.
  intros [A B C D E F G I J] Hh. constructor.
  - rewrite Hh. exact A.
  - intros n Hn. rewrite (same_node sh1 sh' Hh). now apply B.
  - intros n l Hm. rewrite (same_getnext sh1 sh' Hh). now apply C.
  - intros n Hn. apply (same_pub sh1 sh' Hh). now apply D.
  - intros n Hn Hp Hx. rewrite (same_node sh1 sh' Hh), (same_pub sh1 sh' Hh). now apply E.
  - intros n Hn. rewrite (same_node sh1 sh' Hh). now apply F.
  - intros n Hn. rewrite (same_marked sh1 sh' Hh) in Hn. now apply G.
  - intros n Hn. apply (same_onchain sh1 sh' Hh) in Hn. now apply I.
  - intros k prev HA Hl Hg R. apply (same_Resp sh1 sh' Hh). now apply J.
Qed.

Lemma same_respl sh sh' A l : heap sh' = heap sh -> respl sh' A l <-> respl sh A l.
Proof.
  intros Hh. destruct l; cbn [respl]; try tauto;
    rewrite ?(same_node sh sh' Hh), ?(same_Resp sh sh' Hh), ?(same_marked sh sh' Hh), ?(same_node_lt sh sh' Hh); tauto.
Qed.

Lemma sok_mk sh p cl ow lvb lw (rs : nat -> Prop) sh1 sh' p' r ex mk :
  HInv sh1 -> ext sh sh1 ex mk -> (ex = None \/ ex = ow) ->
  (forall A, mk = Some A -> exists k, r = inl (LSdLoad k A 0 true)) ->
  heap sh' = heap sh1 -> pinv sh1 p' ->
  match r with
  | inl l' => p_nodes p' = p_nodes p /\ linv sh1 p' l' /\ cls_l l' = cl /\
              (forall x, own_l l' = Some x -> ow = Some x \/ (N sh <= x)%nat)
  | inr _ => True
  end ->
  (forall k, ak sh1 k - ak sh k = (lv_r r - b2z lvb) * clsw k cl) ->
  st_soft (sts sh') - st_soft (sts sh) = nsoft sh1 - nsoft sh ->
  length (st_nodes (sts sh')) = length (st_nodes (sts sh)) ->
  (length (st_nodes (sts sh)) = S maxLevel -> forall j,
     (nth j (st_nodes (sts sh')) 0 + liw_r j r) - (nth j (st_nodes (sts sh)) 0 + lw j) = nlev sh1 j - nlev sh j) ->
  (forall A, onchain sh1 A -> marked sh A 0 = true -> rs A ->
     match r with inl l' => respl sh1 A l' | inr _ => False end) ->
  StepOK sh p cl ow lvb lw rs sh' p' r.
Proof.
  intros H1 X Hex Hmk Hh Hp Hl Hak Hso Hsl Hno Hre.
  pose proof (same_ext sh1 sh' Hh) as X1.
  constructor.
  - now apply (same_HInv sh1 sh' Hh).
  - exists ex, mk. split; [now apply (ext_same_r sh sh1)|]. split; [exact Hex|exact Hmk].
  - now apply (pinv_ext sh1 sh' None None H1 X1).
  - destruct r as [l'|]; [|exact I]. destruct Hl as (A & B & C & D). split; [exact A|]. split; [|auto].
    apply (linv_ext sh1 sh' None None H1 X1); [discriminate|exact B].
  - intros k. rewrite (same_ak sh1 sh' Hh). apply Hak.
  - rewrite (same_nsoft sh1 sh' Hh). exact Hso.
  - exact Hsl.
  - intros L j. rewrite (same_nlev sh1 sh' Hh). now apply Hno.
  - intros A Ha Hm Hr. apply (same_onchain sh1 sh' Hh) in Ha. specialize (Hre A Ha Hm Hr).
    destruct r as [l'|]; [|exact Hre]. now apply (same_respl sh1 sh' A l' Hh).
Qed.

(** a step that does not touch the heap *)
Lemma sok_same sh p cl ow lvb lw (rs : nat -> Prop) sh' p' r :
  HInv sh -> heap sh' = heap sh -> pinv sh p' ->
  match r with
  | inl l' => p_nodes p' = p_nodes p /\ linv sh p' l' /\ cls_l l' = cl /\
              (forall x, own_l l' = Some x -> ow = Some x \/ (N sh <= x)%nat)
  | inr _ => True
  end ->
  (lv_r r = b2z lvb \/ forall k, clsw k cl = 0) ->
  st_soft (sts sh') = st_soft (sts sh) -> st_nodes (sts sh') = st_nodes (sts sh) ->
  (forall j, liw_r j r = lw j) ->
  (forall A, onchain sh A -> marked sh A 0 = true -> rs A ->
     match r with inl l' => respl sh A l' | inr _ => False end) ->
  StepOK sh p cl ow lvb lw rs sh' p' r.
Proof.
  intros H Hh Hp Hl Hw Hso Hno Hli Hre.
  apply (sok_mk sh p cl ow lvb lw rs sh sh' p' r None None); auto.
  - now apply same_ext.
  - discriminate.
  - intros k. destruct Hw as [-> | E]; [|rewrite E]; lia.
  - rewrite Hso. lia.
  - now rewrite Hno.
  - intros _ j. rewrite Hno, Hli. lia.
Qed.

Lemma buf_it_ok sh k b : buf_ok sh k b -> it_ok sh (mkIt (pred_at b 0) (succ_at b 0) true).
Proof.
  intros (_ & _ & F). destruct (F 0%nat) as (A & B & C & D & _).
  destruct (node_lt_cases _ _ _ A) as [A1 A2]. destruct (node_nlt_cases _ _ _ B) as [B1 B2].
  unfold it_ok. cbn [it_prev it_curr]. repeat split; auto.
  unfold nle, klt. cbn [Nat.eqb]. destruct A2; auto. destruct B2; auto. right; right; lia.
Qed.

Lemma pinv_cons sh p k x : pinv sh p -> pubk sh k x -> pinv sh (mkPers (p_it p) ((k, x) :: p_nodes p) (p_cnt p) (p_ivl p)).
Proof.
  intros [A B] Hx. split; [exact A|]. cbn [p_nodes]. intros k' x' [E|Hi]; [inversion E; now subst|now apply B].
Qed.

Lemma pinv_it' sh p it c v : pinv sh p -> it_ok sh it -> pinv sh (mkPers it (p_nodes p) c v).
Proof. intros [A B] Hi. split; [exact Hi|exact B]. Qed.
Lemma pinv_it sh p it : pinv sh p -> it_ok sh it -> pinv sh (set_it p it).
Proof. apply pinv_it'. Qed.

Lemma nth_upd_list l i d j :
  nth j (upd_list l i d) 0 = nth j l 0 + (if Nat.eqb j i && (i <? length l)%nat then d else 0).
Proof.
  unfold upd_list. rewrite nth_set_nth.
  destruct (Nat.eqb_spec j i) as [->|]; cbn [andb]; [|lia]. destruct (i <? length l)%nat; lia.
Qed.

Lemma upd_list_length l i d : length (upd_list l i d) = length l.
Proof. unfold upd_list. apply set_nth_length. Qed.

Lemma insert_finish_ok sh p k x xl (rs : nat -> Prop) sh' p' r :
  HInv sh -> pinv sh p -> pubk sh k x -> lvl (node sh x) = xl -> (forall A, rs A -> False) ->
  insert_finish sh p k x xl = (sh', p', r) ->
  StepOK sh p (CIns k) None true (fun j => b2z (Nat.eqb xl j)) rs sh' p' r.
Proof.
  intros H Hp Hx Hxl Hrs E. unfold insert_finish in E. injection E as <- <- <-.
  apply (sok_mk sh p _ _ _ _ _ sh _ _ _ None None); auto.
  - now apply same_ext.
  - discriminate.
  - now apply pinv_cons.
  - intros k0. cbn. lia.
  - cbn. lia.
  - cbn [with_sts sts st_add_nodes st_nodes]. apply upd_list_length.
  - intros L j. cbn [with_sts sts st_add_nodes st_add_alloc st_nodes liw_r]. rewrite nth_upd_list, L.
    assert (xl <? S maxLevel = true)%nat as ->.
    { apply Nat.ltb_lt. pose proof (h_lvl _ H x). lia. }
    rewrite andb_true_r, (Nat.eqb_sym xl j). destruct (Nat.eqb j xl); cbn [b2z]; lia.
  - intros A _ _ R. exact (Hrs A R).
Qed.

(** the end of Next: either the operation completes, or the Refresh search starts *)
Lemma next_done_spec sh p it sh' p' r : next_done sh p it = (sh', p', r) ->
  sh' = sh /\ p' = mkPers it (p_nodes p) (S (p_cnt p)) (p_ivl p) /\
  ((r = inl (LFP0 (key (node sh (it_curr it))) KRefresh buf0) /\ it_valid it = true /\ it_curr it <> tl_id) \/
   r = inr (it_result sh it)).
Proof.
  unfold next_done.
  destruct (negb (Nat.eqb (p_ivl p) 0) && Nat.eqb (S (p_cnt p) mod p_ivl p) 0 && it_valid it
            && negb (Nat.eqb (it_curr it) tl_id)) eqn:C; intros E; injection E as <- <- <-.
  - split; [reflexivity|]. split; [reflexivity|]. left. split; [reflexivity|].
    apply andb_true_iff in C. destruct C as [C C2]. apply andb_true_iff in C. destruct C as [_ C1].
    split; [exact C1|]. apply negb_true_iff, Nat.eqb_neq in C2. exact C2.
  - split; [reflexivity|]. split; [reflexivity|]. now right.
Qed.

Lemma next_done_ok sh p it lw (rs : nat -> Prop) sh' p' r :
  HInv sh -> pinv sh p -> it_ok sh it -> (forall A, rs A -> False) -> (forall j, lw j = 0) ->
  next_done sh p it = (sh', p', r) ->
  StepOK sh p COther None false lw rs sh' p' r.
Proof.
  intros H Hp Hi Hrs Hlw E.
  destruct (next_done_spec _ _ _ _ _ _ E) as (-> & -> & [(-> & Hv & Ht)| -> ]).
  - apply sok_same; try reflexivity; try solve [intros A0 _ _ R0; destruct (Hrs A0 R0)].
    + exact H.
    + now apply pinv_it'.
    + split; [reflexivity|]. split; [|split; [reflexivity|intros y Hy; discriminate]].
      cbn [linv cont_ok p_it]. split; [apply buf_ok0|]. split; [reflexivity|]. apply gok_lt; [exact H|apply Hi].
    + right. intros k0. reflexivity.
    + intros j. cbn [liw_r liw liw_fk]. now rewrite Hlw.
  - apply sok_same; try reflexivity; try solve [intros A0 _ _ R0; destruct (Hrs A0 R0)].
    + exact H.
    + now apply pinv_it'.
    + right. intros k0. reflexivity.
    + intros j. cbn [liw_r]. now rewrite Hlw.
Qed.

Lemma fp_done_ok sh p k c b found (rs : nat -> Prop) sh' p' r :
  HInv sh -> pinv sh p -> buf_ok sh k b -> cont_ok sh p k c -> found = node_eq sh (succ_at b 0) k ->
  (forall A, rs A -> False) ->
  fp_done sh p k c b found = (sh', p', r) ->
  StepOK sh p (cls_fk k c) (own_fk c) (live_fk c) (liw_fk c) rs sh' p' r.
Proof.
  intros H Hp Hb Hc Hf Hrs E.
  pose proof Hb as (L1 & L2 & F). destruct (F 0%nat) as (F1 & F2 & F3 & F4 & F5).
  destruct c as [|x xl|x xl i|x xl| | | |last|]; cbn [fp_done cls_fk own_fk live_fk cont_ok] in *.
  - (* KLookup *) injection E as <- <- <-. apply sok_same; auto; try solve [intros A0 _ _ R0; destruct (Hrs A0 R0)].
  - (* KInsert *)
    destruct found eqn:Ef.
    + injection E as <- <- <-. apply sok_same; auto; try solve [intros A0 _ _ R0; destruct (Hrs A0 R0)].
    + injection E as <- <- <-.
      destruct Hc as (R & K & Lv & P & M).
      assert (Hs : forall i, pt sh (succ_at b i)).
      { intros i. destruct (F i) as (_ & B & _ & D & _). apply gok_pt; [exact D|]. apply (node_nlt_cases _ _ _ B). }
      assert (Hst : forall i, tow sh i (succ_at b i)) by (intros i; apply (F i)).
      assert (Hsk : forall i, succ_at b i = tl_id \/ klt i k (key (node sh (succ_at b i)))).
      { intros i. destruct (Nat.eq_dec (succ_at b i) tl_id) as [T|T]; [now left|right].
        destruct (F i) as (_ & B & _ & _). destruct (node_nlt_cases _ _ _ B) as [B1 [B2|B2]]; [contradiction|].
        unfold klt. destruct (Nat.eqb_spec i 0) as [->|]; [|exact B2].
        destruct (node_eq_false _ _ _ (eq_sym Hf)) as [G|[G|G]]; try contradiction. lia. }
      destruct (eff_init sh k x xl (succ_at b) (sl_level sh) (sts sh) H R K Lv P M Hs Hst Hsk)
        as (HI & X & AK & Hpub & Kx & HN & NS & NL).
      eapply (sok_mk _ _ _ _ _ _ _ _ _ _ _ (Some x) None);
        [exact HI|exact X|now right|discriminate|reflexivity| | | | | | |intros A0 _ _ R0; destruct (Hrs A0 R0)].
      * now apply (pinv_ext sh _ (Some x) None).
      * split; [reflexivity|]. split; [|split; [reflexivity|intros y Hy; left; exact Hy]].
        cbn [linv]. split; [now apply (buf_ok_ext sh _ (Some x) None)|]. split; [|split].
        -- split; [rewrite HN; exact R|]. rewrite Kx. cbn [key lvl]. split; [reflexivity|]. split; [reflexivity|].
           split; [now rewrite Hpub|]. intros l. unfold marked, getnext. rewrite Kx. cbn [nxt].
           rewrite nth_map_seq. destruct (l <? S xl)%nat; reflexivity.
        -- rewrite (node_eq_ext sh _ (Some x) None) by assumption. now symmetry.
        -- rewrite Kx. reflexivity.
      * intros k0. unfold ak. rewrite AK. cbn. lia.
      * cbn [sts]. rewrite NS. lia.
      * reflexivity.
      * intros _ j. cbn [sts liw_r liw liw_fk]. rewrite NL. lia.
  - (* KInsertFix *) injection E as <- <- <-. apply sok_same; auto; try solve [intros A0 _ _ R0; destruct (Hrs A0 R0)].
    split; [reflexivity|]. split; [cbn [linv]; auto|]. split; [reflexivity|]. intros y Hy; discriminate.
  - (* KInsertDone *) destruct Hc as [Hx Hxl]. eapply insert_finish_ok; eauto.
  - (* KDelete *)
    destruct found eqn:Ef.
    + unfold softdelete_start in E. injection E as <- <- <-. apply sok_same; auto; try solve [intros A0 _ _ R0; destruct (Hrs A0 R0)].
      split; [reflexivity|]. split; [|split; [reflexivity|intros y Hy; discriminate]].
      cbn [linv]. destruct (node_eq_true _ _ _ (eq_sym Hf)) as (A & B & C).
      assert (Hn : pub sh (succ_at b 0)) by (destruct F4 as [G|[G|G]]; try contradiction; exact G).
      split; [split; [exact Hn|exact C]|]. split; [discriminate|].
      intros l Hl Hl2. rewrite (h_nl _ H _ (or_intror Hn)) in Hl2. lia.
    + injection E as <- <- <-. apply sok_same; auto; try solve [intros A0 _ _ R0; destruct (Hrs A0 R0)].
  - (* KUnlink *) injection E as <- <- <-. apply sok_same; auto; try solve [intros A0 _ _ R0; destruct (Hrs A0 R0)].
  - (* KSeek *) injection E as <- <- <-. apply sok_same; auto; try solve [intros A0 _ _ R0; destruct (Hrs A0 R0)].
    apply pinv_it; [exact Hp|]. eapply buf_it_ok; exact Hb.
  - (* KIterNext *)
    destruct Hc as (A & B & C).
    destruct (found && Nat.eqb last (succ_at b 0)) eqn:Ec.
    + injection E as <- <- <-. apply andb_true_iff in Ec. destruct Ec as [Ef Ee].
      apply Nat.eqb_eq in Ee. subst found. destruct (node_eq_true _ _ _ Ef) as (G1 & G2 & G3).
      apply sok_same; auto; try solve [intros A0 _ _ R0; destruct (Hrs A0 R0)].
      split; [reflexivity|]. split; [|split; [reflexivity|intros y Hy; discriminate]].
      cbn [linv it_curr]. split; [eapply buf_it_ok; exact Hb|]. split; [congruence|exact G2].
    + eapply next_done_ok; eauto. eapply buf_it_ok; exact Hb.
  - (* KRefresh *) injection E as <- <- <-. apply sok_same; auto; try solve [intros A0 _ _ R0; destruct (Hrs A0 R0)].
    apply pinv_it; [exact Hp|]. eapply buf_it_ok; exact Hb.
Qed.

Ltac inv_step E := injection E as <- <- <-.

Lemma alloc_ok sh p k xl lv (rs : nat -> Prop) :
  HInv sh -> pinv sh p -> (xl <= maxLevel)%nat -> (forall A, rs A -> False) ->
  StepOK sh p (CIns k) None false (fun _ => 0) rs (mkSh (heap sh ++ [mkNd k xl []]) lv (sts sh)) p
         (inl (LFP0 k (KInsert (N sh) xl) buf0)).
Proof.
  intros H Hp Hxl Hrs.
  destruct (eff_alloc sh k xl lv (sts sh) H Hxl) as (HI & X & AK & Hpub & Kn & HN & NS & NL).
  eapply (sok_mk _ _ _ _ _ _ _ _ _ _ _ None None);
    [exact HI|exact X|now left|discriminate|reflexivity| | | | | | |intros A0 _ _ R0; destruct (Hrs A0 R0)].
  - now apply (pinv_ext sh _ None None).
  - split; [reflexivity|]. split; [|split; [reflexivity|]].
    + cbn [linv cont_ok]. split; [apply buf_ok0|]. pose proof (h_len _ H).
      split; [rewrite HN; lia|]. rewrite Kn. cbn [key lvl]. split; [reflexivity|]. split; [reflexivity|].
      split; [rewrite Hpub; intros [R _]; lia|].
      intros l. unfold marked, getnext. rewrite Kn. cbn [nxt]. now destruct l.
    + cbn [own_l own_fk]. intros x Hx. inversion Hx. right. lia.
  - intros k0. unfold ak. rewrite AK. cbn. lia.
  - cbn [sts]. rewrite NS. lia.
  - reflexivity.
  - intros _ j. cbn [sts liw_r liw liw_fk]. rewrite NL. lia.
Qed.

(** reading the level-0 successor of [prev]: it is marked or still below [k] while [A] is linked *)
Lemma resp_read sh A k prev :
  HInv sh -> onchain sh A -> marked sh A 0 = true -> key (node sh A) = k ->
  node_lt sh prev k = true -> gok sh prev -> Resp sh k prev ->
  marked sh (fst (getnext sh prev 0)) 0 = true \/ node_lt sh (fst (getnext sh prev 0)) k = true.
Proof.
  intros H HA HAm HAk Hlt Hg [R|R]; [|exact R].
  destruct (node_lt_cases _ _ _ Hlt) as [Hnt Hk].
  destruct (h_chain _ H) as [c Hc]. apply (onchain_in sh c A Hc) in HA.
  assert (Hpc : hd_id = prev \/ In prev c).
  { destruct (gok_pub_or_hd _ _ Hg Hnt) as [->|[_ [G|G]]]; [now left| |congruence].
    right. now apply (onchain_in sh c prev Hc). }
  destruct (chain_succ sh A H c hd_id Hc prev Hpc HA) as [G|(G1 & G2 & G3)].
  - destruct Hk; [now left|right; lia].
  - left. now rewrite G.
  - right. unfold node_lt.
    destruct (Nat.eqb_spec (fst (getnext sh prev 0)) hd_id); [contradiction|].
    destruct (Nat.eqb_spec (fst (getnext sh prev 0)) tl_id); [contradiction|]. apply Z.ltb_lt. lia.
Qed.

Lemma unlink_stats (l0 : list Z) lvc j : length l0 = S maxLevel -> (lvc <= maxLevel)%nat ->
  nth j (upd_list l0 lvc (-1)) 0 = nth j l0 0 - (if Nat.eqb lvc j then 1 else 0).
Proof.
  intros L Hl. rewrite nth_upd_list, L.
  assert (lvc <? S maxLevel = true)%nat as -> by (apply Nat.ltb_lt; lia).
  rewrite andb_true_r, (Nat.eqb_sym lvc j). destruct (Nat.eqb j lvc); lia.
Qed.

Ltac rs_triv := try solve [intros A0 _ _ R0; cbn [respl] in R0; tauto].

Lemma step_ok tid l p sh sh' p' r :
  HInv sh -> pinv sh p -> linv sh p l -> step tid l p sh = (sh', p', r) ->
  StepOK sh p (cls_l l) (own_l l) (live l) (fun j => liw j l) (fun A => respl sh A l) sh' p' r.
Proof.
  intros H Hp Hl E.
  destruct l as [k want|k want lv|k c b|k c b i prev|k c b i prev curr|k c b i prev curr next
                |k x xl b|k x xl b i|k x xl b i|k x xl b i|k x xl b i|k n i m|k n i m next| |it|it next];
    cbn [step cls_l own_l live linv] in *.
  - (* LLevelLoad *)
    destruct (sl_level sh <? want)%nat eqn:Lw.
    + inv_step E. apply sok_same; auto; rs_triv. apply Nat.ltb_lt in Lw. cbn. auto 6.
    + inv_step E. apply alloc_ok; auto.
  - (* LLevelCas *)
    destruct Hl as [Hw Hlv].
    destruct (Nat.eqb (sl_level sh) lv); cbn [heap sl_level sts] in E; inv_step E; apply alloc_ok; auto; lia.
  - (* LFP0 *)
    inv_step E. destruct Hl as [A B]. apply sok_same; auto.
    + split; [reflexivity|]. split; [|split; [reflexivity|cbn [own_l]; auto]].
      cbn [linv]. auto using gok_hd.
    + intros A0 _ _ (R1 & R2). cbn [respl]. split; [exact R1|]. split; [exact R2|]. left. apply (h_hdm _ H).
  - (* LFP1 *)
    inv_step E. destruct Hl as (A & B & C & D). apply sok_same; auto.
    + split; [reflexivity|]. split; [|split; [reflexivity|cbn [own_l]; auto]].
      cbn [linv]. pose proof (word_pt sh prev i H) as W.
      split; [exact A|]. split; [exact B|]. split; [exact C|]. split; [exact D|].
      split; [now apply pt_gok|]. split; [now apply (pt_ne_hd sh)|]. split; [apply H|apply H].
    + intros A0 Hc0 Hm0 (R1 & R2 & R3). cbn [respl]. split; [exact R1|]. split; [exact R2|]. split; [exact R3|].
      intros ->. eapply resp_read; eauto.
  - (* LFP2 *)
    destruct Hl as (A & B & C & D & F & G & I & T).
    destruct (getnext sh curr i) as [next deleted] eqn:W.
    pose proof (word_pt sh curr i H) as Wp. pose proof (h_edge _ H curr i) as We.
    pose proof (h_tow _ H curr i) as Wt. rewrite W in Wp, We, Wt. cbn [fst] in *.
    destruct deleted.
    + inv_step E. apply sok_same; auto.
      * split; [reflexivity|]. split; [|split; [reflexivity|cbn [own_l]; auto]]. cbn [linv]. auto 12.
      * intros A0 _ _ (R1 & R2 & R3 & _). cbn [respl]. auto.
    + destruct (node_lt sh curr k) eqn:Lt.
      * inv_step E. apply sok_same; auto.
        -- split; [reflexivity|]. split; [|split; [reflexivity|cbn [own_l]; auto]]. cbn [linv].
           split; [exact A|]. split; [exact B|]. split; [exact Lt|]. split; [exact F|].
           split; [now apply pt_gok|]. split; [now apply (pt_ne_hd sh)|]. split; [exact We|exact Wt].
        -- intros A0 Hc0 Hm0 (R1 & R2 & R3 & R4). cbn [respl].
           assert (Rc : Resp sh k curr).
           { left. destruct (marked sh curr 0) eqn:Mc; [|reflexivity]. exfalso.
             destruct (node_lt_cases _ _ _ Lt) as [Ct _]. destruct T as [T|T]; [contradiction|].
             pose proof (h_top _ H curr Mc i T) as G0. unfold marked in G0. rewrite W in G0. discriminate. }
           split; [exact R1|]. split; [exact R2|]. split; [exact Rc|].
           intros ->. pose proof (resp_read sh A0 k curr H Hc0 Hm0 R2 Lt F Rc) as G0. now rewrite W in G0.
      * assert (Hb' : buf_ok sh k (set_buf b i prev curr)) by (apply buf_ok_set; auto).
        destruct i as [|j].
        -- apply (fp_done_ok sh p k c (set_buf b 0 prev curr) (node_eq sh curr k)); auto.
           ++ destruct (buf_set0 sh k b prev curr A) as [_ ->]. reflexivity.
           ++ intros A0 (_ & _ & _ & R4). destruct (R4 eq_refl) as [R|R]; [|congruence].
              unfold marked in R. rewrite W in R. discriminate.
        -- inv_step E. apply sok_same; auto.
           ++ split; [reflexivity|]. split; [|split; [reflexivity|cbn [own_l]; auto]]. cbn [linv]. auto.
           ++ intros A0 _ _ (R1 & R2 & R3 & _). cbn [respl]. auto.
  - (* LFPH *)
    destruct Hl as (A & B & C & D & F & G & I & W).
    destruct (node_lt_cases _ _ _ C) as [Cn Ck].
    pose proof (gok_pub_or_hd _ _ D Cn) as Dp.
    destruct (dcas sh prev i curr next false) as [sh1 ok] eqn:Ed.
    destruct (dcas_spec _ _ _ _ _ _ _ _ Ed) as [(-> & Wp & ->)|(-> & ->)].
    + assert (Hnx : pt sh next).
      { pose proof (word_pt sh curr i H) as G0. now rewrite W in G0. }
      assert (Hnt : tow sh i next).
      { pose proof (h_tow _ H curr i) as G0. now rewrite W in G0. }
      assert (Hfin : forall s1 s2, HInv s1 -> ext sh s1 None None -> heap s2 = heap s1 ->
                (forall k0, ak s1 k0 = ak sh k0) ->
                st_soft (sts s2) - st_soft (sts sh) = nsoft s1 - nsoft sh ->
                length (st_nodes (sts s2)) = length (st_nodes (sts sh)) ->
                (length (st_nodes (sts sh)) = S maxLevel -> forall j,
                   nth j (st_nodes (sts s2)) 0 - nth j (st_nodes (sts sh)) 0 = nlev s1 j - nlev sh j) ->
                StepOK sh p (cls_fk k c) (own_fk c) (live_fk c) (liw_fk c)
                       (fun A0 => respl sh A0 (LFPH k c b i prev curr next)) s2 p (inl (LFP1 k c b i prev))).
      { intros s1 s2 H1 X Hh AK S1 S2 S3.
        eapply (sok_mk _ _ _ _ _ _ _ s1 _ _ _ None None);
          [exact H1|exact X|now left|discriminate|exact Hh| | | |exact S1|exact S2| |].
        - now apply (pinv_ext sh _ None None).
        - split; [reflexivity|]. split; [|split; [reflexivity|cbn [own_l]; auto]].
          apply (linv_ext sh s1 None None H X p (LFP1 k c b i prev)); [discriminate|]. cbn [linv]. auto.
        - intros k0. rewrite AK. cbn [lv_r live]. lia.
        - intros L j. specialize (S3 L j). cbn [liw_r liw]. lia.
        - intros A0 Hc0 Hm0 (R1 & R2 & R3). cbn [respl].
          assert (Hc1 : onchain sh A0).
          { destruct (e_chain _ _ _ _ X A0 Hc0) as [G0|G0]; [exact G0|discriminate]. }
          split; [exact R1|]. split.
          + rewrite <- R2. apply (key_ext sh s1 None None H X). right; right.
            split; [|now left]. destruct Hc1 as (c0 & Hp0 & Hi0). apply (path_in_pub sh H c0 _ Hp0 _ Hi0).
          + apply (e_resp _ _ _ _ X); auto. exists A0. auto. }
      destruct i as [|j].
      * destruct (eff_unlink0 sh prev curr next H Dp Wp W) as (HI & X & Hpub & AK & NS & NL).
        inv_step E. eapply Hfin; [exact HI|exact X|reflexivity| | | |].
        -- intros k0. unfold ak. now rewrite AK.
        -- cbn. rewrite NS. lia.
        -- cbn [with_sts sts st_add_nodes st_nodes st_add_soft]. apply upd_list_length.
        -- intros L j. cbn [with_sts sts st_add_nodes st_nodes st_add_soft set_next].
           rewrite (unlink_stats _ _ j L) by apply (h_lvl _ (same_HInv _ _ eq_refl HI)).
           rewrite NL, lvl_set_next. lia.
      * assert (Q1 : marked sh prev (S j) = false) by (unfold marked; now rewrite Wp).
        assert (Q3 : nle sh (S j) prev next) by (eapply nle_through; eauto).
        destruct (eff_upper sh prev (S j) next false H (le_n_S _ _ (Nat.le_0_l j)) Dp (fun _ => eq_refl) Q1 Hnx Hnt Q3)
          as (HI & X & AK & Hpub & NS & NL).
        inv_step E. eapply Hfin; [exact HI|exact X|reflexivity| | | |].
        -- intros k0. unfold ak. now rewrite AK.
        -- cbn. rewrite NS. lia.
        -- reflexivity.
        -- intros _ j0. cbn. rewrite NL. lia.
    + inv_step E. apply sok_same; auto.
      * split; [reflexivity|]. split; [|split; [reflexivity|cbn [own_l]; auto]]. cbn [linv]. auto.
      * intros A0 _ _ (R1 & R2 & _). cbn [respl]. auto.
  - (* LInsPub *)
    destruct Hl as (A & B & C & D).
    pose proof A as (_ & _ & Fb). destruct (Fb 0%nat) as (F1 & F2 & F3 & F4 & F5).
    destruct (node_lt_cases _ _ _ F1) as [Cn Ck].
    pose proof (gok_pub_or_hd _ _ F3 Cn) as Dp.
    destruct B as (R & K & Lv & P & M).
    destruct (dcas sh (pred_at b 0) 0 (succ_at b 0) x false) as [sh1 ok] eqn:Ed.
    destruct (dcas_spec _ _ _ _ _ _ _ _ Ed) as [(-> & Wp & ->)|(-> & ->)].
    + assert (Hxw : getnext sh x 0 = (succ_at b 0, false)).
      { unfold getnext. rewrite D. now rewrite nth_map_seq. }
      assert (Hxl : length (nxt (node sh x)) = S (lvl (node sh x))).
      { rewrite D, map_length, seq_length. now rewrite Lv. }
      assert (Hle : nle sh 0 (pred_at b 0) x).
      { unfold nle, klt. cbn [Nat.eqb]. destruct Ck; auto. right; right. lia. }
      destruct (eff_pub0 sh (pred_at b 0) (succ_at b 0) x H Dp Wp R P Hxw Hxl Hle) as (HI & X & Hpub & AK & NS & NL).
      set (sh1 := set_next sh (pred_at b 0) 0 (x, false)) in *.
      assert (Hx1 : pubk sh1 k x).
      { split; [apply Hpub; now right|]. unfold sh1. now rewrite key_set_next. }
      assert (Hak : forall k0, ak sh1 k0 - ak sh k0 = (1 - 0) * clsw k0 (CIns k)).
      { intros k0. rewrite AK, K. cbn [clsw]. destruct (k =? k0); lia. }
      destruct xl as [|xl'].
      * unfold insert_finish in E. inv_step E.
        eapply (sok_mk _ _ _ _ _ _ _ sh1 _ _ _ (Some x) None);
          [exact HI|exact X|now right|discriminate|reflexivity| |exact I|exact Hak| | | |].
        -- apply pinv_cons; [now apply (pinv_ext sh _ (Some x) None)|exact Hx1].
        -- cbn. rewrite NS. lia.
        -- cbn [with_sts sts st_add_nodes st_nodes]. apply upd_list_length.
        -- intros L j. cbn [with_sts sts st_add_nodes st_add_alloc st_nodes liw_r liw]. rewrite nth_upd_list.
           replace (st_nodes (sts sh1)) with (st_nodes (sts sh)) by reflexivity. rewrite L, NL, Lv.
           cbn [Nat.ltb Nat.leb andb]. rewrite andb_true_r, (Nat.eqb_sym 0 j). destruct (Nat.eqb j 0); lia.
        -- intros A0 _ _ [].
      * inv_step E.
        eapply (sok_mk _ _ _ _ _ _ _ sh1 _ _ _ (Some x) None);
          [exact HI|exact X|now right|discriminate|reflexivity| | |exact Hak| | | |].
        -- now apply (pinv_ext sh _ (Some x) None).
        -- split; [reflexivity|]. split; [|split; [reflexivity|discriminate]].
           cbn [linv]. split; [now apply (buf_ok_ext sh _ (Some x) None)|]. split; [exact Hx1|].
           split; [unfold sh1; now rewrite lvl_set_next|lia].
        -- cbn. rewrite NS. lia.
        -- reflexivity.
        -- intros _ j. cbn [liw_r liw]. replace (st_nodes (sts sh1)) with (st_nodes (sts sh)) by reflexivity.
           rewrite NL, Lv. unfold b2z. lia.
        -- intros A0 _ _ [].
    + inv_step E. apply sok_same; auto; rs_triv.
      split; [reflexivity|]. split; [|split; [reflexivity|cbn [own_l own_fk]; auto]].
      cbn [linv cont_ok]. split; [exact A|]. repeat split; auto; lia.
  - (* LInsSucc *)
    destruct Hl as (A & B). destruct B as ((Bp & Bk) & Bl & Bi).
    destruct (snd (getnext sh (succ_at b i) i)).
    + inv_step E. apply sok_same; auto; rs_triv.
      split; [reflexivity|]. split; [|split; [reflexivity|discriminate]]. cbn [linv cont_ok]. unfold pubx, pubk. auto.
    + inv_step E. apply sok_same; auto; rs_triv.
      split; [reflexivity|]. split; [|split; [reflexivity|discriminate]]. cbn [linv]. unfold pubx, pubk. auto.
  - (* LInsOwn *)
    destruct Hl as (A & B). destruct B as ((Bp & Bk) & Bl & Bi).
    pose proof A as (_ & _ & Fb). destruct (Fb i) as (F1 & F2 & F3 & F4 & F5).
    destruct (getnext sh x i) as [nn deleted] eqn:W.
    destruct deleted.
    + eapply insert_finish_ok; eauto. split; assumption.
    + destruct (Nat.eqb nn (succ_at b i)).
      * inv_step E. apply sok_same; auto; rs_triv.
        split; [reflexivity|]. split; [|split; [reflexivity|discriminate]]. cbn [linv]. unfold pubx, pubk. auto.
      * destruct (dcas sh x i nn (succ_at b i) false) as [sh1 ok] eqn:Ed.
        destruct (dcas_spec _ _ _ _ _ _ _ _ Ed) as [(-> & Wp & ->)|(-> & ->)].
        -- destruct (node_nlt_cases _ _ _ F2) as [G1 G2].
           assert (Q1 : marked sh x i = false) by (unfold marked; now rewrite W).
           assert (Q2 : pt sh (succ_at b i)) by now apply gok_pt.
           assert (Q3 : nle sh i x (succ_at b i)).
           { unfold nle, klt. destruct G2 as [G2|G2]; auto. right; right.
             destruct (Nat.eqb_spec i 0); lia. }
           destruct (eff_upper sh x i (succ_at b i) false H (proj1 Bi) (or_intror Bp) (fun _ => eq_refl) Q1 Q2 F5 Q3)
             as (HI & X & AK & Hpub & NS & NL).
           inv_step E.
           eapply (sok_mk _ _ _ _ _ _ _ _ _ _ _ None None);
             [exact HI|exact X|now left|discriminate|reflexivity| | | | | | |intros A0 _ _ []].
           ++ now apply (pinv_ext sh _ None None).
           ++ split; [reflexivity|]. split; [|split; [reflexivity|discriminate]].
              apply (linv_ext sh _ None None H X p (LInsLink k x xl b i)); [discriminate|]. cbn [linv].
              unfold pubx, pubk. auto.
           ++ intros k0. unfold ak. rewrite AK. cbn [lv_r live b2z]. lia.
           ++ cbn. rewrite NS. lia.
           ++ reflexivity.
           ++ intros _ j. cbn. rewrite NL. lia.
        -- eapply insert_finish_ok; eauto. split; assumption.
  - (* LInsLink *)
    destruct Hl as (A & B). destruct B as ((Bp & Bk) & Bl & Bi).
    pose proof A as (_ & _ & Fb). destruct (Fb i) as (F1 & F2 & F3 & F4 & F5).
    destruct (node_lt_cases _ _ _ F1) as [Cn Ck].
    pose proof (gok_pub_or_hd _ _ F3 Cn) as Dp.
    destruct (dcas sh (pred_at b i) i (succ_at b i) x false) as [sh1 ok] eqn:Ed.
    destruct (dcas_spec _ _ _ _ _ _ _ _ Ed) as [(-> & Wp & ->)|(-> & ->)].
    + assert (Q1 : marked sh (pred_at b i) i = false) by (unfold marked; now rewrite Wp).
      assert (Q2 : pt sh x) by now right.
      assert (Q3 : nle sh i (pred_at b i) x).
      { unfold nle. destruct Ck as [Ck|Ck]; auto. right; right. apply (klt_lt_le i _ k); lia. }
      assert (Q4 : tow sh i x).
      { right. rewrite (h_nl _ H x (or_intror Bp)). lia. }
      destruct (eff_upper sh (pred_at b i) i x false H (proj1 Bi) Dp (fun _ => eq_refl) Q1 Q2 Q4 Q3)
        as (HI & X & AK & Hpub & NS & NL).
      set (sh1 := set_next sh (pred_at b i) i (x, false)) in *.
      assert (Hx1 : pubk sh1 k x) by (apply (pubk_ext sh _ None None H X); split; assumption).
      assert (Hl1 : lvl (node sh1 x) = xl) by (unfold sh1; now rewrite lvl_set_next).
      inv_step E.
      eapply (sok_mk _ _ _ _ _ _ _ sh1 _ _ _ None None);
        [exact HI|exact X|now left|discriminate|reflexivity| | | | | | |intros A0 _ _ []].
      * now apply (pinv_ext sh _ None None).
      * split; [reflexivity|]. split; [|split; [reflexivity|discriminate]].
        cbn [linv]. split; [now apply (buf_ok_ext sh _ None None)|]. split; [exact Hx1|]. split; [exact Hl1|lia].
      * intros k0. unfold ak. rewrite AK. cbn [lv_r live b2z]. lia.
      * cbn. rewrite NS. lia.
      * reflexivity.
      * intros _ j. cbn. rewrite NL. lia.
    + inv_step E. apply sok_same; auto; rs_triv.
      split; [reflexivity|]. split; [|split; [reflexivity|discriminate]]. cbn [linv cont_ok]. unfold pubx, pubk. auto.
  - (* LInsCheck *)
    destruct Hl as (A & B). destruct B as ((Bp & Bk) & Bl & Bi).
    destruct (snd (getnext sh x i)).
    + inv_step E. apply sok_same; auto; rs_triv.
      split; [reflexivity|]. split; [|split; [reflexivity|discriminate]]. cbn [linv cont_ok]. unfold pubk. auto.
    + destruct (i <? xl)%nat eqn:Li.
      * inv_step E. apply Nat.ltb_lt in Li. apply sok_same; auto; rs_triv.
        split; [reflexivity|]. split; [|split; [reflexivity|discriminate]]. cbn [linv]. unfold pubx, pubk.
        split; [exact A|]. split; [auto|]. split; [exact Bl|lia].
      * eapply insert_finish_ok; eauto. split; assumption.
  - (* LSdLoad *)
    destruct Hl as (A & B & Ab).
    destruct (getnext sh n i) as [next deleted] eqn:W.
    destruct deleted.
    + destruct i as [|j].
      * destruct m.
        -- inv_step E. apply sok_same; auto.
           ++ split; [reflexivity|]. split; [|split; [reflexivity|discriminate]]. cbn [linv cont_ok].
              split; [apply buf_ok0|exact I].
           ++ intros A0 _ _ (_ & <-). cbn [respl isU]. split; [exact I|apply A].
        -- inv_step E. apply sok_same; auto. intros A0 _ _ (R & _). discriminate.
      * inv_step E. apply sok_same; auto.
        split; [reflexivity|]. split; [|split; [reflexivity|discriminate]]. cbn [linv].
        split; [exact A|]. split; [intros Hm; destruct (B Hm); discriminate|].
        intros l Hl Hl2. destruct (Nat.eq_dec l (S j)) as [->|]; [unfold marked; now rewrite W|].
        apply Ab; [lia|exact Hl2].
    + inv_step E. apply sok_same; auto.
      * split; [reflexivity|]. split; [|split; [reflexivity|discriminate]]. cbn [linv].
        split; [exact A|]. split; [|exact Ab].
        destruct m; [|reflexivity]. destruct (B eq_refl) as [B1 ->]. unfold marked in B1. rewrite W in B1. discriminate.
      * intros A0 _ _ (-> & _). destruct (B eq_refl) as [B1 ->]. unfold marked in B1. rewrite W in B1. discriminate.
  - (* LSdCas *)
    destruct Hl as (A & -> & Ab). destruct A as [Ap Ak].
    destruct (dcas sh n i next next true) as [sh1 ok] eqn:Ed.
    destruct (dcas_spec _ _ _ _ _ _ _ _ Ed) as [(-> & Wp & ->)|(-> & ->)].
    + destruct i as [|j]; cbn [andb Nat.eqb] in E.
      * assert (Hup : forall l, (0 < l < length (nxt (node sh n)))%nat -> marked sh n l = true).
        { intros l [L1 L2]. now apply Ab. }
        destruct (eff_mark0 sh n next H Ap Wp Hup) as (HI & X & Hpub & Mk & AK & NS & NL).
        inv_step E.
        eapply (sok_mk _ _ _ _ _ _ _ _ _ _ _ None (Some n));
          [exact HI|exact X|now left| |reflexivity| | | | | | |intros A0 _ _ []].
        -- intros A0 E0. injection E0 as <-. eexists. reflexivity.
        -- now apply (pinv_ext sh _ None (Some n)).
        -- split; [reflexivity|]. split; [|split; [reflexivity|discriminate]]. cbn [linv].
           split; [apply (pubk_ext sh _ None (Some n) H X); split; assumption|]. split; [intros _; auto|].
           apply (above_ext sh _ None (Some n) X); assumption.
        -- intros k0. rewrite AK, Ak. cbn [lv_r live b2z clsw]. destruct (k =? k0); lia.
        -- cbn. rewrite NS. lia.
        -- reflexivity.
        -- intros _ j. cbn. rewrite NL. lia.
      * destruct (pub_ne _ _ Ap) as [Nh Nt].
        assert (Q0 : n = hd_id -> true = false) by (intros; contradiction).
        assert (Q1 : marked sh n (S j) = false) by (unfold marked; now rewrite Wp).
        assert (Q2 : pt sh next).
        { pose proof (word_pt sh n (S j) H) as G. now rewrite Wp in G. }
        assert (Q3 : nle sh (S j) n next).
        { pose proof (h_edge _ H n (S j)) as G. now rewrite Wp in G. }
        assert (Q4 : tow sh (S j) next).
        { pose proof (h_tow _ H n (S j)) as G. now rewrite Wp in G. }
        destruct (eff_upper sh n (S j) next true H (le_n_S _ _ (Nat.le_0_l j)) (or_intror Ap) Q0 Q1 Q2 Q4 Q3)
          as (HI & X & AK & Hpub & NS & NL).
        inv_step E.
        eapply (sok_mk _ _ _ _ _ _ _ _ _ _ _ None None);
          [exact HI|exact X|now left|discriminate|reflexivity| | | | | | |intros A0 _ _ []].
        -- now apply (pinv_ext sh _ None None).
        -- split; [reflexivity|]. split; [|split; [reflexivity|discriminate]].
           apply (linv_ext sh _ None None H X p (LSdLoad k n (S j) false)); [discriminate|]. cbn [linv].
           split; [split; assumption|]. split; [discriminate|exact Ab].
        -- intros k0. unfold ak. rewrite AK. cbn [lv_r live b2z]. lia.
        -- cbn. rewrite NS. lia.
        -- reflexivity.
        -- intros _ j0. cbn. rewrite NL. lia.
    + cbn [andb] in E. inv_step E. apply sok_same; auto; rs_triv.
      split; [reflexivity|]. split; [|split; [reflexivity|discriminate]]. cbn [linv].
      split; [split; assumption|]. split; [discriminate|exact Ab].
  - (* LItFirst *)
    inv_step E. apply sok_same; auto; rs_triv.
    apply pinv_it; [exact Hp|]. pose proof (word_pt sh hd_id 0 H) as W.
    unfold it_ok. cbn [it_prev it_curr]. split; [apply gok_hd|]. split; [now apply pt_gok|].
    split; [discriminate|]. split; [now apply (pt_ne_hd sh)|now left].
  - (* LItNext *)
    destruct Hl as (A & B & C). destruct A as (A1 & A2 & A3 & A4 & A5).
    destruct (getnext sh (it_curr it) 0) as [next deleted] eqn:W.
    pose proof (word_pt sh (it_curr it) 0 H) as Wp. pose proof (h_edge _ H (it_curr it) 0%nat) as We.
    rewrite W in Wp, We. cbn [fst] in *.
    destruct deleted.
    + inv_step E. apply sok_same; auto; rs_triv.
      split; [reflexivity|]. split; [|split; [reflexivity|discriminate]]. cbn [linv]. unfold it_ok. cbn [it_curr it_prev].
      repeat split; auto.
    + eapply (next_done_ok sh p (mkIt (it_curr it) next true)); [exact H|exact Hp| | |intros j; reflexivity|exact E].
      * unfold it_ok. cbn [it_prev it_curr].
        split; [exact A2|]. split; [now apply pt_gok|]. split; [exact C|]. split; [now apply (pt_ne_hd sh)|exact We].
      * intros A0 R0. exact R0.
  - (* LItHelp *)
    destruct Hl as (A & B & W). destruct A as (A1 & A2 & A3 & A4 & A5).
    pose proof (gok_pub_or_hd _ _ A1 A3) as Dp.
    destruct (dcas sh (it_prev it) 0 (it_curr it) next false) as [sh1 ok] eqn:Ed.
    destruct (dcas_spec _ _ _ _ _ _ _ _ Ed) as [(-> & Wp & ->)|(-> & ->)].
    + destruct (eff_unlink0 sh (it_prev it) (it_curr it) next H Dp Wp W) as (HI & X & Hpub & AK & NS & NL).
      assert (Hnx : pt sh next).
      { pose proof (word_pt sh (it_curr it) 0 H) as G0. now rewrite W in G0. }
      assert (Hio : it_ok (set_next sh (it_prev it) 0 (next, false)) (mkIt (it_prev it) next true)).
      { apply (it_ok_ext sh _ None None H X). unfold it_ok. cbn [it_prev it_curr].
        split; [exact A1|]. split; [now apply pt_gok|]. split; [exact A3|]. split; [now apply (pt_ne_hd sh)|].
        eapply nle_through; eauto. }
      destruct (next_done_spec _ _ _ _ _ _ E) as (-> & -> & Hr).
      eapply (sok_mk _ _ _ _ _ _ _ _ _ _ _ None None);
        [exact HI|exact X|now left|discriminate|reflexivity| | | | | | |intros A0 _ _ []].
      * apply pinv_it'; [now apply (pinv_ext sh _ None None)|exact Hio].
      * destruct Hr as [(-> & Hv & Hnt)| -> ]; [|exact I].
        split; [reflexivity|]. split; [|split; [reflexivity|intros y Hy; discriminate]].
        cbn [linv cont_ok p_it it_curr]. split; [apply buf_ok0|]. split; [reflexivity|].
        apply gok_lt; [exact HI|apply Hio].
      * intros k0. unfold ak. rewrite AK. destruct Hr as [(-> & _)| -> ]; [|rewrite it_result_lv]; cbn; lia.
      * cbn. rewrite NS. lia.
      * cbn [with_sts sts st_add_nodes st_nodes st_add_soft]. apply upd_list_length.
      * intros L j. cbn [with_sts sts st_add_nodes st_nodes st_add_soft set_next].
        assert (Hz : liw_r j r = 0) by (destruct Hr as [(-> & _)| -> ]; reflexivity). rewrite Hz. cbn [liw].
        rewrite (unlink_stats _ _ j L) by apply (h_lvl _ (same_HInv _ _ eq_refl HI)).
        rewrite NL, lvl_set_next. lia.
    + inv_step E. apply sok_same; auto; rs_triv.
      split; [reflexivity|]. split; [|split; [reflexivity|discriminate]]. cbn [linv cont_ok].
      split; [apply buf_ok0|]. split; [reflexivity|]. split; [exact B|now apply gok_lt].
Qed.

Definition opw (k : Z) (o : op) : Z := b2z (is_ins k o) - b2z (is_del k o).

Lemma find_node_in p k n : find_node p k = Some n -> In (k, n) (p_nodes p).
Proof.
  unfold find_node. destruct (find (fun e => fst e =? k) (p_nodes p)) as [[k' n']|] eqn:F; [|discriminate].
  cbn. intros E; inversion E; subst. apply find_some in F. destruct F as [Hin Hk]. cbn in Hk.
  apply Z.eqb_eq in Hk. now subst.
Qed.

Lemma begin_ok tid o p sh sh' p' r :
  HInv sh -> pinv sh p -> begin tid o p sh = (sh', p', r) ->
  sh' = sh /\ pinv sh p' /\
  match r with
  | inl l' => linv sh p' l' /\ (forall k, opw k o = clsw k (cls_l l')) /\ live l' = false /\ own_l l' = None
  | inr res => res = RBool true -> forall k, opw k o = 0
  end.
Proof.
  intros H Hp E.
  assert (Hw : forall k k0, (if k =? k0 then 1 else 0) = b2z (k =? k0)) by (intros; now destruct (_ =? _)).
  destruct o as [k want|k|k|k| |k| |k]; cbn [begin] in E.
  - inv_step E. split; [reflexivity|]. split; [exact Hp|]. cbn [linv cls_l live own_l].
    split; [apply Nat.le_min_r|]. split; [|auto]. intros k0. unfold opw. cbn. destruct (k =? k0); reflexivity.
  - inv_step E. split; [reflexivity|]. split; [exact Hp|]. cbn [linv cls_l live own_l cls_fk live_fk own_fk cont_ok].
    split; [split; [apply buf_ok0|exact I]|]. split; [|auto].
    intros k0. unfold opw. cbn. destruct (k =? k0); reflexivity.
  - destruct (find_node p k) as [n|] eqn:F.
    + unfold softdelete_start in E. inv_step E. split; [reflexivity|]. split; [exact Hp|].
      cbn [linv cls_l live own_l].
      assert (Hn : pubk sh k n) by (apply (proj2 Hp k n); now apply find_node_in).
      split; [split; [exact Hn|split; [discriminate|]]|].
      { intros l Hl Hl2. rewrite (h_nl _ H n (or_intror (proj1 Hn))) in Hl2. lia. }
      split; [|auto].
      intros k0. unfold opw. cbn. destruct (k =? k0); reflexivity.
    + inv_step E. split; [reflexivity|]. split; [exact Hp|]. discriminate.
  - inv_step E. split; [reflexivity|]. split; [exact Hp|]. cbn [linv cls_l live own_l cls_fk live_fk own_fk cont_ok].
    split; [split; [apply buf_ok0|exact I]|]. split; [|auto]. intros k0. reflexivity.
  - inv_step E. split; [reflexivity|]. split; [exact Hp|]. cbn [linv cls_l live own_l].
    split; [exact I|]. split; [|auto]. intros k0. reflexivity.
  - inv_step E. split; [reflexivity|]. split; [exact Hp|]. cbn [linv cls_l live own_l cls_fk live_fk own_fk cont_ok].
    split; [split; [apply buf_ok0|exact I]|]. split; [|auto]. intros k0. reflexivity.
  - destruct (it_valid (p_it p) && negb (Nat.eqb (it_curr (p_it p)) tl_id)) eqn:V.
    + inv_step E. split; [reflexivity|]. split; [exact Hp|]. cbn [linv cls_l live own_l].
      apply andb_true_iff in V. destruct V as [_ V]. apply negb_true_iff, Nat.eqb_neq in V.
      split; [split; [apply Hp|split; [reflexivity|exact V]]|]. split; [|auto]. intros k0. reflexivity.
    + inv_step E. split; [reflexivity|]. split; [exact Hp|]. discriminate.
  - inv_step E. split; [reflexivity|]. split; [split; [apply Hp|apply Hp]|]. intros _ k0. reflexivity.
Qed.

(** * The global invariant *)

Definition cnt (k : Z) (prog : list op) (res : list result) : Z :=
  count_ok (is_ins k) prog res - count_ok (is_del k) prog res.

Definition wt (k : Z) (prog : list op) (t : thr) : Z :=
  cnt k prog (done t) + match cur t with Some l => b2z (live l) * clsw k (cls_l l) | None => 0 end.

(** alignment of a thread with its program *)
Definition tal (prog : list op) (t : thr) : Prop :=
  match cur t with
  | None => exists pre, prog = pre ++ todo t /\ length pre = length (done t)
  | Some l => exists pre o, prog = pre ++ o :: todo t /\ length pre = length (done t) /\
                            (forall k, opw k o = clsw k (cls_l l))
  end.

Definition tinv sh (prog : list op) (t : thr) : Prop :=
  pinv sh (pers_of t) /\ tal prog t /\
  match cur t with Some l => linv sh (pers_of t) l | None => True end.

Fixpoint sum2 (f : list op -> thr -> Z) (progs : list (list op)) (ts : list thr) : Z :=
  match progs, ts with
  | p :: ps, t :: r => f p t + sum2 f ps r
  | _, _ => 0
  end.

Lemma sum2_upd f progs : forall ts i t t', nth_error ts i = Some t -> (i < length progs)%nat ->
  sum2 f progs (upd_th i t' ts) = sum2 f progs ts - f (nth i progs []) t + f (nth i progs []) t'.
Proof.
  induction progs as [|p ps IH]; intros ts i t t' Hn Hi; [cbn in Hi; lia|].
  destruct ts as [|t0 r]; [destruct i; discriminate|].
  destruct i as [|i]; cbn [upd_th sum2 nth] in *.
  - inversion Hn; subst. lia.
  - cbn [nth_error length] in *. rewrite (IH r i t t' Hn) by lia. lia.
Qed.

Definition liwo (j : nat) (o : option local) : Z := match o with Some l => liw j l | None => 0 end.
Definition resp_t sh (A : nat) (t : thr) : Prop :=
  match cur t with Some l => respl sh A l | None => False end.

Record Inv (progs : list (list op)) (y : sysT) : Prop := {
  i_h : HInv (sh y);
  i_len : length (ths y) = length progs;
  i_th : forall i t, nth_error (ths y) i = Some t -> tinv (sh y) (nth i progs []) t;
  i_own : forall i j ti tj x, nth_error (ths y) i = Some ti -> nth_error (ths y) j = Some tj ->
          own (cur ti) = Some x -> own (cur tj) = Some x -> i = j;
  i_acc : forall k, sum2 (wt k) progs (ths y) = ak (sh y) k;
  (* statistics *)
  i_soft : st_soft (sts (sh y)) = nsoft (sh y);
  i_slen : length (st_nodes (sts (sh y))) = S maxLevel;
  i_nodes : forall j, nth j (st_nodes (sts (sh y))) 0 + sumZ (fun t => liwo j (cur t)) (ths y) = nlev (sh y) j;
  (* every marked node still linked at level 0 has a thread that will unlink it *)
  i_resp : forall A, onchain (sh y) A -> marked (sh y) A 0 = true ->
           exists i t, nth_error (ths y) i = Some t /\ resp_t (sh y) A t
}.

Lemma combine_app {A B} (a1 a2 : list A) (b1 b2 : list B) : length a1 = length b1 ->
  combine (a1 ++ a2) (b1 ++ b2) = combine a1 b1 ++ combine a2 b2.
Proof.
  revert b1. induction a1 as [|x r IH]; intros [|y s] L; cbn in *; try lia; [reflexivity|].
  f_equal. apply IH. lia.
Qed.

Lemma count_ok_snoc f pre o rest dn res : length pre = length dn ->
  count_ok f (pre ++ o :: rest) (dn ++ [res]) =
  count_ok f (pre ++ o :: rest) dn + b2z (f o && match res with RBool true => true | _ => false end).
Proof.
  intros L. unfold count_ok.
  rewrite (combine_app pre (o :: rest) dn [res] L).
  replace (combine (pre ++ o :: rest) dn) with (combine pre dn).
  2:{ rewrite <- (app_nil_r dn) at 2. rewrite (combine_app pre (o :: rest) dn [] L). cbn. now rewrite app_nil_r. }
  cbn [combine]. rewrite combine_nil, filter_app, app_length. cbn [filter fst snd].
  destruct (f o && match res with RBool true => true | _ => false end); cbn [length b2z]; lia.
Qed.

Lemma cnt_snoc k pre o rest dn res : length pre = length dn ->
  cnt k (pre ++ o :: rest) (dn ++ [res]) =
  cnt k (pre ++ o :: rest) dn + match res with RBool true => opw k o | _ => 0 end.
Proof.
  intros L. unfold cnt. rewrite !count_ok_snoc by exact L. unfold opw.
  destruct res as [[|]|]; rewrite ?andb_true_r, ?andb_false_r; cbn [b2z]; lia.
Qed.

Lemma own_lt sh p l x : linv sh p l -> own_l l = Some x -> (x < N sh)%nat.
Proof.
  destruct l; cbn [linv own_l]; try discriminate; intros Hl Ho;
    try (destruct c; cbn [own_fk] in Ho; try discriminate; inversion Ho; subst; cbn [cont_ok] in Hl).
  - destruct Hl as (_ & (R & _)). lia.
  - destruct Hl as (_ & (R & _) & _). lia.
  - destruct Hl as (_ & (R & _) & _). lia.
  - destruct Hl as (_ & (R & _) & _). lia.
  - inversion Ho; subst. destruct Hl as (_ & (R & _) & _). lia.
Qed.

Lemma nth_lt {A} (l : list A) i t : nth_error l i = Some t -> (i < length l)%nat.
Proof. intros H. apply nth_error_Some. congruence. Qed.

Lemma tinv_ext sh sh' ex mk prog t :
  HInv sh -> ext sh sh' ex mk -> (forall x, own (cur t) = Some x -> ex <> Some x) ->
  tinv sh prog t -> tinv sh' prog t.
Proof.
  intros H X Ho (A & B & C). split; [now apply (pinv_ext sh sh' ex mk)|]. split; [exact B|].
  destruct (cur t) as [l|]; [|exact I]. apply (linv_ext sh sh' ex mk H X); [exact Ho|exact C].
Qed.

Lemma own_unmarked sh p l x : linv sh p l -> own_l l = Some x -> marked sh x 0 = false.
Proof.
  destruct l; cbn [linv own_l]; try discriminate; intros Hl Ho;
    try (destruct c; cbn [own_fk] in Ho; try discriminate; inversion Ho; subst; cbn [cont_ok] in Hl).
  - destruct Hl as (_ & (_ & _ & _ & _ & M)). apply M.
  - destruct Hl as (_ & (_ & _ & _ & _ & M) & _). apply M.
  - destruct Hl as (_ & (_ & _ & _ & _ & M) & _). apply M.
  - destruct Hl as (_ & (_ & _ & _ & _ & M) & _). apply M.
  - inversion Ho; subst. destruct Hl as (_ & (_ & _ & _ & _ & M) & _). apply M.
Qed.

(** responsibility is stable under the steps of other threads while the node stays linked *)
Lemma respl_ext sh sh' ex mk p l A :
  HInv sh -> ext sh sh' ex mk -> linv sh p l -> onchain sh A -> marked sh A 0 = true ->
  respl sh A l -> respl sh' A l.
Proof.
  intros H X Hl Hc Hm.
  assert (HA : pub sh A).
  { destruct Hc as (c0 & Hp0 & Hi0). apply (path_in_pub sh H c0 _ Hp0 _ Hi0). }
  assert (Hk : key (node sh' A) = key (node sh A)).
  { apply (key_ext sh sh' ex mk H X). right; now right. }
  assert (Hex : forall k, key (node sh A) = k -> exists A0, key (node sh A0) = k /\ onchain sh A0 /\ marked sh A0 0 = true).
  { intros k Ek. exists A. auto. }
  destruct l; cbn [respl linv] in *; auto.
  - intros (R1 & R2). rewrite Hk. auto.
  - destruct Hl as (_ & _ & L1 & L2). intros (R1 & R2 & R3). rewrite Hk. split; [exact R1|]. split; [exact R2|].
    apply (e_resp _ _ _ _ X); auto.
  - destruct Hl as (_ & _ & L1 & L2 & L3 & _). intros (R1 & R2 & R3 & R4). rewrite Hk.
    split; [exact R1|]. split; [exact R2|]. split; [apply (e_resp _ _ _ _ X); auto|].
    intros Ei. destruct (R4 Ei) as [G|G].
    + left. unfold marked in *. now rewrite (e_mark _ _ _ _ X curr 0%nat G).
    + right. now rewrite (node_lt_ext sh sh' ex mk H X).
  - destruct Hl as (_ & _ & L1 & L2 & _). intros (R1 & R2 & R3). rewrite Hk. split; [exact R1|]. split; [exact R2|].
    apply (e_resp _ _ _ _ X); auto.
Qed.

Lemma Inv_upd progs y i t t' s' ex mk :
  Inv progs y -> nth_error (ths y) i = Some t ->
  HInv s' -> ext (sh y) s' ex mk -> (ex = None \/ ex = own (cur t)) ->
  tinv s' (nth i progs []) t' ->
  (forall x, own (cur t') = Some x -> own (cur t) = Some x \/ (N (sh y) <= x)%nat) ->
  (forall k, wt k (nth i progs []) t' - wt k (nth i progs []) t = ak s' k - ak (sh y) k) ->
  st_soft (sts s') - st_soft (sts (sh y)) = nsoft s' - nsoft (sh y) ->
  length (st_nodes (sts s')) = length (st_nodes (sts (sh y))) ->
  (length (st_nodes (sts (sh y))) = S maxLevel -> forall j,
     (nth j (st_nodes (sts s')) 0 + liwo j (cur t')) - (nth j (st_nodes (sts (sh y))) 0 + liwo j (cur t))
     = nlev s' j - nlev (sh y) j) ->
  (forall A, mk = Some A -> resp_t s' A t') ->
  (forall A, onchain s' A -> marked (sh y) A 0 = true -> resp_t (sh y) A t -> resp_t s' A t') ->
  Inv progs (mkSys s' (upd_th i t' (ths y))).
Proof.
  intros HI Ht H' X Hex Ht' Hown Hwt Hso Hsl Hno Hmk Hre.
  pose proof (nth_lt _ _ _ Ht) as Hi.
  assert (Hoth : forall j tj x, j <> i -> nth_error (ths y) j = Some tj -> own (cur tj) = Some x ->
                 ex <> Some x /\ (x < N (sh y))%nat).
  { intros j tj x Hj Hn Ho. split.
    - destruct Hex as [-> | ->]; [discriminate|]. intros E. apply Hj. symmetry.
      apply (i_own _ _ HI i j t tj x Ht Hn); [exact E|exact Ho].
    - destruct (i_th _ _ HI j tj Hn) as (_ & _ & L). destruct (cur tj) as [l|]; [|discriminate].
      eapply own_lt; eassumption. }
  constructor; cbn [sh ths].
  - exact H'.
  - rewrite length_upd. apply HI.
  - intros j tj Hn. destruct (Nat.eq_dec j i) as [->|Hj].
    + rewrite nth_upd_same in Hn by exact Hi. inversion Hn; subst. exact Ht'.
    + rewrite nth_upd_other in Hn by congruence.
      apply (tinv_ext (sh y) s' ex mk); [apply HI|exact X| |apply (i_th _ _ HI); exact Hn].
      intros x Ho. apply (Hoth j tj x Hj Hn Ho).
  - intros j1 j2 t1 t2 x Hn1 Hn2 Ho1 Ho2.
    destruct (Nat.eq_dec j1 i) as [->|Hj1], (Nat.eq_dec j2 i) as [->|Hj2]; try reflexivity.
    + rewrite nth_upd_same in Hn1 by exact Hi. inversion Hn1; subst t1.
      rewrite nth_upd_other in Hn2 by congruence.
      destruct (Hoth j2 t2 x Hj2 Hn2 Ho2) as [_ Hlt].
      destruct (Hown x Ho1) as [G|G]; [|lia].
      exfalso. apply Hj2. symmetry. apply (i_own _ _ HI i j2 t t2 x Ht Hn2 G Ho2).
    + rewrite nth_upd_same in Hn2 by exact Hi. inversion Hn2; subst t2.
      rewrite nth_upd_other in Hn1 by congruence.
      destruct (Hoth j1 t1 x Hj1 Hn1 Ho1) as [_ Hlt].
      destruct (Hown x Ho2) as [G|G]; [|lia].
      exfalso. apply Hj1. symmetry. apply (i_own _ _ HI i j1 t t1 x Ht Hn1 G Ho1).
    + rewrite nth_upd_other in Hn1, Hn2 by congruence.
      apply (i_own _ _ HI j1 j2 t1 t2 x); assumption.
  - intros k. rewrite (sum2_upd (wt k) progs (ths y) i t t' Ht) by (rewrite <- (i_len _ _ HI); exact Hi).
    rewrite (i_acc _ _ HI k). specialize (Hwt k). lia.
  - pose proof (i_soft _ _ HI). lia.
  - rewrite Hsl. apply HI.
  - intros j. rewrite (sumZ_upd _ _ _ _ _ i t t' (ths y) Ht).
    pose proof (i_nodes _ _ HI j). specialize (Hno (i_slen _ _ HI) j). lia.
  - intros A Hc Hm. destruct (e_m0 _ _ _ _ X A Hm) as [Hm0|Hm0].
    + assert (Hc0 : onchain (sh y) A).
      { destruct (e_chain _ _ _ _ X A Hc) as [G|G]; [exact G|]. exfalso.
        destruct Hex as [-> | ->]; [discriminate|].
        destruct (i_th _ _ HI i t Ht) as (_ & _ & L). destruct (cur t) as [l|]; [|discriminate].
        cbn [own] in G. rewrite (own_unmarked _ _ _ _ L G) in Hm0. discriminate. }
      destruct (i_resp _ _ HI A Hc0 Hm0) as (j & tj & Hn & Hr).
      destruct (Nat.eq_dec j i) as [->|Hj].
      * rewrite Ht in Hn. inversion Hn; subst tj. exists i, t'. split; [now apply nth_upd_same|]. now apply Hre.
      * exists j, tj. split; [rewrite nth_upd_other by congruence; exact Hn|].
        unfold resp_t in *. destruct (i_th _ _ HI j tj Hn) as (_ & _ & L).
        destruct (cur tj) as [l|]; [|exact Hr].
        eapply (respl_ext (sh y) s' ex mk); eauto. apply HI.
    + exists i, t'. split; [now apply nth_upd_same|]. now apply Hmk.
Qed.

Lemma begin_liw tid o p sh sh' p' l' : begin tid o p sh = (sh', p', inl l') -> forall j, liw j l' = 0.
Proof.
  intros E j. destruct o; cbn [begin] in E; try (inversion E; subst; reflexivity).
  - destruct (find_node p k); [unfold softdelete_start in E|]; inversion E; subst; reflexivity.
  - destruct (it_valid (p_it p) && negb (Nat.eqb (it_curr (p_it p)) tl_id)); inversion E; subst; reflexivity.
Qed.

Lemma Inv_step progs y i : Inv progs y -> Inv progs (stepS y i).
Proof.
  intros HI. unfold stepS, step_at.
  destruct (nth_error (ths y) i) as [t|] eqn:Ht; [|exact HI].
  destruct (i_th _ _ HI i t Ht) as (Hp & Hal & Hl). unfold tal in Hal.
  destruct (cur t) as [l|] eqn:Hc.
  - cbn [blocked].
    destruct (step i l (pers_of t) (sh y)) as [[s' p'] r] eqn:Es.
    destruct (step_ok i l (pers_of t) (sh y) s' p' r (i_h _ _ HI) Hp Hl Es)
      as [S1 (ex & mk & S2 & S2' & S2'') S3 S4 S5 S6 S7 S8 S9].
    destruct Hal as (pre & o & Epre & Lpre & Hop).
    apply (Inv_upd progs y i t _ s' ex mk HI Ht S1 S2).
    + rewrite Hc. exact S2'.
    + destruct r as [l'|res]; cbn [finish_seg].
      * destruct S4 as (_ & L' & C' & O'). split; [exact S3|]. split; [|exact L'].
        unfold tal. cbn [cur todo done]. exists pre, o. rewrite C'. auto.
      * split; [exact S3|]. split; [|exact I]. unfold tal. cbn [cur todo done].
        exists (pre ++ [o]). rewrite <- app_assoc. cbn [app]. split; [exact Epre|]. rewrite !app_length. cbn. lia.
    + rewrite Hc. cbn [own]. destruct r as [l'|res]; cbn [finish_seg cur own]; [|discriminate].
      destruct S4 as (_ & _ & _ & O'). exact O'.
    + intros k. rewrite (S5 k). unfold wt. rewrite Hc.
      destruct r as [l'|res]; cbn [finish_seg cur done lv_r].
      * destruct S4 as (_ & _ & C' & _). rewrite C'. lia.
      * rewrite Epre, (cnt_snoc k pre o (todo t) (done t) res Lpre). rewrite (Hop k).
        destruct res as [[|]|]; lia.
    + exact S6.
    + exact S7.
    + intros L j. specialize (S8 L j). rewrite Hc. cbn [liwo].
      destruct r as [l'|res]; cbn [finish_seg cur liwo liw_r] in *; lia.
    + intros A EA. destruct (S2'' A EA) as (k & ->). unfold resp_t. cbn [finish_seg cur respl]. auto.
    + intros A HcA HmA Hr. unfold resp_t in *. rewrite Hc in Hr. specialize (S9 A HcA HmA Hr).
      destruct r as [l'|res]; cbn [finish_seg cur]; exact S9.
  - destruct (todo t) as [|o rest] eqn:Htd; [exact HI|]. cbn [blocked_begin].
    destruct (begin i o (pers_of t) (sh y)) as [[s' p'] r] eqn:Eb.
    pose proof Eb as Eb0.
    destruct (begin_ok i o (pers_of t) (sh y) s' p' r (i_h _ _ HI) Hp Eb) as (-> & Hp' & Hr).
    destruct Hal as (pre & Epre & Lpre).
    apply (Inv_upd progs y i t _ (sh y) None None HI Ht (i_h _ _ HI)).
    + now apply same_ext.
    + now left.
    + destruct r as [l'|res]; cbn [finish_seg].
      * destruct Hr as (L' & C' & _). split; [exact Hp'|]. split; [|exact L'].
        unfold tal. cbn [cur todo done]. exists pre, o. auto.
      * split; [exact Hp'|]. split; [|exact I]. unfold tal. cbn [cur todo done].
        exists (pre ++ [o]). rewrite <- app_assoc. cbn [app]. split; [exact Epre|]. rewrite !app_length. cbn. lia.
    + destruct r as [l'|res]; cbn [finish_seg cur own]; [|discriminate].
      destruct Hr as (_ & _ & _ & O'). rewrite O'. discriminate.
    + intros k. unfold wt. rewrite Hc.
      destruct r as [l'|res]; cbn [finish_seg cur done].
      * destruct Hr as (_ & _ & V & _). rewrite V. cbn [b2z]. lia.
      * rewrite Epre, (cnt_snoc k pre o rest (done t) res Lpre).
        destruct res as [[|]|]; try lia. rewrite (Hr eq_refl k). lia.
    + lia.
    + reflexivity.
    + intros _ j. rewrite Hc. cbn [liwo]. destruct r as [l'|res]; cbn [finish_seg cur liwo]; [|lia].
      rewrite (begin_liw _ _ _ _ _ _ _ Eb0 j). lia.
    + discriminate.
    + intros A _ _ Hr0. unfold resp_t in Hr0. rewrite Hc in Hr0. destruct Hr0.
Qed.

(** * Initial state *)

Lemma init_getnext n l : getnext init_sh n l = (tl_id, false).
Proof.
  unfold getnext, node, init_sh. cbn [heap].
  destruct n as [|[|n]]; cbn [nth nxt]; try apply nth_repeat_any. now destruct n, l.
Qed.

Lemma HInv_init : HInv init_sh.
Proof.
  constructor.
  - cbn. lia.
  - intros l. apply init_getnext.
  - intros l. unfold marked. now rewrite init_getnext.
  - intros n l. rewrite init_getnext. right; now left.
  - exists []. cbn [path]. now rewrite init_getnext.
  - intros n l. rewrite init_getnext. now left.
  - intros n [->|[R _]]; [|cbn in R; lia]. reflexivity.
  - intros n l. rewrite init_getnext. now left.
  - intros n Hm. unfold marked in Hm. rewrite init_getnext in Hm. discriminate.
  - intros n. unfold node, init_sh. cbn [heap]. destruct n as [|[|n]]; cbn [nth lvl]; [lia|lia|].
    destruct n; cbn; lia.
Qed.

Lemma chain_of_init : chain_of init_sh = [].
Proof. apply (chain_of_eq init_sh [] HInv_init). cbn [path]. now rewrite init_getnext. Qed.

Lemma ak_init k : ak init_sh k = 0.
Proof.
  unfold ak. rewrite (abs_keys_eq init_sh [] HInv_init); [reflexivity|].
  cbn [path]. now rewrite init_getnext.
Qed.

Lemma count_ok_nil f prog : count_ok f prog [] = 0.
Proof. unfold count_ok. now rewrite combine_nil. Qed.

Lemma Inv_init progs : Inv progs (init progs).
Proof.
  constructor; unfold init; cbn [sh ths].
  - exact HInv_init.
  - now rewrite map_length.
  - intros i t Hn. rewrite nth_error_map in Hn. destruct (nth_error progs i) as [p|] eqn:Ep; [|discriminate].
    inversion Hn; subst t. split; [|split; [|exact I]].
    + split; [|intros k x []]. unfold it_ok, pers0. cbn. unfold gok, nle. repeat split; auto; discriminate.
    + unfold tal. cbn [cur todo done]. exists []. split; [|reflexivity]. cbn [app].
      apply (nth_error_nth _ _ []) in Ep. now rewrite Ep.
  - intros i j ti tj x Hn _ Ho. rewrite nth_error_map in Hn. destruct (nth_error progs i); [|discriminate].
    inversion Hn; subst ti. discriminate.
  - intros k. rewrite ak_init. induction progs as [|p ps IH]; cbn [map sum2]; [reflexivity|].
    rewrite IH. unfold wt, cnt. cbn [done cur]. rewrite !count_ok_nil. lia.
  - unfold nsoft. rewrite chain_of_init. reflexivity.
  - reflexivity.
  - intros j. unfold nlev. rewrite chain_of_init. unfold cntc. cbn [filter length init_sh sts st_nodes].
    rewrite nth_repeat_any. induction progs as [|p ps IH]; cbn [map sumZ cur liwo]; lia.
  - intros A _ Hm. unfold marked in Hm. rewrite init_getnext in Hm. discriminate.
Qed.

Lemma Inv_reach progs sched : Inv progs (runS (init progs) sched).
Proof.
  unfold runS. apply (Inv_run shared local pers op result begin step blocked blocked_begin (Inv progs)).
  - intros y i. apply Inv_step.
  - apply Inv_init.
Qed.

(** * The theorems *)

(** level-0 structure (C13/C14): the chain reaches the tail and is strictly sorted *)
Theorem l0_sorted : stmt_l0_sorted.
Proof.
  intros progs sched y. pose proof (i_h _ _ (Inv_reach progs sched)) as H. fold y in H.
  destruct (h_chain _ H) as [c Hc]. exists c. split; [now apply chain_some|].
  eapply path_sorted; eassumption.
Qed.
Print Assumptions l0_sorted.

(** [stmt_edges_increasing] is still false above level 0, but only because of the words of a node that
    is not linked at that level: the path search of Insert(k) may record at an upper level an
    (unmarked) node of the same key k as successor, that node is then deleted, the search helps it off
    level 0 and does not fail, and the new node is initialised with succs[] — its level-1 word points
    to a node of the SAME key.  (With the second repair of Insert4 the new node is never LINKED in front
    of that node: LInsSucc sees the mark and searches again; the level chains themselves are strictly
    sorted, see [l_strict].)  Thread 0 inserts 10 (node 2, level 1) completely; thread 2 starts
    Insert(10) and passes level 1 (succs[1] = node 2); thread 1 deletes 10 up to (not including) its
    unlink search; thread 2 helps node 2 off level 0 and initialises node 3: word (3,1) = node 2. *)
Definition cex_progs : list (list op) := [[OInsert 10 1]; [ODelete 10]; [OInsert 10 1]].
Definition cex_sched : list nat :=
  repeat 0%nat 13 ++ repeat 2%nat 5 ++ repeat 1%nat 12 ++ repeat 2%nat 5.

Theorem edges_increasing_false : ~ stmt_edges_increasing.
Proof.
  intros S. specialize (S cex_progs cex_sched 3%nat 1%nat).
  vm_compute in S. destruct S as [S|[_ S]]; [lia|lia|discriminate|discriminate].
Qed.
Print Assumptions edges_increasing_false.

(** what does hold: strict at level 0, non-strict above *)
Definition stmt_edges_increasing_weak : Prop :=
  forall progs sched, let y := runS (init progs) sched in
    forall n l, (2 <= n < length (heap (sh y)))%nat -> (l < length (nxt (node (sh y) n)))%nat ->
      let p := fst (getnext (sh y) n l) in
      p = tl_id \/ ((2 <= p < length (heap (sh y)))%nat /\
                    if Nat.eqb l 0 then key (node (sh y) n) < key (node (sh y) p)
                    else key (node (sh y) n) <= key (node (sh y) p)).

Theorem edges_increasing_weak : stmt_edges_increasing_weak.
Proof.
  intros progs sched y n l Hn Hl p. pose proof (i_h _ _ (Inv_reach progs sched)) as H. fold y in H.
  pose proof (h_pp _ H n l) as Hp. fold p in Hp. pose proof (h_edge _ H n l) as He. fold p in He.
  destruct Hp as [Hp|[R _]]; [now left|]. right. split; [exact R|].
  destruct He as [E|[E|E]]; [unfold hd_id in E; lia|unfold tl_id in E; lia|exact E].
Qed.
Print Assumptions edges_increasing_weak.

(** accounting (C13) *)
Lemma sum2_quiescent k progs : forall ts : list thr,
  forallb (th_finished local pers op result) ts = true ->
  sum2 (wt k) progs ts =
  sum_ok (is_ins k) progs (map (fun t => done t) ts) - sum_ok (is_del k) progs (map (fun t => done t) ts).
Proof.
  induction progs as [|p ps IH]; intros [|t r] Hq; cbn [sum2 sum_ok map]; try reflexivity.
  cbn [forallb] in Hq. apply andb_true_iff in Hq. destruct Hq as [Ht Hr].
  rewrite (IH r Hr). unfold wt, cnt. unfold th_finished in Ht.
  destruct (cur t); [discriminate|]. lia.
Qed.

Theorem accounting : stmt_accounting.
Proof.
  intros progs sched y Hq k. pose proof (Inv_reach progs sched) as HI. fold y in HI.
  rewrite <- (sum2_quiescent k progs (ths y) Hq). apply (i_acc _ _ HI k).
Qed.
Print Assumptions accounting.

(** iterator monotonicity (C15) *)
Lemma node_with_sts sh s n : node (with_sts sh s) n = node sh n.
Proof. reflexivity. Qed.

Lemma stepS_cur (y : sysT) i t l : nth_error (ths y) i = Some t -> cur t = Some l ->
  stepS y i = let '(s', p, r) := step i l (pers_of t) (sh y) in
              mkSys s' (upd_th i (finish_seg local pers op result t (todo t) p r) (ths y)).
Proof. unfold stepS, step_at. intros -> ->. reflexivity. Qed.

Lemma stepS_begin (y : sysT) i t o rest : nth_error (ths y) i = Some t -> cur t = None -> todo t = o :: rest ->
  stepS y i = let '(s', p, r) := begin i o (pers_of t) (sh y) in
              mkSys s' (upd_th i (finish_seg local pers op result t rest p r) (ths y)).
Proof. unfold stepS, step_at. intros -> -> ->. reflexivity. Qed.

Theorem iter_monotone : stmt_iter_monotone.
Proof.
  intros progs sched i y y' t t' Ht Ht' Hst Hc' Hv Hnt.
  pose proof (Inv_reach progs sched) as HI. fold y in HI.
  destruct (i_th _ _ HI i t Ht) as (Hp & _ & Hl).
  pose proof (i_h _ _ HI) as H.
  pose proof (nth_lt _ _ _ Ht) as Hi.
  assert (Hch : it_curr (p_it (pers_of t)) <> hd_id) by apply Hp.
  destruct (cur t) as [l|] eqn:Hc.
  - destruct Hst as [Hst|Hst]; [destruct (todo t) as [|[]]; try contradiction; discriminate|].
    unfold y' in *. rewrite (stepS_cur y i t l Ht Hc) in *.
    destruct (step i l (pers_of t) (sh y)) as [[s' p'] r] eqn:Es.
    cbn [sh ths] in *. rewrite nth_upd_same in Ht' by exact Hi. inversion Ht'; subst t'; clear Ht'.
    destruct r as [l'|res]; cbn [finish_seg cur pers_of] in *; [discriminate|].
    destruct l as [| | k c b| k c b j prev| k c b j prev curr| k c b j prev curr next| | | | | | | | |it|it next];
      try contradiction; try (destruct c; try contradiction); cbn [step linv cont_ok] in *.
    + (* LFP0 *) discriminate.
    + discriminate.
    + (* LFP1 *) discriminate.
    + discriminate.
    + (* LFP2, KIterNext *)
      destruct Hl as (A & (B1 & B2 & B3) & C & D & F & G & I0).
      destruct (getnext (sh y) curr j) as [next deleted]. destruct deleted; [discriminate|].
      destruct (node_lt (sh y) curr k) eqn:Lt; [discriminate|].
      destruct j as [|j]; [|discriminate].
      cbn [fp_done] in Es. destruct (buf_set0 (sh y) k b prev curr A) as [Ep Es0].
      rewrite Ep, Es0 in Es.
      destruct (node_eq (sh y) curr k && Nat.eqb last curr); [discriminate|].
      destruct (next_done_spec _ _ _ _ _ _ Es) as (-> & -> & _). cbn [p_it it_curr].
      destruct (node_nlt_cases _ _ _ Lt) as [_ [T|T]]; [now left|right]. rewrite <- B2, <- B1. exact T.
    + (* LFP2, KRefresh *)
      destruct Hl as (A & (B1 & B2) & C & D & F & G & I0).
      destruct (getnext (sh y) curr j) as [next deleted]. destruct deleted; [discriminate|].
      destruct (node_lt (sh y) curr k) eqn:Lt; [discriminate|].
      destruct j as [|j]; [|discriminate].
      cbn [fp_done] in Es. destruct (buf_set0 (sh y) k b prev curr A) as [Ep Es0].
      rewrite Ep, Es0 in Es. injection Es as <- <- _. cbn [set_it p_it it_curr].
      destruct (node_nlt_cases _ _ _ Lt) as [_ [T|T]]; [now left|right]. rewrite <- B1. exact T.
    + (* LFPH *)
      destruct (dcas (sh y) prev j curr next false) as [s1 ok]. destruct ok; discriminate.
    + destruct (dcas (sh y) prev j curr next false) as [s1 ok]. destruct ok; discriminate.
    + (* LItNext *)
      destruct Hl as (A & B & C).
      destruct (getnext (sh y) (it_curr it) 0) as [next deleted] eqn:W. destruct deleted; [discriminate|].
      destruct (next_done_spec _ _ _ _ _ _ Es) as (-> & -> & _). cbn [p_it it_curr].
      pose proof (h_edge _ H (it_curr it) 0%nat) as We. rewrite W in We. cbn [fst] in We.
      rewrite <- B. destruct We as [E|[E|E]]; [congruence|now left|right]. unfold klt in E. cbn in E. lia.
    + (* LItHelp *)
      destruct Hl as (A & B & W).
      destruct (dcas (sh y) (it_prev it) 0 (it_curr it) next false) as [s1 ok] eqn:Ed.
      destruct (dcas_spec _ _ _ _ _ _ _ _ Ed) as [(-> & Wp & ->)|(-> & ->)]; [|discriminate].
      destruct (next_done_spec _ _ _ _ _ _ Es) as (-> & -> & _). cbn [p_it it_curr].
      pose proof (h_edge _ H (it_curr it) 0%nat) as We. rewrite W in We. cbn [fst] in We.
      rewrite <- B. destruct We as [E|[E|E]]; [congruence|now left|right].
      rewrite node_with_sts, key_set_next. unfold klt in E. cbn in E. lia.
  - destruct Hst as [Hst|[]].
    destruct (todo t) as [|o rest] eqn:Htd; [contradiction|]. destruct o; try contradiction.
    unfold y' in *. rewrite (stepS_begin y i t ONext rest Ht Hc Htd) in *. cbn [begin] in *.
    rewrite Hv in Ht'. apply Nat.eqb_neq in Hnt. rewrite Hnt in Ht'. cbn [andb negb sh ths] in Ht'.
    rewrite nth_upd_same in Ht' by exact Hi. inversion Ht'; subst t'. discriminate.
Qed.
Print Assumptions iter_monotone.

(** quiescent state (C14): no marked node linked at level 0, statistics equal the walk *)
Lemma sumZ_zero (f : thr -> Z) (l : list thr) : (forall t, In t l -> f t = 0) -> sumZ f l = 0.
Proof.
  induction l as [|x r IH]; intros Hf; cbn [sumZ]; [reflexivity|].
  rewrite (Hf x (or_introl eq_refl)), IH; [reflexivity|]. intros; apply Hf; now right.
Qed.

Theorem quiescent_clean : stmt_quiescent_clean.
Proof.
  intros progs sched y Hq. pose proof (Inv_reach progs sched) as HI. fold y in HI.
  pose proof (i_h _ _ HI) as H. destruct (h_chain _ H) as [c Hc]. exists c.
  split; [now apply chain_some|].
  assert (Hnone : forall t, In t (ths y) -> cur t = None).
  { intros t Ht. unfold quiescentS, quiescent in Hq. rewrite forallb_forall in Hq. specialize (Hq t Ht).
    unfold th_finished in Hq. destruct (cur t); [discriminate|reflexivity]. }
  assert (Hm : forall n, In n c -> marked (sh y) n 0 = false).
  { intros n Hn. destruct (marked (sh y) n 0) eqn:M; [|reflexivity]. exfalso.
    destruct (i_resp _ _ HI n) as (i & t & Ht & Hr); [now apply (onchain_in (sh y) c n Hc)|exact M|].
    unfold resp_t in Hr. rewrite (Hnone t (nth_error_In _ _ Ht)) in Hr. exact Hr. }
  split; [exact Hm|]. split.
  - rewrite (i_soft _ _ HI). unfold nsoft. rewrite (chain_of_eq _ c H Hc).
    rewrite (cntc_ext_in _ (fun _ => false) c) by exact Hm. unfold cntc.
    clear. induction c; cbn; auto.
  - intros l. pose proof (i_nodes _ _ HI l) as E.
    rewrite sumZ_zero in E by (intros t Ht; now rewrite (Hnone t Ht)).
    unfold nlev in E. rewrite (chain_of_eq _ c H Hc) in E. unfold cntc in E. lia.
Qed.
Print Assumptions quiescent_clean.

(** * Upper levels (C14, stmt_levels) *)

Lemma path_in_pub_l sh l : HInv sh -> forall c a, path sh l a c -> forall m, In m c -> pub sh m.
Proof.
  intros H. induction c as [|x r IH]; intros a Hp m Hin; [destruct Hin|].
  cbn [path] in Hp. destruct Hp as (E & Hx & Hp). destruct Hin as [<-|Hin].
  - pose proof (h_pp _ H a l) as G. rewrite E in G. destruct G as [G|G]; [contradiction|exact G].
  - eapply IH; eassumption.
Qed.

Lemma path_ins_g sh sh' l n x old :
  fst (getnext sh n l) = old -> fst (getnext sh x l) = old -> x <> tl_id -> x <> n ->
  (forall a, a <> n -> fst (getnext sh' a l) = fst (getnext sh a l)) -> fst (getnext sh' n l) = x ->
  forall c a, path sh l a c -> NoDup (a :: c) -> (a = n \/ In n c) ->
  exists c1 c2, c = c1 ++ c2 /\ path sh' l a (c1 ++ x :: c2).
Proof.
  intros Hn Hx Hxt Hxn Ho Hn'. induction c as [|m r IH]; intros a Hp Hnd Hin.
  - destruct Hin as [->|[]]. exists [], []. split; [reflexivity|]. cbn [path app] in *.
    split; [exact Hn'|]. split; [exact Hxt|]. rewrite Ho by exact Hxn. congruence.
  - apply NoDup_cons_iff in Hnd; destruct Hnd as [Hni Hnd']. destruct (Nat.eq_dec a n) as [->|Ha].
    + exists [], (m :: r). split; [reflexivity|].
      cbn [path app] in *. destruct Hp as (E & Hm & Hp).
      split; [exact Hn'|]. split; [exact Hxt|]. split; [rewrite Ho by exact Hxn; congruence|].
      split; [exact Hm|].
      apply (path_avoid sh sh' l n Ho); [exact Hp|intros ->; apply Hni; now left|intros ?; apply Hni; now right].
    + destruct Hin as [Hin|Hin]; [congruence|].
      cbn [path] in Hp. destruct Hp as (E & Hm & Hp).
      destruct (IH m Hp Hnd') as (c1 & c2 & Ec & Hp').
      { destruct Hin; [left; congruence|now right]. }
      exists (m :: c1), c2. split; [cbn; now rewrite Ec|].
      cbn [path app]. rewrite Ho by exact Ha. auto.
Qed.

Lemma path_skip_g sh sh' l n curr next :
  fst (getnext sh n l) = curr -> fst (getnext sh curr l) = next -> curr <> tl_id ->
  (forall a, a <> n -> fst (getnext sh' a l) = fst (getnext sh a l)) -> fst (getnext sh' n l) = next ->
  forall c a, path sh l a c -> NoDup (a :: c) -> (a = n \/ In n c) ->
  exists c1 c2, c = c1 ++ curr :: c2 /\ path sh' l a (c1 ++ c2).
Proof.
  intros Hn Hc Hct Ho Hn'. induction c as [|m r IH]; intros a Hp Hnd Hin.
  - destruct Hin as [->|[]]. cbn [path] in Hp. congruence.
  - apply NoDup_cons_iff in Hnd; destruct Hnd as [Hni Hnd']. destruct (Nat.eq_dec a n) as [->|Ha].
    + cbn [path] in Hp. destruct Hp as (E & Hm & Hp). rewrite Hn in E. subst m.
      exists [], r. split; [reflexivity|]. cbn [app].
      destruct r as [|m2 r2]; cbn [path] in *.
      * congruence.
      * destruct Hp as (E2 & Hm2 & Hp2). split; [congruence|]. split; [exact Hm2|].
        apply (path_avoid sh sh' l n Ho); [exact Hp2| |]; intros ?; apply Hni; cbn; auto.
    + destruct Hin as [Hin|Hin]; [congruence|].
      cbn [path] in Hp. destruct Hp as (E & Hm & Hp).
      destruct (IH m Hp Hnd') as (c1 & c2 & Ec & Hp').
      { destruct Hin; [left; congruence|now right]. }
      exists (m :: c1), c2. split; [cbn; now rewrite Ec|].
      cbn [path app]. rewrite Ho by exact Ha. auto.
Qed.

Definition onl sh l n := exists c, path sh l hd_id c /\ In n c.
(** linked at level [l] now, or once linked and since marked *)
Definition lnk sh l n := onl sh l n \/ marked sh n l = true.
Definition lkd sh l n := n = tl_id \/ lnk sh l n.
Definition rch sh l n := n = hd_id \/ lnk sh l n.

(** strict key order along a pointer (sentinels aside) *)
Definition nlt sh a b := a = hd_id \/ b = tl_id \/ key (node sh a) < key (node sh b).

Lemma nlt_keys sh sh' a b :
  key (node sh' a) = key (node sh a) -> key (node sh' b) = key (node sh b) -> nlt sh a b -> nlt sh' a b.
Proof. unfold nlt. intros -> ->. tauto. Qed.

Record LInv sh : Prop := {
  l_chain : forall l, exists c, path sh l hd_id c /\ NoDup c;
  (* the nodes LINKED at a level are strictly sorted, at every level (second repair of Insert4: a node is
     never linked in front of a node of its own key) *)
  l_strict : forall l n, (n = hd_id \/ onl sh l n) -> nlt sh n (fst (getnext sh n l));
  (* marks form an upper segment of the tower *)
  l_seg : forall n i j, marked sh n i = true -> (i <= j < length (nxt (node sh n)))%nat -> marked sh n j = true;
  (* nodes are linked bottom-up: a level-l pointer leads to a node linked at every level below *)
  l_dn : forall a l j, (j <= l)%nat -> lkd sh j (fst (getnext sh a l));
  l_hd : length (nxt (node sh hd_id)) = S maxLevel;
  (* towers never exceed the list level *)
  l_lv : forall n, (2 <= n)%nat -> (lvl (node sh n) <= sl_level sh)%nat
}.

Lemma onl_in sh l c n : path sh l hd_id c -> (onl sh l n <-> In n c).
Proof.
  intros Hc. split; [|intros Hin; exists c; auto].
  intros (c' & Hc' & Hin). now rewrite (path_det _ _ _ _ _ Hc Hc').
Qed.

Lemma chain_hd_nodup sh l c : HInv sh -> path sh l hd_id c -> NoDup c -> NoDup (hd_id :: c).
Proof.
  intros H Hc Hnd. constructor; [|exact Hnd]. intros Hin.
  destruct (pub_ne _ _ (path_in_pub_l sh l H c _ Hc _ Hin)). congruence.
Qed.

(** what a step guarantees to the other threads about the level chains:
    [lk] = (node, level) newly linked, [ow] = node whose own words were rewritten by its owner,
    [mkl] = (node, level) newly marked *)
Record lext (sh sh' : shared) (lk : option (nat * nat)) (ow : option nat) (mkl : option (nat * nat)) : Prop := {
  x_lnk : forall j a, lnk sh j a -> lnk sh' j a;
  x_non : forall j a, onl sh' j a -> onl sh j a \/ lk = Some (a, j);
  x_word : forall a j, ~ onl sh j a -> a <> hd_id -> ow <> Some a ->
           fst (getnext sh' a j) = fst (getnext sh a j);
  x_mk : forall a j, marked sh' a j = true -> marked sh a j = true \/ mkl = Some (a, j);
  x_mkw : forall a j, mkl = Some (a, j) -> fst (getnext sh' a j) = fst (getnext sh a j);
  x_lv : (sl_level sh <= sl_level sh')%nat
}.

Lemma lkd_ext sh sh' lk ow mkl j a : lext sh sh' lk ow mkl -> lkd sh j a -> lkd sh' j a.
Proof. intros X [E|E]; [now left|right; now apply (x_lnk _ _ _ _ _ X)]. Qed.
Lemma rch_ext sh sh' lk ow mkl j a : lext sh sh' lk ow mkl -> rch sh j a -> rch sh' j a.
Proof. intros X [E|E]; [now left|right; now apply (x_lnk _ _ _ _ _ X)]. Qed.

(** ** a CAS at (n, l): generic preservation, given the new level-l chain *)
Lemma leff_set sh n l new m old c c' lk ow :
  HInv sh -> LInv sh -> getnext sh n l = (old, false) ->
  (n < N sh)%nat -> (l < length (nxt (node sh n)))%nat ->
  let sh' := set_next sh n l (new, m) in
  path sh l hd_id c -> path sh' l hd_id c' -> NoDup c' ->
  (forall a, In a c -> In a c' \/ marked sh a l = true) ->
  (forall a, In a c' -> In a c \/ lk = Some (a, l)) ->
  (new = old \/ n = hd_id \/ onl sh l n \/ ow = Some n) ->
  (m = true -> forall j, (l < j < length (nxt (node sh n)))%nat -> marked sh n j = true) ->
  (m = true -> new = old) ->
  (forall j, (j <= l)%nat -> lkd sh j new \/ (j = l /\ In new c')) ->
  ((n = hd_id \/ In n c') -> nlt sh n new) ->
  (forall a, In a c' -> ~ In a c -> a <> n -> nlt sh a (fst (getnext sh a l))) ->
  LInv sh' /\ lext sh sh' lk ow (if m then Some (n, l) else None).
Proof.
  intros H L Hw Hn Hl sh' Hc Hc' Hnd' Hcc Hcc' Htg Hm Hmo Hnew Hst1 Hst2.
  assert (Gn : getnext sh' n l = (new, m)).
  { unfold sh'. rewrite getnext_set_next, !Nat.eqb_refl. cbn [andb].
    replace (n <? N sh)%nat with true by (symmetry; now apply Nat.ltb_lt).
    replace (l <? length (nxt (node sh n)))%nat with true by (symmetry; now apply Nat.ltb_lt). reflexivity. }
  assert (Go : forall a j, (a <> n \/ j <> l) -> getnext sh' a j = getnext sh a j).
  { intros. now apply getnext_other. }
  assert (Hlen : forall a, length (nxt (node sh' a)) = length (nxt (node sh a))) by (intros; apply lnxt_set_next).
  assert (Mk : forall a j, marked sh a j = true -> marked sh' a j = true).
  { intros a j Hk. unfold marked. rewrite Go; [exact Hk|].
    destruct (Nat.eq_dec a n) as [->|]; [|now left]. right. intros ->. unfold marked in Hk. rewrite Hw in Hk. discriminate. }
  assert (Mk' : forall a j, marked sh' a j = true -> marked sh a j = true \/ (m = true /\ a = n /\ j = l)).
  { intros a j Hk. destruct (Nat.eq_dec a n) as [->|Ha]; [destruct (Nat.eq_dec j l) as [->|Hj]|].
    - unfold marked in Hk. rewrite Gn in Hk. cbn in Hk. right. auto.
    - left. unfold marked in *. now rewrite Go in Hk by auto.
    - left. unfold marked in *. now rewrite Go in Hk by auto. }
  assert (Hpj : forall j, j <> l -> forall c0 a, path sh' j a c0 <-> path sh j a c0).
  { intros j Hj c0 a. split; apply path_same; intros; now rewrite Go by auto. }
  assert (Honl : forall j a, onl sh j a -> onl sh' j a \/ marked sh a j = true).
  { intros j a Ha. destruct (Nat.eq_dec j l) as [->|Hj].
    - apply (onl_in sh l c a Hc) in Ha. destruct (Hcc a Ha) as [G|G]; [left; now apply (onl_in sh' l c' a Hc')|now right].
    - left. destruct Ha as (c0 & Hp0 & Hi0). exists c0. split; [now apply Hpj|exact Hi0]. }
  assert (Hlnk : forall j a, lnk sh j a -> lnk sh' j a).
  { intros j a [Ha|Ha]; [|right; now apply Mk]. destruct (Honl j a Ha) as [G|G]; [now left|right; now apply Mk]. }
  assert (Hlkd : forall j a, lkd sh j a -> lkd sh' j a).
  { intros j a [E|E]; [now left|right; now apply Hlnk]. }
  split.
  - constructor.
    + intros j. destruct (Nat.eq_dec j l) as [->|Hj]; [exists c'; auto|].
      destruct (l_chain _ L j) as (c0 & Hp0 & Hn0). exists c0. split; [now apply Hpj|exact Hn0].
    + intros j a Ha.
      assert (Kq : forall p q, nlt sh p q -> nlt sh' p q) by (intros p q; apply nlt_keys; apply key_set_next).
      destruct (Nat.eq_dec j l) as [->|Hj].
      * assert (Ha' : a = hd_id \/ In a c').
        { destruct Ha as [Ha|Ha]; [now left|right; now apply (onl_in sh' l c' a Hc')]. }
        destruct (Nat.eq_dec a n) as [->|Han].
        -- rewrite Gn. cbn [fst]. apply Kq, Hst1. exact Ha'.
        -- rewrite Go by auto. apply Kq.
           destruct Ha' as [->|Ha']; [apply (l_strict _ L); now left|].
           destruct (in_dec Nat.eq_dec a c) as [Hic|Hic].
           ++ apply (l_strict _ L). right. now apply (onl_in sh l c a Hc).
           ++ now apply Hst2.
      * rewrite Go by auto. apply Kq. apply (l_strict _ L).
        destruct Ha as [Ha|(c0 & Hp0 & Hi0)]; [now left|right]. exists c0. split; [now apply Hpj|exact Hi0].
    + intros a i j Hk Hr. rewrite Hlen in Hr. destruct (Mk' a i Hk) as [G|(Em & -> & ->)].
      * apply Mk. eapply (l_seg _ L); eassumption.
      * destruct (Nat.eq_dec j l) as [->|Hj]; [exact Hk|]. apply Mk. apply Hm; auto. lia.
    + intros a j j' Hj. destruct (Nat.eq_dec a n) as [->|Ha]; [destruct (Nat.eq_dec j l) as [->|Hjl]|].
      * rewrite Gn. cbn [fst]. destruct (Hnew j' Hj) as [G|[-> G]]; [now apply Hlkd|].
        right. left. now apply (onl_in sh' l c' new Hc').
      * rewrite Go by auto. apply Hlkd. now apply (l_dn _ L).
      * rewrite Go by auto. apply Hlkd. now apply (l_dn _ L).
    + rewrite Hlen. apply L.
    + intros a Ha. unfold sh'. rewrite lvl_set_next. cbn [set_next sl_level]. now apply (l_lv _ L).
  - constructor.
    + exact Hlnk.
    + intros j a Ha. destruct (Nat.eq_dec j l) as [->|Hj].
      * apply (onl_in sh' l c' a Hc') in Ha. destruct (Hcc' a Ha) as [G|G]; [left; now apply (onl_in sh l c a Hc)|now right].
      * left. destruct Ha as (c0 & Hp0 & Hi0). exists c0. split; [now apply Hpj|exact Hi0].
    + intros a j Ha Hah Hao. destruct (Nat.eq_dec j l) as [->|Hj]; [|now rewrite Go by auto].
      destruct (Nat.eq_dec a n) as [->|Hne]; [|now rewrite Go by auto].
      destruct Htg as [G|[G|[G|G]]]; [|contradiction|contradiction|congruence].
      rewrite Gn, Hw. cbn [fst]. exact G.
    + intros a j Hk. destruct (Mk' a j Hk) as [G|(-> & -> & ->)]; [now left|now right].
    + intros a j E. destruct m; [|discriminate]. inversion E; subst a j. rewrite Gn, Hw. cbn [fst]. now apply Hmo.
    + unfold sh'. cbn [set_next sl_level]. lia.
Qed.

Lemma NoDup_insert {A} (x : A) c1 c2 : NoDup (c1 ++ c2) -> ~ In x (c1 ++ c2) -> NoDup (c1 ++ x :: c2).
Proof.
  induction c1 as [|a r IH]; cbn [app]; intros Hnd Hx.
  - now constructor.
  - apply NoDup_cons_iff in Hnd. destruct Hnd as [Ha Hnd]. constructor.
    + rewrite in_app_iff in *. cbn [In]. intros [G|[G|G]]; [tauto| |tauto]. apply Hx. now left.
    + apply IH; [exact Hnd|]. intros G. apply Hx. now right.
Qed.

Lemma chain_nodup_hd sh l : HInv sh -> LInv sh -> exists c, path sh l hd_id c /\ NoDup c /\ NoDup (hd_id :: c).
Proof.
  intros H L. destruct (l_chain _ L l) as (c & Hc & Hnd). exists c. split; [exact Hc|]. split; [exact Hnd|].
  eapply chain_hd_nodup; eassumption.
Qed.

(** marking (n, l) *)
Lemma leff_mark sh n l old :
  HInv sh -> LInv sh -> getnext sh n l = (old, false) ->
  (n < N sh)%nat -> (l < length (nxt (node sh n)))%nat ->
  (forall j, (l < j < length (nxt (node sh n)))%nat -> marked sh n j = true) ->
  let sh' := set_next sh n l (old, true) in
  LInv sh' /\ lext sh sh' None None (Some (n, l)).
Proof.
  intros H L Hw Hn Hl Hab sh'.
  destruct (l_chain _ L l) as (c & Hc & Hnd).
  assert (F : forall a, fst (getnext sh' a l) = fst (getnext sh a l)).
  { intros a. unfold sh'. rewrite getnext_set_next.
    destruct (Nat.eqb_spec a n) as [->|]; cbn [andb]; [|reflexivity]. rewrite Nat.eqb_refl. cbn [andb].
    destruct ((n <? N sh)%nat && (l <? length (nxt (node sh n)))%nat); [now rewrite Hw|reflexivity]. }
  assert (Hc' : path sh' l hd_id c) by (apply (path_same sh sh' l F), Hc).
  apply (leff_set sh n l old true old c c None None H L Hw Hn Hl Hc Hc' Hnd); auto.
  - intros j Hj. left. pose proof (l_dn _ L n l j Hj) as G. now rewrite Hw in G.
  - intros Hin. pose proof (l_strict _ L l n) as G. rewrite Hw in G. apply G.
    destruct Hin as [Hin|Hin]; [now left|right; now apply (onl_in sh l c n Hc)].
  - intros a Ha Hna. contradiction.
Qed.

(** the owner of a node not linked at level l rewrites its level-l pointer *)
Lemma leff_own sh x l new old :
  HInv sh -> LInv sh -> getnext sh x l = (old, false) ->
  (x < N sh)%nat -> (l < length (nxt (node sh x)))%nat ->
  ~ onl sh l x -> x <> hd_id -> (forall j, (j <= l)%nat -> lkd sh j new) ->
  let sh' := set_next sh x l (new, false) in
  LInv sh' /\ lext sh sh' None (Some x) None.
Proof.
  intros H L Hw Hn Hl Hx Hxh Hnew sh'.
  destruct (l_chain _ L l) as (c & Hc & Hnd).
  assert (Hc' : path sh' l hd_id c).
  { apply (path_avoid sh sh' l x); [|exact Hc|congruence|].
    - intros a Ha. unfold sh'. now rewrite getnext_other by auto.
    - intros Hi. apply Hx. now apply (onl_in sh l c x Hc). }
  apply (leff_set sh x l new false old c c None (Some x) H L Hw Hn Hl Hc Hc' Hnd); auto; try discriminate.
  - intros [Hin|Hin]; [contradiction|]. exfalso. apply Hx. now apply (onl_in sh l c x Hc).
  - intros a Ha Hna. contradiction.
Qed.

(** linking x after n at level l *)
Lemma leff_link sh n l x old :
  HInv sh -> LInv sh -> getnext sh n l = (old, false) ->
  (n < N sh)%nat -> (l < length (nxt (node sh n)))%nat ->
  fst (getnext sh x l) = old -> x <> tl_id -> x <> hd_id -> ~ onl sh l x -> (n = hd_id \/ onl sh l n) ->
  (forall j, (j < l)%nat -> lkd sh j x) ->
  nlt sh n x -> nlt sh x old ->
  let sh' := set_next sh n l (x, false) in
  LInv sh' /\ lext sh sh' (Some (x, l)) None None /\ onl sh' l x.
Proof.
  intros H L Hw Hn Hl Hxw Hxt Hxh Hx Hnc Hlow Hs1 Hs2 sh'.
  destruct (chain_nodup_hd sh l H L) as (c & Hc & Hnd & Hndh).
  assert (Hxc : ~ In x c) by (intros Hi; apply Hx; now apply (onl_in sh l c x Hc)).
  assert (Hxn : x <> n).
  { intros ->. destruct Hnc as [E|E]; contradiction. }
  assert (Gn : getnext sh' n l = (x, false)).
  { unfold sh'. rewrite getnext_set_next, !Nat.eqb_refl. cbn [andb].
    replace (n <? N sh)%nat with true by (symmetry; now apply Nat.ltb_lt).
    replace (l <? length (nxt (node sh n)))%nat with true by (symmetry; now apply Nat.ltb_lt). reflexivity. }
  destruct (path_ins_g sh sh' l n x old) with (c := c) (a := hd_id) as (c1 & c2 & Ec & Hc'); auto.
  { now rewrite Hw. }
  { intros a Ha. unfold sh'. now rewrite getnext_other by auto. }
  { now rewrite Gn. }
  { destruct Hnc as [->|Hnc]; [now left|right; now apply (onl_in sh l c n Hc)]. }
  assert (Hnd' : NoDup (c1 ++ x :: c2)).
  { subst c. now apply NoDup_insert. }
  assert (Hin' : In x (c1 ++ x :: c2)) by (apply in_app_iff; right; now left).
  destruct (leff_set sh n l x false old c (c1 ++ x :: c2) (Some (x, l)) None H L Hw Hn Hl Hc Hc' Hnd') as [L' X'].
  - intros a Ha. left. subst c. rewrite in_app_iff in *. cbn [In]. tauto.
  - intros a Ha. subst c. rewrite in_app_iff in *. cbn [In] in Ha. destruct Ha as [Ha|[Ha|Ha]]; auto. right. now subst.
  - destruct Hnc; auto.
  - discriminate.
  - discriminate.
  - intros j Hj. destruct (Nat.eq_dec j l) as [->|]; [right; auto|left; apply Hlow; lia].
  - intros _. exact Hs1.
  - intros a Ha Hna Han. subst c. rewrite in_app_iff in *. cbn [In] in Ha.
    destruct Ha as [Ha|[Ha|Ha]]; [exfalso; tauto| |exfalso; tauto]. subst a. rewrite Hxw. exact Hs2.
  - split; [exact L'|]. split; [exact X'|]. now apply (onl_in sh' l _ x Hc').
Qed.

(** helpDelete at level l *)
Lemma leff_unlink sh n l curr next :
  HInv sh -> LInv sh -> getnext sh n l = (curr, false) -> getnext sh curr l = (next, true) ->
  (n < N sh)%nat -> (l < length (nxt (node sh n)))%nat -> (n = hd_id \/ onl sh l n) ->
  let sh' := set_next sh n l (next, false) in
  LInv sh' /\ lext sh sh' None None None.
Proof.
  intros H L Hw Hcw Hn Hl Hnc sh'.
  destruct (chain_nodup_hd sh l H L) as (c & Hc & Hnd & Hndh).
  assert (Hct : curr <> tl_id) by (intros ->; rewrite (h_tl _ H) in Hcw; congruence).
  assert (Gn : getnext sh' n l = (next, false)).
  { unfold sh'. rewrite getnext_set_next, !Nat.eqb_refl. cbn [andb].
    replace (n <? N sh)%nat with true by (symmetry; now apply Nat.ltb_lt).
    replace (l <? length (nxt (node sh n)))%nat with true by (symmetry; now apply Nat.ltb_lt). reflexivity. }
  destruct (path_skip_g sh sh' l n curr next) with (c := c) (a := hd_id) as (c1 & c2 & Ec & Hc'); auto.
  { now rewrite Hw. }
  { now rewrite Hcw. }
  { intros a Ha. unfold sh'. now rewrite getnext_other by auto. }
  { now rewrite Gn. }
  { destruct Hnc as [->|Hnc]; [now left|right; now apply (onl_in sh l c n Hc)]. }
  assert (Hnd' : NoDup (c1 ++ c2)) by (subst c; eapply NoDup_remove_1; exact Hnd).
  apply (leff_set sh n l next false curr c (c1 ++ c2) None None H L Hw Hn Hl Hc Hc' Hnd').
  - intros a Ha. subst c. rewrite in_app_iff in *. cbn [In] in Ha. destruct Ha as [Ha|[Ha|Ha]]; auto.
    right. subst a. unfold marked. now rewrite Hcw.
  - intros a Ha. left. subst c. rewrite in_app_iff in *. cbn [In]. tauto.
  - destruct Hnc; auto.
  - discriminate.
  - discriminate.
  - intros j Hj. left. pose proof (l_dn _ L curr l j Hj) as G. now rewrite Hcw in G.
  - intros _.
    pose proof (l_strict _ L l n Hnc) as G1. rewrite Hw in G1. cbn [fst] in G1.
    assert (Hco : onl sh l curr).
    { apply (onl_in sh l c curr Hc). subst c. apply in_app_iff. right. now left. }
    pose proof (l_strict _ L l curr (or_intror Hco)) as G2. rewrite Hcw in G2. cbn [fst] in G2.
    assert (Hch : curr <> hd_id).
    { intros ->. pose proof (h_hdm _ H l) as Q. unfold marked in Q. rewrite Hcw in Q. discriminate. }
    unfold nlt in *. destruct G1 as [G1|[G1|G1]]; auto; try contradiction.
    destruct G2 as [G2|[G2|G2]]; auto; try contradiction. right; right; lia.
  - intros a Ha Hna. exfalso. apply Hna. subst c. rewrite in_app_iff in *. cbn [In]. tauto.
Qed.

Lemma leff_same sh sh' : heap sh' = heap sh -> sl_level sh' = sl_level sh -> LInv sh ->
  LInv sh' /\ lext sh sh' None None None.
Proof.
  intros Hh Hlv L.
  assert (P : forall j c a, path sh' j a c <-> path sh j a c) by (intros; now apply same_path).
  assert (O : forall j a, onl sh' j a <-> onl sh j a).
  { intros j a. unfold onl. split; intros (c & Hp & Hi); exists c; split; auto; now apply P. }
  split.
  - constructor.
    + intros l. destruct (l_chain _ L l) as (c & Hc & Hnd). exists c. split; [now apply P|exact Hnd].
    + intros l n Hn. rewrite (same_getnext sh sh' Hh).
      apply (nlt_keys sh sh'); [now rewrite (same_node sh sh' Hh)|now rewrite (same_node sh sh' Hh)|].
      apply (l_strict _ L). destruct Hn as [Hn|Hn]; [now left|right; now apply O].
    + intros n i j. rewrite !(same_marked sh sh' Hh), (same_node sh sh' Hh). apply L.
    + intros a l j Hj. rewrite (same_getnext sh sh' Hh). destruct (l_dn _ L a l j Hj) as [G|[G|G]]; [now left| |].
      * right; left. now apply O.
      * right; right. now rewrite (same_marked sh sh' Hh).
    + rewrite (same_node sh sh' Hh). apply L.
    + intros n Hn. rewrite (same_node sh sh' Hh), Hlv. now apply (l_lv _ L).
  - constructor.
    + intros j a [G|G]; [left; now apply O|right; now rewrite (same_marked sh sh' Hh)].
    + intros j a G. left. now apply O.
    + intros a j _ _ _. now rewrite (same_getnext sh sh' Hh).
    + intros a j G. left. now rewrite (same_marked sh sh' Hh) in G.
    + discriminate.
    + rewrite Hlv. lia.
Qed.

(** only the words of an unreachable, unmarked node [x] change (allocation / initialisation) *)
Lemma leff_frame sh sh' x :
  HInv sh -> LInv sh -> x <> hd_id ->
  (forall a j, a <> x -> getnext sh' a j = getnext sh a j) ->
  (forall a, a <> x -> length (nxt (node sh' a)) = length (nxt (node sh a))) ->
  (forall a, a <> x -> key (node sh' a) = key (node sh a)) ->
  (forall a j, fst (getnext sh a j) <> x) ->
  (forall j, marked sh x j = false) -> (forall j, marked sh' x j = false) ->
  (forall l j, (j <= l)%nat -> lkd sh j (fst (getnext sh' x l))) ->
  (sl_level sh <= sl_level sh')%nat -> (forall n, (2 <= n)%nat -> (lvl (node sh' n) <= sl_level sh')%nat) ->
  LInv sh' /\ lext sh sh' None (Some x) None.
Proof.
  intros H L Hxh Go Hlen Hkey Hnt Mx Mx' Hnew Hlv1 Hlv2.
  assert (Hnc : forall j c a, path sh j a c -> ~ In x c).
  { intros j. induction c as [|m r IH]; intros a Hp Hi; [destruct Hi|].
    cbn [path] in Hp. destruct Hp as (E & _ & Hp). destruct Hi as [->|Hi]; [now apply (Hnt a j)|].
    now apply (IH m Hp). }
  assert (P : forall j c, path sh j hd_id c -> path sh' j hd_id c).
  { intros j c Hc. apply (path_avoid sh sh' j x); auto; [|now apply (Hnc j c hd_id)].
    intros a Ha. now rewrite Go. }
  assert (O : forall j a, onl sh' j a <-> onl sh j a).
  { intros j a. destruct (l_chain _ L j) as (c & Hc & _).
    rewrite (onl_in sh' j c a (P j c Hc)), (onl_in sh j c a Hc). tauto. }
  assert (M : forall a j, marked sh' a j = marked sh a j).
  { intros a j. destruct (Nat.eq_dec a x) as [->|Ha]; [now rewrite Mx, Mx'|]. unfold marked. now rewrite Go. }
  assert (K : forall j a, lkd sh j a -> lkd sh' j a).
  { intros j a [G|[G|G]]; [now left|right; left; now apply O|right; right; now rewrite M]. }
  split.
  - constructor.
    + intros l. destruct (l_chain _ L l) as (c & Hc & Hnd). exists c. auto.
    + intros l n Hn.
      assert (Hn0 : n = hd_id \/ onl sh l n) by (destruct Hn as [Hn|Hn]; [now left|right; now apply O]).
      assert (Hnx : n <> x).
      { destruct Hn0 as [->|(c & Hc & Hi)]; [congruence|]. intros ->. now apply (Hnc l c hd_id Hc). }
      rewrite Go by exact Hnx. apply (nlt_keys sh sh'); [now apply Hkey|apply Hkey, Hnt|].
      now apply (l_strict _ L).
    + intros n i j Hk Hr. rewrite M in *. destruct (Nat.eq_dec n x) as [->|Hn]; [rewrite Mx in Hk; discriminate|].
      rewrite Hlen in Hr by exact Hn. eapply (l_seg _ L); eassumption.
    + intros a l j Hj. destruct (Nat.eq_dec a x) as [->|Ha]; [apply K; now apply Hnew|].
      rewrite Go by exact Ha. apply K. now apply (l_dn _ L).
    + rewrite Hlen by congruence. apply L.
    + exact Hlv2.
  - constructor.
    + intros j a [G|G]; [left; now apply O|right; now rewrite M].
    + intros j a G. left. now apply O.
    + intros a j _ _ Hne. rewrite Go; [reflexivity|congruence].
    + intros a j G. left. now rewrite M in G.
    + discriminate.
    + exact Hlv1.
Qed.

(** ** per-thread invariants for the upper levels *)

Definition rchd sh i n := forall j, (j <= i)%nat -> rch sh j n.
Definition lkdd sh i n := forall j, (j <= i)%nat -> lkd sh j n.
Definition bufr sh b := forall j, rch sh j (pred_at b j) /\ lkdd sh j (succ_at b j).
(** [x] is published, linked below level [i], not yet linked at level [i] and above *)
Definition insr sh x i := x <> hd_id /\ (forall j, (i <= j)%nat -> ~ onl sh j x) /\ (forall j, (j < i)%nat -> lnk sh j x).
Definition cont2 sh (c : fk) := match c with KInsertFix x xl i => insr sh x i | _ => True end.

(** the recorded successor has a STRICTLY larger key (LInsSucc saw it unmarked while [x] was unmarked) *)
Definition sgt sh (k : Z) (s : nat) : Prop := s = tl_id \/ ((s < N sh)%nat /\ k < key (node sh s)).

Lemma sgt_set_next sh n l v k s : sgt sh k s -> sgt (set_next sh n l v) k s.
Proof. unfold sgt. rewrite N_set_next, key_set_next. tauto. Qed.

Definition linv2 sh (l : local) : Prop :=
  match l with
  | LFP0 k c b => bufr sh b /\ cont2 sh c
  | LFP1 k c b i prev => bufr sh b /\ cont2 sh c /\ rchd sh i prev
  | LFP2 k c b i prev curr => bufr sh b /\ cont2 sh c /\ rchd sh i prev /\ lkdd sh i curr
  | LFPH k c b i prev curr next => bufr sh b /\ cont2 sh c /\ rchd sh i prev /\ lkdd sh i curr
  | LInsPub k x xl b => bufr sh b
  | LInsSucc k x xl b i => bufr sh b /\ insr sh x i
  | LInsOwn k x xl b i => bufr sh b /\ insr sh x i /\ (marked sh x 0 = true \/ sgt sh k (succ_at b i))
  | LInsLink k x xl b i => bufr sh b /\ insr sh x i /\ fst (getnext sh x i) = succ_at b i /\ sgt sh k (succ_at b i)
  | LInsCheck k x xl b i => bufr sh b /\ insr sh x (S i)
  | LLevelCas k want lv => (lv <= sl_level sh)%nat
  | _ => True
  end.

(** the node a thread is linking into the upper levels (after its publication) *)
Definition insi_fk (c : fk) : option (nat * nat) := match c with KInsertFix x _ i => Some (x, i) | _ => None end.
Definition insi (l : local) : option (nat * nat) :=
  match l with
  | LFP0 _ c _ | LFP1 _ c _ _ _ | LFP2 _ c _ _ _ _ | LFPH _ c _ _ _ _ _ => insi_fk c
  | LInsSucc _ x _ _ i | LInsOwn _ x _ _ i | LInsLink _ x _ _ i => Some (x, i)
  | LInsCheck _ x _ _ i => Some (x, S i)
  | _ => None
  end.
Definition insn (l : local) : option nat := option_map fst (insi l).
Definition delx (l : local) : option nat :=
  match l with LSdLoad _ n _ _ | LSdCas _ n _ _ _ => Some n | _ => None end.

Section Stable2.
Variables (sh sh' : shared) (lk : option (nat * nat)) (ow : option nat) (mkl : option (nat * nat)).
Variables (ex mk : option nat).
Hypothesis X : lext sh sh' lk ow mkl.
Hypothesis Xe : ext sh sh' ex mk.

Lemma sgt_ext k s : sgt sh k s -> sgt sh' k s.
Proof.
  intros [E|[R K]]; [now left|right]. pose proof (e_N _ _ _ _ Xe). split; [lia|].
  now rewrite (proj1 (e_key _ _ _ _ Xe s R)).
Qed.

Lemma rchd_ext i n : rchd sh i n -> rchd sh' i n.
Proof. intros R j Hj. eapply rch_ext; eauto. Qed.
Lemma lkdd_ext i n : lkdd sh i n -> lkdd sh' i n.
Proof. intros R j Hj. eapply lkd_ext; eauto. Qed.
Lemma bufr_ext b : bufr sh b -> bufr sh' b.
Proof. intros B j. destruct (B j) as [B1 B2]. split; [eapply rch_ext; eauto|now apply lkdd_ext]. Qed.

Lemma insr_ext x i : (forall j, lk <> Some (x, j)) -> insr sh x i -> insr sh' x i.
Proof.
  intros Hlk (A0 & A & B). split; [exact A0|]. split.
  - intros j Hj G. destruct (x_non _ _ _ _ _ X j x G) as [G'|G']; [now apply (A j)|now apply (Hlk j)].
  - intros j Hj. apply (x_lnk _ _ _ _ _ X). now apply B.
Qed.

Lemma cont2_ext c : (forall x j, insi_fk c = Some (x, j) -> forall j', lk <> Some (x, j')) -> cont2 sh c -> cont2 sh' c.
Proof.
  destruct c; cbn [cont2 insi_fk]; auto. intros Hlk. apply insr_ext. intros j'. eapply Hlk. reflexivity.
Qed.

Lemma linv2_ext l :
  (forall x j, insi l = Some (x, j) -> (forall j', lk <> Some (x, j')) /\ ow <> Some x) ->
  linv2 sh l -> linv2 sh' l.
Proof.
  destruct l; cbn [linv2 insi]; intros Hi Hl; auto.
  - pose proof (x_lv _ _ _ _ _ X). lia.
  - destruct Hl as (A & B). split; [now apply bufr_ext|]. apply cont2_ext; [|exact B]. intros x j E. now apply (Hi x j).
  - destruct Hl as (A & B & C). split; [now apply bufr_ext|]. split; [|now apply rchd_ext].
    apply cont2_ext; [|exact B]. intros x j E. now apply (Hi x j).
  - destruct Hl as (A & B & C & D). split; [now apply bufr_ext|]. split; [|split; [now apply rchd_ext|now apply lkdd_ext]].
    apply cont2_ext; [|exact B]. intros x j E. now apply (Hi x j).
  - destruct Hl as (A & B & C & D). split; [now apply bufr_ext|]. split; [|split; [now apply rchd_ext|now apply lkdd_ext]].
    apply cont2_ext; [|exact B]. intros x j E. now apply (Hi x j).
  - now apply bufr_ext.
  - destruct Hl as (A & B). destruct (Hi x i eq_refl) as (H1 & H2). split; [now apply bufr_ext|now apply insr_ext].
  - destruct Hl as (A & B & C). destruct (Hi x i eq_refl) as (H1 & H2).
    split; [now apply bufr_ext|]. split; [now apply insr_ext|].
    destruct C as [C|C]; [left|right; now apply sgt_ext].
    unfold marked in *. now rewrite (e_mark _ _ _ _ Xe x 0%nat C).
  - destruct Hl as (A & B & C & D). destruct (Hi x i eq_refl) as (H1 & H2).
    split; [now apply bufr_ext|]. split; [now apply insr_ext|]. split; [|now apply sgt_ext].
    destruct B as (B0 & B1 & B2). rewrite (x_word _ _ _ _ _ X x i); auto.
  - destruct Hl as (A & B). destruct (Hi x (S i) eq_refl) as (H1 & H2). split; [now apply bufr_ext|now apply insr_ext].
Qed.
End Stable2.

Lemma word_inrange sh n l p m : getnext sh n l = (p, m) -> (p <> tl_id \/ m = true) ->
  (n < N sh)%nat /\ (l < length (nxt (node sh n)))%nat.
Proof.
  intros G Hpm. split.
  - destruct (Nat.lt_ge_cases n (N sh)) as [|Q]; [assumption|]. rewrite getnext_oob in G by exact Q.
    inversion G; subst. destruct Hpm; [contradiction|discriminate].
  - destruct (Nat.lt_ge_cases l (length (nxt (node sh n)))) as [|Q]; [assumption|].
    rewrite getnext_short in G by exact Q. inversion G; subst. destruct Hpm; [contradiction|discriminate].
Qed.

Lemma set_nth_oob {A} i (v : A) l : (length l <= i)%nat -> set_nth i v l = l.
Proof.
  revert i. induction l as [|x r IH]; intros [|i] Q; cbn in *; try reflexivity; try lia.
  f_equal. apply IH. lia.
Qed.

Lemma set_next_noop sh n l v : ~ ((n < N sh)%nat /\ (l < length (nxt (node sh n)))%nat) ->
  heap (set_next sh n l v) = heap sh.
Proof.
  intros Hn. unfold set_next. cbn [heap].
  destruct (Nat.lt_ge_cases n (N sh)) as [Q|Q]; [|now apply set_nth_oob].
  destruct (Nat.lt_ge_cases l (length (nxt (node sh n)))) as [Q2|Q2]; [exfalso; auto|].
  rewrite (set_nth_oob l v _ Q2), nd_eta. unfold node. apply set_nth_same.
Qed.

Lemma path_tow sh l : HInv sh -> forall c a, path sh l a c -> forall m, In m c ->
  (l < length (nxt (node sh m)))%nat.
Proof.
  intros H. induction c as [|x r IH]; intros a Hp m Hin; [destruct Hin|].
  cbn [path] in Hp. destruct Hp as (E & Hx & Hp). destruct Hin as [<-|Hin]; [|eapply IH; eassumption].
  pose proof (h_tow _ H a l) as T. rewrite E in T. destruct T as [T|T]; [contradiction|exact T].
Qed.

Lemma cas_inrange sh i n : HInv sh -> LInv sh -> (n = hd_id \/ onl sh i n) -> (n = hd_id -> (i <= maxLevel)%nat) ->
  (n < N sh)%nat /\ (i < length (nxt (node sh n)))%nat.
Proof.
  intros H L [->|(c & Hc & Hi)] Hm.
  - pose proof (h_len _ H). rewrite (l_hd _ L). specialize (Hm eq_refl). unfold hd_id. lia.
  - split; [apply (path_in_pub_l sh i H c _ Hc _ Hi)|eapply path_tow; eassumption].
Qed.

Lemma rch_unmarked sh i n p : rch sh i n -> getnext sh n i = (p, false) -> n = hd_id \/ onl sh i n.
Proof.
  intros [E|[E|E]] G; auto. unfold marked in E. rewrite G in E. discriminate.
Qed.

Lemma lkd_rch sh i n : lkd sh i n -> n <> tl_id -> rch sh i n.
Proof. intros [E|E] Hn; [contradiction|now right]. Qed.

Lemma private_unreach sh k x xl : HInv sh -> priv sh k x xl -> forall a j, fst (getnext sh a j) <> x.
Proof.
  intros H (R & _ & _ & P & _) a j E. pose proof (h_pp _ H a j) as G. rewrite E in G.
  destruct G as [G|G]; [unfold tl_id in G; lia|contradiction].
Qed.

Lemma unreach_notonl sh j x : (forall a l, fst (getnext sh a l) <> x) -> ~ onl sh j x.
Proof.
  intros Hu (c & Hc & Hi). revert Hc Hi. generalize hd_id. induction c as [|m r IH]; intros a Hp Hi; [destruct Hi|].
  cbn [path] in Hp. destruct Hp as (E & _ & Hp). destruct Hi as [->|Hi]; [now apply (Hu a j)|now apply (IH m)].
Qed.

Record StepOK2 sh (l : local) sh' (r : local + result) : Prop := {
  t_l : LInv sh';
  t_x : exists lk ow mkl, lext sh sh' lk ow mkl /\
        (forall x j, lk = Some (x, j) -> (j = 0%nat /\ own_l l = Some x) \/ insi l = Some (x, j)) /\
        (forall x, ow = Some x -> own_l l = Some x \/ insn l = Some x \/ (N sh <= x)%nat) /\
        (forall n j, mkl = Some (n, j) -> delx l = Some n /\ match r with inl l' => delx l' = Some n | inr _ => False end) /\
        (forall x j, lk = Some (x, j) -> (1 <= j)%nat -> exists k xl b, r = inl (LInsCheck k x xl b j));
  t_inv : match r with inl l' => linv2 sh' l' | inr _ => True end;
  t_ins : forall x i, insi l = Some (x, i) -> forall lv, (i <= lv)%nat -> (lv <= lvl (node sh x))%nat ->
          lnk sh' lv x \/
          match r with inl l' => exists i', insi l' = Some (x, i') /\ (i' <= lv)%nat | inr _ => False end;
  t_pub : forall x, own_l l = Some x -> pub sh' x -> forall lv, (1 <= lv)%nat -> (lv <= lvl (node sh x))%nat ->
          match r with inl l' => exists i', insi l' = Some (x, i') /\ (i' <= lv)%nat | inr _ => False end;
  t_del : forall n, delx l = Some n ->
          marked sh' n 0 = true \/ match r with inl l' => delx l' = Some n | inr _ => False end;
  t_new : forall x i, match r with inl l' => insi l' = Some (x, i) | inr _ => False end ->
          own_l l = Some x \/ exists i0, insi l = Some (x, i0)
}.

Lemma sok2_mk sh l sh1 sh' r lk ow mkl :
  LInv sh1 -> lext sh sh1 lk ow mkl -> heap sh' = heap sh1 -> sl_level sh' = sl_level sh1 ->
  (forall x j, lk = Some (x, j) -> (j = 0%nat /\ own_l l = Some x) \/ insi l = Some (x, j)) ->
  (forall x, ow = Some x -> own_l l = Some x \/ insn l = Some x \/ (N sh <= x)%nat) ->
  (forall n j, mkl = Some (n, j) -> delx l = Some n /\ match r with inl l' => delx l' = Some n | inr _ => False end) ->
  match r with inl l' => linv2 sh1 l' | inr _ => True end ->
  (forall x i, insi l = Some (x, i) -> forall lv, (i <= lv)%nat -> (lv <= lvl (node sh x))%nat ->
     lnk sh1 lv x \/
     match r with inl l' => exists i', insi l' = Some (x, i') /\ (i' <= lv)%nat | inr _ => False end) ->
  (forall x, own_l l = Some x -> pub sh1 x -> forall lv, (1 <= lv)%nat -> (lv <= lvl (node sh x))%nat ->
     match r with inl l' => exists i', insi l' = Some (x, i') /\ (i' <= lv)%nat | inr _ => False end) ->
  (forall n, delx l = Some n ->
     marked sh1 n 0 = true \/ match r with inl l' => delx l' = Some n | inr _ => False end) ->
  (forall x i, match r with inl l' => insi l' = Some (x, i) | inr _ => False end ->
     own_l l = Some x \/ exists i0, insi l = Some (x, i0)) ->
  (forall x j, lk = Some (x, j) -> (1 <= j)%nat -> exists k xl b, r = inl (LInsCheck k x xl b j)) ->
  StepOK2 sh l sh' r.
Proof.
  intros L1 X Hh Hlv Hlk How Hmk Hinv Hins Hpub Hdel Hnew Hlk2.
  destruct (leff_same sh1 sh' Hh Hlv L1) as [L' X'].
  assert (Xc : lext sh sh' lk ow mkl).
  { constructor.
    - intros j a G. apply (x_lnk _ _ _ _ _ X'). now apply (x_lnk _ _ _ _ _ X).
    - intros j a G. destruct (x_non _ _ _ _ _ X' j a G) as [G'|G']; [|discriminate]. now apply (x_non _ _ _ _ _ X).
    - intros a j A B C. rewrite (same_getnext sh1 sh' Hh). now apply (x_word _ _ _ _ _ X).
    - intros a j G. rewrite (same_marked sh1 sh' Hh) in G. now apply (x_mk _ _ _ _ _ X).
    - intros a j G. rewrite (same_getnext sh1 sh' Hh). now apply (x_mkw _ _ _ _ _ X).
    - rewrite Hlv. apply (x_lv _ _ _ _ _ X). }
  constructor; auto.
  - exists lk, ow, mkl. auto 6.
  - destruct r as [l'|]; [|exact I].
    apply (linv2_ext sh1 sh' None None None None None X' (same_ext sh1 sh' Hh)); [|exact Hinv].
    intros x j _. split; discriminate.
  - intros x i Hi lv A B. destruct (Hins x i Hi lv A B) as [G|G]; [left; now apply (x_lnk _ _ _ _ _ X')|now right].
  - intros x Ho Hp. apply Hpub; auto. now apply (same_pub sh1 sh' Hh).
  - intros n Hn. rewrite (same_marked sh1 sh' Hh). now apply Hdel.
Qed.

Lemma sok2_same sh l sh' r :
  LInv sh -> heap sh' = heap sh -> sl_level sh' = sl_level sh -> (forall x, own_l l = Some x -> ~ pub sh x) ->
  match r with inl l' => linv2 sh l' | inr _ => True end ->
  (forall x i, insi l = Some (x, i) ->
     match r with inl l' => insi l' = Some (x, i) | inr _ => False end \/
     (forall lv, (i <= lv)%nat -> (lv <= lvl (node sh x))%nat -> lnk sh lv x)) ->
  (forall n, delx l = Some n ->
     marked sh n 0 = true \/ match r with inl l' => delx l' = Some n | inr _ => False end) ->
  (forall x i, match r with inl l' => insi l' = Some (x, i) | inr _ => False end ->
     own_l l = Some x \/ exists i0, insi l = Some (x, i0)) ->
  StepOK2 sh l sh' r.
Proof.
  intros L Hh Hlv Hpriv Hinv Hins Hdel Hnew.
  destruct (leff_same sh sh eq_refl eq_refl L) as [_ X].
  apply (sok2_mk sh l sh sh' r None None None); auto; try discriminate.
  - intros x i Hi lv A B. destruct (Hins x i Hi) as [G|G]; [right|left; now apply G].
    destruct r as [l'|]; [|exact G]. exists i. auto.
  - intros x Ho Hp. exfalso. now apply (Hpriv x Ho).
Qed.

(** a private node stays unpublished unless this step links or marks it *)
Lemma nopub sh sh' lk ow mkl k x xl : HInv sh -> lext sh sh' lk ow mkl -> priv sh k x xl ->
  (forall j, lk <> Some (x, j)) -> (forall j, mkl <> Some (x, j)) -> ~ pub sh' x.
Proof.
  intros H X P Hlk Hmk [_ [G|G]].
  - destruct (x_non _ _ _ _ _ X 0%nat x G) as [G'|G']; [|now apply (Hlk 0%nat)].
    revert G'. apply unreach_notonl. eapply private_unreach; eassumption.
  - destruct (x_mk _ _ _ _ _ X x 0%nat G) as [G'|G']; [|now apply (Hmk 0%nat)].
    destruct P as (_ & _ & _ & _ & M). rewrite M in G'. discriminate.
Qed.

Lemma bufr0 sh : bufr sh buf0.
Proof.
  intros j. unfold pred_at, succ_at, buf0. cbn [preds succs]. rewrite !nth_repeat_any.
  split; [now left|]. intros j' _. now left.
Qed.

Lemma fp_done2 sh p k c b found sh' p' r (l : local) :
  HInv sh -> LInv sh -> buf_ok sh k b -> cont_ok sh p k c -> bufr sh b -> cont2 sh c ->
  own_l l = own_fk c -> insi l = insi_fk c -> delx l = None ->
  fp_done sh p k c b found = (sh', p', r) -> StepOK2 sh l sh' r.
Proof.
  intros H L Hb Hc Hb2 Hc2 Eo Ei Ed E.
  destruct c as [|x xl|x xl i|x xl| | | |last|]; cbn [fp_done own_fk insi_fk cont_ok cont2] in *.
  - injection E as <- <- <-. apply sok2_same; auto; rewrite ?Eo, ?Ei, ?Ed; try discriminate; auto; try (intros; contradiction).
  - destruct found.
    + injection E as <- <- <-. apply sok2_same; auto; rewrite ?Eo, ?Ei, ?Ed; try discriminate; auto; try (intros; contradiction).
      intros y Hy. inversion Hy; subst. apply Hc.
    + injection E as <- <- <-.
      pose proof Hc as (R & K & Lv & P & M).
      pose proof (private_unreach sh k x xl H Hc) as Hu.
      set (ws := map (fun i => (succ_at b i, false)) (seq 0 (S xl))).
      set (sh1 := mkSh (set_nth x (mkNd k xl ws) (heap sh)) (sl_level sh) (sts sh)).
      assert (Kn : forall a, node sh1 a = if Nat.eqb a x then mkNd k xl ws else node sh a).
      { intros a. unfold node, sh1. cbn [heap]. rewrite nth_set_nth.
        replace (x <? N sh)%nat with true by (symmetry; apply Nat.ltb_lt; lia). now rewrite andb_true_r. }
      assert (Ko : forall a, a <> x -> node sh1 a = node sh a).
      { intros a Ha. rewrite Kn. destruct (Nat.eqb_spec a x); [contradiction|reflexivity]. }
      assert (Gx : forall j, getnext sh1 x j = (succ_at b j, false) \/ getnext sh1 x j = (tl_id, false)).
      { intros j. unfold getnext. rewrite Kn, Nat.eqb_refl. cbn [nxt]. unfold ws. rewrite nth_map_seq.
        destruct (j <? S xl)%nat; auto. }
      destruct (leff_frame sh sh1 x H L) as [L1 X1].
      * unfold hd_id; lia.
      * intros a j Ha. unfold getnext. now rewrite Ko.
      * intros a Ha. now rewrite Ko.
      * intros a Ha. now rewrite Ko.
      * exact Hu.
      * exact M.
      * intros j. unfold marked. destruct (Gx j) as [-> | ->]; reflexivity.
      * intros lv j Hj. destruct (Gx lv) as [-> | ->]; cbn [fst]; [apply (proj2 (Hb2 lv)); exact Hj|now left].
      * unfold sh1. cbn [sl_level]. lia.
      * intros n Hn. rewrite Kn. unfold sh1. cbn [sl_level]. destruct (Nat.eqb_spec n x) as [->|]; [|now apply (l_lv _ L)].
        cbn [lvl]. rewrite <- Lv. now apply (l_lv _ L).
      * apply (sok2_mk sh l sh1 sh1 _ None (Some x) None L1 X1 eq_refl eq_refl); try discriminate.
        -- intros y Hy. inversion Hy; subst. left. now rewrite Eo.
        -- cbn [linv2]. eapply bufr_ext; eauto.
        -- rewrite Ei. discriminate.
        -- intros y Hy Hp. exfalso. rewrite Eo in Hy. inversion Hy; subst y.
           apply (nopub sh sh1 None (Some x) None k x xl H X1 Hc); try discriminate. exact Hp.
        -- rewrite Ed. discriminate.
  - injection E as <- <- <-. apply sok2_same; auto; rewrite ?Eo, ?Ei, ?Ed; try discriminate; auto; try (intros; contradiction).
    + cbn [linv2]. auto.
    + intros y j Hy. right. exists i. cbn [insi] in Hy. inversion Hy; subst. reflexivity.
  - unfold insert_finish in E. injection E as <- <- <-. apply sok2_same; auto; rewrite ?Eo, ?Ei, ?Ed; try discriminate; auto; try (intros; contradiction).
  - destruct found.
    + unfold softdelete_start in E. injection E as <- <- <-.
      apply sok2_same; auto; rewrite ?Eo, ?Ei, ?Ed; try discriminate; auto; try (intros; contradiction); try exact I.
    + injection E as <- <- <-. apply sok2_same; auto; rewrite ?Eo, ?Ei, ?Ed; try discriminate; auto; try (intros; contradiction).
  - injection E as <- <- <-. apply sok2_same; auto; rewrite ?Eo, ?Ei, ?Ed; try discriminate; auto; try (intros; contradiction).
  - injection E as <- <- <-. apply sok2_same; auto; rewrite ?Eo, ?Ei, ?Ed; try discriminate; auto; try (intros; contradiction).
  - destruct (found && Nat.eqb last (succ_at b 0)).
    + injection E as <- <- <-. apply sok2_same; auto; rewrite ?Eo, ?Ei, ?Ed; try discriminate; auto; try (intros; contradiction); try exact I.
    + destruct (next_done_spec _ _ _ _ _ _ E) as (-> & -> & [(-> & _)| -> ]);
        apply sok2_same; auto; rewrite ?Eo, ?Ei, ?Ed; try discriminate; auto; try (intros; contradiction);
        try (cbn [linv2 cont2]; split; [apply bufr0|exact I]).
  - injection E as <- <- <-. apply sok2_same; auto; rewrite ?Eo, ?Ei, ?Ed; try discriminate; auto; try (intros; contradiction).
Qed.

Lemma alloc2 sh (l : local) k xl lv st :
  HInv sh -> LInv sh -> own_l l = None -> insi l = None -> delx l = None ->
  (sl_level sh <= lv)%nat -> (xl <= lv)%nat ->
  StepOK2 sh l (mkSh (heap sh ++ [mkNd k xl []]) lv st) (inl (LFP0 k (KInsert (N sh) xl) buf0)).
Proof.
  intros H L Eo Ei Ed Hlv1 Hlv2.
  set (sh1 := mkSh (heap sh ++ [mkNd k xl []]) lv st).
  assert (G : forall a j, getnext sh1 a j = getnext sh a j).
  { intros a j. unfold getnext. destruct (Nat.lt_ge_cases a (N sh)) as [Q|Q].
    - unfold sh1. now rewrite node_app_old.
    - rewrite (node_oob sh a Q). destruct (Nat.eq_dec a (N sh)) as [->|].
      + unfold sh1. rewrite node_app_new. reflexivity.
      + rewrite node_oob; [reflexivity|]. unfold sh1. cbn [heap]. rewrite app_length. cbn. lia. }
  destruct (leff_frame sh sh1 (N sh) H L) as [L1 X1].
  - pose proof (h_len _ H). unfold hd_id. lia.
  - intros a j _. apply G.
  - intros a Ha. destruct (Nat.lt_ge_cases a (N sh)) as [Q|Q].
    + unfold sh1. now rewrite node_app_old.
    + rewrite (node_oob sh a Q), node_oob; [reflexivity|]. unfold sh1. cbn [heap]. rewrite app_length. cbn. lia.
  - intros a Ha. destruct (Nat.lt_ge_cases a (N sh)) as [Q|Q].
    + unfold sh1. now rewrite node_app_old.
    + rewrite (node_oob sh a Q), node_oob; [reflexivity|]. unfold sh1. cbn [heap]. rewrite app_length. cbn. lia.
  - intros a j E. pose proof (h_pp _ H a j) as P. rewrite E in P. pose proof (h_len _ H).
    destruct P as [P|[P _]]; [unfold tl_id in P|]; lia.
  - intros j. unfold marked. now rewrite getnext_oob by lia.
  - intros j. unfold marked. rewrite G. now rewrite getnext_oob by lia.
  - intros lv0 j _. rewrite G, getnext_oob by lia. now left.
  - exact Hlv1.
  - intros n Hn. unfold sh1 at 2. cbn [sl_level]. destruct (Nat.lt_ge_cases n (N sh)) as [Q|Q].
    + unfold sh1. rewrite node_app_old by exact Q. pose proof (l_lv _ L n Hn). lia.
    + destruct (Nat.eq_dec n (N sh)) as [->|].
      * unfold sh1. rewrite node_app_new. cbn [lvl]. exact Hlv2.
      * rewrite node_oob; [cbn; lia|]. unfold sh1. cbn [heap]. rewrite app_length. cbn. lia.
  - apply (sok2_mk sh l sh1 sh1 _ None (Some (N sh)) None L1 X1 eq_refl eq_refl); rewrite ?Eo, ?Ei, ?Ed; try discriminate.
    + intros y Hy. inversion Hy; subst. right; right. lia.
    + cbn [linv2 cont2]. split; [apply bufr0|exact I].
Qed.

Ltac fin2 := try discriminate; auto; try (intros; contradiction); try exact I.

Lemma pred_at_set' b i pr su j :
  (pred_at (set_buf b i pr su) j = pr /\ j = i) \/ pred_at (set_buf b i pr su) j = pred_at b j.
Proof.
  unfold pred_at, set_buf. cbn [preds]. rewrite nth_set_nth.
  destruct (Nat.eqb_spec j i); cbn [andb]; auto.
  destruct (i <? length (preds b))%nat; auto.
Qed.

Lemma bufr_set sh b i pr su : bufr sh b -> rch sh i pr -> lkdd sh i su -> bufr sh (set_buf b i pr su).
Proof.
  intros B P S j. destruct (B j) as [B1 B2].
  destruct (pred_at_set' b i pr su j) as [[E1 E2] | E1], (succ_at_set b i pr su j) as [[E3 E4] | E3];
    rewrite E1, E3; subst; auto.
Qed.

Lemma step2 tid l p sh sh' p' r :
  HInv sh -> LInv sh -> pinv sh p -> linv sh p l -> linv2 sh l -> step tid l p sh = (sh', p', r) ->
  StepOK2 sh l sh' r.
Proof.
  intros H L Hp Hl Hl2 E.
  destruct l as [k want|k want lv|k c b|k c b i prev|k c b i prev curr|k c b i prev curr next
                |k x xl b|k x xl b i|k x xl b i|k x xl b i|k x xl b i|k n i m|k n i m next| |it|it next];
    cbn [step linv linv2] in *.
  - (* LLevelLoad *)
    destruct (sl_level sh <? want)%nat eqn:Lw.
    + inv_step E. apply sok2_same; fin2. cbn [linv2]. lia.
    + apply Nat.ltb_ge in Lw. inv_step E. apply alloc2; auto.
  - (* LLevelCas *)
    destruct (Nat.eqb_spec (sl_level sh) lv) as [Elv|Elv]; cbn [heap sl_level sts] in E; inv_step E; apply alloc2; auto; lia.
  - (* LFP0 *)
    inv_step E. destruct Hl as [A B]. destruct Hl2 as [A2 B2]. apply sok2_same; fin2.
    + intros x Hx. cbn [own_l] in Hx. destruct c; cbn [own_fk] in Hx; try discriminate. inversion Hx; subst. apply B.
    + cbn [linv2]. split; [exact A2|]. split; [exact B2|]. intros j _. now left.
    + intros x j Hx. right. exists j. exact Hx.
  - (* LFP1 *)
    inv_step E. destruct Hl as (A & B & C & D). destruct Hl2 as (A2 & B2 & C2). apply sok2_same; fin2.
    + intros x Hx. cbn [own_l] in Hx. destruct c; cbn [own_fk] in Hx; try discriminate. inversion Hx; subst. apply B.
    + cbn [linv2]. split; [exact A2|]. split; [exact B2|]. split; [exact C2|]. intros j Hj. now apply (l_dn _ L).
    + intros x j Hx. right. exists j. exact Hx.
  - (* LFP2 *)
    destruct Hl as (A & B & C & D & F & G & I0 & T). destruct Hl2 as (A2 & B2 & C2 & D2).
    assert (Hpriv : forall x, own_l (LFP2 k c b i prev curr) = Some x -> ~ pub sh x).
    { intros x Hx. cbn [own_l] in Hx. destruct c; cbn [own_fk] in Hx; try discriminate. inversion Hx; subst. apply B. }
    destruct (getnext sh curr i) as [next deleted] eqn:W.
    destruct deleted.
    + inv_step E. apply sok2_same; fin2.
      * cbn [linv2]. auto.
      * intros x j Hx. right. exists j. exact Hx.
    + destruct (node_lt sh curr k) eqn:Lt.
      * inv_step E. apply sok2_same; fin2.
        -- cbn [linv2]. split; [exact A2|]. split; [exact B2|].
           destruct (node_lt_cases _ _ _ Lt) as [Ct _].
           split; [intros j Hj; apply lkd_rch; auto|].
           intros j Hj. pose proof (l_dn _ L curr i j Hj) as Q. now rewrite W in Q.
        -- intros x j Hx. right. exists j. exact Hx.
      * assert (Hb' : buf_ok sh k (set_buf b i prev curr)) by (apply buf_ok_set; auto).
        assert (Hb2' : bufr sh (set_buf b i prev curr)) by (apply bufr_set; auto).
        destruct i as [|j].
        -- apply (fp_done2 sh p k c (set_buf b 0 prev curr) (node_eq sh curr k) sh' p' r (LFP2 k c b 0 prev curr)); auto.
        -- inv_step E. apply sok2_same; fin2.
           ++ cbn [linv2]. split; [exact Hb2'|]. split; [exact B2|]. intros j' Hj'. apply C2. lia.
           ++ intros x j' Hx. right. exists j'. exact Hx.
  - (* LFPH *)
    destruct Hl as (A & B & C & D & F & G & I0 & W). destruct Hl2 as (A2 & B2 & C2 & D2).
    assert (Hpriv : forall x, own_l (LFPH k c b i prev curr next) = Some x -> exists xl, priv sh k x xl).
    { intros x Hx. cbn [own_l] in Hx. destruct c; cbn [own_fk] in Hx; try discriminate. inversion Hx; subst. eexists; apply B. }
    destruct (dcas sh prev i curr next false) as [sh1 ok] eqn:Ed.
    destruct (dcas_spec _ _ _ _ _ _ _ _ Ed) as [(-> & Wp & ->)|(-> & ->)].
    + assert (Hct : curr <> tl_id) by (intros ->; rewrite (h_tl _ H) in W; congruence).
      destruct (word_inrange sh prev i curr false Wp (or_introl Hct)) as [R1 R2].
      pose proof (rch_unmarked sh i prev curr (C2 i (le_n i)) Wp) as Hpc.
      destruct (leff_unlink sh prev i curr next H L Wp W R1 R2 Hpc) as [L1 X1].
      assert (Hh : heap sh' = heap (set_next sh prev i (next, false))).
      { destruct i; inv_step E; reflexivity. }
      assert (Hhl : sl_level sh' = sl_level (set_next sh prev i (next, false))).
      { destruct i; inv_step E; reflexivity. }
      assert (Er : r = inl (LFP1 k c b i prev)) by (destruct i; inv_step E; reflexivity). subst r.
      apply (sok2_mk sh _ _ sh' _ None None None L1 X1 Hh Hhl); fin2.
      * cbn [linv2]. split; [eapply bufr_ext; eauto|]. split; [|eapply rchd_ext; eauto].
        eapply cont2_ext; eauto. discriminate.
      * intros x j Hx lv Q1 _. right. exists j. split; [exact Hx|exact Q1].
      * intros x Hx Hpx. exfalso. destruct (Hpriv x Hx) as [xl0 P0].
        apply (nopub sh _ None None None k x xl0 H X1 P0); fin2.
      * intros x j Hx. right. exists j. exact Hx.
    + inv_step E. apply sok2_same; fin2.
      * intros x Hx Hpx. destruct (Hpriv x Hx) as [xl0 P0]. now apply P0.
      * cbn [linv2]. auto.
      * intros x j Hx. right. exists j. exact Hx.
  - (* LInsPub *)
    destruct Hl as (A & B & C & D). rename Hl2 into A2.
    pose proof A as (_ & _ & Fb). destruct (Fb 0%nat) as (F1 & F2 & F3 & F4 & F5).
    destruct (node_lt_cases _ _ _ F1) as [Cn Ck].
    pose proof (gok_pub_or_hd _ _ F3 Cn) as Dp.
    pose proof B as (R & K & Lv & P & M).
    pose proof (private_unreach sh k x xl H B) as Hu.
    destruct (dcas sh (pred_at b 0) 0 (succ_at b 0) x false) as [sh1 ok] eqn:Ed.
    destruct (dcas_spec _ _ _ _ _ _ _ _ Ed) as [(-> & Wp & ->)|(-> & ->)].
    + assert (Hpc : pred_at b 0 = hd_id \/ onl sh 0 (pred_at b 0)).
      { destruct Dp as [Dp|[_ [Dp|Dp]]]; [now left|now right|]. unfold marked in Dp. rewrite Wp in Dp. discriminate. }
      destruct (cas_inrange sh 0 (pred_at b 0) H L Hpc) as [R1 R2]; [intros; lia|].
      assert (Hxw : fst (getnext sh x 0) = succ_at b 0).
      { unfold getnext. rewrite D. now rewrite nth_map_seq. }
      destruct (leff_link sh (pred_at b 0) 0 x (succ_at b 0) H L Wp R1 R2 Hxw) as (L1 & X1 & O1).
      { unfold tl_id; lia. } { unfold hd_id; lia. } { now apply unreach_notonl. } { exact Hpc. } { intros j Hj; lia. }
      { unfold nlt. destruct Ck as [Ck|Ck]; [now left|right; right; lia]. }
      { unfold nlt. destruct (node_nlt_cases _ _ _ F2) as [G1 [G2|G2]]; [right; now left|].
        destruct (node_eq_false _ _ _ C) as [G3|[G3|G3]]; [contradiction|right; now left|right; right; lia]. }
      destruct xl as [|xl'].
      * unfold insert_finish in E. inv_step E.
        apply (sok2_mk sh _ _ _ _ (Some (x, 0%nat)) None None L1 X1); [reflexivity|..]; fin2.
        -- intros y j Ey. inversion Ey; subst. left. auto.
        -- intros y Ey _ lv Q1 Q2. inversion Ey; subst y. rewrite Lv in Q2. lia.
        -- intros y j Ey Hj. inversion Ey; subst. lia.
      * inv_step E.
        apply (sok2_mk sh _ _ _ _ (Some (x, 0%nat)) None None L1 X1); [reflexivity|..]; fin2.
        -- intros y j Ey. inversion Ey; subst. left. auto.
        -- cbn [linv2]. split; [eapply bufr_ext; eauto|]. split; [unfold hd_id; lia|]. split.
           ++ intros j Hj Q. destruct (x_non _ _ _ _ _ X1 j x Q) as [Q'|Q']; [|inversion Q'; lia].
              revert Q'. now apply unreach_notonl.
           ++ intros j Hj. assert (j = 0%nat) by lia. subst j. now left.
        -- intros y Ey _ lv Q1 Q2. inversion Ey; subst y. exists 1%nat. auto.
        -- intros y j Ey. inversion Ey; subst. now left.
        -- intros y j Ey Hj. inversion Ey; subst. lia.
    + inv_step E. apply sok2_same; fin2.
      * intros y Ey. inversion Ey; subst. exact P.
      * cbn [linv2 cont2]. auto.
  - (* LInsSucc *)
    destruct Hl as (A & ((Bp & Bk) & Bl & Bi)). destruct Hl2 as (A2 & B2).
    destruct (snd (getnext sh (succ_at b i) i)) eqn:W.
    + inv_step E. apply sok2_same; fin2.
      * cbn [linv2 cont2]. auto.
      * intros y j Ey. right. exists j. exact Ey.
    + inv_step E. apply sok2_same; fin2.
      * cbn [linv2]. split; [exact A2|]. split; [exact B2|].
        (* the successor was read unmarked at level i: if [x] is still unmarked, every other published
           node of key k is marked at all its levels, so the successor's key is strictly larger *)
        destruct (marked sh x 0) eqn:Mx; [now left|right].
        pose proof A as (_ & _ & Fb). destruct (Fb i) as (F1 & F2 & F3 & F4 & F5).
        set (s := succ_at b i) in *.
        destruct (node_nlt_cases _ _ _ F2) as [G1 [G2|G2]]; [now left|].
        destruct (Nat.eq_dec s tl_id) as [St|St]; [now left|]. right.
        split; [now apply gok_lt|].
        destruct (Z.eq_dec (key (node sh s)) k) as [Ek|Ek]; [exfalso|lia].
        assert (Ps : pub sh s) by (destruct F4 as [G|[G|G]]; [contradiction|contradiction|exact G]).
        assert (Ms : marked sh s 0 = false).
        { destruct (marked sh s 0) eqn:Q; [|reflexivity]. exfalso.
          destruct F5 as [F5|F5]; [contradiction|].
          pose proof (h_top _ H s Q i F5) as Q2. unfold marked in Q2. rewrite W in Q2. discriminate. }
        destruct (h_chain _ H) as [c Hc].
        assert (Hsc : In s c).
        { destruct Ps as [_ [G|G]]; [now apply (onchain_in sh c s Hc)|congruence]. }
        assert (Hxc : In x c).
        { destruct Bp as [_ [G|G]]; [now apply (onchain_in sh c x Hc)|congruence]. }
        assert (Esx : s = x).
        { apply (sorted_inj _ c (path_sorted sh H c _ Hc)); auto. cbv beta. congruence. }
        destruct B2 as (_ & B21 & _).
        destruct (proj2 (A2 i) i (le_n i)) as [G|[G|G]]; fold s in G.
        -- contradiction.
        -- apply (B21 i (le_n i)). now rewrite <- Esx.
        -- unfold marked in G. rewrite W in G. discriminate.
      * intros y j Ey. right. exists j. exact Ey.
  - (* LInsOwn *)
    destruct Hl as (A & ((Bp & Bk) & Bl & Bi)). destruct Hl2 as (A2 & B2 & C2).
    pose proof B2 as (B20 & B21 & B22).
    assert (Hlen : length (nxt (node sh x)) = S xl) by (rewrite (h_nl _ H x (or_intror Bp)); now rewrite Bl).
    destruct (getnext sh x i) as [nn deleted] eqn:W.
    assert (Hsg : deleted = false -> sgt sh k (succ_at b i)).
    { intros ->. destruct C2 as [C2|C2]; [exfalso|exact C2].
      assert (Q : (i < length (nxt (node sh x)))%nat) by (rewrite Hlen; lia).
      pose proof (h_top _ H x C2 i Q) as Q2. unfold marked in Q2. rewrite W in Q2. discriminate. }
    destruct deleted.
    + unfold insert_finish in E. inv_step E. apply sok2_same; fin2.
      intros y j Ey. inversion Ey; subst y j. right. intros lv Q1 Q2. right.
      apply (l_seg _ L x i lv); [unfold marked; now rewrite W|]. rewrite Hlen. rewrite Bl in Q2. lia.
    + destruct (Nat.eqb_spec nn (succ_at b i)) as [En|En].
      * inv_step E. apply sok2_same; fin2.
        -- cbn [linv2]. split; [exact A2|]. split; [exact B2|]. split; [now rewrite W|now apply Hsg].
        -- intros y j Ey. right. exists j. exact Ey.
      * assert (Ed : dcas sh x i nn (succ_at b i) false = (set_next sh x i (succ_at b i, false), true)).
        { unfold dcas. rewrite W, Nat.eqb_refl. reflexivity. }
        rewrite Ed in E. inv_step E.
        assert (R1 : (x < N sh)%nat) by apply Bp.
        assert (R2 : (i < length (nxt (node sh x)))%nat) by (rewrite Hlen; lia).
        destruct (leff_own sh x i (succ_at b i) nn H L W R1 R2 (B21 i (le_n i)) B20 (proj2 (A2 i))) as [L1 X1].
        apply (sok2_mk sh _ _ _ _ None (Some x) None L1 X1); [reflexivity|..]; fin2.
        -- cbn [linv2]. split; [eapply bufr_ext; eauto|]. split; [eapply insr_ext; eauto; discriminate|].
           split; [|apply sgt_set_next; now apply Hsg].
           rewrite getnext_set_next, !Nat.eqb_refl. cbn [andb].
           replace (x <? N sh)%nat with true by (symmetry; now apply Nat.ltb_lt).
           replace (i <? length (nxt (node sh x)))%nat with true by (symmetry; now apply Nat.ltb_lt). reflexivity.
        -- intros y j Ey lv Q1 _. right. exists j. split; [exact Ey|exact Q1].
        -- intros y j Ey. right. exists j. exact Ey.
  - (* LInsLink *)
    destruct Hl as (A & ((Bp & Bk) & Bl & Bi)). destruct Hl2 as (A2 & B2 & C2 & D2).
    pose proof B2 as (B20 & B21 & B22).
    destruct (pub_ne _ _ Bp) as [Xh Xt].
    destruct (dcas sh (pred_at b i) i (succ_at b i) x false) as [sh1 ok] eqn:Ed.
    destruct (dcas_spec _ _ _ _ _ _ _ _ Ed) as [(-> & Wp & ->)|(-> & ->)].
    + pose proof (rch_unmarked sh i (pred_at b i) _ (proj1 (A2 i)) Wp) as Hpc.
      destruct (cas_inrange sh i (pred_at b i) H L Hpc) as [R1 R2].
      { intros _. pose proof (h_lvl _ H x). lia. }
      destruct (leff_link sh (pred_at b i) i x (succ_at b i) H L Wp R1 R2 C2 Xt Xh (B21 i (le_n i)) Hpc) as (L1 & X1 & O1).
      { intros j Hj. right. now apply B22. }
      { pose proof A as (_ & _ & Fb). destruct (Fb i) as (F1 & _).
        destruct (node_lt_cases _ _ _ F1) as [_ Ck]. unfold nlt. destruct Ck as [Ck|Ck]; [now left|right; right; lia]. }
      { unfold nlt. destruct D2 as [D2|[_ D2]]; [right; now left|right; right; lia]. }
      inv_step E.
      apply (sok2_mk sh _ _ _ _ (Some (x, i)) None None L1 X1); [reflexivity|..]; fin2.
      * cbn [linv2]. split; [eapply bufr_ext; eauto|]. split; [exact B20|]. split.
        -- intros j Hj Q. destruct (x_non _ _ _ _ _ X1 j x Q) as [Q'|Q']; [|inversion Q'; lia].
           revert Q'. apply B21. lia.
        -- intros j Hj. destruct (Nat.eq_dec j i) as [->|]; [now left|]. apply (x_lnk _ _ _ _ _ X1). apply B22. lia.
      * intros y j Ey lv Q1 Q2. inversion Ey; subst y j.
        destruct (Nat.eq_dec lv i) as [->|]; [left; now left|]. right. exists (S i). split; [reflexivity|lia].
      * intros y j Ey. right. exists i. inversion Ey; subst. reflexivity.
      * intros y j Ey _. inversion Ey; subst. eauto.
    + inv_step E. apply sok2_same; fin2.
      * cbn [linv2 cont2]. auto.
      * intros y j Ey. right. exists j. exact Ey.
  - (* LInsCheck *)
    destruct Hl as (A & ((Bp & Bk) & Bl & Bi)). destruct Hl2 as (A2 & B2).
    pose proof B2 as (B20 & B21 & B22).
    assert (Hlen : length (nxt (node sh x)) = S xl) by (rewrite (h_nl _ H x (or_intror Bp)); now rewrite Bl).
    destruct (snd (getnext sh x i)) eqn:W.
    + inv_step E. apply sok2_same; fin2.
      * cbn [linv2 cont2]. auto.
      * intros y j Ey. inversion Ey; subst y j. right. intros lv Q1 Q2. right.
        apply (l_seg _ L x i lv); [exact W|]. rewrite Hlen. rewrite Bl in Q2. lia.
    + destruct (i <? xl)%nat eqn:Li.
      * inv_step E. apply sok2_same; fin2.
        -- cbn [linv2]. auto.
        -- intros y j Ey. right. exists j. exact Ey.
      * apply Nat.ltb_ge in Li. unfold insert_finish in E. inv_step E. apply sok2_same; fin2.
        intros y j Ey. inversion Ey; subst y j. right. intros lv Q1 Q2. rewrite Bl in Q2. lia.
  - (* LSdLoad *)
    destruct Hl as (A & B & Ab).
    destruct (getnext sh n i) as [next deleted] eqn:W.
    destruct deleted.
    + destruct i as [|j].
      * assert (Mn : marked sh n 0 = true) by (unfold marked; now rewrite W).
        destruct m; inv_step E; apply sok2_same; fin2.
        -- cbn [linv2 cont2]. split; [apply bufr0|exact I].
        -- intros y Ey. left. inversion Ey; subst. exact Mn.
        -- intros y Ey. left. inversion Ey; subst. exact Mn.
      * inv_step E. apply sok2_same; fin2.
    + inv_step E. apply sok2_same; fin2.
  - (* LSdCas *)
    destruct Hl as ((Ap & Ak) & -> & Ab).
    destruct (dcas sh n i next next true) as [sh1 ok] eqn:Ed.
    destruct (dcas_spec _ _ _ _ _ _ _ _ Ed) as [(-> & Wp & ->)|(-> & ->)].
    + assert (Er : exists m', r = inl (LSdLoad k n i m')).
      { destruct i; cbn [andb Nat.eqb] in E; inv_step E; eexists; reflexivity. }
      destruct Er as (m' & ->).
      assert (Hh : heap sh' = heap (set_next sh n i (next, true))).
      { destruct i; cbn [andb Nat.eqb] in E; inv_step E; reflexivity. }
      assert (Hhl : sl_level sh' = sl_level (set_next sh n i (next, true))).
      { destruct i; cbn [andb Nat.eqb] in E; inv_step E; reflexivity. }
      destruct (Nat.lt_ge_cases i (length (nxt (node sh n)))) as [R2|R2].
      * assert (R1 : (n < N sh)%nat) by apply Ap.
        destruct (leff_mark sh n i next H L Wp R1 R2) as [L1 X1].
        { intros j Hj. apply Ab; lia. }
        apply (sok2_mk sh _ _ sh' _ None None (Some (n, i)) L1 X1 Hh Hhl); fin2.
        intros y j Ey. inversion Ey; subst. split; reflexivity.
      * assert (Hh2 : heap sh' = heap sh).
        { rewrite Hh. apply set_next_noop. lia. }
        apply sok2_same; fin2.
    + cbn [andb] in E. inv_step E. apply sok2_same; fin2.
  - (* LItFirst *)
    inv_step E. apply sok2_same; fin2.
  - (* LItNext *)
    destruct (getnext sh (it_curr it) 0) as [next deleted]. destruct deleted; [inv_step E; apply sok2_same; fin2|].
    destruct (next_done_spec _ _ _ _ _ _ E) as (-> & -> & [(-> & _)| -> ]); apply sok2_same; fin2.
    cbn [linv2 cont2]. split; [apply bufr0|exact I].
  - (* LItHelp *)
    destruct Hl as (A & B & W). destruct A as (A1 & A2 & A3 & A4 & A5).
    pose proof (gok_pub_or_hd _ _ A1 A3) as Dp.
    destruct (dcas sh (it_prev it) 0 (it_curr it) next false) as [sh1 ok] eqn:Ed.
    destruct (dcas_spec _ _ _ _ _ _ _ _ Ed) as [(-> & Wp & ->)|(-> & ->)].
    + assert (Hct : it_curr it <> tl_id) by (intros Q; rewrite Q, (h_tl _ H) in W; congruence).
      destruct (word_inrange sh _ 0 _ false Wp (or_introl Hct)) as [R1 R2].
      assert (Hpc : it_prev it = hd_id \/ onl sh 0 (it_prev it)).
      { destruct Dp as [Dp|[_ [Dp|Dp]]]; [now left|now right|]. unfold marked in Dp. rewrite Wp in Dp. discriminate. }
      destruct (leff_unlink sh _ 0 _ next H L Wp W R1 R2 Hpc) as [L1 X1].
      destruct (next_done_spec _ _ _ _ _ _ E) as (-> & -> & [(-> & _)| -> ]);
        apply (sok2_mk sh _ _ _ _ None None None L1 X1); [reflexivity|..]; fin2.
      cbn [linv2 cont2]. split; [apply bufr0|exact I].
    + inv_step E. apply sok2_same; fin2. cbn [linv2 cont2]. split; [apply bufr0|exact I].
Qed.

(** ** the global invariant for the upper levels *)

Record Inv2 (y : sysT) : Prop := {
  j_l : LInv (sh y);
  j_th : forall i t l, nth_error (ths y) i = Some t -> cur t = Some l -> linv2 (sh y) l;
  j_ins : forall i j ti tj li lj x, nth_error (ths y) i = Some ti -> nth_error (ths y) j = Some tj ->
          cur ti = Some li -> cur tj = Some lj -> insn li = Some x -> insn lj = Some x -> i = j;
  (* every published node is linked at each of its levels, or marked there, or still being linked *)
  j_p7 : forall x lv, pub (sh y) x -> (1 <= lv <= lvl (node (sh y) x))%nat ->
         lnk (sh y) lv x \/
         exists i t l i', nth_error (ths y) i = Some t /\ cur t = Some l /\ insi l = Some (x, i') /\ (i' <= lv)%nat;
  (* a node marked above level 0 but not yet at level 0 has a deleter at work *)
  j_p8 : forall n lv, marked (sh y) n lv = true -> marked (sh y) n 0 = false ->
         exists i t l, nth_error (ths y) i = Some t /\ cur t = Some l /\ delx l = Some n
}.

Lemma insi_pub sh p l x i : linv sh p l -> insi l = Some (x, i) -> pub sh x.
Proof.
  destruct l; cbn [linv insi]; try discriminate; intros Hl Hi;
    try (destruct c; cbn [insi_fk] in Hi; try discriminate; inversion Hi; subst; cbn [cont_ok] in Hl).
  - destruct Hl as (_ & ((P & _) & _)). exact P.
  - destruct Hl as (_ & ((P & _) & _) & _). exact P.
  - destruct Hl as (_ & ((P & _) & _) & _). exact P.
  - destruct Hl as (_ & ((P & _) & _) & _). exact P.
  - inversion Hi; subst. destruct Hl as (_ & ((P & _) & _)). exact P.
  - inversion Hi; subst. destruct Hl as (_ & ((P & _) & _)). exact P.
  - inversion Hi; subst. destruct Hl as (_ & ((P & _) & _)). exact P.
  - inversion Hi; subst. destruct Hl as (_ & ((P & _) & _)). exact P.
Qed.

Lemma own_priv sh p l x : linv sh p l -> own_l l = Some x -> exists k xl, priv sh k x xl.
Proof.
  destruct l; cbn [linv own_l]; try discriminate; intros Hl Ho;
    try (destruct c; cbn [own_fk] in Ho; try discriminate; inversion Ho; subst; cbn [cont_ok] in Hl).
  - destruct Hl as (_ & P). eauto.
  - destruct Hl as (_ & P & _). eauto.
  - destruct Hl as (_ & P & _). eauto.
  - destruct Hl as (_ & P & _). eauto.
  - inversion Ho; subst. destruct Hl as (_ & P & _). eauto.
Qed.

Lemma delx_pub sh p l n : linv sh p l -> delx l = Some n -> pub sh n.
Proof.
  destruct l; cbn [linv delx]; try discriminate; intros Hl Hd; inversion Hd; subst.
  - apply Hl.
  - apply Hl.
Qed.

Lemma begin2 tid o p sh sh' p' l' : begin tid o p sh = (sh', p', inl l') -> linv2 sh l' /\ insi l' = None.
Proof.
  intros E. destruct o; cbn [begin] in E; try (inversion E; subst; cbn [linv2 insi insi_fk cont2]; auto using bufr0; fail).
  - destruct (find_node p k); [unfold softdelete_start in E|]; inversion E; subst; cbn; auto.
  - destruct (it_valid (p_it p) && negb (Nat.eqb (it_curr (p_it p)) tl_id)); inversion E; subst; cbn; auto.
Qed.

Lemma insn_insi l x : insn l = Some x <-> exists i, insi l = Some (x, i).
Proof.
  unfold insn. destruct (insi l) as [[y i]|]; cbn; split.
  - intros E. inversion E; subst. eauto.
  - intros (i0 & E). inversion E; subst. reflexivity.
  - discriminate.
  - intros (i0 & E). discriminate.
Qed.

Lemma cur_finish (t : thr) rest p' (r : local + result) :
  cur (finish_seg local pers op result t rest p' r) = match r with inl l' => Some l' | inr _ => None end.
Proof. destruct r; reflexivity. Qed.

Lemma pub_dec sh x : HInv sh -> pub sh x \/ ~ pub sh x.
Proof.
  intros H. destruct (h_chain _ H) as [c Hc].
  destruct (le_lt_dec 2 x) as [A|A]; [|right; intros [R _]; lia].
  destruct (lt_dec x (N sh)) as [B|B]; [|right; intros [R _]; lia].
  destruct (in_dec Nat.eq_dec x c) as [C|C]; [left; split; [lia|left; now apply (onchain_in sh c x Hc)]|].
  destruct (marked sh x 0) eqn:M; [left; split; [lia|now right]|].
  right. intros [_ [G|G]]; [apply C; now apply (onchain_in sh c x Hc)|congruence].
Qed.

Lemma Inv2_upd progs y i t l s' p' r :
  Inv progs y -> Inv2 y -> nth_error (ths y) i = Some t -> cur t = Some l ->
  HInv s' -> (exists ex mk, ext (sh y) s' ex mk) -> StepOK2 (sh y) l s' r ->
  Inv2 (mkSys s' (upd_th i (finish_seg local pers op result t (todo t) p' r) (ths y))).
Proof.
  intros HI HJ Ht Hc H' (ex & mk & X) [L' (lk & ow & mkl & XL & Hlk & How & Hmk & Hlk2) Tinv Tins Tpub Tdel Tnew].
  pose proof (i_h _ _ HI) as H.
  pose proof (nth_lt _ _ _ Ht) as Hi.
  destruct (i_th _ _ HI i t Ht) as (Hp & _ & Hl). rewrite Hc in Hl.
  set (t' := finish_seg local pers op result t (todo t) p' r).
  assert (Hnew : nth_error (upd_th i t' (ths y)) i = Some t') by (now apply nth_upd_same).
  assert (Hoth : forall j, j <> i -> nth_error (upd_th i t' (ths y)) j = nth_error (ths y) j).
  { intros j Hj. apply nth_upd_other. congruence. }
  assert (Hct : cur t' = match r with inl l' => Some l' | inr _ => None end) by apply cur_finish.
  (* the other threads' inserted nodes are disjoint from what this step links / rewrites *)
  assert (Hdis : forall j tj lj x i0, j <> i -> nth_error (ths y) j = Some tj -> cur tj = Some lj ->
                 insi lj = Some (x, i0) -> (forall j', lk <> Some (x, j')) /\ ow <> Some x).
  { intros j tj lj x i0 Hj Hn Hcj Hij.
    destruct (i_th _ _ HI j tj Hn) as (_ & _ & Hlj). rewrite Hcj in Hlj.
    pose proof (insi_pub _ _ _ _ _ Hlj Hij) as Px.
    assert (Hown : own_l l <> Some x).
    { intros Ho. destruct (own_priv _ _ _ _ Hl Ho) as (k0 & xl0 & P0). now apply P0. }
    assert (Hins : insn l <> Some x).
    { intros Hi2. apply Hj. symmetry. apply (j_ins _ HJ i j t tj l lj x Ht Hn Hc Hcj Hi2). apply insn_insi. eauto. }
    split.
    - intros j' E. destruct (Hlk x j' E) as [[_ G]|G]; [now apply Hown|]. apply Hins. apply insn_insi. eauto.
    - intros E. destruct (How x E) as [G|[G|G]]; [now apply Hown|now apply Hins|]. destruct Px as [R _]. lia. }
  assert (Hpub : forall x, pub s' x -> pub (sh y) x \/ own_l l = Some x).
  { intros x [R [G|G]].
    - destruct (x_non _ _ _ _ _ XL 0%nat x G) as [G'|G'].
      + left. destruct G' as (c & Hc0 & Hi0). apply (path_in_pub (sh y) H c _ Hc0 _ Hi0).
      + destruct (Hlk x 0%nat G') as [[_ G2]|G2]; [now right|left]. eapply insi_pub; eauto.
    - destruct (x_mk _ _ _ _ _ XL x 0%nat G) as [G'|G'].
      + left. destruct (marked_lt _ _ _ G') as [R1 _]. split; [|now right]. split; [apply R|exact R1].
      + destruct (Hmk x 0%nat G') as [G2 _]. left. eapply delx_pub; eauto. }
  constructor; cbn [sh ths].
  - exact L'.
  - intros j tj lj Hn Hcj. destruct (Nat.eq_dec j i) as [->|Hj].
    + rewrite Hnew in Hn. inversion Hn; subst tj. rewrite Hct in Hcj. destruct r as [l'|]; [|discriminate].
      inversion Hcj; subst. exact Tinv.
    + rewrite Hoth in Hn by exact Hj.
      apply (linv2_ext (sh y) s' lk ow mkl ex mk XL X); [|apply (j_th _ HJ j tj lj Hn Hcj)].
      intros x i0 Hij. eapply Hdis; eauto.
  - intros j1 j2 t1 t2 l1 l2 x Hn1 Hn2 Hc1 Hc2 Hi1 Hi2.
    assert (Hcase : forall j tj lj, j <> i -> nth_error (ths y) j = Some tj -> cur tj = Some lj -> insn lj = Some x ->
              forall l', r = inl l' -> insn l' = Some x -> False).
    { intros j tj lj Hj Hn Hcj Hij l' -> Hil'. apply insn_insi in Hil'. destruct Hil' as (i1 & Hil').
      apply insn_insi in Hij. destruct Hij as (i2 & Hij).
      destruct (i_th _ _ HI j tj Hn) as (_ & _ & Hlj). rewrite Hcj in Hlj.
      destruct (Tnew x i1 Hil') as [G|(i0 & G)].
      - destruct (own_priv _ _ _ _ Hl G) as (k0 & xl0 & P0). apply P0. eapply insi_pub; eauto.
      - apply Hj. symmetry. apply (j_ins _ HJ i j t tj l lj x Ht Hn Hc Hcj); apply insn_insi; eauto. }
    destruct (Nat.eq_dec j1 i) as [->|Hj1], (Nat.eq_dec j2 i) as [->|Hj2]; try reflexivity.
    + rewrite Hnew in Hn1. inversion Hn1; subst t1. rewrite Hct in Hc1. destruct r as [l'|]; [|discriminate].
      inversion Hc1; subst l1. rewrite Hoth in Hn2 by exact Hj2.
      exfalso. eapply (Hcase j2 t2 l2); eauto.
    + rewrite Hnew in Hn2. inversion Hn2; subst t2. rewrite Hct in Hc2. destruct r as [l'|]; [|discriminate].
      inversion Hc2; subst l2. rewrite Hoth in Hn1 by exact Hj1.
      exfalso. eapply (Hcase j1 t1 l1); eauto.
    + rewrite Hoth in Hn1, Hn2 by assumption. eapply (j_ins _ HJ); eauto.
  - intros x lv Px Hlv.
    assert (Hthr : forall l', r = inl l' -> forall i', insi l' = Some (x, i') -> (i' <= lv)%nat ->
              exists i0 t0 l0 i1, nth_error (upd_th i t' (ths y)) i0 = Some t0 /\ cur t0 = Some l0 /\
                                  insi l0 = Some (x, i1) /\ (i1 <= lv)%nat).
    { intros l' -> i' Hi' Hle. exists i, t', l', i'. rewrite Hct. auto. }
    destruct (Hpub x Px) as [Px0|Po].
    + assert (Elv : lvl (node s' x) = lvl (node (sh y) x)) by (apply (e_key _ _ _ _ X); apply Px0).
      rewrite Elv in Hlv.
      destruct (j_p7 _ HJ x lv Px0 Hlv) as [G|(j & tj & lj & i' & Hn & Hcj & Hij & Hle)].
      * left. now apply (x_lnk _ _ _ _ _ XL).
      * destruct (Nat.eq_dec j i) as [->|Hj].
        -- rewrite Ht in Hn. inversion Hn; subst tj. rewrite Hc in Hcj. inversion Hcj; subst lj.
           destruct (Tins x i' Hij lv Hle (proj2 Hlv)) as [G|G]; [now left|right].
           destruct r as [l'|]; [|contradiction]. destruct G as (i2 & G1 & G2). eapply Hthr; eauto.
        -- right. exists j, tj, lj, i'. rewrite Hoth by exact Hj. auto.
    + destruct (own_priv _ _ _ _ Hl Po) as (k0 & xl0 & P0).
      assert (Elv : lvl (node s' x) = lvl (node (sh y) x)) by (apply (e_key _ _ _ _ X); apply P0).
      rewrite Elv in Hlv. right.
      pose proof (Tpub x Po Px lv (proj1 Hlv) (proj2 Hlv)) as G.
      destruct r as [l'|]; [|contradiction]. destruct G as (i2 & G1 & G2). eapply Hthr; eauto.
  - intros n lv Hm Hm0.
    assert (Hm0' : marked (sh y) n 0 = false).
    { destruct (marked (sh y) n 0) eqn:Q; [|reflexivity].
      unfold marked in *. rewrite (e_mark _ _ _ _ X n 0%nat Q) in Hm0. congruence. }
    destruct (x_mk _ _ _ _ _ XL n lv Hm) as [G|G].
    + destruct (j_p8 _ HJ n lv G Hm0') as (j & tj & lj & Hn & Hcj & Hdj).
      destruct (Nat.eq_dec j i) as [->|Hj].
      * rewrite Ht in Hn. inversion Hn; subst tj. rewrite Hc in Hcj. inversion Hcj; subst lj.
        destruct (Tdel n Hdj) as [Q|Q]; [congruence|].
        destruct r as [l'|]; [|contradiction]. exists i, t', l'. rewrite Hct. auto.
      * exists j, tj, lj. rewrite Hoth by exact Hj. auto.
    + destruct (Hmk n lv G) as [_ Q]. destruct r as [l'|]; [|contradiction]. exists i, t', l'. rewrite Hct. auto.
Qed.

Lemma Inv2_step progs y i : Inv progs y -> Inv2 y -> Inv2 (stepS y i).
Proof.
  intros HI HJ. unfold stepS, step_at.
  destruct (nth_error (ths y) i) as [t|] eqn:Ht; [|exact HJ].
  destruct (i_th _ _ HI i t Ht) as (Hp & _ & Hl).
  pose proof (nth_lt _ _ _ Ht) as Hi.
  destruct (cur t) as [l|] eqn:Hc.
  - cbn [blocked].
    destruct (step i l (pers_of t) (sh y)) as [[s' p'] r] eqn:Es.
    pose proof (step_ok i l (pers_of t) (sh y) s' p' r (i_h _ _ HI) Hp Hl Es) as S.
    pose proof (step2 i l (pers_of t) (sh y) s' p' r (i_h _ _ HI) (j_l _ HJ) Hp Hl (j_th _ HJ i t l Ht Hc) Es) as S2.
    apply (Inv2_upd progs y i t l s' p' r HI HJ Ht Hc (s_h _ _ _ _ _ _ _ _ _ _ S)); [|exact S2].
    destruct (s_ext _ _ _ _ _ _ _ _ _ _ S) as (ex & mk & X & _). eauto.
  - destruct (todo t) as [|o rest] eqn:Htd; [exact HJ|]. cbn [blocked_begin].
    destruct (begin i o (pers_of t) (sh y)) as [[s' p'] r] eqn:Eb.
    pose proof Eb as Eb0.
    destruct (begin_ok i o (pers_of t) (sh y) s' p' r (i_h _ _ HI) Hp Eb) as (-> & _ & Hr).
    set (t' := finish_seg local pers op result t rest p' r).
    assert (Hnew : nth_error (upd_th i t' (ths y)) i = Some t') by (now apply nth_upd_same).
    assert (Hoth : forall j, j <> i -> nth_error (upd_th i t' (ths y)) j = nth_error (ths y) j).
    { intros j Hj. apply nth_upd_other. congruence. }
    assert (Hct : cur t' = match r with inl l' => Some l' | inr _ => None end) by apply cur_finish.
    constructor; cbn [sh ths].
    + apply HJ.
    + intros j tj lj Hn Hcj. destruct (Nat.eq_dec j i) as [->|Hj].
      * rewrite Hnew in Hn. inversion Hn; subst tj. rewrite Hct in Hcj. destruct r as [l'|]; [|discriminate].
        inversion Hcj; subst. apply (begin2 _ _ _ _ _ _ _ Eb0).
      * rewrite Hoth in Hn by exact Hj. eapply (j_th _ HJ); eauto.
    + intros j1 j2 t1 t2 l1 l2 x Hn1 Hn2 Hc1 Hc2 Hi1 Hi2.
      assert (Hno : forall tj lj, nth_error (upd_th i t' (ths y)) i = Some tj -> cur tj = Some lj -> insn lj = Some x -> False).
      { intros tj lj Hn Hcj Hij. rewrite Hnew in Hn. inversion Hn; subst tj. rewrite Hct in Hcj.
        destruct r as [l'|]; [|discriminate]. inversion Hcj; subst.
        destruct (begin2 _ _ _ _ _ _ _ Eb0) as [_ Q]. unfold insn in Hij. rewrite Q in Hij. discriminate. }
      destruct (Nat.eq_dec j1 i) as [->|Hj1]; [exfalso; eapply Hno; eauto|].
      destruct (Nat.eq_dec j2 i) as [->|Hj2]; [exfalso; eapply Hno; eauto|].
      rewrite Hoth in Hn1, Hn2 by assumption. eapply (j_ins _ HJ); eauto.
    + intros x lv Px Hlv. destruct (j_p7 _ HJ x lv Px Hlv) as [G|(j & tj & lj & i' & Hn & Hcj & Hij & Hle)]; [now left|right].
      assert (Hj : j <> i) by (intros ->; rewrite Ht in Hn; inversion Hn; subst; congruence).
      exists j, tj, lj, i'. rewrite Hoth by exact Hj. auto.
    + intros n lv Hm Hm0. destruct (j_p8 _ HJ n lv Hm Hm0) as (j & tj & lj & Hn & Hcj & Hdj).
      assert (Hj : j <> i) by (intros ->; rewrite Ht in Hn; inversion Hn; subst; congruence).
      exists j, tj, lj. rewrite Hoth by exact Hj. auto.
Qed.

Lemma LInv_init : LInv init_sh.
Proof.
  constructor.
  - intros l. exists []. split; [|constructor]. cbn [path]. now rewrite init_getnext.
  - intros l n _. rewrite init_getnext. right; now left.
  - intros n i j Hm. unfold marked in Hm. rewrite init_getnext in Hm. discriminate.
  - intros a l j _. rewrite init_getnext. now left.
  - reflexivity.
  - intros n Hn. unfold node, init_sh. cbn [heap sl_level]. destruct n as [|[|n]]; [lia|lia|]. cbn [nth]. now destruct n.
Qed.

Lemma Inv2_init progs : Inv2 (init progs).
Proof.
  assert (Hno : forall i t l, nth_error (ths (init progs)) i = Some t -> cur t = Some l -> False).
  { intros i t l Hn Hc. unfold init in Hn. cbn [ths] in Hn. rewrite nth_error_map in Hn.
    destruct (nth_error progs i); [|discriminate]. inversion Hn; subst. discriminate. }
  constructor.
  - exact LInv_init.
  - intros i t l Hn Hc. destruct (Hno i t l Hn Hc).
  - intros i j ti tj li lj x Hn _ Hc. destruct (Hno i ti li Hn Hc).
  - intros x lv [R _]. cbn in R. lia.
  - intros n lv Hm. unfold init, marked in Hm. cbn [sh] in Hm. rewrite init_getnext in Hm. discriminate.
Qed.

Lemma Inv12_reach progs sched : Inv progs (runS (init progs) sched) /\ Inv2 (runS (init progs) sched).
Proof.
  unfold runS.
  apply (Inv_run shared local pers op result begin step blocked blocked_begin (fun y => Inv progs y /\ Inv2 y)).
  - intros y i [A B]. split; [now apply Inv_step|now apply (Inv2_step progs)].
  - split; [apply Inv_init|apply Inv2_init].
Qed.

(** ** the theorem *)

Lemma chain_some_l sh l c : HInv sh -> path sh l hd_id c -> NoDup c -> chain_ids sh l = Some c.
Proof.
  intros H Hp Hnd. unfold chain_ids.
  assert (Hpub : forall m, In m c -> pub sh m) by (eapply path_in_pub_l; eassumption).
  rewrite (walk_path sh l c hd_id); [reflexivity|exact Hp| | |].
  - intros m Hm. apply (pub_ne sh), Hpub, Hm.
  - discriminate.
  - assert (Hinc : incl c (seq 2 (N sh - 2))).
    { intros m Hm. apply in_seq. destruct (Hpub m Hm) as [R _]. lia. }
    pose proof (NoDup_incl_length Hnd Hinc) as Q. rewrite seq_length in Q. pose proof (h_len _ H). lia.
Qed.

Lemma path_lb_le sh l : HInv sh -> forall c a, path sh l a c -> a <> hd_id ->
  Forall (fun m => key (node sh a) <= key (node sh m)) c.
Proof.
  intros H. induction c as [|x r IH]; intros a Hp Ha; [constructor|].
  cbn [path] in Hp. destruct Hp as (E & Hx & Hp).
  assert (Hax : key (node sh a) <= key (node sh x)).
  { pose proof (h_edge _ H a l) as G. rewrite E in G. destruct G as [G|[G|G]]; try contradiction. now apply klt_le in G. }
  assert (Hxh : x <> hd_id).
  { apply (pt_ne_hd sh). rewrite <- E. apply h_pp; exact H. }
  constructor; [exact Hax|].
  pose proof (IH x Hp Hxh) as F. eapply Forall_impl; [|exact F]. cbn. intros; lia.
Qed.

Lemma path_sorted_le sh l : HInv sh -> forall c a, path sh l a c ->
  StronglySorted Z.le (map (fun n => key (node sh n)) c).
Proof.
  intros H. induction c as [|x r IH]; intros a Hp; cbn [map]; [constructor|].
  cbn [path] in Hp. destruct Hp as (E & Hx & Hp). constructor; [eapply IH; exact Hp|].
  assert (Hxh : x <> hd_id).
  { apply (pt_ne_hd sh). rewrite <- E. apply h_pp; exact H. }
  pose proof (path_lb_le sh l H r x Hp Hxh) as F. rewrite Forall_map. exact F.
Qed.

Lemma sorted_filter {A} (R : Z -> Z -> Prop) (f : A -> Z) (g : A -> bool) c :
  StronglySorted R (map f c) -> StronglySorted R (map f (filter g c)).
Proof.
  induction c as [|x r IH]; cbn [map filter]; intros Hs; [constructor|].
  inversion Hs as [|? ? Hs' Hf]; subst. destruct (g x); cbn [map]; [|now apply IH].
  constructor; [now apply IH|]. rewrite Forall_map in *. rewrite Forall_forall in *.
  intros y Hy. apply Hf. apply filter_In in Hy. apply Hy.
Qed.

Lemma sorted_le_lt {A} (f : A -> Z) c : StronglySorted Z.le (map f c) -> NoDup c ->
  (forall a b, In a c -> In b c -> f a = f b -> a = b) -> StronglySorted Z.lt (map f c).
Proof.
  induction c as [|x r IH]; cbn [map]; intros Hs Hnd Hinj; [constructor|].
  inversion Hs as [|? ? Hs' Hf]; subst. apply NoDup_cons_iff in Hnd. destruct Hnd as [Hx Hnd].
  constructor.
  - apply IH; auto. intros a b Ha Hb. apply Hinj; now right.
  - rewrite Forall_map in *. rewrite Forall_forall in *. intros y Hy. specialize (Hf y Hy).
    destruct (Z.eq_dec (f x) (f y)) as [E|E]; [|lia].
    exfalso. apply Hx. rewrite (Hinj x y); auto; [now left|now right].
Qed.

Lemma sorted_same {A} (f : A -> Z) : forall c1 c2 : list A,
  StronglySorted Z.lt (map f c1) -> StronglySorted Z.lt (map f c2) ->
  (forall a, In a c1 <-> In a c2) -> c1 = c2.
Proof.
  induction c1 as [|x r IH]; intros [|y s] H1 H2 Hio.
  - reflexivity.
  - exfalso. apply (proj2 (Hio y)). now left.
  - exfalso. apply (proj1 (Hio x)). now left.
  - cbn [map] in *. inversion H1 as [|? ? H1' F1]; subst. inversion H2 as [|? ? H2' F2]; subst.
    rewrite Forall_map, Forall_forall in F1, F2.
    assert (x = y).
    { destruct (proj1 (Hio x) (or_introl eq_refl)) as [E|E]; [now symmetry|].
      destruct (proj2 (Hio y) (or_introl eq_refl)) as [E'|E']; [exact E'|].
      specialize (F1 _ E'). specialize (F2 _ E). lia. }
    subst y. f_equal. apply IH; auto. intros a. split; intros Ha.
    + destruct (proj1 (Hio a) (or_intror Ha)) as [E|E]; [|exact E]. subst a. specialize (F1 _ Ha). lia.
    + destruct (proj2 (Hio a) (or_intror Ha)) as [E|E]; [|exact E]. subst a. specialize (F2 _ Ha). lia.
Qed.

Theorem levels : stmt_levels.
Proof.
  intros progs sched y Hq l _. destruct (Inv12_reach progs sched) as [HI HJ]. fold y in HI, HJ.
  pose proof (i_h _ _ HI) as H. pose proof (j_l _ HJ) as L.
  destruct (h_chain _ H) as [c0 Hc0]. destruct (l_chain _ L l) as (cl & Hcl & Hndl).
  exists c0, cl. split; [now apply chain_some|]. split; [now apply chain_some_l|].
  assert (Hnone : forall t, In t (ths y) -> cur t = None).
  { intros t Ht. unfold quiescentS, quiescent in Hq. rewrite forallb_forall in Hq. specialize (Hq t Ht).
    unfold th_finished in Hq. destruct (cur t); [discriminate|reflexivity]. }
  assert (Q1 : forall n, In n c0 -> marked (sh y) n 0 = false).
  { destruct (quiescent_clean progs sched Hq) as (c & Ec & Hm & _). fold y in Ec, Hm.
    rewrite (chain_some _ c0 H Hc0) in Ec. inversion Ec; subst c. exact Hm. }
  assert (Q2 : forall n lv, marked (sh y) n lv = true -> marked (sh y) n 0 = true).
  { intros n lv Hm. destruct (marked (sh y) n 0) eqn:M0; [reflexivity|]. exfalso.
    destruct (j_p8 _ HJ n lv Hm M0) as (i & t & l0 & Hn & Hc & _).
    rewrite (Hnone t (nth_error_In _ _ Hn)) in Hc. discriminate. }
  assert (Q3 : forall x lv, pub (sh y) x -> (1 <= lv <= lvl (node (sh y) x))%nat -> lnk (sh y) lv x).
  { intros x lv Px Hlv. destruct (j_p7 _ HJ x lv Px Hlv) as [G|(i & t & l0 & i' & Hn & Hc & _)]; [exact G|].
    rewrite (Hnone t (nth_error_In _ _ Hn)) in Hc. discriminate. }
  assert (Hinj := sorted_inj _ c0 (path_sorted _ H c0 _ Hc0)).
  assert (HA : forall n, In n cl -> marked (sh y) n l = false -> In n c0 /\ (l <= lvl (node (sh y) n))%nat).
  { intros n Hn Hm. pose proof (path_in_pub_l _ l H cl _ Hcl n Hn) as Pn.
    pose proof (path_tow _ l H cl _ Hcl n Hn) as Tn.
    assert (M0 : marked (sh y) n 0 = false).
    { destruct (marked (sh y) n 0) eqn:M; [|reflexivity]. rewrite (h_top _ H n M l Tn) in Hm. discriminate. }
    split.
    - destruct Pn as [_ [G|G]]; [now apply (onchain_in _ c0 n Hc0)|congruence].
    - rewrite (h_nl _ H n (or_intror Pn)) in Tn. lia. }
  apply (sorted_same (fun n => key (node (sh y) n))).
  - apply sorted_le_lt.
    + apply sorted_filter. eapply path_sorted_le; eassumption.
    + now apply NoDup_filter.
    + intros a b Ha Hb. apply filter_In in Ha, Hb. destruct Ha as [Ha Ma], Hb as [Hb Mb].
      apply negb_true_iff in Ma, Mb. apply Hinj; [apply (HA a Ha Ma)|apply (HA b Hb Mb)].
  - apply sorted_filter. eapply path_sorted; eassumption.
  - intros n. rewrite !filter_In. split.
    + intros [Hn Mn]. apply negb_true_iff in Mn. destruct (HA n Hn Mn) as [G1 G2]. split; [exact G1|now apply Nat.leb_le].
    + intros [Hn Ln]. apply Nat.leb_le in Ln.
      assert (Pn : pub (sh y) n) by (eapply path_in_pub; eassumption).
      assert (Mn : marked (sh y) n l = false).
      { destruct (marked (sh y) n l) eqn:M; [|reflexivity]. pose proof (Q2 n l M) as G. rewrite (Q1 n Hn) in G. discriminate. }
      split; [|now rewrite Mn].
      destruct (Nat.eq_dec l 0) as [->|Hl0].
      * now rewrite (path_det _ _ _ _ _ Hcl Hc0).
      * destruct (Q3 n l Pn) as [G|G]; [lia| |congruence]. now apply (onl_in _ l cl n Hcl).
Qed.
Print Assumptions levels.

(** * No marked node stays linked at any level (levels_clean)

    With both repairs of Insert4 (re-check after every upper-level link; never link in front of a
    marked successor) the level chains are strictly sorted ([l_strict]), so a search for key k at
    level l cannot stop before a linked node of key k.  Invariant: every node A marked at level 0 and
    linked at a level l >= 1 is covered: (1) a node of A's key is being deleted (marked somewhere, not
    yet at level 0: its deleter will sweep), or (2) some thread is sweeping A's key: a deleter that has
    set a level-0 mark (trailing KUnlink search), or an inserter that saw its node marked at the
    re-check (KInsertDone search), with the level-l analogue of [Resp]. *)

Definition RespL sh (l : nat) (k : Z) (prev : nat) : Prop :=
  marked sh prev l = false \/
  marked sh (fst (getnext sh prev l)) l = true \/ node_lt sh (fst (getnext sh prev l)) k = true.

Definition swk (c : fk) : Prop := match c with KUnlink | KInsertDone _ _ => True | _ => False end.

Definition sweepl sh (l A : nat) (loc : local) : Prop :=
  match loc with
  | LSdLoad k n i m => m = true /\ k = key (node sh A)
  | LInsCheck k x xl b i => k = key (node sh A) /\ marked sh x i = true /\ (l <= i)%nat
  | LFP0 k c b => swk c /\ k = key (node sh A)
  | LFP1 k c b i prev => swk c /\ k = key (node sh A) /\ (l <= i)%nat /\ RespL sh l k prev
  | LFP2 k c b i prev curr =>
    swk c /\ k = key (node sh A) /\ (l <= i)%nat /\ RespL sh l k prev /\
    (i = l -> marked sh curr l = true \/ node_lt sh curr k = true)
  | LFPH k c b i prev curr next => swk c /\ k = key (node sh A) /\ (l <= i)%nat /\ RespL sh l k prev
  | _ => False
  end.

Definition pend sh (A : nat) : Prop :=
  exists B j, key (node sh B) = key (node sh A) /\ marked sh B j = true /\ marked sh B 0 = false.

Lemma path_lb_s sh l : HInv sh -> forall c a, path sh l a c ->
  (forall m, m = a \/ In m c -> nlt sh m (fst (getnext sh m l))) -> a <> hd_id ->
  Forall (fun m => key (node sh a) < key (node sh m)) c.
Proof.
  intros H. induction c as [|x r IH]; intros a Hp Hs Ha; [constructor|].
  cbn [path] in Hp. destruct Hp as (E & Hx & Hp).
  assert (Hax : key (node sh a) < key (node sh x)).
  { pose proof (Hs a (or_introl eq_refl)) as G. rewrite E in G. destruct G as [G|[G|G]]; try contradiction. exact G. }
  assert (Hxh : x <> hd_id).
  { apply (pt_ne_hd sh). rewrite <- E. apply h_pp; exact H. }
  constructor; [exact Hax|].
  assert (Hs' : forall m, m = x \/ In m r -> nlt sh m (fst (getnext sh m l))).
  { intros m Hm. apply Hs. right. destruct Hm as [->|Hm]; [now left|now right]. }
  pose proof (IH x Hp Hs' Hxh) as F. eapply Forall_impl; [|exact F]. cbn. intros; lia.
Qed.

Lemma chain_strict sh l c : HInv sh -> LInv sh -> path sh l hd_id c ->
  forall m, m = hd_id \/ In m c -> nlt sh m (fst (getnext sh m l)).
Proof.
  intros H L Hc m Hm. apply (l_strict _ L). destruct Hm as [Hm|Hm]; [now left|right; now apply (onl_in sh l c m Hc)].
Qed.

(** the level-l chain is strictly sorted *)
Lemma path_sorted_s sh l : HInv sh -> forall c a, path sh l a c ->
  (forall m, m = a \/ In m c -> nlt sh m (fst (getnext sh m l))) ->
  StronglySorted Z.lt (map (fun n => key (node sh n)) c).
Proof.
  intros H. induction c as [|x r IH]; intros a Hp Hs; cbn [map]; [constructor|].
  cbn [path] in Hp. destruct Hp as (E & Hx & Hp).
  assert (Hs' : forall m, m = x \/ In m r -> nlt sh m (fst (getnext sh m l))).
  { intros m Hm. apply Hs. right. destruct Hm as [->|Hm]; [now left|now right]. }
  constructor; [eapply IH; eassumption|].
  assert (Hxh : x <> hd_id).
  { apply (pt_ne_hd sh). rewrite <- E. apply h_pp; exact H. }
  pose proof (path_lb_s sh l H r x Hp Hs' Hxh) as F. rewrite Forall_map. exact F.
Qed.

Lemma chain_succ_s sh l A : HInv sh -> forall c a, path sh l a c ->
  (forall m, m = a \/ In m c -> nlt sh m (fst (getnext sh m l))) ->
  forall n, (a = n \/ In n c) -> In A c -> (n = hd_id \/ key (node sh n) < key (node sh A)) ->
  fst (getnext sh n l) = A \/
  (In (fst (getnext sh n l)) c /\ key (node sh (fst (getnext sh n l))) < key (node sh A)).
Proof.
  intros H. induction c as [|m r IH]; intros a Hp Hs n Hn HA Hk; [destruct HA|].
  pose proof (path_in_pub_l sh l H _ _ Hp) as Hpub.
  cbn [path] in Hp. destruct Hp as (E & Hm & Hp).
  assert (Hmh : m <> hd_id) by (apply (pub_ne sh), Hpub; now left).
  assert (Hs' : forall y, y = m \/ In y r -> nlt sh y (fst (getnext sh y l))).
  { intros y Hy. apply Hs. right. destruct Hy as [->|Hy]; [now left|now right]. }
  pose proof (path_lb_s sh l H r m Hp Hs' Hmh) as Lb. rewrite Forall_forall in Lb.
  destruct (Nat.eq_dec a n) as [->|Han].
  - rewrite E. destruct HA as [->|HA]; [now left|]. right. split; [now left|]. now apply Lb.
  - destruct Hn as [Hn|Hn]; [contradiction|].
    assert (Hnh : n <> hd_id) by (apply (pub_ne sh), Hpub, Hn).
    destruct Hk as [Hk|Hk]; [contradiction|].
    destruct HA as [<-|HA].
    + exfalso. destruct Hn as [->|Hn]; [lia|]. specialize (Lb _ Hn). lia.
    + assert (Hn' : m = n \/ In n r) by (destruct Hn; [now left|now right]).
      destruct (IH m Hp Hs' n Hn' HA (or_intror Hk)) as [G|[G1 G2]]; [now left|].
      right. split; [now right|exact G2].
Qed.

(** reading the level-l successor of [prev]: it is marked or still below [k] while [A] is linked *)
Lemma respL_read sh l k prev A :
  HInv sh -> LInv sh -> onl sh l A -> marked sh A l = true -> key (node sh A) = k ->
  node_lt sh prev k = true -> rch sh l prev -> RespL sh l k prev ->
  marked sh (fst (getnext sh prev l)) l = true \/ node_lt sh (fst (getnext sh prev l)) k = true.
Proof.
  intros H L HA HAm HAk Hlt Hr [R|R]; [|exact R].
  destruct (node_lt_cases _ _ _ Hlt) as [Hnt Hk].
  destruct (l_chain _ L l) as (c & Hc & Hnd).
  pose proof (proj1 (onl_in sh l c A Hc) HA) as HAc.
  assert (Hpc : hd_id = prev \/ In prev c).
  { destruct Hr as [->|[G|G]]; [now left| |congruence]. right. now apply (onl_in sh l c prev Hc). }
  destruct (chain_succ_s sh l A H c hd_id Hc (chain_strict sh l c H L Hc) prev Hpc HAc) as [G|[G1 G2]].
  - destruct Hk; [now left|right; lia].
  - left. now rewrite G.
  - set (s := fst (getnext sh prev l)) in *.
    destruct (pub_ne _ _ (path_in_pub_l sh l H c _ Hc s G1)) as [Sh St].
    right. unfold node_lt.
    destruct (Nat.eqb_spec s hd_id); [contradiction|]. destruct (Nat.eqb_spec s tl_id); [contradiction|].
    apply Z.ltb_lt. lia.
Qed.

Lemma onl_pub sh l n : HInv sh -> onl sh l n -> pub sh n.
Proof. intros H (c & Hc & Hi). apply (path_in_pub_l sh l H c _ Hc _ Hi). Qed.

Lemma onl_tow sh l n : HInv sh -> onl sh l n -> (l < length (nxt (node sh n)))%nat.
Proof. intros H (c & Hc & Hi). apply (path_tow sh l H c _ Hc _ Hi). Qed.

Lemma pub_key_ext sh sh' ex mk n : ext sh sh' ex mk -> pub sh n -> key (node sh' n) = key (node sh n).
Proof. intros X [R _]. apply (e_key _ _ _ _ X). lia. Qed.

Lemma mark_ext sh sh' ex mk n j : ext sh sh' ex mk -> marked sh n j = true -> marked sh' n j = true.
Proof. intros X M. unfold marked in *. now rewrite (e_mark _ _ _ _ X n j M). Qed.

Lemma RespL_ext sh sh' ex mk lk ow mkl l k prev A :
  HInv sh -> LInv sh -> ext sh sh' ex mk -> lext sh sh' lk ow mkl ->
  onl sh l A -> marked sh A l = true -> key (node sh A) = k ->
  node_lt sh prev k = true -> gok sh prev -> rch sh l prev ->
  RespL sh l k prev -> RespL sh' l k prev.
Proof.
  intros H L X XL HA HAm HAk Hlt Hg Hr R.
  assert (Hsg : gok sh (fst (getnext sh prev l))) by (apply pt_gok, H).
  destruct (marked sh' prev l) eqn:M'; [|now left].
  destruct (marked sh prev l) eqn:M.
  - (* already marked: the word is frozen *)
    pose proof (e_mark _ _ _ _ X prev l M) as Fz.
    destruct R as [R|[R|R]]; [congruence| |]; right; rewrite Fz.
    + left. eapply mark_ext; eauto.
    + right. now rewrite (node_lt_ext sh sh' ex mk H X).
  - (* marked by this very step *)
    destruct (x_mk _ _ _ _ _ XL prev l M') as [Q|Emk]; [congruence|].
    pose proof (x_mkw _ _ _ _ _ XL prev l Emk) as Fz.
    destruct (respL_read sh l k prev A H L HA HAm HAk Hlt Hr (or_introl M)) as [G|G].
    + right; left. rewrite Fz. eapply mark_ext; eauto.
    + right; right. rewrite Fz. now rewrite (node_lt_ext sh sh' ex mk H X).
Qed.

Lemma sweepl_ext sh sh' ex mk lk ow mkl p loc l A :
  HInv sh -> LInv sh -> ext sh sh' ex mk -> lext sh sh' lk ow mkl ->
  linv sh p loc -> linv2 sh loc ->
  onl sh l A -> marked sh A l = true ->
  sweepl sh l A loc -> sweepl sh' l A loc.
Proof.
  intros H L X XL Hl Hl2 HA HAm.
  pose proof (pub_key_ext sh sh' ex mk A X (onl_pub sh l A H HA)) as Hk.
  destruct loc; cbn [sweepl linv linv2] in *; try solve [intros []].
  - (* LFP0 *) intros (S1 & S2). rewrite Hk. auto.
  - (* LFP1 *) destruct Hl as (A1 & B1 & C1 & D1). destruct Hl2 as (A2 & B2 & C2). intros (S1 & S2 & S3 & S4).
    pose proof (RespL_ext sh sh' ex mk lk ow mkl l k prev A H L X XL HA HAm (eq_sym S2) C1 D1 (C2 l S3) S4) as G.
    rewrite Hk. auto.
  - (* LFP2 *) destruct Hl as (A1 & B1 & C1 & D1 & F1 & G1 & I1 & T1). destruct Hl2 as (A2 & B2 & C2 & D2).
    intros (S1 & S2 & S3 & S4 & S5).
    pose proof (RespL_ext sh sh' ex mk lk ow mkl l k prev A H L X XL HA HAm (eq_sym S2) C1 D1 (C2 l S3) S4) as G.
    rewrite Hk. split; [exact S1|]. split; [exact S2|]. split; [exact S3|]. split; [exact G|].
    intros Ei. destruct (S5 Ei) as [Q|Q]; [left; eapply mark_ext; eauto|right].
    now rewrite (node_lt_ext sh sh' ex mk H X).
  - (* LFPH *) destruct Hl as (A1 & B1 & C1 & D1 & _). destruct Hl2 as (A2 & B2 & C2 & D2). intros (S1 & S2 & S3 & S4).
    pose proof (RespL_ext sh sh' ex mk lk ow mkl l k prev A H L X XL HA HAm (eq_sym S2) C1 D1 (C2 l S3) S4) as G.
    rewrite Hk. auto.
  - (* LInsCheck *) intros (S1 & S2 & S3). rewrite Hk. split; [exact S1|]. split; [eapply mark_ext; eauto|exact S3].
  - (* LSdLoad *) intros (S1 & S2). rewrite Hk. auto.
Qed.

Lemma RespL_same sh sh' l k a : heap sh' = heap sh -> RespL sh' l k a <-> RespL sh l k a.
Proof. intros Hh. unfold RespL. now rewrite !(same_getnext sh sh' Hh), !(same_marked sh sh' Hh), (same_node_lt sh sh' Hh). Qed.

Lemma sweepl_same sh sh' l A loc : heap sh' = heap sh -> sweepl sh' l A loc <-> sweepl sh l A loc.
Proof.
  intros Hh. destruct loc; cbn [sweepl]; try tauto;
    rewrite ?(same_node sh sh' Hh), ?(RespL_same sh sh' _ _ _ Hh), ?(same_marked sh sh' Hh), ?(same_node_lt sh sh' Hh); tauto.
Qed.

(** the sweeper's own step *)
Lemma step3 tid loc p sh sh' p' r ex mk lk ow mkl l A :
  HInv sh -> LInv sh -> linv sh p loc -> linv2 sh loc -> step tid loc p sh = (sh', p', r) ->
  ext sh sh' ex mk -> lext sh sh' lk ow mkl ->
  (1 <= l)%nat -> onl sh l A -> marked sh A 0 = true ->
  sweepl sh l A loc ->
  match r with inl loc' => sweepl sh' l A loc' | inr _ => False end.
Proof.
  intros H L Hl Hl2 E X XL Hl1 HA HA0 Hs.
  pose proof (onl_pub sh l A H HA) as HAp. pose proof (onl_tow sh l A H HA) as HAt.
  pose proof (h_top _ H A HA0 l HAt) as HAm.
  destruct loc as [k want|k want lv|k c b|k c b i prev|k c b i prev curr|k c b i prev curr next
                |k x xl b|k x xl b i|k x xl b i|k x xl b i|k x xl b i|k n i m|k n i m next| |it|it next];
    cbn [sweepl] in Hs; try contradiction; cbn [step linv linv2] in *.
  - (* LFP0 *)
    destruct Hs as (S1 & S2). inv_step E. apply (sweepl_same sh); [reflexivity|]. cbn [sweepl].
    split; [exact S1|]. split; [exact S2|]. split.
    + rewrite (h_nl _ H A (or_intror HAp)) in HAt. destruct HAp as [R _]. pose proof (l_lv _ L A (proj1 R)). lia.
    + left. apply (h_hdm _ H).
  - (* LFP1 *)
    destruct Hl as (A1 & B1 & C1 & D1). destruct Hl2 as (A2 & B2 & C2). destruct Hs as (S1 & S2 & S3 & S4).
    inv_step E. apply (sweepl_same sh); [reflexivity|].
    destruct (Nat.eq_dec i l) as [->|Hil].
    + pose proof (respL_read sh l k prev A H L HA HAm (eq_sym S2) C1 (C2 l S3) S4) as G.
      cbn [sweepl]. auto 6.
    + cbn [sweepl]. split; [exact S1|]. split; [exact S2|]. split; [exact S3|]. split; [exact S4|]. intros; contradiction.
  - (* LFP2 *)
    destruct Hl as (A1 & B1 & C1 & D1 & F1 & G1 & I1 & T1). destruct Hl2 as (A2 & B2 & C2 & D2).
    destruct Hs as (S1 & S2 & S3 & S4 & S5).
    destruct (getnext sh curr i) as [next deleted] eqn:W.
    destruct deleted.
    + inv_step E. apply (sweepl_same sh); [reflexivity|]. cbn [sweepl]. auto.
    + destruct (node_lt sh curr k) eqn:Lt.
      * inv_step E. apply (sweepl_same sh); [reflexivity|].
        destruct (node_lt_cases _ _ _ Lt) as [Ct _].
        assert (Mc : marked sh curr l = false).
        { destruct (marked sh curr l) eqn:Q; [|reflexivity]. exfalso.
          destruct T1 as [T1|T1]; [contradiction|].
          pose proof (l_seg _ L curr l i Q (conj S3 T1)) as Q2. unfold marked in Q2. rewrite W in Q2. discriminate. }
        assert (Rc : RespL sh l k curr) by (left; exact Mc).
        destruct (Nat.eq_dec i l) as [->|Hil].
        -- assert (Hrc : rch sh l curr) by (apply lkd_rch; [apply D2; lia|exact Ct]).
           pose proof (respL_read sh l k curr A H L HA HAm (eq_sym S2) Lt Hrc Rc) as G.
           rewrite W in G. cbn [fst] in G. cbn [sweepl]. auto 6.
        -- cbn [sweepl]. split; [exact S1|]. split; [exact S2|]. split; [exact S3|]. split; [exact Rc|]. intros; contradiction.
      * destruct (Nat.eq_dec i l) as [->|Hil].
        -- exfalso. destruct (S5 eq_refl) as [Q|Q]; [|congruence]. unfold marked in Q. rewrite W in Q. discriminate.
        -- destruct i as [|j]; [lia|]. inv_step E. apply (sweepl_same sh); [reflexivity|]. cbn [sweepl].
           split; [exact S1|]. split; [exact S2|]. split; [lia|exact S4].
  - (* LFPH *)
    destruct Hl as (A1 & B1 & C1 & D1 & F1 & G1 & I1 & W). destruct Hl2 as (A2 & B2 & C2 & D2).
    destruct Hs as (S1 & S2 & S3 & S4).
    destruct (dcas sh prev i curr next false) as [sh1 ok] eqn:Ed.
    destruct (dcas_spec _ _ _ _ _ _ _ _ Ed) as [(-> & Wp & ->)|(-> & ->)].
    + assert (Er : r = inl (LFP1 k c b i prev)) by (destruct i; inv_step E; reflexivity). subst r.
      pose proof (RespL_ext sh sh' ex mk lk ow mkl l k prev A H L X XL HA HAm (eq_sym S2) C1 D1 (C2 l S3) S4) as G.
      cbn [sweepl]. rewrite (pub_key_ext sh sh' ex mk A X HAp). auto.
    + inv_step E. apply (sweepl_same sh); [reflexivity|]. cbn [sweepl]. auto.
  - (* LInsCheck *)
    destruct Hs as (S1 & S2 & S3). unfold marked in S2. rewrite S2 in E. inv_step E.
    apply (sweepl_same sh); [reflexivity|]. cbn [sweepl swk]. auto.
  - (* LSdLoad *)
    destruct Hl as (Ap & B & Ab). destruct Hs as (-> & S2). destruct (B eq_refl) as [B1 ->].
    destruct (getnext sh n 0) as [next deleted] eqn:W. unfold marked in B1. rewrite W in B1. cbn [snd] in B1. subst deleted.
    inv_step E. apply (sweepl_same sh); [reflexivity|]. cbn [sweepl swk]. auto.
Qed.

Definition Cov (y : sysT) (l A : nat) : Prop :=
  pend (sh y) A \/
  exists i t loc, nth_error (ths y) i = Some t /\ cur t = Some loc /\ sweepl (sh y) l A loc.

Definition Inv3 (y : sysT) : Prop :=
  forall l A, (1 <= l)%nat -> onl (sh y) l A -> marked (sh y) A 0 = true -> Cov y l A.

Lemma Inv3_step progs y i : Inv progs y -> Inv2 y -> Inv3 y -> Inv3 (stepS y i).
Proof.
  intros HI HJ HK. unfold stepS, step_at.
  destruct (nth_error (ths y) i) as [t|] eqn:Ht; [|exact HK].
  destruct (i_th _ _ HI i t Ht) as (Hp & _ & Hl).
  pose proof (nth_lt _ _ _ Ht) as Hi.
  pose proof (i_h _ _ HI) as H. pose proof (j_l _ HJ) as L.
  destruct (cur t) as [loc|] eqn:Hc.
  - cbn [blocked].
    destruct (step i loc (pers_of t) (sh y)) as [[s' p'] r] eqn:Es.
    destruct (step_ok i loc (pers_of t) (sh y) s' p' r H Hp Hl Es)
      as [S1 (ex & mk & X & _ & Smk) _ S4 _ _ _ _ _].
    pose proof (j_th _ HJ i t loc Ht Hc) as Hl2.
    destruct (step2 i loc (pers_of t) (sh y) s' p' r H L Hp Hl Hl2 Es)
      as [L' (lk & ow & mkl & XL & _ & _ & _ & Hlk2) _ _ _ _ _].
    set (t' := finish_seg local pers op result t (todo t) p' r).
    assert (Hnew : nth_error (upd_th i t' (ths y)) i = Some t') by (now apply nth_upd_same).
    assert (Hoth : forall j, j <> i -> nth_error (upd_th i t' (ths y)) j = nth_error (ths y) j).
    { intros j Hj. apply nth_upd_other. congruence. }
    assert (Hct : cur t' = match r with inl l' => Some l' | inr _ => None end) by apply cur_finish.
    intros l A Hl1 Ho' Hm'. cbn [sh ths] in *.
    assert (Hthr : forall loc', r = inl loc' -> sweepl s' l A loc' -> Cov (mkSys s' (upd_th i t' (ths y))) l A).
    { intros loc' Er Hs. right. exists i, t', loc'. cbn [sh ths]. rewrite Hct, Er. auto. }
    assert (Hlin : forall loc', r = inl loc' -> linv s' p' loc').
    { intros loc' Er. rewrite Er in S4. apply S4. }
    (* a node of A's key marked at level 0 by this step: the stepping thread sweeps *)
    assert (Hdel : forall B, mk = Some B -> key (node s' B) = key (node s' A) ->
                   Cov (mkSys s' (upd_th i t' (ths y))) l A).
    { intros B Emk Ek. destruct (Smk B Emk) as (k & Er). apply (Hthr _ Er).
      pose proof (Hlin _ Er) as Q. cbn [linv] in Q. destruct Q as ((_ & Qk) & _).
      cbn [sweepl]. split; [reflexivity|congruence]. }
    destruct (x_non _ _ _ _ _ XL l A Ho') as [Ho|Elk].
    2:{ (* linked at level l by this step: the inserter re-checks *)
      destruct (Hlk2 A l Elk Hl1) as (k & xl & b & Er). apply (Hthr _ Er).
      pose proof (Hlin _ Er) as Q. cbn [linv] in Q. destruct Q as (_ & ((_ & Qk) & _)).
      cbn [sweepl]. split; [now symmetry|]. split; [|lia].
      apply (h_top _ S1 A Hm' l). now apply (onl_tow s' l A S1). }
    pose proof (onl_pub _ l A H Ho) as HAp.
    pose proof (pub_key_ext _ s' ex mk A X HAp) as HAk.
    destruct (marked (sh y) A 0) eqn:M0.
    2:{ destruct (e_m0 _ _ _ _ X A Hm') as [Q|Emk]; [congruence|]. now apply (Hdel A Emk). }
    pose proof (h_top _ H A M0 l (onl_tow _ l A H Ho)) as HAm.
    destruct (HK l A Hl1 Ho M0) as [(B & j & Bk & Bj & B0)|(i0 & t0 & loc0 & Hn0 & Hc0 & Hs0)].
    + (* a deletion of B is pending *)
      assert (HBk : key (node s' B) = key (node (sh y) B)).
      { apply (e_key _ _ _ _ X). apply (marked_lt _ _ _ Bj). }
      pose proof (mark_ext _ s' ex mk B j X Bj) as Bj'.
      destruct (marked s' B 0) eqn:MB0.
      * destruct (e_m0 _ _ _ _ X B MB0) as [Q|Emk]; [congruence|]. apply (Hdel B Emk). congruence.
      * left. exists B, j. cbn [sh]. split; [congruence|auto].
    + destruct (Nat.eq_dec i0 i) as [->|Hi0].
      * rewrite Ht in Hn0. inversion Hn0; subst t0. rewrite Hc in Hc0. inversion Hc0; subst loc0.
        pose proof (step3 i loc (pers_of t) (sh y) s' p' r ex mk lk ow mkl l A H L Hl Hl2 Es X XL Hl1 Ho M0 Hs0) as G.
        destruct r as [loc'|]; [|contradiction]. now apply (Hthr loc').
      * destruct (i_th _ _ HI i0 t0 Hn0) as (_ & _ & Hl0). rewrite Hc0 in Hl0.
        pose proof (j_th _ HJ i0 t0 loc0 Hn0 Hc0) as Hl20.
        pose proof (sweepl_ext _ s' ex mk lk ow mkl _ loc0 l A H L X XL Hl0 Hl20 Ho HAm Hs0) as G.
        right. exists i0, t0, loc0. cbn [sh ths]. rewrite Hoth by exact Hi0. auto.
  - destruct (todo t) as [|o rest] eqn:Htd; [exact HK|]. cbn [blocked_begin].
    destruct (begin i o (pers_of t) (sh y)) as [[s' p'] r] eqn:Eb.
    destruct (begin_ok i o (pers_of t) (sh y) s' p' r H Hp Eb) as (-> & _ & Hr).
    intros l A Hl1 Ho Hm. cbn [sh ths] in *.
    destruct (HK l A Hl1 Ho Hm) as [G|(i0 & t0 & loc0 & Hn0 & Hc0 & Hs0)]; [now left|].
    right. exists i0, t0, loc0. cbn [sh ths].
    assert (Hi0 : i0 <> i) by (intros ->; rewrite Ht in Hn0; inversion Hn0; subst; congruence).
    rewrite nth_upd_other by congruence. auto.
Qed.

Lemma Inv3_init progs : Inv3 (init progs).
Proof.
  intros l A _ _ Hm. unfold init, marked in Hm. cbn [sh] in Hm. rewrite init_getnext in Hm. discriminate.
Qed.

Lemma Inv123_reach progs sched :
  Inv progs (runS (init progs) sched) /\ Inv2 (runS (init progs) sched) /\ Inv3 (runS (init progs) sched).
Proof.
  unfold runS.
  apply (Inv_run shared local pers op result begin step blocked blocked_begin (fun y => Inv progs y /\ Inv2 y /\ Inv3 y)).
  - intros y i (A & B & C). split; [now apply Inv_step|]. split; [now apply (Inv2_step progs)|now apply (Inv3_step progs)].
  - split; [apply Inv_init|]. split; [apply Inv2_init|apply Inv3_init].
Qed.

(** at quiescence no marked node is linked at any level *)
Theorem levels_clean : stmt_levels_clean.
Proof.
  intros progs sched y Hq l _. destruct (Inv123_reach progs sched) as (HI & HJ & HK). fold y in HI, HJ, HK.
  pose proof (i_h _ _ HI) as H. pose proof (j_l _ HJ) as L.
  destruct (l_chain _ L l) as (cl & Hcl & Hndl).
  exists cl. split; [now apply chain_some_l|].
  assert (Hnone : forall t, In t (ths y) -> cur t = None).
  { intros t Ht. unfold quiescentS, quiescent in Hq. rewrite forallb_forall in Hq. specialize (Hq t Ht).
    unfold th_finished in Hq. destruct (cur t); [discriminate|reflexivity]. }
  assert (Q2 : forall n lv, marked (sh y) n lv = true -> marked (sh y) n 0 = true).
  { intros n lv Hm. destruct (marked (sh y) n 0) eqn:M0; [reflexivity|]. exfalso.
    destruct (j_p8 _ HJ n lv Hm M0) as (i & t & l0 & Hn & Hc & _).
    rewrite (Hnone t (nth_error_In _ _ Hn)) in Hc. discriminate. }
  intros n Hn. destruct (marked (sh y) n l) eqn:Hm; [exfalso|reflexivity].
  pose proof (Q2 n l Hm) as Hm0.
  destruct (Nat.eq_dec l 0) as [->|Hl0].
  - destruct (quiescent_clean progs sched Hq) as (c & Ec & Hcm & _). fold y in Ec, Hcm.
    rewrite (chain_some_l _ 0 cl H Hcl Hndl) in Ec. inversion Ec; subst c. rewrite (Hcm n Hn) in Hm. discriminate.
  - assert (Ho : onl (sh y) l n) by (now apply (onl_in _ l cl n Hcl)).
    destruct (HK l n ltac:(lia) Ho Hm0) as [(B & j & Bk & Bj & B0)|(i0 & t0 & loc0 & Hn0 & Hc0 & _)].
    + rewrite (Q2 B j Bj) in B0. discriminate.
    + rewrite (Hnone t0 (nth_error_In _ _ Hn0)) in Hc0. discriminate.
Qed.
Print Assumptions levels_clean.

(** the weaker statement proved for the machine with only the first repair is now a corollary *)
Definition stmt_levels_clean_weak : Prop :=
  forall progs sched, let y := runS (init progs) sched in
    quiescentS y = true ->
    forall l, (l <= sl_level (sh y))%nat ->
      exists cl, chain_ids (sh y) l = Some cl /\
        forall n, In n cl -> marked (sh y) n l = true ->
          exists m, In m cl /\ marked (sh y) m l = false /\ key (node (sh y) m) = key (node (sh y) n).

Theorem levels_clean_weak : stmt_levels_clean_weak.
Proof.
  intros progs sched y Hq l Hl. destruct (levels_clean progs sched Hq l Hl) as (cl & Ec & Hc). fold y in Ec, Hc.
  exists cl. split; [exact Ec|]. intros n Hn Hm. rewrite (Hc n Hn) in Hm. discriminate.
Qed.
Print Assumptions levels_clean_weak.

Corollary levels_clean_distinct progs sched :
  let y := runS (init progs) sched in
  quiescentS y = true -> forall l cl, (l <= sl_level (sh y))%nat -> chain_ids (sh y) l = Some cl ->
  NoDup (map (fun n => key (node (sh y) n)) cl) -> forall n, In n cl -> marked (sh y) n l = false.
Proof.
  intros y Hq l cl Hl Ec _ n Hn. destruct (levels_clean progs sched Hq l Hl) as (cl' & Ec' & Hc). fold y in Ec', Hc.
  rewrite Ec in Ec'. inversion Ec'; subst cl'. now apply Hc.
Qed.
Print Assumptions levels_clean_distinct.

(** every level chain is strictly sorted, in every reachable state (levels >= 1 included) *)
Theorem levels_sorted progs sched l :
  let y := runS (init progs) sched in
  exists c, chain_ids (sh y) l = Some c /\ StronglySorted Z.lt (map (fun n => key (node (sh y) n)) c).
Proof.
  intros y. destruct (Inv12_reach progs sched) as [HI HJ]. fold y in HI, HJ.
  pose proof (i_h _ _ HI) as H. pose proof (j_l _ HJ) as L.
  destruct (l_chain _ L l) as (c & Hc & Hnd). exists c. split; [now apply chain_some_l|].
  apply (path_sorted_s (sh y) l H c hd_id Hc). now apply chain_strict.
Qed.
Print Assumptions levels_sorted.

(** * Summary: the main theorems and their assumptions *)
Check (l0_sorted : stmt_l0_sorted).
Check (edges_increasing_weak : stmt_edges_increasing_weak).
Check (edges_increasing_false : ~ stmt_edges_increasing).
Check (accounting : stmt_accounting).
Check (iter_monotone : stmt_iter_monotone).
Check (quiescent_clean : stmt_quiescent_clean).
Check (levels : stmt_levels).
Check (levels_clean : stmt_levels_clean).
Check (levels_clean_weak : stmt_levels_clean_weak).
Print Assumptions l0_sorted.
Print Assumptions edges_increasing_weak.
Print Assumptions edges_increasing_false.
Print Assumptions accounting.
Print Assumptions iter_monotone.
Print Assumptions quiescent_clean.
Print Assumptions levels.
Print Assumptions levels_clean.
Print Assumptions levels_clean_weak.
Print Assumptions levels_clean_distinct.
Print Assumptions levels_sorted.
