(** C13: proofs of the statements of Skip/LinStmts.v (linearizability with explicit linearization points). *)
From Coq Require Import List Arith ZArith Lia Bool Sorting.Sorted.
From NV Require Import Base.Sched Skip.Model Skip.Stmts Skip.IterStmts Skip.Proofs Skip.IterProofs Skip.LinStmts.
Import ListNotations.
Open Scope Z_scope.

(** * One scheduling step *)

Lemma firstn1_skipn {A} (l : list A) : forall j x, nth_error l j = Some x -> firstn 1 (skipn j l) = [x].
Proof.
  induction l as [|y r IH]; intros [|j] x Hn; cbn in Hn; try discriminate.
  - inversion Hn; subst. reflexivity.
  - cbn [skipn]. now apply IH.
Qed.

Lemma at_S progs sched j i : nth_error sched j = Some i ->
  at_ progs sched (S j) = stepS (at_ progs sched j) i.
Proof.
  intros Hn. replace (S j) with (j + 1)%nat by lia. rewrite at_add, (firstn1_skipn sched j i Hn). reflexivity.
Qed.

Lemma nth_error_lt {A} (l : list A) j : (j < length l)%nat -> exists x, nth_error l j = Some x.
Proof.
  intros Hj. destruct (nth_error l j) as [x|] eqn:E; [eauto|]. apply nth_error_None in E. lia.
Qed.

(** * Membership and the level-0 chain *)

Definition memk (k : Z) (s : shared) : bool := existsb (Z.eqb k) (abs_keys s).

Lemma mem_memk k y : mem k y = memk k (sh y).
Proof. reflexivity. Qed.

Lemma ak_memk s k : ak s k = if memk k s then 1 else 0.
Proof. reflexivity. Qed.

Lemma memk_iff s k : HInv s ->
  (memk k s = true <-> exists A, onchain s A /\ marked s A 0 = false /\ key (node s A) = k).
Proof.
  intros H. destruct (h_chain _ H) as [c Hc]. unfold memk. rewrite (abs_keys_eq s c H Hc). unfold abs_of. split.
  - intros E. apply existsb_exists in E. destruct E as (x & Hx & Ex). apply Z.eqb_eq in Ex. subst x.
    apply in_map_iff in Hx. destruct Hx as (A & EA & HA). apply filter_In in HA. destruct HA as [HA1 HA2].
    exists A. split; [exists c; auto|]. split; [now apply negb_true_iff in HA2|exact EA].
  - intros (A & HA & HM & HK). apply existsb_exists. exists k. split; [|apply Z.eqb_refl].
    apply in_map_iff. exists A. split; [exact HK|]. apply filter_In. split; [now apply (onchain_in s c A Hc)|].
    now rewrite HM.
Qed.

(** between two adjacent chain nodes around [k] there is no node of key [k] *)
Lemma gap_absent s k prev : HInv s -> (prev = hd_id \/ onchain s prev) -> node_lt s prev k = true ->
  node_lt s (fst (getnext s prev 0)) k = false -> node_eq s (fst (getnext s prev 0)) k = false ->
  memk k s = false.
Proof.
  intros H Hp Hlt Hs1 Hs2. destruct (memk k s) eqn:E; [|reflexivity]. exfalso.
  apply (memk_iff s k H) in E. destruct E as (A & HA & HM & HK).
  destruct (h_chain _ H) as [c Hc].
  pose proof (proj1 (onchain_in s c A Hc) HA) as HAc.
  assert (Hp1 : hd_id = prev \/ In prev c).
  { destruct Hp as [->|Hp]; [now left|right; now apply (onchain_in s c prev Hc)]. }
  assert (Hp2 : prev = hd_id \/ key (node s prev) < key (node s A)).
  { destruct (node_lt_cases _ _ _ Hlt) as [_ [G|G]]; [now left|right; lia]. }
  pose proof (path_in_pub s H c _ Hc _ HAc) as PA. destruct (pub_ne _ _ PA) as [PA1 PA2].
  destruct (chain_succ s A H c hd_id Hc prev Hp1 HAc Hp2) as [G|(G1 & G2 & G3)].
  - rewrite G in Hs2. unfold node_eq in Hs2.
    destruct (Nat.eqb_spec A hd_id); [contradiction|]. destruct (Nat.eqb_spec A tl_id); [contradiction|].
    apply Z.eqb_neq in Hs2. contradiction.
  - unfold node_lt in Hs1.
    destruct (Nat.eqb_spec (fst (getnext s prev 0)) hd_id); [discriminate|].
    destruct (Nat.eqb_spec (fst (getnext s prev 0)) tl_id); [contradiction|].
    apply Z.ltb_ge in Hs1. lia.
Qed.

Lemma present_here s k n : HInv s -> gok s n -> node_eq s n k = true -> marked s n 0 = false -> memk k s = true.
Proof.
  intros H Hg He Hm. destruct (node_eq_true _ _ _ He) as (N1 & N2 & N3).
  apply (memk_iff s k H). exists n. split; [|auto].
  destruct (gok_pub_or_hd _ _ Hg N2) as [Q|Q]; [contradiction|]. now apply pub_unmarked_onchain.
Qed.

(** * Where the liveness flag of an operation changes *)

Lemma lv_r01 r : lv_r r = 0 \/ lv_r r = 1.
Proof. destruct r as [l|[[|]|]]; cbn; auto. destruct (live l); cbn; auto. Qed.

Definition lp_shape (l : local) : Prop :=
  match l with
  | LInsPub _ _ _ _ => True
  | LSdCas _ _ 0 _ _ => True
  | _ => False
  end.

Lemma next_done_lv sh p it sh' p' r : next_done sh p it = (sh', p', r) -> lv_r r = 0.
Proof.
  intros E. destruct (next_done_spec _ _ _ _ _ _ E) as (_ & _ & [(-> & _)| -> ]); [reflexivity|apply it_result_lv].
Qed.

Lemma lv_cases tid l p sh sh' p' r : step tid l p sh = (sh', p', r) ->
  lv_r r = b2z (live l) \/ (live l = false /\ lv_r r = 1 /\ (cls_l l = COther \/ lp_shape l)).
Proof.
  intros E.
  destruct l as [k want|k want lv|k c b|k c b i prev|k c b i prev curr|k c b i prev curr next
                |k x xl b|k x xl b i|k x xl b i|k x xl b i|k x xl b i|k n i m|k n i m next| |it|it next];
    cbn [step] in E.
  - destruct (sl_level sh <? want)%nat; inv_step E; now left.
  - destruct (Nat.eqb (sl_level sh) lv); cbn [heap sl_level sts] in E; inv_step E; now left.
  - inv_step E. now left.
  - inv_step E. now left.
  - destruct (getnext sh curr i) as [next deleted]. destruct deleted; [inv_step E; now left|].
    destruct (node_lt sh curr k); [inv_step E; now left|].
    destruct i as [|j]; [|inv_step E; now left].
    destruct c as [|x xl|x xl i|x xl| | | |last|]; cbn [fp_done] in E.
    + inv_step E. destruct (node_eq sh curr k); cbn; [right|left]; auto.
    + destruct (node_eq sh curr k); inv_step E; now left.
    + inv_step E. now left.
    + unfold insert_finish in E. inv_step E. now left.
    + destruct (node_eq sh curr k); [unfold softdelete_start in E|]; inv_step E; now left.
    + inv_step E. now left.
    + inv_step E. left. apply it_result_lv.
    + destruct (node_eq sh curr k && Nat.eqb last (succ_at (set_buf b 0 prev curr) 0)); [inv_step E; now left|].
      left. cbn [live live_fk b2z]. eapply next_done_lv; eauto.
    + inv_step E. left. apply it_result_lv.
  - destruct (dcas sh prev i curr next false) as [sh1 ok]. destruct ok; [destruct i|]; inv_step E; now left.
  - destruct (dcas sh (pred_at b 0) 0 (succ_at b 0) x false) as [sh1 ok]. destruct ok.
    + right. split; [reflexivity|]. split; [|right; exact I].
      destruct xl; [unfold insert_finish in E|]; inv_step E; reflexivity.
    + inv_step E. now left.
  - destruct (snd (getnext sh (succ_at b i) i)); inv_step E; now left.
  - destruct (getnext sh x i) as [nn deleted]. destruct deleted; [unfold insert_finish in E; inv_step E; now left|].
    destruct (Nat.eqb nn (succ_at b i)); [inv_step E; now left|].
    destruct (dcas sh x i nn (succ_at b i) false) as [sh1 ok].
    destruct ok; [|unfold insert_finish in E]; inv_step E; now left.
  - destruct (dcas sh (pred_at b i) i (succ_at b i) x false) as [sh1 ok]. destruct ok; inv_step E; now left.
  - destruct (snd (getnext sh x i)); [inv_step E; now left|].
    destruct (i <? xl)%nat; [|unfold insert_finish in E]; inv_step E; now left.
  - destruct (getnext sh n i) as [next deleted]. destruct deleted; [|inv_step E; now left].
    destruct i as [|j]; [|inv_step E; now left]. destruct m; inv_step E; now left.
  - destruct (dcas sh n i next next true) as [sh1 ok]. destruct ok; cbn [andb] in E; [|inv_step E; now left].
    destruct i as [|j]; cbn [Nat.eqb] in E; [|inv_step E; now left].
    inv_step E. destruct m; [now left|]. right. split; [reflexivity|]. split; [reflexivity|]. right. exact I.
  - inv_step E. left. apply it_result_lv.
  - destruct (getnext sh (it_curr it) 0) as [next deleted]. destruct deleted; [inv_step E; now left|].
    left. cbn [live b2z]. eapply next_done_lv; eauto.
  - destruct (dcas sh (it_prev it) 0 (it_curr it) next false) as [sh1 ok]. destruct ok; [|inv_step E; now left].
    left. cbn [live b2z]. eapply next_done_lv; eauto.
Qed.

(** * 1. The abstract set changes only at linearization points *)

Theorem lin_points : stmt_lin_points.
Proof.
  intros progs sched j i Hj Hby y y'. unfold step_by in Hby. subst y y'.
  rewrite (at_S progs sched j i Hby).
  destruct (reach_at progs sched j) as [HI HJ]. set (y := at_ progs sched j) in *.
  destruct (nth_error (ths y) i) as [t|] eqn:Ht.
  2:{ left. intros k. unfold stepS, step_at. now rewrite Ht. }
  destruct (stepS_self y i t Ht) as [(E & _)|[(l & s' & p' & r & Hc & Es & E)|(o & rest & s' & p' & r & Hc & Htd & Eb & E)]].
  - left. intros k. now rewrite E.
  - destruct (i_th _ _ HI i t Ht) as (Hp & _ & Hl). rewrite Hc in Hl.
    pose proof (step_ok i l (pers_of t) (sh y) s' p' r (i_h _ _ HI) Hp Hl Es) as SO.
    pose proof (s_ak _ _ _ _ _ _ _ _ _ _ SO) as AK.
    assert (Es' : sh (stepS y i) = s') by (rewrite E; reflexivity).
    destruct (lv_cases i l (pers_of t) (sh y) s' p' r Es) as [Q|(Q1 & Q2 & Q3)].
    + left. intros k. rewrite !mem_memk, Es'. specialize (AK k). rewrite Q, !ak_memk in AK.
      destruct (memk k s'), (memk k (sh y)); try reflexivity; lia.
    + destruct Q3 as [Q3|Q3].
      * left. intros k. rewrite !mem_memk, Es'. specialize (AK k). rewrite Q3, !ak_memk in AK. cbn [clsw] in AK.
        destruct (memk k s'), (memk k (sh y)); try reflexivity; lia.
      * right. rewrite Q1, Q2 in AK. cbn [b2z] in AK.
        destruct l as [k want|k want lv|k c b|k c b i0 prev|k c b i0 prev curr|k c b i0 prev curr next
                      |k x xl b|k x xl b i0|k x xl b i0|k x xl b i0|k x xl b i0|k n i0 m|k n i0 m next| |it|it next];
          cbn [lp_shape] in Q3; try contradiction.
        -- exists k, true. cbn [cls_l] in AK. split; [|split; [|split]].
           ++ exists t, (LInsPub k x xl b). auto.
           ++ pose proof (AK k) as A. cbn [clsw] in A. rewrite Z.eqb_refl, !ak_memk, <- Es' in A.
              rewrite mem_memk. cbn [negb]. destruct (memk k (sh (stepS y i))), (memk k (sh y)); try reflexivity; lia.
           ++ pose proof (AK k) as A. cbn [clsw] in A. rewrite Z.eqb_refl, !ak_memk, <- Es' in A.
              rewrite mem_memk. destruct (memk k (sh (stepS y i))), (memk k (sh y)); try reflexivity; lia.
           ++ intros k' Hk'. pose proof (AK k') as A. cbn [clsw] in A.
              destruct (Z.eqb_spec k k') as [Q|_]; [congruence|]. rewrite !ak_memk, <- Es' in A.
              rewrite !mem_memk. destruct (memk k' (sh (stepS y i))), (memk k' (sh y)); try reflexivity; lia.
        -- destruct i0 as [|i0]; [|contradiction].
           exists k, false. cbn [cls_l] in AK. split; [|split; [|split]].
           ++ exists t, (LSdCas k n 0 m next). auto.
           ++ pose proof (AK k) as A. cbn [clsw] in A. rewrite Z.eqb_refl, !ak_memk, <- Es' in A.
              rewrite mem_memk. cbn [negb]. destruct (memk k (sh (stepS y i))), (memk k (sh y)); try reflexivity; lia.
           ++ pose proof (AK k) as A. cbn [clsw] in A. rewrite Z.eqb_refl, !ak_memk, <- Es' in A.
              rewrite mem_memk. destruct (memk k (sh (stepS y i))), (memk k (sh y)); try reflexivity; lia.
           ++ intros k' Hk'. pose proof (AK k') as A. cbn [clsw] in A.
              destruct (Z.eqb_spec k k') as [Q|_]; [congruence|]. rewrite !ak_memk, <- Es' in A.
              rewrite !mem_memk. destruct (memk k' (sh (stepS y i))), (memk k' (sh y)); try reflexivity; lia.
  - left. intros k. destruct (i_th _ _ HI i t Ht) as (Hp & _ & _).
    destruct (begin_ok i o (pers_of t) (sh y) s' p' r (i_h _ _ HI) Hp Eb) as (-> & _ & _).
    rewrite E. reflexivity.
Qed.
Print Assumptions lin_points.

(** * Lists *)

Lemma filter_none {A} (g : A -> bool) l : (forall x, In x l -> g x = false) -> filter g l = [].
Proof.
  induction l as [|x r IH]; intros H; cbn [filter]; [reflexivity|].
  rewrite (H x (or_introl eq_refl)). apply IH. intros; apply H; now right.
Qed.

Lemma filter_seq_single (g : nat -> bool) jl : forall n a0,
  (forall x, (a0 <= x < a0 + n)%nat -> g x = Nat.eqb x jl) -> (a0 <= jl < a0 + n)%nat ->
  filter g (seq a0 n) = [jl].
Proof.
  induction n as [|n IH]; intros a0 Hg Hjl; [lia|].
  cbn [seq filter]. rewrite (Hg a0) by lia. destruct (Nat.eqb_spec a0 jl) as [->|Hne].
  - f_equal. apply filter_none. intros x Hx. apply in_seq in Hx. rewrite Hg by lia.
    apply Nat.eqb_neq. lia.
  - apply IH; [|lia]. intros x Hx. apply Hg. lia.
Qed.

(** * One operation of one thread between two idle moments *)

Section Span.
Variables (progs : list (list op)) (sched : list nat) (a b i : nat) (o : op) (r : result).
Variables (ta tb : thr).
Hypothesis Hab : (a < b)%nat.
Hypothesis Hb : (b <= length sched)%nat.
Hypothesis Hta : nth_error (ths (at_ progs sched a)) i = Some ta.
Hypothesis Htb : nth_error (ths (at_ progs sched b)) i = Some tb.
Hypothesis Hca : cur ta = None.
Hypothesis Hcb : cur tb = None.
Hypothesis Htd : todo ta = o :: todo tb.
Hypothesis Hdn : done tb = done ta ++ [r].

Notation Y := (at_ progs sched).

Lemma todo_suffix j t : (j <= b)%nat -> nth_error (ths (Y j)) i = Some t -> exists pre, todo t = pre ++ todo tb.
Proof.
  intros Hj Ht. destruct (todo_run (seg sched j b) (Y j) i t Ht) as (t' & pre & Ht' & E).
  rewrite (at_seg_end progs sched j b Hj) in Ht'. rewrite Htb in Ht'. inversion Ht'; subst t'. eauto.
Qed.

Lemma stays_tb j t : (j <= b)%nat -> nth_error (ths (Y j)) i = Some t -> cur t = None -> todo t = todo tb -> t = tb.
Proof.
  intros Hj Ht Hc E. symmetry. apply (idle_stays (seg sched j b) (Y j) i t tb Ht Hc); [|now symmetry].
  rewrite (at_seg_end progs sched j b Hj). exact Htb.
Qed.

Definition inprog (t : thr) : Prop :=
  exists l, cur t = Some l /\ todo t = todo tb /\ done t = done ta /\ forall k, opw k o = clsw k (cls_l l).
Definition ph (t : thr) : Prop := t = ta \/ inprog t \/ t = tb.

(** what the scheduling step j does to thread i *)
Definition trans (j i0 : nat) (t t' : thr) : Prop :=
  (i0 <> i /\ t' = t) \/
  (i0 = i /\ t' = t /\ sh (Y (S j)) = sh (Y j)) \/
  (i0 = i /\ t = ta /\ exists p' r0, begin i o (pers_of ta) (sh (Y j)) = (sh (Y j), p', r0) /\ sh (Y (S j)) = sh (Y j) /\
     t' = finish_seg local pers op result ta (todo tb) p' r0 /\ (forall res, r0 = inr res -> res = r /\ t' = tb)) \/
  (i0 = i /\ inprog t /\ exists l s' p' r0, cur t = Some l /\ step i l (pers_of t) (sh (Y j)) = (s', p', r0) /\
     sh (Y (S j)) = s' /\ t' = finish_seg local pers op result t (todo t) p' r0 /\
     (forall res, r0 = inr res -> res = r /\ t' = tb)).

Lemma ph_step j i0 t : (a <= j < b)%nat -> nth_error sched j = Some i0 -> nth_error (ths (Y j)) i = Some t -> ph t ->
  exists t', nth_error (ths (Y (S j))) i = Some t' /\ ph t' /\ trans j i0 t t'.
Proof.
  intros Hj Hn Ht Hph. pose proof (at_S progs sched j i0 Hn) as ES.
  destruct (Nat.eq_dec i0 i) as [->|Hne].
  2:{ exists t. split; [rewrite ES, stepS_other by congruence; exact Ht|]. split; [exact Hph|]. left. auto. }
  destruct (reach_at progs sched j) as [HI HJ].
  destruct (i_th _ _ HI i t Ht) as (Hp & _ & Hl).
  destruct (stepS_self (Y j) i t Ht) as [(E & _)|[(l & s' & p' & r0 & Hc & Es & E)|(o' & rest & s' & p' & r0 & Hc & Htd' & Eb & E)]].
  - exists t. split; [rewrite ES, E; exact Ht|]. split; [exact Hph|]. right; left. rewrite ES, E. auto.
  - assert (Hin : inprog t). { destruct Hph as [->|[Q| ->]]; [congruence|exact Q|congruence]. }
    pose proof Hin as (l0 & Hc0 & Htd0 & Hdn0 & Hcl0). assert (l0 = l) by congruence. subst l0.
    rewrite Hc in Hl.
    pose proof (step_ok i l (pers_of t) (sh (Y j)) s' p' r0 (i_h _ _ HI) Hp Hl Es) as SO.
    set (t' := finish_seg local pers op result t (todo t) p' r0).
    assert (Ht' : nth_error (ths (Y (S j))) i = Some t').
    { rewrite ES, E. cbn [ths]. now apply (nth_upd_self _ i t). }
    assert (Hfin : forall res, r0 = inr res -> res = r /\ t' = tb).
    { intros res ->. assert (Q : t' = tb).
      { apply (stays_tb (S j) t'); [lia|exact Ht'|reflexivity|exact Htd0]. }
      split; [|exact Q]. apply (f_equal (@done local pers op result)) in Q. unfold t' in Q. cbn [finish_seg done] in Q.
      rewrite Hdn, Hdn0 in Q. apply app_inv_head in Q. now inversion Q. }
    exists t'. split; [exact Ht'|]. split.
    + destruct r0 as [l'|res].
      * right; left. exists l'. unfold t'. cbn [finish_seg cur todo done].
        split; [reflexivity|]. split; [exact Htd0|]. split; [exact Hdn0|].
        destruct (s_l _ _ _ _ _ _ _ _ _ _ SO) as (_ & _ & C' & _). intros k0. rewrite C'. apply Hcl0.
      * right; right. apply (Hfin res eq_refl).
    + right; right; right. split; [reflexivity|]. split; [exact Hin|]. exists l, s', p', r0.
      split; [exact Hc|]. split; [exact Es|]. split; [rewrite ES, E; reflexivity|]. split; [reflexivity|exact Hfin].
  - destruct (begin_ok i o' (pers_of t) (sh (Y j)) s' p' r0 (i_h _ _ HI) Hp Eb) as (-> & _ & Hr).
    destruct Hph as [->|[(l0 & Hc0 & _)| ->]]; [|congruence|].
    + rewrite Htd in Htd'. inversion Htd'; subst o' rest.
      set (t' := finish_seg local pers op result ta (todo tb) p' r0).
      assert (Ht' : nth_error (ths (Y (S j))) i = Some t').
      { rewrite ES, E. cbn [ths]. now apply (nth_upd_self _ i ta). }
      assert (Hfin : forall res, r0 = inr res -> res = r /\ t' = tb).
      { intros res ->. assert (Q : t' = tb) by (apply (stays_tb (S j) t'); [lia|exact Ht'|reflexivity|reflexivity]).
        split; [|exact Q]. apply (f_equal (@done local pers op result)) in Q. unfold t' in Q. cbn [finish_seg done] in Q.
        rewrite Hdn in Q. apply app_inv_head in Q. now inversion Q. }
      exists t'. split; [exact Ht'|]. split.
      * destruct r0 as [l'|res].
        -- right; left. exists l'. unfold t'. cbn [finish_seg cur todo done].
           split; [reflexivity|]. split; [reflexivity|]. split; [reflexivity|]. apply Hr.
        -- right; right. apply (Hfin res eq_refl).
      * right; right; left. split; [reflexivity|]. split; [reflexivity|]. exists p', r0.
        split; [exact Eb|]. split; [rewrite ES, E; reflexivity|]. split; [reflexivity|exact Hfin].
    + exfalso. set (t' := finish_seg local pers op result tb rest p' r0).
      assert (Ht' : nth_error (ths (Y (S j))) i = Some t').
      { rewrite ES, E. cbn [ths]. now apply (nth_upd_self _ i tb). }
      destruct (todo_suffix (S j) t') as (pre & Q); [lia|exact Ht'|].
      assert (Er : todo t' = rest) by (unfold t'; destruct r0; reflexivity).
      rewrite Er, Htd' in Q. apply (f_equal (@length op)) in Q. rewrite app_length in Q. cbn [length] in Q. lia.
Qed.

Lemma ph_all : forall n, (a + n <= b)%nat -> exists t, nth_error (ths (Y (a + n))) i = Some t /\ ph t.
Proof.
  induction n as [|n IH]; intros Hn.
  - rewrite Nat.add_0_r. exists ta. split; [exact Hta|now left].
  - destruct IH as (t & Ht & Hph); [lia|].
    destruct (nth_error_lt sched (a + n)) as (i0 & Hi0); [lia|].
    destruct (ph_step (a + n) i0 t) as (t' & Ht' & Hph' & _); auto; [lia|].
    exists t'. rewrite Nat.add_succ_r. auto.
Qed.

Lemma span_at j : (a <= j <= b)%nat -> exists t, nth_error (ths (Y j)) i = Some t /\ ph t.
Proof. intros Hj. replace j with (a + (j - a))%nat by lia. apply ph_all. lia. Qed.

Lemma span_step j : (a <= j < b)%nat ->
  exists i0 t t', nth_error sched j = Some i0 /\ nth_error (ths (Y j)) i = Some t /\
    nth_error (ths (Y (S j))) i = Some t' /\ ph t /\ ph t' /\ trans j i0 t t'.
Proof.
  intros Hj. destruct (span_at j) as (t & Ht & Hph); [lia|].
  destruct (nth_error_lt sched j) as (i0 & Hi0); [lia|].
  destruct (ph_step j i0 t Hj Hi0 Ht Hph) as (t' & Ht' & Hph' & Htr).
  exists i0, t, t'. auto 8.
Qed.

(** ** the liveness flag along the operation *)

Definition lvt (t : thr) : Z :=
  match cur t with
  | Some l => b2z (live l)
  | None => if (length (done t) <=? length (done ta))%nat then 0 else lv_r (inr r)
  end.

Lemma lvt_ta : lvt ta = 0.
Proof. unfold lvt. now rewrite Hca, Nat.leb_refl. Qed.

Lemma lvt_tb : lvt tb = lv_r (inr r).
Proof.
  unfold lvt. rewrite Hcb, Hdn, app_length. cbn [length].
  destruct (Nat.leb_spec (length (done ta) + 1) (length (done ta))); [lia|reflexivity].
Qed.

Lemma lv_trans j i0 t t' : (a <= j < b)%nat -> nth_error (ths (Y j)) i = Some t -> trans j i0 t t' ->
  (lvt t' = lvt t \/ (lvt t = 0 /\ lvt t' = 1 /\ i0 = i)) /\
  (i0 = i -> forall k', ak (sh (Y (S j))) k' - ak (sh (Y j)) k' = (lvt t' - lvt t) * opw k' o).
Proof.
  intros Hj Ht [(Hne & ->)|[(-> & -> & Esh)|[(-> & -> & p' & r0 & Eb & Esh & Et' & Hfin)|(-> & Hin & l & s' & p' & r0 & Hc & Es & Esh & Et' & Hfin)]]].
  - split; [now left|]. intros Q; contradiction.
  - split; [now left|]. intros _ k'. rewrite Esh. lia.
  - destruct (reach_at progs sched j) as [HI HJ].
    destruct (i_th _ _ HI i ta Ht) as (Hp & _ & _).
    destruct (begin_ok i o (pers_of ta) (sh (Y j)) _ p' r0 (i_h _ _ HI) Hp Eb) as (_ & _ & Hr).
    rewrite lvt_ta. destruct r0 as [l'|res].
    + destruct Hr as (_ & _ & Hlv & _).
      assert (L : lvt t' = 0) by (rewrite Et'; unfold lvt; cbn [finish_seg cur]; now rewrite Hlv).
      rewrite L. split; [now left|]. intros _ k'. rewrite Esh. lia.
    + destruct (Hfin res eq_refl) as [-> Q]. rewrite Q, lvt_tb.
      split.
      * destruct (lv_r01 (@inr local result r)) as [G|G]; rewrite G; auto.
      * intros _ k'. rewrite Esh. destruct r as [[|]|]; cbn [lv_r]; try lia. rewrite (Hr eq_refl k'). lia.
  - pose proof Hin as (l0 & Hc0 & Htd0 & Hdn0 & Hcl0). assert (l0 = l) by congruence. subst l0.
    destruct (reach_at progs sched j) as [HI HJ].
    destruct (i_th _ _ HI i t Ht) as (Hp & _ & Hl). rewrite Hc in Hl.
    pose proof (step_ok i l (pers_of t) (sh (Y j)) s' p' r0 (i_h _ _ HI) Hp Hl Es) as SO.
    pose proof (s_ak _ _ _ _ _ _ _ _ _ _ SO) as AK.
    assert (L1 : lvt t = b2z (live l)) by (unfold lvt; now rewrite Hc).
    assert (L2 : lvt t' = lv_r r0).
    { destruct r0 as [l'|res]; [rewrite Et'; reflexivity|].
      destruct (Hfin res eq_refl) as [-> Q]. rewrite Q. apply lvt_tb. }
    split.
    + rewrite L1, L2. destruct (lv_cases i l (pers_of t) (sh (Y j)) s' p' r0 Es) as [Q|(Q1 & Q2 & _)]; [now left|right].
      rewrite Q1, Q2. auto.
    + intros _ k'. rewrite Esh, L1, L2, (Hcl0 k'). apply AK.
Qed.

Definition fj (j : nat) : Z := match nth_error (ths (Y j)) i with Some t => lvt t | None => 0 end.

Lemma fj_a : fj a = 0.
Proof. unfold fj. rewrite Hta. apply lvt_ta. Qed.

Lemma fj_b : fj b = lv_r (inr r).
Proof. unfold fj. rewrite Htb. apply lvt_tb. Qed.

Lemma fj_step j : (a <= j < b)%nat ->
  (fj (S j) = fj j \/ (fj j = 0 /\ fj (S j) = 1 /\ step_by sched j i)) /\
  (step_by sched j i -> forall k', ak (sh (Y (S j))) k' - ak (sh (Y j)) k' = (fj (S j) - fj j) * opw k' o).
Proof.
  intros Hj. destruct (span_step j Hj) as (i0 & t & t' & Hi0 & Ht & Ht' & _ & _ & Htr).
  destruct (lv_trans j i0 t t' Hj Ht Htr) as [M A]. unfold fj. rewrite Ht, Ht'. split.
  - destruct M as [M|(M1 & M2 & ->)]; [now left|right]. auto.
  - intros Hby. unfold step_by in Hby. apply A. congruence.
Qed.

Lemma fj_mono j : forall n, (a <= j)%nat -> (j + n <= b)%nat -> fj j <= fj (j + n).
Proof.
  induction n as [|n IH]; intros Ha Hn; [rewrite Nat.add_0_r; lia|].
  rewrite Nat.add_succ_r. destruct (fj_step (j + n)) as [[M|(M1 & M2 & _)] _]; [lia| |]; specialize (IH Ha); lia.
Qed.

Lemma fj_le j j' : (a <= j <= j')%nat -> (j' <= b)%nat -> fj j <= fj j'.
Proof. intros H1 H2. replace j' with (j + (j' - j))%nat by lia. apply fj_mono; lia. Qed.

Lemma fj_range j : (a <= j <= b)%nat -> 0 <= fj j <= fj b.
Proof. intros Hj. rewrite <- fj_a at 1. split; apply fj_le; lia. Qed.

(** an operation that never becomes live, or has no weight, makes no change of its own *)
Lemma no_change : (lv_r (inr r) = 0 \/ forall k', opw k' o = 0) ->
  forall j k', (a <= j < b)%nat -> step_by sched j i -> mem k' (Y (S j)) = mem k' (Y j).
Proof.
  intros Hz j k' Hj Hby. destruct (fj_step j Hj) as [_ A]. specialize (A Hby k').
  assert (Z0 : (fj (S j) - fj j) * opw k' o = 0).
  { destruct Hz as [Hz|Hz]; [|rewrite Hz; lia].
    pose proof (fj_range j) as R1. pose proof (fj_range (S j)) as R2. rewrite fj_b, Hz in R1, R2.
    replace (fj (S j)) with 0 by lia. replace (fj j) with 0 by lia. lia. }
  rewrite Z0, !ak_memk in A. rewrite !mem_memk.
  destruct (memk k' (sh (Y (S j)))), (memk k' (sh (Y j))); try reflexivity; lia.
Qed.

Lemma own_nil : (lv_r (inr r) = 0 \/ forall k', opw k' o = 0) -> forall k', own_changes progs sched a b i k' = [].
Proof.
  intros Hz k'. unfold own_changes. apply filter_none. intros x Hx. apply in_seq in Hx.
  destruct (nth_error sched x) as [i'|] eqn:En; [|reflexivity].
  destruct (Nat.eqb_spec i' i) as [->|]; [|reflexivity]. cbn [andb].
  rewrite (no_change Hz x k'); [|lia|exact En]. now rewrite eqb_reflx.
Qed.

Lemma fj_jump : forall n, (a + n <= b)%nat -> fj (a + n) = 1 ->
  exists jl, (a <= jl < a + n)%nat /\ fj jl = 0 /\ fj (S jl) = 1 /\ step_by sched jl i.
Proof.
  induction n as [|n IH]; intros Hn E.
  - rewrite Nat.add_0_r, fj_a in E. lia.
  - rewrite Nat.add_succ_r in E. destruct (fj_step (a + n)) as [[M|(M1 & M2 & M3)] _]; [lia| |].
    + destruct IH as (jl & H1 & H2); [lia|congruence|]. exists jl. split; [lia|exact H2].
    + exists (a + n)%nat. split; [lia|auto].
Qed.

(** a live operation of weight c = +-1 on key k has exactly one step of its own changing k *)
Lemma own_single k : lv_r (inr r) = 1 -> (opw k o = 1 \/ opw k o = -1) ->
  exists jl, own_changes progs sched a b i k = [jl] /\ (a <= jl < b)%nat /\
             ak (sh (Y (S jl))) k - ak (sh (Y jl)) k = opw k o.
Proof.
  intros Hl Hw. destruct (fj_jump (b - a)) as (jl & H1 & H2 & H3 & H4); [lia|replace (a + (b - a))%nat with b by lia; now rewrite fj_b|].
  replace (a + (b - a))%nat with b in H1 by lia.
  assert (Hd : ak (sh (Y (S jl))) k - ak (sh (Y jl)) k = opw k o).
  { destruct (fj_step jl H1) as [_ A]. rewrite (A H4 k), H2, H3. lia. }
  exists jl. split; [|split; [exact H1|exact Hd]].
  unfold own_changes. apply filter_seq_single; [|lia]. intros x Hx.
  assert (Hxb : (a <= x < b)%nat) by lia.
  destruct (Nat.eqb_spec x jl) as [->|Hne].
  - unfold step_by in H4. rewrite H4, Nat.eqb_refl. cbn [andb]. rewrite !mem_memk. rewrite !ak_memk in Hd.
    destruct (memk k (sh (Y (S jl)))), (memk k (sh (Y jl))); try reflexivity; lia.
  - destruct (nth_error sched x) as [i'|] eqn:En; [|reflexivity].
    destruct (Nat.eqb_spec i' i) as [->|]; [|reflexivity]. cbn [andb].
    destruct (fj_step x Hxb) as [_ A]. specialize (A En k).
    assert (Z0 : fj (S x) = fj x).
    { pose proof (fj_range x) as R1. pose proof (fj_range (S x)) as R2. rewrite fj_b, Hl in R1, R2.
      destruct (Nat.lt_ge_cases x jl) as [L|L].
      - pose proof (fj_le (S x) jl). pose proof (fj_le x jl). lia.
      - pose proof (fj_le (S jl) x). pose proof (fj_le (S jl) (S x)). lia. }
    rewrite Z0, !ak_memk in A. rewrite !mem_memk.
    destruct (memk k (sh (Y (S x)))), (memk k (sh (Y x))); try reflexivity; lia.
Qed.

(** ** the step that completes the operation *)

Lemma ta_ne_tb : ta <> tb.
Proof. intros E. pose proof Hdn as Q. rewrite <- E in Q. apply (f_equal (@length result)) in Q. rewrite app_length in Q. cbn in Q. lia. Qed.

Lemma tb_not_inprog : ~ inprog tb.
Proof. intros (l & Hc & _). congruence. Qed.

Definition completes (e : nat) : Prop :=
  (a <= e < b)%nat /\ step_by sched e i /\
  ((nth_error (ths (Y e)) i = Some ta /\ exists p', begin i o (pers_of ta) (sh (Y e)) = (sh (Y e), p', inr r)) \/
   (exists t l s' p', nth_error (ths (Y e)) i = Some t /\ inprog t /\ cur t = Some l /\
                      step i l (pers_of t) (sh (Y e)) = (s', p', inr r))).

Lemma completion_aux : forall n, (a + n <= b)%nat ->
  (exists t, nth_error (ths (Y (a + n))) i = Some t /\ (t = ta \/ inprog t)) \/ exists e, completes e.
Proof.
  induction n as [|n IH]; intros Hn.
  - left. exists ta. rewrite Nat.add_0_r. auto.
  - destruct IH as [(t & Ht & Hph)|IH]; [lia| |now right].
    destruct (span_step (a + n)) as (i0 & t0 & t' & Hi0 & Ht0 & Ht' & _ & Hph' & Htr); [lia|].
    rewrite Ht in Ht0. inversion Ht0; subst t0. rewrite Nat.add_succ_r.
    destruct Hph' as [Q|[Q|Q]]; [left; exists t'; auto|left; exists t'; auto|]. right. exists (a + n)%nat.
    destruct Htr as [(_ & E)|[(_ & E & _)|[(-> & -> & p' & r0 & Eb & Esh & Et' & Hfin)|(-> & Hin & l & s' & p' & r0 & Hc & Es & Esh & Et' & Hfin)]]].
    + exfalso. subst t'. subst t. destruct Hph as [Q|Q]; [now apply ta_ne_tb|now apply tb_not_inprog].
    + exfalso. subst t'. subst t. destruct Hph as [Q|Q]; [now apply ta_ne_tb|now apply tb_not_inprog].
    + split; [lia|]. split; [exact Hi0|]. left. split; [exact Ht|]. exists p'.
      destruct r0 as [l'|res]; [exfalso; rewrite Q in Et'; apply (f_equal (@cur local pers op result)) in Et'; cbn in Et'; congruence|].
      destruct (Hfin res eq_refl) as [-> _]. exact Eb.
    + split; [lia|]. split; [exact Hi0|]. right. exists t, l, s', p'. split; [exact Ht|]. split; [exact Hin|]. split; [exact Hc|].
      destruct r0 as [l'|res]; [exfalso; rewrite Q in Et'; apply (f_equal (@cur local pers op result)) in Et'; cbn in Et'; congruence|].
      destruct (Hfin res eq_refl) as [-> _]. exact Es.
Qed.

Lemma completion : exists e, completes e.
Proof.
  destruct (completion_aux (b - a)) as [(t & Ht & Hph)|C]; [lia| |exact C]. exfalso.
  replace (a + (b - a))%nat with b in Ht by lia. rewrite Htb in Ht. inversion Ht; subst t.
  destruct Hph as [Q|Q]; [now apply ta_ne_tb|now apply tb_not_inprog].
Qed.

(** ** invariants of the local state along the operation *)

Lemma span_ind (Q : nat -> local -> Prop) :
  (forall j p' l', (a <= j < b)%nat -> nth_error (ths (Y j)) i = Some ta ->
     begin i o (pers_of ta) (sh (Y j)) = (sh (Y j), p', inl l') -> sh (Y (S j)) = sh (Y j) -> Q (S j) l') ->
  (forall j i0 t l t' l', (a <= j < b)%nat -> nth_error sched j = Some i0 ->
     nth_error (ths (Y j)) i = Some t -> cur t = Some l -> nth_error (ths (Y (S j))) i = Some t' -> cur t' = Some l' ->
     Q j l -> Q (S j) l') ->
  forall n, (a + n <= b)%nat -> forall t l, nth_error (ths (Y (a + n))) i = Some t -> cur t = Some l -> Q (a + n)%nat l.
Proof.
  intros Hbeg Hpres. induction n as [|n IH]; intros Hn t l Ht Hc.
  - rewrite Nat.add_0_r, Hta in Ht. inversion Ht; subst t. congruence.
  - rewrite Nat.add_succ_r in *.
    destruct (span_step (a + n)) as (i0 & t0 & t' & Hi0 & Ht0 & Ht' & _ & _ & Htr); [lia|].
    rewrite Ht in Ht'. inversion Ht'; subst t'.
    assert (Hkeep : forall l0, cur t0 = Some l0 -> Q (S (a + n)) l).
    { intros l0 Hc0. apply (Hpres (a + n)%nat i0 t0 l0 t l); auto; [lia|]. apply (IH ltac:(lia) t0 l0 Ht0 Hc0). }
    destruct Htr as [(_ & E)|[(_ & E & _)|[(-> & -> & p' & r0 & Eb & Esh & Et' & Hfin)|(-> & Hin & l0 & s' & p' & r0 & Hc0 & _)]]].
    + subst t0. now apply (Hkeep l).
    + subst t0. now apply (Hkeep l).
    + destruct r0 as [l'|res]; [|rewrite Et' in Hc; cbn in Hc; discriminate].
      rewrite Et' in Hc. cbn in Hc. inversion Hc; subst l'. apply (Hbeg (a + n)%nat p'); auto. lia.
    + now apply (Hkeep l0).
Qed.

End Span.

(** * Observing the absence of a key

    [Good k s l]: what a search for [k] (Lookup, or the locating search of Delete), or a softDelete that
    has not yet set its own level-0 mark, knows in the heap [s], unless the key has already been seen
    absent: its [prev] is below [k], and IF [prev] is marked at level 0 its frozen successor is not
    above [k] (otherwise the moment just before that mark had [k] absent); at level 0 the node [curr]
    read from [prev] is not above [k]; the node of a softDelete is still unmarked at level 0. *)

Ltac inv0 E := inversion E; subst; clear E.
Ltac inv E := first [discriminate E | injection E as <- <- <-].

Section Absent.
Variable k : Z.

Definition kle s c := node_lt s c k = true \/ node_eq s c k = true.
Definition Qp s prev := marked s prev 0 = true -> kle s (fst (getnext s prev 0)).
Definition pg s prev := gok s prev /\ node_lt s prev k = true /\ Qp s prev.
Definition rel (c : fk) : Prop := match c with KLookup | KDelete => True | _ => False end.
Definition sdg s (k' : Z) (n : nat) (m : bool) : Prop :=
  m = false -> k' = k /\ pub s n /\ key (node s n) = k /\ marked s n 0 = false.

Definition Good s (l : local) : Prop :=
  match l with
  | LFP0 k' c b => rel c -> k' = k
  | LFP1 k' c b i prev => rel c -> k' = k /\ pg s prev
  | LFP2 k' c b i prev curr => rel c -> k' = k /\ pg s prev /\ (i = 0%nat -> gok s curr /\ kle s curr)
  | LFPH k' c b i prev curr next => rel c -> k' = k /\ pg s prev
  | LSdLoad k' n i m => sdg s k' n m
  | LSdCas k' n i m _ => sdg s k' n m
  | _ => True
  end.

Lemma rel_dec c : rel c \/ ~ rel c.
Proof. destruct c; cbn; auto. Qed.

Lemma pg_hd s : HInv s -> pg s hd_id.
Proof.
  intros H. split; [apply gok_hd|]. split; [reflexivity|]. intros M. rewrite (h_hdm _ H 0%nat) in M. discriminate.
Qed.

Lemma read_succ s m : HInv s -> pg s m ->
  (gok s (fst (getnext s m 0)) /\ kle s (fst (getnext s m 0))) \/ memk k s = false.
Proof.
  intros H (G & L & Q). unfold Qp, kle in *. set (c := fst (getnext s m 0)) in *.
  assert (Gc : gok s c) by (apply pt_gok, word_pt; exact H).
  destruct (node_lt s c k) eqn:E1; [left; split; [exact Gc|now left]|].
  destruct (node_eq s c k) eqn:E2; [left; split; [exact Gc|now right]|].
  destruct (marked s m 0) eqn:M.
  - destruct (Q eq_refl) as [X|X]; congruence.
  - right. apply (gap_absent s k m H); auto.
    destruct (node_lt_cases _ _ _ L) as [Nt _]. destruct (gok_pub_or_hd _ _ G Nt) as [->|P]; [now left|right].
    now apply pub_unmarked_onchain.
Qed.

Lemma unmarked_top s curr i : HInv s -> tow s i curr -> curr <> tl_id -> snd (getnext s curr i) = false ->
  marked s curr 0 = false.
Proof.
  intros H T Ct W. destruct (marked s curr 0) eqn:Q; [|reflexivity]. exfalso.
  destruct T as [T|T]; [contradiction|]. pose proof (h_top _ H curr Q i T) as Q2. unfold marked in Q2. congruence.
Qed.

Ltac gtriv := left; cbn [Good rel sdg]; solve [exact I | (let Q := fresh in intros Q; discriminate Q) | intros []].

(** the thread's own step, judged in the state the step read *)
Lemma Good_step tid l p s s' p' l' : HInv s -> linv s p l -> Good s l -> step tid l p s = (s', p', inl l') ->
  Good s l' \/ memk k s = false.
Proof.
  intros H Hl HG E.
  destruct l as [k0 want|k0 want lv|k0 c b|k0 c b i prev|k0 c b i prev curr|k0 c b i prev curr next
                |k0 x xl b|k0 x xl b i|k0 x xl b i|k0 x xl b i|k0 x xl b i|k0 n i m|k0 n i m next| |it|it next];
    cbn [step] in E; cbn [Good linv] in HG, Hl.
  - destruct (sl_level s <? want)%nat; inv E; gtriv.
  - destruct (Nat.eqb (sl_level s) lv); cbn [heap sl_level sts] in E; inv E; gtriv.
  - inv E. left. cbn [Good]. intros R. split; [exact (HG R)|apply pg_hd; exact H].
  - inv E. destruct (rel_dec c) as [R|R]; [|left; cbn [Good]; intros R'; contradiction].
    destruct (HG R) as (E1 & Pg). destruct i as [|i'].
    + destruct (read_succ s prev H Pg) as [(G1 & G2)|Ab]; [left|now right].
      cbn [Good]. intros _. split; [exact E1|]. split; [exact Pg|]. intros _. split; assumption.
    + left. cbn [Good]. intros _. split; [exact E1|]. split; [exact Pg|]. intros Q; discriminate Q.
  - destruct Hl as (A & B & C & D & F & G & I0 & T).
    destruct (getnext s curr i) as [next deleted] eqn:W. destruct deleted.
    + inv E. left. cbn [Good]. intros R. destruct (HG R) as (E1 & Pg & _). auto.
    + destruct (node_lt s curr k0) eqn:Lt.
      * inv E. destruct (rel_dec c) as [R|R]; [|left; cbn [Good]; intros R'; contradiction].
        destruct (HG R) as (E1 & Pg & _).
        assert (Pc : pg s curr).
        { split; [exact F|]. split; [rewrite <- E1; exact Lt|]. intros M. exfalso.
          destruct (node_lt_cases _ _ _ Lt) as [Ct _].
          rewrite (unmarked_top s curr i H T Ct) in M; [discriminate|now rewrite W]. }
        destruct i as [|i'].
        -- destruct (read_succ s curr H Pc) as [(G1 & G2)|Ab]; [left|now right].
           rewrite W in G1, G2. cbn [fst] in G1, G2.
           cbn [Good]. intros _. split; [exact E1|]. split; [exact Pc|]. intros _. split; assumption.
        -- left. cbn [Good]. intros _. split; [exact E1|]. split; [exact Pc|]. intros Q; discriminate Q.
      * destruct i as [|j].
        -- destruct (buf_set0 s k0 b prev curr A) as [Ep Es0].
           destruct c as [|x xl|x xl i|x xl| | | |last|]; cbn [fp_done] in E.
           ++ inv E.
           ++ destruct (node_eq s curr k0); inv E. gtriv.
           ++ inv E. gtriv.
           ++ unfold insert_finish in E. inv E.
           ++ destruct (HG I) as (E1 & _).
              destruct (node_eq s curr k0) eqn:Ne; [|inv E]. unfold softdelete_start in E. inv E.
              left. cbn [Good sdg]. intros _. rewrite Es0. destruct (node_eq_true _ _ _ Ne) as (N1 & N2 & N3).
              split; [exact E1|]. split; [destruct (gok_pub_or_hd _ _ F N2); [contradiction|assumption]|].
              split; [now rewrite <- E1|]. unfold marked. now rewrite W.
           ++ inv E.
           ++ inv E.
           ++ destruct (node_eq s curr k0 && Nat.eqb last (succ_at (set_buf b 0 prev curr) 0)); [inv E; gtriv|].
              destruct (next_done_spec _ _ _ _ _ _ E) as (_ & _ & [(Q & _)|Q]); inversion Q; subst. gtriv.
           ++ inv E.
        -- inv E. left. cbn [Good]. intros R. destruct (HG R) as (E1 & Pg & _). auto.
  - destruct (dcas s prev i curr next false) as [sh1 ok]. destruct ok.
    + assert (Er : l' = LFP1 k0 c b i prev) by (destruct i; inv E; reflexivity). subst l'.
      left. cbn [Good]. exact HG.
    + inv E. left. cbn [Good]. intros R. exact (proj1 (HG R)).
  - destruct (dcas s (pred_at b 0) 0 (succ_at b 0) x false) as [sh1 ok]. destruct ok.
    + destruct xl; [unfold insert_finish in E|]; inv E. gtriv.
    + inv E. gtriv.
  - destruct (snd (getnext s (succ_at b i) i)); inv E; gtriv.
  - destruct (getnext s x i) as [nn deleted]. destruct deleted; [unfold insert_finish in E; inv E|].
    destruct (Nat.eqb nn (succ_at b i)); [inv E; gtriv|].
    destruct (dcas s x i nn (succ_at b i) false) as [sh1 ok]. destruct ok; [|unfold insert_finish in E]; inv E. gtriv.
  - destruct (dcas s (pred_at b i) i (succ_at b i) x false) as [sh1 ok]. destruct ok; inv E; gtriv.
  - destruct (snd (getnext s x i)); [inv E; gtriv|].
    destruct (i <? xl)%nat; [|unfold insert_finish in E]; inv E. gtriv.
  - destruct (getnext s n i) as [next deleted]. destruct deleted.
    + destruct i as [|j].
      * destruct m; inv E. gtriv.
      * inv E. left. exact HG.
    + inv E. left. exact HG.
  - destruct (dcas s n i next next true) as [sh1 ok]. destruct ok; cbn [andb] in E.
    + destruct i as [|j]; cbn [Nat.eqb] in E; inv E; [gtriv|left; exact HG].
    + inv E. left. exact HG.
  - inv E.
  - destruct (getnext s (it_curr it) 0) as [next deleted]. destruct deleted; [inv E; gtriv|].
    destruct (next_done_spec _ _ _ _ _ _ E) as (_ & _ & [(Q & _)|Q]); inversion Q; subst. gtriv.
  - destruct (dcas s (it_prev it) 0 (it_curr it) next false) as [sh1 ok]. destruct ok; [|inv E; gtriv].
    destruct (next_done_spec _ _ _ _ _ _ E) as (_ & _ & [(Q & _)|Q]); inversion Q; subst. gtriv.
Qed.

(** stability under any step *)
Lemma kle_ext s s' ex mk c : HInv s -> ext s s' ex mk -> gok s c -> kle s c -> kle s' c.
Proof.
  intros H X G [Q|Q]; [left; now rewrite (node_lt_ext s s' ex mk H X c k G)|right; now rewrite (node_eq_ext s s' ex mk H X c k G)].
Qed.

Lemma pg_ext s s' ex mk lk ow mkl prev : HInv s -> HInv s' -> ext s s' ex mk -> lext s s' lk ow mkl ->
  pg s prev -> pg s' prev \/ memk k s = false.
Proof.
  intros H H' X XL (G & L & Q).
  assert (G' : gok s' prev) by now apply (gok_ext s s' ex mk X).
  assert (L' : node_lt s' prev k = true) by (rewrite (node_lt_ext s s' ex mk H X prev k G); exact L).
  destruct (marked s' prev 0) eqn:M'.
  2:{ left. split; [exact G'|]. split; [exact L'|]. intros Q'. congruence. }
  assert (Gc : gok s (fst (getnext s prev 0))) by (apply pt_gok, word_pt; exact H).
  destruct (marked s prev 0) eqn:M.
  - left. split; [exact G'|]. split; [exact L'|]. intros _. rewrite (e_mark _ _ _ _ X prev 0%nat M).
    apply (kle_ext s s' ex mk); [exact H|exact X|exact Gc|exact (Q M)].
  - assert (Ef : fst (getnext s' prev 0) = fst (getnext s prev 0)).
    { destruct (x_mk _ _ _ _ _ XL prev 0%nat M') as [Q1|Q1]; [congruence|]. now apply (x_mkw _ _ _ _ _ XL). }
    destruct (node_lt s (fst (getnext s prev 0)) k) eqn:E1.
    { left. split; [exact G'|]. split; [exact L'|]. intros _. rewrite Ef. apply (kle_ext s s' ex mk); auto. now left. }
    destruct (node_eq s (fst (getnext s prev 0)) k) eqn:E2.
    { left. split; [exact G'|]. split; [exact L'|]. intros _. rewrite Ef. apply (kle_ext s s' ex mk); auto. now right. }
    right. apply (gap_absent s k prev H); auto.
    destruct (node_lt_cases _ _ _ L) as [Nt _]. destruct (gok_pub_or_hd _ _ G Nt) as [->|P]; [now left|right].
    now apply pub_unmarked_onchain.
Qed.

Lemma sdg_ext s s' ex mk k0 n m : ext s s' ex mk ->
  (forall n, pub s n -> key (node s n) = k -> marked s n 0 = false -> marked s' n 0 = true -> memk k s' = false) ->
  sdg s k0 n m -> sdg s' k0 n m \/ memk k s' = false.
Proof.
  intros X Hmk HG. unfold sdg in *. destruct m; [left; intros Q; discriminate Q|].
  destruct (HG eq_refl) as (E1 & P & K & M).
  destruct (marked s' n 0) eqn:M'; [right; now apply (Hmk n)|left]. intros _.
  split; [exact E1|]. split; [now apply (e_pub _ _ _ _ X)|]. split; [|reflexivity].
  rewrite <- K. apply (pub_key_ext s s' ex mk n X P).
Qed.

Lemma Good_ext s s' ex mk lk ow mkl l : HInv s -> HInv s' -> ext s s' ex mk -> lext s s' lk ow mkl ->
  (forall n, pub s n -> key (node s n) = k -> marked s n 0 = false -> marked s' n 0 = true -> memk k s' = false) ->
  Good s l -> Good s' l \/ memk k s = false \/ memk k s' = false.
Proof.
  intros H H' X XL Hmk HG.
  destruct l as [k0 want|k0 want lv|k0 c b|k0 c b i prev|k0 c b i prev curr|k0 c b i prev curr next
                |k0 x xl b|k0 x xl b i|k0 x xl b i|k0 x xl b i|k0 x xl b i|k0 n i m|k0 n i m next| |it|it next];
    cbn [Good] in *; try (left; exact HG).
  - destruct (rel_dec c) as [R|R]; [|left; intros R'; contradiction]. destruct (HG R) as (E1 & Pg).
    destruct (pg_ext s s' ex mk lk ow mkl prev H H' X XL Pg) as [Pg'|Ab]; [left; intros _; auto|right; now left].
  - destruct (rel_dec c) as [R|R]; [|left; intros R'; contradiction]. destruct (HG R) as (E1 & Pg & C).
    destruct (pg_ext s s' ex mk lk ow mkl prev H H' X XL Pg) as [Pg'|Ab]; [left; intros _|right; now left].
    split; [exact E1|]. split; [exact Pg'|]. intros Ei. destruct (C Ei) as [G1 G2].
    split; [now apply (gok_ext s s' ex mk X)|now apply (kle_ext s s' ex mk)].
  - destruct (rel_dec c) as [R|R]; [|left; intros R'; contradiction]. destruct (HG R) as (E1 & Pg).
    destruct (pg_ext s s' ex mk lk ow mkl prev H H' X XL Pg) as [Pg'|Ab]; [left; intros _; auto|right; now left].
  - destruct (sdg_ext s s' ex mk k0 n m X Hmk HG) as [Q|Q]; auto.
  - destruct (sdg_ext s s' ex mk k0 n m X Hmk HG) as [Q|Q]; auto.
Qed.

(** a step that sets a level-0 mark is the LP of a Delete of that key *)
Lemma to_sdload tid l p s s' p' k0 n : step tid l p s = (s', p', inl (LSdLoad k0 n 0 true)) -> linv s p l -> live l = false.
Proof.
  intros E Hl.
  destruct l as [k1 want|k1 want lv|k1 c b|k1 c b i prev|k1 c b i prev curr|k1 c b i prev curr next
                |k1 x xl b|k1 x xl b i|k1 x xl b i|k1 x xl b i|k1 x xl b i|k1 n1 i m|k1 n1 i m next| |it|it next];
    cbn [step] in E; cbn [live]; try reflexivity.
  - inv0 E.
  - inv0 E.
  - destruct (getnext s curr i) as [next deleted]. destruct deleted; [inv0 E|].
    destruct (node_lt s curr k1); [inv0 E|]. destruct i as [|j]; [|inv0 E].
    destruct c as [|x xl|x xl i|x xl| | | |last|]; cbn [fp_done] in E.
    + inv0 E.
    + destruct (node_eq s curr k1); inv0 E.
    + inv0 E.
    + unfold insert_finish in E. inv0 E.
    + destruct (node_eq s curr k1); [unfold softdelete_start in E|]; inv0 E.
    + inv0 E.
    + inv0 E.
    + destruct (node_eq s curr k1 && Nat.eqb last (succ_at (set_buf b 0 prev curr) 0)); [inv0 E|].
      destruct (next_done_spec _ _ _ _ _ _ E) as (_ & _ & [(Q & _)|Q]); inversion Q.
    + inv0 E.
  - destruct (dcas s prev i curr next false) as [sh1 ok]. destruct ok; [destruct i|]; inv0 E.
  - destruct (snd (getnext s (succ_at b i) i)); inv0 E.
  - destruct (getnext s x i) as [nn deleted]. destruct deleted; [unfold insert_finish in E; inv0 E|].
    destruct (Nat.eqb nn (succ_at b i)); [inv0 E|].
    destruct (dcas s x i nn (succ_at b i) false) as [sh1 ok]. destruct ok; [|unfold insert_finish in E]; inv0 E.
  - destruct (dcas s (pred_at b i) i (succ_at b i) x false) as [sh1 ok]. destruct ok; inv0 E.
  - destruct (snd (getnext s x i)); [inv0 E|]. destruct (i <? xl)%nat; [|unfold insert_finish in E]; inv0 E.
  - cbn [linv] in Hl. destruct Hl as (_ & B & _).
    destruct (getnext s n1 i) as [next deleted]. destruct deleted; [|inv0 E].
    destruct i as [|j]; [destruct m; inv0 E|]. inv0 E. destruct (B eq_refl) as [_ Q]. discriminate Q.
  - cbn [linv] in Hl. destruct Hl as (_ & -> & _). reflexivity.
Qed.

Lemma mark_absent progs (y : sysT) i0 n : Inv progs y -> pub (sh y) n -> key (node (sh y) n) = k ->
  marked (sh y) n 0 = false -> marked (sh (stepS y i0)) n 0 = true -> memk k (sh (stepS y i0)) = false.
Proof.
  intros HI P K M M'.
  destruct (nth_error (ths y) i0) as [t|] eqn:Ht.
  2:{ exfalso. unfold stepS, step_at in M'. rewrite Ht in M'. congruence. }
  destruct (i_th _ _ HI i0 t Ht) as (Hp & _ & Hl).
  destruct (stepS_self y i0 t Ht) as [(E & _)|[(l & s' & p' & r & Hc & Es & E)|(o & rest & s' & p' & r & Hc & Htd & Eb & E)]].
  - rewrite E in M'. congruence.
  - rewrite Hc in Hl. rewrite E in *. cbn [sh] in *.
    pose proof (step_ok i0 l (pers_of t) (sh y) s' p' r (i_h _ _ HI) Hp Hl Es) as SO.
    destruct (s_ext _ _ _ _ _ _ _ _ _ _ SO) as (ex & mk & X & _ & Hmk).
    destruct (e_m0 _ _ _ _ X n M') as [Q|Q]; [congruence|].
    destruct (Hmk n Q) as (k0 & ->).
    destruct (s_l _ _ _ _ _ _ _ _ _ _ SO) as (_ & L' & C' & _). cbn [linv] in L'. destruct L' as ((P' & K') & _).
    assert (Ek : k0 = k). { rewrite <- K', <- K. apply (pub_key_ext (sh y) s' ex mk n X P). }
    clear K'. subst k0.
    pose proof (to_sdload i0 l (pers_of t) (sh y) s' p' k n Es Hl) as Lv.
    pose proof (s_ak _ _ _ _ _ _ _ _ _ _ SO k) as AK. rewrite <- C', Lv in AK.
    cbn [lv_r live b2z cls_l clsw] in AK. rewrite Z.eqb_refl in AK.
    rewrite !ak_memk in AK. destruct (memk k s'), (memk k (sh y)); try reflexivity; lia.
  - exfalso. destruct (begin_ok i0 o (pers_of t) (sh y) s' p' r (i_h _ _ HI) Hp Eb) as (-> & _ & _).
    rewrite E in M'. cbn [sh] in M'. congruence.
Qed.

Lemma good_pres progs (y : sysT) i0 i t l t' l' : Inv progs y -> Inv2 y ->
  nth_error (ths y) i = Some t -> cur t = Some l ->
  nth_error (ths (stepS y i0)) i = Some t' -> cur t' = Some l' ->
  Good (sh y) l ->
  Good (sh (stepS y i0)) l' \/ memk k (sh y) = false \/ memk k (sh (stepS y i0)) = false.
Proof.
  intros HI HJ Ht Hc Ht' Hc' HG.
  assert (Hpre : Good (sh y) l' \/ memk k (sh y) = false).
  { destruct (Nat.eq_dec i i0) as [<-|Hne].
    - destruct (stepS_self y i t Ht) as [(E & _)|[(l0 & s' & p' & r & Hc0 & Es & E)|(o & rest & s' & p' & r & Hc0 & _)]].
      + rewrite E, Ht in Ht'. inversion Ht'; subst t'. left. congruence.
      + assert (l0 = l) by congruence. subst l0.
        rewrite E in Ht'. cbn [ths] in Ht'. rewrite (nth_upd_self _ i t _ Ht) in Ht'. inversion Ht'; subst t'.
        destruct r as [l1|res]; cbn [finish_seg cur] in Hc'; [|discriminate]. inversion Hc'; subst l1.
        destruct (i_th _ _ HI i t Ht) as (Hp & _ & Hl). rewrite Hc in Hl.
        apply (Good_step i l (pers_of t) (sh y) s' p' l' (i_h _ _ HI) Hl HG Es).
      + congruence.
    - rewrite stepS_other in Ht' by congruence. rewrite Ht in Ht'. inversion Ht'; subst t'. left. congruence. }
  destruct Hpre as [Hpre|Ab]; [|right; now left].
  destruct (step_exts progs y i0 HI HJ) as (ex & mk & lk & ow & mkl & X & XL).
  apply (Good_ext (sh y) (sh (stepS y i0)) ex mk lk ow mkl l' (i_h _ _ HI) (i_h _ _ (Inv_step progs y i0 HI)) X XL); [|exact Hpre].
  intros n P K M M'. now apply (mark_absent progs y i0 n).
Qed.

End Absent.

(** * 2. Successful Insert and Delete *)

Lemma op_span_unpack progs sched a b i o r : op_span progs sched a b i o r ->
  (a < b)%nat /\ (b <= length sched)%nat /\
  exists ta tb, nth_error (ths (at_ progs sched a)) i = Some ta /\ nth_error (ths (at_ progs sched b)) i = Some tb /\
                cur ta = None /\ cur tb = None /\ todo ta = o :: todo tb /\ done tb = done ta ++ [r].
Proof. intros H. exact H. Qed.

Theorem lin_insert_true : stmt_lin_insert_true.
Proof.
  intros progs sched a b i k w Hs.
  destruct (op_span_unpack _ _ _ _ _ _ _ Hs) as (Hab & Hb & ta & tb & Hta & Htb & Hca & Hcb & Htd & Hdn).
  assert (Hw : opw k (OInsert k w) = 1) by (unfold opw; cbn; now rewrite Z.eqb_refl).
  destruct (own_single progs sched a b i (OInsert k w) (RBool true) ta tb Hab Hb Hta Htb Hca Hcb Htd Hdn k eq_refl)
    as (jl & E & Hj & Hd); [now left|].
  exists jl. split; [exact E|]. rewrite Hw, !ak_memk in Hd. rewrite !mem_memk.
  destruct (memk k (sh (at_ progs sched (S jl)))), (memk k (sh (at_ progs sched jl))); try (split; reflexivity); lia.
Qed.
Print Assumptions lin_insert_true.

Theorem lin_delete_true : stmt_lin_delete_true.
Proof.
  intros progs sched a b i o k Ho Hs.
  destruct (op_span_unpack _ _ _ _ _ _ _ Hs) as (Hab & Hb & ta & tb & Hta & Htb & Hca & Hcb & Htd & Hdn).
  assert (Hw : opw k o = -1) by (destruct Ho as [-> | ->]; unfold opw; cbn; now rewrite Z.eqb_refl).
  destruct (own_single progs sched a b i o (RBool true) ta tb Hab Hb Hta Htb Hca Hcb Htd Hdn k eq_refl)
    as (jl & E & Hj & Hd); [now right|].
  exists jl. split; [exact E|]. rewrite Hw, !ak_memk in Hd. rewrite !mem_memk.
  destruct (memk k (sh (at_ progs sched (S jl)))), (memk k (sh (at_ progs sched jl))); try (split; reflexivity); lia.
Qed.
Print Assumptions lin_delete_true.

(** * 3. Operations that observe *)

Lemma own_or_same (y : sysT) i0 i t l t' l' :
  nth_error (ths y) i = Some t -> cur t = Some l ->
  nth_error (ths (stepS y i0)) i = Some t' -> cur t' = Some l' ->
  l' = l \/ exists s' p', step i l (pers_of t) (sh y) = (s', p', inl l').
Proof.
  intros Ht Hc Ht' Hc'. destruct (Nat.eq_dec i i0) as [<-|Hne].
  - destruct (stepS_self y i t Ht) as [(E & _)|[(l0 & s' & p' & r & Hc0 & Es & E)|(o & rest & s' & p' & r & Hc0 & _)]].
    + rewrite E, Ht in Ht'. inversion Ht'; subst t'. left. congruence.
    + assert (l0 = l) by congruence. subst l0.
      rewrite E in Ht'. cbn [ths] in Ht'. rewrite (nth_upd_self _ i t _ Ht) in Ht'. inversion Ht'; subst t'.
      destruct r as [l1|res]; cbn [finish_seg cur] in Hc'; [|discriminate]. inversion Hc'; subst l1.
      right. eauto.
    + congruence.
  - rewrite stepS_other in Ht' by congruence. rewrite Ht in Ht'. inversion Ht'; subst t'. left. congruence.
Qed.

Definition Obs progs sched (a : nat) (k : Z) (j : nat) : Prop :=
  exists j', (a <= j' <= j)%nat /\ mem k (at_ progs sched j') = false.

Lemma absent_pres k progs sched a j i0 i t l t' l' : (a <= j)%nat -> nth_error sched j = Some i0 ->
  nth_error (ths (at_ progs sched j)) i = Some t -> cur t = Some l ->
  nth_error (ths (at_ progs sched (S j))) i = Some t' -> cur t' = Some l' ->
  Obs progs sched a k j \/ Good k (sh (at_ progs sched j)) l ->
  Obs progs sched a k (S j) \/ Good k (sh (at_ progs sched (S j))) l'.
Proof.
  intros Ha Hi0 Ht Hc Ht' Hc' [(j' & Hj' & Hm)|HG].
  - left. exists j'. split; [lia|exact Hm].
  - destruct (reach_at progs sched j) as [HI HJ].
    pose proof (at_S progs sched j i0 Hi0) as ES. rewrite ES in Ht'.
    destruct (good_pres k progs (at_ progs sched j) i0 i t l t' l' HI HJ Ht Hc Ht' Hc' HG) as [G|[G|G]].
    + right. rewrite ES. exact G.
    + left. exists j. split; [lia|exact G].
    + left. exists (S j). split; [lia|]. rewrite mem_memk, ES. exact G.
Qed.

(** ** Lookup *)

Definition lshape (k : Z) (l : local) : Prop :=
  match l with
  | LFP0 k' KLookup _ => k' = k
  | LFP1 k' KLookup _ _ _ => k' = k
  | LFP2 k' KLookup _ _ _ _ => k' = k
  | LFPH k' KLookup _ _ _ _ _ => k' = k
  | _ => False
  end.

Lemma lshape_step k tid l p s s' p' l' : lshape k l -> step tid l p s = (s', p', inl l') -> lshape k l'.
Proof.
  intros Hs E.
  destruct l as [k0 want|k0 want lv|k0 c b|k0 c b i prev|k0 c b i prev curr|k0 c b i prev curr next
                |k0 x xl b|k0 x xl b i|k0 x xl b i|k0 x xl b i|k0 x xl b i|k0 n i m|k0 n i m next| |it|it next];
    cbn [lshape] in Hs; try contradiction; destruct c; try contradiction; cbn [step] in E.
  - inv E. exact Hs.
  - inv E. exact Hs.
  - destruct (getnext s curr i) as [next deleted]. destruct deleted; [inv E; exact Hs|].
    destruct (node_lt s curr k0); [inv E; exact Hs|]. destruct i as [|j]; [|inv E; exact Hs].
    cbn [fp_done] in E. inv E.
  - destruct (dcas s prev i curr next false) as [sh1 ok]. destruct ok; [destruct i|]; inv E; exact Hs.
Qed.

Lemma fin_lookup_true k tid l p s s' p' : lshape k l -> HInv s -> linv s p l ->
  step tid l p s = (s', p', inr (RBool true)) -> memk k s = true.
Proof.
  intros Hs H Hl E.
  destruct l as [k0 want|k0 want lv|k0 c b|k0 c b i prev|k0 c b i prev curr|k0 c b i prev curr next
                |k0 x xl b|k0 x xl b i|k0 x xl b i|k0 x xl b i|k0 x xl b i|k0 n i m|k0 n i m next| |it|it next];
    cbn [lshape] in Hs; try contradiction; destruct c; try contradiction; cbn [step] in E; subst k0.
  - discriminate E.
  - discriminate E.
  - cbn [linv] in Hl. destruct Hl as (A & B & C & D & F & G & I0 & T).
    destruct (getnext s curr i) as [next deleted] eqn:W. destruct deleted; [discriminate E|].
    destruct (node_lt s curr k); [discriminate E|]. destruct i as [|j]; [|discriminate E].
    cbn [fp_done] in E. assert (Ne : node_eq s curr k = true) by congruence.
    apply (present_here s k curr H F Ne). unfold marked. now rewrite W.
  - destruct (dcas s prev i curr next false) as [sh1 ok]. destruct ok; [destruct i|]; discriminate E.
Qed.

Lemma fin_lookup_false k tid l p s s' p' : lshape k l -> linv s p l -> Good k s l ->
  step tid l p s = (s', p', inr (RBool false)) -> False.
Proof.
  intros Hs Hl HG E.
  destruct l as [k0 want|k0 want lv|k0 c b|k0 c b i prev|k0 c b i prev curr|k0 c b i prev curr next
                |k0 x xl b|k0 x xl b i|k0 x xl b i|k0 x xl b i|k0 x xl b i|k0 n i m|k0 n i m next| |it|it next];
    cbn [lshape] in Hs; try contradiction; destruct c; try contradiction; cbn [step] in E; subst k0.
  - discriminate E.
  - discriminate E.
  - destruct (getnext s curr i) as [next deleted] eqn:W. destruct deleted; [discriminate E|].
    destruct (node_lt s curr k) eqn:Lt; [discriminate E|]. destruct i as [|j]; [|discriminate E].
    cbn [fp_done] in E. assert (Ne : node_eq s curr k = false) by congruence.
    cbn [Good] in HG. destruct (HG I) as (_ & _ & Cg). destruct (Cg eq_refl) as [_ [Q|Q]]; congruence.
  - destruct (dcas s prev i curr next false) as [sh1 ok]. destruct ok; [destruct i|]; discriminate E.
Qed.

Theorem lin_lookup : stmt_lin_lookup.
Proof.
  intros progs sched a b i k rr Hs.
  destruct (op_span_unpack _ _ _ _ _ _ _ Hs) as (Hab & Hb & ta & tb & Hta & Htb & Hca & Hcb & Htd & Hdn).
  split.
  2:{ apply (own_nil progs sched a b i (OLookup k) (RBool rr) ta tb Hab Hb Hta Htb Hca Hcb Htd Hdn).
      right. intros k'. reflexivity. }
  set (Q := fun (j : nat) (l : local) =>
              lshape k l /\ (Obs progs sched a k j \/ Good k (sh (at_ progs sched j)) l)).
  assert (HQ : forall n, (a + n <= b)%nat -> forall t l, nth_error (ths (at_ progs sched (a + n))) i = Some t ->
                 cur t = Some l -> Q (a + n)%nat l).
  { apply (span_ind progs sched a b i (OLookup k) (RBool rr) ta tb Hab Hb Hta Htb Hca Hcb Htd Hdn Q).
    - intros j p' l' Hj Htj Eb Esh. cbn [begin] in Eb. inversion Eb; subst l'.
      split; [reflexivity|]. right. cbn [Good]. intros _. reflexivity.
    - intros j i0 t l t' l' Hj Hi0 Ht Hc Ht' Hc' [Sh Gd]. split.
      + pose proof (at_S progs sched j i0 Hi0) as ES. pose proof Ht' as Ht2. rewrite ES in Ht2.
        destruct (own_or_same (at_ progs sched j) i0 i t l t' l' Ht Hc Ht2 Hc') as [->|(s' & p' & Es)]; [exact Sh|].
        eapply lshape_step; eauto.
      + apply (absent_pres k progs sched a j i0 i t l t' l'); auto. lia. }
  destruct (completion progs sched a b i (OLookup k) (RBool rr) ta tb Hab Hb Hta Htb Hca Hcb Htd Hdn)
    as (e & He & Hby & [(Hte & p' & Eb)|(t & l & s' & p' & Ht & Hin & Hc & Es)]).
  { cbn [begin] in Eb. discriminate Eb. }
  destruct (HQ (e - a)%nat ltac:(lia) t l) as [Sh Gd]; [replace (a + (e - a))%nat with e by lia; exact Ht|exact Hc|].
  replace (a + (e - a))%nat with e in Gd by lia.
  destruct (reach_at progs sched e) as [HI HJ].
  destruct (i_th _ _ HI i t Ht) as (Hp & _ & Hl). rewrite Hc in Hl.
  destruct rr.
  - exists e. split; [lia|]. rewrite mem_memk. eapply fin_lookup_true; eauto. apply HI.
  - destruct Gd as [(j' & Hj' & Hm)|Gd]; [exists j'; split; [lia|exact Hm]|]. exfalso.
    eapply fin_lookup_false; eauto.
Qed.
Print Assumptions lin_lookup.

(** ** failed Delete *)

Lemma cls_of_del k cl : (forall k0, opw k0 (ODelete k) = clsw k0 cl) -> cl = CDel k.
Proof.
  intros Hw. specialize (Hw k). unfold opw in Hw. cbn [is_ins is_del b2z] in Hw. rewrite Z.eqb_refl in Hw. cbn [b2z] in Hw.
  destruct cl as [k'|k'|]; cbn [clsw] in Hw.
  - destruct (k' =? k); lia.
  - destruct (Z.eqb_spec k' k); [now subst|lia].
  - lia.
Qed.

Lemma cls_of_ins k w cl : (forall k0, opw k0 (OInsert k w) = clsw k0 cl) -> cl = CIns k.
Proof.
  intros Hw. specialize (Hw k). unfold opw in Hw. cbn [is_ins is_del b2z] in Hw. rewrite Z.eqb_refl in Hw. cbn [b2z] in Hw.
  destruct cl as [k'|k'|]; cbn [clsw] in Hw.
  - destruct (Z.eqb_spec k' k); [now subst|lia].
  - destruct (k' =? k); lia.
  - lia.
Qed.

Lemma fin_delete_false k tid l p s s' p' : cls_l l = CDel k -> linv s p l -> Good k s l ->
  step tid l p s = (s', p', inr (RBool false)) -> False.
Proof.
  intros Hcl Hl HG E.
  destruct l as [k0 want|k0 want lv|k0 c b|k0 c b i prev|k0 c b i prev curr|k0 c b i prev curr next
                |k0 x xl b|k0 x xl b i|k0 x xl b i|k0 x xl b i|k0 x xl b i|k0 n i m|k0 n i m next| |it|it next];
    cbn [cls_l] in Hcl; try discriminate Hcl; cbn [step] in E.
  - discriminate E.
  - discriminate E.
  - destruct (getnext s curr i) as [next deleted] eqn:W. destruct deleted; [discriminate E|].
    destruct (node_lt s curr k0) eqn:Lt; [discriminate E|]. destruct i as [|j]; [|discriminate E].
    destruct c as [|x xl|x xl i|x xl| | | |last|]; cbn [cls_fk] in Hcl; try discriminate Hcl; cbn [fp_done] in E.
    + destruct (node_eq s curr k0) eqn:Ne; [discriminate E|].
      cbn [Good] in HG. destruct (HG I) as (E1 & _ & Cg). subst k0.
      destruct (Cg eq_refl) as [_ [Q|Q]]; congruence.
    + discriminate E.
  - destruct (dcas s prev i curr next false) as [sh1 ok]. destruct ok; [destruct i|]; discriminate E.
  - destruct (getnext s n i) as [next deleted] eqn:W. destruct deleted; [|discriminate E].
    destruct i as [|j]; [|discriminate E]. destruct m; [discriminate E|].
    cbn [Good] in HG. destruct (HG eq_refl) as (_ & _ & _ & M). unfold marked in M. rewrite W in M. discriminate M.
  - destruct (dcas s n i next next true) as [sh1 ok]. destruct ok; cbn [andb] in E;
      [destruct i as [|j]; cbn [Nat.eqb] in E|]; discriminate E.
Qed.

Theorem lin_delete_false : stmt_lin_delete_false.
Proof.
  intros progs sched a b i k Hs.
  destruct (op_span_unpack _ _ _ _ _ _ _ Hs) as (Hab & Hb & ta & tb & Hta & Htb & Hca & Hcb & Htd & Hdn).
  split.
  2:{ apply (own_nil progs sched a b i (ODelete k) (RBool false) ta tb Hab Hb Hta Htb Hca Hcb Htd Hdn).
      left. reflexivity. }
  set (Q := fun (j : nat) (l : local) => Obs progs sched a k j \/ Good k (sh (at_ progs sched j)) l).
  assert (HQ : forall n, (a + n <= b)%nat -> forall t l, nth_error (ths (at_ progs sched (a + n))) i = Some t ->
                 cur t = Some l -> Q (a + n)%nat l).
  { apply (span_ind progs sched a b i (ODelete k) (RBool false) ta tb Hab Hb Hta Htb Hca Hcb Htd Hdn Q).
    - intros j p' l' Hj Htj Eb Esh. cbn [begin] in Eb. inversion Eb; subst l'.
      right. cbn [Good]. intros _. reflexivity.
    - intros j i0 t l t' l' Hj Hi0 Ht Hc Ht' Hc' Gd.
      apply (absent_pres k progs sched a j i0 i t l t' l'); auto. lia. }
  destruct (completion progs sched a b i (ODelete k) (RBool false) ta tb Hab Hb Hta Htb Hca Hcb Htd Hdn)
    as (e & He & Hby & [(Hte & p' & Eb)|(t & l & s' & p' & Ht & Hin & Hc & Es)]).
  { cbn [begin] in Eb. discriminate Eb. }
  pose proof (HQ (e - a)%nat ltac:(lia) t l) as Gd. replace (a + (e - a))%nat with e in Gd by lia.
  specialize (Gd Ht Hc).
  destruct (reach_at progs sched e) as [HI HJ].
  destruct (i_th _ _ HI i t Ht) as (Hp & _ & Hl). rewrite Hc in Hl.
  destruct Gd as [(j' & Hj' & Hm)|Gd]; [exists j'; split; [lia|exact Hm]|]. exfalso.
  destruct Hin as (l0 & Hc0 & _ & _ & Hcl). assert (l0 = l) by congruence. subst l0.
  apply (fin_delete_false k i l (pers_of t) (sh (at_ progs sched e)) s' p'); auto.
  now apply cls_of_del.
Qed.
Print Assumptions lin_delete_false.

(** ** failed Insert *)

Lemma fin_insert_false k tid l p s s' p' : cls_l l = CIns k -> HInv s -> linv s p l ->
  step tid l p s = (s', p', inr (RBool false)) -> memk k s = true.
Proof.
  intros Hcl H Hl E.
  destruct l as [k0 want|k0 want lv|k0 c b|k0 c b i prev|k0 c b i prev curr|k0 c b i prev curr next
                |k0 x xl b|k0 x xl b i|k0 x xl b i|k0 x xl b i|k0 x xl b i|k0 n i m|k0 n i m next| |it|it next];
    cbn [cls_l] in Hcl; try discriminate Hcl; cbn [step] in E.
  - destruct (sl_level s <? want)%nat; discriminate E.
  - destruct (Nat.eqb (sl_level s) lv); cbn [heap sl_level sts] in E; discriminate E.
  - discriminate E.
  - discriminate E.
  - cbn [linv] in Hl. destruct Hl as (A & B & C & D & F & G & I0 & T).
    destruct (getnext s curr i) as [next deleted] eqn:W. destruct deleted; [discriminate E|].
    destruct (node_lt s curr k0) eqn:Lt; [discriminate E|]. destruct i as [|j]; [|discriminate E].
    destruct c as [|x xl|x xl i|x xl| | | |last|]; cbn [cls_fk] in Hcl; try discriminate Hcl; cbn [fp_done] in E.
    + destruct (node_eq s curr k0) eqn:Ne; [|discriminate E]. inversion Hcl; subst k0.
      apply (present_here s k curr H F Ne). unfold marked. now rewrite W.
    + discriminate E.
    + unfold insert_finish in E. discriminate E.
  - destruct (dcas s prev i curr next false) as [sh1 ok]. destruct ok; [destruct i|]; discriminate E.
  - destruct (dcas s (pred_at b 0) 0 (succ_at b 0) x false) as [sh1 ok].
    destruct ok; [destruct xl; [unfold insert_finish in E|]|]; discriminate E.
  - destruct (snd (getnext s (succ_at b i) i)); discriminate E.
  - destruct (getnext s x i) as [nn deleted]. destruct deleted; [unfold insert_finish in E; discriminate E|].
    destruct (Nat.eqb nn (succ_at b i)); [discriminate E|].
    destruct (dcas s x i nn (succ_at b i) false) as [sh1 ok]. destruct ok; [|unfold insert_finish in E]; discriminate E.
  - destruct (dcas s (pred_at b i) i (succ_at b i) x false) as [sh1 ok]. destruct ok; discriminate E.
  - destruct (snd (getnext s x i)); [discriminate E|].
    destruct (i <? xl)%nat; [|unfold insert_finish in E]; discriminate E.
Qed.

Theorem lin_insert_false : stmt_lin_insert_false.
Proof.
  intros progs sched a b i k w Hs.
  destruct (op_span_unpack _ _ _ _ _ _ _ Hs) as (Hab & Hb & ta & tb & Hta & Htb & Hca & Hcb & Htd & Hdn).
  split.
  2:{ apply (own_nil progs sched a b i (OInsert k w) (RBool false) ta tb Hab Hb Hta Htb Hca Hcb Htd Hdn).
      left. reflexivity. }
  destruct (completion progs sched a b i (OInsert k w) (RBool false) ta tb Hab Hb Hta Htb Hca Hcb Htd Hdn)
    as (e & He & Hby & [(Hte & p' & Eb)|(t & l & s' & p' & Ht & Hin & Hc & Es)]).
  { cbn [begin] in Eb. discriminate Eb. }
  destruct (reach_at progs sched e) as [HI HJ].
  destruct (i_th _ _ HI i t Ht) as (Hp & _ & Hl). rewrite Hc in Hl.
  destruct Hin as (l0 & Hc0 & _ & _ & Hcl). assert (l0 = l) by congruence. subst l0.
  exists e. split; [lia|]. rewrite mem_memk.
  apply (fin_insert_false k i l (pers_of t) (sh (at_ progs sched e)) s' p'); auto; [|apply HI].
  now apply (cls_of_ins k w).
Qed.
Print Assumptions lin_insert_false.

(** * Non-vacuity

    Thread 0 inserts 10 (node 2) and then calls Insert(10) again; thread 1 calls Delete(10); thread 2
    calls Lookup(10); the three second-phase operations all begin after step 6 and run interleaved.
    The second Insert finds node 2 unmarked and fails (it saw the key present: the state at its last
    step); the Lookup returns true; the Delete, concurrent with both, marks node 2 at step 20 (its
    linearization point, the only step of thread 1 that changes membership of 10) and returns true. *)
Definition lin_progs : list (list op) := [[OInsert 10 0; OInsert 10 0]; [ODelete 10]; [OLookup 10]].
Definition lin_sched : list nat :=
  (repeat 0 6 ++ [0;1;2] ++ [0;1;2] ++ [0;1;2] ++ [0;1;2] ++ [0] ++ repeat 1 9)%nat.

Ltac span_tac :=
  split; [lia|]; split; [vm_compute; lia|];
  eexists; eexists; split; [vm_compute; reflexivity|]; split; [vm_compute; reflexivity|];
  split; [reflexivity|]; split; [reflexivity|]; split; reflexivity.

Example lin_nonvacuous :
  let progs := lin_progs in let sched := lin_sched in
  (* a failed Insert, a successful Delete and a Lookup, pairwise overlapping in time *)
  op_span progs sched 6 19 0 (OInsert 10 0) (RBool false) /\
  op_span progs sched 6 28 1 (ODelete 10) (RBool true) /\
  op_span progs sched 6 18 2 (OLookup 10) (RBool true) /\
  (* the key is present from step 6 to step 20 and absent from step 21 on *)
  mem 10 (at_ progs sched 6) = true /\ mem 10 (at_ progs sched 20) = true /\
  mem 10 (at_ progs sched 21) = false /\ mem 10 (at_ progs sched 28) = false /\
  (* the Delete's linearization point: step 20, taken by thread 1 inside LSdCas 10 _ 0 _ _ *)
  step_by sched 20 1 /\ acting_op (at_ progs sched 20) 1 10 false /\
  own_changes progs sched 6 28 1 10 = [20%nat] /\
  (* the failed Insert and the Lookup change nothing *)
  own_changes progs sched 6 19 0 10 = [] /\ own_changes progs sched 6 18 2 10 = [].
Proof.
  cbv zeta.
  split; [span_tac|]. split; [span_tac|]. split; [span_tac|].
  split; [vm_compute; reflexivity|]. split; [vm_compute; reflexivity|].
  split; [vm_compute; reflexivity|]. split; [vm_compute; reflexivity|].
  split; [vm_compute; reflexivity|].
  split; [eexists; eexists; split; [vm_compute; reflexivity|]; split; [reflexivity|]; cbv beta iota; auto|].
  split; [vm_compute; reflexivity|]. split; vm_compute; reflexivity.
Qed.
Print Assumptions lin_nonvacuous.

(** the conclusions of the theorems on this run *)
Example lin_instance :
  (exists j, (6 <= j <= 19)%nat /\ mem 10 (at_ lin_progs lin_sched j) = true) /\
  (exists j, own_changes lin_progs lin_sched 6 28 1 10 = [j] /\
             mem 10 (at_ lin_progs lin_sched j) = true /\ mem 10 (at_ lin_progs lin_sched (S j)) = false) /\
  (exists j, (6 <= j <= 18)%nat /\ mem 10 (at_ lin_progs lin_sched j) = true).
Proof.
  destruct lin_nonvacuous as (H1 & H2 & H3 & _).
  split; [exact (proj1 (lin_insert_false _ _ _ _ _ _ _ H1))|].
  split; [exact (lin_delete_true _ _ _ _ _ _ 10 (or_introl eq_refl) H2)|].
  exact (proj1 (lin_lookup _ _ _ _ _ _ _ H3)).
Qed.

(** * Summary *)
Check (lin_points : stmt_lin_points).
Check (lin_insert_true : stmt_lin_insert_true).
Check (lin_delete_true : stmt_lin_delete_true).
Check (lin_insert_false : stmt_lin_insert_false).
Check (lin_delete_false : stmt_lin_delete_false).
Check (lin_lookup : stmt_lin_lookup).
Print Assumptions lin_points.
Print Assumptions lin_insert_true.
Print Assumptions lin_delete_true.
Print Assumptions lin_insert_false.
Print Assumptions lin_delete_false.
Print Assumptions lin_lookup.
