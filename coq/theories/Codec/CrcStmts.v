(** CRC-32 detects every single-byte change of an item payload (C11). *)
From NV Require Import Base.Bytes Codec.Frame Codec.Crc32 Codec.FileImage Codec.FileImageStmts.
Open Scope N_scope.

(** two byte strings of equal length that differ in exactly one position have different CRC-32 *)
Definition stmt_crc32_single_byte : Prop :=
  forall a b b' c, is_bytes (a ++ b :: c) -> b' < 256 -> b <> b' ->
    crc32 (a ++ b :: c) <> crc32 (a ++ b' :: c).

(** replace item j of a list *)
Fixpoint replace_nth {A} (j : nat) (x : A) (l : list A) : list A :=
  match l, j with
  | [], _ => []
  | _ :: r, O => x :: r
  | y :: r, S i => y :: replace_nth i x r
  end.

(** altering one byte inside the payload of one item of one shard file (the damaged file is exactly the
    file of the item list with that item changed) is detected by LoadFromDisk through the recorded
    checksum: error, never a silently different item set *)
Definition stmt_payload_byte_detected : Prop :=
  forall shards k items j a b b' c,
    good_shards shards -> Forall (Forall is_bytes) shards ->
    nth_error shards k = Some items -> nth_error items j = Some (a ++ b :: c) ->
    b' < 256 -> b <> b' ->
    let items' := replace_nth j (a ++ b' :: c) items in
    load_data crc32 (mkImg (POk 1) (replace_file (stored_dir crc32 shards) (N.of_nat k)
                                   (Some (file_of crc32 items'))) empty_dir) = LErr.
