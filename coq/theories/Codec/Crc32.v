(** Concrete reflected IEEE CRC-32 (= Go hash/crc32.ChecksumIEEE), executable. *)
From NV Require Import Base.Bytes.
Open Scope N_scope.

Definition crc_poly : N := 3988292384.      (* 0xEDB88320 *)
Definition crc_mask : N := 4294967295.      (* 0xFFFFFFFF *)

Definition crc_bit (c : N) : N :=
  if N.testbit c 0 then N.lxor (N.shiftr c 1) crc_poly else N.shiftr c 1.

Definition crc_byte (c b : N) : N :=
  let c := N.lxor c b in
  crc_bit (crc_bit (crc_bit (crc_bit (crc_bit (crc_bit (crc_bit (crc_bit c))))))).

Definition crc32 (l : list N) : N :=
  N.lxor (fold_left crc_byte l crc_mask) crc_mask.

(* "123456789" -> 0xCBF43926 *)
Example crc32_check : crc32 [49;50;51;52;53;54;55;56;57] = 3421780262.
Proof. vm_compute. reflexivity. Qed.

Example crc32_empty : crc32 [] = 0.
Proof. vm_compute. reflexivity. Qed.
