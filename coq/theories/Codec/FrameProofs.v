(** Proofs about the framing model (C19; truncation lemma reused by C11/C12). *)
From NV Require Import Base.Bytes Codec.Frame.
From Coq Require Import ZifyN ZifyNat ZifyBool.
Open Scope N_scope.

Ltac Zify.zify_post_hook ::= Z.div_mod_to_equations.

Lemma be32_val n : n < 4294967296 -> be_val (be32 n) = n.
Proof. intros H. unfold be_val, be32. cbn [fold_left]. lia. Qed.

Lemma be16_val n : n < 65536 -> be_val (be16 n) = n.
Proof. intros H. unfold be_val, be16. cbn [fold_left]. lia. Qed.

Lemma le16_val_le16 n r : n < 65536 -> le16_val (le16 n ++ r) = n.
Proof. intros H. unfold le16_val, le16. cbn [app]. lia. Qed.

Lemma lenN_app {A} (a b : list A) : lenN (a ++ b) = lenN a + lenN b.
Proof. unfold lenN. rewrite app_length. lia. Qed.

Lemma lenN_nat {A} (l : list A) : N.to_nat (lenN l) = length l.
Proof. unfold lenN. lia. Qed.

Lemma firstn_app_exact {A} (a b : list A) : firstn (length a) (a ++ b) = a.
Proof. rewrite firstn_app, Nat.sub_diag, firstn_all. cbn. apply app_nil_r. Qed.

Lemma skipn_app_exact {A} (a b : list A) : skipn (length a) (a ++ b) = b.
Proof. rewrite skipn_app, Nat.sub_diag, skipn_all. reflexivity. Qed.

Section FrameProofs.
Variable crc : list N -> N.

Lemma decode_encode_v1 bs rest :
  0 < lenN bs < 4294967296 ->
  decode_item crc 1 (encode_item bs ++ rest) = DItem bs (item_ck crc bs) rest.
Proof.
  intros [Hpos Hlt]. unfold decode_item, encode_item.
  change (hdr_len 1) with (length (be32 (lenN bs))).
  rewrite <- app_assoc.
  destruct (Nat.ltb_spec (length (be32 (lenN bs) ++ bs ++ rest)) (length (be32 (lenN bs)))) as [Hl|Hl].
  { rewrite app_length in Hl. lia. }
  rewrite firstn_app_exact, skipn_app_exact, be32_val by exact Hlt.
  destruct (N.eqb_spec (lenN bs) 0) as [E|E]; [lia|].
  destruct (N.ltb_spec (lenN (bs ++ rest)) (lenN bs)) as [Hc|Hc].
  { rewrite lenN_app in Hc. lia. }
  rewrite lenN_nat, firstn_app_exact, skipn_app_exact. reflexivity.
Qed.

Lemma decode_encode_v0 bs rest :
  0 < lenN bs < 65536 ->
  decode_item crc 0 (encode_item_v0 bs ++ rest) = DItem bs (item_ck_v0 crc bs) rest.
Proof.
  intros [Hpos Hlt]. unfold decode_item, encode_item_v0.
  change (hdr_len 0) with (length (be16 (lenN bs))).
  rewrite <- app_assoc.
  destruct (Nat.ltb_spec (length (be16 (lenN bs) ++ bs ++ rest)) (length (be16 (lenN bs)))) as [Hl|Hl].
  { rewrite app_length in Hl. lia. }
  rewrite firstn_app_exact, skipn_app_exact, be16_val by exact Hlt.
  destruct (N.eqb_spec (lenN bs) 0) as [E|E]; [lia|].
  destruct (N.ltb_spec (lenN (bs ++ rest)) (lenN bs)) as [Hc|Hc].
  { rewrite lenN_app in Hc. lia. }
  rewrite lenN_nat, firstn_app_exact, skipn_app_exact. reflexivity.
Qed.

Lemma decode_term_v1 rest : decode_item crc 1 (be32 0 ++ rest) = DTerm rest.
Proof. reflexivity. Qed.
Lemma decode_term_v0 rest : decode_item crc 0 (be16 0 ++ rest) = DTerm rest.
Proof. reflexivity. Qed.

(** writer: bytes and checksum of a sequence of items *)
Definition items_ck (items : list (list N)) : N :=
  fold_left (fun c bs => N.lxor c (item_ck crc bs)) items 0.
Definition items_ck_v0 (items : list (list N)) : N :=
  fold_left (fun c bs => N.lxor c (item_ck_v0 crc bs)) items 0.

Lemma write_items_from w items :
  fold_left (write_item crc) items w =
  {| w_out := w_out w ++ concat (map encode_item items);
     w_ck := fold_left (fun c bs => N.lxor c (item_ck crc bs)) items (w_ck w) |}.
Proof.
  revert w. induction items as [|bs items IH]; intros w; cbn [fold_left map concat].
  - rewrite app_nil_r. destruct w; reflexivity.
  - rewrite IH. cbn [write_item w_out w_ck]. rewrite <- app_assoc. reflexivity.
Qed.

Lemma file_of_eq items : file_of crc items = concat (map encode_item items) ++ be32 0.
Proof.
  unfold file_of, w_close, write_items. rewrite write_items_from. reflexivity.
Qed.

Lemma writer_ck_eq items : w_ck (write_items crc items) = items_ck items.
Proof. unfold write_items. rewrite write_items_from. reflexivity. Qed.

Definition good_v1 (bs : list N) : Prop := 0 < lenN bs < 4294967296.
Definition good_v0 (bs : list N) : Prop := 0 < lenN bs < 65536.

(** how a read ends at the end marker: the marker must be the last thing in the file *)
Definition after_marker (tail : list N) : rend :=
  match tail with [] => RTerm | _ :: _ => RErr ECorrupt end.

Lemma read_all_fuel_v1 items : forall fuel acc ck tail,
  Forall good_v1 items -> (length items < fuel)%nat ->
  read_all_fuel crc fuel 1 (concat (map encode_item items) ++ be32 0 ++ tail) acc ck =
  (rev acc ++ items, fold_left (fun c bs => N.lxor c (item_ck crc bs)) items ck, after_marker tail).
Proof.
  induction items as [|bs items IH]; intros fuel acc ck tail HF Hfuel.
  - destruct fuel as [|f]; [cbn in Hfuel; lia|].
    cbn [map concat app read_all_fuel]. rewrite decode_term_v1, app_nil_r.
    destruct tail; reflexivity.
  - destruct fuel as [|f]; [cbn in Hfuel; lia|].
    inversion HF as [|? ? Hb HF']; subst.
    cbn [map concat read_all_fuel]. rewrite <- app_assoc.
    rewrite decode_encode_v1 by exact Hb.
    rewrite IH by (try assumption; cbn in Hfuel; lia).
    cbn [rev fold_left]. rewrite <- app_assoc. reflexivity.
Qed.

Lemma read_all_fuel_v0 items : forall fuel acc ck tail,
  Forall good_v0 items -> (length items < fuel)%nat ->
  read_all_fuel crc fuel 0 (concat (map encode_item_v0 items) ++ be16 0 ++ tail) acc ck =
  (rev acc ++ items, fold_left (fun c bs => N.lxor c (item_ck_v0 crc bs)) items ck, after_marker tail).
Proof.
  induction items as [|bs items IH]; intros fuel acc ck tail HF Hfuel.
  - destruct fuel as [|f]; [cbn in Hfuel; lia|].
    cbn [map concat app read_all_fuel]. rewrite decode_term_v0, app_nil_r.
    destruct tail; reflexivity.
  - destruct fuel as [|f]; [cbn in Hfuel; lia|].
    inversion HF as [|? ? Hb HF']; subst.
    cbn [map concat read_all_fuel]. rewrite <- app_assoc.
    rewrite decode_encode_v0 by exact Hb.
    rewrite IH by (try assumption; cbn in Hfuel; lia).
    cbn [rev fold_left]. rewrite <- app_assoc. reflexivity.
Qed.

Lemma concat_encode_len items :
  Forall good_v1 items -> (length items <= length (concat (map encode_item items)))%nat.
Proof.
  induction 1 as [|bs items Hb _ IH]; cbn [map concat length]; [lia|].
  rewrite app_length. unfold encode_item in *. rewrite app_length. cbn [be32 length]. lia.
Qed.

Lemma concat_encode_len_v0 items :
  Forall good_v0 items -> (length items <= length (concat (map encode_item_v0 items)))%nat.
Proof.
  induction 1 as [|bs items Hb _ IH]; cbn [map concat length]; [lia|].
  rewrite app_length. unfold encode_item_v0 in *. rewrite app_length. cbn [be16 length]. lia.
Qed.

(** C19 headline: what the writer produced is read back exactly, then end-of-stream, and the
    reader's checksum equals the writer's (as sampled before Close, nitro.go:1017-1019). *)
Theorem frame_roundtrip_v1 items :
  Forall good_v1 items ->
  read_all crc 1 (file_of crc items) = (items, w_ck (write_items crc items), RTerm).
Proof.
  intros HF. unfold read_all. rewrite file_of_eq, writer_ck_eq.
  replace (concat (map encode_item items) ++ be32 0)
    with (concat (map encode_item items) ++ be32 0 ++ []) by (rewrite app_nil_r; reflexivity).
  rewrite read_all_fuel_v1; [reflexivity|exact HF|].
  pose proof (concat_encode_len items HF). rewrite !app_length. cbn. lia.
Qed.

Theorem frame_roundtrip_v0 items :
  Forall good_v0 items ->
  read_all crc 0 (file_of_v0 items) = (items, items_ck_v0 items, RTerm).
Proof.
  intros HF. unfold read_all, file_of_v0.
  replace (concat (map encode_item_v0 items) ++ be16 0)
    with (concat (map encode_item_v0 items) ++ be16 0 ++ []) by (rewrite app_nil_r; reflexivity).
  rewrite read_all_fuel_v0; [reflexivity|exact HF|].
  pose proof (concat_encode_len_v0 items HF). rewrite !app_length. cbn. lia.
Qed.

(** trailing bytes after the terminator: every item is still delivered, but the read ends with the
    error ECorrupt instead of the normal end (file.go ReadItem after the repair) *)
Theorem frame_roundtrip_v1_tail items tail :
  Forall good_v1 items ->
  read_all crc 1 (file_of crc items ++ tail) =
  (items, w_ck (write_items crc items), after_marker tail).
Proof.
  intros HF. unfold read_all. rewrite file_of_eq, writer_ck_eq, <- app_assoc.
  rewrite read_all_fuel_v1; [reflexivity|exact HF|].
  pose proof (concat_encode_len items HF). rewrite !app_length. cbn. lia.
Qed.

(** framing is injective on good item sequences: payload bytes that look like prefixes or
    terminators cannot confuse the reader *)
Theorem frame_injective a b :
  Forall good_v1 a -> Forall good_v1 b -> file_of crc a = file_of crc b -> a = b.
Proof.
  intros Ha Hb E.
  pose proof (frame_roundtrip_v1 a Ha) as Ra. pose proof (frame_roundtrip_v1 b Hb) as Rb.
  rewrite E in Ra. rewrite Ra in Rb. congruence.
Qed.

(** a zero-length item is the terminator: documented guard of the format *)
Lemma empty_item_is_terminator rest : decode_item crc 1 (encode_item [] ++ rest) = DTerm rest.
Proof. reflexivity. Qed.

(** the checksum after Close differs from the sampled one by the terminator's contribution *)
Lemma close_ck items :
  w_ck (w_close crc (write_items crc items)) =
  N.lxor (w_ck (write_items crc items)) (item_ck crc []).
Proof. reflexivity. Qed.

(** ** the end marker must be last (file.go ReadItem after the repair) *)

Lemma be_val_zero_from l : forall a,
  fold_left (fun acc b => acc * 256 + b) l a = 0 -> a = 0 /\ l = repeat 0 (length l).
Proof.
  induction l as [|b l IH]; intros a H; cbn [fold_left length repeat] in *; [auto|].
  apply IH in H. destruct H as [H1 H2]. split; [lia|]. f_equal; [lia|exact H2].
Qed.

Lemma decode_item_DItem ver s bs c rest : decode_item crc ver s = DItem bs c rest ->
  exists h, length h = hdr_len ver /\ s = h ++ bs ++ rest.
Proof.
  unfold decode_item. intros H.
  destruct (Nat.ltb_spec (length s) (hdr_len ver)) as [Hl|Hl]; [discriminate|].
  destruct (be_val (firstn (hdr_len ver) s) =? 0); [discriminate|].
  destruct (lenN (skipn (hdr_len ver) s) <? be_val (firstn (hdr_len ver) s)); [discriminate|].
  inversion H; subst. exists (firstn (hdr_len ver) s). split.
  - apply firstn_length_le. exact Hl.
  - rewrite !firstn_skipn. reflexivity.
Qed.

Lemma decode_item_DTerm ver s rest : decode_item crc ver s = DTerm rest ->
  s = repeat 0 (hdr_len ver) ++ rest.
Proof.
  unfold decode_item. intros H.
  destruct (Nat.ltb_spec (length s) (hdr_len ver)) as [Hl|Hl]; [discriminate|].
  destruct (N.eqb_spec (be_val (firstn (hdr_len ver) s)) 0) as [E|E].
  - inversion H; subst. apply be_val_zero_from in E. destruct E as [_ E].
    rewrite firstn_length_le in E by exact Hl.
    rewrite <- E. symmetry. apply firstn_skipn.
  - destruct (lenN (skipn (hdr_len ver) s) <? be_val (firstn (hdr_len ver) s)); discriminate.
Qed.

(** total size of the frames of a list of items *)
Definition frames_len (ver : N) (items : list (list N)) : nat :=
  list_sum (map (fun bs => (hdr_len ver + length bs)%nat) items).

Lemma read_all_fuel_term ver : forall fuel s acc ck items ck',
  read_all_fuel crc fuel ver s acc ck = (items, ck', RTerm) ->
  exists its pre, items = rev acc ++ its /\ s = pre ++ repeat 0 (hdr_len ver) /\
                  length pre = frames_len ver its.
Proof.
  induction fuel as [|f IH]; intros s acc ck items ck' H; cbn [read_all_fuel] in H; [discriminate|].
  destruct (decode_item crc ver s) as [bs c rest|rest|e c] eqn:E.
  - apply IH in H. destruct H as (its & pre & Hi & Hs & Hl).
    apply decode_item_DItem in E. destruct E as (h & Hh & Es).
    exists (bs :: its), (h ++ bs ++ pre). repeat split.
    + rewrite Hi. cbn [rev]. rewrite <- app_assoc. reflexivity.
    + rewrite Es, Hs, <- !app_assoc. reflexivity.
    + rewrite !app_length, Hl, Hh. unfold frames_len. cbn [map list_sum fold_right]. fold (list_sum (map (fun bs0 : list N => (hdr_len ver + length bs0)%nat) its)). lia.
  - apply decode_item_DTerm in E. destruct rest as [|b rest]; [|discriminate].
    inversion H; subst. exists [], []. repeat split.
    + rewrite app_nil_r. reflexivity.
    + rewrite app_nil_r. reflexivity.
  - discriminate.
Qed.

(** a successful read consumed the whole input: the file is exactly the frames of the items that
    were delivered followed by the end marker, and nothing else *)
Lemma read_all_marker_not_last : forall ver s items ck,
  read_all crc ver s = (items, ck, RTerm) ->
  exists pre, s = pre ++ repeat 0 (hdr_len ver) /\ length pre = frames_len ver items.
Proof.
  intros ver s items ck H. unfold read_all in H. apply read_all_fuel_term in H.
  destruct H as (its & pre & Hi & Hs & Hl). cbn [rev app] in Hi. subst its. eauto.
Qed.

(** overwrite the 4 bytes at offset [off] with zeros *)
Definition zero4_at (off : nat) (s : list N) : list N :=
  firstn off s ++ be32 0 ++ skipn (off + 4) s.

Lemma file_of_split pre x post :
  file_of crc (pre ++ x :: post) =
  concat (map encode_item pre) ++ be32 (lenN x) ++ x ++ concat (map encode_item post) ++ be32 0.
Proof.
  rewrite file_of_eq, map_app, concat_app. cbn [map concat]. unfold encode_item at 2.
  rewrite <- !app_assoc. reflexivity.
Qed.

(** the file of [pre ++ x :: post] with the four length bytes of [x] replaced by zeros *)
Lemma zero4_at_file pre x post :
  zero4_at (length (concat (map encode_item pre))) (file_of crc (pre ++ x :: post)) =
  concat (map encode_item pre) ++ be32 0 ++ x ++ concat (map encode_item post) ++ be32 0.
Proof.
  rewrite file_of_split. unfold zero4_at. rewrite firstn_app_exact. do 2 f_equal.
  rewrite skipn_app, skipn_all2 by lia.
  replace (length (concat (map encode_item pre)) + 4 - length (concat (map encode_item pre)))%nat
    with 4%nat by lia.
  reflexivity.
Qed.

(** a length prefix damaged to zero looks like an end marker in the middle of the file; the reader
    delivers the items before it and then reports ECorrupt — never a normal end with fewer items *)
Theorem zeroed_length_detected pre x post :
  Forall good_v1 (pre ++ x :: post) ->
  read_all crc 1 (zero4_at (length (concat (map encode_item pre))) (file_of crc (pre ++ x :: post)))
  = (pre, items_ck pre, RErr ECorrupt).
Proof.
  intros HF. rewrite zero4_at_file. apply Forall_app in HF. destruct HF as [Hpre Hx].
  inversion Hx as [|? ? Hgx _]; subst. unfold read_all.
  rewrite read_all_fuel_v1; [|exact Hpre|].
  - destruct x as [|b x]; [unfold good_v1, lenN in Hgx; cbn in Hgx; lia|]. reflexivity.
  - pose proof (concat_encode_len pre Hpre). rewrite !app_length. lia.
Qed.

(** the same by position: record [k] of the file of [items] *)
Corollary zeroed_length_detected_nth items k :
  Forall good_v1 items -> (k < length items)%nat ->
  read_all crc 1 (zero4_at (length (concat (map encode_item (firstn k items)))) (file_of crc items))
  = (firstn k items, items_ck (firstn k items), RErr ECorrupt).
Proof.
  intros HF Hk. pose proof (firstn_skipn k items) as E.
  destruct (skipn k items) as [|x post] eqn:Es.
  - apply (f_equal (@length _)) in Es. rewrite skipn_length in Es. cbn in Es. lia.
  - rewrite <- E at 2. rewrite <- E in HF. apply zeroed_length_detected. exact HF.
Qed.

End FrameProofs.

Print Assumptions read_all_marker_not_last.
Print Assumptions zeroed_length_detected.
Print Assumptions zeroed_length_detected_nth.
Print Assumptions frame_roundtrip_v1_tail.

(** bytes.Compare is a total order *)
Lemma bytes_cmp_refl a : bytes_cmp a a = Eq.
Proof. induction a as [|x a IH]; cbn; [reflexivity|]. rewrite N.compare_refl. exact IH. Qed.

Lemma bytes_cmp_eq a b : bytes_cmp a b = Eq -> a = b.
Proof.
  revert b. induction a as [|x a IH]; intros [|y b]; cbn; try discriminate; [reflexivity|].
  destruct (N.compare_spec x y) as [E|E|E]; try discriminate.
  intros H. subst. f_equal. apply IH. exact H.
Qed.

Lemma bytes_cmp_antisym a b : bytes_cmp b a = CompOpp (bytes_cmp a b).
Proof.
  revert b. induction a as [|x a IH]; intros [|y b]; cbn; try reflexivity.
  rewrite (N.compare_antisym x y). destruct (x ?= y); cbn; [apply IH|reflexivity|reflexivity].
Qed.

Lemma bytes_cmp_trans_lt a b c : bytes_cmp a b = Lt -> bytes_cmp b c = Lt -> bytes_cmp a c = Lt.
Proof.
  revert b c. induction a as [|x a IH]; intros [|y b] [|z c]; cbn; try discriminate; try reflexivity.
  destruct (N.compare_spec x y) as [E1|E1|E1]; try discriminate;
  destruct (N.compare_spec y z) as [E2|E2|E2]; try discriminate; intros H1 H2.
  - subst. rewrite N.compare_refl. eapply IH; eassumption.
  - subst. destruct (N.compare_spec y z); try lia. reflexivity.
  - subst. destruct (N.compare_spec x z); try lia. reflexivity.
  - destruct (N.compare_spec x z); try lia. reflexivity.
Qed.

(** KV helpers *)
Theorem kv_roundtrip k v : lenN k < 65536 -> kv_from_bytes (kv_to_bytes k v) = (k, v).
Proof.
  intros H. unfold kv_from_bytes, kv_key, kv_to_bytes.
  rewrite le16_val_le16 by exact H. rewrite lenN_nat.
  change (skipn 2 (le16 (lenN k) ++ k ++ v)) with (k ++ v).
  rewrite firstn_app_exact. f_equal.
  change (2 + length k)%nat with (S (S (length k))).
  change (skipn (S (S (length k))) (le16 (lenN k) ++ k ++ v)) with (skipn (length k) (k ++ v)).
  apply skipn_app_exact.
Qed.

Lemma kv_key_to_bytes k v : lenN k < 65536 -> kv_key (kv_to_bytes k v) = k.
Proof. intros H. pose proof (kv_roundtrip k v H) as E. unfold kv_from_bytes in E. congruence. Qed.

Theorem kv_cmp_spec k v k' v' :
  lenN k < 65536 -> lenN k' < 65536 ->
  compare_kv (kv_to_bytes k v) (kv_to_bytes k' v') = bytes_cmp k k'.
Proof. intros H H'. unfold compare_kv. rewrite !kv_key_to_bytes by assumption. reflexivity. Qed.

(** the uint16 truncation of the key length is a real limit: 65536-byte keys do not round-trip *)
Lemma kv_key_too_long k v : lenN k = 65536 -> fst (kv_from_bytes (kv_to_bytes k v)) = [].
Proof.
  intros H. unfold kv_from_bytes, kv_key, kv_to_bytes. rewrite H.
  change (le16 65536) with [0; 0]. reflexivity.
Qed.

Example kv_key_too_long_refuted :
  exists k v, lenN k = 65536 /\ kv_from_bytes (kv_to_bytes k v) <> (k, v).
Proof.
  assert (HL : lenN (repeat 1 (N.to_nat 65536)) = 65536).
  { unfold lenN. rewrite repeat_length. apply N2Nat.id. }
  exists (repeat 1 (N.to_nat 65536)), [2]. split; [exact HL|].
  intros E. apply (f_equal fst) in E. rewrite kv_key_too_long in E by exact HL.
  cbn [fst] in E. rewrite <- E in HL. discriminate HL.
Qed.
