(** CRC-32 detects every single-byte change; consequence for the backup loader (C11). *)
From NV Require Import Base.Bytes Codec.Frame Codec.FrameProofs Codec.Crc32 Codec.FileImage Codec.FileImageStmts Codec.FileImageProofs Codec.CrcStmts.
From Coq Require Import ZifyN ZifyNat ZifyBool.
Open Scope N_scope.

(** ** xor cancellation *)
Lemma lxor_cancel_l a x y : N.lxor a x = N.lxor a y -> x = y.
Proof.
  intros H. apply (f_equal (N.lxor a)) in H.
  rewrite <- !N.lxor_assoc, N.lxor_nilpotent, !N.lxor_0_l in H. exact H.
Qed.

Lemma lxor_cancel_r a x y : N.lxor x a = N.lxor y a -> x = y.
Proof. rewrite !(N.lxor_comm _ a). apply lxor_cancel_l. Qed.

(** ** 32-bit words, as a predicate on bits *)
Definition w32 (x : N) : Prop := forall i, 32 <= i -> N.testbit x i = false.

Lemma lt_pow2_bits x n : x < 2 ^ n -> forall i, n <= i -> N.testbit x i = false.
Proof.
  intros H i Hi. destruct (N.eq_dec x 0) as [->|Hx]; [apply N.bits_0|].
  apply N.bits_above_log2. apply N.lt_le_trans with n; [|exact Hi].
  apply N.log2_lt_pow2; [lia|exact H].
Qed.

Lemma w32_of_lt x : x < 4294967296 -> w32 x.
Proof. intros H. unfold w32. apply lt_pow2_bits. exact H. Qed.

Lemma w32_byte b : b < 256 -> w32 b.
Proof. intros H. apply w32_of_lt. lia. Qed.

Lemma w32_mask : w32 crc_mask.
Proof. apply w32_of_lt. reflexivity. Qed.

Lemma w32_poly : w32 crc_poly.
Proof. apply w32_of_lt. reflexivity. Qed.

Lemma w32_lxor x y : w32 x -> w32 y -> w32 (N.lxor x y).
Proof. intros Hx Hy i Hi. rewrite N.lxor_spec, Hx, Hy by exact Hi. reflexivity. Qed.

Lemma w32_shiftr1 x : w32 x -> w32 (N.shiftr x 1).
Proof. intros Hx i Hi. rewrite N.shiftr_spec', Hx by lia. reflexivity. Qed.

(** ** one shift step *)
Lemma w32_crc_bit x : w32 x -> w32 (crc_bit x).
Proof.
  intros Hx. unfold crc_bit. destruct (N.testbit x 0).
  - apply w32_lxor; [apply w32_shiftr1, Hx|apply w32_poly].
  - apply w32_shiftr1, Hx.
Qed.

Lemma crc_bit_top x : w32 x -> N.testbit (crc_bit x) 31 = N.testbit x 0.
Proof.
  intros Hx. unfold crc_bit. destruct (N.testbit x 0) eqn:E.
  - rewrite N.lxor_spec, N.shiftr_spec'. change (31 + 1) with 32.
    rewrite Hx by lia. reflexivity.
  - rewrite N.shiftr_spec'. change (31 + 1) with 32. apply Hx. lia.
Qed.

Lemma shiftr1_bit0_inj x y :
  N.testbit x 0 = N.testbit y 0 -> N.shiftr x 1 = N.shiftr y 1 -> x = y.
Proof.
  intros H0 Hs. apply N.bits_inj. intros i.
  destruct (N.eq_dec i 0) as [->|Hi]; [exact H0|].
  replace i with ((i - 1) + 1) by lia. rewrite <- !N.shiftr_spec', Hs. reflexivity.
Qed.

Lemma crc_bit_inj x y : w32 x -> w32 y -> crc_bit x = crc_bit y -> x = y.
Proof.
  intros Hx Hy E.
  assert (H0 : N.testbit x 0 = N.testbit y 0).
  { rewrite <- (crc_bit_top x Hx), <- (crc_bit_top y Hy), E. reflexivity. }
  apply shiftr1_bit0_inj; [exact H0|].
  unfold crc_bit in E. rewrite <- H0 in E. destruct (N.testbit x 0).
  - eapply lxor_cancel_r. exact E.
  - exact E.
Qed.

(** ** one byte step *)
Lemma w32_crc_byte s b : w32 s -> w32 b -> w32 (crc_byte s b).
Proof.
  intros Hs Hb. unfold crc_byte. repeat apply w32_crc_bit. apply w32_lxor; assumption.
Qed.

Lemma crc_byte_inj s b s' b' : w32 s -> w32 b -> w32 s' -> w32 b' ->
  crc_byte s b = crc_byte s' b' -> N.lxor s b = N.lxor s' b'.
Proof.
  intros Hs Hb Hs' Hb' E. unfold crc_byte in E.
  assert (H : w32 (N.lxor s b)) by (apply w32_lxor; assumption).
  assert (H' : w32 (N.lxor s' b')) by (apply w32_lxor; assumption).
  repeat (apply crc_bit_inj in E; [|repeat apply w32_crc_bit; assumption..]).
  exact E.
Qed.

(** ** folding over a byte string *)
Lemma w32_fold l : is_bytes l -> forall s, w32 s -> w32 (fold_left crc_byte l s).
Proof.
  induction 1 as [|b l Hb _ IH]; intros s Hs; cbn [fold_left]; [exact Hs|].
  apply IH. apply w32_crc_byte; [exact Hs|apply w32_byte, Hb].
Qed.

Lemma fold_inj l : is_bytes l -> forall s s', w32 s -> w32 s' ->
  fold_left crc_byte l s = fold_left crc_byte l s' -> s = s'.
Proof.
  induction 1 as [|b l Hb _ IH]; intros s s' Hs Hs' E; cbn [fold_left] in E; [exact E|].
  pose proof (w32_byte b Hb) as Wb.
  apply IH in E; [|apply w32_crc_byte; assumption..].
  apply crc_byte_inj in E; try assumption.
  eapply lxor_cancel_r. exact E.
Qed.

Theorem crc32_single_byte : stmt_crc32_single_byte.
Proof.
  intros a b b' c HB Hb' Hne E. apply Hne. unfold is_bytes in HB.
  apply Forall_app in HB. destruct HB as [Ha HB].
  inversion HB as [|? ? Hb Hc]; subst.
  unfold crc32 in E. apply lxor_cancel_r in E.
  rewrite !fold_left_app in E. cbn [fold_left] in E.
  pose proof (w32_fold a Ha crc_mask w32_mask) as Ws.
  pose proof (w32_byte b Hb) as Wb. pose proof (w32_byte b' Hb') as Wb'.
  apply fold_inj in E; [|exact Hc|apply w32_crc_byte; assumption..].
  apply crc_byte_inj in E; try assumption.
  eapply lxor_cancel_l. exact E.
Qed.

(** ** consequence for the loader *)
Section XorFold.
Context {A : Type} (f : A -> N).
Let g := fun (c : N) (x : A) => N.lxor c (f x).

Lemma xfold_inj l : forall s s', fold_left g l s = fold_left g l s' -> s = s'.
Proof.
  induction l as [|x l IH]; intros s s' E; cbn [fold_left] in E; [exact E|].
  apply IH in E. unfold g in E. eapply lxor_cancel_r. exact E.
Qed.

Lemma xfold_replace l : forall j s x y, nth_error l j = Some x -> f x <> f y ->
  fold_left g l s <> fold_left g (replace_nth j y l) s.
Proof.
  induction l as [|z l IH]; intros j s x y Hj Hne; [destruct j; discriminate|].
  destruct j as [|j]; cbn [nth_error replace_nth fold_left] in *.
  - inversion Hj; subst z. intros E. apply xfold_inj in E. unfold g in E.
    apply lxor_cancel_l in E. contradiction.
  - eapply IH; eauto.
Qed.
End XorFold.

Lemma replace_nth_Forall {A} (P : A -> Prop) y l : Forall P l -> P y ->
  forall j, Forall P (replace_nth j y l).
Proof.
  induction 1 as [|z l Hz HF IH]; intros Hy j; [destruct j; constructor|].
  destruct j as [|j]; cbn [replace_nth]; constructor; auto.
Qed.

Section Generic.
Variable crc : list N -> N.

Lemma item_ck_neq x y : lenN y = lenN x -> crc x <> crc y -> item_ck crc x <> item_ck crc y.
Proof.
  intros Hl Hne E. unfold item_ck in E. rewrite Hl in E.
  apply lxor_cancel_l in E. contradiction.
Qed.

Lemma writer_ck_replace items j x y : nth_error items j = Some x ->
  lenN y = lenN x -> crc x <> crc y ->
  w_ck (write_items crc items) <> w_ck (write_items crc (replace_nth j y items)).
Proof.
  intros Hj Hl Hne. rewrite !writer_ck_eq. unfold items_ck.
  eapply (xfold_replace (item_ck crc)); [exact Hj|]. apply item_ck_neq; assumption.
Qed.

(** one item of one shard file replaced by an item of the same length with a different crc *)
Theorem item_change_detected shards k items j x y :
  good_shards shards -> nth_error shards k = Some items -> nth_error items j = Some x ->
  lenN y = lenN x -> crc x <> crc y ->
  load_data crc (mkImg (POk 1) (replace_file (stored_dir crc shards) (N.of_nat k)
                                 (Some (file_of crc (replace_nth j y items)))) empty_dir) = LErr.
Proof.
  intros HG Hk Hj Hl Hne. set (items' := replace_nth j y items).
  pose proof (good_nth _ _ _ HG Hk) as Hgood.
  assert (Hgood' : Forall good_v1 items').
  { apply replace_nth_Forall; [exact Hgood|].
    rewrite Forall_forall in Hgood. pose proof (Hgood _ (nth_error_In _ _ Hj)) as Hx.
    unfold good_v1 in *. rewrite Hl. exact Hx. }
  pose proof (writer_ck_replace items j x y Hj Hl Hne) as Hck. fold items' in Hck.
  unfold load_data. cbn [i_version i_data]. unfold load_dir, replace_file, stored_dir.
  cbn [d_files d_cks d_file].
  rewrite has_dup_names_of.
  destruct (negb _); [reflexivity|].
  match goal with |- context [open_all ?d ?ns] => destruct (open_all d ns) as [cs|] eqn:E end;
    [|reflexivity].
  destruct (open_all_nth _ _ _ E k (N.of_nat k)) as (c0 & Hc & Hd).
  { apply nth_error_names_of. eapply nth_lt; eauto. }
  cbn [d_file] in Hd. rewrite N.eqb_refl in Hd. inversion Hd; subst c0.
  match goal with |- context [cks_ok ?u ?v] => destruct (cks_ok u v) eqn:Eck end; [|reflexivity].
  exfalso. apply Hck.
  pose proof (cks_ok_nth _ _ Eck k (w_ck (write_items crc items))
                (read_shard crc 1 (file_of crc items'))) as H.
  rewrite (read_shard_file crc items' Hgood') in H. cbn [fst snd] in H.
  apply H.
  - rewrite nth_error_map, Hk. reflexivity.
  - rewrite nth_error_map, Hc. cbn [option_map].
    rewrite (read_shard_file crc items' Hgood'). reflexivity.
Qed.
End Generic.

Theorem payload_byte_detected : stmt_payload_byte_detected.
Proof.
  intros shards k items j a b b' c HG HB Hk Hj Hb' Hne items'. subst items'.
  assert (HBi : is_bytes (a ++ b :: c)).
  { rewrite Forall_forall in HB. pose proof (HB _ (nth_error_In _ _ Hk)) as HI.
    rewrite Forall_forall in HI. exact (HI _ (nth_error_In _ _ Hj)). }
  apply (item_change_detected crc32 shards k items j (a ++ b :: c) (a ++ b' :: c) HG Hk Hj).
  - unfold lenN. rewrite !app_length. reflexivity.
  - exact (crc32_single_byte a b b' c HBi Hb' Hne).
Qed.

Print Assumptions crc32_single_byte.
Print Assumptions payload_byte_detected.
