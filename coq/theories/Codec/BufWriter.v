(** Model of the backup file writer under a size budget (file.go rawFileWriter over bufio.Writer over
    an os.File whose writes start failing at [budget] bytes: RLIMIT_FSIZE, quota, full disk).
    bufio.Writer: Write copies into a buffer of [B] bytes, flushing when the data does not fit and
    writing large data directly when the buffer is empty; the first error is sticky.  The underlying
    write that does not fit writes what fits and fails. *)
From Coq Require Import List Arith NArith Lia Bool.
From NV Require Import Base.Bytes Codec.Frame.
Import ListNotations.

Record bw := mkBw { f_out : list N;     (* bytes that reached the file *)
                    b_buf : list N;     (* buffered bytes, oldest first *)
                    b_err : bool }.     (* sticky error of the bufio.Writer *)

Definition bw0 : bw := mkBw [] [] false.

(** os.File.Write under the budget: (new file, bytes written, failed) *)
Definition under_write (budget : nat) (out p : list N) : list N * nat * bool :=
  if (length out + length p <=? budget)%nat then (out ++ p, length p, false)
  else let k := (budget - length out)%nat in (out ++ firstn k p, k, true).

(** bufio.Writer.Flush *)
Definition bflush (budget : nat) (w : bw) : bw :=
  if b_err w then w
  else match b_buf w with
       | [] => w
       | _ => let '(out, n, e) := under_write budget (f_out w) (b_buf w) in
              if e then mkBw out (skipn n (b_buf w)) true else mkBw out [] false
       end.

(** bufio.Writer.Write: the loop [for len(p) > b.Available() && b.err == nil] runs at most three times
    (fill and flush; direct write of the rest; exit), hence the fuel *)
Fixpoint bwrite_fuel (fuel : nat) (B budget : nat) (w : bw) (p : list N) : bw :=
  match fuel with
  | O => w
  | S f =>
    if ((B - length (b_buf w) <? length p)%nat && negb (b_err w))%bool then
      if (length (b_buf w) =? 0)%nat then
        let '(out, n, e) := under_write budget (f_out w) p in
        bwrite_fuel f B budget (mkBw out [] e) (skipn n p)
      else
        let n := (B - length (b_buf w))%nat in
        let w1 := bflush budget (mkBw (f_out w) (b_buf w ++ firstn n p) false) in
        bwrite_fuel f B budget w1 (skipn n p)
    else if b_err w then w
    else mkBw (f_out w) (b_buf w ++ p) false
  end.
Definition bwrite (B budget : nat) (w : bw) (p : list N) : bw := bwrite_fuel 4 B budget w p.

(** EncodeItem through the buffered writer: the 4-byte length prefix, then the payload; the second
    Write is skipped when the first one fails.  Result: did WriteItem return nil? *)
Definition write_item_b (B budget : nat) (w : bw) (bs : list N) : bw * bool :=
  let w1 := bwrite B budget w (be32 (lenN bs)) in
  if b_err w1 then (w1, false)
  else let w2 := bwrite B budget w1 bs in (w2, negb (b_err w2)).

Fixpoint write_items_b (B budget : nat) (w : bw) (items : list (list N)) : bw * list bool :=
  match items with
  | [] => (w, [])
  | bs :: r => let '(w1, ok) := write_item_b B budget w bs in
               let '(w2, oks) := write_items_b B budget w1 r in (w2, ok :: oks)
  end.

(** rawFileWriter.Close: the end marker, then Flush; nil only if both succeed *)
Definition close_b (B budget : nat) (w : bw) : bw * bool :=
  let '(w1, ok) := write_item_b B budget w [] in
  if ok then let w2 := bflush budget w1 in (w2, negb (b_err w2)) else (w1, false).

(** a whole file: results of the WriteItem calls (the caller goes on after an error: every later call
    fails too), the result of Close, the bytes in the file *)
Definition store_file (B budget : nat) (items : list (list N)) : list bool * bool * list N :=
  let '(w, oks) := write_items_b B budget bw0 items in
  let '(w', c) := close_b B budget w in (oks, c, f_out w').
