(** Model of item.go (EncodeItem/DecodeItem, KV helpers) and file.go (rawFileWriter/rawFileReader).
    The CRC is a Section variable: every theorem holds for any checksum function. *)
From NV Require Import Base.Bytes.
Open Scope N_scope.

Inductive rerr := EEOF | EUnexpected | ECorrupt.   (* ECorrupt: data behind the end marker (file.go ReadItem) *)

Inductive dec :=
| DItem (bs : list N) (ck : N) (rest : list N)
| DTerm (rest : list N)
| DErr (e : rerr) (ck : N).   (* ck: checksum contribution folded by ReadItem although it failed *)

Definition hdr_len (ver : N) : nat := if ver =? 0 then 2%nat else 4%nat.

Section Frame.
Variable crc : list N -> N.

(** item.go:61-80  EncodeItem: [4 byte big-endian uint32(len)] [bytes]; checksum = crc(hdr) xor crc(bytes) *)
Definition encode_item (bs : list N) : list N := be32 (lenN bs) ++ bs.
Definition item_ck (bs : list N) : N := N.lxor (crc (be32 (lenN bs))) (crc bs).

(** the older framing (2 byte prefix) — only a reader exists in the code *)
Definition encode_item_v0 (bs : list N) : list N := be16 (lenN bs) ++ bs.
Definition item_ck_v0 (bs : list N) : N := N.lxor (crc (be16 (lenN bs))) (crc bs).

(** item.go:85-114  DecodeItem.  io.ReadFull: nothing read -> EOF, partial -> ErrUnexpectedEOF.
    A failed payload read still returns a non-nil item, so rawFileReader.ReadItem (file.go:119-124)
    folds the header's CRC into the reader checksum before reporting the error. *)
Definition decode_item (ver : N) (s : list N) : dec :=
  let hl := hdr_len ver in
  if (length s <? hl)%nat then DErr (match s with [] => EEOF | _ => EUnexpected end) 0
  else
    let h := firstn hl s in
    let rest := skipn hl s in
    let l := be_val h in
    if l =? 0 then DTerm rest
    else if lenN rest <? l then DErr (match rest with [] => EEOF | _ => EUnexpected end) (crc h)
    else let bs := firstn (N.to_nat l) rest in
         DItem bs (N.lxor (crc h) (crc bs)) (skipn (N.to_nat l) rest).

(** file.go:74-101 writer: accumulates bytes and checksum; Close writes a zero-length terminator *)
Record wstate := { w_out : list N; w_ck : N }.
Definition w_init : wstate := {| w_out := []; w_ck := 0 |}.
Definition write_item (w : wstate) (bs : list N) : wstate :=
  {| w_out := w_out w ++ encode_item bs; w_ck := N.lxor (w_ck w) (item_ck bs) |}.
Definition write_items (items : list (list N)) : wstate := fold_left write_item items w_init.
Definition w_close (w : wstate) : wstate := write_item w [].

Definition file_of (items : list (list N)) : list N := w_out (w_close (write_items items)).
Definition file_of_v0 (items : list (list N)) : list N :=
  concat (map encode_item_v0 items) ++ be16 0.

(** file.go:117-129 reader loop as used by LoadFromDisk: items until terminator; checksum folds
    non-terminal items only. Result: items read so far, checksum, and how it ended. *)
Inductive rend := RTerm | RErr (e : rerr) | RFuel.

Fixpoint read_all_fuel (fuel : nat) (ver : N) (s : list N) (acc : list (list N)) (ck : N)
  : list (list N) * N * rend :=
  match fuel with
  | O => (rev acc, ck, RFuel)
  | S f =>
    match decode_item ver s with
    | DItem bs c rest => read_all_fuel f ver rest (bs :: acc) (N.lxor ck c)
    | DTerm [] => (rev acc, ck, RTerm)
    | DTerm (_ :: _) => (rev acc, ck, RErr ECorrupt)   (* the end marker must be the last thing in the file *)
    | DErr e c => (rev acc, N.lxor ck c, RErr e)
    end
  end.

Definition read_all (ver : N) (s : list N) := read_all_fuel (S (length s)) ver s [] 0.

End Frame.

(** bytes.Compare *)
Fixpoint bytes_cmp (a b : list N) : comparison :=
  match a, b with
  | [], [] => Eq
  | [], _ => Lt
  | _, [] => Gt
  | x :: a', y :: b' =>
    match x ?= y with Eq => bytes_cmp a' b' | c => c end
  end.

(** item.go:136-158 *)
Definition kv_to_bytes (k v : list N) : list N := le16 (lenN k) ++ k ++ v.
Definition kv_key (bs : list N) : list N := firstn (N.to_nat (le16_val bs)) (skipn 2 bs).
Definition kv_from_bytes (bs : list N) : list N * list N :=
  (kv_key bs, skipn (2 + N.to_nat (le16_val bs)) bs).
Definition compare_kv (a b : list N) : comparison := bytes_cmp (kv_key a) (kv_key b).
