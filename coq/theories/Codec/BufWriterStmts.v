(** C12 / C05: what the backup file writer reports when writes start failing at [budget] bytes — for
    every buffer size, every budget and every item sequence. *)
From Coq Require Import List Arith NArith Lia Bool.
From NV Require Import Base.Bytes Codec.Frame Codec.BufWriter.
Import ListNotations.

(** The file holds exactly the first [budget] bytes of the complete file; Close returns nil exactly
    when the complete file (end marker included) fits the budget — so a nil Close means a complete
    file and EVERY failing write is reported by Close at the latest, however the failing byte falls
    with respect to the buffer boundaries (in particular when it is reached only in the final Flush);
    and when Close returns nil every WriteItem returned nil. *)
Definition stmt_store_file_spec : Prop :=
  forall (crc : list N -> N) (B budget : nat) (items : list (list N)),
    (0 < B)%nat ->
    let '(oks, c, file) := store_file B budget items in
    file = firstn budget (file_of crc items) /\
    c = (length (file_of crc items) <=? budget)%nat /\
    (c = true -> Forall (fun ok => ok = true) oks /\ file = file_of crc items).

(** errors are sticky: once a WriteItem has failed, every later one fails *)
Definition stmt_errors_sticky : Prop :=
  forall (B budget : nat) (items : list (list N)) (i j : nat),
    (0 < B)%nat -> (i <= j)%nat ->
    let '(oks, _, _) := store_file B budget items in
    nth i oks true = false -> (j < length oks)%nat -> nth j oks true = false.

(** the variant of Close that does not look at the result of the final Flush (seed S56) reports
    success for truncated files: refuted by computation *)
Definition close_b_noflushcheck (B budget : nat) (w : bw) : bw * bool :=
  let '(w1, ok) := write_item_b B budget w [] in
  if ok then (bflush budget w1, true) else (w1, false).
Definition stmt_noflushcheck_refuted : Prop :=
  exists B budget items,
    let '(w, _) := write_items_b B budget bw0 items in
    let '(w', c) := close_b_noflushcheck B budget w in
    c = true /\ f_out w' <> file_of (fun _ => 0%N) items.
