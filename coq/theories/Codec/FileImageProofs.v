(** Proofs of the backup-directory statements (C11, C12, C05). *)
From NV Require Import Base.Bytes Codec.Frame Codec.FrameProofs Codec.FileImage Codec.FileImageStmts.
From Coq Require Import ZifyN ZifyNat ZifyBool.
Open Scope N_scope.

Ltac Zify.zify_post_hook ::= Z.div_mod_to_equations.

(** ** generic list facts *)
Lemma seq_nth_error_map {A} (l : list A) : forall pre,
  map (nth_error (pre ++ l)) (seq (length pre) (length l)) = map Some l.
Proof.
  induction l as [|x l IH]; intros pre; cbn [length seq map]; [reflexivity|].
  f_equal.
  - rewrite nth_error_app2 by lia. rewrite Nat.sub_diag. reflexivity.
  - specialize (IH (pre ++ [x])). rewrite <- app_assoc in IH. cbn [app] in IH.
    rewrite app_length in IH. cbn [length] in IH.
    replace (length pre + 1)%nat with (S (length pre)) in IH by lia. exact IH.
Qed.

Lemma seq_nth_error_map0 {A} (l : list A) :
  map (nth_error l) (seq 0 (length l)) = map Some l.
Proof. exact (seq_nth_error_map l []). Qed.

Lemma forallb_false_in {A} (f : A -> bool) l x : In x l -> f x = false -> forallb f l = false.
Proof.
  intros Hin Hf. destruct (forallb f l) eqn:E; [|reflexivity].
  rewrite forallb_forall in E. rewrite (E x Hin) in Hf. discriminate.
Qed.

Lemma nth_error_names_of n k : (k < n)%nat -> nth_error (names_of n) k = Some (N.of_nat k).
Proof.
  intros H. unfold names_of. rewrite nth_error_map.
  rewrite nth_error_nth' with (d := 0%nat) by (rewrite seq_length; exact H).
  rewrite seq_nth by exact H. reflexivity.
Qed.

Lemma names_of_length n : length (names_of n) = n.
Proof. unfold names_of. rewrite map_length, seq_length. reflexivity. Qed.

(** ** has_dup (the duplicate check of the repaired LoadFromDisk) *)
Lemma existsb_eqb_In x l : existsb (N.eqb x) l = true <-> In x l.
Proof.
  rewrite existsb_exists. split.
  - intros (y & Hy & E). apply N.eqb_eq in E. subst y. exact Hy.
  - intros H. exists x. split; [exact H|apply N.eqb_refl].
Qed.

Lemma has_dup_false_NoDup l : NoDup l -> has_dup l = false.
Proof.
  induction 1 as [|x l Hx Hnd IH]; cbn [has_dup]; [reflexivity|].
  rewrite IH, orb_false_r.
  destruct (existsb (N.eqb x) l) eqn:E; [|reflexivity].
  apply existsb_eqb_In in E. contradiction.
Qed.

Lemma has_dup_false_iff l : has_dup l = false <-> NoDup l.
Proof.
  split; [|apply has_dup_false_NoDup].
  induction l as [|x l IH]; cbn [has_dup]; intros H; constructor.
  - apply orb_false_elim in H. destruct H as [H _]. intros Hin.
    apply existsb_eqb_In in Hin. congruence.
  - apply IH. apply orb_false_elim in H. apply H.
Qed.

Lemma has_dup_true_iff l : has_dup l = true <-> ~ NoDup l.
Proof.
  rewrite <- has_dup_false_iff. destruct (has_dup l); split; congruence.
Qed.

Lemma has_dup_count_occ l :
  has_dup l = true <-> exists x, (count_occ N.eq_dec l x >= 2)%nat.
Proof.
  induction l as [|y r IH]; cbn [has_dup].
  - split; [discriminate|]. intros (x & H). cbn in H. lia.
  - rewrite orb_true_iff, IH, existsb_eqb_In. split.
    + intros [Hin|(x & Hx)].
      * exists y. rewrite count_occ_cons_eq by reflexivity.
        apply (count_occ_In N.eq_dec) in Hin. lia.
      * exists x. destruct (N.eq_dec y x) as [E|E].
        -- rewrite count_occ_cons_eq by exact E. lia.
        -- rewrite count_occ_cons_neq by exact E. exact Hx.
    + intros (x & Hx). destruct (N.eq_dec y x) as [E|E].
      * left. subst y. rewrite count_occ_cons_eq in Hx by reflexivity.
        apply (count_occ_In N.eq_dec). lia.
      * right. exists x. rewrite count_occ_cons_neq in Hx by exact E. exact Hx.
Qed.

Lemma has_dup_true_nth_lt : forall l i j x, (i < j)%nat ->
  nth_error l i = Some x -> nth_error l j = Some x -> has_dup l = true.
Proof.
  induction l as [|y r IH]; intros i j x Hij Hi Hj; [destruct i; discriminate|].
  cbn [has_dup]. destruct j as [|j]; [lia|]. cbn [nth_error] in Hj.
  destruct i as [|i]; cbn [nth_error] in Hi.
  - inversion Hi; subst y. apply nth_error_In in Hj.
    apply existsb_eqb_In in Hj. rewrite Hj. reflexivity.
  - rewrite (IH i j x) by (try lia; assumption). apply orb_true_r.
Qed.

Lemma has_dup_true_nth l i j x : i <> j ->
  nth_error l i = Some x -> nth_error l j = Some x -> has_dup l = true.
Proof.
  intros Hij Hi Hj. destruct (Nat.lt_total i j) as [H|[H|H]]; [|contradiction|].
  - exact (has_dup_true_nth_lt l i j x H Hi Hj).
  - exact (has_dup_true_nth_lt l j i x H Hj Hi).
Qed.

Lemma NoDup_map_inj {A B} (f : A -> B) l :
  (forall a b, f a = f b -> a = b) -> NoDup l -> NoDup (map f l).
Proof.
  intros Hinj. induction 1 as [|x l Hx Hnd IH]; cbn [map]; constructor; [|exact IH].
  intros Hin. apply in_map_iff in Hin. destruct Hin as (y & Ey & Hy).
  apply Hinj in Ey. subst y. contradiction.
Qed.

Lemma names_of_NoDup n : NoDup (names_of n).
Proof.
  unfold names_of. apply NoDup_map_inj; [intros a b; apply Nat2N.inj|apply seq_NoDup].
Qed.

(** what StoreToDisk writes never names a file twice *)
Lemma has_dup_names_of n : has_dup (names_of n) = false.
Proof. apply has_dup_false_NoDup, names_of_NoDup. Qed.

(** ** open_all *)
Lemma open_all_spec d names cs :
  map (d_file d) names = map Some cs -> open_all d names = Some cs.
Proof.
  revert cs. induction names as [|n r IH]; intros [|c cs] E; cbn in E; try discriminate.
  - reflexivity.
  - inversion E as [[E1 E2]]. cbn [open_all]. rewrite E1, (IH cs E2). reflexivity.
Qed.

Lemma open_all_nth d names : forall cs, open_all d names = Some cs ->
  forall i n, nth_error names i = Some n ->
  exists c, nth_error cs i = Some c /\ d_file d n = Some c.
Proof.
  induction names as [|m r IH]; intros cs E i n Hn.
  - destruct i; discriminate.
  - cbn [open_all] in E. destruct (d_file d m) as [bs|] eqn:Em; [|discriminate].
    destruct (open_all d r) as [rest|] eqn:Er; [|discriminate].
    inversion E; subst cs. destruct i as [|i]; cbn [nth_error] in *.
    + inversion Hn; subst. eauto.
    + eapply IH; eauto.
Qed.

Lemma open_all_none d names n :
  In n names -> d_file d n = None -> open_all d names = None.
Proof.
  induction names as [|m r IH]; intros Hin Hn; [destruct Hin|].
  cbn [open_all]. destruct Hin as [->|Hin].
  - rewrite Hn. reflexivity.
  - rewrite (IH Hin Hn). destruct (d_file d m); reflexivity.
Qed.

Lemma cks_ok_nth : forall cks (shards : list (list (list N) * N * bool)),
  cks_ok cks shards = true ->
  forall i c s, nth_error cks i = Some c -> nth_error shards i = Some s -> c = snd (fst s).
Proof.
  induction cks as [|c0 cr IH]; intros [|[[it k] e] sr] H i c s Hc Hs; cbn [cks_ok] in H;
    try discriminate.
  - destruct i; discriminate.
  - apply andb_prop in H. destruct H as [H1 H2]. destruct i as [|i]; cbn [nth_error] in *.
    + inversion Hc; inversion Hs; subst. cbn. apply N.eqb_eq. exact H1.
    + eapply IH; eauto.
Qed.

Section Proofs.
Variable crc : list N -> N.

(** ** truncation *)
Lemma encode_item_length (bs : list N) : length (encode_item bs) = (4 + length bs)%nat.
Proof. unfold encode_item. rewrite app_length. reflexivity. Qed.

Lemma decode_short s : (length s < 4)%nat -> exists e c, decode_item crc 1 s = DErr e c.
Proof.
  intros H. unfold decode_item. change (hdr_len 1) with 4%nat.
  destruct (Nat.ltb_spec (length s) 4); [eauto|lia].
Qed.

Lemma decode_cut_payload bs rest m :
  0 < lenN bs < 4294967296 -> (m < length bs)%nat ->
  exists e c, decode_item crc 1 (be32 (lenN bs) ++ firstn m (bs ++ rest)) = DErr e c.
Proof.
  intros [Hpos Hlt] Hm. unfold decode_item.
  change (hdr_len 1) with (length (be32 (lenN bs))).
  destruct (Nat.ltb_spec (length (be32 (lenN bs) ++ firstn m (bs ++ rest))) (length (be32 (lenN bs)))) as [Hl|Hl].
  { rewrite app_length in Hl. lia. }
  rewrite firstn_app_exact, skipn_app_exact, be32_val by exact Hlt.
  destruct (N.eqb_spec (lenN bs) 0) as [E|E]; [lia|].
  destruct (N.ltb_spec (lenN (firstn m (bs ++ rest))) (lenN bs)) as [Hc|Hc]; [eauto|].
  unfold lenN in Hc. rewrite firstn_length in Hc. lia.
Qed.

Lemma read_prefix_not_term items : Forall good_v1 items ->
  forall n fuel acc ck,
  (n < length (concat (map encode_item items) ++ be32 0))%nat ->
  snd (read_all_fuel crc fuel 1 (firstn n (concat (map encode_item items) ++ be32 0)) acc ck) <> RTerm.
Proof.
  induction 1 as [|bs items Hb HF IH]; intros n fuel acc ck Hn.
  - cbn [map concat app] in *.
    destruct fuel as [|f]; [cbn; discriminate|]. cbn [read_all_fuel].
    destruct (decode_short (firstn n (be32 0))) as (e & c & E).
    { rewrite firstn_length. cbn [be32 length] in *. lia. }
    rewrite E. cbn. discriminate.
  - destruct fuel as [|f]; [cbn; discriminate|].
    cbn [map concat] in *. rewrite <- app_assoc in *.
    set (tl := concat (map encode_item items) ++ be32 0) in *.
    rewrite app_length, encode_item_length in Hn.
    cbn [read_all_fuel].
    destruct (Nat.le_gt_cases (4 + length bs) n) as [Hge|Hlt].
    + (* the whole frame survives *)
      rewrite firstn_app, encode_item_length.
      rewrite firstn_all2 by (rewrite encode_item_length; exact Hge).
      rewrite decode_encode_v1 by exact Hb.
      apply IH. lia.
    + destruct (Nat.lt_ge_cases n 4) as [H4|H4].
      * destruct (decode_short (firstn n (encode_item bs ++ tl))) as (e & c & E).
        { rewrite firstn_length. lia. }
        rewrite E. cbn. discriminate.
      * unfold encode_item. rewrite <- app_assoc.
        rewrite firstn_app. change (length (be32 (lenN bs))) with 4%nat.
        rewrite (firstn_all2 (n:=n) (be32 (lenN bs))) by (cbn [be32 length]; exact H4).
        destruct (decode_cut_payload bs tl (n - 4) Hb) as (e & c & E); [lia|].
        rewrite E. cbn. discriminate.
Qed.

Theorem truncation_detected : stmt_truncation_detected crc.
Proof.
  intros items n HF Hn. unfold read_shard, read_all.
  rewrite file_of_eq in *.
  pose proof (read_prefix_not_term items HF n
    (S (length (firstn n (concat (map encode_item items) ++ be32 0)))) [] 0 Hn) as H.
  destruct (read_all_fuel crc _ 1 _ [] 0) as [[its ck] e]. cbn [snd] in *.
  destruct e; [congruence|reflexivity|reflexivity].
Qed.

(** ** intact load *)
Lemma read_shard_file items : Forall good_v1 items ->
  read_shard crc 1 (file_of crc items) = (items, w_ck (write_items crc items), true).
Proof. intros HF. unfold read_shard. rewrite frame_roundtrip_v1 by exact HF. reflexivity. Qed.

Lemma shard_map_nth shards k items : nth_error shards k = Some items ->
  shard_map crc shards (N.of_nat k) = Some (file_of crc items).
Proof. intros H. unfold shard_map. rewrite Nat2N.id, H. reflexivity. Qed.

Lemma shard_map_names shards :
  map (shard_map crc shards) (names_of (length shards)) = map Some (map (file_of crc) shards).
Proof.
  unfold names_of. rewrite map_map.
  rewrite map_ext with (g := fun i => option_map (file_of crc) (nth_error shards i)).
  2:{ intros i. unfold shard_map. rewrite Nat2N.id. destruct (nth_error shards i); reflexivity. }
  rewrite <- map_map with (f := nth_error shards) (g := option_map (file_of crc)).
  rewrite seq_nth_error_map0, !map_map. reflexivity.
Qed.

Lemma open_all_stored shards fl ck :
  open_all (mkDir fl ck (shard_map crc shards)) (names_of (length shards)) =
  Some (map (file_of crc) shards).
Proof. apply open_all_spec. cbn [d_file]. apply shard_map_names. Qed.

Lemma read_shards_stored shards : good_shards shards ->
  map (read_shard crc 1) (map (file_of crc) shards) =
  map (fun items => (items, w_ck (write_items crc items), true)) shards.
Proof.
  intros HG. rewrite map_map. apply map_ext_in. intros items Hin.
  apply read_shard_file. unfold good_shards in HG. rewrite Forall_forall in HG. exact (HG _ Hin).
Qed.

Lemma stored_forallb (shards : list (list (list N))) :
  forallb (fun s : list (list N) * N * bool => snd s)
    (map (fun items => (items, w_ck (write_items crc items), true)) shards) = true.
Proof. induction shards as [|a l IH]; cbn; [reflexivity|exact IH]. Qed.

Lemma stored_items (shards : list (list (list N))) :
  concat (map (fun s : list (list N) * N * bool => fst (fst s))
    (map (fun items => (items, w_ck (write_items crc items), true)) shards)) = concat shards.
Proof. rewrite map_map. cbn [fst]. rewrite map_id. reflexivity. Qed.

Lemma stored_cks_ok (shards : list (list (list N))) :
  cks_ok (map (fun items => w_ck (write_items crc items)) shards)
    (map (fun items => (items, w_ck (write_items crc items), true)) shards) = true.
Proof.
  induction shards as [|a l IH]; cbn [map cks_ok]; [reflexivity|].
  rewrite N.eqb_refl, IH. reflexivity.
Qed.

Lemma load_dir_intact shards : good_shards shards ->
  load_dir crc 1 (stored_dir crc shards) false = LOk (concat shards).
Proof.
  intros HG. unfold load_dir, stored_dir. cbn [d_files d_cks].
  rewrite has_dup_names_of.
  rewrite map_length, names_of_length, Nat.eqb_refl. cbn [negb].
  rewrite open_all_stored, read_shards_stored by exact HG.
  rewrite stored_cks_ok, stored_forallb, stored_items. reflexivity.
Qed.

Lemma load_dir_nocks shards : good_shards shards ->
  load_dir crc 1 (mkDir (POk (names_of (length shards))) PMissing (shard_map crc shards)) false
  = LOk (concat shards).
Proof.
  intros HG. unfold load_dir. cbn [d_files d_cks].
  rewrite has_dup_names_of.
  rewrite open_all_stored, read_shards_stored by exact HG.
  rewrite stored_forallb, stored_items. reflexivity.
Qed.

Theorem load_intact : stmt_load_intact crc.
Proof. intros shards HG. unfold load_data, stored_image. cbn [i_version i_data]. apply load_dir_intact, HG. Qed.

(** ** damaged shard files *)
Lemma good_nth shards k items : good_shards shards -> nth_error shards k = Some items ->
  Forall good_v1 items.
Proof.
  intros HG H. unfold good_shards in HG. rewrite Forall_forall in HG.
  apply HG. eapply nth_error_In; eauto.
Qed.

Lemma nth_lt {A} (l : list A) k x : nth_error l k = Some x -> (k < length l)%nat.
Proof. intros H. apply nth_error_Some. congruence. Qed.

Theorem truncated_shard : stmt_truncated_shard crc.
Proof.
  intros shards k items n HG Hk Hn.
  unfold load_data. cbn [i_version i_data]. unfold load_dir, replace_file, stored_dir.
  cbn [d_files d_cks d_file].
  rewrite has_dup_names_of.
  destruct (negb _); [reflexivity|].
  match goal with |- context [open_all ?d ?ns] => destruct (open_all d ns) as [cs|] eqn:E end;
    [|reflexivity].
  destruct (open_all_nth _ _ _ E k (N.of_nat k)) as (c & Hc & Hd).
  { apply nth_error_names_of. eapply nth_lt; eauto. }
  cbn [d_file] in Hd. rewrite N.eqb_refl in Hd. inversion Hd; subst c.
  rewrite (forallb_false_in _ _ (read_shard crc 1 (firstn n (file_of crc items)))).
  - rewrite andb_false_r. reflexivity.
  - apply in_map. eapply nth_error_In; eauto.
  - apply truncation_detected; [|exact Hn]. exact (good_nth _ _ _ HG Hk).
Qed.

Theorem missing_shard : stmt_missing_shard crc.
Proof.
  intros shards k HG Hk.
  unfold load_data. cbn [i_version i_data]. unfold load_dir, replace_file, stored_dir.
  cbn [d_files d_cks d_file].
  rewrite has_dup_names_of.
  destruct (negb _); [reflexivity|].
  rewrite (open_all_none _ _ (N.of_nat k)); [reflexivity| |].
  - eapply nth_error_In. apply nth_error_names_of. exact Hk.
  - cbn [d_file]. rewrite N.eqb_refl. reflexivity.
Qed.

(** ** manifests *)
Theorem manifest_damage : stmt_manifest_damage crc.
Proof.
  intros shards HG d. subst d. unfold stored_dir. cbn [d_files d_cks d_file].
  repeat split; try reflexivity.
  - unfold load_data. cbn [i_version i_data]. unfold load_dir.
    cbn [d_files d_cks]. rewrite has_dup_names_of. reflexivity.
  - intros cks Hlen. unfold load_data. cbn [i_version i_data]. unfold load_dir.
    cbn [d_files d_cks]. rewrite has_dup_names_of, names_of_length.
    destruct (Nat.eqb_spec (length cks) (length shards)); [contradiction|]. reflexivity.
  - unfold load_data. cbn [i_version i_data]. apply load_dir_nocks, HG.
Qed.

(** ** crash safety *)
Theorem crash_safe : stmt_crash_safe crc.
Proof.
  intros shards st HG. destruct st; unfold crash_image, load_data; cbn [i_version i_data].
  - left. reflexivity.
  - left. reflexivity.
  - right. unfold stored_dir. cbn [d_files d_file]. apply load_dir_nocks, HG.
  - left. unfold load_dir, stored_dir. cbn [d_files d_cks]. rewrite has_dup_names_of. reflexivity.
  - right. apply load_dir_intact, HG.
Qed.

(** ** redirected manifest entry *)
Theorem redirect_detected : stmt_redirect_detected crc.
Proof.
  intros shards k j itemsk itemsj HG Hk Hj Hne d names'. subst d names'.
  unfold load_data. cbn [i_version i_data]. unfold load_dir, stored_dir.
  cbn [d_files d_cks d_file].
  destruct (has_dup _); [reflexivity|].
  destruct (negb _); [reflexivity|].
  match goal with |- context [open_all ?d ?ns] => destruct (open_all d ns) as [cs|] eqn:E end;
    [|reflexivity].
  destruct (open_all_nth _ _ _ E k (N.of_nat j)) as (c & Hc & Hd).
  { rewrite nth_error_map, nth_error_names_of by (eapply nth_lt; eauto).
    cbn [option_map]. rewrite N.eqb_refl. reflexivity. }
  cbn [d_file] in Hd. rewrite (shard_map_nth _ _ _ Hj) in Hd. inversion Hd; subst c.
  match goal with |- context [cks_ok ?a ?b] => destruct (cks_ok a b) eqn:Eck end; [|reflexivity].
  exfalso. apply Hne.
  pose proof (cks_ok_nth _ _ Eck k (w_ck (write_items crc itemsk))
                (read_shard crc 1 (file_of crc itemsj))) as H.
  rewrite (read_shard_file itemsj (good_nth _ _ _ HG Hj)) in H. cbn [fst snd] in H.
  apply H.
  - rewrite nth_error_map, Hk. reflexivity.
  - rewrite nth_error_map, Hc. cbn [option_map].
    rewrite (read_shard_file itemsj (good_nth _ _ _ HG Hj)). reflexivity.
Qed.

(** ** duplicate manifest entries (repair D19): refused whatever the checksums and the files are *)
Theorem duplicate_names_rejected : forall v names cks file optional,
  has_dup names = true ->
  load_dir crc v (mkDir (POk names) cks file) optional = LErr.
Proof.
  intros v names cks file optional H. unfold load_dir. cbn [d_files]. rewrite H. reflexivity.
Qed.

Theorem duplicate_names_rejected_count : forall v names cks file optional,
  (exists x, (count_occ N.eq_dec names x >= 2)%nat) ->
  load_dir crc v (mkDir (POk names) cks file) optional = LErr.
Proof.
  intros v names cks file optional H. apply duplicate_names_rejected, has_dup_count_occ, H.
Qed.

Theorem duplicate_names_rejected_data : forall ver names cks file delta,
  has_dup names = true ->
  load_data crc (mkImg ver (mkDir (POk names) cks file) delta) = LErr.
Proof.
  intros ver names cks file delta H. unfold load_data. cbn [i_version i_data].
  destruct ver; [apply duplicate_names_rejected, H|reflexivity|apply duplicate_names_rejected, H].
Qed.

Theorem duplicate_names_rejected_delta : forall ver names cks file data,
  has_dup names = true ->
  load_delta crc (mkImg ver data (mkDir (POk names) cks file)) = LErr.
Proof.
  intros ver names cks file data H. unfold load_delta. cbn [i_version i_delta].
  destruct ver; [apply duplicate_names_rejected, H|reflexivity|apply duplicate_names_rejected, H].
Qed.

Lemma redirect_has_dup n k j : (k < n)%nat -> (j < n)%nat -> k <> j ->
  has_dup (map (fun x => if x =? N.of_nat k then N.of_nat j else x) (names_of n)) = true.
Proof.
  intros Hk Hj Hne. apply (has_dup_true_nth _ k j (N.of_nat j) Hne).
  - rewrite nth_error_map, nth_error_names_of by exact Hk.
    cbn [option_map]. rewrite N.eqb_refl. reflexivity.
  - rewrite nth_error_map, nth_error_names_of by exact Hj.
    cbn [option_map]. destruct (N.eqb_spec (N.of_nat j) (N.of_nat k)) as [E|E]; [|reflexivity].
    apply Nat2N.inj in E. congruence.
Qed.

(** a redirected manifest entry is detected without any hypothesis on the checksums *)
Theorem redirect_detected_any : forall shards k j, good_shards shards ->
  (k < length shards)%nat -> (j < length shards)%nat -> k <> j ->
  let d := stored_dir crc shards in
  let names' := map (fun x => if x =? N.of_nat k then N.of_nat j else x) (names_of (length shards)) in
  load_data crc (mkImg (POk 1) (mkDir (POk names') (d_cks d) (d_file d)) empty_dir) = LErr.
Proof.
  intros shards k j _ Hk Hj Hne d names'. subst d names'.
  apply duplicate_names_rejected_data, redirect_has_dup; assumption.
Qed.

End Proofs.

Print Assumptions truncation_detected.
Print Assumptions load_intact.
Print Assumptions truncated_shard.
Print Assumptions missing_shard.
Print Assumptions manifest_damage.
Print Assumptions crash_safe.
Print Assumptions redirect_detected.
Print Assumptions has_dup_names_of.
Print Assumptions has_dup_count_occ.
Print Assumptions duplicate_names_rejected.
Print Assumptions duplicate_names_rejected_count.
Print Assumptions duplicate_names_rejected_data.
Print Assumptions duplicate_names_rejected_delta.
Print Assumptions redirect_detected_any.
