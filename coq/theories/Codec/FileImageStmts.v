(** Statements about the backup-directory model (C11, C12, C05). *)
From NV Require Import Base.Bytes Codec.Frame Codec.FrameProofs Codec.FileImage.
Open Scope N_scope.

Section Stmts.
Variable crc : list N -> N.

Definition good_shards (shards : list (list (list N))) : Prop :=
  Forall (Forall (fun bs => 0 < lenN bs < 4294967296)) shards.

(** an undamaged backup loads exactly *)
Definition stmt_load_intact : Prop :=
  forall shards, good_shards shards -> load_data crc (stored_image crc shards) = LOk (concat shards).

(** every proper prefix of a shard file fails to load (also the key lemma of crash safety) *)
Definition stmt_truncation_detected : Prop :=
  forall items n, Forall (fun bs => 0 < lenN bs < 4294967296) items ->
    (n < length (file_of crc items))%nat ->
    snd (read_shard crc 1 (firstn n (file_of crc items))) = false.

Definition replace_file (d : dirimg) (k : N) (c : option (list N)) : dirimg :=
  mkDir (d_files d) (d_cks d) (fun x => if x =? k then c else d_file d x).

(** a shard file truncated at any offset, or removed, makes the load fail *)
Definition stmt_truncated_shard : Prop :=
  forall shards k items n, good_shards shards -> nth_error shards k = Some items ->
    (n < length (file_of crc items))%nat ->
    load_data crc (mkImg (POk 1) (replace_file (stored_dir crc shards) (N.of_nat k)
                                   (Some (firstn n (file_of crc items)))) (empty_dir)) = LErr.

Definition stmt_missing_shard : Prop :=
  forall shards k, good_shards shards -> (k < length shards)%nat ->
    load_data crc (mkImg (POk 1) (replace_file (stored_dir crc shards) (N.of_nat k) None) empty_dir) = LErr.

(** manifests: unparsable or missing files.json, unparsable checksums.json or nitro.json, a checksum
    list of the wrong length: error, never an empty database; a missing checksums.json (old backups):
    the exact content *)
Definition stmt_manifest_damage : Prop :=
  forall shards, good_shards shards ->
    let d := stored_dir crc shards in
    load_data crc (mkImg (POk 1) (mkDir PBad (d_cks d) (d_file d)) empty_dir) = LErr /\
    load_data crc (mkImg (POk 1) (mkDir PMissing (d_cks d) (d_file d)) empty_dir) = LErr /\
    load_data crc (mkImg (POk 1) (mkDir (d_files d) PBad (d_file d)) empty_dir) = LErr /\
    load_data crc (mkImg PBad d empty_dir) = LErr /\
    (forall cks, length cks <> length shards ->
       load_data crc (mkImg (POk 1) (mkDir (d_files d) (POk cks) (d_file d)) empty_dir) = LErr) /\
    load_data crc (mkImg (POk 1) (mkDir (d_files d) PMissing (d_file d)) empty_dir) = LOk (concat shards).

(** C12 crash safety: whatever prefix of StoreToDisk's effects reached the disk, the directory either
    does not load or loads exactly *)
Definition stmt_crash_safe : Prop :=
  forall shards st, good_shards shards ->
    load_data crc (crash_image crc shards st) = LErr \/
    load_data crc (crash_image crc shards st) = LOk (concat shards).

(** a files.json whose k-th entry was redirected to another existing shard with different content is
    detected whenever the recorded checksum of slot k differs from the checksum of the file it now
    names — in particular an empty shard's slot (checksum 0) pointing at a non-empty shard *)
Definition stmt_redirect_detected : Prop :=
  forall shards k j itemsk itemsj, good_shards shards ->
    nth_error shards k = Some itemsk -> nth_error shards j = Some itemsj ->
    w_ck (write_items crc itemsk) <> w_ck (write_items crc itemsj) ->
    let d := stored_dir crc shards in
    let names' := map (fun x => if x =? N.of_nat k then N.of_nat j else x) (names_of (length shards)) in
    load_data crc (mkImg (POk 1) (mkDir (POk names') (d_cks d) (d_file d)) empty_dir) = LErr.

End Stmts.
