(** Model of the backup directory and of LoadFromDisk / StoreToDisk (nitro.go) at the level of file
    contents.  Manifests are modelled by what encoding/json makes of them (parsed value / unparsable /
    missing); shard files are byte strings framed as in Codec/Frame.v. *)
From NV Require Import Base.Bytes Codec.Frame.
Open Scope N_scope.

Inductive pres (A : Type) := POk (a : A) | PBad | PMissing.
Arguments POk {A}. Arguments PBad {A}. Arguments PMissing {A}.

(** one directory (data/ or delta/): manifest of file names, recorded checksums, files by name *)
Record dirimg := mkDir {
  d_files : pres (list N);            (* files.json: names shard-k as numbers *)
  d_cks : pres (list N);              (* checksums.json *)
  d_file : N -> option (list N)       (* content of shard-k if it exists *)
}.

Record image := mkImg {
  i_version : pres N;                 (* nitro.json *)
  i_data : dirimg;
  i_delta : dirimg
}.

Inductive lres := LOk (items : list (list N)) | LErr.

Section Load.
Variable crc : list N -> N.

(** read every listed shard; None = some file missing (Open fails before anything is read) *)
(** a manifest that names a file twice is refused (repair D19) *)
Fixpoint has_dup (l : list N) : bool :=
  match l with
  | [] => false
  | x :: r => existsb (N.eqb x) r || has_dup r
  end.

Fixpoint open_all (d : dirimg) (names : list N) : option (list (list N)) :=
  match names with
  | [] => Some []
  | n :: r => match d_file d n, open_all d r with
              | Some bs, Some rest => Some (bs :: rest)
              | _, _ => None
              end
  end.

(** per shard: items, reader checksum, clean end? *)
Definition read_shard (ver : N) (bs : list N) : list (list N) * N * bool :=
  let '(items, ck, e) := read_all crc ver bs in
  (items, ck, match e with RTerm => true | _ => false end).

Fixpoint cks_ok (cks : list N) (shards : list (list (list N) * N * bool)) : bool :=
  match cks, shards with
  | [], [] => true
  | c :: cr, (_, k, _) :: sr => (c =? k) && cks_ok cr sr
  | _, _ => false
  end.

(** nitro.go LoadFromDisk for one directory (after the repairs: manifest parse errors are errors,
    the number of checksums must match, checksums are compared whenever checksums.json exists).
    [optional]: a missing files.json means "no such part" (the delta directory). *)
Definition load_dir (ver : N) (d : dirimg) (optional : bool) : lres :=
  match d_files d with
  | PBad => LErr
  | PMissing =>
    if optional then
      (* no files.json: no such part; a checksum list must then be absent or empty *)
      match d_cks d with
      | PBad => LErr
      | POk cks => match cks with [] => LOk [] | _ => LErr end
      | PMissing => LOk []
      end
    else LErr
  | POk names =>
    (* nitro.go hasDuplicate: StoreToDisk never writes a name twice *)
    if has_dup names then LErr else
    match d_cks d with
    | PBad => LErr
    | POk cks =>
      if negb (Nat.eqb (length cks) (length names)) then LErr
      else
        match open_all d names with
        | None => LErr
        | Some contents =>
          let shards := map (read_shard ver) contents in
          if cks_ok cks shards && forallb (fun s => snd s) shards
          then LOk (concat (map (fun s => fst (fst s)) shards)) else LErr
        end
    | PMissing =>
      match open_all d names with
      | None => LErr
      | Some contents =>
        let shards := map (read_shard ver) contents in
        if forallb (fun s => snd s) shards then LOk (concat (map (fun s => fst (fst s)) shards)) else LErr
      end
    end
  end.

(** the data part: the items of the restored snapshot before the delta items are merged in *)
Definition load_data (img : image) : lres :=
  match i_version img with
  | PBad => LErr
  | PMissing => load_dir 0 (i_data img) false
  | POk v => load_dir v (i_data img) false
  end.

Definition load_delta (img : image) : lres :=
  match i_version img with
  | PBad => LErr
  | PMissing => load_dir 0 (i_delta img) true
  | POk v => load_dir v (i_delta img) true
  end.

(** ** what StoreToDisk writes (no delta): shard k holds [shards k] *)
Definition shard_map (shards : list (list (list N))) : N -> option (list N) :=
  fun k => match nth_error shards (N.to_nat k) with
           | Some items => Some (file_of crc items)
           | None => None
           end.

Definition names_of (n : nat) : list N := map N.of_nat (seq 0 n).

Definition stored_dir (shards : list (list (list N))) : dirimg :=
  mkDir (POk (names_of (length shards)))
        (POk (map (fun items => w_ck (write_items crc items)) shards))
        (shard_map shards).

Definition empty_dir : dirimg := mkDir PMissing PMissing (fun _ => None).

Definition stored_image (shards : list (list (list N))) : image :=
  mkImg (POk 1) (stored_dir shards) empty_dir.

(** ** crash images of StoreToDisk (repaired order): shard files grow by appends in any interleaving,
    then every shard gets its terminator, then files.json, then checksums.json.  A crash leaves a
    prefix of that effect sequence; a manifest being written at the crash is unparsable or absent. *)
Inductive crash_stage :=
| CSWriting (cut : list nat)          (* before files.json: shard k holds only its first [cut k] bytes *)
| CSFilesPartial                      (* all shards complete, files.json half-written *)
| CSFilesDone                         (* files.json written, checksums.json not yet *)
| CSCksPartial                        (* checksums.json half-written *)
| CSDone.

Definition cut_map (shards : list (list (list N))) (cut : list nat) : N -> option (list N) :=
  fun k => match nth_error shards (N.to_nat k) with
           | Some items => Some (firstn (nth (N.to_nat k) cut 0%nat) (file_of crc items))
           | None => None
           end.

Definition crash_image (shards : list (list (list N))) (st : crash_stage) : image :=
  let full := stored_dir shards in
  match st with
  | CSWriting cut => mkImg (POk 1) (mkDir PMissing PMissing (cut_map shards cut)) empty_dir
  | CSFilesPartial => mkImg (POk 1) (mkDir PBad PMissing (d_file full)) empty_dir
  | CSFilesDone => mkImg (POk 1) (mkDir (d_files full) PMissing (d_file full)) empty_dir
  | CSCksPartial => mkImg (POk 1) (mkDir (d_files full) PBad (d_file full)) empty_dir
  | CSDone => mkImg (POk 1) full empty_dir
  end.

End Load.
