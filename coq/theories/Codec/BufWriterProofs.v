(** Proofs of the statements of Codec/BufWriterStmts.v *)
From Coq Require Import List Arith NArith Lia Bool.
From NV Require Import Base.Bytes Codec.Frame Codec.BufWriter Codec.BufWriterStmts.
Import ListNotations.
Local Open Scope nat_scope.

(** * The complete file as a concatenation *)

Definition enc (bs : list N) : list N := be32 (lenN bs) ++ bs.

Lemma w_out_fold : forall (crc : list N -> N) items w,
  w_out (fold_left (write_item crc) items w) = w_out w ++ concat (map enc items).
Proof.
  intros crc items; induction items as [|bs r IH]; intros w; simpl.
  - now rewrite app_nil_r.
  - rewrite IH. simpl. unfold encode_item, enc. now rewrite <- app_assoc.
Qed.

Lemma file_of_eq : forall crc items,
  file_of crc items = concat (map enc items) ++ enc [].
Proof.
  intros crc items. unfold file_of, w_close, write_items.
  unfold write_item at 1. cbn [w_out]. rewrite w_out_fold. reflexivity.
Qed.

(** * The invariant: [s] is the logical stream of all the bytes handed to Write *)

Definition Inv (budget : nat) (w : bw) (s : list N) : Prop :=
  length (f_out w) <= budget /\
  (b_err w = false -> f_out w ++ b_buf w = s) /\
  (b_err w = true -> f_out w = firstn budget s /\ budget < length s).

Lemma firstn_ext : forall (budget : nat) (s q : list N),
  budget < length s -> firstn budget (s ++ q) = firstn budget s.
Proof.
  intros budget s q H. rewrite firstn_app.
  replace (budget - length s) with 0 by lia. simpl. now rewrite app_nil_r.
Qed.

Lemma Inv_ext : forall budget w s q,
  Inv budget w s -> b_err w = true -> Inv budget w (s ++ q).
Proof.
  intros budget w s q (Hl & Hs & He) Herr. destruct (He Herr) as [Hf Hlt].
  split; [exact Hl|]. split.
  - intros H. congruence.
  - intros _. split.
    + now rewrite firstn_ext.
    + rewrite app_length. lia.
Qed.

Lemma firstn_fail : forall (budget : nat) (out p : list N),
  length out <= budget ->
  out ++ firstn (budget - length out) p = firstn budget (out ++ p).
Proof.
  intros budget out p H. rewrite firstn_app. rewrite (firstn_all2 out) by exact H. reflexivity.
Qed.

(** * Flush *)

Lemma bflush_inv : forall budget w s,
  Inv budget w s ->
  Inv budget (bflush budget w) s /\
  (b_err (bflush budget w) = false -> b_buf (bflush budget w) = []).
Proof.
  intros budget w s HI. unfold bflush.
  destruct w as [out buf err]. cbn [f_out b_buf b_err] in *.
  destruct err.
  - split; [exact HI|]. cbn [b_err]. discriminate.
  - destruct buf as [|x buf'].
    + split; [exact HI|]. reflexivity.
    + set (buf := x :: buf') in *.
      destruct HI as (Hl & Hs & _). cbn [f_out b_buf b_err] in *.
      specialize (Hs eq_refl). unfold under_write.
      destruct (Nat.leb_spec (length out + length buf) budget) as [Hle|Hgt].
      * split; [|reflexivity]. split; cbn [f_out b_buf b_err].
        -- rewrite app_length. lia.
        -- split; [intros _; now rewrite app_nil_r|discriminate].
      * cbn zeta. split; [|cbn [b_err]; discriminate].
        split; cbn [f_out b_buf b_err].
        -- rewrite app_length, firstn_length. lia.
        -- split; [discriminate|]. intros _. subst s. split.
           ++ now apply firstn_fail.
           ++ rewrite app_length. lia.
Qed.

(** * Write *)

Lemma bwrite_fuel_S : forall f B budget w p,
  bwrite_fuel (S f) B budget w p =
    if ((B - length (b_buf w) <? length p)%nat && negb (b_err w))%bool then
      if (length (b_buf w) =? 0)%nat then
        let '(out, n, e) := under_write budget (f_out w) p in
        bwrite_fuel f B budget (mkBw out [] e) (skipn n p)
      else
        let n := (B - length (b_buf w))%nat in
        let w1 := bflush budget (mkBw (f_out w) (b_buf w ++ firstn n p) false) in
        bwrite_fuel f B budget w1 (skipn n p)
    else if b_err w then w
    else mkBw (f_out w) (b_buf w ++ p) false.
Proof. reflexivity. Qed.

Lemma bwrite_fuel_err : forall f B budget w p,
  b_err w = true -> bwrite_fuel f B budget w p = w.
Proof.
  intros f B budget w p H. destruct f as [|f]; [reflexivity|].
  rewrite bwrite_fuel_S. rewrite H. cbn [negb]. rewrite andb_false_r. reflexivity.
Qed.

Lemma bwrite_fuel_nil : forall f B budget out,
  bwrite_fuel f B budget (mkBw out [] false) [] = mkBw out [] false.
Proof.
  intros f B budget out. destruct f as [|f]; [reflexivity|].
  rewrite bwrite_fuel_S. cbn [f_out b_buf b_err length negb].
  replace (B - 0 <? 0) with false by (symmetry; apply Nat.ltb_ge; lia).
  reflexivity.
Qed.

Lemma bwrite_empty : forall f B budget w p s,
  0 < B -> Inv budget w s -> b_buf w = [] -> b_err w = false ->
  Inv budget (bwrite_fuel (S f) B budget w p) (s ++ p).
Proof.
  intros f B budget w p s HB HI Hb He.
  destruct w as [out buf err]. cbn [f_out b_buf b_err] in *. subst buf err.
  destruct HI as (Hl & Hs & _). cbn [f_out b_buf b_err] in *.
  specialize (Hs eq_refl). rewrite app_nil_r in Hs. subst s.
  rewrite bwrite_fuel_S. cbn [f_out b_buf b_err length negb].
  rewrite Nat.sub_0_r, andb_true_r. cbn [Nat.eqb].
  destruct (Nat.ltb_spec B (length p)) as [Hlt|Hge].
  - unfold under_write.
    destruct (Nat.leb_spec (length out + length p) budget) as [Hle|Hgt].
    + rewrite skipn_all. rewrite bwrite_fuel_nil.
      split; cbn [f_out b_buf b_err].
      * rewrite app_length. lia.
      * split; [intros _; now rewrite app_nil_r|discriminate].
    + cbn zeta. rewrite bwrite_fuel_err by reflexivity.
      split; cbn [f_out b_buf b_err].
      * rewrite app_length, firstn_length. lia.
      * split; [discriminate|]. intros _. split.
        -- now apply firstn_fail.
        -- rewrite app_length. lia.
  - split; cbn [f_out b_buf b_err].
    + exact Hl.
    + split; [reflexivity|discriminate].
Qed.

Lemma bwrite_fuel_inv : forall f B budget w p s,
  0 < B -> Inv budget w s ->
  Inv budget (bwrite_fuel (S (S f)) B budget w p) (s ++ p).
Proof.
  intros f B budget w p s HB HI.
  destruct (b_err w) eqn:He.
  - rewrite bwrite_fuel_err by exact He. now apply Inv_ext.
  - destruct (b_buf w) as [|x buf'] eqn:Hb.
    + now apply bwrite_empty.
    + rewrite bwrite_fuel_S. rewrite He. cbn [negb]. rewrite andb_true_r.
      destruct (Nat.ltb_spec (B - length (b_buf w)) (length p)) as [Hlt|Hge].
      * destruct (Nat.eqb_spec (length (b_buf w)) 0) as [H0|_].
        { rewrite Hb in H0. discriminate. }
        cbn zeta. set (n := B - length (b_buf w)).
        assert (HI1 : Inv budget (mkBw (f_out w) (b_buf w ++ firstn n p) false)
                          (s ++ firstn n p)).
        { destruct HI as (Hl & Hs & _). split; cbn [f_out b_buf b_err].
          - exact Hl.
          - split; [|discriminate]. intros _. rewrite app_assoc. now rewrite (Hs He). }
        destruct (bflush_inv _ _ _ HI1) as [HI2 Hnil].
        set (w1 := bflush budget (mkBw (f_out w) (b_buf w ++ firstn n p) false)) in *.
        replace (s ++ p) with ((s ++ firstn n p) ++ skipn n p)
          by (rewrite <- app_assoc; now rewrite firstn_skipn).
        destruct (b_err w1) eqn:He1.
        -- rewrite bwrite_fuel_err by exact He1. now apply Inv_ext.
        -- apply bwrite_empty; auto.
      * destruct HI as (Hl & Hs & _). split; cbn [f_out b_buf b_err].
        -- exact Hl.
        -- split; [|discriminate]. intros _. rewrite app_assoc. now rewrite (Hs He).
Qed.

Lemma bwrite_inv : forall B budget w p s,
  0 < B -> Inv budget w s -> Inv budget (bwrite B budget w p) (s ++ p).
Proof. intros. unfold bwrite. now apply bwrite_fuel_inv. Qed.

Lemma bwrite_err : forall B budget w p,
  b_err w = true -> bwrite B budget w p = w.
Proof. intros. unfold bwrite. now apply bwrite_fuel_err. Qed.

(** * WriteItem *)

Lemma write_item_b_ok : forall B budget w bs,
  snd (write_item_b B budget w bs) = negb (b_err (fst (write_item_b B budget w bs))).
Proof.
  intros B budget w bs. unfold write_item_b.
  destruct (b_err (bwrite B budget w (be32 (lenN bs)))) eqn:He; cbn [fst snd].
  - now rewrite He.
  - reflexivity.
Qed.

Lemma write_item_b_err : forall B budget w bs,
  b_err w = true -> write_item_b B budget w bs = (w, false).
Proof.
  intros B budget w bs He. unfold write_item_b.
  rewrite bwrite_err by exact He. now rewrite He.
Qed.

Lemma write_item_b_inv : forall B budget w bs s,
  0 < B -> Inv budget w s ->
  Inv budget (fst (write_item_b B budget w bs)) (s ++ enc bs).
Proof.
  intros B budget w bs s HB HI. unfold write_item_b, enc.
  pose proof (bwrite_inv B budget w (be32 (lenN bs)) s HB HI) as HI1.
  rewrite app_assoc.
  destruct (b_err (bwrite B budget w (be32 (lenN bs)))) eqn:He; cbn [fst].
  - now apply Inv_ext.
  - now apply bwrite_inv.
Qed.

(** * The item loop *)

Lemma write_items_b_err : forall B budget items w,
  b_err w = true ->
  write_items_b B budget w items = (w, repeat false (length items)).
Proof.
  intros B budget items; induction items as [|bs r IH]; intros w He; cbn [write_items_b].
  - reflexivity.
  - rewrite write_item_b_err by exact He. rewrite IH by exact He. reflexivity.
Qed.

Lemma write_items_b_inv : forall B budget items w s,
  0 < B -> Inv budget w s ->
  Inv budget (fst (write_items_b B budget w items)) (s ++ concat (map enc items)).
Proof.
  intros B budget items; induction items as [|bs r IH]; intros w s HB HI; cbn [write_items_b].
  - cbn. now rewrite app_nil_r.
  - pose proof (write_item_b_inv B budget w bs s HB HI) as HI1.
    destruct (write_item_b B budget w bs) as [w1 ok]. cbn [fst] in HI1.
    specialize (IH w1 _ HB HI1).
    destruct (write_items_b B budget w1 r) as [w2 oks]. cbn [fst] in *.
    cbn [map concat]. now rewrite app_assoc.
Qed.

Lemma write_items_b_length : forall B budget items w,
  length (snd (write_items_b B budget w items)) = length items.
Proof.
  intros B budget items; induction items as [|bs r IH]; intros w; cbn [write_items_b].
  - reflexivity.
  - destruct (write_item_b B budget w bs) as [w1 ok].
    specialize (IH w1). destruct (write_items_b B budget w1 r) as [w2 oks].
    cbn [snd length] in *. now rewrite IH.
Qed.

Lemma write_items_b_all_ok : forall B budget items w,
  b_err (fst (write_items_b B budget w items)) = false ->
  Forall (fun ok => ok = true) (snd (write_items_b B budget w items)).
Proof.
  intros B budget items; induction items as [|bs r IH]; intros w He; cbn [write_items_b] in *.
  - constructor.
  - pose proof (write_item_b_ok B budget w bs) as Hok.
    destruct (write_item_b B budget w bs) as [w1 ok]. cbn [fst snd] in Hok.
    destruct (b_err w1) eqn:He1.
    + rewrite write_items_b_err in He by exact He1. cbn [fst] in He. congruence.
    + specialize (IH w1).
      destruct (write_items_b B budget w1 r) as [w2 oks]. cbn [fst snd] in *.
      constructor; [exact Hok|]. now apply IH.
Qed.

Lemma nth_repeat_false : forall n j, j < n -> nth j (repeat false n) true = false.
Proof.
  induction n as [|n IH]; intros j Hj; [lia|].
  destruct j as [|j]; cbn; [reflexivity|]. apply IH. lia.
Qed.

Lemma write_items_b_sticky : forall B budget items w i j,
  i <= j ->
  nth i (snd (write_items_b B budget w items)) true = false ->
  j < length (snd (write_items_b B budget w items)) ->
  nth j (snd (write_items_b B budget w items)) true = false.
Proof.
  intros B budget items; induction items as [|bs r IH]; intros w i j Hij Hi Hj;
    cbn [write_items_b] in *.
  - cbn in Hj. lia.
  - pose proof (write_item_b_ok B budget w bs) as Hok.
    destruct (write_item_b B budget w bs) as [w1 ok]. cbn [fst snd] in Hok.
    destruct i as [|i].
    + destruct (b_err w1) eqn:He1.
      * rewrite write_items_b_err in * by exact He1. cbn [snd] in *.
        destruct j as [|j]; [exact Hi|]. cbn [nth length] in *.
        apply nth_repeat_false. rewrite repeat_length in Hj. lia.
      * destruct (write_items_b B budget w1 r) as [w2 oks]. cbn [snd nth] in Hi.
        subst ok. discriminate.
    + destruct j as [|j]; [lia|].
      specialize (IH w1 i j).
      destruct (write_items_b B budget w1 r) as [w2 oks]. cbn [snd nth length] in *.
      apply IH; [lia|exact Hi|lia].
Qed.

(** * The theorems *)

Lemma Inv_bw0 : forall budget, Inv budget bw0 [].
Proof.
  intros budget. split; cbn; [lia|]. split; [reflexivity|discriminate].
Qed.

Theorem store_file_spec : stmt_store_file_spec.
Proof.
  intros crc B budget items HB. unfold store_file.
  pose proof (write_items_b_inv B budget items bw0 [] HB (Inv_bw0 budget)) as HI.
  pose proof (write_items_b_all_ok B budget items bw0) as Hall.
  destruct (write_items_b B budget bw0 items) as [w oks]. cbn [fst snd] in *.
  rewrite app_nil_l in HI.
  unfold close_b.
  pose proof (write_item_b_inv B budget w [] _ HB HI) as HI1.
  pose proof (write_item_b_ok B budget w []) as Hok.
  pose proof (write_item_b_err B budget w []) as Herr.
  rewrite <- file_of_eq with (crc := crc) in HI1.
  destruct (write_item_b B budget w []) as [w1 ok]. cbn [fst snd] in *.
  set (s := file_of crc items) in *.
  destruct ok.
  - destruct (bflush_inv _ _ _ HI1) as [HI2 Hnil].
    set (w2 := bflush budget w1) in *.
    destruct (b_err w2) eqn:He2; cbn [negb].
    + destruct HI2 as (Hl & _ & He). destruct (He He2) as [Hf Hlt].
      split; [exact Hf|]. split; [|discriminate].
      symmetry. apply Nat.leb_gt. exact Hlt.
    + destruct HI2 as (Hl & Hs & _). specialize (Hs He2).
      rewrite (Hnil eq_refl), app_nil_r in Hs.
      assert (Hlen : length s <= budget) by (rewrite <- Hs; exact Hl).
      split; [rewrite Hs; symmetry; now apply firstn_all2|].
      split; [symmetry; now apply Nat.leb_le|].
      intros _. split; [|exact Hs].
      apply Hall. destruct (b_err w) eqn:He; [|reflexivity].
      specialize (Herr eq_refl). discriminate.
  - assert (He1 : b_err w1 = true) by (destruct (b_err w1); [reflexivity|discriminate]).
    destruct HI1 as (Hl & _ & He). destruct (He He1) as [Hf Hlt].
    split; [exact Hf|]. split; [|discriminate].
    symmetry. apply Nat.leb_gt. exact Hlt.
Qed.
Print Assumptions store_file_spec.

Theorem errors_sticky : stmt_errors_sticky.
Proof.
  intros B budget items i j HB Hij. unfold store_file.
  pose proof (write_items_b_sticky B budget items bw0 i j Hij) as H.
  destruct (write_items_b B budget bw0 items) as [w oks]. cbn [snd] in H.
  destruct (close_b B budget w) as [w' c]. exact H.
Qed.
Print Assumptions errors_sticky.

Theorem noflushcheck_refuted : stmt_noflushcheck_refuted.
Proof.
  exists 5, 25, [[1;2;3];[4;5;6;7;8;9;10];[11]]%N.
  vm_compute. split; [reflexivity|discriminate].
Qed.
Print Assumptions noflushcheck_refuted.
