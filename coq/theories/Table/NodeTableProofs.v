(** nodetable refines an association map, for every hash function (C20). *)
From NV Require Import Base.Bytes Table.NodeTable.
From Coq Require Import ZifyN ZifyNat ZifyBool.
Open Scope N_scope.

(** * Bucket view *)
Fixpoint b_find (k : N) (l : list ptr) : option ptr :=
  match l with
  | [] => None
  | p :: r => if keyof p =? k then Some p else b_find k r
  end.

Fixpoint b_set (k : N) (np : ptr) (l : list ptr) : list ptr :=
  match l with
  | [] => [np]
  | p :: r => if keyof p =? k then np :: r else p :: b_set k np r
  end.

Fixpoint b_del (k : N) (l : list ptr) : list ptr :=
  match l with
  | [] => []
  | p :: r => if keyof p =? k then r else p :: b_del k r
  end.

Definition bucket (t : nt) (h : N) : list ptr :=
  match fast t h with
  | None => []
  | Some (p, _) => p :: slow t h
  end.

Lemma find_slow_spec k vs : forall i,
  match find_slow k vs i with
  | Some j => (i <= j)%nat /\ b_find k vs = nth_error vs (j - i) /\ (exists p, nth_error vs (j - i) = Some p /\ keyof p = k)
              /\ b_set k (k, 0) vs = set_nth (j - i) vs (k, 0) /\ b_del k vs = del_nth (j - i) vs
  | None => b_find k vs = None
  end.
Proof.
  induction vs as [|v r IH]; intros i; cbn [find_slow b_find]; [reflexivity|].
  destruct (N.eqb_spec (keyof v) k) as [E|E].
  - rewrite Nat.sub_diag. cbn. rewrite E, N.eqb_refl. repeat split; try lia. exists v. split; [reflexivity|exact E].
  - specialize (IH (S i)). destruct (find_slow k r (S i)) as [j|]; [|exact IH].
    destruct IH as (Hle & Hf & (p & Hp & Hk) & Hs & Hd).
    replace (j - i)%nat with (S (j - S i)) by lia. cbn [nth_error b_set b_del set_nth del_nth].
    destruct (N.eqb_spec (keyof v) k) as [E'|_]; [contradiction|].
    repeat split; try lia; try assumption.
    + exists p. split; assumption.
    + f_equal. exact Hs.
    + f_equal. exact Hd.
Qed.

Lemma b_set_generic k np np' vs i : b_set k np vs = set_nth i vs np -> b_set k np' vs = set_nth i vs np' \/ True.
Proof. right. exact I. Qed.

(** set_nth at the found position does not depend on the value used to find it *)
Lemma find_slow_set k vs np : forall i j,
  find_slow k vs i = Some j -> b_set k np vs = set_nth (j - i) vs np.
Proof.
  induction vs as [|v r IH]; intros i j; cbn [find_slow]; [discriminate|].
  destruct (N.eqb_spec (keyof v) k) as [E|E].
  - intros H; inversion H; subst. rewrite Nat.sub_diag. cbn. rewrite N.eqb_refl. reflexivity.
  - intros H. pose proof (find_slow_spec k r (S i)) as S. rewrite H in S. destruct S as (Hle & _).
    replace (j - i)%nat with (S (j - S i)) by lia. cbn [b_set set_nth].
    destruct (N.eqb_spec (keyof v) k) as [E'|_]; [contradiction|]. f_equal. apply IH. exact H.
Qed.

Lemma NoDup_snoc {T} (xs : list T) (k : T) : NoDup xs -> ~ In k xs -> NoDup (xs ++ [k]).
Proof.
  induction xs as [|x xs IH]; cbn; intros HN Hk.
  - constructor; [intros []|constructor].
  - inversion HN; subst. constructor.
    + rewrite in_app_iff. intros [A|[A|[]]]; [contradiction|]. subst. apply Hk. left. reflexivity.
    + apply IH; [assumption|]. intros A. apply Hk. right. exact A.
Qed.

Section Proofs.
Variable hash : N -> N.

Definition BW (h : N) (l : list ptr) : Prop :=
  Forall (fun q => hash (keyof q) = h) l /\ NoDup (map keyof l).

Definition BI (t : nt) : Prop :=
  forall h,
    BW h (bucket t h) /\
    match fast t h with
    | None => slow t h = []
    | Some (_, c) => (c = true <-> slow t h <> [])
    end.

Lemma upd_same {A} (f : N -> A) h v : upd f h v h = v.
Proof. unfold upd. rewrite N.eqb_refl. reflexivity. Qed.
Lemma upd_other {A} (f : N -> A) h v x : x <> h -> upd f h v x = f x.
Proof. unfold upd. intros H. destruct (N.eqb_spec x h); [contradiction|reflexivity]. Qed.

(** find in terms of the bucket *)
Lemma find_bucket t k : BI t ->
  match find hash t k with
  | NotFound he c => b_find k (bucket t (hash k)) = None /\
                     (he = true <-> fast t (hash k) <> None) /\
                     (fast t (hash k) <> None -> exists p, fast t (hash k) = Some (p, c)) /\
                     (he = false -> c = false)
  | InFast p c => fast t (hash k) = Some (p, c) /\ keyof p = k
  | InSlow i vs => exists p, fast t (hash k) = Some (p, true) /\ keyof p <> k /\ vs = slow t (hash k) /\
                   find_slow k vs 0 = Some i
  end.
Proof.
  intros HI. unfold find, bucket. destruct (HI (hash k)) as [_ Hc].
  destruct (fast t (hash k)) as [[p c]|] eqn:Ef.
  - destruct (N.eqb_spec (keyof p) k) as [E|E].
    + split; [reflexivity|exact E].
    + destruct c.
      * pose proof (find_slow_spec k (slow t (hash k)) 0) as S.
        destruct (find_slow k (slow t (hash k)) 0) as [i|] eqn:Efs.
        -- exists p. repeat split; try assumption; reflexivity.
        -- cbn [b_find]. destruct (N.eqb_spec (keyof p) k); [contradiction|].
           repeat split; try assumption; try discriminate; try congruence.
           intros _. exists p. reflexivity.
      * cbn [b_find]. destruct (N.eqb_spec (keyof p) k); [contradiction|].
        assert (Hs : slow t (hash k) = []).
        { destruct (slow t (hash k)) eqn:Es; [reflexivity|]. exfalso.
          assert (false = true) by (apply Hc; discriminate). discriminate. }
        rewrite Hs. repeat split; try reflexivity; try discriminate; try congruence.
        intros _. exists p. reflexivity.
  - repeat split; try reflexivity; try discriminate; try congruence.
Qed.

Lemma nt_get_bucket t k : BI t -> nt_get hash t k = b_find k (bucket t (hash k)).
Proof.
  intros HI. unfold nt_get. pose proof (find_bucket t k HI) as F.
  destruct (find hash t k) as [he c|p c|i vs].
  - destruct F as [F _]. symmetry. exact F.
  - destruct F as [Ef Ek]. unfold bucket. rewrite Ef. cbn. rewrite Ek, N.eqb_refl. reflexivity.
  - destruct F as (p & Ef & Ek & Evs & Efs). unfold bucket. rewrite Ef. cbn.
    destruct (N.eqb_spec (keyof p) k); [contradiction|].
    pose proof (find_slow_spec k vs 0) as S. rewrite Efs in S. destruct S as (_ & S & _).
    rewrite Nat.sub_0_r in S. subst vs. symmetry. exact S.
Qed.

(** ** bucket-level facts *)
Lemma b_find_key k l p : b_find k l = Some p -> keyof p = k /\ In p l.
Proof.
  induction l as [|q r IH]; cbn; [discriminate|].
  destruct (N.eqb_spec (keyof q) k) as [E|E].
  - intros H; inversion H; subst. split; [reflexivity|left; reflexivity].
  - intros H. destruct (IH H) as [A B]. split; [exact A|right; exact B].
Qed.

Lemma b_find_none k l : b_find k l = None -> ~ In k (map keyof l).
Proof.
  induction l as [|q r IH]; cbn; [intros _ []|].
  destruct (N.eqb_spec (keyof q) k) as [E|E]; [discriminate|].
  intros H [A|A]; [contradiction|]. exact (IH H A).
Qed.

Lemma b_set_keys k id l :
  map keyof (b_set k (k, id) l) = match b_find k l with Some _ => map keyof l | None => map keyof l ++ [k] end.
Proof.
  induction l as [|q r IH]; cbn; [reflexivity|].
  destruct (N.eqb_spec (keyof q) k) as [E|E]; cbn.
  - rewrite E. reflexivity.
  - rewrite IH. destruct (b_find k r); reflexivity.
Qed.

Lemma BW_set h k id l : hash k = h -> BW h l -> BW h (b_set k (k, id) l).
Proof.
  intros Hh [HF HN]. split.
  - clear HN. induction l as [|q r IH]; cbn.
    + constructor; [exact Hh|constructor].
    + inversion HF; subst. destruct (N.eqb_spec (keyof q) k); constructor; auto.
  - rewrite b_set_keys. destruct (b_find k l) eqn:Ef; [exact HN|].
    apply b_find_none in Ef. apply NoDup_snoc; assumption.
Qed.

Lemma b_del_subset k l x : In x (b_del k l) -> In x l.
Proof.
  induction l as [|q r IH]; cbn; [intros []|].
  destruct (N.eqb_spec (keyof q) k); [intros H; right; exact H|].
  intros [A|A]; [left; exact A|right; exact (IH A)].
Qed.

Lemma b_del_keys_subset k l x : In x (map keyof (b_del k l)) -> In x (map keyof l).
Proof.
  induction l as [|q r IH]; cbn; [intros []|].
  destruct (N.eqb_spec (keyof q) k); [intros H; right; exact H|].
  cbn. intros [A|A]; [left; exact A|right; exact (IH A)].
Qed.

Lemma BW_del h k l : BW h l -> BW h (b_del k l).
Proof.
  intros [HF HN]. split.
  - rewrite Forall_forall in *. intros x Hx. apply HF. eapply b_del_subset. exact Hx.
  - induction l as [|q r IH]; cbn; [constructor|].
    inversion HN; subst. inversion HF; subst.
    destruct (N.eqb_spec (keyof q) k); [assumption|]. cbn. constructor.
    + intros A. apply b_del_keys_subset in A. contradiction.
    + apply IH; assumption.
Qed.

Lemma b_find_set_same k id l : b_find k (b_set k (k, id) l) = Some (k, id).
Proof.
  induction l as [|q r IH]; cbn.
  - rewrite N.eqb_refl. reflexivity.
  - destruct (N.eqb_spec (keyof q) k) as [E|E]; cbn.
    + rewrite N.eqb_refl. reflexivity.
    + destruct (N.eqb_spec (keyof q) k); [contradiction|]. exact IH.
Qed.

Lemma b_find_set_other k k' id l : k' <> k -> b_find k' (b_set k (k, id) l) = b_find k' l.
Proof.
  intros Hne. induction l as [|q r IH]; cbn.
  - destruct (N.eqb_spec k k'); [congruence|reflexivity].
  - destruct (N.eqb_spec (keyof q) k) as [E|E]; cbn.
    + destruct (N.eqb_spec k k'); [congruence|].
      destruct (N.eqb_spec (keyof q) k'); [congruence|reflexivity].
    + destruct (N.eqb_spec (keyof q) k'); [reflexivity|exact IH].
Qed.

Lemma b_find_del_same k l : NoDup (map keyof l) -> b_find k (b_del k l) = None.
Proof.
  induction l as [|q r IH]; cbn; [reflexivity|]. intros HN. inversion HN; subst.
  destruct (N.eqb_spec (keyof q) k) as [E|E].
  - destruct (b_find k r) eqn:Ef; [|reflexivity]. apply b_find_key in Ef. destruct Ef as [A B].
    exfalso. apply H1. rewrite E, <- A. apply in_map. exact B.
  - cbn. destruct (N.eqb_spec (keyof q) k); [contradiction|]. apply IH. assumption.
Qed.

Lemma b_find_del_other k k' l : k' <> k -> b_find k' (b_del k l) = b_find k' l.
Proof.
  intros Hne. induction l as [|q r IH]; cbn; [reflexivity|].
  destruct (N.eqb_spec (keyof q) k) as [E|E]; cbn.
  - destruct (N.eqb_spec (keyof q) k'); [congruence|reflexivity].
  - destruct (N.eqb_spec (keyof q) k'); [reflexivity|exact IH].
Qed.

(** * The effect of update / remove on buckets *)
Definition bucket_rel (t t' : nt) (h : N) (l' : list ptr) : Prop :=
  bucket t' h = l' /\ forall x, x <> h -> bucket t' x = bucket t x.

Lemma BI_intro t' :
  (forall h, BW h (bucket t' h)) ->
  (forall h, match fast t' h with None => slow t' h = [] | Some (_, c) => (c = true <-> slow t' h <> []) end) ->
  BI t'.
Proof. intros A B h. split; [apply A|apply B]. Qed.

Lemma update_bucket t k id : BI t ->
  let h := hash k in
  let '(t', (b, old)) := nt_update hash t k id in
  BI t' /\ bucket_rel t t' h (b_set k (k, id) (bucket t h)) /\
  old = b_find k (bucket t h) /\ b = (match old with Some _ => true | None => false end) /\
  nt_count t' = (nt_count t + if b then 0 else 1)%Z.
Proof.
  intros HI h. unfold nt_update. fold h.
  pose proof (find_bucket t k HI) as F. pose proof (nt_get_bucket t k HI) as G. unfold nt_get in G.
  pose proof (HI h) as [HBW HC].
  destruct (find hash t k) as [he c|p c|i vs].
  - (* insert *)
    destruct F as (Fnone & Fhe & Fex & Fc). fold h in Fnone, Fhe, Fex.
    destruct (c || he && negb c) eqn:Eb.
    + (* into slow *)
      assert (Hhe : he = true) by (destruct he; [reflexivity|rewrite (Fc eq_refl) in Eb; discriminate]).
      destruct (Fex (proj1 Fhe Hhe)) as [p Ep].
      assert (Hbk : bucket t h = p :: slow t h) by (unfold bucket; rewrite Ep; reflexivity).
      assert (Hpk : keyof p <> k).
      { intros E. rewrite Hbk in Fnone. cbn in Fnone. rewrite E, N.eqb_refl in Fnone. discriminate. }
      assert (Hset : b_set k (k, id) (bucket t h) = p :: (slow t h ++ [(k, id)])).
      { rewrite Hbk. cbn. destruct (N.eqb_spec (keyof p) k); [contradiction|]. f_equal.
        rewrite Hbk in Fnone. cbn in Fnone. destruct (N.eqb_spec (keyof p) k); [contradiction|].
        clear - Fnone. induction (slow t h) as [|q r IH]; cbn; [reflexivity|].
        cbn in Fnone. destruct (N.eqb_spec (keyof q) k); [discriminate|]. f_equal. apply IH. exact Fnone. }
      assert (Hb' : forall x, bucket {| fast := if he && negb c then upd (fast t) h (match fast t h with Some (q, _) => Some (q, true) | None => None end) else fast t;
                                    slow := upd (slow t) h (slow t h ++ [(k, id)]);
                                    fastC := fastC t; slowC := (slowC t + 1)%Z;
                                    confl := if he && negb c then (confl t + 1)%Z else confl t |} x
                              = if x =? h then p :: (slow t h ++ [(k, id)]) else bucket t x).
      { intros x. unfold bucket. cbn [fast slow]. destruct (N.eqb_spec x h) as [Ex|Ex].
        - subst x. rewrite upd_same. destruct (he && negb c); [rewrite upd_same|]; rewrite Ep; reflexivity.
        - rewrite (upd_other (slow t)) by exact Ex. destruct (he && negb c); [rewrite upd_other by exact Ex|]; reflexivity. }
      split; [|split; [|split; [|split]]].
      * apply BI_intro.
        -- intros x. rewrite Hb'. destruct (N.eqb_spec x h) as [Ex|Ex].
           ++ subst x. rewrite <- Hset. apply BW_set; [reflexivity|exact HBW].
           ++ apply HI.
        -- intros x. cbn [fast slow]. destruct (N.eqb_spec x h) as [Ex|Ex].
           ++ subst x. rewrite upd_same.
              destruct (he && negb c) eqn:En.
              ** rewrite upd_same, Ep. split; [intros _|reflexivity]. destruct (slow t h); discriminate.
              ** rewrite Ep. rewrite Hhe in En. cbn in En. destruct c; [|discriminate].
                 split; [intros _|reflexivity]. destruct (slow t h); discriminate.
           ++ rewrite (upd_other (slow t)) by exact Ex.
              destruct (he && negb c); [rewrite upd_other by exact Ex|]; apply HI.
      * split.
        -- rewrite Hb', N.eqb_refl. symmetry. exact Hset.
        -- intros x Hx. rewrite Hb'. destruct (N.eqb_spec x h); [contradiction|reflexivity].
      * symmetry. exact Fnone.
      * reflexivity.
      * unfold nt_count. cbn [fastC slowC]. lia.
    + (* into fast: no entry *)
      assert (Hhe : he = false) by (destruct he, c; cbn in Eb; congruence).
      assert (Hno : fast t h = None).
      { destruct (fast t h) eqn:E; [|reflexivity]. exfalso.
        assert (he = true) by (apply Fhe; discriminate). congruence. }
      assert (Hbk : bucket t h = []) by (unfold bucket; rewrite Hno; reflexivity).
      rewrite Hno in HC.
      split; [|split; [|split; [|split]]].
      * apply BI_intro.
        -- intros x. unfold bucket. cbn [fast slow]. destruct (N.eqb_spec x h) as [Ex|Ex].
           ++ subst x. rewrite upd_same, HC. split; [constructor; [reflexivity|constructor]|].
              cbn. constructor; [intros []|constructor].
           ++ rewrite upd_other by exact Ex. apply HI.
        -- intros x. cbn [fast slow]. destruct (N.eqb_spec x h) as [Ex|Ex].
           ++ subst x. rewrite upd_same, HC. split; [discriminate|intros A; contradiction].
           ++ rewrite upd_other by exact Ex. apply HI.
      * split.
        -- unfold bucket. cbn [fast slow]. rewrite upd_same, HC, Hno. reflexivity.
        -- intros x Hx. unfold bucket. cbn [fast slow]. rewrite upd_other by exact Hx. reflexivity.
      * rewrite Hbk. reflexivity.
      * reflexivity.
      * unfold nt_count. cbn [fastC slowC]. lia.
  - (* replace in fast *)
    destruct F as [Ef Ek]. fold h in Ef.
    assert (Hbk : bucket t h = p :: slow t h) by (unfold bucket; rewrite Ef; reflexivity).
    split; [|split; [|split; [|split]]].
    * apply BI_intro.
      -- intros x. unfold bucket. cbn [fast slow]. destruct (N.eqb_spec x h) as [Ex|Ex].
         ++ subst x. rewrite upd_same.
            replace ((k, id) :: slow t h) with (b_set k (k, id) (bucket t h)).
            ** apply BW_set; [reflexivity|exact HBW].
            ** rewrite Hbk. cbn. rewrite Ek, N.eqb_refl. reflexivity.
         ++ rewrite upd_other by exact Ex. apply HI.
      -- intros x. cbn [fast slow]. destruct (N.eqb_spec x h) as [Ex|Ex].
         ++ subst x. rewrite upd_same. rewrite Ef in HC. exact HC.
         ++ rewrite upd_other by exact Ex. apply HI.
    * split.
      -- unfold bucket at 1. cbn [fast slow]. rewrite upd_same, Hbk. cbn. rewrite Ek, N.eqb_refl. reflexivity.
      -- intros x Hx. unfold bucket. cbn [fast slow]. rewrite upd_other by exact Hx. reflexivity.
    * rewrite Hbk. cbn. rewrite Ek, N.eqb_refl. reflexivity.
    * reflexivity.
    * unfold nt_count. cbn [fastC slowC]. lia.
  - (* replace in slow *)
    destruct F as (p & Ef & Ek & Evs & Efs). fold h in Ef, Evs.
    assert (Hbk : bucket t h = p :: slow t h) by (unfold bucket; rewrite Ef; reflexivity).
    pose proof (find_slow_set k vs (k, id) 0 i Efs) as Hset. rewrite Nat.sub_0_r in Hset.
    pose proof (find_slow_spec k vs 0) as S. rewrite Efs in S.
    destruct S as (_ & Sf & (q & Sq & Sk) & _ & _). rewrite Nat.sub_0_r in Sf, Sq.
    assert (Hsetb : b_set k (k, id) (bucket t h) = p :: set_nth i vs (k, id)).
    { rewrite Hbk. cbn. destruct (N.eqb_spec (keyof p) k); [contradiction|]. f_equal. rewrite <- Evs. exact Hset. }
    split; [|split; [|split; [|split]]].
    * apply BI_intro.
      -- intros x. unfold bucket. cbn [fast slow]. destruct (N.eqb_spec x h) as [Ex|Ex].
         ++ subst x. rewrite upd_same, Ef. rewrite <- Hsetb. apply BW_set; [reflexivity|exact HBW].
         ++ rewrite upd_other by exact Ex. apply HI.
      -- intros x. cbn [fast slow]. destruct (N.eqb_spec x h) as [Ex|Ex].
         ++ subst x. rewrite upd_same, Ef. split; [intros _|reflexivity].
            destruct vs as [|v0 vs0]; [destruct i; discriminate Sq|]. destruct i; cbn; discriminate.
         ++ rewrite upd_other by exact Ex. apply HI.
    * split.
      -- unfold bucket at 1. cbn [fast slow]. rewrite upd_same, Ef. symmetry. exact Hsetb.
      -- intros x Hx. unfold bucket. cbn [fast slow]. rewrite upd_other by exact Hx. reflexivity.
    * rewrite Hbk. cbn. destruct (N.eqb_spec (keyof p) k); [contradiction|]. rewrite <- Evs. symmetry. exact Sf.
    * rewrite Sq. reflexivity.
    * unfold nt_count. cbn [fastC slowC]. lia.
Qed.

Lemma remove_bucket t k : BI t ->
  let h := hash k in
  let '(t', (b, old)) := nt_remove hash t k in
  BI t' /\ bucket_rel t t' h (b_del k (bucket t h)) /\
  old = b_find k (bucket t h) /\ b = (match old with Some _ => true | None => false end) /\
  nt_count t' = (nt_count t - if b then 1 else 0)%Z.
Proof.
  intros HI h. unfold nt_remove. fold h.
  pose proof (find_bucket t k HI) as F.
  pose proof (HI h) as [HBW HC].
  destruct (find hash t k) as [he c|p c|i vs].
  - destruct F as (Fnone & _). fold h in Fnone.
    split; [exact HI|]. split; [|split; [|split]].
    + split; [|reflexivity]. clear - Fnone. induction (bucket t h) as [|q r IH]; cbn; [reflexivity|].
      cbn in Fnone. destruct (N.eqb_spec (keyof q) k); [discriminate|]. f_equal. apply IH. exact Fnone.
    + symmetry. exact Fnone.
    + reflexivity.
    + lia.
  - destruct F as [Ef Ek]. fold h in Ef.
    assert (Hbk : bucket t h = p :: slow t h) by (unfold bucket; rewrite Ef; reflexivity).
    assert (Hdel : b_del k (bucket t h) = slow t h).
    { rewrite Hbk. cbn. rewrite Ek, N.eqb_refl. reflexivity. }
    rewrite Ef in HC.
    destruct c.
    + destruct (slow t h) as [|v vs'] eqn:Es.
      { exfalso. apply (proj1 HC eq_refl). reflexivity. }
      split; [|split; [|split; [|split]]].
      * apply BI_intro.
        -- intros x. unfold bucket. cbn [fast slow]. destruct (N.eqb_spec x h) as [Ex|Ex].
           ++ subst x. rewrite !upd_same. rewrite <- Hdel. apply BW_del. exact HBW.
           ++ rewrite !upd_other by exact Ex. apply HI.
        -- intros x. cbn [fast slow]. destruct (N.eqb_spec x h) as [Ex|Ex].
           ++ subst x. rewrite !upd_same. destruct vs'; split; try discriminate; try reflexivity.
              intros A. contradiction.
           ++ rewrite !upd_other by exact Ex. apply HI.
      * split.
        -- unfold bucket at 1. cbn [fast slow]. rewrite !upd_same. symmetry. exact Hdel.
        -- intros x Hx. unfold bucket. cbn [fast slow]. rewrite !upd_other by exact Hx. reflexivity.
      * rewrite Hbk. cbn. rewrite Ek, N.eqb_refl. reflexivity.
      * reflexivity.
      * unfold nt_count. cbn [fastC slowC]. lia.
    + assert (Hs : slow t h = []).
      { destruct (slow t h) eqn:Es; [reflexivity|]. exfalso.
        assert (false = true) by (apply HC; discriminate). discriminate. }
      split; [|split; [|split; [|split]]].
      * apply BI_intro.
        -- intros x. unfold bucket. cbn [fast slow]. destruct (N.eqb_spec x h) as [Ex|Ex].
           ++ subst x. rewrite upd_same. split; constructor.
           ++ rewrite upd_other by exact Ex. apply HI.
        -- intros x. cbn [fast slow]. destruct (N.eqb_spec x h) as [Ex|Ex].
           ++ subst x. rewrite upd_same. exact Hs.
           ++ rewrite upd_other by exact Ex. apply HI.
      * split.
        -- unfold bucket at 1. cbn [fast slow]. rewrite upd_same. rewrite Hdel, Hs. reflexivity.
        -- intros x Hx. unfold bucket. cbn [fast slow]. rewrite upd_other by exact Hx. reflexivity.
      * rewrite Hbk. cbn. rewrite Ek, N.eqb_refl. reflexivity.
      * reflexivity.
      * unfold nt_count. cbn [fastC slowC]. lia.
  - destruct F as (p & Ef & Ek & Evs & Efs). fold h in Ef, Evs.
    assert (Hbk : bucket t h = p :: slow t h) by (unfold bucket; rewrite Ef; reflexivity).
    pose proof (find_slow_spec k vs 0) as S. rewrite Efs in S.
    destruct S as (_ & Sf & (q & Sq & Sk) & _ & Sd). rewrite Nat.sub_0_r in Sf, Sq, Sd.
    assert (Hdel : b_del k (bucket t h) = p :: del_nth i vs).
    { rewrite Hbk. cbn. destruct (N.eqb_spec (keyof p) k); [contradiction|]. f_equal. rewrite <- Evs. exact Sd. }
    assert (Hb' : forall x,
      bucket {| fast := match del_nth i vs with
                        | [] => upd (fast t) h (match fast t h with Some (q, _) => Some (q, false) | None => None end)
                        | _ :: _ => fast t end;
                slow := upd (slow t) h (del_nth i vs);
                fastC := fastC t; slowC := (slowC t - 1)%Z;
                confl := match del_nth i vs with [] => (confl t - 1)%Z | _ :: _ => confl t end |} x
      = if x =? h then p :: del_nth i vs else bucket t x).
    { intros x. unfold bucket. cbn [fast slow]. destruct (N.eqb_spec x h) as [Ex|Ex].
      - subst x. rewrite upd_same. destruct (del_nth i vs); [rewrite upd_same|]; rewrite Ef; reflexivity.
      - rewrite (upd_other (slow t)) by exact Ex. destruct (del_nth i vs); [rewrite upd_other by exact Ex|]; reflexivity. }
    split; [|split; [|split; [|split]]].
    * apply BI_intro.
      -- intros x. rewrite Hb'. destruct (N.eqb_spec x h) as [Ex|Ex].
         ++ subst x. rewrite <- Hdel. apply BW_del. exact HBW.
         ++ apply HI.
      -- intros x. cbn [fast slow]. destruct (N.eqb_spec x h) as [Ex|Ex].
         ++ subst x. rewrite upd_same. destruct (del_nth i vs) eqn:Ed.
            ** rewrite upd_same, Ef. split; [discriminate|intros A; contradiction].
            ** rewrite Ef. split; [discriminate|reflexivity].
         ++ rewrite (upd_other (slow t)) by exact Ex.
            destruct (del_nth i vs); [rewrite upd_other by exact Ex|]; apply HI.
    * split.
      -- rewrite Hb', N.eqb_refl. symmetry. exact Hdel.
      -- intros x Hx. rewrite Hb'. destruct (N.eqb_spec x h); [contradiction|reflexivity].
    * rewrite Hbk. cbn. destruct (N.eqb_spec (keyof p) k); [contradiction|]. rewrite <- Evs. symmetry. exact Sf.
    * rewrite Sq. reflexivity.
    * unfold nt_count. cbn [fastC slowC]. lia.
Qed.

(** * Refinement relation with the association map *)
Definition R (t : nt) (m : amap) : Prop :=
  BI t /\ (forall k, b_find k (bucket t (hash k)) = a_get m k) /\
  NoDup (map fst m) /\ nt_count t = Z.of_nat (length m) /\
  (forall k p, a_get m k = Some p -> keyof p = k).

Lemma a_get_del_same m k : a_get (a_del m k) k = None.
Proof.
  induction m as [|[k' p] r IH]; cbn; [reflexivity|].
  destruct (N.eqb_spec k' k) as [E|E]; [exact IH|]. cbn.
  destruct (N.eqb_spec k' k); [contradiction|exact IH].
Qed.

Lemma a_get_del_other m k k' : k' <> k -> a_get (a_del m k) k' = a_get m k'.
Proof.
  intros Hne. induction m as [|[k0 p] r IH]; cbn; [reflexivity|].
  destruct (N.eqb_spec k0 k) as [E|E].
  - destruct (N.eqb_spec k0 k'); [congruence|exact IH].
  - cbn. destruct (N.eqb_spec k0 k'); [reflexivity|exact IH].
Qed.

Lemma a_del_keys m k x : In x (map fst (a_del m k)) -> In x (map fst m) /\ x <> k.
Proof.
  induction m as [|[k0 p] r IH]; cbn; [intros []|].
  destruct (N.eqb_spec k0 k) as [E|E].
  - intros H. destruct (IH H). split; [right; assumption|assumption].
  - cbn. intros [A|A].
    + subst. split; [left; reflexivity|exact E].
    + destruct (IH A). split; [right; assumption|assumption].
Qed.

Lemma a_del_nodup m k : NoDup (map fst m) -> NoDup (map fst (a_del m k)).
Proof.
  induction m as [|[k0 p] r IH]; cbn; [constructor|]. intros HN. inversion HN; subst.
  destruct (N.eqb_spec k0 k); [apply IH; assumption|]. cbn. constructor.
  - intros A. apply a_del_keys in A. destruct A. contradiction.
  - apply IH. assumption.
Qed.

Lemma a_get_none_notin m k : a_get m k = None -> ~ In k (map fst m).
Proof.
  induction m as [|[k0 p] r IH]; cbn; [intros _ []|].
  destruct (N.eqb_spec k0 k); [discriminate|]. intros H [A|A]; [contradiction|exact (IH H A)].
Qed.

Lemma a_del_notin m k : ~ In k (map fst m) -> a_del m k = m.
Proof.
  induction m as [|[k0 p] r IH]; cbn; [reflexivity|]. intros H.
  destruct (N.eqb_spec k0 k) as [E|E]; [exfalso; apply H; left; exact E|].
  f_equal. apply IH. intros A. apply H. right. exact A.
Qed.

Lemma a_del_length m k : NoDup (map fst m) ->
  length (a_del m k) = (length m - match a_get m k with Some _ => 1 | None => 0 end)%nat.
Proof.
  induction m as [|[k0 p] r IH]; cbn; [reflexivity|]. intros HN. inversion HN; subst.
  destruct (N.eqb_spec k0 k) as [E|E].
  - subst. rewrite a_del_notin by assumption. lia.
  - cbn. rewrite IH by assumption. destruct (a_get r k) eqn:Eg; [|lia].
    destruct r; [discriminate|cbn; lia].
Qed.

Lemma R_empty : R nt_empty [].
Proof.
  repeat split; try (cbn; constructor); try reflexivity; try discriminate.
Qed.

Lemma step_refines t m o : R t m ->
  let '(t', x) := nt_step hash t o in
  let '(m', y) := a_step m o in
  R t' m' /\ x = y.
Proof.
  intros (HI & HG & HN & HC & HK). destruct o as [k id|k|k]; cbn [nt_step a_step].
  - pose proof (update_bucket t k id HI) as U. cbv zeta in U.
    destruct (nt_update hash t k id) as [t' [b old]].
    destruct U as (HI' & [Hb Hother] & Hold & Hbv & Hcnt).
    rewrite HG in Hold.
    assert (Hlen : Z.of_nat (length (a_set m k (k, id))) = (Z.of_nat (length m) + if b then 0 else 1)%Z).
    { unfold a_set. cbn [length]. rewrite a_del_length by exact HN. rewrite Hbv, Hold.
      destruct (a_get m k) eqn:Eg; [|lia]. destruct m; [discriminate|cbn [length]; lia]. }
    split.
    + split; [exact HI'|]. split; [|split; [|split]].
      * intros k'. unfold a_set. cbn [a_get].
        destruct (N.eqb_spec k k') as [E|E].
        -- subst k'. rewrite Hb. apply b_find_set_same.
        -- destruct (N.eq_dec (hash k') (hash k)) as [Eh|Eh].
           ++ rewrite Eh, Hb, b_find_set_other by congruence.
              rewrite a_get_del_other by congruence. rewrite <- Eh. apply HG.
           ++ rewrite Hother by exact Eh. rewrite a_get_del_other by congruence. apply HG.
      * unfold a_set. cbn. constructor; [|apply a_del_nodup; exact HN].
        intros A. apply a_del_keys in A. destruct A as [_ A]. apply A. reflexivity.
      * rewrite Hcnt, HC. symmetry. exact Hlen.
      * intros k' p. unfold a_set. cbn [a_get]. destruct (N.eqb_spec k k') as [E|E].
        -- intros H; inversion H; subst. reflexivity.
        -- rewrite a_get_del_other by congruence. apply HK.
    + rewrite Hbv, Hold, Hcnt, HC, Hlen. rewrite Hbv, Hold. reflexivity.
  - rewrite nt_get_bucket by exact HI. rewrite HG, HC. split; [|reflexivity].
    unfold R. auto.
  - pose proof (remove_bucket t k HI) as U. cbv zeta in U.
    destruct (nt_remove hash t k) as [t' [b old]].
    destruct U as (HI' & [Hb Hother] & Hold & Hbv & Hcnt).
    rewrite HG in Hold.
    assert (Hlen : Z.of_nat (length (a_del m k)) = (Z.of_nat (length m) - if b then 1 else 0)%Z).
    { rewrite a_del_length by exact HN. rewrite Hbv, Hold.
      destruct (a_get m k) eqn:Eg; [|lia]. destruct m; [discriminate|cbn [length]; lia]. }
    pose proof (HI (hash k)) as [[_ HND] _].
    split.
    + split; [exact HI'|]. split; [|split; [|split]].
      * intros k'. destruct (N.eqb_spec k k') as [E|E].
        -- subst k'. rewrite Hb, a_get_del_same. apply b_find_del_same. exact HND.
        -- destruct (N.eq_dec (hash k') (hash k)) as [Eh|Eh].
           ++ rewrite Eh, Hb, b_find_del_other by congruence.
              rewrite a_get_del_other by congruence. rewrite <- Eh. apply HG.
           ++ rewrite Hother by exact Eh. rewrite a_get_del_other by congruence. apply HG.
      * apply a_del_nodup. exact HN.
      * rewrite Hcnt, HC. symmetry. exact Hlen.
      * intros k' p. destruct (N.eqb_spec k k') as [E|E].
        -- subst. rewrite a_get_del_same. discriminate.
        -- rewrite a_get_del_other by congruence. apply HK.
    + rewrite Hbv, Hold, Hcnt, HC, Hlen. rewrite Hbv, Hold. reflexivity.
Qed.

Lemma run_refines ops : forall t m, R t m ->
  let '(t', xs) := nt_run hash t ops in
  let '(m', ys) := a_run m ops in
  R t' m' /\ xs = ys.
Proof.
  induction ops as [|o r IH]; intros t m HR; cbn [nt_run a_run]; [split; [exact HR|reflexivity]|].
  pose proof (step_refines t m o HR) as S.
  destruct (nt_step hash t o) as [t1 x]. destruct (a_step m o) as [m1 y]. destruct S as [HR1 Exy].
  specialize (IH t1 m1 HR1).
  destruct (nt_run hash t1 r) as [t2 xs]. destruct (a_run m1 r) as [m2 ys].
  destruct IH as [HR2 E]. split; [exact HR2|]. rewrite Exy, E. reflexivity.
Qed.

(** C20 (table half): for every hash function and every operation sequence the table's outputs
    (updated/success flags, returned pointers, ItemsCount after each op) equal those of an
    association map; and Get afterwards agrees for every key. *)
Theorem nt_refines_map ops :
  snd (nt_run hash nt_empty ops) = snd (a_run [] ops) /\
  (forall k, nt_get hash (fst (nt_run hash nt_empty ops)) k = a_get (fst (a_run [] ops)) k) /\
  nt_count (fst (nt_run hash nt_empty ops)) = Z.of_nat (length (fst (a_run [] ops))) /\
  NoDup (map fst (fst (a_run [] ops))).
Proof.
  pose proof (run_refines ops nt_empty [] R_empty) as H.
  destruct (nt_run hash nt_empty ops) as [t xs]. destruct (a_run [] ops) as [m ys].
  destruct H as [(HI & HG & HN & HC & _) E]. cbn [fst snd].
  split; [exact E|]. split; [|split; [exact HC|exact HN]].
  intros k. rewrite nt_get_bucket by exact HI. apply HG.
Qed.

Theorem nt_memory_spec ops :
  nt_memory (fst (nt_run hash nt_empty ops)) = (42 * Z.of_nat (length (fst (a_run [] ops))))%Z.
Proof.
  destruct (nt_refines_map ops) as (_ & _ & HC & _). unfold nt_memory. unfold nt_count in HC. lia.
Qed.

End Proofs.
