From NV Require Import Base.Bytes Table.NodeTable Table.NodeList.
From Coq Require Import ZifyN ZifyNat ZifyBool.
Open Scope N_scope.

Fixpoint linked (h : option node) (link : N -> option node) (g : list node) : Prop :=
  match g with
  | [] => h = None
  | n :: r => h = Some n /\ linked (link (nid n)) link r
  end.

Definition NLInv (l : nl) (g : list node) : Prop :=
  linked (nhead l) (nlink l) g /\ NoDup (map nid g) /\ (length g <= nfuel l)%nat.

Lemma upd_same {A} (f : N -> A) h v : upd f h v h = v.
Proof. unfold upd. rewrite N.eqb_refl. reflexivity. Qed.
Lemma upd_other {A} (f : N -> A) h v x : x <> h -> upd f h v x = f x.
Proof. unfold upd. intros H. destruct (N.eqb_spec x h); [contradiction|reflexivity]. Qed.

Lemma linked_upd_fresh h link g i v :
  ~ In i (map nid g) -> linked h link g -> linked h (upd link i v) g.
Proof.
  revert h. induction g as [|n r IH]; intros h Hni; cbn; [auto|].
  intros [Hh Hr]. split; [exact Hh|].
  rewrite upd_other by (intros E; apply Hni; left; exact E).
  apply IH; [intros A; apply Hni; right; exact A|exact Hr].
Qed.

Lemma add_inv l g n : NLInv l g -> ~ In (nid n) (map nid g) -> NLInv (nl_add l n) (n :: g).
Proof.
  intros (HL & HN & HF) Hfresh. unfold nl_add. split; [|split]; cbn.
  - split; [reflexivity|]. rewrite upd_same. apply linked_upd_fresh; assumption.
  - constructor; assumption.
  - lia.
Qed.

Lemma walk_keys_spec link g : forall fuel h,
  linked h link g -> (length g < fuel)%nat -> walk_keys fuel h link = Some (map nkey g).
Proof.
  induction g as [|n r IH]; intros fuel h; cbn [linked length map].
  - intros -> Hf. destruct fuel; [lia|reflexivity].
  - intros [-> Hr] Hf. destruct fuel as [|f]; [lia|]. cbn [walk_keys].
    rewrite (IH f) by (try exact Hr; lia). reflexivity.
Qed.

Theorem keys_spec l g : NLInv l g -> nl_keys l = Some (map nkey g).
Proof. intros (HL & _ & HF). apply walk_keys_spec; [assumption|lia]. Qed.

(** removing from the middle: prefix [pre] already walked, [prev] is its last node *)
Lemma linked_app h link a b :
  linked h link (a ++ b) <->
  linked h link a \/ True -> True.
Proof. tauto. Qed.

Lemma remove_walk_spec key l : forall g_all pre suf fuel prev cur,
  NLInv l g_all -> g_all = pre ++ suf ->
  (forall x, In x pre -> nkey x <> key) ->
  prev = last (map Some pre) None ->
  linked cur (nlink l) suf ->
  (length suf < fuel)%nat ->
  exists l' x, remove_walk fuel prev cur key l = Some (l', x) /\
    x = snd (spec_remove key suf) /\ NLInv l' (pre ++ fst (spec_remove key suf)).
Proof.
  intros g_all pre suf. revert pre. induction suf as [|n r IH]; intros pre fuel prev cur HI Hg Hpre Hprev Hcur Hfuel.
  - cbn in Hcur. subst cur. exists l, None. rewrite app_nil_r in *. subst g_all. destruct fuel; [cbn in Hfuel; lia|]. cbn. auto.
  - cbn [linked] in Hcur. destruct Hcur as [-> Hr]. destruct fuel as [|f]; [cbn in Hfuel; lia|]. cbn [remove_walk spec_remove].
    destruct (N.eqb_spec (nkey n) key) as [E|E].
    + cbn [fst snd].
      destruct HI as (HL & HN & HF). subst g_all.
      destruct pre as [|p0 pre'] eqn:Epre.
      * cbn in Hprev. subst prev. eexists _, _. split; [reflexivity|]. split; [reflexivity|].
        cbn [app] in *. cbn [linked] in HL. destruct HL as [Hh HL].
        split; [|split]; cbn [nhead nlink nfuel].
        -- exact HL.
        -- cbn in HN. inversion HN; assumption.
        -- cbn in HF. lia.
      * rewrite <- Epre in *.
        assert (Hne : pre <> []) by (rewrite Epre; discriminate).
        destruct (exists_last Hne) as (pre0 & pl & Epl).
        assert (Hprev' : prev = Some pl).
        { rewrite Hprev, Epl, map_app. cbn. rewrite last_last. reflexivity. }
        rewrite Hprev'. eexists _, _. split; [reflexivity|]. split; [reflexivity|].
        rewrite Epl in *. clear Epl Hne Epre Hprev Hprev'.
        rewrite <- app_assoc in HL, HF. cbn [app] in HL, HF.
        rewrite !map_app in HN. cbn [map] in HN. rewrite <- app_assoc in HN. cbn [app] in HN.
        rewrite <- app_assoc. cbn [app].
        split; [|split]; cbn [nhead nlink nfuel].
        -- (* chain with the node cut out *)
           assert (Hpl_fresh : ~ In (nid pl) (map nid r)).
           { apply NoDup_remove_2 in HN.
             rewrite in_app_iff in HN. intros A. apply HN. right. right. exact A. }
           assert (Hn_link : nlink l (nid n) = match r with [] => None | x :: _ => Some x end).
           { destruct r; cbn in Hr; [exact Hr|exact (proj1 Hr)]. }
           clear Hpre IH Hfuel HF.
           revert HL HN. generalize (nhead l) as h. induction pre0 as [|a pre0 IHp]; intros h HL HN; cbn [app linked] in *.
           ++ destruct HL as [Hh [Hpn Hrest]]. split; [exact Hh|]. rewrite upd_same.
              apply linked_upd_fresh; [exact Hpl_fresh|exact Hr].
           ++ destruct HL as [Hh HL]. split; [exact Hh|].
              inversion HN as [|? ? Hna HN']; subst.
              rewrite upd_other.
              ** apply IHp; assumption.
              ** intros Eq. apply Hna. rewrite in_app_iff. right. left. symmetry. exact Eq.
        -- rewrite map_app. cbn [map].
           replace (map nid pre0 ++ nid pl :: map nid r)
             with ((map nid pre0 ++ [nid pl]) ++ map nid r) by (rewrite <- app_assoc; reflexivity).
           apply NoDup_remove_1 with (a := nid n).
           rewrite <- app_assoc. exact HN.
        -- rewrite !app_length in *. cbn [length] in *. lia.
    + specialize (IH (pre ++ [n]) f (Some n) (nlink l (nid n)) HI).
      destruct IH as (l' & x & Hw & Hx & HI').
      * subst g_all. rewrite <- app_assoc. reflexivity.
      * intros y Hy. rewrite in_app_iff in Hy. destruct Hy as [Hy|[<-|[]]]; [apply Hpre; exact Hy|exact E].
      * rewrite map_app. cbn. rewrite last_last. reflexivity.
      * exact Hr.
      * cbn in Hfuel. lia.
      * exists l', x. split; [exact Hw|].
        destruct (spec_remove key r) as [r' x'] eqn:Es. cbn [fst snd] in *.
        split; [exact Hx|]. rewrite <- app_assoc in HI'. exact HI'.
Qed.

Theorem remove_spec l g key : NLInv l g ->
  exists l' x, nl_remove l key = Some (l', x) /\
    x = snd (spec_remove key g) /\ NLInv l' (fst (spec_remove key g)).
Proof.
  intros HI. unfold nl_remove.
  destruct HI as (HL & HN & HF).
  apply (remove_walk_spec key l g [] g (S (nfuel l)) None (nhead l)); auto; try lia.
  split; [|split]; assumption.
Qed.

(** adding a node that is already in the list makes the chain cyclic: Keys never returns *)
Example nl_add_twice_refuted :
  nl_keys (nl_add (nl_add (nl_add nl_empty (1, 10)) (2, 11)) (1, 10)) = None.
Proof. vm_compute. reflexivity. Qed.
