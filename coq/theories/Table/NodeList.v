(** Model of nodelist.go: a singly linked list threaded through Node.Link.
    A node is (key, id); the Link field is a finite map from node id to the next node. *)
From NV Require Import Base.Bytes Table.NodeTable.
Open Scope N_scope.

Notation node := (N * N)%type (only parsing).
Definition nkey (n : node) : N := fst n.
Definition nid (n : node) : N := snd n.

Record nl := { nhead : option node; nlink : N -> option node; nfuel : nat }.
(** [nfuel] is ghost: an upper bound on the chain length, used only as recursion fuel *)

Definition nl_empty : nl := {| nhead := None; nlink := fun _ => None; nfuel := 0 |}.

(** nodelist.go:62-65 *)
Definition nl_add (l : nl) (n : node) : nl :=
  {| nhead := Some n; nlink := upd (nlink l) (nid n) (nhead l); nfuel := S (nfuel l) |}.

(** nodelist.go:27-37; None = the walk did not terminate within the fuel (a cycle) *)
Fixpoint walk_keys (fuel : nat) (cur : option node) (link : N -> option node) : option (list N) :=
  match fuel with
  | O => None
  | S f =>
    match cur with
    | None => Some []
    | Some n => match walk_keys f (link (nid n)) link with
                | Some ks => Some (nkey n :: ks)
                | None => None
                end
    end
  end.
Definition nl_keys (l : nl) : option (list N) := walk_keys (S (nfuel l)) (nhead l) (nlink l).

(** nodelist.go:40-59 *)
Fixpoint remove_walk (fuel : nat) (prev cur : option node) (key : N) (l : nl) : option (nl * option node) :=
  match fuel with
  | O => None
  | S f =>
    match cur with
    | None => Some (l, None)
    | Some n =>
      if nkey n =? key then
        match prev with
        | None => Some ({| nhead := nlink l (nid n); nlink := nlink l; nfuel := nfuel l |}, Some n)
        | Some p => Some ({| nhead := nhead l; nlink := upd (nlink l) (nid p) (nlink l (nid n)); nfuel := nfuel l |}, Some n)
        end
      else remove_walk f (Some n) (nlink l (nid n)) key l
    end
  end.
Definition nl_remove (l : nl) (key : N) : option (nl * option node) :=
  remove_walk (S (nfuel l)) None (nhead l) key l.

(** specification: a list of nodes *)
Fixpoint spec_remove (key : N) (l : list node) : list node * option node :=
  match l with
  | [] => ([], None)
  | n :: r => if nkey n =? key then (r, Some n)
              else let '(r', x) := spec_remove key r in (n :: r', x)
  end.
