(** Model of nodetable/table.go: fast table + overflow (slow) table + conflict bit.
    A "pointer" is a pair (key, id): the key is what the user's EqualKeyFn reads through the
    pointer, the id is the allocation identity.  The bit-63 tagging of table.go:237-254 is
    modelled by its contract: a stored value is a pair (pointer, conflict flag). *)
From NV Require Import Base.Bytes.
Open Scope N_scope.

Notation ptr := (N * N)%type (only parsing).
Definition keyof (p : ptr) : N := fst p.

Definition upd {A} (f : N -> A) (h : N) (v : A) : N -> A := fun x => if x =? h then v else f x.

Record nt := {
  fast : N -> option (ptr * bool);
  slow : N -> list ptr;
  fastC : Z; slowC : Z; confl : Z
}.

Definition nt_empty : nt :=
  {| fast := fun _ => None; slow := fun _ => []; fastC := 0; slowC := 0; confl := 0 |}.

Inductive fres :=
| NotFound (hasEntry hasConflict : bool)
| InFast (p : ptr) (c : bool)
| InSlow (i : nat) (vs : list ptr).

Fixpoint find_slow (key : N) (vs : list ptr) (i : nat) : option nat :=
  match vs with
  | [] => None
  | v :: r => if keyof v =? key then Some i else find_slow key r (S i)
  end.

Fixpoint set_nth {A} (i : nat) (l : list A) (v : A) : list A :=
  match l, i with
  | [], _ => []
  | _ :: r, O => v :: r
  | x :: r, S j => x :: set_nth j r v
  end.

Fixpoint del_nth {A} (i : nat) (l : list A) : list A :=
  match l, i with
  | [], _ => []
  | _ :: r, O => r
  | x :: r, S j => x :: del_nth j r
  end.

Section NT.
Variable hash : N -> N.

(** table.go:256-286 *)
Definition find (t : nt) (key : N) : fres :=
  let h := hash key in
  match fast t h with
  | None => NotFound false false
  | Some (p, c) =>
    if keyof p =? key then InFast p c
    else if c then
      match find_slow key (slow t h) 0 with
      | Some i => InSlow i (slow t h)
      | None => NotFound true c
      end
    else NotFound true c
  end.

(** table.go:110-121 *)
Definition nt_get (t : nt) (key : N) : option ptr :=
  match find t key with
  | InFast p _ => Some p
  | InSlow i vs => nth_error vs i
  | NotFound _ _ => None
  end.

(** table.go:124-163.  The new pointer is (key, id): the caller passes a pointer whose key is [key]. *)
Definition nt_update (t : nt) (key id : N) : nt * (bool * option ptr) :=
  let h := hash key in
  let np : ptr := (key, id) in
  match find t key with
  | InFast old c =>
    ({| fast := upd (fast t) h (Some (np, c)); slow := slow t;
        fastC := fastC t; slowC := slowC t; confl := confl t |}, (true, Some old))
  | InSlow i vs =>
    ({| fast := fast t; slow := upd (slow t) h (set_nth i vs np);
        fastC := fastC t; slowC := slowC t; confl := confl t |}, (true, nth_error vs i))
  | NotFound hasEntry c =>
    let newSlow := hasEntry && negb c in
    if c || newSlow then
      ({| fast := if newSlow
                  then upd (fast t) h (match fast t h with Some (q, _) => Some (q, true) | None => None end)
                  else fast t;
          slow := upd (slow t) h (slow t h ++ [np]);
          fastC := fastC t; slowC := (slowC t + 1)%Z;
          confl := if newSlow then (confl t + 1)%Z else confl t |}, (false, None))
    else
      ({| fast := upd (fast t) h (Some (np, false)); slow := slow t;
          fastC := (fastC t + 1)%Z; slowC := slowC t; confl := confl t |}, (false, None))
  end.

(** table.go:166-215 *)
Definition nt_remove (t : nt) (key : N) : nt * (bool * option ptr) :=
  let h := hash key in
  match find t key with
  | InFast p c =>
    if c then
      match slow t h with
      | v :: vs' =>
        ({| fast := upd (fast t) h (Some (v, match vs' with [] => false | _ => true end));
            slow := upd (slow t) h vs';
            fastC := fastC t; slowC := (slowC t - 1)%Z;
            confl := match vs' with [] => (confl t - 1)%Z | _ => confl t end |}, (true, Some p))
      | [] => (t, (true, None))      (* index out of range in Go; unreachable under the invariant *)
      end
    else
      ({| fast := upd (fast t) h None; slow := slow t;
          fastC := (fastC t - 1)%Z; slowC := slowC t; confl := confl t |}, (true, Some p))
  | InSlow i vs =>
    let vs' := del_nth i vs in
    ({| fast := match vs' with
                | [] => upd (fast t) h (match fast t h with Some (q, _) => Some (q, false) | None => None end)
                | _ => fast t
                end;
        slow := upd (slow t) h vs';
        fastC := fastC t; slowC := (slowC t - 1)%Z;
        confl := match vs' with [] => (confl t - 1)%Z | _ => confl t end |}, (true, nth_error vs i))
  | NotFound _ _ => (t, (false, None))
  end.

Definition nt_count (t : nt) : Z := (fastC t + slowC t)%Z.
Definition nt_memory (t : nt) : Z := (42 * (fastC t + slowC t))%Z.

(** operations and outputs *)
Inductive op := OUpdate (key id : N) | OGet (key : N) | ORemove (key : N).
(** output: (flag, pointer) then ItemsCount after the op *)
Definition out := (bool * option ptr * Z)%type.

Definition nt_step (t : nt) (o : op) : nt * out :=
  match o with
  | OUpdate k id => let '(t', (b, p)) := nt_update t k id in (t', (b, p, nt_count t'))
  | OGet k => (t, (match nt_get t k with Some _ => true | None => false end, nt_get t k, nt_count t))
  | ORemove k => let '(t', (b, p)) := nt_remove t k in (t', (b, p, nt_count t'))
  end.

Fixpoint nt_run (t : nt) (ops : list op) : nt * list out :=
  match ops with
  | [] => (t, [])
  | o :: r => let '(t', x) := nt_step t o in let '(t'', xs) := nt_run t' r in (t'', x :: xs)
  end.

End NT.

(** The specification: an association list with distinct keys. *)
Definition amap := list (N * ptr).

Fixpoint a_get (m : amap) (k : N) : option ptr :=
  match m with
  | [] => None
  | (k', p) :: r => if k' =? k then Some p else a_get r k
  end.

Fixpoint a_del (m : amap) (k : N) : amap :=
  match m with
  | [] => []
  | (k', p) :: r => if k' =? k then a_del r k else (k', p) :: a_del r k
  end.

Definition a_set (m : amap) (k : N) (p : ptr) : amap := (k, p) :: a_del m k.

Definition a_step (m : amap) (o : op) : amap * out :=
  match o with
  | OUpdate k id =>
    let m' := a_set m k (k, id) in
    (m', (match a_get m k with Some _ => true | None => false end, a_get m k, Z.of_nat (length m')))
  | OGet k => (m, (match a_get m k with Some _ => true | None => false end, a_get m k, Z.of_nat (length m)))
  | ORemove k =>
    let m' := a_del m k in
    (m', (match a_get m k with Some _ => true | None => false end, a_get m k, Z.of_nat (length m')))
  end.

Fixpoint a_run (m : amap) (ops : list op) : amap * list out :=
  match ops with
  | [] => (m, [])
  | o :: r => let '(m', x) := a_step m o in let '(m'', xs) := a_run m' r in (m'', x :: xs)
  end.
