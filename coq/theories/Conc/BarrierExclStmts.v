(** C16, exclusiveness of destruction: destructor callbacks are invoked only inside doCleanup, under
    the try-lock, and at most one goroutine is inside doCleanup at any time — so the destructor of a
    flush never starts while the destructor of an earlier flush has not returned, however long a
    callback takes.  For ALL programs and ALL schedules of the barrier step machine. *)
From Coq Require Import List Arith ZArith Lia Bool.
From NV Require Import Base.Sched Conc.Barrier.
Import ListNotations.
Open Scope Z_scope.

(** between winning the try-lock and resetting it *)
Definition in_cleanup (o : option local) : bool :=
  match o with Some (LClean _ _) | Some (LCleanEnd _) => true | _ => false end.

Definition stmt_one_cleaner : Prop :=
  forall progs sched, Z.of_nat (length (concat progs)) < offset ->
    let y := runS true (init progs) sched in
    (forall i j ti tj, nth_error (ths y) i = Some ti -> nth_error (ths y) j = Some tj ->
       in_cleanup (cur ti) = true -> in_cleanup (cur tj) = true -> i = j) /\
    (running (sh y) = true <-> exists i t, nth_error (ths y) i = Some t /\ in_cleanup (cur t) = true).

(** the only step that extends the list of destructed sessions is a step of a goroutine standing inside
    doCleanup with the try-lock held, and it extends it by exactly one entry *)
Definition stmt_destructor_in_cleanup : Prop :=
  forall progs sched i, Z.of_nat (length (concat progs)) < offset ->
    let y := runS true (init progs) sched in
    let y' := stepS true y i in
    destructed (sh y') <> destructed (sh y) ->
    (exists t c k, nth_error (ths y) i = Some t /\ cur t = Some (LClean c k)) /\
    running (sh y) = true /\
    exists e, destructed (sh y') = destructed (sh y) ++ [e].
